import TLVerif.Util.Hex
import TLVerif.Rpccalls.ClientConn
import TLVerif.Rpccalls.WorkerPool
import TLVerif.Rpccalls.ReqMem
import TLVerif.Generated.RpccallsFacts
/-!
Line-protocol handler of the `rpccalls` family.  Every line is one complete history:

* `rpccalls.cc <op,op,…>`            history of one `clientConn` (see `parseOp`)
* `rpccalls.wp <create> <op,op,…>`    history of one `workerPool`
* `rpccalls.rm <size> <buf> <op,…>`   history of the request-memory semaphore of one `Server`

The result is the observation after every step (`step|step|…`): events of the step, `#`, state.
-/
namespace TLVerif.Rpccalls
open TLVerif.Util

def joinWith (sep : String) (xs : List String) : String := sep.intercalate xs

/-! ### clientConn -/

def parseFlags (s : String) : Option (Bool × Deadline × Bool) :=
  if s == "-" then some (false, .none, false)
  else
    let cs := s.toList
    if cs.all (fun c => c == 'f' || c == 'p' || c == 'u' || c == 'c') then
      some (cs.contains 'f', (if cs.contains 'p' then .past else if cs.contains 'u' then .future else .none),
            cs.contains 'c')
    else none

/-- `owner` is the ordinal of the setup op in the line (owners are distinct by construction) -/
def parseOp (owner : Nat) (s : String) : Option Op :=
  match s.toList with
  | ['F'] => some .sfin
  | ['U'] => some .unk
  | ['B'] => some .bi
  | ['S'] => some .send
  | ['C'] => some .connect
  | ['D'] => some .drop
  | ['G'] => some .gc
  | ['X'] => some .close
  | ['d', '0'] => some (.disc false)
  | ['d', '1'] => some (.disc true)
  | 's' :: rest =>
    match (String.ofList rest).splitOn ":" with
    | [q, fl] => match q.toNat?, parseFlags fl with
      | some q, some (f, dl, cb) => some (.setup owner q f dl cb)
      | _, _ => none
    | _ => none
  | 'x' :: rest => (String.ofList rest).toNat?.map .cancel
  | 'r' :: rest =>
    match (String.ofList rest).splitOn ":" with
    | [q, p] => match q.toNat?, p.toNat? with
      | some q, some p => some (.resp q p)
      | _, _ => none
    | _ => none
  | 'e' :: rest =>
    match (String.ofList rest).splitOn ":" with
    | [q, p] => match q.toNat?, p.toNat? with
      | some q, some p => some (.rerr q p)
      | _, _ => none
    | _ => none
  | _ => none

def parseOps : Nat → List String → Option (List Op)
  | _, [] => some []
  | n, s :: t =>
    match parseOp n s with
    | none => none
    | some op =>
      let n' := match op with
        | .setup .. => n + 1
        | _ => n
      (parseOps n' t).map (op :: ·)

def resStr : Res → String
  | .resp _ p => s!"ok{p}"
  | .rpcErr _ c => s!"re{c}"
  | .sideEffect => "se"
  | .noSideEffect => "ns"
  | .deadline => "dl"

def evStr : Ev → String
  | .deliver o cb q r => s!"d{o}:{if cb then 1 else 0}:{q}:{resStr r}"
  | .cancelled o q u => s!"x{o}:{q}:{if u then "u" else "s"}"
  | .pkt (.req q) => s!"pr{q}"
  | .pkt (.cancel q) => s!"pc{q}"
  | .pkt .fin => "pf"
  | .closeConn => "cl"
  | .ret n => s!"ret{n}"

def isDeliver : Ev → Bool
  | .deliver .. => true
  | _ => false

def evOwner : Ev → Nat
  | .deliver o .. => o
  | _ => 0

/-- canonical order of one step's events: everything else in order, then deliveries by owner -/
def canonEvs (evs : List Ev) : List Ev :=
  evs.filter (fun e => !isDeliver e) ++ (evs.filter isDeliver).mergeSort (fun a b => evOwner a ≤ evOwner b)

def b01 (b : Bool) : String := if b then "1" else "0"

def stateStr (σ : Conn) : String :=
  let calls := σ.calls.mergeSort (fun a b => a.1 ≤ b.1)
  let cs := calls.map (fun kc => s!"{kc.1}.{kc.2.owner}.{if kc.2.unsent then "u" else "s"}")
  let ws := σ.writeQ.map (fun w => match w with
    | .req o q => s!"r{o}.{q}"
    | .cancel q => s!"c{q}")
  s!"c={joinWith "+" cs};w={joinWith "+" ws};n={σ.inFlight};f=" ++ b01 σ.isShutdown ++ b01 σ.wantsFin ++
    b01 σ.builtin ++ b01 σ.hasConn ++ b01 σ.waiting ++ b01 σ.isOpen

/-- driver-level op: a primitive critical section, or `W` = one turn of the `goConnect` loop:
`sendLoop` if there is a connection, else `continueRunningImpl(true)`, `setClientConn`, `sendLoop` -/
inductive DOp where
  | prim (op : Op)
  | loop

def loopOps (σ : Conn) : List Op := if σ.hasConn then [.send] else [.disc true, .connect, .send]

def parseDOps : Nat → List String → Option (List DOp)
  | _, [] => some []
  | n, s :: t =>
    if s == "W" then (parseDOps n t).map (DOp.loop :: ·)
    else match parseOp n s with
      | none => none
      | some op =>
        let n' := match op with
          | .setup .. => n + 1
          | _ => n
        (parseDOps n' t).map (DOp.prim op :: ·)

def runCC : Conn → List DOp → List String → List String
  | _, [], acc => acc.reverse
  | σ, d :: ops, acc =>
    let prims := match d with
      | .prim op => [op]
      | .loop => loopOps σ
    match run σ prims with
    | .error _ => ("panic" :: acc).reverse
    | .ok (σ1, evs) =>
      runCC σ1 ops ((joinWith "," ((canonEvs evs).map evStr) ++ "#" ++ stateStr σ1) :: acc)

/-! ### workerPool -/


def pevStr : PEv → String
  | .got w n => s!"g{w}{if n then "n" else ""}"
  | .closedRet => "gx"
  | .blocked => "b"
  | .chanClosed w => s!"cc{w}"

def isChanClosed : PEv → Bool
  | .chanClosed _ => true
  | _ => false

def pevKey : PEv → Nat
  | .chanClosed w => w
  | _ => 0

def canonPEvs (evs : List PEv) : List PEv :=
  evs.filter (fun e => !isChanClosed e) ++ (evs.filter isChanClosed).mergeSort (fun a b => pevKey a ≤ pevKey b)

def poolStr (p : Pool) : String :=
  s!"f={joinWith "+" (p.free.map toString)};c={p.created};w={p.waiting};x={b01 p.closed}"

/-- `n` re-checks (one per `Signal`, `waiting` many for `Broadcast`) -/
def rechecks : Nat → Pool → List PEv → Pool × List PEv
  | 0, p, acc => (p, acc)
  | n + 1, p, acc =>
    let (p1, e) := p.step .recheck
    rechecks n p1 (acc ++ e)

/-- one driver-level operation = the critical section plus the wake-ups its `Signal`/`Broadcast` causes;
`none`: the line violates the protocol (`Put` of a worker that is not out) -/
def poolOp (p : Pool) (s : String) : Option (Pool × List PEv) :=
  match s.toList with
  | ['g'] => some (p.step .getEnter)
  | ['k'] => some (p.step .recheck)
  | ['X'] =>
    let (p1, e1) := p.step .close
    some (rechecks p.waiting p1 e1)
  | ['c', '0'] => some (p.step (.gc false))
  | ['c', '1'] => some (p.step (.gc true))
  | 'p' :: rest =>
    match (String.ofList rest).splitOn ":" with
    | [w, e] => match w.toNat?, e with
      | some w, "0" | some w, "1" =>
        if !(POp.guard p (.put w (e == "1"))) then none
        else
          let (p1, e1) := p.step (.put w (e == "1"))
          if p.closed then some (p1, e1) else some (rechecks 1 p1 e1)
      | _, _ => none
    | _ => none
  | _ => none

def runWP : Pool → List String → List String → List String
  | _, [], acc => acc.reverse
  | p, s :: t, acc =>
    match poolOp p s with
    | none => ("bad" :: acc).reverse
    | some (p1, evs) => runWP p1 t ((joinWith "," ((canonPEvs evs).map pevStr) ++ "#" ++ poolStr p1) :: acc)

/-! ### request memory -/

def sevStr : SEv → String
  | .admitted i => s!"a{i}"
  | .tryFail i => s!"t{i}"
  | .queued i => s!"q{i}"
  | .doomed i => s!"z{i}"
  | .woken i => s!"w{i}"
  | .cancelled i => s!"x{i}"
  | .released i => s!"r{i}"
  | .panic => "panic"

def semStr (s : Sem) : String :=
  s!"cur={s.cur};size={s.size};q={joinWith "+" (s.waiters.map (fun w => s!"{w.1}.{w.2}"))}"

/-- `acquireRequestSema(ctx, requestBufTake(body))` = `TryAcquire`, then `Acquire` if that failed -/
def semAcq (buf : Int) (s : Sem) (i : Nat) (len : Int) : Sem × List SEv :=
  let n := requestBufTake buf len
  let (s1, e1) := s.step (.tryAcq i n)
  if e1 == [.admitted i] then (s1, e1)
  else
    let (s2, e2) := s1.step (.acquire i n)
    (s2, e1 ++ e2)

/-- `a<id>:<size>`: `acquireRequestSema(ctx, requestBufTake(size))` called directly;
`k<id>:<body>`: a packet with `body` bytes arrives on its own connection and `Server.receiveLoopImpl` accounts for it
(`requestBufTake(header.length)`, the packet length includes the 16 bytes of framing);
`x<id>`: the context is cancelled / the connection is closed while the request waits: `Acquire` fails, and the
receive loop releases the handler context of a request that never got memory (`releaseRequestBuf(hctx.reqTaken)`);
`r<id>`: the handler of an admitted request returns / `releaseRequestBuf` -/
def semOp (buf : Int) (s : Sem) (str : String) : Option (Sem × List SEv) :=
  match str.toList with
  | 'a' :: rest =>
    match (String.ofList rest).splitOn ":" with
    | [i, b] => match i.toNat?, b.toNat? with
      | some i, some b => some (semAcq buf s i b)
      | _, _ => none
    | _ => none
  | 'k' :: rest =>
    match (String.ofList rest).splitOn ":" with
    | [i, b] => match i.toNat?, b.toNat? with
      | some i, some b =>
        if b % 4 != 0 || b < 12 || b > 1048576 then none else some (semAcq buf s i (b + 16))
      | _, _ => none
    | _ => none
  | 'r' :: rest => (String.ofList rest).toNat?.map (fun i => s.step (.release i))
  | 'x' :: rest => (String.ofList rest).toNat?.map (fun i =>
      let wasQueued := (heldAmount i s.waiters).isSome
      let (s1, e1) := s.step (.cancel i)
      -- the failed request's handler context is released: it holds nothing (`failed_acquire_releases_nothing`)
      if wasQueued then let (s2, e2) := s1.step (.release i); (s2, e1 ++ e2) else (s1, e1))
  | _ => none

def runRM (buf : Int) : Sem → List String → List String → List String
  | _, [], acc => acc.reverse
  | s, o :: t, acc =>
    match semOp buf s o with
    | none => ("bad" :: acc).reverse
    | some (s1, evs) =>
      if evs.contains .panic then ("panic" :: acc).reverse
      else runRM buf s1 t ((joinWith "," (evs.map sevStr) ++ "#" ++ semStr s1) :: acc)

def splitOps (s : String) : List String := if s == "-" then [] else s.splitOn ","

def handle (op : String) (args : List String) : String :=
  match op, args with
  | "cc", [ops] =>
    match parseDOps 1 (splitOps ops) with
    | none => "bad-op"
    | some l => joinWith "|" (runCC Conn.init l [])
  | "wp", [create, ops] =>
    match create.toInt? with
    | none => "bad-op"
    | some c => joinWith "|" (runWP (Pool.new c) (splitOps ops) [s!"create={(Pool.new c).create}"])
  | "rm", [size, buf, ops] =>
    match size.toNat?, buf.toNat? with
    | some sz, some b => joinWith "|" (runRM b (Sem.new sz) (splitOps ops) [])
    | _, _ => "bad-op"
  | "srv", [limit, buf, workers] =>
    -- `NewServer(ServerWithRequestMemoryLimit, ServerWithRequestBufSize, ServerWithMaxWorkers)`: what the limits become
    match limit.toInt?, buf.toInt?, workers.toInt? with
    | some l, some b, some w =>
      let size : Int := if l > Facts.Rpccalls.maxPacketLen then l else Facts.Rpccalls.maxPacketLen
      let bs : Int := if b > 512 then b else 512   -- bytes.MinRead
      let mw : Int := if w ≥ 0 then w else Facts.Rpccalls.defaultMaxWorkers
      s!"size={size};buf={bs};maxworkers={mw};create={(Pool.new mw).create}"
    | _, _, _ => "bad-op"
  | _, _ => "bad-op"

end TLVerif.Rpccalls
