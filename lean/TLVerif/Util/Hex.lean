/-! Hex and small parsing helpers for the line-protocol driver (core only). -/
namespace TLVerif.Util

def hexDigit (n : Nat) : Char :=
  if n < 10 then Char.ofNat (48 + n) else Char.ofNat (87 + n)

def hexOfBytes (bs : List UInt8) : String :=
  if bs.isEmpty then "-" else
  String.ofList (bs.foldr (fun b acc => hexDigit (b.toNat / 16) :: hexDigit (b.toNat % 16) :: acc) [])

def hexVal (c : Char) : Option Nat :=
  if '0' ≤ c ∧ c ≤ '9' then some (c.toNat - 48)
  else if 'a' ≤ c ∧ c ≤ 'f' then some (c.toNat - 87)
  else if 'A' ≤ c ∧ c ≤ 'F' then some (c.toNat - 55)
  else none

def bytesOfHexAux : List Char → List UInt8 → Option (List UInt8)
  | [], acc => some acc.reverse
  | [_], _ => none
  | a :: b :: t, acc =>
    match hexVal a, hexVal b with
    | some x, some y => bytesOfHexAux t (UInt8.ofNat (x * 16 + y) :: acc)
    | _, _ => none

/-- "-" denotes the empty byte string. -/
def bytesOfHex (s : String) : Option (List UInt8) :=
  if s == "-" then some [] else bytesOfHexAux s.toList []

def words (s : String) : List String :=
  (s.splitOn " ").filter (· ≠ "")

end TLVerif.Util
