import TLVerif.Syntax.PError
import TLVerif.Util.Hex
/-!
Canonical one-line dumps of tokens, syntax trees and errors for the line protocol
(the Go harness `go/hsyntax` prints the same format from the real structures).
-/
namespace TLVerif.Syntax
open TLVerif.Util

def asStr (bs : Bytes) : String := String.ofList (bs.map (fun b => Char.ofNat b.toNat))

def hexs (bs : Bytes) : String := if bs.isEmpty then "" else hexOfBytes bs

/-- printable-ASCII projection (bytes 0x21..0x7e), hex -/
def hexproj (bs : Bytes) : String := hexs (bs.filter (fun b => 0x21 ≤ b && b ≤ 0x7e))

def joinWith (sep : String) (xs : List String) : String := sep.intercalate xs

def Arith.dump (a : Arith) : String :=
  joinWith "+" (a.nums.map toString) ++ "=" ++ toString a.res

mutual
def TypeRef.dump : TypeRef → String
  | .mk ty args bare =>
    (if bare then "%" else "") ++ asStr ty.str ++
    (match args with
     | [] => ""
     | a :: as => "<" ++ a.dump ++ argsDump as ++ ">")
def AOT.dump : AOT → String
  | .arith a => "=" ++ a.dump
  | .type t => t.dump
def argsDump : List AOT → String
  | [] => ""
  | a :: as => "," ++ a.dump ++ argsDump as
end

def maskDump : Option FieldMask → String
  | none => ""
  | some m => asStr m.name ++ "." ++ toString m.bit

def scaleDump : Option ScaleFactor → String
  | none => ""
  | some (.name s) => "n:" ++ asStr s
  | some (.arith a) => "a:" ++ a.dump

mutual
def Field.dump : Field → String
  | .mk name mask excl body nl cb cr =>
    "{" ++ asStr name ++ "|" ++ maskDump mask ++ "|" ++ (if excl then "!" else "") ++ "|" ++ body.dump ++ "|" ++
    (if nl then "N" else "") ++ "|" ++ hexproj cb ++ "|" ++ hexproj cr ++ "}"
def FieldBody.dump : FieldBody → String
  | .type t => "T" ++ t.dump
  | .rep scale rep => "R" ++ scaleDump scale ++ "[" ++ fieldsDump rep true ++ "]"
def fieldsDump : List Field → Bool → String
  | [], _ => ""
  | f :: fs, first => (if first then "" else ",") ++ f.dump ++ fieldsDump fs false
end

def Combinator.dump (c : Combinator) : String :=
  "C[" ++ (if c.builtin then "B" else "-") ++ (if c.isFunction then "F" else "-") ++ ";" ++
  joinWith "," (c.mods.map asStr) ++ ";" ++
  asStr c.construct.name.str ++ "#" ++ asStr (hex8 c.construct.id) ++ (if c.construct.explicit then "e" else "i") ++ ";" ++
  joinWith "," (c.targs.map (fun t => asStr t.name ++ (if t.isNat then ":#" else ":T"))) ++ ";" ++
  fieldsDump c.fields true ++ ";" ++
  "t:" ++ asStr c.typeDecl.name.str ++ "(" ++ joinWith "," (c.typeDecl.args.map asStr) ++ ");" ++
  "f:" ++ c.funcDecl.dump ++ ";" ++ hexproj c.cb ++ ";" ++ hexproj c.cr ++ "]"

def Item.dump : Item → String
  | .section fs cb => "S" ++ (if fs then "f" else "t") ++ ":" ++ hexproj cb
  | .comb c => c.dump

def TL.dump (tl : TL) : String :=
  joinWith " " (tl.items.map Item.dump ++ ["A:" ++ hexproj tl.commentAfter])

def Pos.dump (p : Pos) : String := s!"{p.off}.{p.slo}.{p.line}.{p.col}"

def Token.dump (t : Token) : String := s!"{t.ty.code}:{t.val.length}:{t.pos.dump}"

def crcHex (bs : Bytes) : String := asStr (hex8 (crc32 bs))

/-- error line: positions and CRC-32 of the two console renderings (error / warning) -/
def PErr.dump (kind : String) (e : PErr) (fc : Bytes) : String :=
  let file := strBytes "x.tl"
  let cp (w : Bool) : String :=
    match e.consolePrint fc [69] file w with
    | none => "panic"
    | some out => crcHex out
  s!"err {kind} b={e.begin.dump} e={e.end.dump} o={e.outer.dump} cp={cp false} cpw={cp true}"

end TLVerif.Syntax
