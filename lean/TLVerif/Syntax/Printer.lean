import TLVerif.Syntax.Ast
import TLVerif.Syntax.Crc32
/-!
Model of the quicktemplate printers of `internal/tlast/qt_tlparser.qtpl(.go)`:
the `String()` family (C21), `toCrc32`/`canonicalForm` (C23) and of
`internal/tlast/qt_combined2tl.qtpl(.go)`: `canonicalFormWithTag` / `Generate2TL` (C25),
and `tlcrc32.go`.
-/
namespace TLVerif.Syntax

def digitByte (n : Nat) : UInt8 := UInt8.ofNat (48 + n % 10)

/-- decimal digits, most significant first (`DUL`) -/
def decBytesAux : Nat → Nat → Bytes → Bytes
  | 0, _, acc => acc
  | fuel + 1, n, acc => if n < 10 then digitByte n :: acc else decBytesAux fuel (n / 10) (digitByte n :: acc)

def decBytes (n : Nat) : Bytes := decBytesAux (n + 1) n []

def hexDigitByte (n : Nat) : UInt8 := if n < 10 then UInt8.ofNat (48 + n) else UInt8.ofNat (87 + n)

/-- `fmt.Sprintf("%08x", id)` -/
def hex8 (id : UInt32) : Bytes :=
  let n := id.toNat
  [hexDigitByte (n / 0x10000000 % 16), hexDigitByte (n / 0x1000000 % 16), hexDigitByte (n / 0x100000 % 16),
   hexDigitByte (n / 0x10000 % 16), hexDigitByte (n / 0x1000 % 16), hexDigitByte (n / 0x100 % 16),
   hexDigitByte (n / 0x10 % 16), hexDigitByte (n % 16)]

def Name.str (n : Name) : Bytes :=
  if n.ns ≠ [] then n.ns ++ [cDot] ++ n.name else n.name

/-- `Arithmetic.String()`: numbers joined by " + " -/
def Arith.str (a : Arith) : Bytes :=
  match a.nums with
  | [] => []
  | x :: rest => decBytes x ++ (rest.map (fun y => [cSpace, cPlus, cSpace] ++ decBytes y)).flatten

mutual
/-- `TypeRef.String()` -/
def TypeRef.str : TypeRef → Bytes
  | .mk ty args bare =>
    (if bare then [cPercent] else []) ++
    (match args with
     | [] => ty.str
     | a :: as => [cLRound] ++ ty.str ++ argsStr (a :: as) ++ [cRRound])
/-- `ArithmeticOrType.String()` -/
def AOT.str : AOT → Bytes
  | .arith a => a.str
  | .type t => t.str
/-- `for _, x := range t.Args { " " x.String() }` -/
def argsStr : List AOT → Bytes
  | [] => []
  | a :: as => [cSpace] ++ a.str ++ argsStr as
end

/-- `TypeRef.TopLevelString()` -/
def TypeRef.topStr : TypeRef → Bytes
  | .mk ty args bare => (if bare then [cPercent] else []) ++ ty.str ++ argsStr args

/-- `unicode.IsLower(rune(b))` for a byte (Latin-1 range) -/
def isLowerByte (b : UInt8) : Bool :=
  (97 ≤ b && b ≤ 122) || b == 0xB5 || (0xDF ≤ b && b != 0xF7)

/-- the `%` of `toCrc32`: bare and the name is empty or does not start with a lower-case letter -/
def crcBareMark (ty : Name) (bare : Bool) : Bytes :=
  if bare && (match ty.name with | [] => true | c :: _ => !isLowerByte c) then [cPercent] else []

mutual
/-- `TypeRef.toCrc32()` -/
def TypeRef.crc : TypeRef → Bytes
  | .mk ty args bare => crcBareMark ty bare ++ ty.str ++ argsCrc args
/-- `ArithmeticOrType.toCrc32()` -/
def AOT.crc : AOT → Bytes
  | .arith a => decBytes a.res
  | .type t => t.crc
def argsCrc : List AOT → Bytes
  | [] => []
  | a :: as => [cSpace] ++ a.crc ++ argsCrc as
end

/-- `FieldMask.String()` -/
def FieldMask.str (m : FieldMask) : Bytes := m.name ++ [cDot] ++ decBytes m.bit ++ [cQuestion]

def maskStr : Option FieldMask → Bytes
  | none => []
  | some m => m.str

def nameColon (n : Bytes) : Bytes := if n ≠ [] then n ++ [cColon] else []

/-- `ScaleFactor.String()` -/
def ScaleFactor.str : ScaleFactor → Bytes
  | .arith a => [cLRound] ++ a.str ++ [cRRound]
  | .name s => s

mutual
/-- `Field.String()` -/
def Field.str : Field → Bytes
  | .mk name mask excl body _ _ _ =>
    nameColon name ++ maskStr mask ++ (if excl then [cExcl] else []) ++ body.str
def FieldBody.str : FieldBody → Bytes
  | .type t => t.str
  | .rep scale rep =>
    (match scale with | some sc => sc.str ++ [cAsterisk] | none => []) ++ [cLSquare] ++ repStr rep true ++ [cRSquare]
/-- fields separated by one space -/
def repStr : List Field → Bool → Bytes
  | [], _ => []
  | f :: fs, first => (if first then [] else [cSpace]) ++ f.str ++ repStr fs false
end

/-- the scale part of `RepeatWithScale.toCrc32()` -/
def scaleCrc : Option ScaleFactor → Bytes
  | none => []
  | some (.arith a) => decBytes a.res ++ [cAsterisk]
  | some (.name s) => s ++ [cAsterisk]

mutual
/-- `RepeatWithScale.toCrc32()` -/
def rwsCrc (scale : Option ScaleFactor) (rep : List Field) : Bytes :=
  scaleCrc scale ++ [cLSquare] ++ repCrc rep ++ [cSpace, cRSquare]
/-- the loop over `rws.Rep`: a repeated inner field prints its name and recursive `toCrc32`
(its mask and `!` are dropped), any other inner field prints `Field.String()` -/
def repCrc : List Field → Bytes
  | [] => []
  | (.mk name mask excl body nl cb cr) :: fs =>
    [cSpace] ++
    (match body with
     | .rep scale rep => nameColon name ++ rwsCrc scale rep
     | .type t => (Field.mk name mask excl (.type t) nl cb cr).str) ++
    repCrc fs
end

/-- `Field.ToCrc32()` and the field loop body of `canonicalForm` -/
def Field.crc : Field → Bytes
  | .mk name mask _ body _ _ _ =>
    nameColon name ++ maskStr mask ++
    (match body with
     | .rep scale rep => rwsCrc scale rep
     | .type t => t.crc)

/-- `TypeDeclaration.String()` -/
def TypeDecl.str (d : TypeDecl) : Bytes :=
  d.name.str ++ (d.args.map (fun a => [cSpace] ++ a)).flatten

def typeBytes : Bytes := [84, 121, 112, 101]

/-- `Combinator.canonicalForm()` -/
def Combinator.canonicalForm (c : Combinator) : Bytes :=
  c.construct.name.str ++ [cSpace] ++
  (c.targs.map (fun x => x.name ++ (if x.isNat then [cColon, cHash, cSpace] else [cColon] ++ typeBytes ++ [cSpace]))).flatten ++
  (if c.builtin then [cQuestion, cSpace] else []) ++
  (c.fields.map (fun f => f.crc ++ [cSpace])).flatten ++
  [cEqual, cSpace] ++
  (if c.isFunction then c.funcDecl.crc else c.typeDecl.str)

/-- `Combinator.crc32()` of `tlcrc32.go` -/
def Combinator.genCrc32 (c : Combinator) : UInt32 := crc32 c.canonicalForm

/-- `Constructor.String()` -/
def Constructor.str (c : Constructor) : Bytes :=
  c.name.str ++ (if c.explicit && c.id != 0 then [cHash] ++ hex8 c.id else [])

/-- `TemplateArgument.String()` -/
def TemplateArg.str (t : TemplateArg) : Bytes :=
  [cLCurly] ++ t.name ++ (if t.isNat then [cColon, cHash, cRCurly] else [cColon] ++ typeBytes ++ [cRCurly])

/-- `Combinator.String()` -/
def Combinator.str (c : Combinator) : Bytes :=
  (c.mods.map (fun m => [cAt] ++ m ++ [cSpace])).flatten ++
  c.construct.str ++ [cSpace] ++
  (c.targs.map (fun x => x.str ++ [cSpace])).flatten ++
  (if c.builtin then [cQuestion, cSpace] else (c.fields.map (fun f => f.str ++ [cSpace])).flatten) ++
  [cEqual, cSpace] ++
  (if c.isFunction then c.funcDecl.topStr else c.typeDecl.str) ++ [cSemi]

/-- the loop of `TL.String()`: section headers are re-derived from `IsFunction` -/
def tlStrLoop : List Combinator → Bool → Bytes
  | [], _ => []
  | c :: cs, fs =>
    (if c.isFunction && !fs then functionsSectionBytes ++ [cLF]
     else if !c.isFunction && fs then typesSectionBytes ++ [cLF] else []) ++
    c.str ++ [cLF] ++ tlStrLoop cs c.isFunction

def TL.combinators (tl : TL) : List Combinator :=
  tl.items.filterMap (fun | .comb c => some c | .section _ _ => none)

/-- `TL.String()` -/
def TL.str (tl : TL) : Bytes := tlStrLoop tl.combinators false

/-! ### `qt_combined2tl.qtpl`: canonical listing -/

/-- `modifierToFlag([]Modifier{m})` -/
def modifierFlag (m : Bytes) : Nat :=
  if m == strBytes "read" then 1
  else if m == strBytes "write" then 2
  else if m == strBytes "readwrite" then 3
  else if m == strBytes "internal" then 4
  else if m == strBytes "kphp" then 8
  else 0

/-- insertion of `m` into a list sorted by flag, after all elements with flag ≤ (stable) -/
def insertMod (m : Bytes) : List Bytes → List Bytes
  | [] => [m]
  | x :: xs => if modifierFlag m < modifierFlag x then m :: x :: xs else x :: insertMod m xs

/-- `sort.Slice(modifiers, compareModifiers)`; modelled as a stable sort (Go's `sort.Slice` is an
insertion sort, hence stable, up to 12 elements). -/
def sortMods (ms : List Bytes) : List Bytes := ms.foldl (fun acc m => insertMod m acc) []

/-- the modifier list printed by `canonicalFormWithTag`: sorted; if some modifier is named "@kphp"
(with the `@`, which parsed modifiers never have) and the first is not "@any", "@any" is prepended. -/
def listingMods (ms : List Bytes) : List Bytes :=
  let s := sortMods ms
  let haveKphp := s.any (· == strBytes "@kphp")
  match s with
  | [] => s   -- Go: `modifiers[0]` would panic only if haveKphp, impossible for an empty list
  | m0 :: _ => if haveKphp && m0 != strBytes "@any" then strBytes "@any" :: s else s

/-- `Combinator.canonicalFormWithTag()` -/
def Combinator.canonicalFormWithTag (c : Combinator) : Bytes :=
  ((listingMods c.mods).map (fun m => [cAt] ++ m ++ [cSpace])).flatten ++
  c.construct.name.str ++ [cHash] ++ hex8 c.construct.id ++ [cSpace] ++
  (c.targs.map (fun x => [cLCurly] ++ x.name ++ (if x.isNat then [cColon, cHash] else [cColon] ++ typeBytes) ++ [cRCurly, cSpace])).flatten ++
  (if c.builtin then [cQuestion, cSpace] else []) ++
  (c.fields.map (fun f => f.crc ++ [cSpace])).flatten ++
  [cEqual, cSpace] ++
  (if c.isFunction then c.funcDecl.crc else c.typeDecl.str)

def listingHeader : List Bytes :=
  [strBytes "int#a8509bda ? = Int", strBytes "long#22076cba ? = Long", strBytes "float#824dab22 ? = Float",
   strBytes "double#2210c154 ? = Double", strBytes "string#b5286e24 ? = String"]

def listingSkipped (c : Combinator) : Bool :=
  let n := c.construct.name.str
  n == strBytes "int" || n == strBytes "long" || n == strBytes "float" || n == strBytes "double" || n == strBytes "string"

/-- the lines of `TL.Generate2TL()` without the trailing `//  <file>` comment and newline -/
def TL.listingLines (tl : TL) : List Bytes :=
  listingHeader ++ (tl.combinators.filter (fun c => !listingSkipped c)).map Combinator.canonicalFormWithTag

end TLVerif.Syntax
