import TLVerif.Syntax.Lexer
/-!
The TL1 syntax tree of `internal/tlast/tlparser.go`, without position ranges (they are not part of
any observable of C19/C21/C23/C25 except error positions, which are kept in `PErr`).
Comments (`CommentBefore`, `CommentRight`, `NewlineRight`) are kept, untrimmed (Go applies
`strings.TrimSpace`, which is not modelled; the tie compares the printable-ASCII projection).
-/
namespace TLVerif.Syntax

structure Name where
  ns : Bytes
  name : Bytes
  deriving DecidableEq, Repr, Inhabited

/-- `Arithmetic{Nums, Res}` (uint32 values as `Nat`) -/
structure Arith where
  nums : List Nat
  res : Nat
  deriving DecidableEq, Repr, Inhabited

mutual
/-- `TypeRef{Type, Args, Bare}` -/
inductive TypeRef where
  | mk (type : Name) (args : List AOT) (bare : Bool)
/-- `ArithmeticOrType` -/
inductive AOT where
  | arith (a : Arith)
  | type (t : TypeRef)
end

instance : Inhabited TypeRef := ⟨.mk ⟨[], []⟩ [] false⟩

/-- the zero value `TypeRef{}` -/
def TypeRef.zero : TypeRef := .mk ⟨[], []⟩ [] false
def TypeRef.type : TypeRef → Name | .mk t _ _ => t
def TypeRef.args : TypeRef → List AOT | .mk _ a _ => a
def TypeRef.bare : TypeRef → Bool | .mk _ _ b => b
def TypeRef.setBare : TypeRef → Bool → TypeRef | .mk t a _, b => .mk t a b

structure FieldMask where
  name : Bytes
  bit : Nat
  deriving DecidableEq, Repr, Inhabited

/-- `ScaleFactor`: either arithmetic or a name -/
inductive ScaleFactor where
  | arith (a : Arith)
  | name (s : Bytes)
  deriving DecidableEq, Repr, Inhabited

mutual
/-- `Field` (`IsRepeated`/`ScaleRepeat`/`FieldType` folded into `FieldBody`) -/
inductive Field where
  | mk (name : Bytes) (mask : Option FieldMask) (excl : Bool) (body : FieldBody)
       (nl : Bool) (cb cr : Bytes)
/-- `rep scale fields`: `IsRepeated` with `ExplicitScale = scale.isSome`; `type t`: plain field type -/
inductive FieldBody where
  | rep (scale : Option ScaleFactor) (rep : List Field)
  | type (t : TypeRef)
end

instance : Inhabited Field := ⟨.mk [] none false (.type TypeRef.zero) false [] []⟩

def Field.name : Field → Bytes | .mk n _ _ _ _ _ _ => n
def Field.mask : Field → Option FieldMask | .mk _ m _ _ _ _ _ => m
def Field.excl : Field → Bool | .mk _ _ e _ _ _ _ => e
def Field.body : Field → FieldBody | .mk _ _ _ b _ _ _ => b
def Field.setRight : Field → Bool → Bytes → Field
  | .mk n m e b _ cb _, nl, cr => .mk n m e b nl cb cr

structure Constructor where
  name : Name
  id : UInt32
  explicit : Bool
  deriving Repr, Inhabited

structure TemplateArg where
  name : Bytes
  isNat : Bool
  deriving DecidableEq, Repr, Inhabited

structure TypeDecl where
  name : Name
  args : List Bytes
  deriving DecidableEq, Repr, Inhabited

structure Combinator where
  builtin : Bool
  isFunction : Bool
  mods : List Bytes
  construct : Constructor
  targs : List TemplateArg
  fields : List Field
  typeDecl : TypeDecl
  funcDecl : TypeRef
  cb : Bytes
  cr : Bytes
  deriving Inhabited

/-- `CombinatorOrSection` -/
inductive Item where
  | section (isFunctions : Bool) (cb : Bytes)
  | comb (c : Combinator)
  deriving Inhabited

structure TL where
  items : List Item
  commentAfter : Bytes
  deriving Inhabited

end TLVerif.Syntax
