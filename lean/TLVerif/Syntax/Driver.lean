import TLVerif.Syntax.Dump
/-! Line-protocol handler of the `syntax` family: every line is a self-contained case. -/
namespace TLVerif.Syntax
open TLVerif.Util

def optsOfFlags (f : String) : LexOpts :=
  { allowBuiltin := f.contains 'b', allowDirty := f.contains 'd', tl2 := f.contains '2' }

def withText (flags h : String) (k : LexOpts → Bytes → String) : String :=
  match bytesOfHex h with
  | none => "bad-op"
  | some text => k (optsOfFlags flags) text

def fileResult (text : Bytes) (r : FileRes) (k : TL → String) : String :=
  match r with
  | .panic => "panic"
  | .diverge => "diverge"
  | .lexErr e => e.dump "L" text
  | .err e => e.dump "P" text
  | .ok tl => k tl

def handle (op : String) (args : List String) : String :=
  match op, args with
  | "colors", [] => s!"ok {hexs colReset} {hexs colRed} {hexs colYellow} {hexs colWhite} {hexs tabSpacesBytes}"
  | "lex", [flags, h] => withText flags h fun o text =>
    match generateTokens o text with
    | .panic => "panic"
    | .diverge => "diverge"
    | .ok toks rest => s!"ok {rest.length} " ++ joinWith "," (toks.map Token.dump)
    | .err toks e => s!"err L b={e.begin.dump} e={e.end.dump} o={e.outer.dump} " ++ joinWith "," (toks.map Token.dump)
  | "parse", [flags, h] => withText flags h fun o text =>
    fileResult text (parseTLFile o text) fun tl => "ok " ++ tl.dump
  | "cprint", [flags, h] => withText flags h fun o text =>
    match parseTLFile o text with
    | .lexErr e | .err e =>
      (match e.consolePrint text [69] (strBytes "x.tl") false, e.consolePrint text [69] (strBytes "x.tl") true with
       | some a, some b => s!"err {hexs a} {hexs b}"
       | _, _ => "panic")
    | .ok _ => "ok"
    | .panic => "panic"
    | .diverge => "diverge"
  | "canon", [flags, h] => withText flags h fun o text =>
    fileResult text (parseTLFile o text) fun tl =>
      "ok " ++ joinWith " " (tl.combinators.map fun c =>
        asStr (hex8 c.construct.id) ++ (if c.construct.explicit then "e" else "i") ++ ":" ++
        asStr (hex8 c.genCrc32) ++ ":" ++ hexs c.canonicalForm)
  | "print", [flags, h] => withText flags h fun o text =>
    fileResult text (parseTLFile o text) fun tl => "ok " ++ hexOfBytes tl.str
  | "listing", [flags, h] => withText flags h fun o text =>
    fileResult text (parseTLFile o text) fun tl => "ok " ++ joinWith " " (tl.listingLines.map hexs)
  | "crc", [h] =>
    match bytesOfHex h with
    | none => "bad-op"
    | some bs => "ok " ++ crcHex bs
  | _, _ => "bad-op"

end TLVerif.Syntax
