import TLVerif.Syntax.ParserLemmas2
import TLVerif.Syntax.DocCanonical
/-! Lemmas about tags: the shape of a successful `parseCombinator`, implicit tag = CRC32 of the canonical form,
explicit tags verbatim, lifting a property of all parsed combinators to the whole file. -/
namespace TLVerif.Syntax
theorem withTag_canonical (td : Combinator) : td.withTag.canonicalForm = td.canonicalForm := by
  unfold Combinator.withTag
  split <;> rfl

theorem withTag_spec (td : Combinator) :
    td.withTag.construct.explicit = td.construct.explicit ∧
    (td.construct.explicit = false → td.withTag.construct.id = crc32 td.canonicalForm) ∧
    (td.construct.explicit = true → td.withTag = td) := by
  unfold Combinator.withTag
  cases h : td.construct.explicit <;> simp [Combinator.genCrc32, h]

/-- the shape of every successful `parseCombinator`: the pre-combinator with its tag and right comment -/
theorem parseCombinator_ok_inv {text : Bytes} {cs ts rest : List Token} {isF ab : Bool} {td : Combinator}
    (h : parseCombinator text cs ts isF ab = .ok td rest) :
    ∃ pre r8 cr, parseCombinatorPre text cs ts isF ab = .ok pre r8 ∧ td = { pre.withTag with cr := cr } := by
  unfold parseCombinator at h
  cases hp : parseCombinatorPre text cs ts isF ab with
  | panic => rw [hp] at h; simp at h
  | diverge => rw [hp] at h; simp at h
  | err e => rw [hp] at h; simp at h
  | ok pre r8 =>
    rw [hp] at h
    simp only [] at h
    split at h
    · simp at h
    · rename_i cr hcr
      split at h
      · simp at h
      · simp only [Res.ok.injEq] at h
        exact ⟨pre, r8, cr, rfl, h.1.symm⟩

/-- a combinator as the parser leaves it: implicit tag = CRC32 of the canonical form -/
def TagOK (c : Combinator) : Prop :=
  c.construct.explicit = false → c.construct.id = crc32 c.canonicalForm

theorem parseCombinator_tagOK {text : Bytes} {cs ts rest : List Token} {isF ab : Bool} {td : Combinator}
    (h : parseCombinator text cs ts isF ab = .ok td rest) : TagOK td := by
  obtain ⟨pre, r8, cr, _, rfl⟩ := parseCombinator_ok_inv h
  intro he
  have hs := withTag_spec pre
  have hc : ({ pre.withTag with cr := cr } : Combinator).canonicalForm = pre.canonicalForm := by
    rw [← withTag_canonical pre]; rfl
  rw [hc]
  simp only [] at he ⊢
  exact hs.2.1 (by rw [← hs.1]; exact he)

theorem parseFileLoop_all {text : Bytes} {ab : Bool} (P : Combinator → Prop)
    (hP : ∀ cs ts isF td rest, parseCombinator text cs ts isF ab = .ok td rest → P td) :
    ∀ (n : Nat) (cs ts : List Token) (fs : Bool) (acc : List Item) (tl : TL), ts.length ≤ n →
      parseFileLoop text ab cs ts fs acc = .ok tl → (∀ c, Item.comb c ∈ acc → P c) → ∀ c, Item.comb c ∈ tl.items → P c
  | 0, cs, ts, fs, acc, tl, hn, h, hacc => by
    have : ts = [] := by cases ts <;> simp_all
    subst this
    rw [parseFileLoop] at h
    simp [checkToken, skipWS] at h
  | n+1, cs, ts, fs, acc, tl, hn, h, hacc => by
    rw [parseFileLoop] at h
    split at h
    · simp at h
    · split at h
      · simp at h
      · simp only [FileRes.ok.injEq] at h
        subst h
        exact hacc
    · split at h
      · split at h
        · simp at h
        · split at h
          · refine parseFileLoop_all P hP n _ _ _ _ tl (by omega) h ?_
            intro c hc
            rcases List.mem_append.mp hc with hc | hc
            · exact hacc c hc
            · simp at hc
          · simp at h
      · split at h
        · simp at h
        · simp at h
        · simp at h
        · rename_i td rest hx
          split at h
          · simp at h
          · split at h
            · refine parseFileLoop_all P hP n _ _ _ _ tl (by omega) h ?_
              intro c hc
              rcases List.mem_append.mp hc with hc | hc
              · exact hacc c hc
              · simp only [List.mem_singleton, Item.comb.injEq] at hc
                subst hc
                exact hP _ _ _ _ _ hx
            · simp at h

/-- An explicit constructor tag is the value of the hex digits of the `#xxxxxxxx` token, unchanged. -/
theorem parseConstructor_explicit {ts rest : List Token} {outer : Pos} {ab : Bool} {c : Constructor}
    (h : parseConstructor ts outer ab = .ok c rest) (he : c.explicit = true) :
    ∃ t : Token, t.ty = .crc32hash ∧ ∃ c0 digits v, t.val = c0 :: digits ∧ parseHex32 digits = some v ∧ c.id = UInt32.ofNat v := by
  unfold parseConstructor at h
  split at h
  · simp at h
  · rename_i t0 r0 h0
    split at h
    · simp at h
    · simp at h
    · simp at h
    · rename_i name rest1 hn
      split at h
      · simp at h
      · split at h
        · simp at h
        · simp only [Res.ok.injEq] at h
          obtain ⟨rfl, _⟩ := h
          simp at he
        · rename_i t r hc
          split at h
          · simp at h
          · rename_i c0 digits hval
            split at h
            · simp at h
            · rename_i v hv
              split at h
              · simp at h
              · split at h
                · simp at h
                · simp only [Res.ok.injEq] at h
                  obtain ⟨rfl, _⟩ := h
                  refine ⟨t, ?_, c0, digits, v, hval, hv, rfl⟩
                  unfold checkToken at hc
                  split at hc
                  · simp at hc
                  · simp only [Option.some.injEq, Prod.mk.injEq] at hc
                    obtain ⟨h1, h2, _⟩ := hc
                    subst h2
                    simpa using h1


theorem mem_combinators {tl : TL} {c : Combinator} : c ∈ tl.combinators ↔ Item.comb c ∈ tl.items := by
  unfold TL.combinators
  rw [List.mem_filterMap]
  constructor
  · rintro ⟨it, hit, hc⟩
    cases it with
    | «section» a b => simp at hc
    | comb c' => simp at hc; subst hc; exact hit
  · intro h; exact ⟨_, h, rfl⟩

/-- every combinator of a successfully parsed file was produced by a successful `parseCombinator` -/
theorem parseTLFile_all {o : LexOpts} {text : Bytes} {tl : TL} (P : Combinator → Prop)
    (hP : ∀ cs ts isF td rest, parseCombinator text cs ts isF o.allowBuiltin = .ok td rest → P td)
    (h : parseTLFile o text = .ok tl) : ∀ c ∈ tl.combinators, P c := by
  unfold parseTLFile at h
  split at h
  · simp at h
  · simp at h
  · simp at h
  · split at h
    · simp at h
    · intro c hc
      exact parseFileLoop_all P hP _ _ _ _ _ tl (Nat.le_refl _) h (by simp) c (mem_combinators.mp hc)

theorem plainType_str_eq_crc (t : TypeRef) (h : plainType t = true) : t.str = t.crc := by
  cases t with
  | mk ty args bare =>
    simp only [plainType, Bool.and_eq_true, List.isEmpty_iff, Bool.not_eq_true'] at h
    obtain ⟨ha, hb⟩ := h
    subst ha
    simp only [TypeRef.str, TypeRef.crc, argsCrc, crcBareMark, List.append_nil]
    cases bare with
    | false => simp
    | true =>
      simp only [Bool.true_and] at hb
      cases hn : ty.name with
      | nil => simp
      | cons c rest => simp [hn] at hb; simp [hb]

mutual
theorem repCrc_doc : ∀ (fs : List Field), plainRep fs = true → repCrc fs = docRep fs
  | [], _ => by simp [repCrc, docRep]
  | (.mk name mask excl (.type t) nl cb cr) :: fs, h => by
    simp only [plainRep, Bool.and_eq_true, Bool.not_eq_true'] at h
    obtain ⟨⟨he, ht⟩, hfs⟩ := h
    simp only [repCrc, docRep, docField, docBody, Field.str, FieldBody.str, he, plainType_str_eq_crc t ht,
      repCrc_doc fs hfs, Bool.false_eq_true, if_false, List.append_nil]
  | (.mk name mask excl (.rep scale rep) nl cb cr) :: fs, h => by
    simp only [plainRep, Bool.and_eq_true, Option.isNone_iff_eq_none] at h
    obtain ⟨⟨hm, hr⟩, hfs⟩ := h
    subst hm
    simp only [repCrc, docRep, docField, docBody, maskStr, List.append_nil, rwsCrc_doc scale rep hr, repCrc_doc fs hfs]
theorem rwsCrc_doc (scale : Option ScaleFactor) (rep : List Field) (h : plainRep rep = true) :
    rwsCrc scale rep = scaleCrc scale ++ [cLSquare] ++ docRep rep ++ [cSpace, cRSquare] := by
  simp only [rwsCrc, repCrc_doc rep h]
end

theorem fieldCrc_doc (f : Field) (h : plainField f = true) : f.crc = docField f := by
  cases f with
  | mk name mask excl body nl cb cr =>
    cases body with
    | type t => simp [Field.crc, docField, docBody]
    | rep scale rep =>
      simp only [plainField] at h
      simp [Field.crc, docField, docBody, rwsCrc_doc scale rep h]

theorem canonical_eq_doc (c : Combinator) (h : c.plainBrackets = true) : c.canonicalForm = c.docCanonical := by
  unfold Combinator.canonicalForm Combinator.docCanonical
  have : c.fields.map (fun f => f.crc ++ [cSpace]) = c.fields.map (fun f => docField f ++ [cSpace]) := by
    apply List.map_congr_left
    intro f hf
    rw [fieldCrc_doc f (List.all_eq_true.mp h f hf)]
  rw [this]

end TLVerif.Syntax
