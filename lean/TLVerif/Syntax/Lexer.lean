import TLVerif.Syntax.Token
/-!
Model of `internal/tlast/tllexer.go` (all of it: both lexer languages, `validateTokens`,
`recombineTokens`), written the way the Go code is written.

* Every Go slice / index expression that can fail is an explicit `panic` outcome
  (`advance` with a length beyond the rest of the input, `w[0]` on an empty string, `l.str[0]`).
* `generateTokens` loops `for l.str != ""`; the model recursion is well-founded on the length of the
  rest and returns `diverge` if a `nextToken` step did not shorten it (proved unreachable).
-/
namespace TLVerif.Syntax
open TLVerif.Facts.Syntax (typesSectionString functionsSectionString)

structure LexOpts where
  allowBuiltin : Bool := false
  allowDirty : Bool := false
  tl2 : Bool := false
  deriving DecidableEq, Repr, Inhabited

/-- the lexer object: rest of the input, tokens so far (most recent first), current position -/
structure LexState where
  str : Bytes
  toks : List Token
  pos : Pos
  deriving Repr, Inhabited

/-- `ParseError` as built by `parseErrToken(err, tok, outer)`; `Begin`/`End` are derived. -/
structure PErr where
  tok : Token
  outer : Pos
  deriving DecidableEq, Repr, Inhabited

def PErr.begin (e : PErr) : Pos := e.tok.pos
def PErr.end (e : PErr) : Pos :=
  { e.tok.pos with off := e.tok.pos.off + e.tok.val.length, col := e.tok.pos.col + e.tok.val.length }

/-- `l.advance(len, tokenType)`; `none` is the Go panic of `l.str[:len]` out of range. -/
def advance (s : LexState) (n : Nat) (ty : TT) : Option (LexState × Token) :=
  if n ≤ s.str.length then
    let tok : Token := ⟨ty, s.str.take n, s.pos⟩
    some ({ str := s.str.drop n, toks := tok :: s.toks,
            pos := { s.pos with col := s.pos.col + n, off := s.pos.off + n } }, tok)
  else none

inductive Step where
  | ok (s : LexState)
  | err (s : LexState) (e : PErr)
  | panic
  deriving Repr, Inhabited

def adv (s : LexState) (n : Nat) (ty : TT) : Step :=
  match advance s n ty with
  | none => .panic
  | some (s', _) => .ok s'

/-- `tok := l.advance(n, undefined); return parseErrToken(..., tok, tok.pos)` -/
def advErr (s : LexState) (n : Nat) : Step :=
  match advance s n .undefined with
  | none => .panic
  | some (s', tok) => .err s' ⟨tok, tok.pos⟩

/-- after a newline token: `line++; column = 1; startLineOffset = offset` -/
def newlineFix (s : LexState) : LexState :=
  { s with pos := { line := s.pos.line + 1, col := 1, slo := s.pos.off, off := s.pos.off } }

def advNewline (s : LexState) (n : Nat) : Step :=
  match advance s n .newLine with
  | none => .panic
  | some (s', _) => .ok (newlineFix s')

/-- bytes accepted by `checkPrimitive` -/
def isPrimitive (c : UInt8) : Bool :=
  c == cLRound || c == cRRound || c == cLSquare || c == cRSquare || c == cLCurly || c == cRCurly ||
  c == cRAngle || c == cDot || c == cPlus || c == cAsterisk || c == cExcl || c == cColon || c == cSemi ||
  c == cSpace || c == cTab || c == cQuestion || c == cPercent || c == cComma || c == cVBar

/-- index of the first `\r` or `\n`, or the length (the `index` computed in the comment branch) -/
def lineEnd : Bytes → Nat
  | [] => 0
  | c :: t => if c == cCR || c == cLF then 0 else lineEnd t + 1

def cont (b : UInt8) : Bool := 0x80 ≤ b && b ≤ 0xBF
/-- accept ranges of the second byte (Go's `acceptRanges`) -/
def utf8Lo3 (b0 : UInt8) : UInt8 := if b0 == 0xE0 then 0xA0 else 0x80
def utf8Hi3 (b0 : UInt8) : UInt8 := if b0 == 0xED then 0x9F else 0xBF
def utf8Lo4 (b0 : UInt8) : UInt8 := if b0 == 0xF0 then 0x90 else 0x80
def utf8Hi4 (b0 : UInt8) : UInt8 := if b0 == 0xF4 then 0x8F else 0xBF

/-- The loop `for i := 0; i != index; { utf, size := utf8.DecodeRuneInString(s[i:index]); ... }`:
offset (added to `i`) of the first byte at which Go's decoder reports `(RuneError, 1)`, or `none`
if the whole slice is valid UTF-8.  Go's decoder: ASCII; C2..DF + 1 continuation; E0 A0..BF; E1..EC;
ED 80..9F; EE..EF; F0 90..BF; F1..F3; F4 80..8F; everything else (and truncation) is invalid. -/
def utf8Bad : Bytes → Nat → Option Nat
  | [], _ => none
  | b0 :: t, i =>
    if b0 < 0x80 then utf8Bad t (i + 1)
    else if 0xC2 ≤ b0 && b0 ≤ 0xDF then
      match t with
      | b1 :: t' => if cont b1 then utf8Bad t' (i + 2) else some i
      | [] => some i
    else if 0xE0 ≤ b0 && b0 ≤ 0xEF then
      match t with
      | b1 :: b2 :: t' =>
        if utf8Lo3 b0 ≤ b1 && b1 ≤ utf8Hi3 b0 && cont b2 then utf8Bad t' (i + 3) else some i
      | _ => some i
    else if 0xF0 ≤ b0 && b0 ≤ 0xF4 then
      match t with
      | b1 :: b2 :: b3 :: t' =>
        if utf8Lo4 b0 ≤ b1 && b1 ≤ utf8Hi4 b0 && cont b2 && cont b3 then utf8Bad t' (i + 4) else some i
      | _ => some i
    else some i

def typesSectionBytes : Bytes := strBytes typesSectionString
def functionsSectionBytes : Bytes := strBytes functionsSectionString

/-- `lexSection` -/
def lexSection (s : LexState) : Step :=
  if hasPrefix s.str typesSectionBytes then adv s typesSectionBytes.length .typesSection
  else if hasPrefix s.str functionsSectionBytes then adv s functionsSectionBytes.length .functionsSection
  else adv s 1 (.ch cMinus)

/-- `lexNumberSign` -/
def lexNumberSign (s : LexState) : Step :=
  let run := identRun (s.str.drop 1)
  let i := 1 + run.length
  let allDigits := run.all hexChar
  if i == 1 then adv s i .numberSign
  else if !allDigits || i != 1 + 8 then advErr s i
  else adv s i .crc32hash

/-- `lexNumber` (with `numberLexeme`) -/
def lexNumber (s : LexState) : Step :=
  let n := identRun s.str
  if !(n.all digit) then advErr s n.length else adv s n.length .number

/-- `lexFunctionModifier` -/
def lexFunctionModifier (s : LexState) : Step :=
  let w := nameIdent (s.str.drop 1)
  match w with
  | [] => advErr s (1 + w.length)
  | c :: _ => if !lowerCase c then advErr s (1 + w.length) else adv s (1 + w.length) .annotation

/-- `lexLexeme` -/
def lexLexeme (s : LexState) : Step :=
  let w := nameIdent s.str
  let dotted : Option Bytes :=
    match s.str.drop w.length with
    | c :: after => if c == cDot then (let w2 := nameIdent after; if w2.isEmpty then none else some w2) else none
    | [] => none
  match dotted with
  | some w2 =>
    match w ++ [cDot] with   -- ns = w + "."
    | [] => .panic
    | n0 :: _ =>
      if !lowerCase n0 then advErr s (w.length + 1 + w2.length)
      else match w2 with
        | [] => .panic
        | c :: _ =>
          if lowerCase c then adv s (w.length + 1 + w2.length) .lcIdentNS
          else adv s (w.length + 1 + w2.length) .ucIdentNS
  | none =>
    match w with
    | [] => .panic   -- `w[0]` on the empty string
    | c :: _ => if lowerCase c then adv s w.length .lcIdent else adv s w.length .ucIdent

def typeWord : Bytes := [84, 121, 112, 101]  -- "Type"

/-- `nextToken` -/
def nextToken (o : LexOpts) (s : LexState) : Step :=
  match s.str with
  | [] => .panic   -- `l.str[0]` on the empty string
  | c :: _ =>
    if isPrimitive c then adv s 1 (.ch c)
    else if c == cCR then
      if hasPrefix s.str [cCR, cLF] then advNewline s 2 else advErr s 1
    else if c == cLF then advNewline s 1
    else if c == cEqual then
      if hasPrefix s.str [cEqual, cRAngle] then adv s 2 .functionSign else adv s 1 (.ch cEqual)
    else if c == cLAngle then
      if o.tl2 && hasPrefix s.str [cLAngle, cEqual, cRAngle] then adv s 3 .tl2alias else adv s 1 (.ch cLAngle)
    else if c == cAt then lexFunctionModifier s
    else if c == cSlash then
      if hasPrefix s.str [cSlash, cSlash] then
        let index := lineEnd s.str
        match utf8Bad (s.str.take index) 0 with
        | some i =>
          match advance s i .comment with
          | none => .panic
          | some (s1, _) => advErr s1 1
        | none => adv s index .comment
      else if hasPrefix s.str [cSlash, cAsterisk] then advErr s 2
      else advErr s 1
    else if c == cMinus then lexSection s
    else if c == cHash then lexNumberSign s
    else if c == cUnderscore then
      if o.tl2 then
        let nameAfter := nameIdent (s.str.drop 1)
        if nameAfter.length == 0 then adv s 1 (.ch cUnderscore) else adv s (1 + nameAfter.length) .tl2depName
      else if o.allowBuiltin then
        let w := builtinIdent s.str
        if w == [cUnderscore] then adv s w.length .ucIdent else adv s w.length .lcIdent
      else if o.allowDirty then adv s 1 .lcIdent
      else advErr s 1
    else if digit c then lexNumber s
    else if letter c then
      if o.tl2 && nameIdent s.str == typeWord then adv s 4 .tl2typeSign else lexLexeme s
    else advErr s 1

inductive LexRes where
  | ok (toks : List Token) (rest : Bytes)   -- all tokens and the (empty) rest of the input `l.str`
  | err (toks : List Token) (e : PErr)
  | panic
  | diverge
  deriving Repr, Inhabited

/-- illegal token types of `validateTokens` -/
def illegalTok (o : LexOpts) (ty : TT) : Bool :=
  if o.tl2 then
    match ty with
    | .ch c => c == cLCurly || c == cRCurly || c == cExcl || c == cLRound || c == cRRound ||
               c == cPlus || c == cAsterisk || c == cPercent
    | .typesSection => true
    | .functionsSection => true
    | _ => false
  else
    match ty with
    | .ch c => c == cVBar || c == cUnderscore
    | _ => false

/-- `validateTokens`: on the first illegal token, the tokens up to and including it and the error;
`none` if all tokens are legal. -/
def validateTokens (o : LexOpts) : List Token → List Token → Option (List Token × PErr)
  | [], _ => none
  | t :: rest, acc =>
    if illegalTok o t.ty then some ((t :: acc).reverse, ⟨t, t.pos⟩)
    else validateTokens o rest (t :: acc)

inductive LoopRes where
  | done (s : LexState)
  | err (s : LexState) (e : PErr)
  | panic
  | diverge
  deriving Repr, Inhabited

/-- the loop of `generateTokens` followed by `l.advance(0, eof)`; returns the final lexer state -/
def lexLoop (o : LexOpts) (s : LexState) : LoopRes :=
  if s.str.isEmpty then
    match advance s 0 .eof with
    | none => .panic
    | some (s', _) => .done s'
  else
    match nextToken o s with
    | .panic => .panic
    | .err s' e => .err s' e
    | .ok s' =>
      if s'.str.length < s.str.length then lexLoop o s' else .diverge
termination_by s.str.length

def initState (text : Bytes) : LexState := ⟨text, [], ⟨1, 1, 0, 0⟩⟩

/-- `generateTokens` -/
def generateTokens (o : LexOpts) (text : Bytes) : LexRes :=
  match lexLoop o (initState text) with
  | .diverge => .diverge
  | .panic => .panic
  | .err s e => .err s.toks.reverse e
  | .done s =>
    match validateTokens o s.toks.reverse [] with
    | some (toks, e) => .err toks e
    | none => .ok s.toks.reverse s.str

/-- `recombineTokens` -/
def recombine (toks : List Token) (rest : Bytes) : Bytes :=
  (toks.map (·.val)).flatten ++ rest

end TLVerif.Syntax
