import TLVerif.Syntax.LexerLemmas
import TLVerif.Syntax.PError
/-! Lemmas about the parser model: no panic, no divergence, error tokens come from the input. -/
namespace TLVerif.Syntax

/-- a non-exhausted iterator whose last token is the eof token -/
def EndsEof (ts : List Token) : Prop := ∃ pre e, ts = pre ++ [e] ∧ e.ty = .eof

theorem EndsEof.ne_nil {ts : List Token} (h : EndsEof ts) : ts ≠ [] := by
  obtain ⟨pre, e, rfl, _⟩ := h; simp

theorem EndsEof.tail' {t : Token} {r : List Token} (h : EndsEof (t :: r)) (hr : r ≠ []) : EndsEof r := by
  obtain ⟨pre, e, heq, he⟩ := h
  cases pre with
  | nil => simp at heq; exact absurd heq.2 hr
  | cons p pre => simp at heq; exact ⟨pre, e, heq.2, he⟩

theorem EndsEof.tail {t : Token} {r : List Token} (h : EndsEof (t :: r)) (hne : t.ty ≠ .eof) : EndsEof r := by
  apply h.tail'
  intro hr; subst hr
  obtain ⟨pre, e, heq, he⟩ := h
  cases pre with
  | nil => simp at heq; subst heq; exact hne he
  | cons p pre => simp at heq

theorem EndsEof.suffix {ts rest : List Token} (h : EndsEof ts) (hs : rest <:+ ts) (hne : rest ≠ []) : EndsEof rest := by
  obtain ⟨p, hp⟩ := hs
  induction p generalizing ts with
  | nil => simp at hp; subst hp; exact h
  | cons x p ih =>
    subst hp
    exact ih (h.tail' (by simp [hne])) rfl

/-- `a = ws ++ b` with only whitespace-class tokens in `ws` -/
def WSPre (a b : List Token) : Prop := ∃ ws, a = ws ++ b ∧ ∀ t ∈ ws, t.ty.isWS = true

theorem WSPre.refl (a : List Token) : WSPre a a := ⟨[], by simp, by simp⟩

theorem WSPre.trans {a b c : List Token} (h1 : WSPre a b) (h2 : WSPre b c) : WSPre a c := by
  obtain ⟨w1, rfl, hw1⟩ := h1
  obtain ⟨w2, rfl, hw2⟩ := h2
  refine ⟨w1 ++ w2, by simp, ?_⟩
  intro t ht
  rcases List.mem_append.mp ht with h | h
  · exact hw1 t h
  · exact hw2 t h

theorem WSPre.suffix {a b : List Token} (h : WSPre a b) : b <:+ a := by
  obtain ⟨ws, rfl, _⟩ := h; exact List.suffix_append _ _

theorem isWS_ne_eof {ty : TT} (h : ty.isWS = true) : ty ≠ .eof := by
  intro he; subst he; simp [TT.isWS] at h

theorem skipWS_ok : ∀ {ts : List Token}, EndsEof ts →
    ∃ t r, skipWS ts = some (t, r) ∧ EndsEof (t :: r) ∧ t.ty.isWS = false ∧ WSPre ts (t :: r)
  | [], h => absurd rfl h.ne_nil
  | t :: rest, h => by
    unfold skipWS
    split
    · rename_i hws
      obtain ⟨t', r', h1, h2, h3, h4⟩ := skipWS_ok (h.tail (isWS_ne_eof hws))
      refine ⟨t', r', h1, h2, h3, ?_⟩
      exact WSPre.trans ⟨[t], by simp, by simpa using hws⟩ h4
    · rename_i hws
      exact ⟨t, rest, rfl, h, by simpa using hws, WSPre.refl _⟩

theorem skipWS_nonWS {t : Token} {r : List Token} (h : t.ty.isWS = false) : skipWS (t :: r) = some (t, r) := by
  simp [skipWS, h]


theorem checkToken_ok {ts : List Token} (h : EndsEof ts) (ty : TT) :
    ∃ t r, checkToken ts ty = some (t.ty == ty, t, r) ∧ EndsEof (t :: r) ∧ t.ty.isWS = false ∧ WSPre ts (t :: r) := by
  obtain ⟨t, r, h1, h2, h3, h4⟩ := skipWS_ok h
  exact ⟨t, r, by simp [checkToken, h1], h2, h3, h4⟩

theorem checkToken_nonWS {t : Token} {r : List Token} (ty : TT) (h : t.ty.isWS = false) :
    checkToken (t :: r) ty = some (t.ty == ty, t, r) := by
  simp [checkToken, skipWS_nonWS h]

theorem beq_true_ne_eof {a ty : TT} (h : (a == ty) = true) (hty : ty ≠ .eof) : a ≠ .eof := by
  have : a = ty := by simpa using h
  rw [this]; exact hty

theorem expect_ok {ts : List Token} (h : EndsEof ts) (ty : TT) (hty : ty ≠ .eof) :
    ∃ b it, expect ts ty = some (b, it) ∧ EndsEof it ∧ it <:+ ts ∧ (b = true → it.length < ts.length) := by
  obtain ⟨t, r, h1, h2, h3, h4⟩ := checkToken_ok h ty
  unfold expect
  rw [h1]
  cases hb : (t.ty == ty) with
  | true =>
    refine ⟨true, r, rfl, h2.tail (beq_true_ne_eof hb hty), ?_, ?_⟩
    · exact (List.suffix_cons t r).trans h4.suffix
    · intro _; have := h4.suffix.length_le; simp at this; omega
  | false => exact ⟨false, t :: r, rfl, h2, h4.suffix, by simp⟩

theorem expectOrPanic_hit {t : Token} {r : List Token} {ty : TT} (hws : t.ty.isWS = false) (h : (t.ty == ty) = true) :
    expectOrPanic (t :: r) ty = some r := by
  simp [expectOrPanic, expect, checkToken_nonWS ty hws, h]

theorem needFront_of {ts : List Token} (h : EndsEof ts) : needFront ts = true := by
  have := h.ne_nil
  cases ts <;> simp_all [needFront]

/-- the generic guarantee for a parsing function called on `ts` with error context `outer` -/
def Res.Good {α : Type} (ts : List Token) (outer : Pos) (P : α → List Token → Prop) : Res α → Prop
  | .ok a rest => EndsEof rest ∧ rest <:+ ts ∧ P a rest
  | .err e => e.tok ∈ ts ∧ e.outer = outer
  | .panic => False
  | .diverge => False

theorem Res.Good.cases {α : Type} {ts : List Token} {outer : Pos} {P : α → List Token → Prop} {X : Res α}
    (hg : X.Good ts outer P) :
    (∃ a rest, X = .ok a rest ∧ EndsEof rest ∧ rest <:+ ts ∧ P a rest) ∨ (∃ e, X = .err e ∧ e.tok ∈ ts ∧ e.outer = outer) := by
  cases X with
  | ok a rest => exact Or.inl ⟨a, rest, rfl, hg⟩
  | err e => exact Or.inr ⟨e, rfl, hg⟩
  | panic => exact hg.elim
  | diverge => exact hg.elim

theorem Res.Good.mono {α : Type} {ts ts' : List Token} {outer : Pos} {P P' : α → List Token → Prop} {X : Res α}
    (hg : X.Good ts' outer P') (hs : ts' <:+ ts) (hP : ∀ a rest, rest <:+ ts' → P' a rest → P a rest) :
    X.Good ts outer P := by
  cases X with
  | ok a rest => exact ⟨hg.1, hg.2.1.trans hs, hP a rest hg.2.1 hg.2.2⟩
  | err e => exact ⟨hs.subset hg.1, hg.2⟩
  | panic => exact hg.elim
  | diverge => exact hg.elim

theorem errFront_good {α : Type} {ts it : List Token} {outer : Pos} {P : α → List Token → Prop}
    (h : EndsEof it) (hs : it <:+ ts) : (errFront it outer : Res α).Good ts outer P := by
  cases it with
  | nil => exact absurd rfl h.ne_nil
  | cons t r => exact ⟨hs.subset (by simp), rfl⟩

/-- strict progress -/
def Lt (ts : List Token) {α : Type} : α → List Token → Prop := fun _ rest => rest.length < ts.length

theorem suffix_cons_lt {t : Token} {r ts : List Token} (h : (t :: r) <:+ ts) : r.length < ts.length := by
  have := h.length_le; simp at this; omega

theorem takeWhile_lt_of_mem : ∀ {s : Bytes}, cDot ∈ s → (s.takeWhile (· != cDot)).length < s.length
  | [], h => by simp at h
  | c :: t, h => by
    by_cases hc : c = cDot
    · have hb : (c != cDot) = false := by simp [hc]
      simp [List.takeWhile, hb]
    · have ht : cDot ∈ t := by
        rcases List.mem_cons.mp h with h | h
        · exact absurd h.symm hc
        · exact h
      have := takeWhile_lt_of_mem ht
      have hb : (c != cDot) = true := by simpa using hc
      simp only [List.takeWhile, hb, List.length_cons]; omega

theorem splitIden_some {s : Bytes} (h : cDot ∈ s) : ∃ n, splitIden s = some n := by
  unfold splitIden
  simp only []
  rw [if_pos (takeWhile_lt_of_mem h)]
  exact ⟨_, rfl⟩

/-- what the parser knows about an iterator: eof-terminated, and the lexer facts about its tokens -/
structure Inv (text : Bytes) (ts : List Token) : Prop where
  eof : EndsEof ts
  ok : ToksOK text ts

theorem ToksOK.suffix {text : Bytes} {ts rest : List Token} (h : ToksOK text ts) (hs : rest <:+ ts) : ToksOK text rest :=
  ⟨fun t ht => h.wf t (hs.subset ht), fun t ht => h.inRange t (hs.subset ht), h.sorted.sublist hs.sublist⟩

theorem Inv.suffix {text : Bytes} {ts rest : List Token} (h : Inv text ts) (hs : rest <:+ ts) (he : EndsEof rest) : Inv text rest :=
  ⟨he, h.ok.suffix hs⟩

theorem parseNameAlts_good {text : Bytes} {outer : Pos} : ∀ (alts : List TT) {ts : List Token}, (∀ ty ∈ alts, ty ≠ .eof) → Inv text ts →
    (parseNameAlts outer alts ts).Good ts outer (Lt ts)
  | [], ts, _, h => by
    unfold parseNameAlts
    exact errFront_good h.eof (List.suffix_refl _)
  | ty :: more, ts, halts, h => by
    unfold parseNameAlts
    obtain ⟨t, r, h1, h2, h3, h4⟩ := checkToken_ok h.eof ty
    rw [h1]
    cases hb : (t.ty == ty) with
    | true =>
      simp only []
      have hne : t.ty ≠ .eof := beq_true_ne_eof hb (halts ty (by simp))
      have hty : t.ty = ty := by simpa using hb
      have hmem : t ∈ ts := h4.suffix.subset (by simp)
      have hn : ∃ n, (if ty.isNS then splitIden t.val else some ⟨[], t.val⟩) = some n := by
        split
        · rename_i hns
          exact splitIden_some ((h.ok.wf t hmem).1 (by rw [hty]; exact hns))
        · exact ⟨_, rfl⟩
      obtain ⟨n, hn⟩ := hn
      rw [hn, expectOrPanic_hit h3 hb]
      exact ⟨h2.tail hne, (List.suffix_cons t r).trans h4.suffix, suffix_cons_lt h4.suffix⟩
    | false =>
      simp only []
      have := parseNameAlts_good (text := text) (outer := outer) more (fun ty hty => halts ty (by simp [hty]))
        (h.suffix h4.suffix h2)
      exact this.mono h4.suffix (fun a rest hr hlt => by
        have := h4.suffix.length_le; simp only [Lt] at *; omega)

theorem parseLCIdentNS_good {text : Bytes} {ts : List Token} {outer : Pos} (h : Inv text ts) :
    (parseLCIdentNS ts outer).Good ts outer (Lt ts) :=
  parseNameAlts_good _ (by simp) h
theorem parseUCIdentNS_good {text : Bytes} {ts : List Token} {outer : Pos} (h : Inv text ts) :
    (parseUCIdentNS ts outer).Good ts outer (Lt ts) :=
  parseNameAlts_good _ (by simp) h
theorem parseVarIdent_good {text : Bytes} {ts : List Token} {outer : Pos} (h : Inv text ts) :
    (parseVarIdent ts outer).Good ts outer (Lt ts) :=
  parseNameAlts_good _ (by simp) h
theorem parseTypeRefAsName_good {text : Bytes} {ts : List Token} {outer : Pos} (h : Inv text ts) :
    (parseTypeRefAsName ts outer).Good ts outer (Lt ts) :=
  parseNameAlts_good _ (by simp) h

end TLVerif.Syntax
