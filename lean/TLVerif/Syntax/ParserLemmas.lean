import TLVerif.Syntax.LexerLemmas
import TLVerif.Syntax.PError
/-! Lemmas about the parser model: no panic, no divergence, error tokens come from the input. -/
namespace TLVerif.Syntax

/-- a non-exhausted iterator whose last token is the eof token -/
def EndsEof (ts : List Token) : Prop := ∃ pre e, ts = pre ++ [e] ∧ e.ty = .eof

theorem EndsEof.ne_nil {ts : List Token} (h : EndsEof ts) : ts ≠ [] := by
  obtain ⟨pre, e, rfl, _⟩ := h; simp

theorem EndsEof.tail' {t : Token} {r : List Token} (h : EndsEof (t :: r)) (hr : r ≠ []) : EndsEof r := by
  obtain ⟨pre, e, heq, he⟩ := h
  cases pre with
  | nil => simp at heq; exact absurd heq.2 hr
  | cons p pre => simp at heq; exact ⟨pre, e, heq.2, he⟩

theorem EndsEof.tail {t : Token} {r : List Token} (h : EndsEof (t :: r)) (hne : t.ty ≠ .eof) : EndsEof r := by
  apply h.tail'
  intro hr; subst hr
  obtain ⟨pre, e, heq, he⟩ := h
  cases pre with
  | nil => simp at heq; subst heq; exact hne he
  | cons p pre => simp at heq

theorem EndsEof.suffix {ts rest : List Token} (h : EndsEof ts) (hs : rest <:+ ts) (hne : rest ≠ []) : EndsEof rest := by
  obtain ⟨p, hp⟩ := hs
  induction p generalizing ts with
  | nil => simp at hp; subst hp; exact h
  | cons x p ih =>
    subst hp
    exact ih (h.tail' (by simp [hne])) rfl

/-- `a = ws ++ b` with only whitespace-class tokens in `ws` -/
def WSPre (a b : List Token) : Prop := ∃ ws, a = ws ++ b ∧ ∀ t ∈ ws, t.ty.isWS = true

theorem WSPre.refl (a : List Token) : WSPre a a := ⟨[], by simp, by simp⟩

theorem WSPre.trans {a b c : List Token} (h1 : WSPre a b) (h2 : WSPre b c) : WSPre a c := by
  obtain ⟨w1, rfl, hw1⟩ := h1
  obtain ⟨w2, rfl, hw2⟩ := h2
  refine ⟨w1 ++ w2, by simp, ?_⟩
  intro t ht
  rcases List.mem_append.mp ht with h | h
  · exact hw1 t h
  · exact hw2 t h

theorem WSPre.suffix {a b : List Token} (h : WSPre a b) : b <:+ a := by
  obtain ⟨ws, rfl, _⟩ := h; exact List.suffix_append _ _

theorem isWS_ne_eof {ty : TT} (h : ty.isWS = true) : ty ≠ .eof := by
  intro he; subst he; simp [TT.isWS] at h

theorem skipWS_ok : ∀ {ts : List Token}, EndsEof ts →
    ∃ t r, skipWS ts = some (t, r) ∧ EndsEof (t :: r) ∧ t.ty.isWS = false ∧ WSPre ts (t :: r)
  | [], h => absurd rfl h.ne_nil
  | t :: rest, h => by
    unfold skipWS
    split
    · rename_i hws
      obtain ⟨t', r', h1, h2, h3, h4⟩ := skipWS_ok (h.tail (isWS_ne_eof hws))
      refine ⟨t', r', h1, h2, h3, ?_⟩
      exact WSPre.trans ⟨[t], by simp, by simpa using hws⟩ h4
    · rename_i hws
      exact ⟨t, rest, rfl, h, by simpa using hws, WSPre.refl _⟩

theorem skipWS_nonWS {t : Token} {r : List Token} (h : t.ty.isWS = false) : skipWS (t :: r) = some (t, r) := by
  simp [skipWS, h]


theorem checkToken_ok {ts : List Token} (h : EndsEof ts) (ty : TT) :
    ∃ t r, checkToken ts ty = some (t.ty == ty, t, r) ∧ EndsEof (t :: r) ∧ t.ty.isWS = false ∧ WSPre ts (t :: r) := by
  obtain ⟨t, r, h1, h2, h3, h4⟩ := skipWS_ok h
  exact ⟨t, r, by simp [checkToken, h1], h2, h3, h4⟩

theorem checkToken_nonWS {t : Token} {r : List Token} (ty : TT) (h : t.ty.isWS = false) :
    checkToken (t :: r) ty = some (t.ty == ty, t, r) := by
  simp [checkToken, skipWS_nonWS h]

theorem beq_true_ne_eof {a ty : TT} (h : (a == ty) = true) (hty : ty ≠ .eof) : a ≠ .eof := by
  have : a = ty := by simpa using h
  rw [this]; exact hty

theorem expect_ok {ts : List Token} (h : EndsEof ts) (ty : TT) (hty : ty ≠ .eof) :
    ∃ b it, expect ts ty = some (b, it) ∧ EndsEof it ∧ it <:+ ts ∧ (b = true → it.length < ts.length) := by
  obtain ⟨t, r, h1, h2, h3, h4⟩ := checkToken_ok h ty
  unfold expect
  rw [h1]
  cases hb : (t.ty == ty) with
  | true =>
    refine ⟨true, r, rfl, h2.tail (beq_true_ne_eof hb hty), ?_, ?_⟩
    · exact (List.suffix_cons t r).trans h4.suffix
    · intro _; have := h4.suffix.length_le; simp at this; omega
  | false => exact ⟨false, t :: r, rfl, h2, h4.suffix, by simp⟩

theorem expectOrPanic_hit {t : Token} {r : List Token} {ty : TT} (hws : t.ty.isWS = false) (h : (t.ty == ty) = true) :
    expectOrPanic (t :: r) ty = some r := by
  simp [expectOrPanic, expect, checkToken_nonWS ty hws, h]

theorem needFront_of {ts : List Token} (h : EndsEof ts) : needFront ts = true := by
  have := h.ne_nil
  cases ts <;> simp_all [needFront]

/-- the generic guarantee for a parsing function called on `ts` with error context `outer` -/
def Res.Good {α : Type} (ts : List Token) (outer : Pos) (P : α → List Token → Prop) : Res α → Prop
  | .ok a rest => EndsEof rest ∧ rest <:+ ts ∧ P a rest
  | .err e => e.tok ∈ ts ∧ e.outer = outer
  | .panic => False
  | .diverge => False

theorem Res.Good.cases {α : Type} {ts : List Token} {outer : Pos} {P : α → List Token → Prop} {X : Res α}
    (hg : X.Good ts outer P) :
    (∃ a rest, X = .ok a rest ∧ EndsEof rest ∧ rest <:+ ts ∧ P a rest) ∨ (∃ e, X = .err e ∧ e.tok ∈ ts ∧ e.outer = outer) := by
  cases X with
  | ok a rest => exact Or.inl ⟨a, rest, rfl, hg⟩
  | err e => exact Or.inr ⟨e, rfl, hg⟩
  | panic => exact hg.elim
  | diverge => exact hg.elim

theorem Res.Good.mono {α : Type} {ts ts' : List Token} {outer : Pos} {P P' : α → List Token → Prop} {X : Res α}
    (hg : X.Good ts' outer P') (hs : ts' <:+ ts) (hP : ∀ a rest, rest <:+ ts' → P' a rest → P a rest) :
    X.Good ts outer P := by
  cases X with
  | ok a rest => exact ⟨hg.1, hg.2.1.trans hs, hP a rest hg.2.1 hg.2.2⟩
  | err e => exact ⟨hs.subset hg.1, hg.2⟩
  | panic => exact hg.elim
  | diverge => exact hg.elim

theorem errFront_good {α : Type} {ts it : List Token} {outer : Pos} {P : α → List Token → Prop}
    (h : EndsEof it) (hs : it <:+ ts) : (errFront it outer : Res α).Good ts outer P := by
  cases it with
  | nil => exact absurd rfl h.ne_nil
  | cons t r => exact ⟨hs.subset (by simp), rfl⟩

/-- strict progress -/
def Lt (ts : List Token) {α : Type} : α → List Token → Prop := fun _ rest => rest.length < ts.length

theorem suffix_cons_lt {t : Token} {r ts : List Token} (h : (t :: r) <:+ ts) : r.length < ts.length := by
  have := h.length_le; simp at this; omega

theorem takeWhile_lt_of_mem : ∀ {s : Bytes}, cDot ∈ s → (s.takeWhile (· != cDot)).length < s.length
  | [], h => by simp at h
  | c :: t, h => by
    by_cases hc : c = cDot
    · have hb : (c != cDot) = false := by simp [hc]
      simp [List.takeWhile, hb]
    · have ht : cDot ∈ t := by
        rcases List.mem_cons.mp h with h | h
        · exact absurd h.symm hc
        · exact h
      have := takeWhile_lt_of_mem ht
      have hb : (c != cDot) = true := by simpa using hc
      simp only [List.takeWhile, hb, List.length_cons]; omega

theorem splitIden_some {s : Bytes} (h : cDot ∈ s) : ∃ n, splitIden s = some n := by
  unfold splitIden
  simp only []
  rw [if_pos (takeWhile_lt_of_mem h)]
  exact ⟨_, rfl⟩

/-- what the parser knows about an iterator: eof-terminated, and the lexer facts about its tokens -/
structure Inv (text : Bytes) (ts : List Token) : Prop where
  eof : EndsEof ts
  ok : ToksOK text ts

theorem ToksOK.suffix {text : Bytes} {ts rest : List Token} (h : ToksOK text ts) (hs : rest <:+ ts) : ToksOK text rest :=
  ⟨fun t ht => h.wf t (hs.subset ht), fun t ht => h.inRange t (hs.subset ht), h.sorted.sublist hs.sublist⟩

theorem Inv.suffix {text : Bytes} {ts rest : List Token} (h : Inv text ts) (hs : rest <:+ ts) (he : EndsEof rest) : Inv text rest :=
  ⟨he, h.ok.suffix hs⟩

theorem parseNameAlts_good {text : Bytes} {outer : Pos} : ∀ (alts : List TT) {ts : List Token}, (∀ ty ∈ alts, ty ≠ .eof) → Inv text ts →
    (parseNameAlts outer alts ts).Good ts outer (Lt ts)
  | [], ts, _, h => by
    unfold parseNameAlts
    exact errFront_good h.eof (List.suffix_refl _)
  | ty :: more, ts, halts, h => by
    unfold parseNameAlts
    obtain ⟨t, r, h1, h2, h3, h4⟩ := checkToken_ok h.eof ty
    rw [h1]
    cases hb : (t.ty == ty) with
    | true =>
      simp only []
      have hne : t.ty ≠ .eof := beq_true_ne_eof hb (halts ty (by simp))
      have hty : t.ty = ty := by simpa using hb
      have hmem : t ∈ ts := h4.suffix.subset (by simp)
      have hn : ∃ n, (if ty.isNS then splitIden t.val else some ⟨[], t.val⟩) = some n := by
        split
        · rename_i hns
          exact splitIden_some ((h.ok.wf t hmem).1 (by rw [hty]; exact hns))
        · exact ⟨_, rfl⟩
      obtain ⟨n, hn⟩ := hn
      rw [hn, expectOrPanic_hit h3 hb]
      exact ⟨h2.tail hne, (List.suffix_cons t r).trans h4.suffix, suffix_cons_lt h4.suffix⟩
    | false =>
      simp only []
      have := parseNameAlts_good (text := text) (outer := outer) more (fun ty hty => halts ty (by simp [hty]))
        (h.suffix h4.suffix h2)
      exact this.mono h4.suffix (fun a rest hr hlt => by
        have := h4.suffix.length_le; simp only [Lt] at *; omega)

theorem parseLCIdentNS_good {text : Bytes} {ts : List Token} {outer : Pos} (h : Inv text ts) :
    (parseLCIdentNS ts outer).Good ts outer (Lt ts) :=
  parseNameAlts_good _ (by simp) h
theorem parseUCIdentNS_good {text : Bytes} {ts : List Token} {outer : Pos} (h : Inv text ts) :
    (parseUCIdentNS ts outer).Good ts outer (Lt ts) :=
  parseNameAlts_good _ (by simp) h
theorem parseVarIdent_good {text : Bytes} {ts : List Token} {outer : Pos} (h : Inv text ts) :
    (parseVarIdent ts outer).Good ts outer (Lt ts) :=
  parseNameAlts_good _ (by simp) h
theorem parseTypeRefAsName_good {text : Bytes} {ts : List Token} {outer : Pos} (h : Inv text ts) :
    (parseTypeRefAsName ts outer).Good ts outer (Lt ts) :=
  parseNameAlts_good _ (by simp) h

def NoP {α : Type} : α → List Token → Prop := fun _ _ => True

theorem parseModifiers_good_aux {text : Bytes} {outer : Pos} : ∀ (n : Nat) (ts : List Token) (acc : List Bytes),
    ts.length ≤ n → Inv text ts → (parseModifiers ts acc).Good ts outer NoP
  | 0, ts, acc, hn, h => by
    have := h.eof.ne_nil; cases ts <;> simp_all
  | n+1, ts, acc, hn, h => by
    rw [parseModifiers]
    obtain ⟨t0, r0, h0, he0, hws0, hpre0⟩ := skipWS_ok h.eof
    rw [h0]; simp only []
    rw [checkToken_nonWS _ hws0]
    cases hb : (t0.ty == TT.annotation) with
    | false => exact ⟨he0, hpre0.suffix, trivial⟩
    | true =>
      simp only []
      have hm : t0 ∈ ts := hpre0.suffix.subset (by simp)
      have hv := (h.ok.wf t0 hm).2.1 (by simpa using hb)
      cases hval : t0.val with
      | nil => exact absurd hval hv
      | cons c nm =>
        simp only []
        rw [expectOrPanic_hit hws0 hb]
        simp only []
        have he1 : EndsEof r0 := he0.tail (beq_true_ne_eof hb (by simp))
        have hs1 : r0 <:+ ts := (List.suffix_cons _ _).trans hpre0.suffix
        have hlt : r0.length < ts.length := suffix_cons_lt hpre0.suffix
        rw [needFront_of he1]
        simp only [Bool.not_true, Bool.false_eq_true, if_false, if_pos hlt]
        exact (parseModifiers_good_aux n r0 _ (by omega) (h.suffix hs1 he1)).mono hs1 (fun _ _ _ _ => trivial)

theorem Lt.trans_suffix {α : Type} {ts ts' : List Token} (hs : ts' <:+ ts) (a : α) (rest : List Token)
    (_ : rest <:+ ts') (h : Lt ts' a rest) : Lt ts a rest := by
  have := hs.length_le; simp only [Lt] at *; omega

theorem constructorName_good {text : Bytes} {outer : Pos} {t0 : Token} {r0 : List Token} {ab : Bool}
    (h : Inv text (t0 :: r0)) (hws : t0.ty.isWS = false) :
    (constructorName t0 r0 outer ab).Good (t0 :: r0) outer (Lt (t0 :: r0)) := by
  unfold constructorName
  cases ab with
  | false => simp only [Bool.false_eq_true, if_false]; exact parseLCIdentNS_good h
  | true =>
    simp only [if_true]
    rw [checkToken_nonWS _ hws]
    cases hb : (t0.ty == TT.numberSign) with
    | false => simp only []; exact parseLCIdentNS_good h
    | true =>
      simp only []
      rw [expectOrPanic_hit hws hb]
      exact ⟨h.eof.tail (beq_true_ne_eof hb (by simp)), List.suffix_cons _ _, by simp [Lt]⟩

theorem parseConstructor_good {text : Bytes} {outer : Pos} {ts : List Token} {ab : Bool} (h : Inv text ts) :
    (parseConstructor ts outer ab).Good ts outer (Lt ts) := by
  unfold parseConstructor
  obtain ⟨t0, r0, h0, he0, hws0, hpre0⟩ := skipWS_ok h.eof
  rw [h0]; simp only []
  have hi0 := h.suffix hpre0.suffix he0
  rcases (constructorName_good (outer := outer) (ab := ab) hi0 hws0).cases with
    ⟨name, rest, hx, he1, hs1, hlt1⟩ | ⟨e, hx, hm, ho⟩ <;> rw [hx] <;> simp only []
  · rw [needFront_of he1]
    simp only [Bool.not_true, Bool.false_eq_true, if_false]
    obtain ⟨t, r, hc, he2, hws2, hpre2⟩ := checkToken_ok he1 .crc32hash
    rw [hc]
    have hs2 : (t :: r) <:+ ts := (hpre2.suffix.trans hs1).trans hpre0.suffix
    have hlt2 : (t :: r).length < ts.length := by
      have := hpre2.suffix.length_le; have := hpre0.suffix.length_le
      simp only [Lt] at hlt1; omega
    cases hb : (t.ty == TT.crc32hash) with
    | false => exact ⟨he2, hs2, hlt2⟩
    | true =>
      simp only []
      have hv := (h.ok.wf t (hs2.subset (by simp))).2.2 (by simpa using hb)
      cases hval : t.val with
      | nil => exact absurd hval hv
      | cons c digits =>
        simp only []
        cases parseHex32 digits with
        | none => exact ⟨hs2.subset (by simp), rfl⟩
        | some v =>
          simp only []
          rw [expectOrPanic_hit hws2 hb]
          simp only []
          have he3 := he2.tail (beq_true_ne_eof hb (by simp))
          rw [needFront_of he3]
          simp only [Bool.not_true, Bool.false_eq_true, if_false]
          refine ⟨he3, (List.suffix_cons _ _).trans hs2, ?_⟩
          simp only [Lt, List.length_cons] at *; omega
  · exact ⟨hpre0.suffix.subset hm, ho⟩

theorem templateArgKind_good {text : Bytes} {outer : Pos} {ts : List Token} (h : Inv text ts) :
    (templateArgKind ts outer).Good ts outer (Lt ts) := by
  unfold templateArgKind
  obtain ⟨t, r, hc, he, hws, hpre⟩ := checkToken_ok h.eof .ucIdent
  rw [hc]; simp only []
  have hlt : r.length < ts.length := suffix_cons_lt hpre.suffix
  split
  · rename_i hcond
    have hb : (t.ty == TT.ucIdent) = true := by
      simp only [Bool.and_eq_true] at hcond; exact hcond.1
    rw [expectOrPanic_hit hws hb]
    exact ⟨he.tail (beq_true_ne_eof hb (by simp)), (List.suffix_cons _ _).trans hpre.suffix, hlt⟩
  · rw [checkToken_nonWS _ hws]
    cases hb : (t.ty == TT.numberSign) with
    | false => exact ⟨hpre.suffix.subset (by simp), rfl⟩
    | true =>
      simp only []
      rw [expectOrPanic_hit hws hb]
      exact ⟨he.tail (beq_true_ne_eof hb (by simp)), (List.suffix_cons _ _).trans hpre.suffix, hlt⟩

/-- an optional result consumed something if it is `some` -/
def SomeLt (ts : List Token) {α : Type} : Option α → List Token → Prop :=
  fun a rest => a.isSome = true → rest.length < ts.length

theorem parseTemplateArgument_good {text : Bytes} {outer : Pos} {ts : List Token} (h : Inv text ts) :
    (parseTemplateArgument ts outer).Good ts outer (SomeLt ts) := by
  unfold parseTemplateArgument
  obtain ⟨t0, r0, h0, he0, hws0, hpre0⟩ := skipWS_ok h.eof
  rw [h0]; simp only []
  obtain ⟨b1, r1, hx1, he1, hs1, hlt1⟩ := expect_ok he0 (.ch cLCurly) (by simp)
  rw [hx1]
  cases b1 with
  | false => exact ⟨h.eof, List.suffix_refl _, by simp [SomeLt]⟩
  | true =>
    simp only []
    have hs1' : r1 <:+ ts := hs1.trans hpre0.suffix
    have hlt1' : r1.length < ts.length := by have := hlt1 rfl; have := hpre0.suffix.length_le; omega
    rcases (parseVarIdent_good (outer := outer) (h.suffix hs1' he1)).cases with
      ⟨fieldName, r2, hx, he2, hs2, hlt2⟩ | ⟨e, hx, hm, ho⟩ <;> rw [hx] <;> simp only []
    · have hs2' : r2 <:+ ts := hs2.trans hs1'
      obtain ⟨b3, r3, hx3, he3, hs3, _⟩ := expect_ok he2 (.ch cColon) (by simp)
      rw [hx3]
      have hs3' : r3 <:+ ts := hs3.trans hs2'
      cases b3 with
      | false => exact errFront_good he3 hs3'
      | true =>
        simp only []
        rcases (templateArgKind_good (outer := outer) (h.suffix hs3' he3)).cases with
          ⟨isNat, r4, hx, he4, hs4, _⟩ | ⟨e, hx, hm, ho⟩ <;> rw [hx] <;> simp only []
        · have hs4' : r4 <:+ ts := hs4.trans hs3'
          obtain ⟨b5, r5, hx5, he5, hs5, _⟩ := expect_ok he4 (.ch cRCurly) (by simp)
          rw [hx5]
          have hs5' : r5 <:+ ts := hs5.trans hs4'
          cases b5 with
          | false => exact errFront_good he5 hs5'
          | true =>
            simp only []
            rw [needFront_of he5]
            simp only [Bool.not_true, Bool.false_eq_true, if_false]
            refine ⟨he5, hs5', fun _ => ?_⟩
            have := hs5.length_le; have := hs4.length_le; have := hs3.length_le; have := hs2.length_le
            omega
        · exact ⟨hs3'.subset hm, ho⟩
    · exact ⟨hs1'.subset hm, ho⟩

theorem parseTemplateArguments_good_aux {text : Bytes} {outer : Pos} : ∀ (n : Nat) (ts : List Token) (acc : List TemplateArg),
    ts.length ≤ n → Inv text ts → (parseTemplateArguments ts outer acc).Good ts outer NoP
  | 0, ts, acc, hn, h => by have := h.eof.ne_nil; cases ts <;> simp_all
  | n+1, ts, acc, hn, h => by
    rw [parseTemplateArguments]
    rcases (parseTemplateArgument_good (outer := outer) h).cases with
      ⟨a, rest, hx, he1, hs1, hlt1⟩ | ⟨e, hx, hm, ho⟩ <;> rw [hx]
    · cases a with
      | none => exact ⟨h.eof, List.suffix_refl _, trivial⟩
      | some a =>
        simp only []
        have hlt : rest.length < ts.length := hlt1 rfl
        rw [if_pos hlt]
        exact (parseTemplateArguments_good_aux n rest _ (by omega) (h.suffix hs1 he1)).mono hs1 (fun _ _ _ _ => trivial)
    · exact ⟨hm, ho⟩

theorem parseTemplateArguments_good {text : Bytes} {outer : Pos} {ts : List Token} {acc : List TemplateArg} (h : Inv text ts) :
    (parseTemplateArguments ts outer acc).Good ts outer NoP :=
  parseTemplateArguments_good_aux _ ts acc (Nat.le_refl _) h

theorem parseModifiers_good {text : Bytes} {outer : Pos} {ts : List Token} {acc : List Bytes} (h : Inv text ts) :
    (parseModifiers ts acc).Good ts outer NoP :=
  parseModifiers_good_aux _ ts acc (Nat.le_refl _) h

theorem typeDeclArgs_good_aux {text : Bytes} {outer : Pos} : ∀ (n : Nat) (ts : List Token) (acc : List Bytes),
    ts.length ≤ n → Inv text ts → (typeDeclArgs ts outer acc).Good ts outer NoP
  | 0, ts, acc, hn, h => by have := h.eof.ne_nil; cases ts <;> simp_all
  | n+1, ts, acc, hn, h => by
    rw [typeDeclArgs]
    obtain ⟨t0, r0, h0, he0, hws0, hpre0⟩ := skipWS_ok h.eof
    rw [h0]; simp only []
    have hi0 := h.suffix hpre0.suffix he0
    rcases (parseVarIdent_good (outer := outer) hi0).cases with
      ⟨a, rest, hx, he1, hs1, hlt1⟩ | ⟨e, hx, hm, ho⟩ <;> rw [hx] <;> simp only []
    · rw [needFront_of he1]
      simp only [Bool.not_true, Bool.false_eq_true, if_false]
      have hs1' : rest <:+ ts := hs1.trans hpre0.suffix
      have hlt : rest.length < ts.length := by
        have := hpre0.suffix.length_le; simp only [Lt] at hlt1; omega
      rw [if_pos hlt]
      exact (typeDeclArgs_good_aux n rest _ (by omega) (h.suffix hs1' he1)).mono hs1' (fun _ _ _ _ => trivial)
    · exact ⟨he0, hpre0.suffix, trivial⟩

theorem parseTypeDeclaration_good {text : Bytes} {outer : Pos} {ts : List Token} (h : Inv text ts) :
    (parseTypeDeclaration ts outer).Good ts outer (Lt ts) := by
  unfold parseTypeDeclaration
  obtain ⟨t0, r0, h0, he0, hws0, hpre0⟩ := skipWS_ok h.eof
  rw [h0]; simp only []
  have hi0 := h.suffix hpre0.suffix he0
  rcases (parseUCIdentNS_good (outer := outer) hi0).cases with
    ⟨name, rest, hx, he1, hs1, hlt1⟩ | ⟨e, hx, hm, ho⟩ <;> rw [hx] <;> simp only []
  · rw [needFront_of he1]
    simp only [Bool.not_true, Bool.false_eq_true, if_false]
    have hs1' : rest <:+ ts := hs1.trans hpre0.suffix
    rcases (typeDeclArgs_good_aux (outer := outer) _ rest [] (Nat.le_refl _) (h.suffix hs1' he1)).cases with
      ⟨args, rest2, hx, he2, hs2, _⟩ | ⟨e, hx, hm, ho⟩ <;> rw [hx] <;> simp only []
    · rw [needFront_of he2]
      simp only [Bool.not_true, Bool.false_eq_true, if_false]
      refine ⟨he2, hs2.trans hs1', ?_⟩
      have := hs2.length_le; have := hpre0.suffix.length_le; simp only [Lt] at *; omega
    · exact ⟨hs1'.subset hm, ho⟩
  · exact ⟨hpre0.suffix.subset hm, ho⟩

def ArithP (ts : List Token) (force : Bool) : Option Arith → List Token → Prop :=
  fun a rest => (a.isSome = true → rest.length < ts.length) ∧ (force = true → a.isSome = true)

def IsSomeP {α : Type} : Option α → List Token → Prop := fun a _ => a.isSome = true

theorem arith_good_aux {text : Bytes} {outer : Pos} : ∀ (n : Nat) (ts : List Token), ts.length ≤ n → Inv text ts →
    (∀ force, (parseArithmetic ts outer force).Good ts outer (ArithP ts force)) ∧
    (∀ res, (arithPlusLoop ts outer res).Good ts outer IsSomeP)
  | 0, ts, hn, h => by have := h.eof.ne_nil; cases ts <;> simp_all
  | n+1, ts, hn, h => by
    have ih := arith_good_aux (text := text) (outer := outer) n
    constructor
    · intro force
      rw [parseArithmetic]
      obtain ⟨b1, r1, hx1, he1, hs1, hlt1⟩ := expect_ok h.eof (.ch cLRound) (by simp)
      rw [hx1]
      cases b1 with
      | true =>
        simp only []
        have hlt := hlt1 rfl
        rw [if_pos hlt]
        have hi1 := h.suffix hs1 he1
        rcases ((ih r1 (by omega) hi1).1 force).cases with ⟨a, r2, hx, he2, hs2, hp2⟩ | ⟨e, hx, hm, ho⟩ <;> rw [hx]
        · cases a with
          | none =>
            simp only []
            refine ⟨h.eof, List.suffix_refl _, by simp, ?_⟩
            intro hf; have := hp2.2 hf; simp at this
          | some a =>
            simp only []
            have hs2' : r2 <:+ ts := hs2.trans hs1
            obtain ⟨b3, r3, hx3, he3, hs3, hlt3⟩ := expect_ok he2 (.ch cRRound) (by simp)
            rw [hx3]
            have hs3' : r3 <:+ ts := hs3.trans hs2'
            cases b3 with
            | false => exact errFront_good he3 hs3'
            | true =>
              simp only []
              have hlt3' : r3.length < ts.length := by
                have := hs3.length_le; have := hs2.length_le; omega
              rw [if_pos hlt3']
              refine ((ih r3 (by omega) (h.suffix hs3' he3)).2 a).mono hs3' ?_
              intro a' rest hr hsome
              refine ⟨fun _ => ?_, fun _ => hsome⟩
              have := hr.length_le; omega
        · exact ⟨hs1.subset hm, ho⟩
      | false =>
        simp only []
        obtain ⟨t, r, hc, he2, hws2, hpre2⟩ := checkToken_ok he1 .number
        rw [hc]
        have hs2 : (t :: r) <:+ ts := hpre2.suffix.trans hs1
        cases hb : (t.ty == TT.number) with
        | true =>
          simp only []
          cases parseU32 t.val with
          | none => exact ⟨hs2.subset (by simp), rfl⟩
          | some v =>
            simp only []
            rw [expectOrPanic_hit hws2 hb]
            simp only []
            have hlt : r.length < ts.length := suffix_cons_lt hs2
            rw [if_pos hlt]
            have he3 := he2.tail (beq_true_ne_eof hb (by simp))
            have hs3 : r <:+ ts := (List.suffix_cons _ _).trans hs2
            refine ((ih r (by omega) (h.suffix hs3 he3)).2 _).mono hs3 ?_
            intro a' rest hr hsome
            refine ⟨fun _ => ?_, fun _ => hsome⟩
            have := hr.length_le; omega
        | false =>
          simp only []
          cases force with
          | true => exact ⟨hs2.subset (by simp), rfl⟩
          | false => exact ⟨h.eof, List.suffix_refl _, by simp, by simp⟩
    · intro res
      rw [arithPlusLoop]
      obtain ⟨b1, r1, hx1, he1, hs1, hlt1⟩ := expect_ok h.eof (.ch cPlus) (by simp)
      rw [hx1]
      cases b1 with
      | false => exact ⟨he1, hs1, rfl⟩
      | true =>
        simp only []
        have hlt := hlt1 rfl
        rw [if_pos hlt]
        have hi1 := h.suffix hs1 he1
        rcases ((ih r1 (by omega) hi1).1 true).cases with ⟨a, r2, hx, he2, hs2, hp2⟩ | ⟨e, hx, hm, ho⟩ <;> rw [hx]
        · cases a with
          | none => have := hp2.2 rfl; simp at this
          | some res2 =>
            simp only []
            have hs2' : r2 <:+ ts := hs2.trans hs1
            split
            · exact errFront_good he2 hs2'
            · have hlt2 : r2.length < ts.length := by have := hs2.length_le; omega
              rw [if_pos hlt2]
              exact ((ih r2 (by omega) (h.suffix hs2' he2)).2 _).mono hs2' (fun _ _ _ hp => hp)
        · exact ⟨hs1.subset hm, ho⟩

theorem parseArithmetic_good {text : Bytes} {outer : Pos} {ts : List Token} {force : Bool} (h : Inv text ts) :
    (parseArithmetic ts outer force).Good ts outer (ArithP ts force) :=
  (arith_good_aux _ ts (Nat.le_refl _) h).1 force

theorem parseScaleFactorOpt_good {text : Bytes} {outer : Pos} {ts : List Token} (h : Inv text ts) :
    (parseScaleFactorOpt ts outer).Good ts outer NoP := by
  unfold parseScaleFactorOpt
  obtain ⟨t0, r0, h0, he0, hws0, hpre0⟩ := skipWS_ok h.eof
  rw [h0]; simp only []
  have hi0 := h.suffix hpre0.suffix he0
  rcases (parseVarIdent_good (outer := outer) hi0).cases with
    ⟨a, rest, hx, he1, hs1, hlt1⟩ | ⟨e, hx, hm, ho⟩ <;> rw [hx] <;> simp only []
  · rw [needFront_of he1]
    simp only [Bool.not_true, Bool.false_eq_true, if_false]
    exact ⟨he1, hs1.trans hpre0.suffix, trivial⟩
  · rcases (parseArithmetic_good (outer := outer) (force := false) hi0).cases with
      ⟨a, rest, hx, he1, hs1, hlt1⟩ | ⟨e, hx, hm, ho⟩ <;> rw [hx]
    · cases a with
      | none => exact ⟨he0, hpre0.suffix, trivial⟩
      | some a => exact ⟨he1, hs1.trans hpre0.suffix, trivial⟩
    · exact ⟨hpre0.suffix.subset hm, ho⟩

theorem parseFieldMask_good {text : Bytes} {outer : Pos} {ts : List Token} (h : Inv text ts) :
    (parseFieldMask ts outer).Good ts outer NoP := by
  unfold parseFieldMask
  obtain ⟨t0, r0, h0, he0, hws0, hpre0⟩ := skipWS_ok h.eof
  rw [h0]; simp only []
  have hi0 := h.suffix hpre0.suffix he0
  have hnone : (Res.ok (none : Option FieldMask) ts).Good ts outer NoP := ⟨h.eof, List.suffix_refl _, trivial⟩
  rcases (parseVarIdent_good (outer := outer) hi0).cases with
    ⟨name, r1, hx, he1, hs1, hlt1⟩ | ⟨e, hx, hm, ho⟩ <;> rw [hx] <;> simp only []
  · rw [needFront_of he1]
    simp only [Bool.not_true, Bool.false_eq_true, if_false]
    have hs1' : r1 <:+ ts := hs1.trans hpre0.suffix
    obtain ⟨b2, r2, hx2, he2, hs2, _⟩ := expect_ok he1 (.ch cDot) (by simp)
    rw [hx2]
    cases b2 with
    | false => exact hnone
    | true =>
      simp only []
      have hs2' : r2 <:+ ts := hs2.trans hs1'
      obtain ⟨t3, r3, h3, he3, hws3, hpre3⟩ := skipWS_ok he2
      rw [h3]; simp only []
      rw [checkToken_nonWS _ hws3]
      have hs3 : (t3 :: r3) <:+ ts := hpre3.suffix.trans hs2'
      cases hb : (t3.ty == TT.number) with
      | false => exact ⟨hs3.subset (by simp), rfl⟩
      | true =>
        simp only []
        cases parseU32 t3.val with
        | none => exact ⟨hs3.subset (by simp), rfl⟩
        | some bit =>
          simp only []
          rw [expectOrPanic_hit hws3 hb]
          simp only []
          have he4 := he3.tail (beq_true_ne_eof hb (by simp))
          have hs4 : r3 <:+ ts := (List.suffix_cons _ _).trans hs3
          rw [needFront_of he4]
          simp only [Bool.not_true, Bool.false_eq_true, if_false]
          obtain ⟨b5, r5, hx5, he5, hs5, _⟩ := expect_ok he4 (.ch cQuestion) (by simp)
          rw [hx5]
          cases b5 with
          | false => exact errFront_good he5 (hs5.trans hs4)
          | true => exact ⟨he5, hs5.trans hs4, trivial⟩
  · exact hnone

theorem parseFieldName_ok {text : Bytes} {outer : Pos} {ts : List Token} (h : Inv text ts) :
    ∃ name r, parseFieldName ts outer = some (name, r) ∧ EndsEof r ∧ r <:+ ts := by
  unfold parseFieldName
  rcases (parseVarIdent_good (outer := outer) h).cases with
    ⟨name, r1, hx, he1, hs1, hlt1⟩ | ⟨e, hx, hm, ho⟩ <;> rw [hx] <;> simp only []
  · rw [needFront_of he1]
    simp only [Bool.not_true, Bool.false_eq_true, if_false]
    obtain ⟨b2, r2, hx2, he2, hs2, _⟩ := expect_ok he1 (.ch cColon) (by simp)
    rw [hx2]
    cases b2 with
    | false => exact ⟨_, _, rfl, h.eof, List.suffix_refl _⟩
    | true => exact ⟨_, _, rfl, he2, hs2.trans hs1⟩
  · exact ⟨_, _, rfl, h.eof, List.suffix_refl _⟩

def TrueLt (ts : List Token) : Bool → List Token → Prop := fun b rest => b = true → rest.length < ts.length

theorem rwsOpen_good {text : Bytes} {outer : Pos} {ts : List Token} {scale : Option ScaleFactor} (h : Inv text ts) :
    (rwsOpen scale ts outer).Good ts outer (TrueLt ts) := by
  unfold rwsOpen
  cases scale with
  | some sc =>
    simp only []
    obtain ⟨b1, r1, hx1, he1, hs1, hlt1⟩ := expect_ok h.eof (.ch cAsterisk) (by simp)
    rw [hx1]
    cases b1 with
    | false => exact ⟨he1, hs1, by simp [TrueLt]⟩
    | true =>
      simp only []
      obtain ⟨b2, r2, hx2, he2, hs2, hlt2⟩ := expect_ok he1 (.ch cLSquare) (by simp)
      rw [hx2]
      cases b2 with
      | false => exact errFront_good he2 (hs2.trans hs1)
      | true =>
        refine ⟨he2, hs2.trans hs1, fun _ => ?_⟩
        have := hlt1 rfl; have := hs2.length_le; omega
  | none =>
    simp only []
    obtain ⟨b1, r1, hx1, he1, hs1, hlt1⟩ := expect_ok h.eof (.ch cLSquare) (by simp)
    rw [hx1]
    cases b1 with
    | false => exact ⟨he1, hs1, by simp [TrueLt]⟩
    | true => exact ⟨he1, hs1, fun _ => hlt1 rfl⟩

theorem skipToNewline_ok : ∀ {ts : List Token}, EndsEof ts →
    EndsEof (skipToNewline ts).2 ∧ WSPre ts (skipToNewline ts).2
  | [], h => absurd rfl h.ne_nil
  | t :: rest, h => by
    unfold skipToNewline
    split
    · rename_i hty
      have := skipToNewline_ok (h.tail (by rw [hty]; simp))
      exact ⟨this.1, WSPre.trans ⟨[t], by simp, by simp [hty, TT.isWS]⟩ this.2⟩
    · exact ⟨h, WSPre.refl _⟩
    · exact ⟨h, WSPre.refl _⟩
    · rename_i c hty
      split
      · rename_i hc
        have := skipToNewline_ok (h.tail (by rw [hty]; simp))
        refine ⟨this.1, WSPre.trans ⟨[t], by simp, ?_⟩ this.2⟩
        simp only [List.mem_singleton, forall_eq, hty, TT.isWS]
        simpa [cSpace, cTab] using hc
      · exact ⟨h, WSPre.refl _⟩
    · exact ⟨h, WSPre.refl _⟩

theorem sliceBetween_ok {text : Bytes} {b e : List Token} (hb : ToksOK text b) (hpre : WSPre b e) (hne : e ≠ []) :
    ∃ c, sliceBetween text b e = some c := by
  obtain ⟨ws, rfl, _⟩ := hpre
  cases e with
  | nil => exact absurd rfl hne
  | cons te e' =>
    have hte := hb.inRange te (by simp)
    cases ws with
    | nil =>
      simp only [List.nil_append, sliceBetween, sliceText]
      rw [if_pos (by simp; omega)]; exact ⟨_, rfl⟩
    | cons tb ws' =>
      have hs := hb.sorted
      simp only [List.cons_append, List.pairwise_cons] at hs
      have := hs.1 te (by simp)
      simp only [List.cons_append, sliceBetween, sliceText]
      rw [if_pos (by simp; omega)]; exact ⟨_, rfl⟩

theorem wspre_cons_of_longer {tok : Token} {it' e : List Token} (h : WSPre (tok :: it') e) (hl : (tok :: it').length > e.length) :
    tok.ty.isWS = true ∧ WSPre it' e := by
  obtain ⟨ws, heq, hws⟩ := h
  cases ws with
  | nil => simp at heq; rw [heq] at hl; simp at hl
  | cons w ws' =>
    simp only [List.cons_append, List.cons.injEq] at heq
    obtain ⟨rfl, rfl⟩ := heq
    exact ⟨hws _ (by simp), ws', rfl, fun t ht => hws t (by simp [ht])⟩

theorem commentBeforeLoop_ok {cs e : List Token} : ∀ (it begin : List Token) (nonWS : Bool),
    WSPre it e → it <:+ cs → WSPre begin e → begin <:+ cs →
    ∃ b, commentBeforeLoop e.length it begin nonWS = some b ∧ WSPre b e ∧ b <:+ cs
  | [], begin, nonWS, _, _, hb, hbs => ⟨begin, by simp [commentBeforeLoop], hb, hbs⟩
  | tok :: it', begin, nonWS, hi, his, hb, hbs => by
    unfold commentBeforeLoop
    split
    · rename_i hl
      obtain ⟨hws, hi'⟩ := wspre_cons_of_longer hi hl
      have his' : it' <:+ cs := (List.suffix_cons _ _).trans his
      split
      · exact commentBeforeLoop_ok it' begin true hi' his' hb hbs
      · split
        · exact commentBeforeLoop_ok it' it' false hi' his' hi' his'
        · exact commentBeforeLoop_ok it' begin false hi' his' hb hbs
      · rename_i c hty
        split
        · exact commentBeforeLoop_ok it' begin nonWS hi' his' hb hbs
        · rename_i hc
          rw [hty] at hws
          simp only [TT.isWS] at hws
          exact absurd (by simpa [cSpace, cTab] using hws) hc
      · rename_i h1 h2 h3
        cases hty : tok.ty <;> simp_all [TT.isWS]
    · exact ⟨begin, rfl, hb, hbs⟩

theorem parseCommentBefore_ok {text : Bytes} {cs e : List Token} (hcs : ToksOK text cs) (hpre : WSPre cs e) (hne : e ≠ []) :
    ∃ c, parseCommentBefore text cs e = some c := by
  unfold parseCommentBefore
  obtain ⟨b, hb, hbe, hbs⟩ := commentBeforeLoop_ok (cs := cs) cs cs false hpre (List.suffix_refl _) hpre (List.suffix_refl _)
  rw [hb]
  exact sliceBetween_ok (hcs.suffix hbs) hbe hne

theorem parseCommentRight_ok {text : Bytes} {cs e : List Token} (hcs : ToksOK text cs) (hpre : WSPre cs e) (hne : e ≠ []) :
    ∃ c, parseCommentRight text cs e = some c :=
  sliceBetween_ok hcs hpre hne

end TLVerif.Syntax
