import TLVerif.Syntax.Token
/-!
Bitwise CRC-32 (IEEE 802.3, reflected polynomial 0xEDB88320, initial value and final xor
0xFFFFFFFF): the function `hash/crc32.ChecksumIEEE` computes (the Go implementation is table- or
instruction-driven; equality with this definition is sampled by the tie, the standard library is
trusted).
-/
namespace TLVerif.Syntax

def crcPoly : UInt32 := 0xEDB88320

def crcBit (c : UInt32) : UInt32 :=
  if c &&& 1 == 1 then (c >>> 1) ^^^ crcPoly else c >>> 1

def crcByte (c : UInt32) (b : UInt8) : UInt32 :=
  let c := c ^^^ b.toUInt32
  crcBit (crcBit (crcBit (crcBit (crcBit (crcBit (crcBit (crcBit c)))))))

def crc32 (bs : Bytes) : UInt32 :=
  (bs.foldl crcByte 0xFFFFFFFF) ^^^ 0xFFFFFFFF

end TLVerif.Syntax
