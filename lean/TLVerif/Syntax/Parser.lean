import TLVerif.Syntax.Printer
/-!
Model of the TL1 recursive-descent parser: `internal/tlast/tlparser_code.go`,
`tlparser_typeref.go`, `tlparser_comments.go`, written the way the Go code is written.

* A `tokenIterator{tokens, offset}` is the list of the remaining tokens (`tokens[offset:]`).
  `front()` / `popFront()` on an exhausted iterator, `val[1:]` on an empty string, a nil pointer
  dereference, a string slice out of range and the four `log.Panicf`/`panic` sites are the explicit
  outcome `Res.panic`.
* Go functions return `(value, rest, err)`; on `nil, tokens, nil` ("not this alternative") the model
  returns `ok none ts` and callers continue with their own iterator, exactly as the Go callers do
  (they pass `rest` and receive the same `rest` back).
* Position ranges stored in the tree are dropped, but every `rest.front().pos` evaluated for them is
  kept as a possible panic (`needFront`).
* Every recursive call and every loop iteration is guarded by a length comparison
  (`if rest.length < ts.length then … else diverge`): the Go code has no such test, it would loop
  or recurse forever; `diverge` is proved unreachable (`TLVerif.Props.C19.parse_terminates`).
-/
namespace TLVerif.Syntax

inductive Res (α : Type) where
  | ok (a : α) (rest : List Token)
  | err (e : PErr)
  | panic
  | diverge
  deriving Inhabited

/-! ### tokenIterator -/

/-- `skipWS`: `(front, tail)` of the iterator after skipping; `none` is the `log.Panicf` of a token
array without eof. -/
def skipWS : List Token → Option (Token × List Token)
  | [] => none
  | t :: rest => if t.ty.isWS then skipWS rest else some (t, rest)

/-- `skipToNewline`: returns whether a newline (or eof) was found and the iterator -/
def skipToNewline : List Token → Bool × List Token
  | [] => (false, [])
  | t :: rest =>
    match t.ty with
    | .comment => skipToNewline rest
    | .newLine => (true, t :: rest)
    | .eof => (true, t :: rest)
    | .ch c => if c == cSpace || c == cTab then skipToNewline rest else (false, t :: rest)
    | _ => (false, t :: rest)

/-- `checkToken(i)`: result, front token and tail of the (skipped) iterator -/
def checkToken (ts : List Token) (ty : TT) : Option (Bool × Token × List Token) :=
  match skipWS ts with
  | none => none
  | some (t, r) => some (t.ty == ty, t, r)

/-- `expect(i)`: `(true, iterator after the token)` or `(false, skipped iterator)` -/
def expect (ts : List Token) (ty : TT) : Option (Bool × List Token) :=
  match checkToken ts ty with
  | none => none
  | some (true, _, r) => some (true, r)
  | some (false, t, r) => some (false, t :: r)

/-- `expectOrPanic(i)` -/
def expectOrPanic (ts : List Token) (ty : TT) : Option (List Token) :=
  match expect ts ty with
  | some (true, r) => some r
  | _ => none

/-- a `rest.front()` evaluated only for a position range -/
def needFront (ts : List Token) : Bool := !ts.isEmpty

/-- `return …, parseErrToken(err, rest.front(), outer)`; `front()` on an exhausted iterator panics -/
def errFront {α : Type} (it : List Token) (outer : Pos) : Res α :=
  match it with
  | [] => .panic
  | t :: _ => .err ⟨t, outer⟩

/-- `splitIdenNSFromToken`; `none` is its `log.Panicf` -/
def splitIden (s : Bytes) : Option Name :=
  let pre := s.takeWhile (· != cDot)
  if pre.length < s.length then some ⟨pre, s.drop (pre.length + 1)⟩ else none

/-- The common shape of `parseLCIdentNS`, `parseUCIdentNS`, `parseVarIdent`, `parseTypeRefAsName`:
try `checkToken` for each class in turn; on a hit take `front().val` (split at the dot for the
namespace classes), `expectOrPanic`; otherwise the error at `rest.front()`. -/
def parseNameAlts (outer : Pos) : List TT → List Token → Res Name
  | [], it => errFront it outer
  | ty :: more, it =>
    match checkToken it ty with
    | none => .panic
    | some (true, t, r) =>
      match (if ty.isNS then splitIden t.val else some ⟨[], t.val⟩) with
      | none => .panic
      | some n =>
        match expectOrPanic (t :: r) ty with
        | none => .panic
        | some rest => .ok n rest
    | some (false, t, r) => parseNameAlts outer more (t :: r)

def parseLCIdentNS (ts : List Token) (outer : Pos) : Res Name := parseNameAlts outer [.lcIdentNS, .lcIdent] ts
def parseUCIdentNS (ts : List Token) (outer : Pos) : Res Name := parseNameAlts outer [.ucIdentNS, .ucIdent] ts
def parseVarIdent (ts : List Token) (outer : Pos) : Res Name := parseNameAlts outer [.lcIdent, .ucIdent] ts
def parseTypeRefAsName (ts : List Token) (outer : Pos) : Res Name :=
  parseNameAlts outer [.lcIdentNS, .lcIdent, .ucIdentNS, .ucIdent] ts

/-! ### numbers -/

def decValue (s : Bytes) : Nat := s.foldl (fun acc c => acc * 10 + (c.toNat - 48)) 0

/-- `strconv.ParseUint(s, 10, 32)` on a `number` token (digits only): `none` on empty input, a
non-digit, or a value above 2^32-1 -/
def parseU32 (s : Bytes) : Option Nat :=
  if s.isEmpty || !(s.all digit) then none
  else if decValue s < 4294967296 then some (decValue s) else none

def hexVal (c : UInt8) : Nat := if digit c then c.toNat - 48 else c.toNat - 87

/-- `strconv.ParseUint(s, 16, 32)` on the digits of a `crc32hash` token -/
def parseHex32 (s : Bytes) : Option Nat :=
  if s.isEmpty || !(s.all hexChar) then none
  else
    let v := s.foldl (fun acc c => acc * 16 + hexVal c) 0
    if v < 4294967296 then some v else none

/-! ### comments (`tlparser_comments.go`) -/

/-- `fileContent[a:b]`; `none` is the slice-bounds panic -/
def sliceText (text : Bytes) (a b : Nat) : Option Bytes :=
  if a ≤ b && b ≤ text.length then some ((text.drop a).take (b - a)) else none

/-- `fileContent[begin.front().pos.offset:end.front().pos.offset]` -/
def sliceBetween (text : Bytes) (b e : List Token) : Option Bytes :=
  match b, e with
  | tb :: _, te :: _ => sliceText text tb.pos.off te.pos.off
  | _, _ => none

/-- the loop of `parseCommentBefore`: `it` runs while `it.offset < end.offset`
(`it.length > endLen`); returns the final `begin`; `none` is `panic("unexpected token in whitespace")`
or `popFront` out of range. -/
def commentBeforeLoop (endLen : Nat) : List Token → List Token → Bool → Option (List Token)
  | [], begin, _ => some begin
  | tok :: it', begin, nonWS =>
    if (tok :: it').length > endLen then
      match tok.ty with
      | .comment => commentBeforeLoop endLen it' begin true
      | .newLine => commentBeforeLoop endLen it' (if !nonWS then it' else begin) false
      | .ch c => if c == cSpace || c == cTab then commentBeforeLoop endLen it' begin nonWS else none
      | _ => none
    else some begin

/-- `parseCommentBefore` (without `strings.TrimSpace`) -/
def parseCommentBefore (text : Bytes) (begin end_ : List Token) : Option Bytes :=
  match commentBeforeLoop end_.length begin begin false with
  | none => none
  | some b => sliceBetween text b end_

/-- `parseCommentRight` (without `strings.TrimSpace`) -/
def parseCommentRight (text : Bytes) (begin end_ : List Token) : Option Bytes :=
  sliceBetween text begin end_

/-! ### modifiers, constructor, template arguments, type declaration -/

/-- `parseModifiers` (never returns an error) -/
def parseModifiers (ts : List Token) (acc : List Bytes) : Res (List Bytes) :=
  match skipWS ts with     -- mod.PR = rest.skipWS(outer)
  | none => .panic
  | some (t0, r0) =>
    match checkToken (t0 :: r0) .annotation with
    | none => .panic
    | some (false, t, r) => .ok acc (t :: r)
    | some (true, t, r) =>
      match t.val with
      | [] => .panic     -- `val[1:]`
      | _ :: nm =>
        match expectOrPanic (t :: r) .annotation with
        | none => .panic
        | some rest =>
          if !needFront rest then .panic
          else if rest.length < ts.length then parseModifiers rest (acc ++ [nm]) else .diverge
termination_by ts.length

/-- the name part of `parseConstructor` (`#` as a name is allowed only with `allowBuiltin`) -/
def constructorName (t0 : Token) (r0 : List Token) (outer : Pos) (allowBuiltin : Bool) : Res Name :=
  match (if allowBuiltin then checkToken (t0 :: r0) .numberSign else some (false, t0, r0)) with
  | none => .panic
  | some (true, t, r) =>
    match expectOrPanic (t :: r) .numberSign with
    | none => .panic
    | some rest => .ok ⟨[], t.val⟩ rest
  | some (false, t, r) => parseLCIdentNS (t :: r) outer

/-- `parseConstructor` -/
def parseConstructor (ts : List Token) (outer : Pos) (allowBuiltin : Bool) : Res Constructor :=
  match skipWS ts with
  | none => .panic
  | some (t0, r0) =>
    match constructorName t0 r0 outer allowBuiltin with
    | .panic => .panic
    | .diverge => .diverge
    | .err e => .err e
    | .ok name rest =>
      if !needFront rest then .panic else
      match checkToken rest .crc32hash with
      | none => .panic
      | some (false, t, r) => .ok ⟨name, 0, false⟩ (t :: r)
      | some (true, t, r) =>
        match t.val with
        | [] => .panic    -- `val[1:]`
        | _ :: digits =>
          match parseHex32 digits with
          | none => .err ⟨t, outer⟩
          | some v =>
            match expectOrPanic (t :: r) .crc32hash with
            | none => .panic
            | some rest2 => if !needFront rest2 then .panic else .ok ⟨name, UInt32.ofNat v, true⟩ rest2

/-- the `switch` of `parseTemplateArgument`: `Type` or `#`; returns `IsNat` -/
def templateArgKind (r3 : List Token) (outer : Pos) : Res Bool :=
  match checkToken r3 .ucIdent with
  | none => .panic
  | some (b, t, r) =>
    if b && t.val == typeBytes then
      match expectOrPanic (t :: r) .ucIdent with
      | none => .panic
      | some rest => .ok false rest
    else
      match checkToken (t :: r) .numberSign with
      | none => .panic
      | some (true, t', r') =>
        (match expectOrPanic (t' :: r') .numberSign with
         | none => .panic
         | some rest => .ok true rest)
      | some (false, t', _) => .err ⟨t', outer⟩

/-- `parseTemplateArgument` -/
def parseTemplateArgument (ts : List Token) (outer : Pos) : Res (Option TemplateArg) :=
  match skipWS ts with
  | none => .panic
  | some (t0, r0) =>
    match expect (t0 :: r0) (.ch cLCurly) with
    | none => .panic
    | some (false, _) => .ok none ts
    | some (true, r1) =>
      match parseVarIdent r1 outer with
      | .panic => .panic
      | .diverge => .diverge
      | .err e => .err e
      | .ok fieldName r2 =>
        match expect r2 (.ch cColon) with
        | none => .panic
        | some (false, it) => errFront it outer
        | some (true, r3) =>
          match templateArgKind r3 outer with
          | .panic => .panic
          | .diverge => .diverge
          | .err e => .err e
          | .ok isNat r4 =>
            match expect r4 (.ch cRCurly) with
            | none => .panic
            | some (false, it) => errFront it outer
            | some (true, r5) => if !needFront r5 then .panic else .ok (some ⟨fieldName.name, isNat⟩) r5

/-- `parseTemplateArguments` -/
def parseTemplateArguments (ts : List Token) (outer : Pos) (acc : List TemplateArg) : Res (List TemplateArg) :=
  match parseTemplateArgument ts outer with
  | .panic => .panic
  | .diverge => .diverge
  | .err e => .err e
  | .ok none _ => .ok acc ts
  | .ok (some a) rest =>
    if rest.length < ts.length then parseTemplateArguments rest outer (acc ++ [a]) else .diverge
termination_by ts.length

/-- the argument loop of `parseTypeDeclaration` -/
def typeDeclArgs (ts : List Token) (outer : Pos) (acc : List Bytes) : Res (List Bytes) :=
  match skipWS ts with     -- argPR := rest.skipWS(outer)
  | none => .panic
  | some (t0, r0) =>
    match parseVarIdent (t0 :: r0) outer with
    | .panic => .panic
    | .diverge => .diverge
    | .err _ => .ok acc (t0 :: r0)
    | .ok a rest =>
      if !needFront rest then .panic
      else if rest.length < ts.length then typeDeclArgs rest outer (acc ++ [a.name]) else .diverge
termination_by ts.length

/-- `parseTypeDeclaration` -/
def parseTypeDeclaration (ts : List Token) (outer : Pos) : Res TypeDecl :=
  match skipWS ts with
  | none => .panic
  | some (t0, r0) =>
    match parseUCIdentNS (t0 :: r0) outer with
    | .panic => .panic
    | .diverge => .diverge
    | .err e => .err e
    | .ok name rest =>
      if !needFront rest then .panic else
      match typeDeclArgs rest outer [] with
      | .panic => .panic
      | .diverge => .diverge
      | .err e => .err e
      | .ok args rest2 => if !needFront rest2 then .panic else .ok ⟨name, args⟩ rest2

/-! ### arithmetic -/

mutual
/-- `parseArithmetic` -/
def parseArithmetic (ts : List Token) (outer : Pos) (force : Bool) : Res (Option Arith) :=
  match expect ts (.ch cLRound) with
  | none => .panic
  | some (true, r1) =>
    if r1.length < ts.length then
      match parseArithmetic r1 outer force with
      | .panic => .panic
      | .diverge => .diverge
      | .err e => .err e
      | .ok none _ => .ok none ts
      | .ok (some a) r2 =>
        match expect r2 (.ch cRRound) with
        | none => .panic
        | some (false, it) => errFront it outer
        | some (true, r3) =>
          if r3.length < ts.length then arithPlusLoop r3 outer a else .diverge
    else .diverge
  | some (false, it) =>
    match checkToken it .number with
    | none => .panic
    | some (true, t, r) =>
      match parseU32 t.val with
      | none => .err ⟨t, outer⟩
      | some v =>
        match expectOrPanic (t :: r) .number with
        | none => .panic
        | some r2 => if r2.length < ts.length then arithPlusLoop r2 outer ⟨[v], v⟩ else .diverge
    | some (false, t, _) =>
      if force then .err ⟨t, outer⟩ else .ok none ts
termination_by ts.length * 2 + 1
/-- `for rest.expect(plus) { … }` and the final return of `parseArithmetic` -/
def arithPlusLoop (ts : List Token) (outer : Pos) (res : Arith) : Res (Option Arith) :=
  match expect ts (.ch cPlus) with
  | none => .panic
  | some (false, it) => .ok (some res) it
  | some (true, r1) =>
    if r1.length < ts.length then
      match parseArithmetic r1 outer true with
      | .panic => .panic
      | .diverge => .diverge
      | .err e => .err e
      | .ok none _ => .panic    -- `res2.Res` on a nil pointer
      | .ok (some res2) r2 =>
        let sum := res.res + res2.res
        if sum ≥ 4294967295 then errFront r2 outer
        else if r2.length < ts.length then arithPlusLoop r2 outer ⟨res.nums ++ res2.nums, sum⟩ else .diverge
    else .diverge
termination_by ts.length * 2
end

/-! ### field pieces that do not recurse -/

/-- `parseScaleFactorOpt`; `ok none rest` keeps the skipped iterator as the Go code does -/
def parseScaleFactorOpt (ts : List Token) (outer : Pos) : Res (Option ScaleFactor) :=
  match skipWS ts with
  | none => .panic
  | some (t0, r0) =>
    match parseVarIdent (t0 :: r0) outer with
    | .panic => .panic
    | .diverge => .diverge
    | .ok n rest => if !needFront rest then .panic else .ok (some (.name n.name)) rest
    | .err _ =>
      match parseArithmetic (t0 :: r0) outer false with
      | .panic => .panic
      | .diverge => .diverge
      | .err e => .err e
      | .ok (some a) rest => .ok (some (.arith a)) rest
      | .ok none _ => .ok none (t0 :: r0)

/-- `parseFieldMask` -/
def parseFieldMask (ts : List Token) (outer : Pos) : Res (Option FieldMask) :=
  match skipWS ts with
  | none => .panic
  | some (t0, r0) =>
    match parseVarIdent (t0 :: r0) outer with
    | .panic => .panic
    | .diverge => .diverge
    | .err _ => .ok none ts
    | .ok name r1 =>
      if !needFront r1 then .panic else
      match expect r1 (.ch cDot) with
      | none => .panic
      | some (false, _) => .ok none ts
      | some (true, r2) =>
        match skipWS r2 with     -- res.PRBits = rest.skipWS(outer)
        | none => .panic
        | some (t3, r3) =>
          match checkToken (t3 :: r3) .number with
          | none => .panic
          | some (false, t, _) => .err ⟨t, outer⟩
          | some (true, t, r) =>
            match parseU32 t.val with
            | none => .err ⟨t, outer⟩
            | some bit =>
              match expectOrPanic (t :: r) .number with
              | none => .panic
              | some r4 =>
                if !needFront r4 then .panic else
                match expect r4 (.ch cQuestion) with
                | none => .panic
                | some (false, it) => errFront it outer
                | some (true, r5) => .ok (some ⟨name.name, bit⟩) r5

/-- `parseFieldName`: never an error; `none` is a panic -/
def parseFieldName (ts : List Token) (outer : Pos) : Option (Bytes × List Token) :=
  match parseVarIdent ts outer with
  | .panic => none
  | .diverge => none
  | .err _ => some ([], ts)
  | .ok name r1 =>
    if !needFront r1 then none else
    match expect r1 (.ch cColon) with
    | none => none
    | some (false, _) => some ([], ts)
    | some (true, r2) => some (name.name, r2)

/-- the `'*'`/`'['` part of `parseRepeatWithScaleOpt` after the optional scale factor:
`ok true rest`: positioned after `'['`; `ok false _`: not a repetition (`return nil, tokens, nil`) -/
def rwsOpen (scale : Option ScaleFactor) (r1 : List Token) (outer : Pos) : Res Bool :=
  match scale with
  | some _ =>
    match expect r1 (.ch cAsterisk) with
    | none => .panic
    | some (false, it) => .ok false it
    | some (true, r2) =>
      match expect r2 (.ch cLSquare) with
      | none => .panic
      | some (false, it) => errFront it outer
      | some (true, r3) => .ok true r3
  | none =>
    match expect r1 (.ch cLSquare) with
    | none => .panic
    | some (false, it) => .ok false it
    | some (true, r3) => .ok true r3

/-! ### type references, fields, repeats (mutually recursive) -/

/-- result of `parseRepeatWithScaleOpt` -/
abbrev RWS := Option ScaleFactor × List Field

mutual
/-- `parseTypeRef` -/
def parseTypeRef (ts : List Token) (applyFlag allowRoundBracket : Bool) (outer : Pos) : Res (Option TypeRef) :=
  match skipWS ts with     -- pr := rest.skipWS(outer)
  | none => .panic
  | some (t0, r0) =>
    match expect (t0 :: r0) .numberSign with
    | none => .panic
    | some (true, r1) =>
      if !needFront r1 then .panic else .ok (some (.mk ⟨[], [cHash]⟩ [] false)) r1
    | some (false, it0) =>
      match expect it0 (.ch cPercent) with
      | none => .panic
      | some (bare, it1) =>
        match skipWS it1 with     -- rest.skipWS(outer); startOfSomething := rest
        | none => .panic
        | some (t2, r2) =>
          if r2.length < ts.length then
          match parseTypeRefInRoundBracketsOpt (t2 :: r2) outer with
          | .panic => .panic
          | .diverge => .diverge
          | .err e => .err e
          | .ok (some pt) rest =>
            if !allowRoundBracket then .err ⟨t2, outer⟩
            else if !needFront rest then .panic
            else .ok (some (pt.setBare (pt.bare || bare))) rest
          | .ok none _ =>
            match parseTypeRefWithAngleBracketsOpt (t2 :: r2) outer with
            | .panic => .panic
            | .diverge => .diverge
            | .err e => .err e
            | .ok (some pt) rest =>
              if !needFront rest then .panic else .ok (some (pt.setBare (pt.bare || bare))) rest
            | .ok none _ =>
              match parseTypeRefAsName (t2 :: r2) outer with
              | .panic => .panic
              | .diverge => .diverge
              | .err _ => .ok none ts
              | .ok name rest =>
                if !needFront rest then .panic
                else if applyFlag then
                  if rest.length < ts.length then
                    match applyArgsLoop rest outer [] with
                    | .panic => .panic
                    | .diverge => .diverge
                    | .err e => .err e
                    | .ok args rest2 => .ok (some (.mk name args bare)) rest2
                  else .diverge
                else .ok (some (.mk name [] bare)) rest
          else .diverge
termination_by ts.length * 8 + 4
/-- the `if applyFlag { for { … } }` loop of `parseTypeRef` -/
def applyArgsLoop (ts : List Token) (outer : Pos) (acc : List AOT) : Res (List AOT) :=
  if !needFront ts then .panic else     -- res.PRArgs.End = rest.front().pos
  match parseArithmeticOrTypeOpt ts false outer with
  | .panic => .panic
  | .diverge => .diverge
  | .err e => .err e
  | .ok none _ => .ok acc ts
  | .ok (some aot) rest =>
    if rest.length < ts.length then applyArgsLoop rest outer (acc ++ [aot]) else .diverge
termination_by ts.length * 8 + 6
/-- `parseTypeRefInRoundBracketsOpt` -/
def parseTypeRefInRoundBracketsOpt (ts : List Token) (outer : Pos) : Res (Option TypeRef) :=
  match expect ts (.ch cLRound) with
  | none => .panic
  | some (false, _) => .ok none ts
  | some (true, r1) =>
    if r1.length < ts.length then
      match parseTypeRef r1 true true outer with
      | .panic => .panic
      | .diverge => .diverge
      | .err e => .err e
      | .ok none _ => errFront r1 outer
      | .ok (some res) r2 =>
        match expect r2 (.ch cRRound) with
        | none => .panic
        | some (false, it) => errFront it outer
        | some (true, r3) => .ok (some res) r3
    else .diverge
termination_by ts.length * 8 + 3
/-- `parseTypeRefWithAngleBracketsOpt` -/
def parseTypeRefWithAngleBracketsOpt (ts : List Token) (outer : Pos) : Res (Option TypeRef) :=
  match parseTypeRefAsName ts outer with
  | .panic => .panic
  | .diverge => .diverge
  | .err _ => .ok none ts
  | .ok name r1 =>
    match expect r1 (.ch cLAngle) with
    | none => .panic
    | some (false, _) => .ok none ts
    | some (true, r2) =>
      match skipWS r2 with     -- res.PRArgs = rest.skipWS(outer)
      | none => .panic
      | some (t3, r3) =>
        if r3.length + 1 < ts.length then
          match angleArgsLoop (t3 :: r3) outer [] with
          | .panic => .panic
          | .diverge => .diverge
          | .err e => .err e
          | .ok args rest => .ok (some (.mk name args false)) rest
        else .diverge
termination_by ts.length * 8 + 3
/-- the `for { … }` loop of `parseTypeRefWithAngleBracketsOpt` -/
def angleArgsLoop (ts : List Token) (outer : Pos) (acc : List AOT) : Res (List AOT) :=
  match parseArithmeticOrTypeOpt ts true outer with
  | .panic => .panic
  | .diverge => .diverge
  | .err e => .err e
  | .ok none _ => errFront ts outer
  | .ok (some aot) rest =>
    match expect rest (.ch cComma) with
    | none => .panic
    | some (true, r1) =>
      if r1.length < ts.length then angleArgsLoop r1 outer (acc ++ [aot]) else .diverge
    | some (false, it) =>
      if !needFront it then .panic else
      match expect it (.ch cRAngle) with
      | none => .panic
      | some (false, it2) => errFront it2 outer
      | some (true, r2) => .ok (acc ++ [aot]) r2
termination_by ts.length * 8 + 6
/-- `parseArithmeticOrTypeOpt` -/
def parseArithmeticOrTypeOpt (ts : List Token) (applyFlag : Bool) (outer : Pos) : Res (Option AOT) :=
  match skipWS ts with
  | none => .panic
  | some (t0, r0) =>
    match parseArithmetic (t0 :: r0) outer false with
    | .panic => .panic
    | .diverge => .diverge
    | .err e => .err e
    | .ok (some a) rest => if !needFront rest then .panic else .ok (some (.arith a)) rest
    | .ok none _ =>
      if r0.length < ts.length then
        match parseTypeRef (t0 :: r0) applyFlag true outer with
        | .panic => .panic
        | .diverge => .diverge
        | .err e => .err e
        | .ok (some t) rest => .ok (some (.type t)) rest
        | .ok none _ => .ok none ts
      else .diverge
termination_by ts.length * 8 + 5
/-- `parseRepeatWithScaleOpt` -/
def parseRepeatWithScaleOpt (text : Bytes) (ts : List Token) (outer : Pos) : Res (Option RWS) :=
  match skipWS ts with
  | none => .panic
  | some (t0, r0) =>
    match parseScaleFactorOpt (t0 :: r0) outer with
    | .panic => .panic
    | .diverge => .diverge
    | .err e => .err e
    | .ok scale r1 =>
      match rwsOpen scale r1 outer with
      | .panic => .panic
      | .diverge => .diverge
      | .err e => .err e
      | .ok false _ => .ok none ts
      | .ok true r3 =>
        if r3.length < ts.length then
          match parseFields text r3 r3 (.ch cRSquare) (.ch cRSquare) outer [] with
          | .panic => .panic
          | .diverge => .diverge
          | .err e => .err e
          | .ok (_, rep) r4 => if !needFront r4 then .panic else .ok (some (scale, rep)) r4
        else .diverge
termination_by ts.length * 8 + 5
/-- `parseField` -/
def parseField (text : Bytes) (commentStart ts : List Token) (outer : Pos) : Res Field :=
  match skipWS ts with
  | none => .panic
  | some (t0, r0) =>
    match parseCommentBefore text commentStart (t0 :: r0) with
    | none => .panic
    | some cb =>
      match parseFieldName (t0 :: r0) outer with
      | none => .panic
      | some (fieldName, r1) =>
        match parseFieldMask r1 outer with
        | .panic => .panic
        | .diverge => .diverge
        | .err e => .err e
        | .ok mask r2' =>
          let r2 := if mask.isSome then r2' else r1
          match expect r2 (.ch cExcl) with
          | none => .panic
          | some (excl, r3) =>
            if r3.length ≤ ts.length then
              match parseRepeatWithScaleOpt text r3 outer with
              | .panic => .panic
              | .diverge => .diverge
              | .err e => .err e
              | .ok (some (scale, rep)) r4 =>
                if !needFront r4 then .panic else .ok (.mk fieldName mask excl (.rep scale rep) false cb []) r4
              | .ok none _ =>
                match parseTypeRef r3 false true outer with
                | .panic => .panic
                | .diverge => .diverge
                | .err e => .err e
                | .ok none _ => errFront r3 outer
                | .ok (some t) r4 =>
                  if !needFront r4 then .panic else .ok (.mk fieldName mask excl (.type t) false cb []) r4
            else .diverge
termination_by ts.length * 8 + 6
/-- the `for { … }` loop of `parseFields`; returns the finishing token type and the fields -/
def parseFields (text : Bytes) (commentStart ts : List Token) (fin1 fin2 : TT) (outer : Pos) (acc : List Field) :
    Res (TT × List Field) :=
  match checkToken ts fin1 with
  | none => .panic
  | some (true, _, r) => .ok (fin1, acc) r      -- rest.popFront()
  | some (false, t, r) =>
    match checkToken (t :: r) fin2 with
    | none => .panic
    | some (true, _, r') => .ok (fin2, acc) r'
    | some (false, t', r') =>
      if r'.length < ts.length then
        match parseField text commentStart (t' :: r') outer with
        | .panic => .panic
        | .diverge => .diverge
        | .err e => .err e
        | .ok field r1 =>
          -- commentStart = rest; if rest.skipToNewline() { NewlineRight; CommentRight }
          match skipToNewline r1 with
          | (nl, r2) =>
            match (if nl then parseCommentRight text r1 r2 else some []) with
            | none => .panic
            | some cr =>
              if r2.length < ts.length then
                parseFields text r2 r2 fin1 fin2 outer (acc ++ [field.setRight nl cr])
              else .diverge
      else .diverge
termination_by ts.length * 8 + 7
end

/-! ### combinators and files -/

/-- `parseFuncDecl` -/
def parseFuncDecl (ts : List Token) (outer : Pos) : Res TypeRef :=
  match parseTypeRef ts true false outer with
  | .panic => .panic
  | .diverge => .diverge
  | .err e => .err e
  | .ok none _ => errFront ts outer
  | .ok (some t) rest => .ok t rest

def builtinWildcard : Name := ⟨[], [cUnderscore]⟩

/-- the body of a combinator in `parseCombinator`: `? =` (legacy builtin) or the fields up to `=`/`=>`;
returns `(Builtin, isFunction, Fields)` -/
def combinatorBody (text : Bytes) (r4 : List Token) (outer : Pos) (isFunction : Bool) : Res (Bool × Bool × List Field) :=
  match checkToken r4 (.ch cQuestion) with
  | none => .panic
  | some (true, t5, r5) =>
    if isFunction then .err ⟨t5, outer⟩
    else
      match expectOrPanic (t5 :: r5) (.ch cQuestion) with
      | none => .panic
      | some r6 =>
        match expect r6 (.ch cEqual) with
        | none => .panic
        | some (false, it) => errFront it outer
        | some (true, r7) => .ok (true, isFunction, []) r7
  | some (false, t5, r5) =>
    match parseFields text (t5 :: r5) (t5 :: r5) (.ch cEqual) .functionSign outer [] with
    | .panic => .panic
    | .diverge => .diverge
    | .err e => .err e
    | .ok (fin, fields) r6 => .ok (false, isFunction || fin == .functionSign, fields) r6

/-- the declaration part of `parseCombinator`: `(Builtin, TypeDecl, FuncDecl)` -/
def combinatorDecl (r6 : List Token) (outer : Pos) (builtin isFunction : Bool) : Res (Bool × TypeDecl × TypeRef) :=
  if isFunction then
    match parseFuncDecl r6 outer with
    | .panic => .panic
    | .diverge => .diverge
    | .err e => .err e
    | .ok fd r7 => .ok (builtin, ⟨⟨[], []⟩, []⟩, fd) r7
  else
    match parseTypeDeclaration r6 outer with
    | .panic => .panic
    | .diverge => .diverge
    | .err e => .err e
    | .ok tdl r7 => .ok (builtin || tdl.name == builtinWildcard, tdl, TypeRef.zero) r7

/-- the tag: explicit, or `crc32()` of the canonical form -/
def Combinator.withTag (td : Combinator) : Combinator :=
  if td.construct.explicit then td else { td with construct := { td.construct with id := td.genCrc32 } }

/-- `parseCombinator` up to and including the terminating `;`: the combinator without its computed tag and
right comment -/
def parseCombinatorPre (text : Bytes) (commentStart ts : List Token) (isFunction allowBuiltin : Bool) : Res Combinator :=
  match skipWS ts with     -- td.PR = rest.skipWS(Position{})
  | none => .panic
  | some (t0, r0) =>
    match parseCommentBefore text commentStart (t0 :: r0) with
    | none => .panic
    | some cb =>
      let outer := t0.pos
      match parseModifiers (t0 :: r0) [] with
      | .panic => .panic
      | .diverge => .diverge
      | .err e => .err e
      | .ok mods r1 =>
        match parseConstructor r1 outer allowBuiltin with
        | .panic => .panic
        | .diverge => .diverge
        | .err e => .err e
        | .ok construct r2 =>
          match skipWS r2 with     -- td.TemplateArgumentsPR = rest.skipWS(outer)
          | none => .panic
          | some (t3, r3) =>
            match parseTemplateArguments (t3 :: r3) outer [] with
            | .panic => .panic
            | .diverge => .diverge
            | .err e => .err e
            | .ok targs r4 =>
              if !needFront r4 then .panic else
              match combinatorBody text r4 outer isFunction with
              | .panic => .panic
              | .diverge => .diverge
              | .err e => .err e
              | .ok (builtin, isFunction, fields) r6 =>
                match combinatorDecl r6 outer builtin isFunction with
                | .panic => .panic
                | .diverge => .diverge
                | .err e => .err e
                | .ok (builtin, typeDecl, funcDecl) r7 =>
                  match expect r7 (.ch cSemi) with
                  | none => .panic
                  | some (false, it) => errFront it outer
                  | some (true, r8) =>
                    let td : Combinator :=
                      { builtin := builtin, isFunction := isFunction, mods := mods, construct := construct,
                        targs := targs, fields := fields, typeDecl := typeDecl, funcDecl := funcDecl,
                        cb := cb, cr := [] }
                    .ok td r8

/-- `parseCombinator`: after the `;`, the tag (`td.Construct.ID = td.crc32()` unless explicit), the comment
to the right, `td.PR.End = rest.front().pos` -/
def parseCombinator (text : Bytes) (commentStart ts : List Token) (isFunction allowBuiltin : Bool) : Res Combinator :=
  match parseCombinatorPre text commentStart ts isFunction allowBuiltin with
  | .panic => .panic
  | .diverge => .diverge
  | .err e => .err e
  | .ok td r8 =>
    match skipToNewline r8 with
    | (nl, r9) =>
      match (if nl then parseCommentRight text r8 r9 else some []) with
      | none => .panic
      | some cr => if !needFront r9 then .panic else .ok { td.withTag with cr := cr } r9

inductive FileRes where
  | ok (tl : TL)
  | lexErr (e : PErr)
  | err (e : PErr)
  | panic
  | diverge
  deriving Inhabited

/-- the main loop of `ParseTLFile` -/
def parseFileLoop (text : Bytes) (allowBuiltin : Bool) (commentStart ts : List Token) (functionSection : Bool)
    (acc : List Item) : FileRes :=
  match checkToken ts .eof with
  | none => .panic
  | some (true, t, r) =>
    match sliceBetween text commentStart (t :: r) with
    | none => .panic
    | some ca => .ok ⟨acc, ca⟩
  | some (false, t, r) =>
    if t.ty == .typesSection || t.ty == .functionsSection then
      match sliceBetween text commentStart (t :: r) with
      | none => .panic
      | some cc =>
        let fs := t.ty == .functionsSection
        if r.length < ts.length then
          parseFileLoop text allowBuiltin r r fs (acc ++ [.section fs cc])
        else .diverge
    else
      match parseCombinator text commentStart (t :: r) functionSection allowBuiltin with
      | .panic => .panic
      | .diverge => .diverge
      | .err e => .err e
      | .ok td rest =>
        if !needFront commentStart then .panic    -- td.AllPR.Begin = commentStart.front().pos
        else if rest.length < ts.length then
          parseFileLoop text allowBuiltin rest rest functionSection (acc ++ [.comb td])
        else .diverge
termination_by ts.length

/-- `ParseTLFile(str, file, opts)` -/
def parseTLFile (o : LexOpts) (text : Bytes) : FileRes :=
  match generateTokens o text with
  | .panic => .panic
  | .diverge => .diverge
  | .err _ e => .lexErr e
  | .ok toks rest =>
    if recombine toks rest != text then .panic     -- "invariant violation in tokenizer"
    else parseFileLoop text o.allowBuiltin toks toks false []

end TLVerif.Syntax
