import TLVerif.Generated.SyntaxFacts
/-!
Tokens, positions and character classes of `internal/tlast/tllexer.go`.

Go's `tokenType int` is either a (negative) class constant or the byte value of a one-character
token.  Here it is the inductive `TT`: one constructor per class constant and `ch c` for the byte
`c`.  That the Go constants are pairwise distinct and negative (so that they cannot collide with a
byte value) is the T1 obligation `TLVerif.Props.C19.token_classes_distinct` over the regenerated
facts; `TT.code` maps a `TT` back to the Go integer using the extracted values.
-/
namespace TLVerif.Syntax

abbrev Bytes := List UInt8

/-- `Position` without the file name / content (one file per parse). `Position{}` is `Pos.zero`. -/
structure Pos where
  line : Nat
  col : Nat
  slo : Nat   -- startLineOffset
  off : Nat   -- offset
  deriving DecidableEq, Repr, Inhabited

def Pos.zero : Pos := ⟨0, 0, 0, 0⟩

inductive TT where
  | typesSection | functionsSection | crc32hash | annotation | numberSign | number | comment | undefined
  | lcIdent | ucIdent | lcIdentNS | ucIdentNS | eof | functionSign | newLine
  | tl2alias | tl2depName | tl2typeSign
  | ch (c : UInt8)
  deriving DecidableEq, Repr, Inhabited

/-- The Go integer of a token type, from the extracted constants. -/
def TT.code : TT → Int
  | .typesSection => Facts.Syntax.typesSection | .functionsSection => Facts.Syntax.functionsSection
  | .crc32hash => Facts.Syntax.crc32hash | .annotation => Facts.Syntax.annotation
  | .numberSign => Facts.Syntax.numberSign | .number => Facts.Syntax.number | .comment => Facts.Syntax.comment
  | .undefined => Facts.Syntax.undefined | .lcIdent => Facts.Syntax.lcIdent | .ucIdent => Facts.Syntax.ucIdent
  | .lcIdentNS => Facts.Syntax.lcIdentNS | .ucIdentNS => Facts.Syntax.ucIdentNS | .eof => Facts.Syntax.eof
  | .functionSign => Facts.Syntax.functionSign | .newLine => Facts.Syntax.newLine
  | .tl2alias => Facts.Syntax.tl2alias | .tl2depName => Facts.Syntax.tl2depName
  | .tl2typeSign => Facts.Syntax.tl2typeSign
  | .ch c => c.toNat

structure Token where
  ty : TT
  val : Bytes
  pos : Pos
  deriving DecidableEq, Repr, Inhabited

/-! one-character token bytes -/
def cLRound : UInt8 := 40   -- (
def cRRound : UInt8 := 41   -- )
def cLSquare : UInt8 := 91  -- [
def cRSquare : UInt8 := 93  -- ]
def cLCurly : UInt8 := 123  -- {
def cRCurly : UInt8 := 125  -- }
def cLAngle : UInt8 := 60   -- <
def cRAngle : UInt8 := 62   -- >
def cColon : UInt8 := 58
def cSemi : UInt8 := 59
def cDot : UInt8 := 46
def cComma : UInt8 := 44
def cPercent : UInt8 := 37
def cSpace : UInt8 := 32
def cTab : UInt8 := 9
def cEqual : UInt8 := 61
def cQuestion : UInt8 := 63
def cAsterisk : UInt8 := 42
def cPlus : UInt8 := 43
def cExcl : UInt8 := 33
def cVBar : UInt8 := 124
def cUnderscore : UInt8 := 95
def cCR : UInt8 := 13
def cLF : UInt8 := 10
def cAt : UInt8 := 64
def cSlash : UInt8 := 47
def cMinus : UInt8 := 45
def cHash : UInt8 := 35

def lowerCase (c : UInt8) : Bool := 97 ≤ c && c ≤ 122
def upperCase (c : UInt8) : Bool := 65 ≤ c && c ≤ 90
def digit (c : UInt8) : Bool := 48 ≤ c && c ≤ 57
def letter (c : UInt8) : Bool := lowerCase c || upperCase c
def identChar (c : UInt8) : Bool := letter c || digit c || c == 95
def hexChar (c : UInt8) : Bool := digit c || (97 ≤ c && c ≤ 102)

/-- `for ; i < len(s) && identChar(s[i]); i++` — the longest prefix of identifier characters. -/
def identRun : Bytes → Bytes
  | [] => []
  | c :: t => if identChar c then c :: identRun t else []

/-- `nameIdent` -/
def nameIdent (s : Bytes) : Bytes :=
  match s with
  | [] => []
  | c :: t => if letter c then c :: identRun t else []

/-- `builtinIdent` -/
def builtinIdent (s : Bytes) : Bytes :=
  match s with
  | [] => []
  | c :: t => if letter c || c == 95 then c :: identRun t else []

/-- `strings.HasPrefix` -/
def hasPrefix : Bytes → Bytes → Bool
  | _, [] => true
  | [], _ :: _ => false
  | a :: s, b :: p => a == b && hasPrefix s p

/-- bytes of an ASCII string constant -/
def strBytes (s : String) : Bytes := s.toList.map (fun c => UInt8.ofNat c.toNat)

/-- tokens skipped by `skipWS` -/
def TT.isWS : TT → Bool
  | .comment => true
  | .newLine => true
  | .ch c => c == 32 || c == 9
  | _ => false

/-- identifier classes with a namespace -/
def TT.isNS : TT → Bool
  | .lcIdentNS => true
  | .ucIdentNS => true
  | _ => false

end TLVerif.Syntax
