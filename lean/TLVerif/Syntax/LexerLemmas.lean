import TLVerif.Syntax.Lexer
/-! Lemmas about the lexer model: the recombination invariant, positions, progress. -/
namespace TLVerif.Syntax

theorem identRun_length_le (s : Bytes) : (identRun s).length ≤ s.length := by
  induction s with
  | nil => simp [identRun]
  | cons c t ih => unfold identRun; split <;> simp <;> omega

theorem nameIdent_length_le (s : Bytes) : (nameIdent s).length ≤ s.length := by
  cases s with
  | nil => simp [nameIdent]
  | cons c t =>
    simp only [nameIdent]
    split
    · have := identRun_length_le t; simp; omega
    · simp

theorem builtinIdent_length_le (s : Bytes) : (builtinIdent s).length ≤ s.length := by
  cases s with
  | nil => simp [builtinIdent]
  | cons c t =>
    simp only [builtinIdent]
    split
    · have := identRun_length_le t; simp; omega
    · simp

theorem hasPrefix_length {s p : Bytes} (h : hasPrefix s p = true) : p.length ≤ s.length := by
  induction p generalizing s with
  | nil => simp
  | cons b p ih =>
    cases s with
    | nil => simp [hasPrefix] at h
    | cons a s =>
      simp only [hasPrefix, Bool.and_eq_true] at h
      have := ih h.2
      simp; omega

theorem lineEnd_le (s : Bytes) : lineEnd s ≤ s.length := by
  induction s with
  | nil => simp [lineEnd]
  | cons c t ih => unfold lineEnd; split <;> simp <;> omega

theorem utf8Bad_lt_aux : ∀ (n : Nat) (s : Bytes) (i j : Nat), s.length ≤ n → utf8Bad s i = some j → i ≤ j ∧ j < i + s.length
  | 0, s, i, j, hn, h => by cases s <;> simp_all [utf8Bad]
  | n+1, s, i, j, hn, h => by
    have ih := utf8Bad_lt_aux n
    unfold utf8Bad at h
    repeat' split at h
    all_goals first
      | (simp at h; done)
      | (simp at h; subst h; simp)
      | (simp at hn; have := ih _ _ _ (by omega) h; simp; omega)

theorem utf8Bad_lt {s : Bytes} {i j : Nat} (h : utf8Bad s i = some j) : i ≤ j ∧ j < i + s.length :=
  utf8Bad_lt_aux s.length s i j (Nat.le_refl _) h

/-! ### the lexer invariant -/

/-- a token lies before the current position `lim` -/
def TokOK (lim : Pos) (t : Token) : Prop :=
  t.pos.off + t.val.length ≤ lim.off ∧ t.pos.slo ≤ t.pos.off ∧ t.pos.slo ≤ lim.slo

/-- content facts the parser relies on: namespace identifiers contain a dot, annotations are not empty -/
def TokWF (ty : TT) (val : Bytes) : Prop :=
  (ty.isNS = true → cDot ∈ val) ∧ (ty = .annotation → val ≠ []) ∧ (ty = .crc32hash → val ≠ [])

/-- invariant of the lexer state (tokens most recent first) -/
structure LInv (text : Bytes) (s : LexState) : Prop where
  wf : ∀ t ∈ s.toks, TokWF t.ty t.val
  recomb : recombine s.toks.reverse s.str = text
  off : s.pos.off + s.str.length = text.length
  slo : s.pos.slo ≤ s.pos.off
  toks : ∀ t ∈ s.toks, TokOK s.pos t
  sorted : s.toks.Pairwise (fun a b => b.pos.off + b.val.length ≤ a.pos.off ∧ b.pos.slo ≤ a.pos.slo)

theorem initState_inv (text : Bytes) : LInv text (initState text) := by
  constructor <;> simp [initState, recombine]

theorem advance_some {s : LexState} {n : Nat} (ty : TT) (h : n ≤ s.str.length) :
    ∃ s' tok, advance s n ty = some (s', tok) := by
  simp [advance, h]

theorem advance_inv {text : Bytes} {s s' : LexState} {n : Nat} {ty : TT} {tok : Token}
    (h : advance s n ty = some (s', tok)) (hi : LInv text s) (hwf : TokWF ty (s.str.take n)) :
    LInv text s' ∧ s'.str.length + n = s.str.length ∧ s'.toks = tok :: s.toks ∧ tok.pos = s.pos ∧
    tok.val.length = n ∧ tok.ty = ty ∧ s'.pos.slo = s.pos.slo ∧ s'.pos.off = s.pos.off + n := by
  unfold advance at h
  split at h
  · rename_i hn
    simp only [Option.some.injEq, Prod.mk.injEq] at h
    obtain ⟨hs, ht⟩ := h
    subst hs; subst ht
    refine ⟨⟨?_, ?_, ?_, ?_, ?_, ?_⟩, ?_, rfl, rfl, ?_, rfl, rfl, rfl⟩
    · intro t ht
      simp only [List.mem_cons] at ht
      rcases ht with rfl | ht
      · exact hwf
      · exact hi.wf t ht
    · have := hi.recomb
      simp only [recombine, List.reverse_cons, List.map_append, List.map_cons, List.map_nil, List.flatten_append,
        List.flatten_cons, List.flatten_nil, List.append_nil, List.append_assoc, List.take_append_drop] at this ⊢
      exact this
    · have := hi.off; simp only [List.length_drop]; omega
    · have := hi.slo; simp only; omega
    · intro t ht
      simp only [List.mem_cons] at ht
      rcases ht with rfl | ht
      · have := hi.slo
        simp only [TokOK, List.length_take]; omega
      · have := hi.toks t ht
        simp only [TokOK] at this ⊢; omega
    · simp only [List.pairwise_cons]
      refine ⟨?_, hi.sorted⟩
      intro t ht
      have := hi.toks t ht
      simp only [TokOK] at this; omega
    · simp only [List.length_drop]; omega
    · simp only [List.length_take]; omega
  · simp at h

theorem newlineFix_inv {text : Bytes} {s : LexState} (hi : LInv text s) : LInv text (newlineFix s) := by
  refine ⟨hi.wf, hi.recomb, hi.off, Nat.le_refl _, ?_, hi.sorted⟩
  intro t ht
  have := hi.toks t ht
  have := hi.slo
  simp only [TokOK, newlineFix] at *; omega

/-- outcome of one `nextToken` step that keeps the invariant (and makes progress if it is `ok`) -/
def StepOK (text : Bytes) (s : LexState) : Step → Prop
  | .ok s' => LInv text s' ∧ s'.str.length < s.str.length
  | .err s' e => LInv text s' ∧ e.tok ∈ s'.toks ∧ e.outer = e.tok.pos
  | .panic => False

theorem tokWF_trivial {ty : TT} {val : Bytes} (h1 : ty.isNS = false) (h2 : ty ≠ .annotation) (h3 : ty ≠ .crc32hash) : TokWF ty val :=
  ⟨fun h => by simp [h1] at h, fun h => absurd h h2, fun h => absurd h h3⟩

theorem adv_ok {text : Bytes} {s : LexState} {n : Nat} (ty : TT) (hi : LInv text s) (h1 : 1 ≤ n) (h2 : n ≤ s.str.length)
    (hwf : TokWF ty (s.str.take n) := by exact tokWF_trivial (by rfl) (by simp) (by simp)) :
    StepOK text s (adv s n ty) := by
  obtain ⟨s', tok, h⟩ := advance_some ty h2
  have := advance_inv h hi hwf
  simp only [adv, h, StepOK]
  exact ⟨this.1, by omega⟩

theorem advErr_ok {text : Bytes} {s : LexState} {n : Nat} (hi : LInv text s) (h2 : n ≤ s.str.length) :
    StepOK text s (advErr s n) := by
  obtain ⟨s', tok, h⟩ := advance_some .undefined h2
  have := advance_inv h hi (tokWF_trivial rfl (by simp) (by simp))
  simp only [advErr, h, StepOK]
  exact ⟨this.1, by simp [this.2.2.1]⟩

theorem advNewline_ok {text : Bytes} {s : LexState} {n : Nat} (hi : LInv text s) (h1 : 1 ≤ n) (h2 : n ≤ s.str.length) :
    StepOK text s (advNewline s n) := by
  obtain ⟨s', tok, h⟩ := advance_some .newLine h2
  have := advance_inv h hi (tokWF_trivial rfl (by simp) (by simp))
  simp only [advNewline, h, StepOK]
  exact ⟨newlineFix_inv this.1, by simp only [newlineFix]; omega⟩

theorem identRun_cons_pos {c : UInt8} {t : Bytes} (h : identChar c = true) : 1 ≤ (identRun (c :: t)).length := by
  simp [identRun, h]

theorem digit_identChar {c : UInt8} (h : digit c = true) : identChar c = true := by
  simp [identChar, h]

theorem letter_identChar {c : UInt8} (h : letter c = true) : identChar c = true := by
  simp [identChar, h]

theorem nameIdent_cons_letter {c : UInt8} {t : Bytes} (h : letter c = true) : nameIdent (c :: t) = c :: identRun t := by
  simp [nameIdent, h]

theorem lexSection_ok {text : Bytes} {s : LexState} (hi : LInv text s) (h1 : 1 ≤ s.str.length) :
    StepOK text s (lexSection s) := by
  unfold lexSection
  split
  · rename_i h; exact adv_ok _ hi (by decide) (hasPrefix_length h)
  · split
    · rename_i h; exact adv_ok _ hi (by decide) (hasPrefix_length h)
    · exact adv_ok _ hi (Nat.le_refl _) h1

theorem lexNumberSign_ok {text : Bytes} {s : LexState} (hi : LInv text s) (h1 : 1 ≤ s.str.length) :
    StepOK text s (lexNumberSign s) := by
  have hr := identRun_length_le (s.str.drop 1)
  simp only [List.length_drop] at hr
  unfold lexNumberSign
  simp only []
  split
  · exact adv_ok _ hi (by omega) (by omega)
  · split
    · exact advErr_ok hi (by omega)
    · refine adv_ok _ hi (by omega) (by omega) ⟨fun h => by simp [TT.isNS] at h, fun h => by simp at h, fun _ => ?_⟩
      cases hs : s.str with
      | nil => rw [hs] at h1; simp at h1
      | cons c t => simp [Nat.add_comm 1]

theorem lexNumber_ok {text : Bytes} {s : LexState} {c : UInt8} {t : Bytes} (hi : LInv text s) (hs : s.str = c :: t)
    (hd : digit c = true) : StepOK text s (lexNumber s) := by
  have hr := identRun_length_le s.str
  have hp : 1 ≤ (identRun s.str).length := by rw [hs]; exact identRun_cons_pos (digit_identChar hd)
  unfold lexNumber
  simp only []
  split
  · exact advErr_ok hi hr
  · exact adv_ok _ hi hp hr

theorem lexFunctionModifier_ok {text : Bytes} {s : LexState} (hi : LInv text s) (h1 : 1 ≤ s.str.length) :
    StepOK text s (lexFunctionModifier s) := by
  have hr := nameIdent_length_le (s.str.drop 1)
  simp only [List.length_drop] at hr
  unfold lexFunctionModifier
  simp only []
  split
  · exact advErr_ok hi (by omega)
  · split
    · exact advErr_ok hi (by omega)
    · refine adv_ok _ hi (by omega) (by omega) ⟨fun h => by simp [TT.isNS] at h, fun _ => ?_, fun h => by simp at h⟩
      cases hs : s.str with
      | nil => rw [hs] at h1; simp at h1
      | cons c t => simp [Nat.add_comm 1]

theorem dot_mem_take {l after : List UInt8} {k m : Nat} {c : UInt8} (h : l.drop k = c :: after) (hc : (c == cDot) = true) :
    cDot ∈ l.take (k + 1 + m) := by
  have hc' : c = cDot := by simpa using hc
  subst hc'
  have h0 : (l.drop k)[0]? = some cDot := by rw [h]; rfl
  rw [List.getElem?_drop] at h0
  apply List.mem_of_getElem? (i := k)
  rw [List.getElem?_take]
  simp only [Nat.add_zero] at h0
  rw [if_pos (by omega)]; exact h0

theorem drop_eq_cons_length {α : Type} {l : List α} {k : Nat} {c : α} {after : List α} (h : l.drop k = c :: after) :
    k + 1 + after.length = l.length := by
  have := congrArg List.length h
  simp only [List.length_drop, List.length_cons] at this
  omega

theorem lexLexeme_ok {text : Bytes} {s : LexState} {c : UInt8} {t : Bytes} (hi : LInv text s) (hs : s.str = c :: t)
    (hl : letter c = true) : StepOK text s (lexLexeme s) := by
  have hw : nameIdent s.str = c :: identRun t := by rw [hs]; exact nameIdent_cons_letter hl
  have hr := nameIdent_length_le s.str
  unfold lexLexeme
  simp only []
  split
  · -- dotted
    rename_i w2 hdot
    have hlen : (nameIdent s.str).length + 1 + w2.length ≤ s.str.length ∧ w2 ≠ [] ∧
        cDot ∈ s.str.take ((nameIdent s.str).length + 1 + w2.length) := by
      split at hdot
      · rename_i c' after hdrop
        have := drop_eq_cons_length hdrop
        split at hdot
        · rename_i hcd
          split at hdot
          · simp at hdot
          · rename_i hne
            simp only [Option.some.injEq] at hdot
            subst hdot
            have := nameIdent_length_le after
            refine ⟨by omega, ?_, dot_mem_take hdrop hcd⟩
            intro h0; simp [h0] at hne
        · simp at hdot
      · simp at hdot
    obtain ⟨hlen, hne, hmem⟩ := hlen
    split
    · rename_i h; simp [hw] at h
    · split
      · exact advErr_ok hi hlen
      · split
        · exact absurd rfl hne
        · split
          · exact adv_ok _ hi (by omega) hlen ⟨fun _ => hmem, fun h => by simp at h, fun h => by simp at h⟩
          · exact adv_ok _ hi (by omega) hlen ⟨fun _ => hmem, fun h => by simp at h, fun h => by simp at h⟩
  · split
    · rename_i h; simp [hw] at h
    · have hp : 1 ≤ (nameIdent s.str).length := by simp [hw]
      split
      · exact adv_ok _ hi hp hr
      · exact adv_ok _ hi hp hr

theorem lineEnd_pos_of_slash {s : Bytes} (h : hasPrefix s [cSlash, cSlash] = true) : 1 ≤ lineEnd s := by
  cases s with
  | nil => simp [hasPrefix] at h
  | cons c t =>
    simp only [hasPrefix, Bool.and_eq_true, beq_iff_eq] at h
    have hc : c = cSlash := h.1
    subst hc
    simp [lineEnd, cSlash, cCR, cLF]

theorem nextToken_ok {text : Bytes} (o : LexOpts) {s : LexState} (hi : LInv text s) (hne : s.str ≠ []) :
    StepOK text s (nextToken o s) := by
  unfold nextToken
  cases hs : s.str with
  | nil => exact absurd hs hne
  | cons c t =>
    have h1 : 1 ≤ s.str.length := by rw [hs]; simp
    simp only []
    by_cases c1 : isPrimitive c = true
    · rw [if_pos c1]; exact adv_ok _ hi (Nat.le_refl _) h1
    rw [if_neg c1]
    by_cases c2 : (c == cCR) = true
    · rw [if_pos c2]
      split
      · rename_i h; rw [← hs] at h; exact advNewline_ok hi (by omega) (hasPrefix_length h)
      · exact advErr_ok hi h1
    rw [if_neg c2]
    by_cases c3 : (c == cLF) = true
    · rw [if_pos c3]; exact advNewline_ok hi (Nat.le_refl _) h1
    rw [if_neg c3]
    by_cases c4 : (c == cEqual) = true
    · rw [if_pos c4]
      split
      · rename_i h; rw [← hs] at h; exact adv_ok _ hi (by omega) (hasPrefix_length h)
      · exact adv_ok _ hi (Nat.le_refl _) h1
    rw [if_neg c4]
    by_cases c5 : (c == cLAngle) = true
    · rw [if_pos c5]
      split
      · rename_i h
        simp only [Bool.and_eq_true] at h
        have h2 := h.2; rw [← hs] at h2
        exact adv_ok _ hi (by omega) (hasPrefix_length h2)
      · exact adv_ok _ hi (Nat.le_refl _) h1
    rw [if_neg c5]
    by_cases c6 : (c == cAt) = true
    · rw [if_pos c6]; exact lexFunctionModifier_ok hi h1
    rw [if_neg c6]
    by_cases c7 : (c == cSlash) = true
    · rw [if_pos c7]
      rw [← hs]
      split
      · rename_i hpre
        have hle := lineEnd_le s.str
        have hpos := lineEnd_pos_of_slash hpre
        split
        · rename_i i hbad
          have hb := utf8Bad_lt hbad
          simp only [List.length_take] at hb
          have hile : i ≤ s.str.length := by omega
          obtain ⟨s1, tok, ha⟩ := advance_some .comment hile
          have hinv := advance_inv ha hi (tokWF_trivial rfl (by simp) (by simp))
          simp only [ha]
          have h2 : 1 ≤ s1.str.length := by omega
          obtain ⟨s2, tok2, ha2⟩ := advance_some .undefined h2
          have hinv2 := advance_inv ha2 hinv.1 (tokWF_trivial rfl (by simp) (by simp))
          simp only [advErr, ha2, StepOK]
          exact ⟨hinv2.1, by simp [hinv2.2.2.1]⟩
        · exact adv_ok _ hi hpos hle
      · split
        · rename_i h; exact advErr_ok hi (hasPrefix_length h)
        · exact advErr_ok hi h1
    rw [if_neg c7]
    by_cases c8 : (c == cMinus) = true
    · rw [if_pos c8]; exact lexSection_ok hi h1
    rw [if_neg c8]
    by_cases c9 : (c == cHash) = true
    · rw [if_pos c9]; exact lexNumberSign_ok hi h1
    rw [if_neg c9]
    by_cases c10 : (c == cUnderscore) = true
    · rw [if_pos c10]
      rw [← hs]
      split
      · have := nameIdent_length_le (s.str.drop 1)
        simp only [List.length_drop] at this
        split
        · exact adv_ok _ hi (Nat.le_refl _) h1
        · exact adv_ok _ hi (by omega) (by omega)
      · split
        · have hb := builtinIdent_length_le s.str
          have hp : 1 ≤ (builtinIdent s.str).length := by
            rw [hs]; simp only [beq_iff_eq] at c10; simp [builtinIdent, c10, cUnderscore]
          split
          · exact adv_ok _ hi hp hb
          · exact adv_ok _ hi hp hb
        · split
          · exact adv_ok _ hi (Nat.le_refl _) h1
          · exact advErr_ok hi h1
    rw [if_neg c10]
    by_cases c11 : digit c = true
    · rw [if_pos c11]; exact lexNumber_ok hi hs c11
    rw [if_neg c11]
    by_cases c12 : letter c = true
    · rw [if_pos c12]
      rw [← hs]
      split
      · rename_i h
        simp only [Bool.and_eq_true, beq_iff_eq] at h
        have := nameIdent_length_le s.str
        rw [h.2] at this
        exact adv_ok _ hi (by omega) (by simpa [typeWord] using this)
      · exact lexLexeme_ok hi hs c12
    rw [if_neg c12]
    exact advErr_ok hi h1

/-- what `lexLoop` guarantees -/
def LoopOK (text : Bytes) : LoopRes → Prop
  | .done s' => LInv text s' ∧ s'.str = [] ∧ ∃ e rest, s'.toks = e :: rest ∧ e.ty = .eof ∧ e.val = []
  | .err s' e => LInv text s' ∧ e.tok ∈ s'.toks ∧ e.outer = e.tok.pos
  | .panic => False
  | .diverge => False

theorem lexLoop_ok_aux {text : Bytes} (o : LexOpts) : ∀ (n : Nat) (s : LexState), s.str.length ≤ n → LInv text s →
    LoopOK text (lexLoop o s)
  | n, s, hn, hi => by
    rw [lexLoop]
    split
    · rename_i hemp
      have hnil : s.str = [] := by simpa using hemp
      obtain ⟨s', tok, ha⟩ := advance_some (s := s) (n := 0) .eof (Nat.zero_le _)
      have hinv := advance_inv ha hi (tokWF_trivial rfl (by simp) (by simp))
      simp only [ha, LoopOK]
      refine ⟨hinv.1, ?_, tok, s.toks, hinv.2.2.1, hinv.2.2.2.2.2.1, ?_⟩
      · have := hinv.2.1; rw [hnil] at this; simpa using this
      · have := hinv.2.2.2.2.1; simpa using this
    · rename_i hemp
      have hne : s.str ≠ [] := by simpa using hemp
      have hstep := nextToken_ok o hi hne
      cases hr : nextToken o s with
      | panic => rw [hr] at hstep; exact hstep
      | err s' e => rw [hr] at hstep; simpa [LoopOK, StepOK] using hstep
      | ok s' =>
        rw [hr] at hstep
        simp only [StepOK] at hstep
        simp only [hstep.2, if_true]
        cases n with
        | zero => omega
        | succ n => exact lexLoop_ok_aux o n s' (by omega) hstep.1

theorem lexLoop_ok {text : Bytes} (o : LexOpts) (s : LexState) (hi : LInv text s) : LoopOK text (lexLoop o s) :=
  lexLoop_ok_aux o s.str.length s (Nat.le_refl _) hi

/-- facts about a token list in source order -/
structure ToksOK (text : Bytes) (toks : List Token) : Prop where
  wf : ∀ t ∈ toks, TokWF t.ty t.val
  inRange : ∀ t ∈ toks, t.pos.off + t.val.length ≤ text.length ∧ t.pos.slo ≤ t.pos.off
  sorted : toks.Pairwise (fun a b => a.pos.off + a.val.length ≤ b.pos.off ∧ a.pos.slo ≤ b.pos.slo)

theorem LInv.toksOK {text : Bytes} {s : LexState} (hi : LInv text s) : ToksOK text s.toks.reverse := by
  constructor
  · intro t ht; exact hi.wf t (by simpa using ht)
  · intro t ht
    have := hi.toks t (by simpa using ht)
    have := hi.off
    simp only [TokOK] at *; omega
  · rw [List.pairwise_reverse]; exact hi.sorted

theorem validateTokens_some {o : LexOpts} : ∀ {l acc : List Token} {toks : List Token} {e : PErr},
    validateTokens o l acc = some (toks, e) → e.tok ∈ l ∧ e.outer = e.tok.pos
  | [], _, _, _, h => by simp [validateTokens] at h
  | t :: rest, acc, toks, e, h => by
    unfold validateTokens at h
    split at h
    · simp only [Option.some.injEq, Prod.mk.injEq] at h
      obtain ⟨_, rfl⟩ := h
      simp
    · have := validateTokens_some h
      exact ⟨List.mem_cons_of_mem _ this.1, this.2⟩

/-- what `generateTokens` guarantees -/
def LexOK (text : Bytes) : LexRes → Prop
  | .ok toks rest => recombine toks rest = text ∧ rest = [] ∧ ToksOK text toks ∧
      ∃ pre e, toks = pre ++ [e] ∧ e.ty = .eof ∧ e.val = []
  | .err _ e => e.tok.pos.off + e.tok.val.length ≤ text.length ∧ e.tok.pos.slo ≤ e.tok.pos.off ∧ e.outer = e.tok.pos
  | .panic => False
  | .diverge => False

theorem generateTokens_ok (o : LexOpts) (text : Bytes) : LexOK text (generateTokens o text) := by
  have h := lexLoop_ok o (initState text) (initState_inv text)
  unfold generateTokens
  cases hr : lexLoop o (initState text) with
  | panic => rw [hr] at h; exact h
  | diverge => rw [hr] at h; exact h
  | err s e =>
    rw [hr] at h
    simp only [LoopOK] at h
    have := (h.1.toksOK).inRange e.tok (by simpa using h.2.1)
    exact ⟨this.1, this.2, h.2.2⟩
  | done s =>
    rw [hr] at h
    simp only [LoopOK] at h
    obtain ⟨hinv, hnil, e, rest, htoks, hty, hval⟩ := h
    simp only []
    split
    · rename_i toks e' hv
      have := validateTokens_some hv
      have hr := (hinv.toksOK).inRange e'.tok this.1
      exact ⟨hr.1, hr.2, this.2⟩
    · refine ⟨hinv.recomb, hnil, hinv.toksOK, rest.reverse, e, ?_, hty, hval⟩
      rw [htoks]; simp

end TLVerif.Syntax
