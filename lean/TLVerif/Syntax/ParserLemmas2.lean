import TLVerif.Syntax.ParserLemmas
/-! The mutually recursive part of the parser (type references, fields, repetitions): every function
is "good" (no panic, no divergence, result iterator is an eof-terminated suffix, errors carry a token of
the input and the given outer position), by induction on the iterator length; then combinators and files. -/
namespace TLVerif.Syntax
section
variable {text : Bytes} {outer : Pos}

/-- hypothesis shapes: the callee is good on every shorter (`<`) iterator -/
def TypeRefGoodBelow (text : Bytes) (outer : Pos) (ts : List Token) : Prop :=
  ∀ ts' : List Token, ts'.length < ts.length → Inv text ts' → ∀ af arb, (parseTypeRef ts' af arb outer).Good ts' outer (SomeLt ts')

theorem roundBr_step {ts : List Token} (h : Inv text ts) (hA : TypeRefGoodBelow text outer ts) :
    (parseTypeRefInRoundBracketsOpt ts outer).Good ts outer (SomeLt ts) := by
  rw [parseTypeRefInRoundBracketsOpt]
  obtain ⟨b1, r1, hx1, he1, hs1, hlt1⟩ := expect_ok h.eof (.ch cLRound) (by simp)
  rw [hx1]
  cases b1 with
  | false => exact ⟨h.eof, List.suffix_refl _, by simp [SomeLt]⟩
  | true =>
    simp only []
    have hlt := hlt1 rfl
    rw [if_pos hlt]
    rcases (hA r1 hlt (h.suffix hs1 he1) true true).cases with ⟨a, r2, hx, he2, hs2, _⟩ | ⟨e, hx, hm, ho⟩ <;> rw [hx]
    · cases a with
      | none => exact errFront_good he1 hs1
      | some res =>
        simp only []
        obtain ⟨b3, r3, hx3, he3, hs3, _⟩ := expect_ok he2 (.ch cRRound) (by simp)
        rw [hx3]
        cases b3 with
        | false => exact errFront_good he3 (hs3.trans (hs2.trans hs1))
        | true =>
          refine ⟨he3, hs3.trans (hs2.trans hs1), fun _ => ?_⟩
          have := hs3.length_le; have := hs2.length_le; omega
    · exact ⟨hs1.subset hm, ho⟩

def AngleLoopGoodBelow (text : Bytes) (outer : Pos) (ts : List Token) : Prop :=
  ∀ ts' : List Token, ts'.length < ts.length → Inv text ts' → ∀ acc, (angleArgsLoop ts' outer acc).Good ts' outer NoP

theorem angleBr_step {ts : List Token} (h : Inv text ts) (hE : AngleLoopGoodBelow text outer ts) :
    (parseTypeRefWithAngleBracketsOpt ts outer).Good ts outer (SomeLt ts) := by
  rw [parseTypeRefWithAngleBracketsOpt]
  have hnone : (Res.ok (none : Option TypeRef) ts).Good ts outer (SomeLt ts) := ⟨h.eof, List.suffix_refl _, by simp [SomeLt]⟩
  rcases (parseTypeRefAsName_good (outer := outer) h).cases with ⟨name, r1, hx, he1, hs1, hlt1⟩ | ⟨e, hx, hm, ho⟩ <;> rw [hx] <;> simp only []
  · obtain ⟨b2, r2, hx2, he2, hs2, hlt2⟩ := expect_ok he1 (.ch cLAngle) (by simp)
    rw [hx2]
    cases b2 with
    | false => exact hnone
    | true =>
      simp only []
      obtain ⟨t3, r3, h3, he3, hws3, hpre3⟩ := skipWS_ok he2
      rw [h3]; simp only []
      have hs3 : (t3 :: r3) <:+ ts := hpre3.suffix.trans (hs2.trans hs1)
      have hlt3 : (t3 :: r3).length < ts.length := by
        have := hpre3.suffix.length_le; have := hlt2 rfl; simp only [Lt] at hlt1; omega
      have hg : r3.length + 1 < ts.length := by simpa using hlt3
      rw [if_pos hg]
      rcases (hE (t3 :: r3) hlt3 (h.suffix hs3 he3) []).cases with ⟨args, rest, hx, he4, hs4, _⟩ | ⟨e, hx, hm, ho⟩ <;> rw [hx]
      · refine ⟨he4, hs4.trans hs3, fun _ => ?_⟩
        have := hs4.length_le; omega
      · exact ⟨hs3.subset hm, ho⟩
  · exact hnone

end
section
variable {text : Bytes} {outer : Pos}

def RoundGoodLe (text : Bytes) (outer : Pos) (ts : List Token) : Prop :=
  ∀ ts' : List Token, ts'.length ≤ ts.length → Inv text ts' →
    (parseTypeRefInRoundBracketsOpt ts' outer).Good ts' outer (SomeLt ts')
def AngleGoodLe (text : Bytes) (outer : Pos) (ts : List Token) : Prop :=
  ∀ ts' : List Token, ts'.length ≤ ts.length → Inv text ts' →
    (parseTypeRefWithAngleBracketsOpt ts' outer).Good ts' outer (SomeLt ts')
def ApplyLoopGoodBelow (text : Bytes) (outer : Pos) (ts : List Token) : Prop :=
  ∀ ts' : List Token, ts'.length < ts.length → Inv text ts' → ∀ acc, (applyArgsLoop ts' outer acc).Good ts' outer NoP

theorem typeRef_step {ts : List Token} (h : Inv text ts) (af arb : Bool)
    (hC : RoundGoodLe text outer ts) (hD : AngleGoodLe text outer ts) (hB : ApplyLoopGoodBelow text outer ts) :
    (parseTypeRef ts af arb outer).Good ts outer (SomeLt ts) := by
  rw [parseTypeRef]
  obtain ⟨t0, r0, h0, he0, hws0, hpre0⟩ := skipWS_ok h.eof
  rw [h0]; simp only []
  have hl0 := hpre0.suffix.length_le
  obtain ⟨b1, it0, hx1, he1, hs1, hlt1⟩ := expect_ok he0 .numberSign (by simp)
  rw [hx1]
  have hl1 := hs1.length_le
  cases b1 with
  | true =>
    simp only []
    rw [needFront_of he1]
    simp only [Bool.not_true, Bool.false_eq_true, if_false]
    refine ⟨he1, hs1.trans hpre0.suffix, fun _ => ?_⟩
    have := hlt1 rfl; omega
  | false =>
    simp only []
    obtain ⟨bare, it1, hx2, he2, hs2, _⟩ := expect_ok he1 (.ch cPercent) (by simp)
    rw [hx2]; simp only []
    have hl2 := hs2.length_le
    obtain ⟨t2, r2, h2, he3, hws3, hpre3⟩ := skipWS_ok he2
    rw [h2]; simp only []
    have hl3 := hpre3.suffix.length_le
    have hs3 : (t2 :: r2) <:+ ts := hpre3.suffix.trans (hs2.trans (hs1.trans hpre0.suffix))
    have hle3 : (t2 :: r2).length ≤ ts.length := by omega
    have hg : r2.length < ts.length := by simp only [List.length_cons] at hle3; omega
    rw [if_pos hg]
    have hi3 := h.suffix hs3 he3
    have hnone : (Res.ok (none : Option TypeRef) ts).Good ts outer (SomeLt ts) := ⟨h.eof, List.suffix_refl _, by simp [SomeLt]⟩
    rcases (hC (t2 :: r2) hle3 hi3).cases with ⟨a, rest, hx, he4, hs4, hlt4⟩ | ⟨e, hx, hm, ho⟩ <;> rw [hx]
    · cases a with
      | some pt =>
        simp only []
        cases arb with
        | false => exact ⟨hs3.subset (by simp), rfl⟩
        | true =>
          simp only [Bool.not_true, Bool.false_eq_true, if_false]
          rw [needFront_of he4]
          simp only [Bool.not_true, Bool.false_eq_true, if_false]
          refine ⟨he4, hs4.trans hs3, fun _ => ?_⟩
          have := hlt4 rfl; omega
      | none =>
        simp only []
        rcases (hD (t2 :: r2) hle3 hi3).cases with ⟨a, rest, hx, he5, hs5, hlt5⟩ | ⟨e, hx, hm, ho⟩ <;> rw [hx]
        · cases a with
          | some pt =>
            simp only []
            rw [needFront_of he5]
            simp only [Bool.not_true, Bool.false_eq_true, if_false]
            refine ⟨he5, hs5.trans hs3, fun _ => ?_⟩
            have := hlt5 rfl; omega
          | none =>
            simp only []
            rcases (parseTypeRefAsName_good (outer := outer) hi3).cases with
              ⟨name, rest, hx, he6, hs6, hlt6⟩ | ⟨e, hx, hm, ho⟩ <;> rw [hx] <;> simp only []
            · rw [needFront_of he6]
              simp only [Bool.not_true, Bool.false_eq_true, if_false]
              have hlt6' : rest.length < ts.length := by simp only [Lt] at hlt6; omega
              have hs6' : rest <:+ ts := hs6.trans hs3
              cases af with
              | false => exact ⟨he6, hs6', fun _ => hlt6'⟩
              | true =>
                simp only [if_true]
                rw [if_pos hlt6']
                rcases (hB rest hlt6' (h.suffix hs6' he6) []).cases with ⟨args, rest2, hx, he7, hs7, _⟩ | ⟨e, hx, hm, ho⟩ <;> rw [hx]
                · refine ⟨he7, hs7.trans hs6', fun _ => ?_⟩
                  have := hs7.length_le; omega
                · exact ⟨hs6'.subset hm, ho⟩
            · exact hnone
        · exact ⟨hs3.subset hm, ho⟩
    · exact ⟨hs3.subset hm, ho⟩

end
section
variable {text : Bytes} {outer : Pos}

def TypeRefGoodLe (text : Bytes) (outer : Pos) (ts : List Token) : Prop :=
  ∀ ts' : List Token, ts'.length ≤ ts.length → Inv text ts' → ∀ af arb, (parseTypeRef ts' af arb outer).Good ts' outer (SomeLt ts')
def AOTGoodLe (text : Bytes) (outer : Pos) (ts : List Token) : Prop :=
  ∀ ts' : List Token, ts'.length ≤ ts.length → Inv text ts' → ∀ af, (parseArithmeticOrTypeOpt ts' af outer).Good ts' outer (SomeLt ts')

theorem aot_step {ts : List Token} (h : Inv text ts) (af : Bool) (hA : TypeRefGoodLe text outer ts) :
    (parseArithmeticOrTypeOpt ts af outer).Good ts outer (SomeLt ts) := by
  rw [parseArithmeticOrTypeOpt]
  obtain ⟨t0, r0, h0, he0, hws0, hpre0⟩ := skipWS_ok h.eof
  rw [h0]; simp only []
  have hl0 := hpre0.suffix.length_le
  have hi0 := h.suffix hpre0.suffix he0
  rcases (parseArithmetic_good (outer := outer) (force := false) hi0).cases with
    ⟨a, rest, hx, he1, hs1, hp1⟩ | ⟨e, hx, hm, ho⟩ <;> rw [hx]
  · cases a with
    | some a =>
      simp only []
      rw [needFront_of he1]
      simp only [Bool.not_true, Bool.false_eq_true, if_false]
      refine ⟨he1, hs1.trans hpre0.suffix, fun _ => ?_⟩
      have := hp1.1 rfl; omega
    | none =>
      simp only []
      have hg : r0.length < ts.length := by simp only [List.length_cons] at hl0; omega
      rw [if_pos hg]
      rcases (hA (t0 :: r0) hl0 hi0 af true).cases with ⟨a, rest, hx, he2, hs2, hlt2⟩ | ⟨e, hx, hm, ho⟩ <;> rw [hx]
      · cases a with
        | some t =>
          refine ⟨he2, hs2.trans hpre0.suffix, fun _ => ?_⟩
          have := hlt2 rfl; omega
        | none => exact ⟨h.eof, List.suffix_refl _, by simp [SomeLt]⟩
      · exact ⟨hpre0.suffix.subset hm, ho⟩
  · exact ⟨hpre0.suffix.subset hm, ho⟩

theorem applyLoop_step {ts : List Token} (h : Inv text ts) (acc : List AOT) (hF : AOTGoodLe text outer ts)
    (hB : ApplyLoopGoodBelow text outer ts) : (applyArgsLoop ts outer acc).Good ts outer NoP := by
  rw [applyArgsLoop]
  rw [needFront_of h.eof]
  simp only [Bool.not_true, Bool.false_eq_true, if_false]
  rcases (hF ts (Nat.le_refl _) h false).cases with ⟨a, rest, hx, he1, hs1, hlt1⟩ | ⟨e, hx, hm, ho⟩ <;> rw [hx]
  · cases a with
    | none => exact ⟨h.eof, List.suffix_refl _, trivial⟩
    | some aot =>
      simp only []
      have hlt := hlt1 rfl
      rw [if_pos hlt]
      exact (hB rest hlt (h.suffix hs1 he1) _).mono hs1 (fun _ _ _ _ => trivial)
  · exact ⟨hm, ho⟩

theorem angleLoop_step {ts : List Token} (h : Inv text ts) (acc : List AOT) (hF : AOTGoodLe text outer ts)
    (hE : AngleLoopGoodBelow text outer ts) : (angleArgsLoop ts outer acc).Good ts outer NoP := by
  rw [angleArgsLoop]
  rcases (hF ts (Nat.le_refl _) h true).cases with ⟨a, rest, hx, he1, hs1, hlt1⟩ | ⟨e, hx, hm, ho⟩ <;> rw [hx]
  · cases a with
    | none => exact errFront_good h.eof (List.suffix_refl _)
    | some aot =>
      simp only []
      have hlt := hlt1 rfl
      obtain ⟨b2, r2, hx2, he2, hs2, hlt2⟩ := expect_ok he1 (.ch cComma) (by simp)
      rw [hx2]
      have hs2' : r2 <:+ ts := hs2.trans hs1
      cases b2 with
      | true =>
        simp only []
        have hl : r2.length < ts.length := by have := hs2.length_le; omega
        rw [if_pos hl]
        exact (hE r2 hl (h.suffix hs2' he2) _).mono hs2' (fun _ _ _ _ => trivial)
      | false =>
        simp only []
        rw [needFront_of he2]
        simp only [Bool.not_true, Bool.false_eq_true, if_false]
        obtain ⟨b3, r3, hx3, he3, hs3, _⟩ := expect_ok he2 (.ch cRAngle) (by simp)
        rw [hx3]
        cases b3 with
        | false => exact errFront_good he3 (hs3.trans hs2')
        | true => exact ⟨he3, hs3.trans hs2', trivial⟩
  · exact ⟨hm, ho⟩

end
section
variable {text : Bytes} {outer : Pos}

def FieldsGoodBelow (text : Bytes) (outer : Pos) (ts : List Token) : Prop :=
  ∀ ts' : List Token, ts'.length < ts.length → Inv text ts' → ∀ (f1 f2 : TT) acc, f1 ≠ .eof → f2 ≠ .eof →
    (parseFields text ts' ts' f1 f2 outer acc).Good ts' outer (Lt ts')
def RWSGoodLe (text : Bytes) (outer : Pos) (ts : List Token) : Prop :=
  ∀ ts' : List Token, ts'.length ≤ ts.length → Inv text ts' →
    (parseRepeatWithScaleOpt text ts' outer).Good ts' outer (SomeLt ts')
def FieldGoodLe (text : Bytes) (outer : Pos) (ts : List Token) : Prop :=
  ∀ ts' : List Token, ts'.length ≤ ts.length → Inv text ts' → ∀ cs, ToksOK text cs → WSPre cs ts' →
    (parseField text cs ts' outer).Good ts' outer (Lt ts')

theorem rws_step {ts : List Token} (h : Inv text ts) (hI : FieldsGoodBelow text outer ts) :
    (parseRepeatWithScaleOpt text ts outer).Good ts outer (SomeLt ts) := by
  rw [parseRepeatWithScaleOpt]
  obtain ⟨t0, r0, h0, he0, hws0, hpre0⟩ := skipWS_ok h.eof
  rw [h0]; simp only []
  have hl0 := hpre0.suffix.length_le
  have hi0 := h.suffix hpre0.suffix he0
  have hnone : (Res.ok (none : Option RWS) ts).Good ts outer (SomeLt ts) := ⟨h.eof, List.suffix_refl _, by simp [SomeLt]⟩
  rcases (parseScaleFactorOpt_good (outer := outer) hi0).cases with ⟨scale, r1, hx, he1, hs1, _⟩ | ⟨e, hx, hm, ho⟩ <;> rw [hx] <;> simp only []
  · have hs1' : r1 <:+ ts := hs1.trans hpre0.suffix
    have hl1 := hs1.length_le
    rcases (rwsOpen_good (outer := outer) (scale := scale) (h.suffix hs1' he1)).cases with
      ⟨b, r3, hx, he3, hs3, hlt3⟩ | ⟨e, hx, hm, ho⟩ <;> rw [hx]
    · cases b with
      | false => exact hnone
      | true =>
        simp only []
        have hlt : r3.length < ts.length := by have := hlt3 rfl; omega
        rw [if_pos hlt]
        have hs3' : r3 <:+ ts := hs3.trans hs1'
        rcases (hI r3 hlt (h.suffix hs3' he3) (.ch cRSquare) (.ch cRSquare) [] (by simp) (by simp)).cases with
          ⟨res, r4, hx, he4, hs4, _⟩ | ⟨e, hx, hm, ho⟩ <;> rw [hx] <;> simp only []
        · rw [needFront_of he4]
          simp only [Bool.not_true, Bool.false_eq_true, if_false]
          refine ⟨he4, hs4.trans hs3', fun _ => ?_⟩
          have := hs4.length_le; omega
        · exact ⟨hs3'.subset hm, ho⟩
    · exact ⟨hs1'.subset hm, ho⟩
  · exact ⟨hpre0.suffix.subset hm, ho⟩

theorem field_step {ts cs : List Token} (h : Inv text ts) (hcs : ToksOK text cs) (hw : WSPre cs ts)
    (hG : RWSGoodLe text outer ts) (hA : TypeRefGoodLe text outer ts) :
    (parseField text cs ts outer).Good ts outer (Lt ts) := by
  rw [parseField]
  obtain ⟨t0, r0, h0, he0, hws0, hpre0⟩ := skipWS_ok h.eof
  rw [h0]; simp only []
  have hl0 := hpre0.suffix.length_le
  have hi0 := h.suffix hpre0.suffix he0
  obtain ⟨cb, hcb⟩ := parseCommentBefore_ok (text := text) hcs (hw.trans hpre0) (by simp)
  rw [hcb]; simp only []
  obtain ⟨fieldName, r1, hfn, he1, hs1⟩ := parseFieldName_ok (outer := outer) hi0
  rw [hfn]; simp only []
  have hs1' : r1 <:+ ts := hs1.trans hpre0.suffix
  have hl1 := hs1.length_le
  rcases (parseFieldMask_good (outer := outer) (h.suffix hs1' he1)).cases with
    ⟨mask, r2', hx, he2', hs2', _⟩ | ⟨e, hx, hm, ho⟩ <;> rw [hx] <;> simp only []
  · -- r2 = if mask.isSome then r2' else r1
    have hr2 : ∃ r2, (if mask.isSome = true then r2' else r1) = r2 ∧ EndsEof r2 ∧ r2 <:+ r1 := by
      cases mask with
      | none => exact ⟨r1, by simp, he1, List.suffix_refl _⟩
      | some m => exact ⟨r2', by simp, he2', hs2'⟩
    obtain ⟨r2, hr2eq, he2, hs2⟩ := hr2
    rw [hr2eq]
    have hl2 := hs2.length_le
    obtain ⟨excl, r3, hx3, he3, hs3, _⟩ := expect_ok he2 (.ch cExcl) (by simp)
    rw [hx3]; simp only []
    have hl3 := hs3.length_le
    have hs3' : r3 <:+ ts := hs3.trans (hs2.trans hs1')
    have hle3 : r3.length ≤ ts.length := by omega
    rw [if_pos hle3]
    have hi3 := h.suffix hs3' he3
    rcases (hG r3 hle3 hi3).cases with ⟨a, r4, hx, he4, hs4, hlt4⟩ | ⟨e, hx, hm, ho⟩ <;> rw [hx]
    · cases a with
      | some sr =>
        obtain ⟨scale, rep⟩ := sr
        simp only []
        rw [needFront_of he4]
        simp only [Bool.not_true, Bool.false_eq_true, if_false]
        refine ⟨he4, hs4.trans hs3', ?_⟩
        have := hlt4 rfl; simp only [Lt]; omega
      | none =>
        simp only []
        rcases (hA r3 hle3 hi3 false true).cases with ⟨a, r4, hx, he5, hs5, hlt5⟩ | ⟨e, hx, hm, ho⟩ <;> rw [hx]
        · cases a with
          | none => exact errFront_good he3 hs3'
          | some t =>
            simp only []
            rw [needFront_of he5]
            simp only [Bool.not_true, Bool.false_eq_true, if_false]
            refine ⟨he5, hs5.trans hs3', ?_⟩
            have := hlt5 rfl; simp only [Lt]; omega
        · exact ⟨hs3'.subset hm, ho⟩
    · exact ⟨hs3'.subset hm, ho⟩
  · exact ⟨hs1'.subset hm, ho⟩

theorem fields_step {ts : List Token} (h : Inv text ts) (f1 f2 : TT) (acc : List Field) (hf1 : f1 ≠ .eof) (hf2 : f2 ≠ .eof)
    (hH : FieldGoodLe text outer ts) (hI : FieldsGoodBelow text outer ts) :
    (parseFields text ts ts f1 f2 outer acc).Good ts outer (Lt ts) := by
  rw [parseFields]
  obtain ⟨t, r, hc, he, hws, hpre⟩ := checkToken_ok h.eof f1
  rw [hc]
  have hl := hpre.suffix.length_le
  have hlt : r.length < ts.length := suffix_cons_lt hpre.suffix
  have hsr : r <:+ ts := (List.suffix_cons _ _).trans hpre.suffix
  cases hb : (t.ty == f1) with
  | true => exact ⟨he.tail (beq_true_ne_eof hb hf1), hsr, hlt⟩
  | false =>
    simp only []
    rw [checkToken_nonWS _ hws]
    cases hb2 : (t.ty == f2) with
    | true => exact ⟨he.tail (beq_true_ne_eof hb2 hf2), hsr, hlt⟩
    | false =>
      simp only []
      rw [if_pos hlt]
      have hi := h.suffix hpre.suffix he
      rcases (hH (t :: r) hl hi ts h.ok hpre).cases with ⟨field, r1, hx, he1, hs1, hlt1⟩ | ⟨e, hx, hm, ho⟩ <;> rw [hx] <;> simp only []
      · obtain ⟨he2, hw2⟩ := skipToNewline_ok he1
        have hs1' : r1 <:+ ts := hs1.trans hpre.suffix
        cases hsk : skipToNewline r1 with
        | mk nl r2 =>
          rw [hsk] at he2 hw2
          simp only [] at he2 hw2 ⊢
          have hcr : ∃ cr, (if nl = true then parseCommentRight text r1 r2 else some []) = some cr := by
            cases nl with
            | false => exact ⟨[], by simp⟩
            | true =>
              simp only [if_true]
              exact parseCommentRight_ok (h.ok.suffix hs1') hw2 he2.ne_nil
          obtain ⟨cr, hcr⟩ := hcr
          rw [hcr]; simp only []
          have hl2 := hw2.suffix.length_le
          have hlt2 : r2.length < ts.length := by simp only [Lt] at hlt1; omega
          rw [if_pos hlt2]
          have hs2 : r2 <:+ ts := hw2.suffix.trans hs1'
          exact (hI r2 hlt2 (h.suffix hs2 he2) f1 f2 _ hf1 hf2).mono hs2 (Lt.trans_suffix hs2)
      · exact ⟨hpre.suffix.subset hm, ho⟩

end
section
variable {text : Bytes} {outer : Pos}

/-- all mutually recursive parsing functions are good on iterators of length ≤ n -/
structure AllGood (text : Bytes) (outer : Pos) (n : Nat) : Prop where
  typeRef : ∀ ts : List Token, ts.length ≤ n → Inv text ts → ∀ af arb, (parseTypeRef ts af arb outer).Good ts outer (SomeLt ts)
  round : ∀ ts : List Token, ts.length ≤ n → Inv text ts → (parseTypeRefInRoundBracketsOpt ts outer).Good ts outer (SomeLt ts)
  angle : ∀ ts : List Token, ts.length ≤ n → Inv text ts → (parseTypeRefWithAngleBracketsOpt ts outer).Good ts outer (SomeLt ts)
  aot : ∀ ts : List Token, ts.length ≤ n → Inv text ts → ∀ af, (parseArithmeticOrTypeOpt ts af outer).Good ts outer (SomeLt ts)
  applyLoop : ∀ ts : List Token, ts.length ≤ n → Inv text ts → ∀ acc, (applyArgsLoop ts outer acc).Good ts outer NoP
  angleLoop : ∀ ts : List Token, ts.length ≤ n → Inv text ts → ∀ acc, (angleArgsLoop ts outer acc).Good ts outer NoP
  rws : ∀ ts : List Token, ts.length ≤ n → Inv text ts → (parseRepeatWithScaleOpt text ts outer).Good ts outer (SomeLt ts)
  field : ∀ ts : List Token, ts.length ≤ n → Inv text ts → ∀ cs, ToksOK text cs → WSPre cs ts →
    (parseField text cs ts outer).Good ts outer (Lt ts)
  fields : ∀ ts : List Token, ts.length ≤ n → Inv text ts → ∀ (f1 f2 : TT) acc, f1 ≠ .eof → f2 ≠ .eof →
    (parseFields text ts ts f1 f2 outer acc).Good ts outer (Lt ts)

theorem inv_len_pos {ts : List Token} (h : Inv text ts) : 0 < ts.length := by
  have := h.eof.ne_nil; cases ts <;> simp_all

theorem allGood : ∀ n, AllGood text outer n
  | 0 => by
    constructor <;> intro ts hn h <;> have := inv_len_pos h <;> omega
  | n+1 => by
    have ih := allGood n
    have hRound : ∀ ts : List Token, ts.length ≤ n+1 → Inv text ts → (parseTypeRefInRoundBracketsOpt ts outer).Good ts outer (SomeLt ts) :=
      fun ts hn h => roundBr_step h (fun ts' hl hi af arb => ih.typeRef ts' (by omega) hi af arb)
    have hAngle : ∀ ts : List Token, ts.length ≤ n+1 → Inv text ts → (parseTypeRefWithAngleBracketsOpt ts outer).Good ts outer (SomeLt ts) :=
      fun ts hn h => angleBr_step h (fun ts' hl hi acc => ih.angleLoop ts' (by omega) hi acc)
    have hTypeRef : ∀ ts : List Token, ts.length ≤ n+1 → Inv text ts → ∀ af arb, (parseTypeRef ts af arb outer).Good ts outer (SomeLt ts) :=
      fun ts hn h af arb => typeRef_step h af arb (fun ts' hl hi => hRound ts' (by omega) hi) (fun ts' hl hi => hAngle ts' (by omega) hi)
        (fun ts' hl hi acc => ih.applyLoop ts' (by omega) hi acc)
    have hAot : ∀ ts : List Token, ts.length ≤ n+1 → Inv text ts → ∀ af, (parseArithmeticOrTypeOpt ts af outer).Good ts outer (SomeLt ts) :=
      fun ts hn h af => aot_step h af (fun ts' hl hi af arb => hTypeRef ts' (by omega) hi af arb)
    have hApply : ∀ ts : List Token, ts.length ≤ n+1 → Inv text ts → ∀ acc, (applyArgsLoop ts outer acc).Good ts outer NoP :=
      fun ts hn h acc => applyLoop_step h acc (fun ts' hl hi af => hAot ts' (by omega) hi af)
        (fun ts' hl hi acc => ih.applyLoop ts' (by omega) hi acc)
    have hAngleLoop : ∀ ts : List Token, ts.length ≤ n+1 → Inv text ts → ∀ acc, (angleArgsLoop ts outer acc).Good ts outer NoP :=
      fun ts hn h acc => angleLoop_step h acc (fun ts' hl hi af => hAot ts' (by omega) hi af)
        (fun ts' hl hi acc => ih.angleLoop ts' (by omega) hi acc)
    have hRws : ∀ ts : List Token, ts.length ≤ n+1 → Inv text ts → (parseRepeatWithScaleOpt text ts outer).Good ts outer (SomeLt ts) :=
      fun ts hn h => rws_step h (fun ts' hl hi f1 f2 acc h1 h2 => ih.fields ts' (by omega) hi f1 f2 acc h1 h2)
    have hField : ∀ ts : List Token, ts.length ≤ n+1 → Inv text ts → ∀ cs, ToksOK text cs → WSPre cs ts →
        (parseField text cs ts outer).Good ts outer (Lt ts) :=
      fun ts hn h cs hcs hw => field_step h hcs hw (fun ts' hl hi => hRws ts' (by omega) hi)
        (fun ts' hl hi af arb => hTypeRef ts' (by omega) hi af arb)
    have hFields : ∀ ts : List Token, ts.length ≤ n+1 → Inv text ts → ∀ (f1 f2 : TT) acc, f1 ≠ .eof → f2 ≠ .eof →
        (parseFields text ts ts f1 f2 outer acc).Good ts outer (Lt ts) :=
      fun ts hn h f1 f2 acc h1 h2 => fields_step h f1 f2 acc h1 h2
        (fun ts' hl hi cs hcs hw => hField ts' (by omega) hi cs hcs hw)
        (fun ts' hl hi f1 f2 acc h1 h2 => ih.fields ts' (by omega) hi f1 f2 acc h1 h2)
    exact ⟨hTypeRef, hRound, hAngle, hAot, hApply, hAngleLoop, hRws, hField, hFields⟩

theorem parseTypeRef_good {ts : List Token} (h : Inv text ts) (af arb : Bool) :
    (parseTypeRef ts af arb outer).Good ts outer (SomeLt ts) := (allGood ts.length).typeRef ts (Nat.le_refl _) h af arb

theorem parseFields_good {ts : List Token} (h : Inv text ts) (f1 f2 : TT) (acc : List Field) (h1 : f1 ≠ .eof) (h2 : f2 ≠ .eof) :
    (parseFields text ts ts f1 f2 outer acc).Good ts outer (Lt ts) := (allGood ts.length).fields ts (Nat.le_refl _) h f1 f2 acc h1 h2

end
section
variable {text : Bytes}

theorem parseFuncDecl_good {outer : Pos} {ts : List Token} (h : Inv text ts) :
    (parseFuncDecl ts outer).Good ts outer (Lt ts) := by
  unfold parseFuncDecl
  rcases (parseTypeRef_good (outer := outer) h true false).cases with ⟨a, rest, hx, he1, hs1, hlt1⟩ | ⟨e, hx, hm, ho⟩ <;> rw [hx]
  · cases a with
    | none => exact errFront_good h.eof (List.suffix_refl _)
    | some t => exact ⟨he1, hs1, hlt1 rfl⟩
  · exact ⟨hm, ho⟩

theorem combinatorBody_good {outer : Pos} {ts : List Token} {isF : Bool} (h : Inv text ts) :
    (combinatorBody text ts outer isF).Good ts outer (Lt ts) := by
  unfold combinatorBody
  obtain ⟨t, r, hc, he, hws, hpre⟩ := checkToken_ok h.eof (.ch cQuestion)
  rw [hc]
  have hi := h.suffix hpre.suffix he
  cases hb : (t.ty == TT.ch cQuestion) with
  | true =>
    simp only []
    cases isF with
    | true => exact ⟨hpre.suffix.subset (by simp), rfl⟩
    | false =>
      simp only [Bool.false_eq_true, if_false]
      rw [expectOrPanic_hit hws hb]
      simp only []
      have he6 := he.tail (beq_true_ne_eof hb (by simp))
      have hs6 : r <:+ ts := (List.suffix_cons _ _).trans hpre.suffix
      obtain ⟨b7, r7, hx7, he7, hs7, _⟩ := expect_ok he6 (.ch cEqual) (by simp)
      rw [hx7]
      cases b7 with
      | false => exact errFront_good he7 (hs7.trans hs6)
      | true =>
        refine ⟨he7, hs7.trans hs6, ?_⟩
        have := hs7.length_le; have := suffix_cons_lt hpre.suffix; simp only [Lt]; omega
  | false =>
    simp only []
    rcases (parseFields_good (outer := outer) hi (.ch cEqual) .functionSign [] (by simp) (by simp)).cases with
      ⟨res, r6, hx, he6, hs6, hlt6⟩ | ⟨e, hx, hm, ho⟩ <;> rw [hx]
    · obtain ⟨fin, fields⟩ := res
      refine ⟨he6, hs6.trans hpre.suffix, ?_⟩
      have := hpre.suffix.length_le; simp only [Lt] at *; omega
    · exact ⟨hpre.suffix.subset hm, ho⟩

theorem combinatorDecl_good {outer : Pos} {ts : List Token} {b isF : Bool} (h : Inv text ts) :
    (combinatorDecl ts outer b isF).Good ts outer (Lt ts) := by
  unfold combinatorDecl
  cases isF with
  | true =>
    simp only [if_true]
    rcases (parseFuncDecl_good (outer := outer) h).cases with ⟨a, rest, hx, he1, hs1, hlt1⟩ | ⟨e, hx, hm, ho⟩ <;> rw [hx]
    · exact ⟨he1, hs1, hlt1⟩
    · exact ⟨hm, ho⟩
  | false =>
    simp only [Bool.false_eq_true, if_false]
    rcases (parseTypeDeclaration_good (outer := outer) h).cases with ⟨a, rest, hx, he1, hs1, hlt1⟩ | ⟨e, hx, hm, ho⟩ <;> rw [hx]
    · exact ⟨he1, hs1, hlt1⟩
    · exact ⟨hm, ho⟩

theorem parseCombinatorPre_good {ts cs : List Token} {isF ab : Bool} (h : Inv text ts) (hcs : ToksOK text cs) (hw : WSPre cs ts) :
    ∃ t0 r0, skipWS ts = some (t0, r0) ∧ (t0 :: r0) <:+ ts ∧ Inv text (t0 :: r0) ∧
      (parseCombinatorPre text cs ts isF ab).Good (t0 :: r0) t0.pos (Lt ts) := by
  obtain ⟨t0, r0, h0, he0, hws0, hpre0⟩ := skipWS_ok h.eof
  refine ⟨t0, r0, h0, hpre0.suffix, h.suffix hpre0.suffix he0, ?_⟩
  unfold parseCombinatorPre
  rw [h0]; simp only []
  have hl0 := hpre0.suffix.length_le
  have hi0 := h.suffix hpre0.suffix he0
  obtain ⟨cb, hcb⟩ := parseCommentBefore_ok (text := text) hcs (hw.trans hpre0) (by simp)
  rw [hcb]; simp only []
  rcases (parseModifiers_good (outer := t0.pos) (acc := []) hi0).cases with ⟨mods, r1, hx, he1, hs1, _⟩ | ⟨e, hx, hm, ho⟩ <;> rw [hx] <;> simp only []
  · have hi1 := hi0.suffix hs1 he1
    rcases (parseConstructor_good (outer := t0.pos) (ab := ab) hi1).cases with ⟨construct, r2, hx, he2, hs2, hlt2⟩ | ⟨e, hx, hm, ho⟩ <;> rw [hx] <;> simp only []
    · have hs2' : r2 <:+ (t0 :: r0) := hs2.trans hs1
      obtain ⟨t3, r3, h3, he3, hws3, hpre3⟩ := skipWS_ok he2
      rw [h3]; simp only []
      have hs3 : (t3 :: r3) <:+ (t0 :: r0) := hpre3.suffix.trans hs2'
      have hi3 := hi0.suffix hs3 he3
      rcases (parseTemplateArguments_good (outer := t0.pos) (acc := []) hi3).cases with ⟨targs, r4, hx, he4, hs4, _⟩ | ⟨e, hx, hm, ho⟩ <;> rw [hx] <;> simp only []
      · rw [needFront_of he4]
        simp only [Bool.not_true, Bool.false_eq_true, if_false]
        have hs4' : r4 <:+ (t0 :: r0) := hs4.trans hs3
        have hi4 := hi0.suffix hs4' he4
        rcases (combinatorBody_good (outer := t0.pos) (isF := isF) hi4).cases with ⟨body, r6, hx, he6, hs6, _⟩ | ⟨e, hx, hm, ho⟩ <;> rw [hx]
        · obtain ⟨builtin, isFunction, fields⟩ := body
          simp only []
          have hs6' : r6 <:+ (t0 :: r0) := hs6.trans hs4'
          have hi6 := hi0.suffix hs6' he6
          rcases (combinatorDecl_good (outer := t0.pos) (b := builtin) (isF := isFunction) hi6).cases with ⟨decl, r7, hx, he7, hs7, _⟩ | ⟨e, hx, hm, ho⟩ <;> rw [hx]
          · obtain ⟨builtin', typeDecl, funcDecl⟩ := decl
            simp only []
            have hs7' : r7 <:+ (t0 :: r0) := hs7.trans hs6'
            obtain ⟨b8, r8, hx8, he8, hs8, _⟩ := expect_ok he7 (.ch cSemi) (by simp)
            rw [hx8]
            have hs8' : r8 <:+ (t0 :: r0) := hs8.trans hs7'
            cases b8 with
            | false => exact errFront_good he8 hs8'
            | true =>
              refine ⟨he8, hs8', ?_⟩
              have := hs8.length_le; have := hs7.length_le; have := hs6.length_le
              have := hs4.length_le; have := hpre3.suffix.length_le; have := hs1.length_le
              simp only [Lt] at *; omega
          · exact ⟨hs6'.subset hm, ho⟩
        · exact ⟨hs4'.subset hm, ho⟩
      · exact ⟨hs3.subset hm, ho⟩
    · exact ⟨hs1.subset hm, ho⟩
  · exact ⟨hm, ho⟩


theorem parseCombinator_good {ts cs : List Token} {isF ab : Bool} (h : Inv text ts) (hcs : ToksOK text cs) (hw : WSPre cs ts) :
    ∃ t0 r0, skipWS ts = some (t0, r0) ∧ (t0 :: r0) <:+ ts ∧
      (parseCombinator text cs ts isF ab).Good (t0 :: r0) t0.pos (Lt ts) := by
  obtain ⟨t0, r0, h0, hs0, hi0, hg⟩ := parseCombinatorPre_good (text := text) (isF := isF) (ab := ab) h hcs hw
  refine ⟨t0, r0, h0, hs0, ?_⟩
  unfold parseCombinator
  rcases hg.cases with ⟨td, r8, hx, he8, hs8', hlt8⟩ | ⟨e, hx, hm, ho⟩ <;> rw [hx] <;> simp only []
  · obtain ⟨he9, hw9⟩ := skipToNewline_ok he8
    cases hsk : skipToNewline r8 with
    | mk nl r9 =>
      rw [hsk] at he9 hw9
      simp only [] at he9 hw9 ⊢
      have hcr : ∃ cr, (if nl = true then parseCommentRight text r8 r9 else some []) = some cr := by
        cases nl with
        | false => exact ⟨[], by simp⟩
        | true =>
          simp only [if_true]
          exact parseCommentRight_ok (hi0.ok.suffix hs8') hw9 he9.ne_nil
      obtain ⟨cr, hcr⟩ := hcr
      rw [hcr]; simp only []
      rw [needFront_of he9]
      simp only [Bool.not_true, Bool.false_eq_true, if_false]
      refine ⟨he9, hw9.suffix.trans hs8', ?_⟩
      have := hw9.suffix.length_le
      simp only [Lt] at *; omega
  · exact ⟨hm, ho⟩

end
section
variable {text : Bytes}

/-- what `parseFileLoop` / `parseTLFile` guarantee: an error carries a token of the input that lies
at or after the first token of the combinator, whose position is the error's outer position -/
def FileGood (all : List Token) : FileRes → Prop
  | .ok _ => True
  | .err e => ∃ t0 r0, (t0 :: r0) <:+ all ∧ e.tok ∈ (t0 :: r0) ∧ e.outer = t0.pos
  | .lexErr _ => False
  | .panic => False
  | .diverge => False

theorem FileGood.mono {all all' : List Token} {r : FileRes} (h : FileGood all' r) (hs : all' <:+ all) : FileGood all r := by
  cases r with
  | ok _ => trivial
  | err e => obtain ⟨t0, r0, h1, h2, h3⟩ := h; exact ⟨t0, r0, h1.trans hs, h2, h3⟩
  | lexErr _ => exact h.elim
  | panic => exact h.elim
  | diverge => exact h.elim

theorem parseFileLoop_good {ab : Bool} : ∀ (n : Nat) (ts : List Token) (fs : Bool) (acc : List Item),
    ts.length ≤ n → Inv text ts → FileGood ts (parseFileLoop text ab ts ts fs acc)
  | 0, ts, _, _, hn, h => by have := inv_len_pos h; omega
  | n+1, ts, fs, acc, hn, h => by
    rw [parseFileLoop]
    obtain ⟨t, r, hc, he, hws, hpre⟩ := checkToken_ok h.eof .eof
    rw [hc]
    obtain ⟨sl, hsl⟩ := sliceBetween_ok (text := text) h.ok hpre (by simp)
    have hlt : r.length < ts.length := suffix_cons_lt hpre.suffix
    cases hb : (t.ty == TT.eof) with
    | true => simp only [hsl]; trivial
    | false =>
      simp only []
      split
      · rename_i hsec
        rw [hsl]; simp only []
        have hne : t.ty ≠ .eof := by simpa using hb
        have hsr : r <:+ ts := (List.suffix_cons _ _).trans hpre.suffix
        exact (parseFileLoop_good n r _ _ (by omega) (h.suffix hsr (he.tail hne))).mono hsr
      · obtain ⟨t0, r0, h0, hs0, hg⟩ := parseCombinator_good (text := text) (isF := fs) (ab := ab)
          (h.suffix hpre.suffix he) h.ok hpre
        rcases hg.cases with ⟨td, rest, hx, he1, hs1, hlt1⟩ | ⟨e, hx, hm, ho⟩ <;> rw [hx] <;> simp only []
        · rw [needFront_of h.eof]
          simp only [Bool.not_true, Bool.false_eq_true, if_false]
          have hl : rest.length < ts.length := by
            have := hpre.suffix.length_le; simp only [Lt] at hlt1; omega
          rw [if_pos hl]
          have hsr : rest <:+ ts := (hs1.trans hs0).trans hpre.suffix
          exact (parseFileLoop_good n rest _ _ (by omega) (h.suffix hsr he1)).mono hsr
        · exact ⟨t0, r0, hs0.trans hpre.suffix, hm, ho⟩

/-- the guarantee for `parseTLFile` -/
def ParseOK (text : Bytes) : FileRes → Prop
  | .ok _ => True
  | .err e => e.tok.pos.off + e.tok.val.length ≤ text.length ∧ e.tok.pos.slo ≤ e.tok.pos.off ∧
      e.outer.slo ≤ e.tok.pos.slo ∧ e.outer.off ≤ e.tok.pos.off ∧ e.outer.slo ≤ e.outer.off
  | .lexErr e => e.tok.pos.off + e.tok.val.length ≤ text.length ∧ e.tok.pos.slo ≤ e.tok.pos.off ∧ e.outer = e.tok.pos
  | .panic => False
  | .diverge => False

theorem parseTLFile_ok (o : LexOpts) (text : Bytes) : ParseOK text (parseTLFile o text) := by
  unfold parseTLFile
  have hl := generateTokens_ok o text
  cases hg : generateTokens o text with
  | panic => rw [hg] at hl; exact hl
  | diverge => rw [hg] at hl; exact hl
  | err toks e => rw [hg] at hl; exact hl
  | ok toks rest =>
    rw [hg] at hl
    obtain ⟨hrec, _, hok, pre, eofTok, htoks, hty, _⟩ := hl
    simp only []
    have hne : (recombine toks rest != text) = false := by simp [hrec]
    rw [hne]
    simp only [Bool.false_eq_true, if_false]
    have hinv : Inv text toks := ⟨⟨pre, eofTok, htoks, hty⟩, hok⟩
    have := parseFileLoop_good (text := text) (ab := o.allowBuiltin) toks.length toks false [] (Nat.le_refl _) hinv
    cases hr : parseFileLoop text o.allowBuiltin toks toks false [] with
    | ok tl => trivial
    | panic => rw [hr] at this; exact this
    | diverge => rw [hr] at this; exact this
    | lexErr e => rw [hr] at this; exact this.elim
    | err e =>
      rw [hr] at this
      obtain ⟨t0, r0, hs, hm, ho⟩ := this
      have hok' := hok.suffix hs
      have hr1 := hok'.inRange e.tok hm
      have hr0 := hok'.inRange t0 (by simp)
      refine ⟨hr1.1, hr1.2, ?_, ?_, ?_⟩
      · rw [ho]
        rcases List.mem_cons.mp hm with h | h
        · rw [h]; exact Nat.le_refl _
        · have := hok'.sorted; simp only [List.pairwise_cons] at this; exact (this.1 _ h).2
      · rw [ho]
        rcases List.mem_cons.mp hm with h | h
        · rw [h]; exact Nat.le_refl _
        · have := hok'.sorted; simp only [List.pairwise_cons] at this; have := (this.1 _ h).1; omega
      · rw [ho]; exact hr0.2

end
theorem safeRange_some (s : Bytes) (b e : Nat) : ∃ r, safeRange s b e = some r := by
  unfold safeRange
  split
  · exact ⟨_, rfl⟩
  · rename_i h
    have : goSlice s b e = some ((s.drop b).take (e - b)) := by
      unfold goSlice
      simp only [Bool.or_eq_true, decide_eq_true_eq, not_or, Nat.not_lt] at h
      rw [if_pos (by simp; omega)]
    rw [this]; exact ⟨_, rfl⟩

theorem consolePrint_some (fc : Bytes) (outer begin end_ : Pos) (errText file : Bytes) (w : Bool) :
    ∃ out, consolePrint fc outer begin end_ errText file w = some out := by
  unfold consolePrint
  obtain ⟨⟨a1, c1⟩, h1⟩ := safeRange_some fc outer.slo begin.slo
  obtain ⟨⟨a2, c2⟩, h2⟩ := safeRange_some fc begin.slo end_.slo
  obtain ⟨⟨a3, c3⟩, h3⟩ := safeRange_some fc end_.slo end_.off
  obtain ⟨⟨a4, c4⟩, h4⟩ := safeRange_some fc begin.slo begin.off
  obtain ⟨⟨a5, c5⟩, h5⟩ := safeRange_some fc begin.off end_.off
  simp only [h1, h2, h3, h4, h5]
  have hx : ∃ p q, (if (begin.slo == end_.slo) = true then some (a4, c4) else some (([] : Bytes), false)) = some (p, q) := by
    split <;> exact ⟨_, _, rfl⟩
  have hy : ∃ p q, (if (begin.slo == end_.slo) = true then some (a5, c5) else some (a3, false)) = some (p, q) := by
    split <;> exact ⟨_, _, rfl⟩
  obtain ⟨p4, q4, hx⟩ := hx
  obtain ⟨p5, q5, hy⟩ := hy
  rw [hx, hy]
  simp only []
  split
  · rename_i heq
    exfalso
    split at heq
    · simp at heq
    · rename_i h
      have : goSlice fc end_.off fc.length = some ((fc.drop end_.off).take (fc.length - end_.off)) := by
        unfold goSlice
        rw [if_pos (by simp; omega)]
      rw [this] at heq; simp at heq
  · split <;> exact ⟨_, rfl⟩

def sl (fc : Bytes) (a b : Nat) : Bytes := (fc.drop a).take (b - a)

theorem safeRange_ok {s : Bytes} {b e : Nat} (h1 : b ≤ e) (h2 : e ≤ s.length) : safeRange s b e = some (sl s b e, false) := by
  unfold safeRange goSlice sl
  rw [if_neg (by simp; omega), if_pos (by simp; omega)]

/-- When the context is not corrupted, `consolePrint` renders the two-line form: the lines from the start of the
combinator, the offending line with the error token coloured, and the arrow line. -/
theorem consolePrint_pretty (fc : Bytes) (outer begin end_ : Pos) (errText file : Bytes) (w : Bool)
    (hsame : begin.slo = end_.slo) (h : contextCorrupted fc outer begin end_ = false) :
    consolePrint fc outer begin end_ errText file w =
      some (sl fc outer.slo begin.slo ++ replaceTabs (sl fc begin.slo begin.off) ++
        colorize (if w then colYellow else colRed) (replaceTabs (sl fc begin.off end_.off)) ++
        replaceTabs (upToLineEnd (sl fc end_.off fc.length)) ++ [cLF] ++
        List.replicate (replaceTabs (sl fc begin.slo begin.off)).length cSpace ++
        colorize colWhite ((if (List.replicate (replaceTabs (sl fc begin.off end_.off)).length (94 : UInt8)).isEmpty then [94]
          else List.replicate (replaceTabs (sl fc begin.off end_.off)).length (94 : UInt8)) ++ [cMinus, cMinus]) ++ [cSpace] ++
        (if w then colorize colYellow (strBytes "warning: ") else []) ++
        (errText ++ [cSpace] ++ file ++ strBytes " (line " ++ decBytes begin.line ++ strBytes " col " ++ decBytes begin.col ++ [cRRound]) ++
        [cLF]) := by
  rw [Bool.eq_false_iff] at h
  have hN : ¬ (outer.slo > fc.length ∨ begin.slo < outer.slo ∨ begin.slo > fc.length ∨
      end_.slo < begin.slo ∨ end_.slo > fc.length ∨ end_.off < end_.slo ∨ end_.off > fc.length ∨
      (begin.slo = end_.slo ∧ (begin.off < begin.slo ∨ begin.off > fc.length ∨ end_.off < begin.off))) := by
    intro hp; exact h (by simp only [contextCorrupted]; exact decide_eq_true hp)
  have h2 : outer.slo ≤ begin.slo := by omega
  have h3 : begin.slo ≤ fc.length := by omega
  have h4 : begin.slo ≤ end_.slo := by omega
  have h5 : end_.slo ≤ fc.length := by omega
  have h6 : end_.slo ≤ end_.off := by omega
  have h7 : end_.off ≤ fc.length := by omega
  have h8' : begin.slo ≤ begin.off ∧ begin.off ≤ fc.length ∧ begin.off ≤ end_.off := by omega
  unfold consolePrint
  rw [safeRange_ok h2 h3, safeRange_ok h4 h5, safeRange_ok h6 h7]
  simp only [hsame, beq_self_eq_true, if_true]
  rw [← hsame, safeRange_ok h8'.1 h8'.2.1, safeRange_ok h8'.2.2 h7]
  simp only []
  have hg : goSlice fc end_.off fc.length = some (sl fc end_.off fc.length) := by
    unfold goSlice sl; rw [if_pos (by simp; omega)]
  rw [if_neg (by omega), hg]
  have hemp : sl fc begin.slo begin.slo = [] := by simp [sl]
  simp only [Bool.or_self, Bool.false_eq_true, if_false, hemp, ne_eq, not_true_eq_false]
  
end TLVerif.Syntax
