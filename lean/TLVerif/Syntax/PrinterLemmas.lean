import TLVerif.Syntax.CanonLemmas
/-! Lemmas for the printer round trip: numbers and tags printed by the templates are read back by the parser's
`strconv.ParseUint` calls. -/
namespace TLVerif.Syntax
theorem hexDigit_ok : ∀ d, d < 16 → hexVal (hexDigitByte d) = d ∧ hexChar (hexDigitByte d) = true := by decide

theorem parseHex32_hex8 (id : UInt32) : parseHex32 (hex8 id) = some id.toNat := by
  have hlt : id.toNat < 4294967296 := id.toNat_lt
  unfold parseHex32 hex8
  simp only []
  generalize id.toNat = n at hlt ⊢
  have h7 := hexDigit_ok (n / 0x10000000 % 16) (Nat.mod_lt _ (by decide))
  have h6 := hexDigit_ok (n / 0x1000000 % 16) (Nat.mod_lt _ (by decide))
  have h5 := hexDigit_ok (n / 0x100000 % 16) (Nat.mod_lt _ (by decide))
  have h4 := hexDigit_ok (n / 0x10000 % 16) (Nat.mod_lt _ (by decide))
  have h3 := hexDigit_ok (n / 0x1000 % 16) (Nat.mod_lt _ (by decide))
  have h2 := hexDigit_ok (n / 0x100 % 16) (Nat.mod_lt _ (by decide))
  have h1 := hexDigit_ok (n / 0x10 % 16) (Nat.mod_lt _ (by decide))
  have h0 := hexDigit_ok (n % 16) (Nat.mod_lt _ (by decide))
  simp only [List.isEmpty_cons, List.all_cons, List.all_nil, h7.2, h6.2, h5.2, h4.2, h3.2, h2.2, h1.2, h0.2, Bool.and_self,
    Bool.not_true, Bool.or_self, Bool.false_eq_true, if_false, List.foldl_cons, List.foldl_nil, h7.1, h6.1, h5.1, h4.1, h3.1, h2.1, h1.1, h0.1]
  have : (((((((0 * 16 + n / 268435456 % 16) * 16 + n / 16777216 % 16) * 16 + n / 1048576 % 16) * 16 + n / 65536 % 16) * 16 +
      n / 4096 % 16) * 16 + n / 256 % 16) * 16 + n / 16 % 16) * 16 + n % 16 = n := by omega
  rw [this, if_pos hlt]

theorem digitByte_ok : ∀ d, d < 10 → digit (UInt8.ofNat (48 + d)) = true ∧ (UInt8.ofNat (48 + d)).toNat - 48 = d := by decide

theorem digitByte_spec (n : Nat) : digit (digitByte n) = true ∧ (digitByte n).toNat - 48 = n % 10 :=
  digitByte_ok (n % 10) (Nat.mod_lt _ (by decide))

theorem decBytesAux_spec : ∀ (fuel n : Nat) (acc : Bytes), n < fuel → acc.all digit = true →
    (decBytesAux fuel n acc).all digit = true ∧ decBytesAux fuel n acc ≠ [] ∧
    (decBytesAux fuel n acc).foldl (fun a c => a * 10 + (c.toNat - 48)) 0 = acc.foldl (fun a c => a * 10 + (c.toNat - 48)) n
  | 0, n, acc, h, _ => by omega
  | fuel+1, n, acc, h, hacc => by
    have hd := digitByte_spec n
    unfold decBytesAux
    split
    · rename_i hlt
      refine ⟨by simp [hd.1, hacc], by simp, ?_⟩
      simp only [List.foldl_cons, hd.2, Nat.zero_mul, Nat.zero_add]
      rw [Nat.mod_eq_of_lt hlt]
    · rename_i hge
      have ih := decBytesAux_spec fuel (n / 10) (digitByte n :: acc) (by omega) (by simp [hd.1, hacc])
      refine ⟨ih.1, ih.2.1, ?_⟩
      rw [ih.2.2]
      simp only [List.foldl_cons, hd.2]
      have : n / 10 * 10 + n % 10 = n := by omega
      rw [this]

theorem parseU32_decBytes (n : Nat) (h : n < 4294967296) : parseU32 (decBytes n) = some n := by
  have := decBytesAux_spec (n + 1) n [] (by omega) rfl
  unfold parseU32 decBytes
  have hne : (decBytesAux (n + 1) n []).isEmpty = false := by
    cases hx : decBytesAux (n + 1) n [] with
    | nil => exact absurd hx this.2.1
    | cons _ _ => rfl
  have hv : decValue (decBytesAux (n + 1) n []) = n := by
    unfold decValue; rw [this.2.2]; rfl
  simp only [hne, this.1, Bool.not_true, Bool.or_self, Bool.false_eq_true, if_false, hv, if_pos h]

end TLVerif.Syntax
