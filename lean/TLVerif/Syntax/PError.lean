import TLVerif.Syntax.Parser
/-!
Model of `internal/tlast/tlparser_error.go`: `safeRange`, `ParseError.consolePrint`,
`ConsolePrint` (for an error without `compare`, which is what the TL1 parser produces).
A Go string slice `s[b:e]` is `goSlice` (`none` = slice-bounds panic); `consolePrint` returns
`none` if any slice panics — `console_print_no_panic` shows it never does.
Colour escape sequences are those of `github.com/TwiN/go-color` v1.4.1 (tied by the
`syntax.colors` case of the harness).
-/
namespace TLVerif.Syntax
open TLVerif.Facts.Syntax (tabSpaces)

def goSlice (s : Bytes) (b e : Nat) : Option Bytes :=
  if b ≤ e && e ≤ s.length then some ((s.drop b).take (e - b)) else none

/-- `safeRange(s, b, e, &anyCorrupted)`: `(text, corrupted)`; outer `none` = panic -/
def safeRange (s : Bytes) (b e : Nat) : Option (Bytes × Bool) :=
  if b > s.length || e < b || e > s.length then some ([], true)
  else match goSlice s b e with
    | none => none
    | some r => some (r, false)

def tabSpacesBytes : Bytes := strBytes tabSpaces

/-- `strings.ReplaceAll(s, "\t", tabSpaces)` -/
def replaceTabs (s : Bytes) : Bytes := (s.map (fun c => if c == cTab then tabSpacesBytes else [c])).flatten

def esc (code : String) : Bytes := [27, 91] ++ strBytes code ++ [109]
def colReset : Bytes := esc "0"
def colRed : Bytes := esc "31"
def colYellow : Bytes := esc "33"
def colWhite : Bytes := esc "97"
def colorize (c s : Bytes) : Bytes := c ++ s ++ colReset

/-- `tail[:strings.IndexAny(tail, "\r\n")]` or all of it -/
def upToLineEnd (s : Bytes) : Bytes := s.takeWhile (fun c => c != cCR && c != cLF)

/-- `(*ParseError).consolePrint(out, err, c, isWarning)`: the bytes written; `none` = a panic. -/
def consolePrint (fc : Bytes) (outer begin end_ : Pos) (errText file : Bytes) (isWarning : Bool) : Option Bytes :=
  let c := if isWarning then colYellow else colRed
  match safeRange fc outer.slo begin.slo, safeRange fc begin.slo end_.slo, safeRange fc end_.slo end_.off with
  | some (beforeBegin, c1), some (beforeEndLine, c2), some (red0, c3) =>
    let sameLine := begin.slo == end_.slo
    match (if sameLine then safeRange fc begin.slo begin.off else some ([], false)),
          (if sameLine then safeRange fc begin.off end_.off else some (red0, false)) with
    | some (lineBefore, c4), some (red, c5) =>
      let ourLineBeforeBegin := replaceTabs lineBefore
      let ourLineRed := replaceTabs red
      let errLineBeforeBegin := List.replicate ourLineBeforeBegin.length cSpace
      let arrow0 := List.replicate ourLineRed.length (94 : UInt8)
      let arrowText := (if arrow0.isEmpty then [94] else arrow0) ++ [cMinus, cMinus]
      let tailR : Option (Bytes × Bool) :=
        if end_.off > fc.length then some ([], true)
        else match goSlice fc end_.off fc.length with
          | none => none
          | some t => some (t, false)
      match tailR with
      | none => none
      | some (tail, c6) =>
        let anyCorrupted := c1 || c2 || c3 || c4 || c5 || c6
        let after1 := replaceTabs (upToLineEnd tail)
        let after2 := errText ++ [cSpace] ++ file ++ strBytes " (line " ++ decBytes begin.line ++ strBytes " col " ++
                      decBytes begin.col ++ [cRRound]
        let head := if beforeEndLine ≠ [] then beforeBegin ++ c ++ beforeEndLine else beforeBegin
        let warnText := if isWarning then colorize colYellow (strBytes "warning: ") else []
        if anyCorrupted then
          some (head ++ errText ++ [cLF] ++ strBytes "beautiful error context corrupted, " ++
                colorize colRed (strBytes "internal error") ++ strBytes ", please report with TL file" ++ [cLF])
        else
          some (head ++ ourLineBeforeBegin ++ colorize c ourLineRed ++ after1 ++ [cLF] ++
                errLineBeforeBegin ++ colorize colWhite arrowText ++ [cSpace] ++ warnText ++ after2 ++ [cLF])
    | _, _ => none
  | _, _, _ => none

/-- whether `consolePrint` takes the "context corrupted" branch: some `safeRange` (or the tail slice) is out of range -/
def contextCorrupted (fc : Bytes) (outer begin end_ : Pos) : Bool :=
  decide (outer.slo > fc.length ∨ begin.slo < outer.slo ∨ begin.slo > fc.length ∨
    end_.slo < begin.slo ∨ end_.slo > fc.length ∨ end_.off < end_.slo ∨ end_.off > fc.length ∨
    (begin.slo = end_.slo ∧ (begin.off < begin.slo ∨ begin.off > fc.length ∨ end_.off < begin.off)))

/-- `ConsolePrint(out, outmostError, isWarning)` for a `ParseError` with `compare == nil` -/
def PErr.consolePrint (e : PErr) (fc errText file : Bytes) (isWarning : Bool) : Option Bytes :=
  Syntax.consolePrint fc e.outer e.begin e.end errText file isWarning

end TLVerif.Syntax
