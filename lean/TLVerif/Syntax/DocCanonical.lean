import TLVerif.Syntax.Printer
/-!
The *documented* canonical form (`tlcrc32.go` comment, `docs/TLPrimer.pdf`): one line, no braces, single spaces,
`%` only on names that are not lower-case, arithmetic replaced by its value, brackets as `[ … ]` — applied
uniformly, also inside repetition brackets.  `Combinator.canonicalForm` (the implementation) agrees with it outside
brackets by construction and inside brackets only for "plain" contents (`plainRep`).
-/
namespace TLVerif.Syntax

mutual
/-- a field by the documented rules (like `Field.crc`, at every nesting level) -/
def docField : Field → Bytes
  | .mk name mask _ body _ _ _ => nameColon name ++ maskStr mask ++ docBody body
def docBody : FieldBody → Bytes
  | .type t => t.crc
  | .rep scale rep => scaleCrc scale ++ [cLSquare] ++ docRep rep ++ [cSpace, cRSquare]
def docRep : List Field → Bytes
  | [] => []
  | f :: fs => [cSpace] ++ docField f ++ docRep fs
end

def Combinator.docCanonical (c : Combinator) : Bytes :=
  c.construct.name.str ++ [cSpace] ++
  (c.targs.map (fun x => x.name ++ (if x.isNat then [cColon, cHash, cSpace] else [cColon] ++ typeBytes ++ [cSpace]))).flatten ++
  (if c.builtin then [cQuestion, cSpace] else []) ++
  (c.fields.map (fun f => docField f ++ [cSpace])).flatten ++
  [cEqual, cSpace] ++
  (if c.isFunction then c.funcDecl.crc else c.typeDecl.str)

/-- a type reference that `String()` and `toCrc32` print identically: no arguments, no `%` on a lower-case name -/
def plainType : TypeRef → Bool
  | .mk ty args bare => args.isEmpty && !(bare && (match ty.name with | [] => false | c :: _ => isLowerByte c))

mutual
/-- contents of repetition brackets on which the implementation follows the documented rules -/
def plainRep : List Field → Bool
  | [] => true
  | (.mk _ mask excl body _ _ _) :: fs =>
    (match body with
     | .type t => !excl && plainType t
     | .rep _ rep => mask.isNone && plainRep rep) && plainRep fs
end

/-- top-level fields: only the contents of brackets matter -/
def plainField : Field → Bool
  | .mk _ _ _ (.type _) _ _ _ => true
  | .mk _ _ _ (.rep _ rep) _ _ _ => plainRep rep

def Combinator.plainBrackets (c : Combinator) : Bool := c.fields.all plainField

end TLVerif.Syntax
