import TLVerif.Util.Hex
import TLVerif.Tool.Tags
import TLVerif.Tool.OutDir
import TLVerif.Tool.LegacyOutDir
import TLVerif.Generated.ToolLegacyFacts
import TLVerif.Tool.RelPath
import TLVerif.Tool.Deconflict
import TLVerif.Tool.Walk
/-! Line-protocol handler for the `tool` family (C14, C15, C16, C24): every line is a self-contained case. -/
namespace TLVerif.Tool
open TLVerif.Util

def hexNat? (s : String) : Option Nat :=
  if s.isEmpty then none else
  s.toList.foldl (fun acc c => match acc, hexVal c with
    | some a, some d => some (a * 16 + d)
    | _, _ => none) (some 0)

def hex8 (t : Tag) : String :=
  let n := t.toNat
  String.ofList ((List.range 8).map fun i => hexDigit ((n >>> (4 * (7 - i))) % 16))

def commaList (s : String) : List String := if s == "-" then [] else s.splitOn ","

def allSome {α : Type} : List (Option α) → Option (List α)
  | [] => some []
  | none :: _ => none
  | some a :: t => match allSome t with
    | some r => some (a :: r)
    | none => none

def parseTags (s : String) : Option (List Tag) :=
  allSome ((commaList s).map fun w => (hexNat? w).map UInt32.ofNat)

def parseDecl (w : String) : Option TL2Decl :=
  match w.toList with
  | k :: rest =>
    let f := k == 'f'
    if k != 'f' && k != 't' then none
    else if rest == ['n'] then some ⟨f, none⟩
    else (hexNat? (String.ofList rest)).map fun n => ⟨f, some (UInt32.ofNat n)⟩
  | [] => none

def parseDecls (s : String) : Option (List TL2Decl) := allSome ((commaList s).map parseDecl)

def showTags (l : List Tag) : String := if l.isEmpty then "-" else ",".intercalate (l.map hex8)

def verdictStr {ε : Type} (r : Except ε Unit) : String :=
  match r with
  | .ok _ => "ok"
  | .error _ => "err"

def handleTags (t1 t2 : String) : String :=
  match parseTags t1, parseDecls t2 with
  | some tl1, some tl2 =>
    let k := "k:" ++ verdictStr (schemaVerdict tl1 tl2)
    let l := if tl2.isEmpty then " l:" ++ verdictStr (legacyCheckTags tl1) else ""
    let m := match parseTL2Magics 0 tl2 with
      | .ok ms => showTags ms
      | .error _ => "perr"
    s!"{k}{l} a:{showTags tl1} m:{m}"
  | _, _ => "bad-op"

/-! ### C16: histories of generations into one directory -/

def sortStrs (l : List String) : List String := l.mergeSort (fun a b => decide (a ≤ b))
def showList (l : List String) : String := if l.isEmpty then "-" else ",".intercalate l

def parseKV (w : String) : Option (Path × String) :=
  match w.splitOn "=" with
  | [k, v] => if k.isEmpty || v.isEmpty then none else some (k, v)
  | _ => none

def parseCode (s : String) : Option (List (Path × String)) := allSome ((commaList s).map parseKV)

def parseStep (w : String) : Option Step :=
  match w.splitOn ":" with
  | "g" :: c :: _ => (parseCode c).map Step.gen
  | ["p", kv] => (parseKV kv).map fun (k, v) => Step.plantFile k v
  | ["d", d] => if d.isEmpty then none else some (Step.plantDir d)
  | ["r", k] => if k.isEmpty then none else some (Step.rm k)
  | _ => none

def showResult (r : WriteResult) : String :=
  let o := match r.outcome with
    | .ok => "ok"
    | .refused => "ref"
  let t := sortStrs (r.fs.files.map fun kv => kv.1 ++ "=" ++ kv.2)
  s!"{o};w={showList (sortStrs r.written)};x={showList (sortStrs r.deleted)};T={showList t};D={showList (sortStrs r.fs.dirs)}"

def handleOutdir (fmt : Path → String → String) (marker steps : String) : String :=
  match allSome ((steps.splitOn ";").map parseStep) with
  | none => "bad-op"
  | some st =>
    let (_, rs) := runHistory fmt marker FS.empty st
    if rs.isEmpty then "none" else
    let nok := (rs.filter fun r => r.outcome == .ok).length
    s!"r={nok}.{rs.length - nok} " ++ "|".intercalate (rs.map showResult)

/-! ### C16, legacy writer `(*Gen2).WriteToDir` -/

def parseLStep (w : String) : Option LStep :=
  match w.splitOn ":" with
  | "g" :: c :: _ => (parseCode c).map LStep.gen
  | ["p", kv] => (parseKV kv).map fun (k, v) => LStep.plantFile k v
  | ["d", d] => if d.isEmpty then none else some (LStep.plantDir d)
  | ["r", k] => if k.isEmpty then none else some (LStep.rm k)
  | _ => none

def showLResult (r : LWriteResult) : String :=
  let o := match r.outcome with
    | .ok => "ok"
    | .refused => "ref"
    | .twice => "dup"
  let t := sortStrs (r.fs.files.map fun kv => kv.1 ++ "=" ++ kv.2)
  s!"{o};w={showList (sortStrs r.written)};x={showList (sortStrs r.deleted)};T={showList t};D={showList (sortStrs r.fs.dirs)}"

def showLHistory (rs : List LWriteResult) : String :=
  if rs.isEmpty then "none" else
  let nok := (rs.filter fun r => r.outcome == .ok).length
  s!"r={nok}.{rs.length - nok} " ++ "|".intercalate (rs.map showLResult)

/-- in-process legacy writer with abstract code maps; the marker content is the identifier `mk` -/
def handleLOutdir (lang steps : String) : String :=
  match allSome ((steps.splitOn ";").map parseLStep) with
  | none => "bad-op"
  | some st =>
    let marker := TLVerif.Facts.ToolLegacy.legacyMarkerFile
    let (fmt, keep) : (Path → String → String) × (Path → Bool) :=
      if lang == "cpp" then (fmtIdsCpp, cppKeep) else ((fun _ c => c), fun _ => false)
    showLHistory (runLegacyHistory fmt keep marker "mk" FS.empty st).2

/-- real `tlgen -language=cpp` runs: the claimed file list of each generation contains the marker entry (its content is
the same in every generation of a history); the model's writer adds the marker itself, so it is split off -/
def handleLOutcli (steps : String) : String :=
  match allSome ((steps.splitOn ";").map parseLStep) with
  | none => "bad-op"
  | some st =>
    let marker := TLVerif.Facts.ToolLegacy.legacyMarkerFile
    let mc := (st.findSome? fun s => match s with
      | .gen code => alookup marker code
      | _ => none).getD "mk"
    let st' := st.map fun s => match s with
      | .gen code => LStep.gen (code.filter fun kv => kv.1 ≠ marker)
      | other => other
    showLHistory (runLegacyHistory (fun _ c => c) cppKeep marker mc FS.empty st').2

def textOfHex (h : String) : Option String :=
  (bytesOfHex h).map fun bs => String.ofList (bs.map fun b => Char.ofNat b.toNat)

def hexOfText (s : String) : String := hexOfBytes (s.toList.map fun c => UInt8.ofNat c.toNat)

def handleRelPath (a b : String) : String :=
  match textOfHex a, textOfHex b with
  | some p, some q =>
    match basicRelPath p q with
    | .error _ => "err"
    | .ok rel => "ok " ++ hexOfText rel
  | _, _ => "bad-op"

/-! ### C14: deconflicter; C15: deterministic walk -/

def handleDec (prefill names : String) : String :=
  let d0 : Deconflicter := ⟨[]⟩
  let d := if prefill == "1" then d0.fillGolangIdentifies else d0
  let (rs, _) := d.deconflictAll (commaList names)
  match allSome rs with
  | none => "loop"
  | some l => "ok " ++ showList l

def parseEntry (w : String) : Option Entry :=
  match w.splitOn ":" with
  | ["f", p] => some (.file p)
  | ["l", p] => some (.symlink p)
  | ["d", p] => some (.dir p)
  | _ => none

def handleWalk (ext tree roots : String) : String :=
  match allSome ((commaList tree).map parseEntry) with
  | none => "bad-op"
  | some t =>
    match walkDeterministic (treeListing t) id ext (commaList roots) with
    | none => "err"
    | some l => "ok " ++ showList l

def handle (op : String) (args : List String) : String :=
  match op, args with
  | "tags", [t1, t2, _, _] => handleTags t1 t2
  | "tagscli", [t1, t2, _, _] => handleTags t1 t2
  | "outdir", [marker, steps] => handleOutdir fmtIds marker steps
  | "relpath", [a, b] => handleRelPath a b
  | "loutdir", [lang, steps] => handleLOutdir lang steps
  | "loutcli", [_, steps] => handleLOutcli steps
  | "dec", [pre, names] => handleDec pre names
  | "walk", [ext, tree, roots] => handleWalk ext tree roots
  | "outcli", [marker, steps] => handleOutdir (fun _ c => c) marker steps
  | _, _ => "bad-op"

end TLVerif.Tool
