import TLVerif.Util.Hex
import TLVerif.Tool.Tags
/-! Line-protocol handler for the `tool` family (C14, C15, C16, C24): every line is a self-contained case. -/
namespace TLVerif.Tool
open TLVerif.Util

def hexNat? (s : String) : Option Nat :=
  if s.isEmpty then none else
  s.toList.foldl (fun acc c => match acc, hexVal c with
    | some a, some d => some (a * 16 + d)
    | _, _ => none) (some 0)

def hex8 (t : Tag) : String :=
  let n := t.toNat
  String.ofList ((List.range 8).map fun i => hexDigit ((n >>> (4 * (7 - i))) % 16))

def commaList (s : String) : List String := if s == "-" then [] else s.splitOn ","

def allSome {α : Type} : List (Option α) → Option (List α)
  | [] => some []
  | none :: _ => none
  | some a :: t => match allSome t with
    | some r => some (a :: r)
    | none => none

def parseTags (s : String) : Option (List Tag) :=
  allSome ((commaList s).map fun w => (hexNat? w).map UInt32.ofNat)

def parseDecl (w : String) : Option TL2Decl :=
  match w.toList with
  | k :: rest =>
    let f := k == 'f'
    if k != 'f' && k != 't' then none
    else if rest == ['n'] then some ⟨f, none⟩
    else (hexNat? (String.ofList rest)).map fun n => ⟨f, some (UInt32.ofNat n)⟩
  | [] => none

def parseDecls (s : String) : Option (List TL2Decl) := allSome ((commaList s).map parseDecl)

def showTags (l : List Tag) : String := if l.isEmpty then "-" else ",".intercalate (l.map hex8)

def verdictStr {ε : Type} (r : Except ε Unit) : String :=
  match r with
  | .ok _ => "ok"
  | .error _ => "err"

def handleTags (t1 t2 : String) : String :=
  match parseTags t1, parseDecls t2 with
  | some tl1, some tl2 =>
    let k := "k:" ++ verdictStr (schemaVerdict tl1 tl2)
    let l := if tl2.isEmpty then " l:" ++ verdictStr (legacyCheckTags tl1) else ""
    let m := match parseTL2Magics 0 tl2 with
      | .ok ms => showTags ms
      | .error _ => "perr"
    s!"{k}{l} a:{showTags tl1} m:{m}"
  | _, _ => "bad-op"

def handle (op : String) (args : List String) : String :=
  match op, args with
  | "tags", [t1, t2, _, _] => handleTags t1 t2
  | "tagscli", [t1, t2, _, _] => handleTags t1 t2
  | _, _ => "bad-op"

end TLVerif.Tool
