import TLVerif.Tool.Tags
/-! Lemmas about the tag-check model (C24). -/
namespace TLVerif.Tool

theorem tl1Loop_ok_iff (l : List Tag) : ∀ (seen : List Tag) (idx : Nat) (s : List Tag),
    tl1Loop seen idx l = .ok s ↔
      s = l.reverse ++ seen ∧ (∀ t ∈ l, t ≠ 0) ∧ (∀ t ∈ l, t ∉ seen) ∧ l.Nodup := by
  induction l with
  | nil => intro seen idx s; simp [tl1Loop]; exact eq_comm
  | cons t rest ih =>
    intro seen idx s
    unfold tl1Loop
    by_cases h0 : t = 0
    · simp [h0]
    · rw [if_neg h0]
      by_cases hs : t ∈ seen
      · rw [if_pos hs]; simp [hs]
      · rw [if_neg hs, ih]
        simp only [List.reverse_cons, List.append_assoc, List.singleton_append, List.mem_cons,
          List.nodup_cons, forall_eq_or_imp, not_or]
        constructor
        · rintro ⟨h1, h2, h3, h4⟩
          refine ⟨h1, ⟨h0, h2⟩, ⟨hs, fun r hr => (h3 r hr).2⟩, ?_, h4⟩
          intro hm; exact (h3 t hm).1 rfl
        · rintro ⟨h1, ⟨_, h2⟩, ⟨_, h3⟩, h4, h5⟩
          refine ⟨h1, h2, fun r hr => ⟨?_, h3 r hr⟩, h5⟩
          intro e; subst e; exact h4 hr

theorem tl2Loop_ok_iff (l : List Tag) : ∀ (seen : List Tag) (s : List Tag),
    tl2Loop seen l = .ok s ↔
      s = (l.filter (· ≠ 0)).reverse ++ seen ∧ (∀ t ∈ l.filter (· ≠ 0), t ∉ seen) ∧ (l.filter (· ≠ 0)).Nodup := by
  induction l with
  | nil => intro seen s; simp [tl2Loop]; exact eq_comm
  | cons t rest ih =>
    intro seen s
    unfold tl2Loop
    by_cases h0 : t = 0
    · rw [if_pos h0, ih]; simp [h0]
    · rw [if_neg h0]
      have hf : (t :: rest).filter (· ≠ 0) = t :: rest.filter (· ≠ 0) := by simp [h0]
      rw [hf]
      by_cases hs : t ∈ seen
      · rw [if_pos hs]; simp [hs]
      · rw [if_neg hs, ih]
        simp only [List.reverse_cons, List.append_assoc, List.singleton_append, List.mem_cons,
          List.nodup_cons, forall_eq_or_imp, not_or]
        constructor
        · rintro ⟨h1, h3, h4⟩
          refine ⟨h1, ⟨hs, fun r hr => (h3 r hr).2⟩, ?_, h4⟩
          intro hm; exact (h3 t hm).1 rfl
        · rintro ⟨h1, ⟨_, h3⟩, h4, h5⟩
          refine ⟨h1, fun r hr => ⟨?_, h3 r hr⟩, h5⟩
          intro e; subst e; exact h4 hr

/-- the TL1 loop never reports anything but `zero`/`dup` and says which -/
theorem tl1Loop_err (l : List Tag) : ∀ (seen : List Tag) (idx : Nat) (e : TagErr),
    tl1Loop seen idx l = .error e →
      (∃ i, e = .zero i ∧ idx ≤ i ∧ l[i - idx]? = some 0) ∨ (∃ t, e = .dup t ∧ t ≠ 0 ∧ t ∈ l ∧ (t ∈ seen ∨ 2 ≤ l.count t)) := by
  induction l with
  | nil => intro seen idx e h; simp [tl1Loop] at h
  | cons t rest ih =>
    intro seen idx e h
    unfold tl1Loop at h
    by_cases h0 : t = 0
    · rw [if_pos h0] at h
      left; refine ⟨idx, ?_, Nat.le_refl _, ?_⟩
      · cases h; rfl
      · simp [h0]
    · rw [if_neg h0] at h
      by_cases hs : t ∈ seen
      · rw [if_pos hs] at h
        right; refine ⟨t, ?_, h0, by simp, Or.inl hs⟩
        cases h; rfl
      · rw [if_neg hs] at h
        rcases ih _ _ _ h with ⟨i, he, hi, hz⟩ | ⟨u, he, hu0, hu, hc⟩
        · left; refine ⟨i, he, by omega, ?_⟩
          have : i - idx = (i - (idx + 1)) + 1 := by omega
          rw [this]; simpa using hz
        · right; refine ⟨u, he, hu0, List.mem_cons_of_mem _ hu, ?_⟩
          rcases hc with hc | hc
          · rcases List.mem_cons.mp hc with e1 | e1
            · right; subst e1
              have : 1 ≤ rest.count u := List.count_pos_iff.mpr hu
              simp; omega
            · left; exact e1
          · right; simp [List.count_cons]; omega

end TLVerif.Tool
