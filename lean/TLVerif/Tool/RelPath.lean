/-!
# Model of `internal/puregen/gengo/gengo.go (*genGo).prepareOptions`: where the runtime library goes (C16)

`BasicPackageRelativePath` is the only source of code-map keys that point outside the output directory
(`filepath.Join(gen.BasicPackageRelativePath, "basictl.go")`, `…"basictl2.go"`).  Core Lean only.
-/
namespace TLVerif.Tool

/-- length of the common prefix of two component lists (`for ; neqInd < len(a) && neqInd < len(b); neqInd++ { if a[i] != b[i] {break} }`) -/
def commonPrefixLen : List String → List String → Nat
  | a :: as, b :: bs => if a = b then commonPrefixLen as bs + 1 else 0
  | _, _ => 0

/-- `(number of "../", remaining components of basicPkgPath)` when both paths share at least `github.com/user/repo` -/
def relComponents (outdirElems basicElems : List String) : Option (Nat × List String) :=
  let n := commonPrefixLen outdirElems basicElems
  if 3 ≤ n then some (outdirElems.length - n, basicElems.drop n) else none

def defaultPkgPath : String := "github.com/VKCOM/tl/internal/tlcodegen/output/tl"

def trimSuffixSlash (s : String) : String :=
  if s.endsWith "/" then String.ofList s.toList.dropLast else s

/-- `prepareOptions`: `.error ()` = option error, `.ok ""` = runtime library not written ("in different repository"),
`.ok rel` = written to `rel/basictl.go`, `rel/basictl2.go` relative to the output directory. -/
def basicRelPath (pkgPath basic : String) : Except Unit String :=
  let p0 := trimSuffixSlash pkgPath.trimAscii.toString
  let p := if p0 = "" then defaultPkgPath else p0
  let elements := p.splitOn "/"
  if elements.length < 3 then .error () else
  let outdirElems := elements.dropLast
  if elements.getLast? = some "" || outdirElems.getLast? = some "" then .error () else
  if basic = "" then .ok "basictl" else
  let basicElems := basic.splitOn "/"
  if basicElems.length < 2 || basicElems.getLast? ≠ some "basictl" then .error () else
  match relComponents outdirElems basicElems with
  | none => .ok ""
  | some (ups, rest) => .ok (String.join (List.replicate ups "../") ++ String.join (rest.map (· ++ "/")))

end TLVerif.Tool
