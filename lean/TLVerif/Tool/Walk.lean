/-!
# Model of `internal/utils/walkdeterministic.go  WalkDeterministic` (C15)

`listing root` abstracts `filepath.Walk(root, …)`: the regular files below (or equal to) `root`, in the order the walk
reports them, or `none` when the walk fails (root does not exist).  The function then keeps the paths with the wanted
extension, pairs each with its canonical form (`/` separators), **stable-sorts by the canonical form** and returns the
original paths.  `List.mergeSort` of core Lean is a stable sort, like `sort.SliceStable`.  Core Lean only.
-/
namespace TLVerif.Tool

structure WalkPair where
  canonical : String
  common : String
  deriving DecidableEq, Repr

def pairLe (a b : WalkPair) : Bool := decide (a.canonical ≤ b.canonical)

/-- the `pairs` slice after the loop over the roots; `none` = some walk returned an error -/
def collectPairs (listing : String → Option (List String)) (canon : String → String) (ext : String) :
    List String → Option (List WalkPair)
  | [] => some []
  | r :: rest =>
    match listing r with
    | none => none
    | some files =>
      match collectPairs listing canon ext rest with
      | none => none
      | some ps => some ((files.filter (·.endsWith ext)).map (fun p => ⟨canon p, p⟩) ++ ps)

def walkDeterministic (listing : String → Option (List String)) (canon : String → String) (ext : String)
    (roots : List String) : Option (List String) :=
  (collectPairs listing canon ext roots).map fun ps => (ps.mergeSort pairLe).map (·.common)

/-! ### a concrete file tree for the tie -/

inductive Entry where
  | file (p : String)      -- regular file
  | symlink (p : String)   -- anything that is not a regular file or directory
  | dir (p : String)       -- (possibly empty) directory
  deriving Repr

def Entry.path : Entry → String
  | .file p => p
  | .symlink p => p
  | .dir p => p

def isUnder (root p : String) : Bool := (root ++ "/").isPrefixOf p

/-- what `filepath.Walk(root)` reports as regular files (order inside a root is irrelevant for the result because
equal canonical forms are equal paths on this platform) -/
def treeListing (t : List Entry) (root : String) : Option (List String) :=
  if t.any (fun e => match e with
      | .file p => p == root
      | _ => false) then some [root]
  else if t.any (fun e => match e with
      | .symlink p => p == root
      | _ => false) then some []
  else if t.any (fun e => (match e with
      | .dir p => p == root
      | _ => false) || isUnder root e.path) then
    some (t.filterMap fun e => match e with
      | .file p => if isUnder root p then some p else none
      | _ => none)
  else none

end TLVerif.Tool
