import TLVerif.Tool.OutDir
/-! Lemmas about the `OutDir.Write` model (C16, C15). -/
namespace TLVerif.Tool

theorem alookup_filter_ne (p q : Path) (l : List (Path × String)) :
    alookup p (l.filter (fun kv => kv.1 ≠ q)) = if p = q then none else alookup p l := by
  induction l with
  | nil => simp [alookup]
  | cons kv t ih =>
    rcases kv with ⟨k, v⟩
    by_cases hk : k = q
    · subst hk
      simp only [List.filter, ne_eq, not_true_eq_false, decide_false]
      rw [ih]; by_cases hp : p = k
      · simp [hp]
      · simp only [hp, if_false, alookup]; rw [if_neg (fun e => hp e.symm)]
    · simp only [List.filter, ne_eq, hk, not_false_eq_true, decide_true, alookup]
      by_cases hkp : k = p
      · subst hkp; simp [hk]
      · simp only [hkp, if_false]; exact ih

theorem alookup_none_iff (p : Path) (l : List (Path × String)) : alookup p l = none ↔ p ∉ keys l := by
  induction l with
  | nil => simp [alookup, keys]
  | cons kv t ih =>
    rcases kv with ⟨k, v⟩
    simp only [alookup, keys, List.map_cons, List.mem_cons, not_or]
    by_cases hk : k = p
    · simp [hk]
    · simp only [hk, if_false]
      rw [ih]; simp only [keys]
      constructor
      · intro h; exact ⟨fun e => hk e.symm, h⟩
      · intro h; exact h.2

theorem alookup_isSome_iff (p : Path) (l : List (Path × String)) : (alookup p l).isSome = true ↔ p ∈ keys l := by
  have := alookup_none_iff p l
  cases h : alookup p l with
  | none => simp [h] at this ⊢; exact this
  | some v => simp [h] at this ⊢; exact this

theorem alookup_mem {p : Path} {c : String} {l : List (Path × String)} (h : alookup p l = some c) : (p, c) ∈ l := by
  induction l with
  | nil => simp [alookup] at h
  | cons kv t ih =>
    rcases kv with ⟨k, v⟩
    simp only [alookup] at h
    by_cases hk : k = p
    · simp only [hk, if_true, Option.some.injEq] at h; subst hk; subst h; simp
    · simp only [hk, if_false] at h; exact List.mem_cons_of_mem _ (ih h)

/-- with distinct keys, lookup returns *the* entry -/
theorem alookup_of_mem {p : Path} {c : String} {l : List (Path × String)} (hnd : (keys l).Nodup) (h : (p, c) ∈ l) :
    alookup p l = some c := by
  induction l with
  | nil => cases h
  | cons kv t ih =>
    rcases kv with ⟨k, v⟩
    simp only [keys, List.map_cons, List.nodup_cons] at hnd
    rcases List.mem_cons.mp h with e | e
    · cases e; simp [alookup]
    · have hkt : p ∈ t.map (·.1) := List.mem_map.mpr ⟨(p, c), e, rfl⟩
      have : k ≠ p := fun ek => hnd.1 (ek ▸ hkt)
      simp only [alookup, this, if_false]; exact ih hnd.2 e

namespace FS
theorem lookup_writeFile (fs : FS) (p q : Path) (c : String) :
    (fs.writeFile q c).lookup p = if p = q then some c else fs.lookup p := by
  simp only [lookup, writeFile, alookup]
  by_cases h : q = p
  · simp [h]
  · rw [if_neg h, alookup_filter_ne, if_neg (fun e => h e.symm), if_neg (fun e => h e.symm)]

theorem lookup_removeFile (fs : FS) (p q : Path) :
    (fs.removeFile q).lookup p = if p = q then none else fs.lookup p := by
  simp only [lookup, removeFile]; exact alookup_filter_ne p q fs.files

theorem lookup_mkdirAll (fs : FS) (n p : Path) : (fs.mkdirAll n).lookup p = fs.lookup p := rfl
end FS

theorem mem_relativeFiles (fs : FS) (p : Path) :
    p ∈ relativeFiles fs ↔ isOutside p = false ∧ (fs.lookup p).isSome = true := by
  simp only [relativeFiles, List.mem_filter, FS.lookup, alookup_isSome_iff, keys, Bool.not_eq_true', and_comm]

/-! ### the per-file step -/

/-- `stepFile` with the file system after `MkdirAll` named explicitly -/
def stepCore (fmt : Path → String → String) (st : WState) (item : Path × String) (fs1 : FS) : WState :=
  if (decide (item.1 ∈ st.rel) && (fs1.lookup item.1 == some (fmt item.1 item.2))) = true then
    { fs := fs1, rel := st.rel.filter (· ≠ item.1), written := st.written, notTouched := st.notTouched + 1 }
  else
    { fs := fs1.writeFile item.1 (fmt item.1 item.2), rel := st.rel.filter (· ≠ item.1),
      written := item.1 :: st.written, notTouched := st.notTouched }

def fsAfterMkdir (st : WState) (item : Path × String) : FS :=
  if isOutside item.1 then st.fs else st.fs.mkdirAll item.1

theorem stepFile_eq (fmt : Path → String → String) (st : WState) (item : Path × String) :
    stepFile fmt st item = stepCore fmt st item (fsAfterMkdir st item) := rfl

theorem fsAfterMkdir_lookup (st : WState) (item : Path × String) (q : Path) :
    (fsAfterMkdir st item).lookup q = st.fs.lookup q := by
  unfold fsAfterMkdir; split <;> rfl

theorem core_cond (fmt : Path → String → String) (st : WState) (item : Path × String) :
    ((decide (item.1 ∈ st.rel) && ((fsAfterMkdir st item).lookup item.1 == some (fmt item.1 item.2))) = true) ↔
      (item.1 ∈ st.rel ∧ st.fs.lookup item.1 = some (fmt item.1 item.2)) := by
  simp only [Bool.and_eq_true, beq_iff_eq, decide_eq_true_eq, fsAfterMkdir_lookup]

theorem step_lookup (fmt : Path → String → String) (st : WState) (item : Path × String) (p : Path) :
    (stepFile fmt st item).fs.lookup p = if p = item.1 then some (fmt item.1 item.2) else st.fs.lookup p := by
  rw [stepFile_eq]; unfold stepCore
  by_cases hc : (decide (item.1 ∈ st.rel) && ((fsAfterMkdir st item).lookup item.1 == some (fmt item.1 item.2))) = true
  · rw [if_pos hc]
    have hc' := (core_cond fmt st item).mp hc
    simp only []
    by_cases hp : p = item.1
    · rw [if_pos hp, hp, fsAfterMkdir_lookup]; exact hc'.2
    · rw [if_neg hp]; exact fsAfterMkdir_lookup st item p
  · rw [if_neg hc]
    simp only []
    rw [FS.lookup_writeFile]
    by_cases hp : p = item.1
    · rw [if_pos hp, if_pos hp]
    · rw [if_neg hp, if_neg hp]; exact fsAfterMkdir_lookup st item p

theorem step_rel (fmt : Path → String → String) (st : WState) (item : Path × String) :
    (stepFile fmt st item).rel = st.rel.filter (· ≠ item.1) := by
  rw [stepFile_eq]; unfold stepCore; split <;> rfl

theorem step_written (fmt : Path → String → String) (st : WState) (item : Path × String) (p : Path) :
    p ∈ (stepFile fmt st item).written ↔
      p ∈ st.written ∨ (p = item.1 ∧ ¬ (item.1 ∈ st.rel ∧ st.fs.lookup item.1 = some (fmt item.1 item.2))) := by
  rw [stepFile_eq]; unfold stepCore
  by_cases hc : (decide (item.1 ∈ st.rel) && ((fsAfterMkdir st item).lookup item.1 == some (fmt item.1 item.2))) = true
  · rw [if_pos hc]
    have hc' := (core_cond fmt st item).mp hc
    simp only []
    constructor
    · intro h; exact Or.inl h
    · rintro (h | ⟨_, h⟩)
      · exact h
      · exact absurd hc' h
  · rw [if_neg hc]
    have hc' : ¬ (item.1 ∈ st.rel ∧ st.fs.lookup item.1 = some (fmt item.1 item.2)) :=
      fun h => hc ((core_cond fmt st item).mpr h)
    simp only [List.mem_cons]
    constructor
    · rintro (h | h)
      · exact Or.inr ⟨h, hc'⟩
      · exact Or.inl h
    · rintro (h | ⟨h, _⟩)
      · exact Or.inr h
      · exact Or.inl h

theorem step_count (fmt : Path → String → String) (st : WState) (item : Path × String) :
    (stepFile fmt st item).notTouched + (stepFile fmt st item).written.length = st.notTouched + st.written.length + 1 := by
  rw [stepFile_eq]; unfold stepCore; split
  · simp only []; omega
  · simp only [List.length_cons]; omega

/-! ### the fold over the code map -/

theorem fold_lookup (fmt : Path → String → String) (code : List (Path × String)) :
    ∀ (st : WState) (p : Path), (keys code).Nodup →
      (code.foldl (stepFile fmt) st).fs.lookup p =
        match alookup p code with
        | some c => some (fmt p c)
        | none => st.fs.lookup p := by
  induction code with
  | nil => intro st p _; simp [alookup]
  | cons kv rest ih =>
    intro st p hnd
    rcases kv with ⟨k, c⟩
    simp only [keys, List.map_cons, List.nodup_cons] at hnd
    rw [List.foldl_cons, ih _ p hnd.2, step_lookup]
    simp only [alookup]
    by_cases hk : k = p
    · subst hk
      have : alookup k rest = none := (alookup_none_iff k rest).mpr hnd.1
      simp [this]
    · simp only [hk, if_false]
      rw [if_neg (fun e => hk e.symm)]

theorem fold_rel (fmt : Path → String → String) (code : List (Path × String)) :
    ∀ (st : WState) (q : Path), q ∈ (code.foldl (stepFile fmt) st).rel ↔ q ∈ st.rel ∧ q ∉ keys code := by
  induction code with
  | nil => intro st q; simp [keys]
  | cons kv rest ih =>
    intro st q
    rw [List.foldl_cons, ih, step_rel]
    simp only [keys, List.map_cons, List.mem_cons, not_or, List.mem_filter, ne_eq, decide_not,
      Bool.not_eq_true', decide_eq_false_iff_not]
    constructor
    · rintro ⟨⟨a, b⟩, c⟩; exact ⟨a, b, c⟩
    · rintro ⟨a, b, c⟩; exact ⟨⟨a, b⟩, c⟩

theorem fold_written (fmt : Path → String → String) (code : List (Path × String)) :
    ∀ (st : WState) (p : Path), (keys code).Nodup →
      (p ∈ (code.foldl (stepFile fmt) st).written ↔
        p ∈ st.written ∨ ∃ c, alookup p code = some c ∧ ¬ (p ∈ st.rel ∧ st.fs.lookup p = some (fmt p c))) := by
  induction code with
  | nil => intro st p _; simp [alookup]
  | cons kv rest ih =>
    intro st p hnd
    rcases kv with ⟨k, c⟩
    simp only [keys, List.map_cons, List.nodup_cons] at hnd
    rw [List.foldl_cons, ih _ p hnd.2, step_written, step_rel, step_lookup]
    simp only [alookup]
    by_cases hk : k = p
    · subst hk
      have hn : alookup k rest = none := (alookup_none_iff k rest).mpr hnd.1
      simp only [hn, if_true, Option.some.injEq, true_and, reduceCtorEq, false_and, exists_false, or_false,
        exists_eq_left']
    · have hpk : ¬ p = k := fun e => hk e.symm
      simp only [hk, hpk, if_false, false_and, or_false, List.mem_filter, ne_eq, not_false_eq_true, decide_true,
        and_true]

theorem fold_count (fmt : Path → String → String) (code : List (Path × String)) :
    ∀ (st : WState), (code.foldl (stepFile fmt) st).notTouched + (code.foldl (stepFile fmt) st).written.length =
      st.notTouched + st.written.length + code.length := by
  induction code with
  | nil => intro st; simp
  | cons kv rest ih =>
    intro st; rw [List.foldl_cons, ih, step_count, List.length_cons]; omega

theorem fold_remove_lookup (L : List Path) : ∀ (fs : FS) (p : Path),
    (L.foldl (fun fs q => fs.removeFile q) fs).lookup p = if p ∈ L then none else fs.lookup p := by
  induction L with
  | nil => intro fs p; simp
  | cons q t ih =>
    intro fs p
    rw [List.foldl_cons, ih, FS.lookup_removeFile]
    by_cases h1 : p ∈ t
    · simp [h1]
    · by_cases h2 : p = q
      · simp [h2]
      · simp [h1, h2]

theorem pruneDirs_files (L : List Path) : ∀ (fs : FS), (pruneDirs fs L).files = fs.files := by
  induction L with
  | nil => intro fs; rfl
  | cons d t ih =>
    intro fs
    unfold pruneDirs
    rw [List.foldl_cons]
    have := ih (if hasEntryBeneath fs d then fs else { fs with dirs := fs.dirs.filter (· ≠ d) })
    unfold pruneDirs at this
    rw [this]; split <;> rfl

theorem pruneDirs_lookup (L : List Path) (fs : FS) (p : Path) : (pruneDirs fs L).lookup p = fs.lookup p := by
  simp only [FS.lookup, pruneDirs_files]


/-! ### `write` as a whole -/

def refuseCond (fs : FS) (marker : Path) : Prop := relativeFiles fs ≠ [] ∧ marker ∉ relativeFiles fs

theorem refuse_guard_iff (fs : FS) (marker : Path) :
    ((!(relativeFiles fs).isEmpty && !((relativeFiles fs).contains marker)) = true) ↔ refuseCond fs marker := by
  unfold refuseCond
  simp only [Bool.and_eq_true, Bool.not_eq_true', List.isEmpty_eq_false_iff, ne_eq, List.contains_eq_mem,
    decide_eq_false_iff_not]

theorem write_refused (fmt : Path → String → String) (fs : FS) (code : List (Path × String)) (marker : Path)
    (h : refuseCond fs marker) :
    write fmt fs code marker = { outcome := .refused, fs := fs, written := [], deleted := [], notTouched := 0 } := by
  unfold write; simp only []
  rw [if_pos ((refuse_guard_iff fs marker).mpr h)]

/-- the state after the per-file phase -/
def afterFiles (fmt : Path → String → String) (fs : FS) (code : List (Path × String)) : WState :=
  code.foldl (stepFile fmt) { fs := fs, rel := relativeFiles fs, written := [], notTouched := 0 }

theorem write_ok (fmt : Path → String → String) (fs : FS) (code : List (Path × String)) (marker : Path)
    (h : ¬ refuseCond fs marker) :
    write fmt fs code marker =
      { outcome := .ok,
        fs := pruneDirs ((afterFiles fmt fs code).rel.foldl (fun fs p => fs.removeFile p) (afterFiles fmt fs code).fs)
                (collectedDirs fs).reverse,
        written := (afterFiles fmt fs code).written, deleted := (afterFiles fmt fs code).rel,
        notTouched := (afterFiles fmt fs code).notTouched } := by
  unfold write; simp only []
  rw [if_neg (fun g => h ((refuse_guard_iff fs marker).mp g))]
  rfl

theorem write_outcome_cases (fmt : Path → String → String) (fs : FS) (code : List (Path × String)) (marker : Path) :
    ((write fmt fs code marker).outcome = .refused ↔ refuseCond fs marker) ∧
    ((write fmt fs code marker).outcome = .ok ↔ ¬ refuseCond fs marker) := by
  by_cases h : refuseCond fs marker
  · rw [write_refused fmt fs code marker h]; simp [h]
  · rw [write_ok fmt fs code marker h]; simp [h]


/-- every lookup in the file system after a successful `write`, in closed form -/
theorem write_ok_lookup (fmt : Path → String → String) (fs : FS) (code : List (Path × String)) (marker : Path)
    (hnd : (keys code).Nodup) (hc : ¬ refuseCond fs marker) (p : Path) :
    (write fmt fs code marker).fs.lookup p =
      match alookup p code with
      | some c => some (fmt p c)
      | none => if p ∈ relativeFiles fs then none else fs.lookup p := by
  rw [write_ok fmt fs code marker hc]
  simp only [pruneDirs_lookup, fold_remove_lookup]
  have hrel := fold_rel fmt code { fs := fs, rel := relativeFiles fs, written := [], notTouched := 0 } p
  have hlk := fold_lookup fmt code { fs := fs, rel := relativeFiles fs, written := [], notTouched := 0 } p hnd
  simp only [] at hrel hlk
  by_cases hm : p ∈ (afterFiles fmt fs code).rel
  · rw [if_pos hm]
    have := (hrel.mp hm)
    have hk : alookup p code = none := (alookup_none_iff p code).mpr this.2
    rw [hk]; simp only []; rw [if_pos this.1]
  · rw [if_neg hm]
    unfold afterFiles; rw [hlk]
    cases ha : alookup p code with
    | some c => rfl
    | none =>
      simp only []
      have hk : p ∉ keys code := (alookup_none_iff p code).mp ha
      have : p ∉ relativeFiles fs := fun hr => hm (hrel.mpr ⟨hr, hk⟩)
      rw [if_neg this]

theorem write_ok_written (fmt : Path → String → String) (fs : FS) (code : List (Path × String)) (marker : Path)
    (hnd : (keys code).Nodup) (hc : ¬ refuseCond fs marker) (p : Path) :
    p ∈ (write fmt fs code marker).written ↔
      ∃ c, alookup p code = some c ∧ ¬ (p ∈ relativeFiles fs ∧ fs.lookup p = some (fmt p c)) := by
  rw [write_ok fmt fs code marker hc]
  simp only [afterFiles]
  rw [fold_written fmt code _ p hnd]
  simp

theorem write_ok_deleted (fmt : Path → String → String) (fs : FS) (code : List (Path × String)) (marker : Path)
    (hc : ¬ refuseCond fs marker) (p : Path) :
    p ∈ (write fmt fs code marker).deleted ↔ p ∈ relativeFiles fs ∧ p ∉ keys code := by
  rw [write_ok fmt fs code marker hc]
  simp only [afterFiles]
  exact fold_rel fmt code _ p

theorem write_ok_count (fmt : Path → String → String) (fs : FS) (code : List (Path × String)) (marker : Path)
    (hc : ¬ refuseCond fs marker) :
    (write fmt fs code marker).notTouched + (write fmt fs code marker).written.length = code.length := by
  rw [write_ok fmt fs code marker hc]
  simp only [afterFiles]
  have := fold_count fmt code { fs := fs, rel := relativeFiles fs, written := [], notTouched := 0 }
  simpa using this

/-! ### each file is written at most once; pruning only removes collected directories -/

theorem step_written_cases (fmt : Path → String → String) (st : WState) (item : Path × String) :
    (stepFile fmt st item).written = st.written ∨ (stepFile fmt st item).written = item.1 :: st.written := by
  rw [stepFile_eq]; unfold stepCore; split
  · exact Or.inl rfl
  · exact Or.inr rfl

theorem fold_written_nodup (fmt : Path → String → String) (code : List (Path × String)) :
    ∀ (st : WState), (keys code).Nodup → st.written.Nodup → (∀ p ∈ st.written, p ∉ keys code) →
      (code.foldl (stepFile fmt) st).written.Nodup := by
  induction code with
  | nil => intro st _ h _; exact h
  | cons kv rest ih =>
    intro st hnd hw hdis
    rcases kv with ⟨k, c⟩
    simp only [keys, List.map_cons, List.nodup_cons] at hnd
    rw [List.foldl_cons]
    have hk : k ∉ st.written := fun hm => hdis k hm (by simp [keys])
    apply ih _ hnd.2
    · rcases step_written_cases fmt st (k, c) with e | e
      · rw [e]; exact hw
      · rw [e]; exact List.nodup_cons.mpr ⟨hk, hw⟩
    · intro p hp
      rcases step_written_cases fmt st (k, c) with e | e
      · rw [e] at hp
        intro hm; exact hdis p hp (by simp only [keys, List.map_cons]; exact List.mem_cons_of_mem _ hm)
      · rw [e] at hp
        rcases List.mem_cons.mp hp with e1 | e1
        · subst e1; exact hnd.1
        · intro hm; exact hdis p e1 (by simp only [keys, List.map_cons]; exact List.mem_cons_of_mem _ hm)

theorem write_written_nodup (fmt : Path → String → String) (fs : FS) (code : List (Path × String)) (marker : Path)
    (hnd : (keys code).Nodup) : (write fmt fs code marker).written.Nodup := by
  by_cases hc : refuseCond fs marker
  · rw [write_refused fmt fs code marker hc]; simp
  · rw [write_ok fmt fs code marker hc]
    simp only [afterFiles]
    exact fold_written_nodup fmt code _ hnd (by simp) (by simp)


theorem pruneDirs_subset (L : List Path) : ∀ (fs : FS) (d : Path), d ∈ (pruneDirs fs L).dirs → d ∈ fs.dirs := by
  induction L with
  | nil => intro fs d h; exact h
  | cons x t ih =>
    intro fs d h
    unfold pruneDirs at h
    rw [List.foldl_cons] at h
    by_cases hb : hasEntryBeneath fs x = true
    · rw [if_pos hb] at h; exact ih fs d h
    · rw [if_neg hb] at h
      have := ih _ d h
      exact (List.mem_filter.mp this).1

theorem pruneDirs_keeps (L : List Path) : ∀ (fs : FS) (d : Path), d ∈ fs.dirs → d ∉ L → d ∈ (pruneDirs fs L).dirs := by
  induction L with
  | nil => intro fs d h _; exact h
  | cons x t ih =>
    intro fs d h hn
    unfold pruneDirs
    rw [List.foldl_cons]
    have hx : d ≠ x := fun e => hn (by simp [e])
    have ht : d ∉ t := fun e => hn (List.mem_cons_of_mem _ e)
    by_cases hb : hasEntryBeneath fs x = true
    · rw [if_pos hb]; exact ih fs d h ht
    · rw [if_neg hb]
      apply ih _ d _ ht
      exact List.mem_filter.mpr ⟨h, by simpa using hx⟩

end TLVerif.Tool
