import TLVerif.Tool.LegacyOutDir
import TLVerif.Tool.OutDirLemmas
/-! Lemmas about the legacy `WriteToDir` model (C16). -/
namespace TLVerif.Tool

theorem twice_guard_iff (code : List (Path × String)) (marker : Path) :
    ((keys code).contains marker = true) ↔ marker ∈ keys code := by
  simp only [List.contains_eq_mem, decide_eq_true_eq]

theorem legacyWrite_refused (fmt : Path → String → String) (keep : Path → Bool) (fs : FS) (code : List (Path × String))
    (marker mc : String) (h : refuseCond fs marker) :
    legacyWrite fmt keep fs code marker mc =
      { outcome := .refused, fs := fs, written := [], deleted := [], notTouched := 0 } := by
  unfold legacyWrite; simp only []
  rw [if_pos ((refuse_guard_iff fs marker).mpr h)]

theorem legacyWrite_twice (fmt : Path → String → String) (keep : Path → Bool) (fs : FS) (code : List (Path × String))
    (marker mc : String) (h : ¬ refuseCond fs marker) (hm : marker ∈ keys code) :
    legacyWrite fmt keep fs code marker mc =
      { outcome := .twice, fs := fs, written := [], deleted := [], notTouched := 0 } := by
  unfold legacyWrite; simp only []
  rw [if_neg (fun g => h ((refuse_guard_iff fs marker).mp g)), if_pos ((twice_guard_iff code marker).mpr hm)]

/-- state after the per-file phase of the legacy writer -/
def lAfterFiles (fmt : Path → String → String) (fs : FS) (code : List (Path × String)) (marker mc : String) : WState :=
  (withMarker code marker mc).foldl (stepFile fmt) { fs := fs, rel := relativeFiles fs, written := [], notTouched := 0 }

def lDeleted (fmt : Path → String → String) (keep : Path → Bool) (fs : FS) (code : List (Path × String))
    (marker mc : String) : List Path :=
  (lAfterFiles fmt fs code marker mc).rel.filter (fun p => !keep p)

theorem legacyWrite_ok (fmt : Path → String → String) (keep : Path → Bool) (fs : FS) (code : List (Path × String))
    (marker mc : String) (h : ¬ refuseCond fs marker) (hm : marker ∉ keys code) :
    legacyWrite fmt keep fs code marker mc =
      { outcome := .ok,
        fs := pruneDirs ((lDeleted fmt keep fs code marker mc).foldl (fun fs p => fs.removeFile p)
                (lAfterFiles fmt fs code marker mc).fs) (collectedDirs fs).reverse,
        written := (lAfterFiles fmt fs code marker mc).written, deleted := lDeleted fmt keep fs code marker mc,
        notTouched := (lAfterFiles fmt fs code marker mc).notTouched } := by
  unfold legacyWrite; simp only []
  rw [if_neg (fun g => h ((refuse_guard_iff fs marker).mp g)),
    if_neg (fun g => hm ((twice_guard_iff code marker).mp g))]
  rfl

theorem legacy_outcome_cases (fmt : Path → String → String) (keep : Path → Bool) (fs : FS) (code : List (Path × String))
    (marker mc : String) :
    ((legacyWrite fmt keep fs code marker mc).outcome = .refused ↔ refuseCond fs marker) ∧
    ((legacyWrite fmt keep fs code marker mc).outcome = .twice ↔ ¬ refuseCond fs marker ∧ marker ∈ keys code) ∧
    ((legacyWrite fmt keep fs code marker mc).outcome = .ok ↔ ¬ refuseCond fs marker ∧ marker ∉ keys code) := by
  by_cases h : refuseCond fs marker
  · rw [legacyWrite_refused fmt keep fs code marker mc h]; simp [h]
  · by_cases hm : marker ∈ keys code
    · rw [legacyWrite_twice fmt keep fs code marker mc h hm]; simp [h, hm]
    · rw [legacyWrite_ok fmt keep fs code marker mc h hm]; simp [h, hm]

theorem keys_withMarker (code : List (Path × String)) (marker mc : String) :
    keys (withMarker code marker mc) = keys code ++ [marker] := by
  simp [keys, withMarker]

theorem nodup_withMarker (code : List (Path × String)) (marker mc : String)
    (hnd : (keys code).Nodup) (hm : marker ∉ keys code) : (keys (withMarker code marker mc)).Nodup := by
  rw [keys_withMarker]
  refine List.nodup_append.mpr ⟨hnd, by simp, ?_⟩
  intro a ha b hb e; simp only [List.mem_cons, List.not_mem_nil, or_false] at hb; subst hb; subst e; exact hm ha

theorem mem_lDeleted (fmt : Path → String → String) (keep : Path → Bool) (fs : FS) (code : List (Path × String))
    (marker mc : String) (p : Path) :
    p ∈ lDeleted fmt keep fs code marker mc ↔
      p ∈ relativeFiles fs ∧ p ∉ keys (withMarker code marker mc) ∧ keep p = false := by
  unfold lDeleted lAfterFiles
  simp only [List.mem_filter, Bool.not_eq_true', fold_rel, and_assoc]

/-- every lookup after a successful legacy write, in closed form -/
theorem legacy_ok_lookup (fmt : Path → String → String) (keep : Path → Bool) (fs : FS) (code : List (Path × String))
    (marker mc : String) (hnd : (keys code).Nodup) (hc : ¬ refuseCond fs marker) (hm : marker ∉ keys code) (p : Path) :
    (legacyWrite fmt keep fs code marker mc).fs.lookup p =
      match alookup p (withMarker code marker mc) with
      | some c => some (fmt p c)
      | none => if p ∈ relativeFiles fs ∧ keep p = false then none else fs.lookup p := by
  rw [legacyWrite_ok fmt keep fs code marker mc hc hm]
  simp only [pruneDirs_lookup, fold_remove_lookup]
  have hnd' := nodup_withMarker code marker mc hnd hm
  have hdel := mem_lDeleted fmt keep fs code marker mc p
  have hlk := fold_lookup fmt (withMarker code marker mc)
    { fs := fs, rel := relativeFiles fs, written := [], notTouched := 0 } p hnd'
  simp only [] at hlk
  by_cases hd : p ∈ lDeleted fmt keep fs code marker mc
  · rw [if_pos hd]
    obtain ⟨h1, h2, h3⟩ := hdel.mp hd
    rw [(alookup_none_iff p _).mpr h2]; simp only []
    rw [if_pos ⟨h1, h3⟩]
  · rw [if_neg hd]
    unfold lAfterFiles; rw [hlk]
    cases ha : alookup p (withMarker code marker mc) with
    | some c => rfl
    | none =>
      simp only []
      have hk := (alookup_none_iff p _).mp ha
      have : ¬ (p ∈ relativeFiles fs ∧ keep p = false) := fun hh => hd (hdel.mpr ⟨hh.1, hk, hh.2⟩)
      rw [if_neg this]

theorem legacy_ok_written (fmt : Path → String → String) (keep : Path → Bool) (fs : FS) (code : List (Path × String))
    (marker mc : String) (hnd : (keys code).Nodup) (hc : ¬ refuseCond fs marker) (hm : marker ∉ keys code) (p : Path) :
    p ∈ (legacyWrite fmt keep fs code marker mc).written ↔
      ∃ c, alookup p (withMarker code marker mc) = some c ∧ ¬ (p ∈ relativeFiles fs ∧ fs.lookup p = some (fmt p c)) := by
  rw [legacyWrite_ok fmt keep fs code marker mc hc hm]
  simp only [lAfterFiles]
  rw [fold_written fmt _ _ p (nodup_withMarker code marker mc hnd hm)]
  simp

end TLVerif.Tool
