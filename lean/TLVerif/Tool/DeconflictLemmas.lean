import TLVerif.Tool.Deconflict
import Std.Data.String.ToNat
/-! Lemmas about the deconflicter model (C14): candidates are pairwise distinct, pigeonhole, freshness. -/
namespace TLVerif.Tool

theorem toString_ne_empty (k : Nat) : toString k ≠ "" := Nat.repr_ne_empty

theorem candidate_injective (s : String) : ∀ {i j : Nat}, candidate s i = candidate s j → i = j := by
  intro i j h
  cases i with
  | zero =>
    cases j with
    | zero => rfl
    | succ j =>
      exfalso
      simp only [candidate] at h
      have : s ++ "" = s ++ toString j := by rw [String.append_empty]; exact h
      exact toString_ne_empty j ((String.append_right_inj s).mp this).symm
  | succ i =>
    cases j with
    | zero =>
      exfalso
      simp only [candidate] at h
      have : s ++ toString i = s ++ "" := by rw [String.append_empty]; exact h
      exact toString_ne_empty i ((String.append_right_inj s).mp this)
    | succ j =>
      simp only [candidate] at h
      have h1 := (String.append_right_inj s).mp h
      have h2 : Nat.repr i = Nat.repr j := h1
      rw [Nat.repr_inj.mp h2]

/-- pigeonhole: a duplicate-free list contained in `u` is no longer than `u` -/
theorem nodup_subset_length {α : Type} [DecidableEq α] : ∀ (l u : List α), l.Nodup → (∀ x ∈ l, x ∈ u) → l.length ≤ u.length := by
  intro l
  induction l with
  | nil => intro u _ _; simp
  | cons a t ih =>
    intro u hnd hsub
    have ha : a ∈ u := hsub a (by simp)
    have hnd' := List.nodup_cons.mp hnd
    have : t.length ≤ (u.erase a).length := by
      apply ih _ hnd'.2
      intro x hx
      have hxa : x ≠ a := fun e => hnd'.1 (e ▸ hx)
      exact (List.mem_erase_of_ne hxa).mpr (hsub x (List.mem_cons_of_mem _ hx))
    rw [List.length_erase_of_mem ha] at this
    have hpos : 0 < u.length := List.length_pos_of_mem ha
    simp only [List.length_cons]; omega

theorem findFree_none (used : List String) (s : String) : ∀ (fuel k : Nat),
    findFree used s k fuel = none → ∀ j, j < fuel → candidate s (k + j) ∈ used := by
  intro fuel
  induction fuel with
  | zero => intro k _ j hj; omega
  | succ f ih =>
    intro k h j hj
    unfold findFree at h
    by_cases hc : candidate s k ∈ used
    · rw [if_pos hc] at h
      cases j with
      | zero => simpa using hc
      | succ j =>
        have := ih (k + 1) h j (by omega)
        have e : k + 1 + j = k + (j + 1) := by omega
        rw [e] at this; exact this
    · rw [if_neg hc] at h; cases h

theorem findFree_some (used : List String) (s : String) : ∀ (fuel k : Nat) (r : String),
    findFree used s k fuel = some r →
      ∃ j, j < fuel ∧ r = candidate s (k + j) ∧ r ∉ used ∧ ∀ i, i < j → candidate s (k + i) ∈ used := by
  intro fuel
  induction fuel with
  | zero => intro k r h; simp [findFree] at h
  | succ f ih =>
    intro k r h
    unfold findFree at h
    by_cases hc : candidate s k ∈ used
    · rw [if_pos hc] at h
      obtain ⟨j, hj, hr, hn, hall⟩ := ih (k + 1) r h
      refine ⟨j + 1, by omega, ?_, hn, ?_⟩
      · have e : k + (j + 1) = k + 1 + j := by omega
        rw [e]; exact hr
      · intro i hi
        cases i with
        | zero => simpa using hc
        | succ i =>
          have := hall i (by omega)
          have e : k + (i + 1) = k + 1 + i := by omega
          rw [e]; exact this
    · rw [if_neg hc] at h
      cases h
      exact ⟨0, by omega, rfl, hc, fun i hi => by omega⟩

/-- the fuel `len(used)+1` always suffices -/
theorem findFree_terminates (used : List String) (s : String) :
    ∃ r, findFree used s 0 (used.length + 1) = some r := by
  cases h : findFree used s 0 (used.length + 1) with
  | some r => exact ⟨r, rfl⟩
  | none =>
    exfalso
    have hall := findFree_none used s _ 0 h
    let cands := (List.range (used.length + 1)).map (candidate s)
    have hnd : cands.Nodup := by
      show ((List.range (used.length + 1)).map (candidate s)).Pairwise (· ≠ ·)
      rw [List.pairwise_map]
      exact List.Pairwise.imp (fun {a b} (hab : a ≠ b) e => hab (candidate_injective s e)) List.nodup_range
    have hsub : ∀ x ∈ cands, x ∈ used := by
      intro x hx
      obtain ⟨j, hj, e⟩ := List.mem_map.mp hx
      have := hall j (List.mem_range.mp hj)
      rw [Nat.zero_add] at this; rw [← e]; exact this
    have := nodup_subset_length cands used hnd hsub
    simp only [cands, List.length_map, List.length_range] at this
    omega

end TLVerif.Tool
