/-!
# Model of `internal/puregen/deconflicter.go` (C14)

`usedNames map[string]bool` only ever stores `true`, so it is modelled by the list of its keys.
The Go loop `for i := 0; d.usedNames[s+suffix]; i++ { suffix = strconv.Itoa(i) }` has no termination argument in the
source; the model runs it with fuel `len(usedNames)+1` and reports `none` if the fuel runs out — the theorem
`deconflict_terminates` shows that never happens (pigeonhole).  Core Lean only.
-/
namespace TLVerif.Tool

/-- the `k`-th name the loop tries: `s`, `s0`, `s1`, … -/
def candidate (s : String) : Nat → String
  | 0 => s
  | k + 1 => s ++ toString k

/-- the loop, started at candidate `k`, with `fuel` iterations allowed -/
def findFree (used : List String) (s : String) : Nat → Nat → Option String
  | _, 0 => none
  | k, fuel + 1 => if candidate s k ∈ used then findFree used s (k + 1) fuel else some (candidate s k)

structure Deconflicter where
  usedNames : List String
  deriving Repr

/-- `(*Deconflicter).DeconflictName`; `none` would be a non-terminating loop -/
def Deconflicter.deconflictName (d : Deconflicter) (s : String) : Option String × Deconflicter :=
  match findFree d.usedNames s 0 (d.usedNames.length + 1) with
  | some r => (some r, ⟨r :: d.usedNames⟩)
  | none => (none, d)

/-- a sequence of requests; results in order (`none` = the loop did not terminate) -/
def Deconflicter.deconflictAll (d : Deconflicter) : List String → List (Option String) × Deconflicter
  | [] => ([], d)
  | s :: rest =>
    let (r, d1) := d.deconflictName s
    let (rs, d2) := d1.deconflictAll rest
    (r :: rs, d2)

/-- `FillGolangIdentifies` -/
def golangIdentifiers : List String := ["Write", "Read", "WriteTL2", "ReadTL2"]
def Deconflicter.fillGolangIdentifies (d : Deconflicter) : Deconflicter := (d.deconflictAll golangIdentifiers).2

end TLVerif.Tool
