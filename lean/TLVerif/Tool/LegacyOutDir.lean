import TLVerif.Tool.OutDir
/-!
# Model of the legacy generator's `internal/tlcodegen/tlgen.go (*Gen2).WriteToDir` (C16)

Same shape as `OutDir.Write` (`OutDir.lean`), with these differences, all taken from the Go function:
* the marker file (`markerFile = "tlgen2_version.txt"`) is *added to the code map by `WriteToDir` itself*
  (`gen.addCodeFile(markerFile, markerContent)`); if the map already has that key the call fails ("generated twice")
  after the marker check and before anything is written;
* the files are processed sequentially (no workers); for `cpp` the "local linter" replaces tabs in `.h` / `.cpp`;
* in the stale-file loop, for `cpp`, `cppFilterFile` **exempts** some paths from deletion (`strings.HasSuffix(file, ".o")`):
  `keep p = true` means "left alone".
Core Lean only.
-/
namespace TLVerif.Tool

inductive LOutcome where
  | refused   -- "outdir not empty and has no marker file, please clean manually"
  | twice     -- "source file is generated twice" (marker key already in the code map)
  | ok
  deriving DecidableEq, Repr

structure LWriteResult where
  outcome : LOutcome
  fs : FS
  written : List Path
  deleted : List Path
  notTouched : Nat
  deriving Repr

/-- the code map as `WriteToDir` iterates it: the generator's files plus the marker entry -/
def withMarker (code : List (Path × String)) (marker : Path) (markerContent : String) : List (Path × String) :=
  code ++ [(marker, markerContent)]

def legacyWrite (fmt : Path → String → String) (keep : Path → Bool) (fs : FS) (code : List (Path × String))
    (marker : Path) (markerContent : String) : LWriteResult :=
  let rel := relativeFiles fs
  let dirs := collectedDirs fs
  if !rel.isEmpty && !(rel.contains marker) then
    { outcome := .refused, fs := fs, written := [], deleted := [], notTouched := 0 }
  else if (keys code).contains marker then
    { outcome := .twice, fs := fs, written := [], deleted := [], notTouched := 0 }
  else
    let st := (withMarker code marker markerContent).foldl (stepFile fmt)
      { fs := fs, rel := rel, written := [], notTouched := 0 }
    let del := st.rel.filter (fun p => !keep p)
    let fs2 := del.foldl (fun fs p => fs.removeFile p) st.fs
    let fs3 := pruneDirs fs2 dirs.reverse
    { outcome := .ok, fs := fs3, written := st.written, deleted := del, notTouched := st.notTouched }

/-- `cppFilterFile`: object files are left alone -/
def cppKeep (p : Path) : Bool := p.endsWith ".o"

/-- `cppRunLocalLinter` at the abstraction of content identifiers (see `fmtIds`): `t…` in a `.h`/`.cpp` file stands for
text with tabs whose expansion is `s…` -/
def fmtIdsCpp (name : Path) (c : String) : String :=
  match c.toList with
  | 't' :: rest => if name.endsWith ".h" || name.endsWith ".cpp" then String.ofList ('s' :: rest) else c
  | _ => c

inductive LStep where
  | gen (code : List (Path × String))
  | plantFile (p : Path) (c : String)
  | plantDir (d : Path)
  | rm (p : Path)
  deriving Repr

def runLegacyHistory (fmt : Path → String → String) (keep : Path → Bool) (marker mc : String) :
    FS → List LStep → FS × List LWriteResult
  | fs, [] => (fs, [])
  | fs, .gen code :: rest =>
    let r := legacyWrite fmt keep fs code marker mc
    let (fs', rs) := runLegacyHistory fmt keep marker mc r.fs rest
    (fs', r :: rs)
  | fs, .plantFile p c :: rest => runLegacyHistory fmt keep marker mc (fs.plantFile p c) rest
  | fs, .plantDir d :: rest => runLegacyHistory fmt keep marker mc (fs.plantDir d) rest
  | fs, .rm p :: rest => runLegacyHistory fmt keep marker mc (fs.removeFile p) rest

end TLVerif.Tool
