import TLVerif.Tool.RelPath
namespace TLVerif.Tool

theorem commonPrefixLen_spec (a : List String) : ∀ (b : List String),
    commonPrefixLen a b ≤ a.length ∧ commonPrefixLen a b ≤ b.length ∧
    a.take (commonPrefixLen a b) = b.take (commonPrefixLen a b) := by
  induction a with
  | nil => intro b; simp [commonPrefixLen]
  | cons x xs ih =>
    intro b
    cases b with
    | nil => simp [commonPrefixLen]
    | cons y ys =>
      unfold commonPrefixLen
      by_cases h : x = y
      · subst h
        obtain ⟨h1, h2, h3⟩ := ih ys
        simp only [if_true, List.length_cons, List.take_succ_cons, List.cons.injEq, true_and]
        exact ⟨by omega, by omega, h3⟩
      · simp [h]

end TLVerif.Tool
