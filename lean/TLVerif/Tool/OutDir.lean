/-!
# Model of `internal/puregen/outdir.go  (*OutDir).Write` over an abstract file system (C16, C15)

The file system of the sandbox is a finite map `path ↦ content` for regular files plus the set of directories
below the output directory.  Paths are written **relative to the output directory** exactly as the keys of
`OutDir.Code` are (`meta/meta.go`, `../../pkg/basictl/basictl.go`); a key that starts with `..` lies outside the
output directory (the Go code tests `strings.HasPrefix(name, "..")`).

`write` follows the Go function statement by statement:
  collectRelativePaths → marker check → per-file step (format, MkdirAll, found/delete in `relativeFiles`, compare,
  write) folded over the code map in *some* order → deletion of what is left in `relativeFiles` → removal of the
  collected directories that became empty, deepest first.
I/O errors (permission, file/directory type clashes, missing directory for a `..` key) are not modelled.
Core Lean only.
-/
namespace TLVerif.Tool

abbrev Path := String

/-- association-list lookup, first match -/
def alookup (p : Path) : List (Path × String) → Option String
  | [] => none
  | (k, v) :: t => if k = p then some v else alookup p t

structure FS where
  files : List (Path × String)   -- regular files, keyed by path relative to the output directory
  dirs : List Path               -- directories below the output directory (relative)
  deriving Repr

namespace FS
def empty : FS := ⟨[], []⟩
def lookup (fs : FS) (p : Path) : Option String := alookup p fs.files
/-- `os.WriteFile` (create or truncate) -/
def writeFile (fs : FS) (p : Path) (c : String) : FS := { fs with files := (p, c) :: fs.files.filter (fun kv => kv.1 ≠ p) }
/-- `os.Remove` of a regular file -/
def removeFile (fs : FS) (p : Path) : FS := { fs with files := fs.files.filter (fun kv => kv.1 ≠ p) }
end FS

/-- `strings.HasPrefix(name, "..")` -/
def isOutside (p : Path) : Bool := p.startsWith ".."

/-- proper ancestors of a relative path, shallowest first: `a/b/c.go ↦ [a, a/b]` -/
def ancestors (p : Path) : List Path :=
  let comps := (p.splitOn "/").dropLast
  (List.range comps.length).map fun i => "/".intercalate (comps.take (i + 1))

/-- `os.MkdirAll(filepath.Join(outdir, filepath.Dir(name)))` -/
def FS.mkdirAll (fs : FS) (name : Path) : FS :=
  { fs with dirs := (ancestors name).foldl (fun ds d => if d ∈ ds then ds else ds ++ [d]) fs.dirs }

/-- the `relativeFiles` map filled by `collectRelativePaths`: every non-directory below the output directory -/
def relativeFiles (fs : FS) : List Path := (fs.files.map (·.1)).filter (fun p => !isOutside p)

/-- is there any entry (file or directory) strictly below directory `d`? (`os.Remove` of a non-empty directory fails) -/
def hasEntryBeneath (fs : FS) (d : Path) : Bool :=
  fs.files.any (fun kv => !isOutside kv.1 && (d ++ "/").isPrefixOf kv.1) || fs.dirs.any (fun e => (d ++ "/").isPrefixOf e)

/-- the final loop `for i := len(relativeDirs)-1; i >= 0; i-- { _ = os.Remove(dir) }` -/
def pruneDirs (fs : FS) (collectedDeepestFirst : List Path) : FS :=
  collectedDeepestFirst.foldl (fun fs d =>
    if hasEntryBeneath fs d then fs else { fs with dirs := fs.dirs.filter (· ≠ d) }) fs

/-- `relativeDirs` in the order `collectRelativePaths` appends them has every directory before its descendants;
plain string order has the same property, which is all the pruning loop depends on. -/
def collectedDirs (fs : FS) : List Path := fs.dirs.mergeSort (fun a b => decide (a ≤ b))

/-- state of the concurrent per-file phase -/
structure WState where
  fs : FS
  rel : List Path        -- keys still present in the `relativeFiles` map
  written : List Path    -- write log (`os.WriteFile` calls), most recent first
  notTouched : Nat
  deriving Repr

/-- body of the `for item := range ch` loop in `goFormatCode`; `fmt name code` is `formatLint` -/
def stepFile (fmt : Path → String → String) (st : WState) (item : Path × String) : WState :=
  let name := item.1
  let code := fmt name item.2
  let fs1 := if isOutside name then st.fs else st.fs.mkdirAll name
  let found := decide (name ∈ st.rel)
  let rel' := st.rel.filter (· ≠ name)
  if found && (fs1.lookup name == some code) then
    { fs := fs1, rel := rel', written := st.written, notTouched := st.notTouched + 1 }
  else
    { fs := fs1.writeFile name code, rel := rel', written := name :: st.written, notTouched := st.notTouched }

inductive Outcome where
  | refused   -- "outdir not empty and has no marker file from previous generation"
  | ok
  deriving DecidableEq, Repr

structure WriteResult where
  outcome : Outcome
  fs : FS
  written : List Path
  deleted : List Path
  notTouched : Nat
  deriving Repr

/-- `(*OutDir).Write(opts, markerFile)`; `code` lists the entries of the `Code` map in the order the scheduler
happened to process them. -/
def write (fmt : Path → String → String) (fs : FS) (code : List (Path × String)) (marker : Path) : WriteResult :=
  let rel := relativeFiles fs
  let dirs := collectedDirs fs
  if !rel.isEmpty && !(rel.contains marker) then
    { outcome := .refused, fs := fs, written := [], deleted := [], notTouched := 0 }
  else
    let st := code.foldl (stepFile fmt) { fs := fs, rel := rel, written := [], notTouched := 0 }
    let fs2 := st.rel.foldl (fun fs p => fs.removeFile p) st.fs
    let fs3 := pruneDirs fs2 dirs.reverse
    { outcome := .ok, fs := fs3, written := st.written, deleted := st.rel, notTouched := st.notTouched }

/-- keys of a code map -/
def keys (code : List (Path × String)) : List Path := code.map (·.1)

/-! ## Histories (what the tie replays) -/

inductive Step where
  | gen (code : List (Path × String))     -- one generation
  | plantFile (p : Path) (c : String)     -- a foreign file appears (inside or outside the output directory)
  | plantDir (d : Path)                   -- a foreign (empty) directory appears below the output directory
  | rm (p : Path)                         -- a file is removed by hand (e.g. the marker)
  deriving Repr

def FS.plantFile (fs : FS) (p : Path) (c : String) : FS :=
  (if isOutside p then fs else fs.mkdirAll p).writeFile p c

def FS.plantDir (fs : FS) (d : Path) : FS :=
  let fs1 := fs.mkdirAll d
  if d ∈ fs1.dirs then fs1 else { fs1 with dirs := fs1.dirs ++ [d] }

/-- run a history; returns the final file system and the result of every generation step -/
def runHistory (fmt : Path → String → String) (marker : Path) : FS → List Step → FS × List WriteResult
  | fs, [] => (fs, [])
  | fs, .gen code :: rest =>
    let r := write fmt fs code marker
    let (fs', rs) := runHistory fmt marker r.fs rest
    (fs', r :: rs)
  | fs, .plantFile p c :: rest => runHistory fmt marker (fs.plantFile p c) rest
  | fs, .plantDir d :: rest => runHistory fmt marker (fs.plantDir d) rest
  | fs, .rm p :: rest => runHistory fmt marker (fs.removeFile p) rest

/-- `formatLint` at the abstraction of content identifiers used by the tie: for `.go` files an identifier
`u…` stands for unformatted source whose `gofmt` output is the source `f…`; for `.h`/`.cpp` an identifier `t…`
stands for text with tabs whose expansion is `s…`; everything else is already in its final form. -/
def fmtIds (name : Path) (c : String) : String :=
  match c.toList with
  | 'u' :: rest => if name.endsWith ".go" then String.ofList ('f' :: rest) else c
  | 't' :: rest => if name.endsWith ".h" || name.endsWith ".cpp" then String.ofList ('s' :: rest) else c
  | _ => c

end TLVerif.Tool
