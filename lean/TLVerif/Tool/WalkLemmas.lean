import TLVerif.Tool.Walk
/-! Lemmas about the `WalkDeterministic` model (C15). -/
namespace TLVerif.Tool
open List

theorem pairLe_trans (a b c : WalkPair) : pairLe a b = true → pairLe b c = true → pairLe a c = true := by
  simp only [pairLe, decide_eq_true_eq]; exact String.le_trans

theorem pairLe_total (a b : WalkPair) : (pairLe a b || pairLe b a) = true := by
  simp only [pairLe, Bool.or_eq_true, decide_eq_true_eq]; exact String.le_total _ _

theorem pairLe_antisymm (a b : WalkPair) : pairLe a b = true → pairLe b a = true → a.canonical = b.canonical := by
  simp only [pairLe, decide_eq_true_eq]; exact String.le_antisymm

/-- permuting the roots permutes the collected pairs (and does not change whether a walk fails) -/
theorem collectPairs_perm (listing : String → Option (List String)) (canon : String → String) (ext : String)
    {r₁ r₂ : List String} (h : r₁ ~ r₂) :
    (collectPairs listing canon ext r₁ = none ↔ collectPairs listing canon ext r₂ = none) ∧
    ∀ p₁ p₂, collectPairs listing canon ext r₁ = some p₁ → collectPairs listing canon ext r₂ = some p₂ → p₁ ~ p₂ := by
  induction h with
  | nil => exact ⟨Iff.rfl, fun p₁ p₂ h1 h2 => by simp [collectPairs] at h1 h2; subst h1; subst h2; exact Perm.refl _⟩
  | @cons x l₁ l₂ _ ih =>
    constructor
    · simp only [collectPairs]
      cases listing x with
      | none => simp
      | some f =>
        cases h1 : collectPairs listing canon ext l₁ <;> cases h2 : collectPairs listing canon ext l₂ <;> simp
        · have := ih.1.mp h1; rw [h2] at this; cases this
        · have := ih.1.mpr h2; rw [h1] at this; cases this
    · intro p₁ p₂ h1 h2
      simp only [collectPairs] at h1 h2
      cases hx : listing x with
      | none => rw [hx] at h1; cases h1
      | some f =>
        rw [hx] at h1 h2
        cases hc1 : collectPairs listing canon ext l₁ with
        | none => rw [hc1] at h1; cases h1
        | some q₁ =>
          cases hc2 : collectPairs listing canon ext l₂ with
          | none => rw [hc2] at h2; cases h2
          | some q₂ =>
            rw [hc1] at h1; rw [hc2] at h2
            simp only [Option.some.injEq] at h1 h2
            subst h1; subst h2
            exact Perm.append_left _ (ih.2 q₁ q₂ hc1 hc2)
  | swap x y l =>
    constructor
    · simp only [collectPairs]
      cases listing x <;> cases listing y <;> cases collectPairs listing canon ext l <;> simp
    · intro p₁ p₂ h1 h2
      simp only [collectPairs] at h1 h2
      cases hx : listing x with
      | none => rw [hx] at h2; cases hy : listing y <;> rw [hy] at h2 <;> simp at h2
      | some fx =>
        cases hy : listing y with
        | none => rw [hy] at h1; simp at h1
        | some fy =>
          rw [hx, hy] at h1 h2
          cases hc : collectPairs listing canon ext l with
          | none => rw [hc] at h1; simp at h1
          | some q =>
            rw [hc] at h1 h2
            simp only [Option.some.injEq] at h1 h2
            subst h1; subst h2
            rw [← List.append_assoc, ← List.append_assoc]
            exact Perm.append_right _ perm_append_comm
  | @trans l₁ l₂ l₃ _ _ ih1 ih2 =>
    constructor
    · exact ih1.1.trans ih2.1
    · intro p₁ p₃ h1 h3
      cases h2 : collectPairs listing canon ext l₂ with
      | none => have := ih1.1.mpr h2; rw [h1] at this; cases this
      | some p₂ => exact (ih1.2 p₁ p₂ h1 h2).trans (ih2.2 p₂ p₃ h2 h3)

/-- two permutations of the same pairs sort to the same list when equal canonical forms mean equal pairs -/
theorem sort_perm_eq {p₁ p₂ : List WalkPair} (h : p₁ ~ p₂)
    (hinj : ∀ a ∈ p₁, ∀ b ∈ p₁, a.canonical = b.canonical → a = b) :
    p₁.mergeSort pairLe = p₂.mergeSort pairLe := by
  apply Perm.eq_of_pairwise (le := fun a b => pairLe a b = true)
  · intro a b ha hb hab hba
    have ha' : a ∈ p₁ := mem_mergeSort.mp ha
    have hb' : b ∈ p₁ := h.symm.subset (mem_mergeSort.mp hb)
    exact hinj a ha' b hb' (pairLe_antisymm a b hab hba)
  · exact pairwise_mergeSort pairLe_trans pairLe_total p₁
  · exact pairwise_mergeSort pairLe_trans pairLe_total p₂
  · exact (mergeSort_perm p₁ pairLe).trans (h.trans (mergeSort_perm p₂ pairLe).symm)

theorem collectPairs_shape (listing : String → Option (List String)) (canon : String → String) (ext : String) :
    ∀ (roots : List String) (ps : List WalkPair), collectPairs listing canon ext roots = some ps →
      ∀ a ∈ ps, a.canonical = canon a.common := by
  intro roots
  induction roots with
  | nil => intro ps h a ha; simp [collectPairs] at h; subst h; cases ha
  | cons r rest ih =>
    intro ps h a ha
    simp only [collectPairs] at h
    cases hl : listing r with
    | none => rw [hl] at h; cases h
    | some f =>
      rw [hl] at h
      cases hc : collectPairs listing canon ext rest with
      | none => rw [hc] at h; cases h
      | some q =>
        rw [hc] at h; simp only [Option.some.injEq] at h; subst h
        rcases mem_append.mp ha with h1 | h1
        · obtain ⟨p, _, e⟩ := mem_map.mp h1; subst e; rfl
        · exact ih q hc a h1

end TLVerif.Tool
