/-!
# Model of the package name of a merged import cycle (`gengo.go generateCode`, `--split-internal` branch) (C15)

`sha := sha1.Sum([]byte(strings.Join(ins.sortedElements(), ":"))); ins.Name = "cycle_" + hex.EncodeToString(sha[:16])`
where `sortedElements` collects `goGlobalName` of `ins.Types` and `slices.Sort`s them.  `ins.Types` is in an order that
depends on Go's randomised map iteration (the order in which cycles were merged), so the name must be a function of the
*set* of types.  SHA-1 + hex is an abstract function `hash`.  Core Lean only.
-/
namespace TLVerif.Tool

/-- `sortedElements` -/
def sortedElements (types : List String) : List String := types.mergeSort (fun a b => decide (a ≤ b))

/-- `"cycle_" + hex(sha1(join(sortedElements, ":"))[:16])` -/
def cycleName (hash : String → String) (types : List String) : String :=
  "cycle_" ++ hash (":".intercalate (sortedElements types))

/-- is `p` a contiguous sub-list of `l`? (for the call-order fact) -/
def isInfixB (p : List String) : List String → Bool
  | [] => p.isEmpty
  | x :: t => (p.isPrefixOf (x :: t)) || isInfixB p t

end TLVerif.Tool
