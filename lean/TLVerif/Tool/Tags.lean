/-!
# Model of the constructor-tag collision checks (C24)

* `legacyCheckTags`  — `internal/tlcodegen/tlgen.go  checkTagCollisions(tl)`
* `kernelCheckTags`  — `internal/pure/kernel.go      (*Kernel).checkTagCollisions()`
* `parseTL2Magic`    — the magic rules of `internal/tlast/tlparser_tl2_code.go`
                       (`#00000000` is a parse error, a function must carry a magic)
* `schemaVerdict`    — what `tl2gen --language=lint` decides about the tags of a schema set.

The Go code keeps a `map[uint32]…` of the tags seen so far; only the key set matters for the
verdict, so the map is modelled by the list of its keys (`seen`).  Written loop by loop like the Go
code; core Lean only.
-/
namespace TLVerif.Tool

abbrev Tag := UInt32

/-- why a schema was refused by the tag check -/
inductive TagErr where
  | zero (idx : Nat)        -- "constructor tag 0 is prohibited, even if generated implicitly"
  | dup (tag : Tag)         -- "constructor tag #%08x is used again"
  | tl2zero (idx : Nat)     -- TL2 parser: "magic should not be 0"
  | tl2nomagic (idx : Nat)  -- TL2 parser: "function must have magic"
  deriving DecidableEq, Repr

/-- The loop over TL1 combinators, identical in both generators:
`crc32 := typ.Crc32(); if crc32 == 0 {err}; if _, ok := constructorTags[crc32]; ok {err}; constructorTags[crc32] = …` -/
def tl1Loop (seen : List Tag) (idx : Nat) : List Tag → Except TagErr (List Tag)
  | [] => .ok seen
  | t :: rest =>
    if t = 0 then .error (.zero idx)
    else if t ∈ seen then .error (.dup t)
    else tl1Loop (t :: seen) (idx + 1) rest

/-- The kernel's loop over TL2 combinators (functions and types are treated alike):
`crc32 := Magic; if crc32 != 0 { if seen {err}; constructorTags[crc32] = … }`. -/
def tl2Loop (seen : List Tag) : List Tag → Except TagErr (List Tag)
  | [] => .ok seen
  | m :: rest =>
    if m = 0 then tl2Loop seen rest
    else if m ∈ seen then .error (.dup m)
    else tl2Loop (m :: seen) rest

/-- `tlcodegen.checkTagCollisions` (legacy generator / `tlgen` linter): TL1 combinators only. -/
def legacyCheckTags (tl1 : List Tag) : Except TagErr Unit :=
  match tl1Loop [] 0 tl1 with
  | .error e => .error e
  | .ok _ => .ok ()

/-- `(*Kernel).checkTagCollisions`: all TL1 combinators of all files in order, then all TL2 combinators. -/
def kernelCheckTags (tl1 tl2 : List Tag) : Except TagErr Unit :=
  match tl1Loop [] 0 tl1 with
  | .error e => .error e
  | .ok seen =>
    match tl2Loop seen tl2 with
    | .error e => .error e
    | .ok _ => .ok ()

/-- A TL2 combinator as far as tags are concerned: is it a function, and the magic as *written*
(`none` = no `#xxxxxxxx` token). -/
structure TL2Decl where
  isFunction : Bool
  magic : Option Tag
  deriving DecidableEq, Repr

/-- TL2 parser: value stored in `Magic` (0 = absent). -/
def parseTL2Magic (idx : Nat) (d : TL2Decl) : Except TagErr Tag :=
  match d.magic with
  | some m => if m = 0 then .error (.tl2zero idx) else .ok m
  | none => if d.isFunction then .error (.tl2nomagic idx) else .ok 0

def parseTL2Magics (idx : Nat) : List TL2Decl → Except TagErr (List Tag)
  | [] => .ok []
  | d :: rest =>
    match parseTL2Magic idx d with
    | .error e => .error e
    | .ok m =>
      match parseTL2Magics (idx + 1) rest with
      | .error e => .error e
      | .ok ms => .ok (m :: ms)

/-- Tag-related verdict of `tl2gen` (any language; `lint` stops after `Kernel.Compile`) on a schema whose TL1
combinators carry the effective tags `tl1` (explicit, or CRC32 of the canonical form) and whose TL2 combinators are `tl2`:
all files are parsed first, then `Kernel.Compile` runs `checkTagCollisions`. -/
def schemaVerdict (tl1 : List Tag) (tl2 : List TL2Decl) : Except TagErr Unit :=
  match parseTL2Magics 0 tl2 with
  | .error e => .error e
  | .ok ms => kernelCheckTags tl1 ms

/-- The legacy generator (`tlgen`) fed `.tl2` files: they go through the same TL2 parser, then
`tlcodegen.checkTagCollisions(tl)` looks at the TL1 combinators only (TL2 magics are never compared).
NOT tied: at this commit the legacy generator rejects almost every TL2 input for unrelated reasons. -/
def legacySchemaVerdict (tl1 : List Tag) (tl2 : List TL2Decl) : Except TagErr Unit :=
  match parseTL2Magics 0 tl2 with
  | .error e => .error e
  | .ok _ => legacyCheckTags tl1

/-- the explicit magics of a TL2 declaration list, in order -/
def explicitMagics (tl2 : List TL2Decl) : List Tag := tl2.filterMap (·.magic)

end TLVerif.Tool
