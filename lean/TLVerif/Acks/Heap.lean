import TLVerif.Acks.Acks
/-!
# Pointer-level model of `AcksToSend.AddAckRange`

`Acks.lean` models the linked list of `ackRange` nodes as a `List Range`.  This file keeps the pointers:
a heap of nodes (`Array Node`, a pointer is an index, `nil` is `none`, `&ackRange{…}` is `push`), the
`prevRange` / `tmpRange` cursors, the in-place mutation of `tmpRange.ackFrom/ackTo`, and the two ways a link
is redirected (`a.firstRange = x` / `prevRange.next = x`).  The statements of `AddAckRange` are followed one
by one.  `HeapLemmas.lean` proves that this refines `addAckRange` (for all `uint32` inputs, no guard), and the
line-protocol driver runs *this* model, reading the list back with `toRanges`.

The `for` loops get a fuel argument (number of nodes + 1); running out of fuel is unreachable for acyclic
lists (proved in `HeapLemmas.lean`) and returns the heap unchanged.
-/
namespace TLVerif.Acks

/-- `type ackRange struct { ackFrom, ackTo uint32; next *ackRange }` -/
structure Node where
  ackFrom : Nat
  ackTo : Nat
  next : Option Nat
deriving Repr, DecidableEq, Inhabited

/-- The `AcksToSend` value together with every `ackRange` ever allocated. -/
structure Heap where
  nodes : Array Node
  first : Option Nat
  ackPrefix : Nat
deriving Repr

def Heap.empty (ackPrefix : Nat) : Heap := ⟨#[], none, ackPrefix⟩

/-- What `prevRange.next` (or `a.firstRange` when `prevRange == nil`) currently holds. -/
def Heap.link (h : Heap) : Option Nat → Option Nat
  | none => h.first
  | some pi => match h.nodes[pi]? with
    | some n => n.next
    | none => none

/-- `if prevRange == nil { a.firstRange = x } else { prevRange.next = x }` -/
def Heap.setLink (h : Heap) (prev : Option Nat) (x : Option Nat) : Heap :=
  match prev with
  | none => { h with first := x }
  | some pi => match h.nodes[pi]? with
    | some n => { h with nodes := h.nodes.setIfInBounds pi { n with next := x } }
    | none => h

/-- `tmpRange.next == nil || ackTo+1 < tmpRange.next.ackFrom` -/
def hNoIntersectNext (h : Heap) (ackTo : Nat) : Option Nat → Bool
  | none => true
  | some ni => match h.nodes[ni]? with
    | some n => inc32 ackTo < n.ackFrom
    | none => true

/-- The `for { … }` loop of `AddAckRange` with its cursors `prevRange`, `tmpRange` and the mutable `ackFrom`. -/
def hLoop (ackTo : Nat) : Nat → Heap → Option Nat → Option Nat → Nat → Heap
  | 0, h, _, _, _ => h
  | fuel + 1, h, prev, tmp, ackFrom =>
    match tmp with
    | none =>
      -- tmpRange == nil: newRange := &ackRange{ackFrom, ackTo, next: nil}; link it after prevRange
      ({ h with nodes := h.nodes.push ⟨ackFrom, ackTo, none⟩ } : Heap).setLink prev (some h.nodes.size)
    | some ti =>
      match h.nodes[ti]? with
      | none => h
      | some t =>
        if inc32 ackTo < t.ackFrom then
          ({ h with nodes := h.nodes.push ⟨ackFrom, ackTo, some ti⟩ } : Heap).setLink prev (some h.nodes.size)
        else if inc32 t.ackTo < ackFrom then
          hLoop ackTo fuel h (some ti) t.next ackFrom
        else if hNoIntersectNext h ackTo t.next then
          { h with nodes := h.nodes.setIfInBounds ti ⟨min t.ackFrom ackFrom, max t.ackTo ackTo, t.next⟩ }
        else
          hLoop ackTo fuel (h.setLink prev t.next) prev t.next (min t.ackFrom ackFrom)

/-- `for a.firstRange != nil && a.firstRange.ackFrom <= a.ackPrefix { … }` -/
def hAbsorb : Nat → Heap → Heap
  | 0, h => h
  | fuel + 1, h =>
    match h.first with
    | none => h
    | some i =>
      match h.nodes[i]? with
      | none => h
      | some n =>
        if n.ackFrom ≤ h.ackPrefix then
          hAbsorb fuel { h with ackPrefix := max h.ackPrefix (inc32 n.ackTo), first := n.next }
        else h

def hAddAckRange (h : Heap) (ackFrom ackTo : Nat) : Heap :=
  if ackFrom ≤ h.ackPrefix then
    hAbsorb (h.nodes.size + 1) { h with ackPrefix := max h.ackPrefix (inc32 ackTo) }
  else match h.first with
    | none => { h with nodes := h.nodes.push ⟨ackFrom, ackTo, none⟩, first := some h.nodes.size }
    | some _ => hLoop ackTo (h.nodes.size + 1) h none h.first ackFrom

/-- Follow the `next` pointers from `p`. -/
def toRanges (nodes : Array Node) : Nat → Option Nat → List Range
  | 0, _ => []
  | _ + 1, none => []
  | fuel + 1, some i =>
    match nodes[i]? with
    | none => []
    | some n => ⟨n.ackFrom, n.ackTo⟩ :: toRanges nodes fuel n.next

/-- The list-level view of a heap state. -/
def Heap.abs (h : Heap) : AcksToSend := ⟨h.ackPrefix, toRanges h.nodes (h.nodes.size + 1) h.first⟩

def hRun (h : Heap) (ops : List (Nat × Nat)) : Heap :=
  ops.foldl (fun s op => hAddAckRange s op.1 op.2) h

end TLVerif.Acks
