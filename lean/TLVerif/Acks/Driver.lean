import TLVerif.Util.Hex
import TLVerif.Acks.Heap
/-! Line-protocol handler for the `acks` family.

`acks.seq <prefix0> <from>:<to>,<from>:<to>,…` (`-` for no operations): start from
`AcksToSend{ackPrefix: prefix0}`, apply `AddAckRange` for every pair; the result line is `ok ` followed by the observation
after the initial state and after every operation, joined by ` ; `:
`p=<ackPrefix> r=<from>:<to>,… e=<checkInvariantsCommon errors> ap=<AckPrefix|-> ar=<AckFrom>:<AckTo>|- as=<AckSet csv|-> n=<resend ranges|->`.
-/
namespace TLVerif.Acks

def parseU32 (s : String) : Option Nat :=
  if s.isEmpty || s.length > 10 || !s.toList.all Char.isDigit then none else
  match s.toNat? with
  | some n => if n < 4294967296 then some n else none
  | none => none

def parsePair (s : String) : Option (Nat × Nat) :=
  match s.splitOn ":" with
  | [a, b] => match parseU32 a, parseU32 b with
    | some x, some y => some (x, y)
    | _, _ => none
  | _ => none

def parseOps (s : String) : Option (List (Nat × Nat)) :=
  if s == "-" then some [] else (s.splitOn ",").mapM parsePair

def showPairs (l : List (Nat × Nat)) : String :=
  if l.isEmpty then "-" else ",".intercalate (l.map fun p => s!"{p.1}:{p.2}")

def showNats (l : List Nat) : String :=
  if l.isEmpty then "-" else ",".intercalate (l.map toString)

def observe (a : AcksToSend) : String :=
  let h := buildAck a
  let ap := match h.pfx with | some p => toString p | none => "-"
  let ar := match h.range with | some (f, t) => s!"{f}:{t}" | none => "-"
  let as := match h.set with | some s => showNats s | none => "-"
  s!"p={a.ackPrefix} r={showPairs (a.ranges.map fun r => (r.ackFrom, r.ackTo))} e={checkInvariantsCommon a} ap={ap} ar={ar} as={as} n={showPairs (buildNegativeAck a)}"

/-- Runs the pointer-level model (`Heap.lean`); every observation is made on its list view `Heap.abs`
(`HeapLemmas.hRun_abs`: this is the list-level model the theorems are about). -/
def observeAll : Heap → List (Nat × Nat) → List String → List String
  | h, [], acc => (observe h.abs :: acc).reverse
  | h, op :: rest, acc => observeAll (hAddAckRange h op.1 op.2) rest (observe h.abs :: acc)

def handle (op : String) (args : List String) : String :=
  match op, args with
  | "seq", [p, o] =>
    match parseU32 p, parseOps o with
    | some p0, some ops => "ok " ++ " ; ".intercalate (observeAll (Heap.empty p0) ops [])
    | _, _ => "bad-op"
  | _, _ => "bad-op"

end TLVerif.Acks
