import TLVerif.Generated.AcksFacts
/-!
# Model of `pkg/rpc/udp/acks.go` (`AcksToSend`)

Written the way the Go code is written.  `uint32` values are `Nat`s below `2^32`; every `+1` / `-1`
of the source that can wrap is an explicit `inc32` / `dec32`.  The singly linked list of `ackRange`
nodes is a `List Range` (the `prevRange` / `tmpRange` cursor pair of `AddAckRange` is the
already-emitted prefix / the remaining suffix of the list).

Go source → model:
* `AddAckRange`                      → `addAckRange` (`absorb` = the prefix loop, `insertLoop` = the `for {}` loop)
* `HaveHoles`                        → `haveHoles`
* `BuildAck`                         → `buildAck` (`ackSetRange` = inner `for seqNum`, `ackSetLoop` = outer `for tmpRange.next != nil`)
* `BuildNegativeAck`                 → `buildNegativeAck` (`nackLoop`)
* `checkInvariantsCommon`            → `checkInvariantsCommon` (number of `onError` calls)
* `MaxAckSet`                        → `TLVerif.Facts.Acks.maxAckSet` (regenerated from the source)
-/
namespace TLVerif.Acks
open TLVerif.Facts.Acks

/-- `x + 1` on `uint32`. -/
def inc32 (x : Nat) : Nat := (x + 1) % 4294967296
/-- `x - 1` on `uint32`. -/
def dec32 (x : Nat) : Nat := (x + 4294967295) % 4294967296

/-- `type ackRange struct { ackFrom, ackTo uint32; next *ackRange }` (the `next` link is the list tail). -/
structure Range where
  ackFrom : Nat
  ackTo : Nat
deriving Repr, DecidableEq

/-- `type AcksToSend struct { ackPrefix uint32; firstRange *ackRange; … }`
(the two `…Reused` slices are scratch buffers with no observable content between calls). -/
structure AcksToSend where
  ackPrefix : Nat
  ranges : List Range
deriving Repr, DecidableEq

def empty : AcksToSend := ⟨0, []⟩

/-- The loop `for a.firstRange != nil && a.firstRange.ackFrom <= a.ackPrefix { … }`. -/
def absorb (p : Nat) : List Range → Nat × List Range
  | [] => (p, [])
  | r :: rest => if r.ackFrom ≤ p then absorb (max p (inc32 r.ackTo)) rest else (p, r :: rest)

/-- `tmpRange.next == nil || ackTo+1 < tmpRange.next.ackFrom` -/
def noIntersectNext (ackTo : Nat) : List Range → Bool
  | [] => true
  | nxt :: _ => inc32 ackTo < nxt.ackFrom

/-- The `for { … }` loop of `AddAckRange`; the argument list is `tmpRange` and everything after it,
the result is what ends up linked after `prevRange`. -/
def insertLoop (ackFrom ackTo : Nat) : List Range → List Range
  | [] => [⟨ackFrom, ackTo⟩]
  | tmp :: rest =>
    if inc32 ackTo < tmp.ackFrom then ⟨ackFrom, ackTo⟩ :: tmp :: rest
    else if inc32 tmp.ackTo < ackFrom then tmp :: insertLoop ackFrom ackTo rest
    else if noIntersectNext ackTo rest then ⟨min tmp.ackFrom ackFrom, max tmp.ackTo ackTo⟩ :: rest
    else insertLoop (min tmp.ackFrom ackFrom) ackTo rest

def addAckRange (a : AcksToSend) (ackFrom ackTo : Nat) : AcksToSend :=
  if ackFrom ≤ a.ackPrefix then
    let r := absorb (max a.ackPrefix (inc32 ackTo)) a.ranges
    ⟨r.1, r.2⟩
  else if a.ranges.isEmpty then ⟨a.ackPrefix, [⟨ackFrom, ackTo⟩]⟩
  else ⟨a.ackPrefix, insertLoop ackFrom ackTo a.ranges⟩

def haveHoles (a : AcksToSend) : Bool := !a.ranges.isEmpty

/-- The fields of `tlnetUdpPacket.EncHeader` that `BuildAck` touches, on a fresh header:
`pfx` = `PacketAckPrefix` when its flag (bit 13) is set, `range` = `PacketAckFrom/To` (bit 14),
`set` = `PacketAckSet` (bit 15). -/
structure AckHeader where
  pfx : Option Nat
  range : Option (Nat × Nat)
  set : Option (List Nat)
deriving Repr, DecidableEq

/-- `for seqNum := from; seqNum <= to && len(a.ackSetReused) < MaxAckSet; seqNum++ { append }` -/
def ackSetRange (seq ackTo : Nat) (acc : List Nat) : List Nat :=
  if seq ≤ ackTo ∧ acc.length < maxAckSet then ackSetRange (inc32 seq) ackTo (acc ++ [seq]) else acc
termination_by maxAckSet - acc.length
decreasing_by simp only [List.length_append, List.length_cons, List.length_nil]; omega

/-- `for tmpRange.next != nil { tmpRange = tmpRange.next; … }` — the argument is the list after `tmpRange`. -/
def ackSetLoop : List Range → List Nat → List Nat
  | [], acc => acc
  | r :: rest, acc => ackSetLoop rest (ackSetRange r.ackFrom r.ackTo acc)

def buildAck (a : AcksToSend) : AckHeader :=
  { pfx := if a.ackPrefix > 0 then some (dec32 a.ackPrefix) else none
    range := match a.ranges with
      | [] => none
      | r :: _ => some (r.ackFrom, r.ackTo)
    set := match a.ranges with
      | [] => none
      | _ :: rest =>
        let s := ackSetLoop rest []
        if s.length > 0 then some s else none }

/-- `for tmpRange.next != nil && len(a.nackSetReused) < MaxAckSet { append; tmpRange = tmpRange.next }` -/
def nackLoop : Range → List Range → List (Nat × Nat) → List (Nat × Nat)
  | _, [], acc => acc
  | tmp, nxt :: rest, acc =>
    if acc.length < maxAckSet then nackLoop nxt rest (acc ++ [(inc32 tmp.ackTo, dec32 nxt.ackFrom)]) else acc

/-- `req.Ranges` after `BuildNegativeAck` on a fresh `ResendRequest` (`[]` = left untouched). -/
def buildNegativeAck (a : AcksToSend) : List (Nat × Nat) :=
  match a.ranges with
  | [] => []
  | r :: rest => nackLoop r rest [(a.ackPrefix, dec32 r.ackFrom)]

/-- inner loop of `checkInvariantsCommon`: number of `onError` calls. -/
def checkLoop : Range → List Range → Nat
  | _, [] => 0
  | tmp, nxt :: rest =>
    (if tmp.ackFrom > nxt.ackTo then 1 else 0) + (if inc32 tmp.ackTo ≥ nxt.ackFrom then 1 else 0) + checkLoop nxt rest

def checkInvariantsCommon (a : AcksToSend) : Nat :=
  match a.ranges with
  | [] => 0
  | r :: rest => (if a.ackPrefix ≥ r.ackFrom then 1 else 0) + checkLoop r rest

/-- A whole history: `AddAckRange` for every `(from, to)` in order. -/
def run (a : AcksToSend) (ops : List (Nat × Nat)) : AcksToSend :=
  ops.foldl (fun s op => addAckRange s op.1 op.2) a

end TLVerif.Acks
