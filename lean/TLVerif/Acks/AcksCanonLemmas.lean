import TLVerif.Acks.AcksLemmas
/-! Helper lemmas for C37: the representation is canonical (the state is a function of the recorded set),
the prefix only grows, `HaveHoles` is exact. -/
namespace TLVerif.Acks

theorem sortedFrom_ge_head {lo : Nat} {r : Range} {rest : List Range} (hs : sortedFrom lo (r :: rest)) {n : Nat}
    (hm : memRanges (r :: rest) n) : r.ackFrom ≤ n := by
  obtain ⟨h1, h2, h3, h4⟩ := hs
  rw [memRanges_cons] at hm
  rcases hm with hm | hm
  · exact hm.1
  · have := sortedFrom_above h4 hm; omega

theorem head_mem {r : Range} (h : r.ackFrom ≤ r.ackTo) (rest : List Range) : memRanges (r :: rest) r.ackFrom :=
  (memRanges_cons ..).mpr (Or.inl ⟨Nat.le_refl _, h⟩)

/-- Two sorted, disjoint, non-adjacent range lists covering the same numbers are equal. -/
theorem ranges_unique (l1 : List Range) : ∀ (l2 : List Range) (lo1 lo2 : Nat), sortedFrom lo1 l1 → sortedFrom lo2 l2 →
    (∀ n, memRanges l1 n ↔ memRanges l2 n) → l1 = l2 := by
  induction l1 with
  | nil =>
    intro l2 lo1 lo2 _ h2 h
    cases l2 with
    | nil => rfl
    | cons r rest => exact absurd ((h r.ackFrom).mpr (head_mem h2.2.1 rest)) (by simp)
  | cons r1 t1 ih =>
    intro l2 lo1 lo2 h1 h2 h
    cases l2 with
    | nil => exact absurd ((h r1.ackFrom).mp (head_mem h1.2.1 t1)) (by simp)
    | cons r2 t2 =>
      have a1 := h1; have a2 := h2
      obtain ⟨p1, p2, p3, p4⟩ := h1
      obtain ⟨q1, q2, q3, q4⟩ := h2
      have hf : r1.ackFrom = r2.ackFrom := by
        have := sortedFrom_ge_head a2 ((h r1.ackFrom).mp (head_mem p2 t1))
        have := sortedFrom_ge_head a1 ((h r2.ackFrom).mpr (head_mem q2 t2))
        omega
      -- a number just above the shorter of the two first ranges would be in one list only
      have key : ∀ (ra rb : Range) (ta tb : List Range), ra.ackFrom = rb.ackFrom → ra.ackFrom ≤ ra.ackTo →
          sortedFrom (ra.ackTo + 1) ta → (∀ n, memRanges (rb :: tb) n → memRanges (ra :: ta) n) → ¬ ra.ackTo < rb.ackTo := by
        intro ra rb ta tb hfe hle hsa hsub hlt
        have hin : memRanges (rb :: tb) (ra.ackTo + 1) := (memRanges_cons ..).mpr (Or.inl ⟨by omega, by omega⟩)
        have := (memRanges_cons ..).mp (hsub _ hin)
        rcases this with hm | hm
        · unfold Range.mem at hm; omega
        · have := sortedFrom_above hsa hm; omega
      have ht : r1.ackTo = r2.ackTo := by
        have k1 := key r1 r2 t1 t2 hf p2 p4 (fun n hn => (h n).mpr hn)
        have k2 := key r2 r1 t2 t1 hf.symm q2 q4 (fun n hn => (h n).mp hn)
        omega
      have hr : r1 = r2 := by cases r1; cases r2; simp_all
      subst hr
      have htl : ∀ n, memRanges t1 n ↔ memRanges t2 n := by
        intro n
        constructor
        · intro hm
          have hgt := sortedFrom_above p4 hm
          have := (memRanges_cons ..).mp ((h n).mp ((memRanges_cons ..).mpr (Or.inr hm)))
          rcases this with hm' | hm'
          · unfold Range.mem at hm'; omega
          · exact hm'
        · intro hm
          have hgt := sortedFrom_above q4 hm
          have := (memRanges_cons ..).mp ((h n).mpr ((memRanges_cons ..).mpr (Or.inr hm)))
          rcases this with hm' | hm'
          · unfold Range.mem at hm'; omega
          · exact hm'
      rw [ih t2 _ _ p4 q4 htl]

/-- The representation is canonical: two states satisfying the invariant that represent the same set are equal. -/
theorem state_unique (a b : AcksToSend) (ha : Inv a) (hb : Inv b) (h : ∀ n, a.mem n ↔ b.mem n) : a = b := by
  obtain ⟨_, sa⟩ := ha
  obtain ⟨_, sb⟩ := hb
  have notmem : ∀ (x : AcksToSend), sortedFrom x.ackPrefix x.ranges → ¬ x.mem x.ackPrefix := by
    intro x sx hm
    rcases hm with hm | hm
    · omega
    · have := sortedFrom_above sx hm; omega
  have hp : a.ackPrefix = b.ackPrefix := by
    have n1 := notmem a sa
    have n2 := notmem b sb
    have : ¬ a.ackPrefix < b.ackPrefix := fun hlt => n1 ((h _).mpr (Or.inl hlt))
    have : ¬ b.ackPrefix < a.ackPrefix := fun hlt => n2 ((h _).mp (Or.inl hlt))
    omega
  have hr : a.ranges = b.ranges := by
    apply ranges_unique _ _ _ _ sa sb
    intro n
    constructor
    · intro hm
      have hgt := sortedFrom_above sa hm
      rcases (h n).mp (Or.inr hm) with h' | h'
      · omega
      · exact h'
    · intro hm
      have hgt := sortedFrom_above sb hm
      rcases (h n).mpr (Or.inr hm) with h' | h'
      · omega
      · exact h'
  cases a; cases b; simp_all

/-- `ackPrefix` never decreases. -/
theorem absorb_ge (l : List Range) : ∀ (p : Nat), p ≤ (absorb p l).1 := by
  induction l with
  | nil => intro p; simp [absorb]
  | cons r rest ih =>
    intro p
    unfold absorb
    by_cases c : r.ackFrom ≤ p
    · rw [if_pos c]; have := ih (max p (inc32 r.ackTo)); omega
    · rw [if_neg c]; exact Nat.le_refl _

theorem addAckRange_prefix_mono (a : AcksToSend) (f t : Nat) : a.ackPrefix ≤ (addAckRange a f t).ackPrefix := by
  unfold addAckRange
  by_cases c : f ≤ a.ackPrefix
  · rw [if_pos c]
    have := absorb_ge a.ranges (max a.ackPrefix (inc32 t))
    simp only; omega
  · rw [if_neg c]; split <;> exact Nat.le_refl _

theorem run_prefix_mono (ops : List (Nat × Nat)) : ∀ (a : AcksToSend), a.ackPrefix ≤ (run a ops).ackPrefix := by
  induction ops with
  | nil => intro a; exact Nat.le_refl _
  | cons op rest ih =>
    intro a
    have h1 := addAckRange_prefix_mono a op.1 op.2
    have h2 := ih (addAckRange a op.1 op.2)
    have hrun : run a (op :: rest) = run (addAckRange a op.1 op.2) rest := by simp [run]
    rw [hrun]; omega

/-- `HaveHoles` is exact: there is a range iff some unrecorded number lies below a recorded one. -/
theorem haveHoles_iff (a : AcksToSend) (hi : Inv a) :
    haveHoles a = true ↔ ∃ n m, n < m ∧ ¬ a.mem n ∧ a.mem m := by
  obtain ⟨hp, hs⟩ := hi
  unfold haveHoles
  cases hr : a.ranges with
  | nil =>
    simp only [List.isEmpty_nil, Bool.not_true, Bool.false_eq_true, false_iff, not_exists]
    intro n m ⟨hlt, hn, hm⟩
    unfold AcksToSend.mem at hn hm
    rw [hr] at hn hm
    simp only [memRanges_nil, or_false] at hn hm
    omega
  | cons r rest =>
    simp only [List.isEmpty_cons, Bool.not_false, true_iff]
    rw [hr] at hs
    refine ⟨a.ackPrefix, r.ackFrom, hs.1, ?_, ?_⟩
    · intro hm
      rcases hm with hm | hm
      · omega
      · rw [hr] at hm; have := sortedFrom_above hs hm; omega
    · right; rw [hr]; exact head_mem hs.2.1 rest

end TLVerif.Acks
