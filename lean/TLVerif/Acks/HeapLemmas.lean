import TLVerif.Acks.Heap
/-! Refinement: the pointer-level `hAddAckRange` implements the list-level `addAckRange` (all inputs, no guard). -/
namespace TLVerif.Acks

/-- `p` points to a chain of nodes at indices `idxs` holding exactly the ranges `l`, ending in `nil`. -/
def IsList (nodes : Array Node) : Option Nat → List Nat → List Range → Prop
  | p, [], [] => p = none
  | p, i :: is, r :: rs => p = some i ∧ ∃ nx, nodes[i]? = some ⟨r.ackFrom, r.ackTo, nx⟩ ∧ IsList nodes nx is rs
  | _, [], _ :: _ => False
  | _, _ :: _, [] => False

theorem IsList_frame {nodes nodes' : Array Node} : ∀ {is : List Nat} {p : Option Nat} {l : List Range},
    (∀ i ∈ is, nodes'[i]? = nodes[i]?) → IsList nodes p is l → IsList nodes' p is l := by
  intro is
  induction is with
  | nil => intro p l _ h; cases l <;> simpa [IsList] using h
  | cons i is ih =>
    intro p l hf h
    cases l with
    | nil => simp [IsList] at h
    | cons r rs =>
      obtain ⟨hp, nx, hn, hr⟩ := h
      exact ⟨hp, nx, by rw [hf i (List.mem_cons_self ..)]; exact hn, ih (fun j hj => hf j (List.mem_cons_of_mem _ hj)) hr⟩

theorem IsList_length {nodes : Array Node} : ∀ {is : List Nat} {p : Option Nat} {l : List Range},
    IsList nodes p is l → is.length = l.length := by
  intro is
  induction is with
  | nil => intro p l h; cases l with
    | nil => rfl
    | cons _ _ => simp [IsList] at h
  | cons i is ih =>
    intro p l h
    cases l with
    | nil => simp [IsList] at h
    | cons r rs => obtain ⟨_, nx, _, hr⟩ := h; simp [ih hr]

theorem toRanges_of_IsList {nodes : Array Node} : ∀ {l : List Range} {is : List Nat} {p : Option Nat} {fuel : Nat},
    IsList nodes p is l → l.length < fuel → toRanges nodes fuel p = l := by
  intro l
  induction l with
  | nil =>
    intro is p fuel h hf
    cases is with
    | nil => simp only [IsList] at h; subst h; cases fuel <;> simp [toRanges]
    | cons _ _ => simp [IsList] at h
  | cons r rs ih =>
    intro is p fuel h hf
    cases is with
    | nil => simp [IsList] at h
    | cons i is =>
      obtain ⟨hp, nx, hn, hr⟩ := h
      subst hp
      cases fuel with
      | zero => simp at hf
      | succ fuel =>
        simp only [toRanges, hn]
        rw [ih hr (by simpa using hf)]

/-! ### `setLink` -/

theorem setLink_none (h : Heap) (x : Option Nat) : h.setLink none x = { h with first := x } := rfl
theorem setLink_some_some (h : Heap) (pi : Nat) (x : Option Nat) (n : Node) (hn : h.nodes[pi]? = some n) :
    h.setLink (some pi) x = { h with nodes := h.nodes.setIfInBounds pi { n with next := x } } := by
  simp only [Heap.setLink, hn]
theorem setLink_some_none (h : Heap) (pi : Nat) (x : Option Nat) (hn : h.nodes[pi]? = none) :
    h.setLink (some pi) x = h := by
  simp only [Heap.setLink, hn]

theorem setLink_size (h : Heap) (prev x : Option Nat) : (h.setLink prev x).nodes.size = h.nodes.size := by
  cases prev with
  | none => rfl
  | some pi =>
    cases hn : h.nodes[pi]? with
    | none => rw [setLink_some_none h pi x hn]
    | some n => rw [setLink_some_some h pi x n hn]; simp

theorem setLink_pfx (h : Heap) (prev x : Option Nat) : (h.setLink prev x).ackPrefix = h.ackPrefix := by
  cases prev with
  | none => rfl
  | some pi =>
    cases hn : h.nodes[pi]? with
    | none => rw [setLink_some_none h pi x hn]
    | some n => rw [setLink_some_some h pi x n hn]

theorem setLink_first (h : Heap) (pi : Nat) (x : Option Nat) : (h.setLink (some pi) x).first = h.first := by
  cases hn : h.nodes[pi]? with
  | none => rw [setLink_some_none h pi x hn]
  | some n => rw [setLink_some_some h pi x n hn]

theorem setLink_get_ne (h : Heap) (prev x : Option Nat) (j : Nat) (hj : prev ≠ some j) :
    (h.setLink prev x).nodes[j]? = h.nodes[j]? := by
  cases prev with
  | none => rfl
  | some pi =>
    cases hn : h.nodes[pi]? with
    | none => rw [setLink_some_none h pi x hn]
    | some n =>
      rw [setLink_some_some h pi x n hn]
      simp only
      rw [Array.getElem?_setIfInBounds_ne (by intro he; exact hj (by rw [he]))]

theorem lt_size_of_get {nodes : Array Node} {i : Nat} {n : Node} (hn : nodes[i]? = some n) : i < nodes.size := by
  apply Classical.byContradiction; intro hc
  rw [Array.getElem?_eq_none (by omega)] at hn; simp at hn

theorem setLink_get_self (h : Heap) (pi : Nat) (x : Option Nat) (n : Node) (hn : h.nodes[pi]? = some n) :
    (h.setLink (some pi) x).nodes[pi]? = some { n with next := x } := by
  rw [setLink_some_some h pi x n hn]
  simp only
  rw [Array.getElem?_setIfInBounds_self, if_pos (lt_size_of_get hn)]

/-- After redirecting the link of a valid `prev`, that link holds the new value. -/
theorem link_setLink (h : Heap) (prev x : Option Nat) (hv : ∀ pi, prev = some pi → pi < h.nodes.size) :
    (h.setLink prev x).link prev = x := by
  cases prev with
  | none => rfl
  | some pi =>
    have hlt := hv pi rfl
    obtain ⟨n, hn⟩ : ∃ n, h.nodes[pi]? = some n := ⟨h.nodes[pi], by simp [hlt]⟩
    unfold Heap.link
    simp only [setLink_get_self h pi x n hn]

theorem push_get_lt {nodes : Array Node} {i : Nat} (x : Node) (h : i < nodes.size) : (nodes.push x)[i]? = nodes[i]? := by
  rw [Array.getElem?_push, if_neg (by omega)]

theorem get_of_lt {nodes : Array Node} {i : Nat} (h : i < nodes.size) : ∃ n, nodes[i]? = some n :=
  ⟨nodes[i], by simp [h]⟩

/-! ### The insertion loop -/

/-- What one run of the loop from cursor state `(prev, tmp)` guarantees: the chain hanging off `prev`'s link now holds `l'`;
nothing outside the visited chain and `prev`'s link changed. -/
structure Post (h h' : Heap) (prev : Option Nat) (idxs : List Nat) (l' : List Range) : Prop where
  ex : ∃ idxs', IsList h'.nodes (h'.link prev) idxs' l' ∧ idxs'.Nodup ∧ (∀ i ∈ idxs', i ∈ idxs ∨ h.nodes.size ≤ i) ∧
        (∀ i ∈ idxs', i < h'.nodes.size) ∧ idxs'.length + h.nodes.size ≤ idxs.length + h'.nodes.size
  size_le : h.nodes.size ≤ h'.nodes.size
  frame : ∀ j, j ∉ idxs → j < h.nodes.size → prev ≠ some j → h'.nodes[j]? = h.nodes[j]?
  prevKeep : ∀ pi, prev = some pi → ∃ n n', h.nodes[pi]? = some n ∧ h'.nodes[pi]? = some n' ∧
    n'.ackFrom = n.ackFrom ∧ n'.ackTo = n.ackTo
  pfx : h'.ackPrefix = h.ackPrefix
  firstKeep : prev ≠ none → h'.first = h.first

theorem post_new (h : Heap) (prev p : Option Nat) (idxs : List Nat) (l : List Range) (f t : Nat)
    (hl : IsList h.nodes p idxs l) (nd : idxs.Nodup) (hb : ∀ i ∈ idxs, i < h.nodes.size)
    (hv : ∀ pi, prev = some pi → pi < h.nodes.size ∧ pi ∉ idxs) :
    Post h (({ h with nodes := h.nodes.push ⟨f, t, p⟩ } : Heap).setLink prev (some h.nodes.size)) prev idxs (⟨f, t⟩ :: l) := by
  generalize hh1 : ({ h with nodes := h.nodes.push ⟨f, t, p⟩ } : Heap) = h1
  have s1 : h1.nodes.size = h.nodes.size + 1 := by subst hh1; simp
  have g1 : ∀ i, i < h.nodes.size → h1.nodes[i]? = h.nodes[i]? := by
    intro i hi; subst hh1; exact push_get_lt _ hi
  have g2 : h1.nodes[h.nodes.size]? = some ⟨f, t, p⟩ := by subst hh1; exact Array.getElem?_push_size
  have p1 : h1.ackPrefix = h.ackPrefix := by subst hh1; rfl
  have f1 : h1.first = h.first := by subst hh1; rfl
  have hne : prev ≠ some h.nodes.size := by
    intro he; have := (hv _ he).1; omega
  have gj : ∀ j, j < h.nodes.size → prev ≠ some j → (h1.setLink prev (some h.nodes.size)).nodes[j]? = h.nodes[j]? := by
    intro j hj hpj; rw [setLink_get_ne h1 prev _ j hpj, g1 j hj]
  refine ⟨⟨h.nodes.size :: idxs, ?_, ?_, ?_, ?_, ?_⟩, ?_, ?_, ?_, ?_, ?_⟩
  · refine ⟨?_, p, ?_, ?_⟩
    · exact link_setLink h1 prev _ (fun pi hp => by have := (hv pi hp).1; omega)
    · rw [setLink_get_ne h1 prev _ _ hne, g2]
    · refine IsList_frame (fun i hi => ?_) hl
      exact gj i (hb i hi) (fun he => (hv i he).2 hi)
  · exact List.nodup_cons.mpr ⟨fun hm => by have := hb _ hm; omega, nd⟩
  · intro i hi
    rcases List.mem_cons.mp hi with he | he
    · right; omega
    · left; exact he
  · intro i hi
    rw [setLink_size, s1]
    rcases List.mem_cons.mp hi with he | he
    · omega
    · have := hb i he; omega
  · rw [setLink_size, s1]; simp only [List.length_cons]; omega
  · rw [setLink_size, s1]; omega
  · intro j _ hj hpj; exact gj j hj hpj
  · intro pi hp
    obtain ⟨n, hn⟩ := get_of_lt (hv pi hp).1
    refine ⟨n, { n with next := some h.nodes.size }, hn, ?_, rfl, rfl⟩
    subst hp
    exact setLink_get_self h1 pi _ n (by rw [g1 pi (hv pi rfl).1, hn])
  · rw [setLink_pfx, p1]
  · intro hp
    cases prev with
    | none => exact absurd rfl hp
    | some pi => rw [setLink_first, f1]

theorem hNoIntersectNext_eq (h : Heap) (ackTo : Nat) (nx : Option Nat) (is : List Nat) (rest : List Range)
    (hl : IsList h.nodes nx is rest) : hNoIntersectNext h ackTo nx = noIntersectNext ackTo rest := by
  cases rest with
  | nil =>
    cases is with
    | nil => simp only [IsList] at hl; subst hl; rfl
    | cons _ _ => simp [IsList] at hl
  | cons r rs =>
    cases is with
    | nil => simp [IsList] at hl
    | cons i is =>
      obtain ⟨hp, nx', hn, _⟩ := hl
      subst hp
      simp only [hNoIntersectNext, hn, noIntersectNext]

theorem hLoop_spec (ackTo : Nat) (l : List Range) : ∀ (fuel : Nat) (h : Heap) (prev p : Option Nat) (idxs : List Nat) (ackFrom : Nat),
    IsList h.nodes p idxs l → idxs.Nodup → (∀ i ∈ idxs, i < h.nodes.size) → l.length < fuel → h.link prev = p →
    (∀ pi, prev = some pi → pi < h.nodes.size ∧ pi ∉ idxs) →
    Post h (hLoop ackTo fuel h prev p ackFrom) prev idxs (insertLoop ackFrom ackTo l) := by
  induction l with
  | nil =>
    intro fuel h prev p idxs ackFrom hl nd hb hf hlink hv
    cases idxs with
    | cons _ _ => simp [IsList] at hl
    | nil =>
      have hp : p = none := by simpa [IsList] using hl
      subst hp
      cases fuel with
      | zero => simp at hf
      | succ fuel =>
        simp only [hLoop, insertLoop]
        exact post_new h prev none [] [] ackFrom ackTo hl nd hb hv
  | cons tmp rest ih =>
    intro fuel h prev p idxs ackFrom hl nd hb hf hlink hv
    cases idxs with
    | nil => simp [IsList] at hl
    | cons ti is =>
      have hl0 := hl
      obtain ⟨hp, nx, hn, hr⟩ := hl
      subst hp
      obtain ⟨hti, ndis⟩ := List.nodup_cons.mp nd
      have hbti : ti < h.nodes.size := hb ti (List.mem_cons_self ..)
      have hbis : ∀ i ∈ is, i < h.nodes.size := fun i hi => hb i (List.mem_cons_of_mem _ hi)
      cases fuel with
      | zero => simp at hf
      | succ fuel =>
        have hf' : rest.length < fuel := by simpa using hf
        simp only [hLoop, hn, insertLoop]
        by_cases c1 : inc32 ackTo < tmp.ackFrom
        · rw [if_pos c1, if_pos c1]
          exact post_new h prev (some ti) (ti :: is) (tmp :: rest) ackFrom ackTo hl0 nd hb hv
        · rw [if_neg c1, if_neg c1]
          by_cases c2 : inc32 tmp.ackTo < ackFrom
          · rw [if_pos c2, if_pos c2]
            -- advance: prevRange = tmpRange; tmpRange = tmpRange.next
            have hlink' : h.link (some ti) = nx := by simp only [Heap.link, hn]
            have hv' : ∀ pi, some ti = some pi → pi < h.nodes.size ∧ pi ∉ is := by
              intro pi he; cases he; exact ⟨hbti, hti⟩
            have P := ih fuel h (some ti) nx is ackFrom hr ndis hbis hf' hlink' hv'
            generalize hLoop ackTo fuel h (some ti) nx ackFrom = h' at P
            obtain ⟨is', e1, e2, e3, e4, e5⟩ := P.ex
            obtain ⟨n0, n', k1, k2, k3, k4⟩ := P.prevKeep ti rfl
            rw [hn] at k1; cases k1
            have hprev_same : ∀ pi, prev = some pi → h'.nodes[pi]? = h.nodes[pi]? := by
              intro pi hpp
              have := hv pi hpp
              exact P.frame pi (fun hm => this.2 (List.mem_cons_of_mem _ hm)) this.1
                (fun he => by cases he; exact this.2 (List.mem_cons_self ..))
            refine ⟨⟨ti :: is', ?_, ?_, ?_, ?_, ?_⟩, P.size_le, ?_, ?_, P.pfx, ?_⟩
            · refine ⟨?_, n'.next, ?_, ?_⟩
              · cases prev with
                | none =>
                  show h'.first = some ti
                  rw [P.firstKeep (by simp)]; exact hlink
                | some pi =>
                  simp only [Heap.link, hprev_same pi rfl]
                  simpa only [Heap.link] using hlink
              · rw [k2]; cases n'; simp_all
              · simpa only [Heap.link, k2] using e1
            · refine List.nodup_cons.mpr ⟨fun hm => ?_, e2⟩
              rcases e3 ti hm with h1 | h1
              · exact hti h1
              · omega
            · intro i hi
              rcases List.mem_cons.mp hi with he | he
              · left; rw [he]; exact List.mem_cons_self ..
              · rcases e3 i he with h1 | h1
                · left; exact List.mem_cons_of_mem _ h1
                · right; exact h1
            · intro i hi
              rcases List.mem_cons.mp hi with he | he
              · rw [he]; have := P.size_le; omega
              · exact e4 i he
            · simp only [List.length_cons]; omega
            · intro j hj hjs hpj
              exact P.frame j (fun hm => hj (List.mem_cons_of_mem _ hm)) hjs
                (fun he => by cases he; exact hj (List.mem_cons_self ..))
            · intro pi hpp
              obtain ⟨n, hnn⟩ := get_of_lt (hv pi hpp).1
              exact ⟨n, n, hnn, by rw [hprev_same pi hpp, hnn], rfl, rfl⟩
            · intro hpp
              cases prev with
              | none => exact absurd rfl hpp
              | some pi => exact P.firstKeep (by simp)
          · rw [if_neg c2, if_neg c2]
            rw [hNoIntersectNext_eq h ackTo nx is rest hr]
            by_cases c3 : noIntersectNext ackTo rest = true
            · rw [if_pos c3, if_pos c3]
              -- in-place: tmpRange.ackFrom = min(…); tmpRange.ackTo = max(…)
              have gne : ∀ j, j ≠ ti → (h.nodes.setIfInBounds ti
                  ⟨min tmp.ackFrom ackFrom, max tmp.ackTo ackTo, nx⟩)[j]? = h.nodes[j]? := by
                intro j hj; exact Array.getElem?_setIfInBounds_ne (fun he => hj he.symm)
              have hpne : ∀ pi, prev = some pi → pi ≠ ti := by
                intro pi hpp he; exact (hv pi hpp).2 (by rw [he]; exact List.mem_cons_self ..)
              refine ⟨⟨ti :: is, ?_, nd, fun i hi => Or.inl hi, ?_, ?_⟩, ?_, ?_, ?_, rfl, fun _ => rfl⟩
              · refine ⟨?_, nx, ?_, ?_⟩
                · cases prev with
                  | none => exact hlink
                  | some pi =>
                    simp only [Heap.link, gne pi (hpne pi rfl)]
                    simpa only [Heap.link] using hlink
                · simp only
                  rw [Array.getElem?_setIfInBounds_self, if_pos hbti]
                · exact IsList_frame (fun i hi => gne i (fun he => hti (by rw [← he]; exact hi))) hr
              · intro i hi; simp only [Array.size_setIfInBounds]; exact hb i hi
              · simp only [Array.size_setIfInBounds]; omega
              · simp only [Array.size_setIfInBounds]; omega
              · intro j hj _ _
                exact gne j (fun he => hj (by rw [he]; exact List.mem_cons_self ..))
              · intro pi hpp
                obtain ⟨n, hnn⟩ := get_of_lt (hv pi hpp).1
                exact ⟨n, n, hnn, by simp only; rw [gne pi (hpne pi hpp), hnn], rfl, rfl⟩
            · rw [if_neg c3, if_neg c3]
              -- unlink tmpRange and continue with the widened ackFrom
              have hvalid : ∀ pi, prev = some pi → pi < h.nodes.size := fun pi hpp => (hv pi hpp).1
              have hlink1 : (h.setLink prev nx).link prev = nx := link_setLink h prev nx hvalid
              have g1 : ∀ j, prev ≠ some j → (h.setLink prev nx).nodes[j]? = h.nodes[j]? :=
                fun j hj => setLink_get_ne h prev nx j hj
              have hr1 : IsList (h.setLink prev nx).nodes nx is rest :=
                IsList_frame (fun i hi => g1 i (fun he => (hv i he).2 (List.mem_cons_of_mem _ hi))) hr
              have hbis1 : ∀ i ∈ is, i < (h.setLink prev nx).nodes.size := by
                intro i hi; rw [setLink_size]; exact hbis i hi
              have hv1 : ∀ pi, prev = some pi → pi < (h.setLink prev nx).nodes.size ∧ pi ∉ is := by
                intro pi hpp; rw [setLink_size]
                exact ⟨(hv pi hpp).1, fun hm => (hv pi hpp).2 (List.mem_cons_of_mem _ hm)⟩
              have P := ih fuel (h.setLink prev nx) prev nx is (min tmp.ackFrom ackFrom) hr1 ndis hbis1 hf' hlink1 hv1
              generalize hLoop ackTo fuel (h.setLink prev nx) prev nx (min tmp.ackFrom ackFrom) = h' at P
              obtain ⟨is', e1, e2, e3, e4, e5⟩ := P.ex
              rw [setLink_size] at e3 e5
              have hsz := P.size_le
              rw [setLink_size] at hsz
              refine ⟨⟨is', e1, e2, ?_, e4, ?_⟩, hsz, ?_, ?_, ?_, ?_⟩
              · intro i hi
                rcases e3 i hi with h1 | h1
                · left; exact List.mem_cons_of_mem _ h1
                · right; exact h1
              · simp only [List.length_cons]; omega
              · intro j hj hjs hpj
                rw [P.frame j (fun hm => hj (List.mem_cons_of_mem _ hm)) (by rw [setLink_size]; exact hjs) hpj]
                exact g1 j hpj
              · intro pi hpp
                obtain ⟨n1, n', k1, k2, k3, k4⟩ := P.prevKeep pi hpp
                obtain ⟨n, hnn⟩ := get_of_lt (hv pi hpp).1
                subst hpp
                rw [setLink_get_self h pi nx n hnn] at k1
                cases k1
                exact ⟨n, n', hnn, k2, k3, k4⟩
              · rw [P.pfx, setLink_pfx]
              · intro hpp
                cases prev with
                | none => exact absurd rfl hpp
                | some pi => rw [P.firstKeep (by simp), setLink_first]

/-! ### The prefix loop -/

theorem hAbsorb_spec (l : List Range) : ∀ (fuel : Nat) (h : Heap) (idxs : List Nat),
    IsList h.nodes h.first idxs l → l.length < fuel →
    (hAbsorb fuel h).nodes = h.nodes ∧ (hAbsorb fuel h).ackPrefix = (absorb h.ackPrefix l).1 ∧
    ∃ k, IsList h.nodes (hAbsorb fuel h).first (idxs.drop k) (absorb h.ackPrefix l).2 := by
  induction l with
  | nil =>
    intro fuel h idxs hl hf
    cases idxs with
    | cons _ _ => simp [IsList] at hl
    | nil =>
      have hp : h.first = none := by simpa [IsList] using hl
      cases fuel with
      | zero => simp at hf
      | succ fuel =>
        simp only [hAbsorb, hp, absorb]
        exact ⟨trivial, trivial, 0, by simp [IsList]⟩
  | cons r rest ih =>
    intro fuel h idxs hl hf
    cases idxs with
    | nil => simp [IsList] at hl
    | cons i is =>
      have hl0 := hl
      obtain ⟨hp, nx, hn, hr⟩ := hl
      cases fuel with
      | zero => simp at hf
      | succ fuel =>
        simp only [hAbsorb, hp, hn, absorb]
        by_cases c : r.ackFrom ≤ h.ackPrefix
        · rw [if_pos c, if_pos c]
          obtain ⟨i1, i2, k, i3⟩ := ih fuel { h with ackPrefix := max h.ackPrefix (inc32 r.ackTo), first := nx } is hr
            (by simpa using hf)
          exact ⟨i1, i2, k + 1, by simpa using i3⟩
        · rw [if_neg c, if_neg c]
          exact ⟨rfl, rfl, 0, by simpa [hp] using hl0⟩

/-! ### Refinement -/

/-- The heap holds the list `l`: an acyclic chain of distinct, allocated nodes from `first`. -/
def HeapInv (h : Heap) (l : List Range) : Prop :=
  ∃ idxs, IsList h.nodes h.first idxs l ∧ idxs.Nodup ∧ (∀ i ∈ idxs, i < h.nodes.size) ∧ idxs.length ≤ h.nodes.size

theorem heapInv_empty (p : Nat) : HeapInv (Heap.empty p) [] := ⟨[], by simp [IsList, Heap.empty], by simp, by simp, by simp⟩

theorem abs_of_heapInv (h : Heap) (l : List Range) (hi : HeapInv h l) : h.abs = ⟨h.ackPrefix, l⟩ := by
  obtain ⟨idxs, h1, _, _, h4⟩ := hi
  unfold Heap.abs
  rw [toRanges_of_IsList h1 (by rw [← IsList_length h1]; omega)]

theorem hAddAckRange_refines (h : Heap) (l : List Range) (f t : Nat) (hi : HeapInv h l) :
    HeapInv (hAddAckRange h f t) (addAckRange ⟨h.ackPrefix, l⟩ f t).ranges ∧
    (hAddAckRange h f t).ackPrefix = (addAckRange ⟨h.ackPrefix, l⟩ f t).ackPrefix := by
  obtain ⟨idxs, h1, h2, h3, h4⟩ := hi
  have hlen := IsList_length h1
  unfold hAddAckRange addAckRange
  by_cases c : f ≤ h.ackPrefix
  · simp only [if_pos c]
    obtain ⟨a1, a2, k, a3⟩ := hAbsorb_spec l (h.nodes.size + 1) { h with ackPrefix := max h.ackPrefix (inc32 t) } idxs h1
      (by omega)
    refine ⟨⟨idxs.drop k, ?_, ?_, ?_, ?_⟩, a2⟩
    · rw [a1]; exact a3
    · exact List.Nodup.sublist (List.drop_sublist k idxs) h2
    · intro i hi; rw [a1]; exact h3 i (List.mem_of_mem_drop hi)
    · rw [a1]; simp only [List.length_drop]; omega
  · simp only [if_neg c]
    cases hf : h.first with
    | none =>
      rw [hf] at h1
      have hl : l = [] := by
        cases idxs with
        | nil => cases l with
          | nil => rfl
          | cons _ _ => simp [IsList] at h1
        | cons _ _ => cases l <;> simp [IsList] at h1
      subst hl
      simp only [List.isEmpty_nil, if_true]
      refine ⟨⟨[h.nodes.size], ?_, by simp, ?_, by simp⟩, trivial⟩
      · exact ⟨rfl, none, by simp, by simp [IsList]⟩
      · intro i hi; simp only [List.mem_singleton] at hi; subst hi; simp
    | some fi =>
      have hne : l.isEmpty = false := by
        cases l with
        | nil => cases idxs <;> simp [IsList, hf] at h1
        | cons _ _ => rfl
      simp only [hne, Bool.false_eq_true, if_false]
      have P := hLoop_spec t l (h.nodes.size + 1) h none h.first idxs f h1 h2 h3 (by omega) rfl (by simp)
      rw [hf] at P
      generalize hLoop t (h.nodes.size + 1) h none (some fi) f = h' at P
      obtain ⟨is', e1, e2, _, e4, e5⟩ := P.ex
      exact ⟨⟨is', e1, e2, e4, by omega⟩, P.pfx⟩

theorem hRun_refines (ops : List (Nat × Nat)) : ∀ (h : Heap) (l : List Range), HeapInv h l →
    HeapInv (hRun h ops) (run ⟨h.ackPrefix, l⟩ ops).ranges ∧ (hRun h ops).ackPrefix = (run ⟨h.ackPrefix, l⟩ ops).ackPrefix := by
  induction ops with
  | nil => intro h l hi; exact ⟨hi, rfl⟩
  | cons op rest ih =>
    intro h l hi
    obtain ⟨s1, s2⟩ := hAddAckRange_refines h l op.1 op.2 hi
    have := ih (hAddAckRange h op.1 op.2) _ s1
    have e : (⟨(hAddAckRange h op.1 op.2).ackPrefix, (addAckRange ⟨h.ackPrefix, l⟩ op.1 op.2).ranges⟩ : AcksToSend) =
        addAckRange ⟨h.ackPrefix, l⟩ op.1 op.2 := by rw [s2]
    rw [e] at this
    simpa [hRun, run] using this

/-- The pointer-level model, read back as a list, is the list-level model — for every history, no guard. -/
theorem hRun_abs (p0 : Nat) (ops : List (Nat × Nat)) : (hRun (Heap.empty p0) ops).abs = run ⟨p0, []⟩ ops := by
  obtain ⟨r1, r2⟩ := hRun_refines ops (Heap.empty p0) [] (heapInv_empty p0)
  rw [abs_of_heapInv _ _ r1, r2]
  rfl

end TLVerif.Acks
