import TLVerif.Acks.Acks
/-! Helper lemmas for C37: invariant and set semantics of `addAckRange`. -/
namespace TLVerif.Acks
open TLVerif.Facts.Acks

/-- `omega` after reducing structure projections. -/
macro "domega" : tactic => `(tactic| ((try dsimp only) <;> omega))

theorem inc32_of_lt {x : Nat} (h : x < 4294967295) : inc32 x = x + 1 := by unfold inc32; omega
theorem dec32_of_pos {x : Nat} (h : 0 < x) (h2 : x < 4294967296) : dec32 x = x - 1 := by unfold dec32; omega

/-- `n` is covered by the inclusive range. -/
def Range.mem (r : Range) (n : Nat) : Prop := r.ackFrom ≤ n ∧ n ≤ r.ackTo
def memRanges (l : List Range) (n : Nat) : Prop := ∃ r ∈ l, r.mem n
/-- The set the data structure represents: everything below the prefix plus the ranges. -/
def AcksToSend.mem (a : AcksToSend) (n : Nat) : Prop := n < a.ackPrefix ∨ memRanges a.ranges n

/-- Ranges start strictly above `lo`, are non-empty, wrap-free, sorted, disjoint and non-adjacent. -/
def sortedFrom (lo : Nat) : List Range → Prop
  | [] => True
  | r :: rest => lo < r.ackFrom ∧ r.ackFrom ≤ r.ackTo ∧ r.ackTo < 4294967295 ∧ sortedFrom (r.ackTo + 1) rest

instance decSortedFrom : (lo : Nat) → (l : List Range) → Decidable (sortedFrom lo l)
  | _, [] => isTrue trivial
  | lo, r :: rest => by
    unfold sortedFrom
    have := decSortedFrom (r.ackTo + 1) rest
    exact inferInstance

/-- The invariant of `AcksToSend`: prefix < first.from; ranges sorted, disjoint, non-adjacent (and wrap-free). -/
def Inv (a : AcksToSend) : Prop := a.ackPrefix ≤ 4294967295 ∧ sortedFrom a.ackPrefix a.ranges

instance (a : AcksToSend) : Decidable (Inv a) := by unfold Inv; exact inferInstance

@[simp] theorem memRanges_nil (n : Nat) : memRanges [] n ↔ False := by simp [memRanges]
@[simp] theorem memRanges_cons (r : Range) (l : List Range) (n : Nat) :
    memRanges (r :: l) n ↔ (r.mem n ∨ memRanges l n) := by simp [memRanges]

theorem sortedFrom_weaken {lo lo' : Nat} {l : List Range} (h : sortedFrom lo l) (hl : lo' ≤ lo) : sortedFrom lo' l := by
  cases l with
  | nil => trivial
  | cons r rest => obtain ⟨h1, h2, h3, h4⟩ := h; exact ⟨by omega, h2, h3, h4⟩

theorem sortedFrom_above {l : List Range} : ∀ {lo n : Nat}, sortedFrom lo l → memRanges l n → lo < n := by
  induction l with
  | nil => intro lo n _ h; simp at h
  | cons r rest ih =>
    intro lo n hs hm
    obtain ⟨h1, h2, h3, h4⟩ := hs
    rw [memRanges_cons] at hm
    rcases hm with hm | hm
    · unfold Range.mem at hm; omega
    · have := ih h4 hm; omega

theorem insertLoop_spec (l : List Range) : ∀ (lo f t : Nat), sortedFrom lo l → lo < f → f ≤ t → t < 4294967295 →
    sortedFrom lo (insertLoop f t l) ∧ ∀ n, memRanges (insertLoop f t l) n ↔ (memRanges l n ∨ (f ≤ n ∧ n ≤ t)) := by
  induction l with
  | nil =>
    intro lo f t _ hlo hft ht
    simp [insertLoop, sortedFrom, Range.mem]
    omega
  | cons tmp rest ih =>
    intro lo f t hs hlo hft ht
    obtain ⟨h1, h2, h3, h4⟩ := hs
    unfold insertLoop
    rw [inc32_of_lt ht, inc32_of_lt h3]
    by_cases c1 : t + 1 < tmp.ackFrom
    · rw [if_pos c1]
      refine ⟨⟨hlo, hft, ht, by omega, h2, h3, h4⟩, fun n => ?_⟩
      simp only [memRanges_cons, Range.mem]
      by_cases hp : memRanges rest n <;> simp only [hp, or_true, true_or, or_false, false_or] <;> omega
    · rw [if_neg c1]
      by_cases c2 : tmp.ackTo + 1 < f
      · rw [if_pos c2]
        obtain ⟨ih1, ih2⟩ := ih (tmp.ackTo + 1) f t h4 c2 hft ht
        refine ⟨⟨h1, h2, h3, ih1⟩, fun n => ?_⟩
        simp only [memRanges_cons, ih2, Range.mem]
        by_cases hp : memRanges rest n <;> simp only [hp, or_true, true_or, or_false, false_or] <;> omega
      · rw [if_neg c2]
        cases rest with
        | nil =>
          simp only [noIntersectNext, if_true]
          refine ⟨⟨by domega, by domega, by domega, trivial⟩, fun n => ?_⟩
          simp only [memRanges_cons, memRanges_nil, Range.mem, or_false]
          omega
        | cons nxt rest2 =>
          obtain ⟨g1, g2, g3, g4⟩ := h4
          simp only [noIntersectNext, inc32_of_lt ht, decide_eq_true_eq]
          by_cases c3 : t + 1 < nxt.ackFrom
          · rw [if_pos c3]
            refine ⟨⟨by domega, by domega, by domega, by domega, g2, g3, g4⟩, fun n => ?_⟩
            simp only [memRanges_cons, Range.mem]
            by_cases hp : memRanges rest2 n <;> simp only [hp, or_true, true_or, or_false, false_or] <;> omega
          · rw [if_neg c3]
            have hs' : sortedFrom lo (nxt :: rest2) := ⟨by omega, g2, g3, g4⟩
            obtain ⟨ih1, ih2⟩ := ih lo (min tmp.ackFrom f) t hs' (by omega) (by omega) ht
            refine ⟨ih1, fun n => ?_⟩
            rw [ih2]
            simp only [memRanges_cons, Range.mem]
            by_cases hp : memRanges rest2 n <;> simp only [hp, or_true, true_or, or_false, false_or] <;> omega

theorem absorb_spec (l : List Range) : ∀ (lo p : Nat), sortedFrom lo l → lo ≤ p → p ≤ 4294967295 →
    sortedFrom (absorb p l).1 (absorb p l).2 ∧ p ≤ (absorb p l).1 ∧ (absorb p l).1 ≤ 4294967295 ∧
    ∀ n, (n < (absorb p l).1 ∨ memRanges (absorb p l).2 n) ↔ (n < p ∨ memRanges l n) := by
  induction l with
  | nil => intro lo p _ _ hp; simp [absorb, sortedFrom, hp]
  | cons r rest ih =>
    intro lo p hs hlo hp
    obtain ⟨h1, h2, h3, h4⟩ := hs
    unfold absorb
    by_cases c : r.ackFrom ≤ p
    · rw [if_pos c, inc32_of_lt h3]
      obtain ⟨i1, i2, i3, i4⟩ := ih (r.ackTo + 1) (max p (r.ackTo + 1)) h4 (by omega) (by omega)
      refine ⟨i1, by omega, i3, fun n => ?_⟩
      rw [i4]
      simp only [memRanges_cons, Range.mem]
      by_cases hp : memRanges rest n <;> simp only [hp, or_true, true_or, or_false] <;> omega
    · rw [if_neg c]
      exact ⟨⟨by omega, h2, h3, h4⟩, Nat.le_refl _, hp, fun n => Iff.rfl⟩

theorem addAckRange_spec (a : AcksToSend) (f t : Nat) (hi : Inv a) (hft : f ≤ t) (ht : t < 4294967295) :
    Inv (addAckRange a f t) ∧ ∀ n, (addAckRange a f t).mem n ↔ (a.mem n ∨ (f ≤ n ∧ n ≤ t)) := by
  obtain ⟨hp, hs⟩ := hi
  unfold addAckRange
  by_cases c : f ≤ a.ackPrefix
  · rw [if_pos c, inc32_of_lt ht]
    obtain ⟨i1, i2, i3, i4⟩ := absorb_spec a.ranges a.ackPrefix (max a.ackPrefix (t + 1)) hs (by omega) (by omega)
    refine ⟨⟨i3, i1⟩, fun n => ?_⟩
    simp only [AcksToSend.mem]
    rw [i4]
    by_cases hp : memRanges a.ranges n <;> simp only [hp, or_true, true_or, or_false] <;> omega
  · rw [if_neg c]
    obtain ⟨i1, i2⟩ := insertLoop_spec a.ranges a.ackPrefix f t hs (by omega) hft ht
    have he : (if a.ranges.isEmpty = true then (⟨a.ackPrefix, [⟨f, t⟩]⟩ : AcksToSend)
        else ⟨a.ackPrefix, insertLoop f t a.ranges⟩) = ⟨a.ackPrefix, insertLoop f t a.ranges⟩ := by
      cases h : a.ranges with
      | nil => simp [insertLoop]
      | cons r rest => simp
    rw [he]
    refine ⟨⟨hp, i1⟩, fun n => ?_⟩
    simp only [AcksToSend.mem]
    rw [i2]
    by_cases hp : memRanges a.ranges n <;> simp only [hp, or_true, true_or, or_false, false_or]

/-- Every recorded range is non-empty and ends below `2^32 - 1` (the wrap-free guard). -/
def WrapFree (ops : List (Nat × Nat)) : Prop := ∀ op ∈ ops, op.1 ≤ op.2 ∧ op.2 < 4294967295

instance (ops : List (Nat × Nat)) : Decidable (WrapFree ops) := by unfold WrapFree; exact inferInstance

/-- `n` lies in one of the recorded ranges. -/
def inOps (ops : List (Nat × Nat)) (n : Nat) : Prop := ∃ op ∈ ops, op.1 ≤ n ∧ n ≤ op.2

theorem run_spec (ops : List (Nat × Nat)) : ∀ (a : AcksToSend), Inv a → WrapFree ops →
    Inv (run a ops) ∧ ∀ n, (run a ops).mem n ↔ (a.mem n ∨ inOps ops n) := by
  induction ops with
  | nil => intro a hi _; exact ⟨hi, fun n => by simp [run, inOps]⟩
  | cons op rest ih =>
    intro a hi hw
    have h0 := hw op (List.mem_cons_self ..)
    obtain ⟨s1, s2⟩ := addAckRange_spec a op.1 op.2 hi h0.1 h0.2
    obtain ⟨r1, r2⟩ := ih (addAckRange a op.1 op.2) s1 (fun o ho => hw o (List.mem_cons_of_mem _ ho))
    have hrun : run a (op :: rest) = run (addAckRange a op.1 op.2) rest := by simp [run]
    rw [hrun]
    refine ⟨r1, fun n => ?_⟩
    rw [r2, s2]
    simp only [inOps, List.mem_cons, exists_eq_or_imp]
    constructor
    · rintro ((h | h) | h)
      · exact Or.inl h
      · exact Or.inr (Or.inl h)
      · exact Or.inr (Or.inr h)
    · rintro (h | h | h)
      · exact Or.inl (Or.inl h)
      · exact Or.inl (Or.inr h)
      · exact Or.inr h

end TLVerif.Acks
