import TLVerif.Acks.AcksLemmas
/-! Helper lemmas for C37: exact characterisation of `buildAck` / `buildNegativeAck`. -/
namespace TLVerif.Acks
open TLVerif.Facts.Acks

/-- All numbers of a range, ascending (`[]` when `ackFrom > ackTo`). -/
def Range.enum (r : Range) : List Nat := List.range' r.ackFrom (r.ackTo + 1 - r.ackFrom)
def enumRanges (l : List Range) : List Nat := l.flatMap Range.enum

theorem Range.mem_enum (r : Range) (n : Nat) : n ∈ r.enum ↔ r.mem n := by
  simp only [Range.enum, List.mem_range'_1, Range.mem]; omega

theorem mem_enumRanges (l : List Range) (n : Nat) : n ∈ enumRanges l ↔ memRanges l n := by
  simp [enumRanges, memRanges, Range.mem_enum]

theorem take_of_length_eq {α} (acc rest : List α) (k : Nat) (h : acc.length = k) : (acc ++ rest).take k = acc := by
  subst h; simp

theorem ackSetRange_eq (seq ackTo : Nat) (acc : List Nat) :
    acc.length ≤ maxAckSet → seq ≤ ackTo + 1 → ackTo < 4294967295 →
    ackSetRange seq ackTo acc = (acc ++ List.range' seq (ackTo + 1 - seq)).take maxAckSet := by
  fun_induction ackSetRange seq ackTo acc with
  | case1 seq acc h ih =>
    intro hl hs ht
    rw [inc32_of_lt (by omega)] at ih ⊢
    rw [ih (by simp; omega) (by omega) ht]
    have : ackTo + 1 - seq = (ackTo + 1 - (seq + 1)) + 1 := by omega
    rw [this, List.range'_succ]
    simp
  | case2 seq acc h =>
    intro hl hs ht
    by_cases c : seq ≤ ackTo
    · have : acc.length = maxAckSet := by omega
      rw [take_of_length_eq _ _ _ this]
    · have : ackTo + 1 - seq = 0 := by omega
      rw [this]; simp [List.take_of_length_le hl]

theorem take_take_append {α} (x b : List α) (k : Nat) : ((x.take k) ++ b).take k = (x ++ b).take k := by
  by_cases h : x.length ≤ k
  · rw [List.take_of_length_le h]
  · have h' : k ≤ x.length := by omega
    rw [List.take_append_of_le_length h', List.take_append_of_le_length (by simp; omega)]
    rw [List.take_take, Nat.min_self]

theorem ackSetLoop_eq (l : List Range) : ∀ (lo : Nat) (acc : List Nat), sortedFrom lo l → acc.length ≤ maxAckSet →
    ackSetLoop l acc = (acc ++ enumRanges l).take maxAckSet := by
  induction l with
  | nil => intro lo acc _ hl; simp [ackSetLoop, enumRanges, List.take_of_length_le hl]
  | cons r rest ih =>
    intro lo acc hs hl
    obtain ⟨h1, h2, h3, h4⟩ := hs
    unfold ackSetLoop
    rw [ackSetRange_eq _ _ _ hl (by omega) h3, ih (r.ackTo + 1) _ h4 (by simp; omega), take_take_append]
    simp [enumRanges, Range.enum]

/-- What a receiver (`Transport.handleAck`) takes as acknowledged from the header. -/
def ackedBy (h : AckHeader) (n : Nat) : Prop :=
  (∃ p, h.pfx = some p ∧ n ≤ p) ∨ (∃ f t, h.range = some (f, t) ∧ f ≤ n ∧ n ≤ t) ∨ (∃ s, h.set = some s ∧ n ∈ s)

/-- `if len(s) > 0 { SetPacketAckSet(s) }` -/
def nonEmptyOpt (s : List Nat) : Option (List Nat) :=
  match s with
  | [] => none
  | _ :: _ => some s

theorem nonEmptyOpt_eq (s : List Nat) : (if s.length > 0 then some s else none) = nonEmptyOpt s := by
  cases s <;> simp [nonEmptyOpt]

theorem nonEmptyOpt_some {s t : List Nat} (h : nonEmptyOpt s = some t) : t = s ∧ s ≠ [] := by
  cases s with
  | nil => simp [nonEmptyOpt] at h
  | cons x xs => simp [nonEmptyOpt] at h; subst h; simp

/-- Exact content of the header under the invariant. -/
theorem buildAck_eq (a : AcksToSend) (hi : Inv a) :
    buildAck a = { pfx := if a.ackPrefix > 0 then some (a.ackPrefix - 1) else none
                   range := a.ranges.head?.map fun r => (r.ackFrom, r.ackTo)
                   set := nonEmptyOpt ((enumRanges a.ranges.tail).take maxAckSet) } := by
  obtain ⟨hp, hs⟩ := hi
  unfold buildAck
  have h1 : (if a.ackPrefix > 0 then some (dec32 a.ackPrefix) else none) =
      (if a.ackPrefix > 0 then some (a.ackPrefix - 1) else none) := by
    by_cases c : a.ackPrefix > 0
    · rw [if_pos c, if_pos c, dec32_of_pos c (by omega)]
    · rw [if_neg c, if_neg c]
  rw [h1]
  cases hr : a.ranges with
  | nil => simp [enumRanges, nonEmptyOpt]
  | cons r rest =>
    rw [hr] at hs
    obtain ⟨_, _, _, h4⟩ := hs
    simp only [List.head?_cons, Option.map_some, List.tail_cons]
    rw [ackSetLoop_eq rest _ [] h4 (by simp)]
    simp only [List.nil_append, nonEmptyOpt_eq]

theorem buildAck_sound (a : AcksToSend) (hi : Inv a) (n : Nat) (h : ackedBy (buildAck a) n) : a.mem n := by
  rw [buildAck_eq a hi] at h
  unfold AcksToSend.mem
  rcases h with ⟨p, hp, hn⟩ | ⟨f, t, hr, hn⟩ | ⟨s, hs, hn⟩
  · left
    by_cases c : a.ackPrefix > 0
    · simp only [if_pos c, Option.some.injEq] at hp; omega
    · simp [if_neg c] at hp
  · right
    cases hl : a.ranges with
    | nil => simp [hl] at hr
    | cons r rest =>
      simp only [hl, List.head?_cons, Option.map_some, Option.some.injEq, Prod.mk.injEq] at hr
      rw [memRanges_cons]; left; unfold Range.mem; omega
  · right
    obtain ⟨hs1, _⟩ := nonEmptyOpt_some hs
    subst hs1
    have := (mem_enumRanges _ _).mp (List.mem_of_mem_take hn)
    obtain ⟨r, hr, hm⟩ := this
    exact ⟨r, List.mem_of_mem_tail hr, hm⟩

/-- The prefix and the first range are always acknowledged; the rest is when it fits into `MaxAckSet` singles. -/
theorem buildAck_complete (a : AcksToSend) (hi : Inv a) (n : Nat) (hm : a.mem n)
    (hfit : n < a.ackPrefix ∨ (∃ r, a.ranges.head? = some r ∧ r.mem n) ∨ (enumRanges a.ranges.tail).length ≤ maxAckSet) :
    ackedBy (buildAck a) n := by
  rw [buildAck_eq a hi]
  unfold ackedBy
  by_cases c1 : n < a.ackPrefix
  · left; exact ⟨a.ackPrefix - 1, by simp; omega, by omega⟩
  · cases hl : a.ranges with
    | nil => rcases hm with hm | hm
             · exact absurd hm c1
             · simp [hl] at hm
    | cons r rest =>
      by_cases c2 : r.mem n
      · right; left; exact ⟨r.ackFrom, r.ackTo, by simp, c2.1, c2.2⟩
      · right; right
        rcases hfit with hf | ⟨r', hr', hm'⟩ | hf
        · exact absurd hf c1
        · simp only [hl, List.head?_cons, Option.some.injEq] at hr'; subst hr'; exact absurd hm' c2
        · rcases hm with hm | hm
          · exact absurd hm c1
          · rw [hl, memRanges_cons] at hm
            rcases hm with hm | hm
            · exact absurd hm c2
            · simp only [hl, List.tail_cons] at hf ⊢
              simp only [List.take_of_length_le hf]
              have hin := (mem_enumRanges rest n).mpr hm
              refine ⟨enumRanges rest, ?_, hin⟩
              cases he : enumRanges rest with
              | nil => rw [he] at hin; simp at hin
              | cons x xs => simp [nonEmptyOpt]

theorem buildAck_set_bound (a : AcksToSend) (hi : Inv a) (s : List Nat) (h : (buildAck a).set = some s) :
    s.length ≤ maxAckSet ∧ s ≠ [] := by
  rw [buildAck_eq a hi] at h
  obtain ⟨h1, h2⟩ := nonEmptyOpt_some h
  subst h1
  exact ⟨by simp [List.length_take]; omega, h2⟩

/-! ### Resend request -/

/-- The holes between consecutive ranges, starting after `tmp`. -/
def gaps : Range → List Range → List (Nat × Nat)
  | _, [] => []
  | tmp, nxt :: rest => (tmp.ackTo + 1, nxt.ackFrom - 1) :: gaps nxt rest

/-- All holes below the last range: `[prefix, first.from-1]`, then the holes between ranges. -/
def allGaps (a : AcksToSend) : List (Nat × Nat) :=
  match a.ranges with
  | [] => []
  | r :: rest => (a.ackPrefix, r.ackFrom - 1) :: gaps r rest

theorem gaps_length (tmp : Range) (rest : List Range) : (gaps tmp rest).length = rest.length := by
  induction rest generalizing tmp with
  | nil => rfl
  | cons nxt rest ih => simp [gaps, ih]

theorem allGaps_length (a : AcksToSend) : (allGaps a).length = a.ranges.length := by
  unfold allGaps; cases a.ranges <;> simp [gaps_length]

theorem nackLoop_eq (rest : List Range) : ∀ (lo : Nat) (tmp : Range) (acc : List (Nat × Nat)),
    sortedFrom lo (tmp :: rest) → acc.length ≤ maxAckSet →
    nackLoop tmp rest acc = (acc ++ gaps tmp rest).take maxAckSet := by
  induction rest with
  | nil => intro lo tmp acc _ hl; simp [nackLoop, gaps, List.take_of_length_le hl]
  | cons nxt rest ih =>
    intro lo tmp acc hs hl
    obtain ⟨h1, h2, h3, g1, g2, g3, g4⟩ := hs
    unfold nackLoop
    by_cases c : acc.length < maxAckSet
    · rw [if_pos c, inc32_of_lt h3, dec32_of_pos (by omega) (by omega)]
      rw [ih (tmp.ackTo + 1) nxt _ ⟨g1, g2, g3, g4⟩ (by simp; omega)]
      simp [gaps]
    · rw [if_neg c, take_of_length_eq _ _ _ (by omega)]

theorem buildNegativeAck_eq (a : AcksToSend) (hi : Inv a) (hk : 1 ≤ maxAckSet) :
    buildNegativeAck a = (allGaps a).take maxAckSet := by
  obtain ⟨hp, hs⟩ := hi
  unfold buildNegativeAck allGaps
  cases hr : a.ranges with
  | nil => simp
  | cons r rest =>
    rw [hr] at hs
    have hs' := hs
    obtain ⟨h1, h2, h3, h4⟩ := hs
    simp only
    rw [nackLoop_eq rest a.ackPrefix r _ hs' (by simpa using hk), dec32_of_pos (by omega) (by omega)]
    simp

/-- What a receiver takes as requested for resending. -/
def requestedBy (l : List (Nat × Nat)) (n : Nat) : Prop := ∃ g ∈ l, g.1 ≤ n ∧ n ≤ g.2

theorem gaps_sound (rest : List Range) : ∀ (lo : Nat) (tmp : Range) (n : Nat), sortedFrom lo (tmp :: rest) →
    requestedBy (gaps tmp rest) n → tmp.ackTo < n ∧ ¬ memRanges rest n := by
  induction rest with
  | nil => intro lo tmp n _ h; simp [requestedBy, gaps] at h
  | cons nxt rest ih =>
    intro lo tmp n hs h
    obtain ⟨h1, h2, h3, g1, g2, g3, g4⟩ := hs
    simp only [requestedBy, gaps, List.mem_cons, exists_eq_or_imp] at h
    rw [memRanges_cons]
    rcases h with h | h
    · refine ⟨by omega, ?_⟩
      rintro (hm | hm)
      · unfold Range.mem at hm; omega
      · have := sortedFrom_above g4 hm; omega
    · obtain ⟨i1, i2⟩ := ih (tmp.ackTo + 1) nxt n ⟨g1, g2, g3, g4⟩ h
      refine ⟨by omega, ?_⟩
      rintro (hm | hm)
      · unfold Range.mem at hm; omega
      · exact i2 hm

theorem allGaps_sound (a : AcksToSend) (hi : Inv a) (n : Nat) (h : requestedBy (allGaps a) n) : ¬ a.mem n := by
  obtain ⟨hp, hs⟩ := hi
  unfold allGaps at h
  unfold AcksToSend.mem
  cases hr : a.ranges with
  | nil => simp [hr, requestedBy] at h
  | cons r rest =>
    rw [hr] at hs h
    have hs' := hs
    obtain ⟨h1, h2, h3, h4⟩ := hs
    simp only [requestedBy, List.mem_cons, exists_eq_or_imp] at h
    rw [memRanges_cons]
    rcases h with h | h
    · rintro (hm | hm | hm)
      · omega
      · unfold Range.mem at hm; omega
      · have := sortedFrom_above h4 hm; omega
    · obtain ⟨i1, i2⟩ := gaps_sound rest a.ackPrefix r n hs' h
      rintro (hm | hm | hm)
      · omega
      · unfold Range.mem at hm; omega
      · exact i2 hm

theorem requestedBy_take {l : List (Nat × Nat)} {k n : Nat} (h : requestedBy (l.take k) n) : requestedBy l n := by
  obtain ⟨g, hg, hn⟩ := h
  exact ⟨g, List.mem_of_mem_take hg, hn⟩

theorem buildNegativeAck_sound (a : AcksToSend) (hi : Inv a) (hk : 1 ≤ maxAckSet) (n : Nat)
    (h : requestedBy (buildNegativeAck a) n) : ¬ a.mem n := by
  rw [buildNegativeAck_eq a hi hk] at h
  exact allGaps_sound a hi n (requestedBy_take h)

theorem gaps_complete (rest : List Range) : ∀ (lo : Nat) (tmp : Range) (n : Nat), sortedFrom lo (tmp :: rest) →
    tmp.ackTo < n → ¬ memRanges rest n → (∃ r ∈ rest, n ≤ r.ackTo) → requestedBy (gaps tmp rest) n := by
  induction rest with
  | nil => intro lo tmp n _ _ _ h; simp at h
  | cons nxt rest ih =>
    intro lo tmp n hs hn hm hb
    obtain ⟨h1, h2, h3, g1, g2, g3, g4⟩ := hs
    rw [memRanges_cons] at hm
    simp only [requestedBy, gaps, List.mem_cons, exists_eq_or_imp]
    by_cases c : n < nxt.ackFrom
    · left; omega
    · right
      have hn' : nxt.ackTo < n := by
        have : ¬ nxt.mem n := fun h => hm (Or.inl h)
        unfold Range.mem at this; omega
      refine ih (tmp.ackTo + 1) nxt n ⟨g1, g2, g3, g4⟩ hn' (fun h => hm (Or.inr h)) ?_
      obtain ⟨r, hr, hle⟩ := hb
      rcases List.mem_cons.mp hr with he | he
      · subst he; omega
      · exact ⟨r, he, hle⟩

/-- Every unrecorded number below some recorded range lies in a hole. -/
theorem allGaps_complete (a : AcksToSend) (hi : Inv a) (n : Nat) (hm : ¬ a.mem n) (hb : ∃ r ∈ a.ranges, n ≤ r.ackTo) :
    requestedBy (allGaps a) n := by
  obtain ⟨hp, hs⟩ := hi
  unfold allGaps
  unfold AcksToSend.mem at hm
  cases hr : a.ranges with
  | nil => rw [hr] at hb; simp at hb
  | cons r rest =>
    rw [hr] at hs hm hb
    have hs' := hs
    obtain ⟨h1, h2, h3, h4⟩ := hs
    rw [memRanges_cons] at hm
    simp only [requestedBy, List.mem_cons, exists_eq_or_imp]
    by_cases c : n < r.ackFrom
    · left; omega
    · right
      have hn' : r.ackTo < n := by
        have : ¬ r.mem n := fun h => hm (Or.inr (Or.inl h))
        unfold Range.mem at this; omega
      refine gaps_complete rest a.ackPrefix r n hs' hn' (fun h => hm (Or.inr (Or.inr h))) ?_
      obtain ⟨r', hr', hle⟩ := hb
      rcases List.mem_cons.mp hr' with he | he
      · subst he; omega
      · exact ⟨r', he, hle⟩

theorem buildNegativeAck_complete (a : AcksToSend) (hi : Inv a) (hk : 1 ≤ maxAckSet) (hfit : a.ranges.length ≤ maxAckSet)
    (n : Nat) (hm : ¬ a.mem n) (hb : ∃ r ∈ a.ranges, n ≤ r.ackTo) : requestedBy (buildNegativeAck a) n := by
  rw [buildNegativeAck_eq a hi hk, List.take_of_length_le (by rw [allGaps_length]; exact hfit)]
  exact allGaps_complete a hi n hm hb

/-- Every hole is a non-empty interval (a receiver iterating `from..to` never wraps). -/
theorem gaps_nonempty (rest : List Range) : ∀ (lo : Nat) (tmp : Range), sortedFrom lo (tmp :: rest) →
    ∀ g ∈ gaps tmp rest, g.1 ≤ g.2 ∧ g.2 < 4294967295 := by
  induction rest with
  | nil => intro lo tmp _ g hg; simp [gaps] at hg
  | cons nxt rest ih =>
    intro lo tmp hs g hg
    obtain ⟨h1, h2, h3, g1, g2, g3, g4⟩ := hs
    simp only [gaps, List.mem_cons] at hg
    rcases hg with hg | hg
    · subst hg; exact ⟨by domega, by domega⟩
    · exact ih (tmp.ackTo + 1) nxt ⟨g1, g2, g3, g4⟩ g hg

theorem allGaps_nonempty (a : AcksToSend) (hi : Inv a) : ∀ g ∈ allGaps a, g.1 ≤ g.2 ∧ g.2 < 4294967295 := by
  obtain ⟨hp, hs⟩ := hi
  unfold allGaps
  cases hr : a.ranges with
  | nil => intro g hg; simp at hg
  | cons r rest =>
    rw [hr] at hs
    have hs' := hs
    obtain ⟨h1, h2, h3, h4⟩ := hs
    intro g hg
    simp only [List.mem_cons] at hg
    rcases hg with hg | hg
    · subst hg; exact ⟨by domega, by domega⟩
    · exact gaps_nonempty rest a.ackPrefix r hs' g hg

/-! ### `checkInvariantsCommon` -/

theorem checkLoop_zero (rest : List Range) : ∀ (lo : Nat) (tmp : Range), sortedFrom lo (tmp :: rest) → checkLoop tmp rest = 0 := by
  induction rest with
  | nil => intro _ _ _; rfl
  | cons nxt rest ih =>
    intro lo tmp hs
    obtain ⟨h1, h2, h3, g1, g2, g3, g4⟩ := hs
    unfold checkLoop
    rw [inc32_of_lt h3, ih (tmp.ackTo + 1) nxt ⟨g1, g2, g3, g4⟩, if_neg (by omega), if_neg (by omega)]

theorem checkInvariantsCommon_zero (a : AcksToSend) (hi : Inv a) : checkInvariantsCommon a = 0 := by
  obtain ⟨hp, hs⟩ := hi
  unfold checkInvariantsCommon
  cases hr : a.ranges with
  | nil => rfl
  | cons r rest =>
    rw [hr] at hs
    simp only
    rw [checkLoop_zero rest a.ackPrefix r hs, if_neg (by have := hs.1; omega)]

end TLVerif.Acks
