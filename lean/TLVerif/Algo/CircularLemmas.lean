import TLVerif.Algo.Circular
namespace TLVerif.Algo
namespace CS

/-- Physical index of logical position `j`. -/
def phys (s : CS) (j : Nat) : Nat :=
  if s.readPos.toNat + j < s.elements.length then s.readPos.toNat + j
  else s.readPos.toNat + j - s.elements.length

/-- Abstraction function: the queue content, front first. -/
def abs (s : CS) : List Nat :=
  (List.range (s.writePos - s.readPos).toNat).map (fun j => s.elements.getD (s.phys j) 0)

/-- Representation invariant of `CircularSlice`. -/
structure Inv (s : CS) : Prop where
  r0 : 0 ≤ s.readPos
  rw : s.readPos ≤ s.writePos
  wc : s.writePos - s.readPos ≤ s.elements.length
  rc : s.readPos < s.elements.length ∨ (s.elements.length = 0 ∧ s.readPos = 0)
  /-- cells outside the live window hold the empty value -/
  dead : ∀ i : Nat, i < s.elements.length → ¬ (s.readPos ≤ i ∧ (i : Int) < s.writePos) →
    ¬ ((i : Int) + s.elements.length < s.writePos) → s.elements[i]? = some 0

theorem abs_length (s : CS) : (abs s).length = (s.writePos - s.readPos).toNat := by simp [abs]

theorem abs_getElem? (s : CS) (j : Nat) (hj : j < (s.writePos - s.readPos).toNat) :
    (abs s)[j]? = some (s.elements.getD (s.phys j) 0) := by
  simp [abs, List.getElem?_map, List.getElem?_range hj]

theorem getD_of_lt (l : List Nat) (i : Nat) (h : i < l.length) : l[i]? = some (l.getD i 0) := by
  simp [List.getD_eq_getElem?_getD, List.getElem?_eq_getElem h]

theorem goGet_nat (l : List Nat) (i : Int) (n : Nat) (h : i = n) : goGet l i = l[n]? := by
  subst h; simp [goGet]; omega

theorem goSet_nat (l : List Nat) (i : Int) (n : Nat) (x : Nat) (h : i = n) (hn : n < l.length) :
    goSet l i x = some (l.set n x) := by
  subst h; simp [goSet, hn]

theorem goSlice_nat (l : List Nat) (lo hi : Int) (a b : Nat) (h1 : lo = a) (h2 : hi = b) (hab : a ≤ b)
    (hb : b ≤ l.length) : goSlice l lo hi = some ((l.drop a).take (b - a)) := by
  subst h1; subst h2
  simp [goSlice]; omega

theorem empty_inv : Inv empty ∧ abs empty = [] := by
  refine ⟨⟨by decide, by decide, by decide, Or.inr ⟨rfl, rfl⟩, ?_⟩, rfl⟩
  intro i hi; simp [empty] at hi


/-- Destructure a state satisfying the invariant into natural-number positions. -/
theorem Inv.nat {els : List Nat} {rp wp : Int} (h : Inv ⟨els, rp, wp⟩) :
    ∃ r w : Nat, rp = r ∧ wp = w ∧ r ≤ w ∧ w - r ≤ els.length ∧ (r < els.length ∨ (els.length = 0 ∧ r = 0)) := by
  have h0 := h.r0; have h1 := h.rw; have h2 := h.wc; have h3 := h.rc
  simp only at h0 h1 h2 h3
  refine ⟨rp.toNat, wp.toNat, by omega, by omega, by omega, by omega, by omega⟩

theorem front_spec (s : CS) (hi : Inv s) : front s = (abs s).head? := by
  obtain ⟨els, rp, wp⟩ := s
  obtain ⟨r, w, rfl, rfl, h1, h2, h3⟩ := hi.nat
  unfold front
  simp only
  by_cases he : (w : Int) = r
  · rw [if_pos he]
    have : abs ⟨els, r, w⟩ = [] := by
      apply List.eq_nil_of_length_eq_zero; rw [abs_length]; simp only; omega
    rw [this]; rfl
  · rw [if_neg he, List.head?_eq_getElem?, abs_getElem? _ 0 (by simp only; omega)]
    rw [goGet_nat els r r rfl]
    have hr : r < els.length := by omega
    simp only [phys, Int.toNat_natCast, Nat.add_zero, if_pos hr]
    exact getD_of_lt els r hr

/-- `Index`: negative positions panic; positions inside the queue return that element; positions beyond the end
either panic or return the empty value (never a live or stale element). -/
theorem index_spec (s : CS) (hi : Inv s) (pos : Int) :
    (pos < 0 → index s pos = none) ∧
    (0 ≤ pos → pos < (abs s).length → index s pos = (abs s)[pos.toNat]?) ∧
    ((abs s).length ≤ pos → index s pos = none ∨ index s pos = some 0) := by
  have hd := hi.dead
  obtain ⟨els, rp, wp⟩ := s
  obtain ⟨r, w, rfl, rfl, h1, h2, h3⟩ := hi.nat
  rw [abs_length]
  simp only at hd ⊢
  refine ⟨fun h => by simp [index, h], fun h0 hl => ?_, fun hl => ?_⟩
  · obtain ⟨p, rfl⟩ := Int.eq_ofNat_of_zero_le h0
    have hp : p < w - r := by omega
    rw [Int.toNat_natCast, abs_getElem? _ p (by simp only; omega)]
    unfold index
    simp only [phys, Int.toNat_natCast]
    rw [if_neg (by omega)]
    by_cases hc : r + p < els.length
    · rw [if_pos (by omega), if_pos hc, goGet_nat els _ (r + p) (by omega)]
      exact getD_of_lt els _ hc
    · rw [if_neg (by omega), if_neg (by omega), if_neg hc, goGet_nat els _ (r + p - els.length) (by omega)]
      exact getD_of_lt els _ (by omega)
  · by_cases h0 : pos < 0
    · left; simp [index, h0]
    · obtain ⟨p, rfl⟩ := Int.eq_ofNat_of_zero_le (by omega : 0 ≤ pos)
      unfold index
      simp only
      rw [if_neg (by omega)]
      by_cases hc : r + p < els.length
      · right
        rw [if_pos (by omega), goGet_nat els _ (r + p) (by omega)]
        exact hd (r + p) hc (by omega) (by omega)
      · left
        rw [if_neg (by omega), if_pos (by omega)]


theorem slice_getElem? (l : List Nat) (a n j : Nat) :
    ((l.drop a).take n)[j]? = if j < n then l[a + j]? else none := by
  simp [List.getElem?_take, List.getElem?_drop]

/-- `Slices` never panics; the two parts concatenated are the queue content. Also their exact form. -/
theorem slices_spec (els : List Nat) (r w : Nat) (hi : Inv ⟨els, r, w⟩) :
    ∃ s1 s2, slices ⟨els, r, w⟩ = some (s1, s2) ∧ s1 ++ s2 = abs ⟨els, r, w⟩ ∧
      s1 = (els.drop r).take (min w els.length - r) ∧ s2 = els.take (w - els.length) := by
  have h1 : r ≤ w := by have := hi.rw; simp only at this; omega
  have h2 : w - r ≤ els.length := by have := hi.wc; simp only at this; omega
  have h3 : r < els.length ∨ (els.length = 0 ∧ r = 0) := by have := hi.rc; simp only at this; omega
  unfold slices
  simp only
  by_cases hc : w ≤ els.length
  · rw [if_pos (by omega), goSlice_nat els _ _ r w rfl rfl h1 hc]
    have em : min w els.length = w := by omega
    have e0 : w - els.length = 0 := by omega
    refine ⟨_, _, rfl, ?_, by rw [em], by rw [e0]; rfl⟩
    simp only [List.append_nil]
    apply List.ext_getElem?
    intro j
    rw [slice_getElem?]
    by_cases hj : j < w - r
    · rw [if_pos hj, abs_getElem? _ j (by simp only; omega)]
      simp only [phys, Int.toNat_natCast]
      rw [if_pos (by omega)]
      exact getD_of_lt els _ (by omega)
    · rw [if_neg hj, List.getElem?_eq_none (by rw [abs_length]; simp only; omega)]
  · have e2 : goSlice els 0 ((w : Int) - (els.length : Int)) = some ((els.drop 0).take (w - els.length - 0)) :=
      goSlice_nat els _ _ 0 (w - els.length) rfl (by omega) (by omega) (by omega)
    rw [if_neg (by omega), goSlice_nat els _ _ r els.length rfl rfl (by omega) (Nat.le_refl _), e2]
    have em : min w els.length = els.length := by omega
    refine ⟨_, _, rfl, ?_, by rw [em], by simp⟩
    apply List.ext_getElem?
    intro j
    rw [List.getElem?_append, slice_getElem?, List.length_take, List.length_drop]
    simp only [Nat.sub_zero, List.drop_zero]
    by_cases hj : j < w - r
    · rw [abs_getElem? _ j (by simp only; omega)]
      simp only [phys, Int.toNat_natCast]
      by_cases hjc : r + j < els.length
      · rw [if_pos (by omega), if_pos (by omega), if_pos hjc]
        exact getD_of_lt els _ hjc
      · rw [if_neg (by omega), if_neg hjc, List.getElem?_take, if_pos (by omega)]
        have : j - min (els.length - r) (els.length - r) = r + j - els.length := by omega
        rw [this]
        exact getD_of_lt els _ (by omega)
    · rw [List.getElem?_eq_none (l := abs _) (by rw [abs_length]; simp only; omega)]
      rw [if_neg (by omega), List.getElem?_take, if_neg (by omega)]


theorem copyAt_replicate (n : Nat) (s1 : List Nat) (h : s1.length ≤ n) :
    copyAt (List.replicate n 0) 0 s1 = (s1.length, s1 ++ List.replicate (n - s1.length) 0) := by
  unfold copyAt
  have e : min (n - 0) s1.length = s1.length := by omega
  simp only [List.length_replicate, e, List.take_zero, List.nil_append, List.take_length, Nat.zero_add,
    List.drop_replicate]

theorem copyAt_append (s1 : List Nat) (m : Nat) (s2 : List Nat) (h : s2.length ≤ m) :
    copyAt (s1 ++ List.replicate m 0) s1.length s2 = (s2.length, s1 ++ s2 ++ List.replicate (m - s2.length) 0) := by
  unfold copyAt
  have e : min (s1.length + m - s1.length) s2.length = s2.length := by omega
  simp only [List.length_append, List.length_replicate, e, List.take_length, List.take_left']
  congr 1
  rw [List.drop_append]
  simp [List.drop_replicate]


/-- `Reserve` never panics, keeps the content, and grows the capacity to `max cap n` (never shrinks). -/
theorem reserve_spec (els : List Nat) (r w : Nat) (hi : Inv ⟨els, r, w⟩) (n : Int) :
    ∃ s', reserve ⟨els, r, w⟩ n = some s' ∧ Inv s' ∧ abs s' = abs ⟨els, r, w⟩ ∧
      (n ≤ els.length → s' = ⟨els, r, w⟩) ∧
      (els.length < n → s'.elements.length = n.toNat ∧ s'.readPos = 0 ∧ s'.writePos = ((w - r : Nat) : Int)) := by
  by_cases hn : n ≤ els.length
  · exact ⟨_, by simp [reserve, hn], hi, rfl, fun _ => rfl, fun h => by omega⟩
  · have h1 : r ≤ w := by have := hi.rw; simp only at this; omega
    have h2 : w - r ≤ els.length := by have := hi.wc; simp only at this; omega
    obtain ⟨s1, s2, es, hcat, _, _⟩ := slices_spec els r w hi
    have hlen : s1.length + s2.length = w - r := by
      rw [← List.length_append, hcat, abs_length]; simp only; omega
    unfold reserve
    rw [if_neg hn, es]
    dsimp only
    rw [copyAt_replicate _ s1 (by omega)]
    dsimp only
    rw [copyAt_append s1 _ s2 (by omega)]
    dsimp only
    rw [if_neg (by simp)]
    have hcap : (s1 ++ s2 ++ List.replicate (n.toNat - s1.length - s2.length) 0).length = n.toNat := by
      simp only [List.length_append, List.length_replicate]; omega
    refine ⟨_, rfl, ⟨by simp, by simp only; omega, by simp only; omega, Or.inl (by simp only; omega), ?_⟩, ?_,
      fun h => absurd h hn, fun _ => ⟨hcap, rfl, by simp only; omega⟩⟩
    · intro i hil hn1 _
      simp only at hn1 hil
      rw [hcap] at hil
      rw [List.getElem?_append_right (by simp only [List.length_append]; omega), List.getElem?_replicate]
      rw [if_pos (by simp only [List.length_append]; omega)]
    · apply List.ext_getElem?
      intro j
      by_cases hj : j < w - r
      · rw [abs_getElem? _ j (by simp only; omega), ← hcat]
        simp only [phys, hcap]
        rw [show (0 : Int).toNat = 0 from rfl, if_pos (by omega), Nat.zero_add]
        rw [← getD_of_lt _ j (by rw [hcap]; omega)]
        rw [List.getElem?_append_left (by simp only [List.length_append]; omega)]
      · rw [List.getElem?_eq_none (by rw [abs_length]; simp only; omega),
          List.getElem?_eq_none (by rw [abs_length]; simp only; omega)]


theorem getD_set_ne (l : List Nat) (p i x : Nat) (h : p ≠ i) : (l.set p x).getD i 0 = l.getD i 0 := by
  simp [List.getD_eq_getElem?_getD, h]

theorem getD_set_eq (l : List Nat) (p x : Nat) (h : p < l.length) : (l.set p x).getD p 0 = x := by
  simp [List.getD_eq_getElem?_getD, h]

/-- Storing into a slice that is not full: appends, no panic. -/
theorem pushStore_spec (els : List Nat) (r w : Nat) (hi : Inv ⟨els, r, w⟩) (hnf : w - r < els.length) (x : Nat) :
    ∃ s', pushStore ⟨els, r, w⟩ x = some s' ∧ Inv s' ∧ abs s' = abs ⟨els, r, w⟩ ++ [x] ∧
      s'.elements.length = els.length := by
  have hd := hi.dead
  have h1 : r ≤ w := by have := hi.rw; simp only at this; omega
  have h3 : r < els.length := by have := hi.rc; simp only at this; omega
  simp only at hd
  unfold pushStore
  dsimp only
  -- the physical cell written
  have hp : ∃ p : Nat, p < els.length ∧ p = phys ⟨els, r, w⟩ (w - r) ∧
      (if (w : Int) < els.length then goSet els w x else goSet els ((w : Int) - els.length) x) = some (els.set p x) := by
    by_cases hc : w < els.length
    · refine ⟨w, hc, ?_, ?_⟩
      · simp only [phys, Int.toNat_natCast]; rw [if_pos (by omega)]; omega
      · rw [if_pos (by omega)]; exact goSet_nat els _ w x rfl hc
    · refine ⟨w - els.length, by omega, ?_, ?_⟩
      · simp only [phys, Int.toNat_natCast]; rw [if_neg (by omega)]; omega
      · rw [if_neg (by omega)]; exact goSet_nat els _ (w - els.length) x (by omega) (by omega)
  obtain ⟨p, hpl, hpp, e⟩ := hp
  rw [e]
  dsimp only
  have hpw : p = if w < els.length then w else w - els.length := by
    rw [hpp]; simp only [phys, Int.toNat_natCast]
    by_cases hc : w < els.length
    · rw [if_pos (by omega), if_pos hc]; omega
    · rw [if_neg (by omega), if_neg hc]; omega
  refine ⟨_, rfl, ⟨by simp, by simp only; omega, by simp only [List.length_set]; omega,
    Or.inl (by simp only [List.length_set]; omega), ?_⟩, ?_, by simp⟩
  · intro i hil hn1 hn2
    simp only [List.length_set] at hil hn1 hn2
    have hne : p ≠ i := by
      rw [hpw]; by_cases hc : w < els.length
      · rw [if_pos hc]; omega
      · rw [if_neg hc]; omega
    rw [List.getElem?_set, if_neg hne]
    exact hd i hil (by omega) (by omega)
  · apply List.ext_getElem?
    intro j
    by_cases hj : j < w - r
    · rw [abs_getElem? _ j (by simp only; omega), List.getElem?_append_left (by rw [abs_length]; simp only; omega),
        abs_getElem? _ j (by simp only; omega)]
      have hph : phys ⟨els.set p x, r, (w : Int) + 1⟩ j = phys ⟨els, r, w⟩ j := by simp [phys]
      rw [hph]
      have hne : p ≠ phys ⟨els, r, w⟩ j := by
        rw [hpw]; simp only [phys, Int.toNat_natCast]
        by_cases hc : w < els.length
        · rw [if_pos hc, if_pos (by omega)]; omega
        · rw [if_neg hc]
          by_cases hc2 : r + j < els.length
          · rw [if_pos hc2]; omega
          · rw [if_neg hc2]; omega
      rw [getD_set_ne _ _ _ _ hne]
    · by_cases hj2 : j = w - r
      · subst hj2
        rw [abs_getElem? _ _ (by simp only; omega)]
        have hph : phys ⟨els.set p x, r, (w : Int) + 1⟩ (w - r) = p := by rw [hpp]; simp [phys]
        rw [hph, getD_set_eq _ _ _ hpl]
        rw [List.getElem?_append_right (by rw [abs_length]; simp only; omega), abs_length]
        simp
      · rw [List.getElem?_eq_none (by rw [abs_length]; simp only; omega),
          List.getElem?_eq_none (by rw [List.length_append, abs_length]; simp only [List.length_singleton]; omega)]


/-- `PushBack` never panics, appends at the back, never shrinks the capacity (doubles it, at least to 8, when full). -/
theorem pushBack_spec (els : List Nat) (r w : Nat) (hi : Inv ⟨els, r, w⟩) (x : Nat) :
    ∃ s', pushBack ⟨els, r, w⟩ x = some s' ∧ Inv s' ∧ abs s' = abs ⟨els, r, w⟩ ++ [x] ∧
      els.length ≤ s'.elements.length := by
  have h1 : r ≤ w := by have := hi.rw; simp only at this; omega
  have h2 : w - r ≤ els.length := by have := hi.wc; simp only at this; omega
  unfold pushBack
  dsimp only
  rw [if_neg (by omega)]
  by_cases hf : (w : Int) - r = els.length
  · rw [if_pos hf]
    have hgt : (els.length : Int) < (if (els.length : Int) < 4 then 4 else (els.length : Int)) * 2 := by
      split <;> omega
    obtain ⟨s1, e1, i1, a1, _, hb⟩ := reserve_spec els r w hi _
    obtain ⟨hl1, hr1, hw1⟩ := hb hgt
    rw [e1]
    dsimp only
    obtain ⟨els1, rp1, wp1⟩ := s1
    simp only at hl1 hr1 hw1
    subst hr1; subst hw1
    have hnf : (w - r) - 0 < els1.length := by
      rw [hl1]; split at hgt <;> omega
    obtain ⟨s', e', i', a', l'⟩ := pushStore_spec els1 0 (w - r) i1 hnf x
    refine ⟨s', e', i', by rw [a']; exact congrArg (· ++ [x]) a1, ?_⟩
    rw [l', hl1]; split at hgt <;> omega
  · rw [if_neg hf]
    dsimp only
    obtain ⟨s', e', i', a', l'⟩ := pushStore_spec els r w hi (by omega) x
    exact ⟨s', e', i', a', by omega⟩


/-- Closed form of `PopFront` on a non-empty slice with `read_pos` in range. -/
theorem popFront_eq (els : List Nat) (r w : Nat) (hrw : r < w) (hr : r < els.length) :
    popFront ⟨els, r, w⟩ = some (els.getD r 0,
      if r + 1 = w then ⟨els.set r 0, 0, 0⟩
      else if els.length ≤ r + 1 then ⟨els.set r 0, ((r + 1 - els.length : Nat) : Int), ((w - els.length : Nat) : Int)⟩
      else ⟨els.set r 0, ((r + 1 : Nat) : Int), w⟩) := by
  unfold popFront
  dsimp only
  rw [if_neg (by omega), goGet_nat els _ r rfl, getD_of_lt els r hr]
  dsimp only
  rw [goSet_nat els _ r 0 rfl hr]
  dsimp only
  rw [List.length_set]
  by_cases hw : els.length ≤ r + 1
  · rw [if_pos (show (r : Int) + 1 ≥ (els.length : Int) by omega)]
    dsimp only
    by_cases he : r + 1 = w
    · rw [if_pos (show (r : Int) + 1 - (els.length : Int) = (w : Int) - (els.length : Int) by omega), if_pos he]
    · rw [if_neg (show ¬ (r : Int) + 1 - (els.length : Int) = (w : Int) - (els.length : Int) by omega),
        if_neg he, if_pos hw]
      congr 3 <;> omega
  · rw [if_neg (show ¬ (r : Int) + 1 ≥ (els.length : Int) by omega)]
    dsimp only
    by_cases he : r + 1 = w
    · rw [if_pos (show (r : Int) + 1 = (w : Int) by omega), if_pos he]
    · rw [if_neg (show ¬ (r : Int) + 1 = (w : Int) by omega), if_neg he, if_neg hw]
      congr 3

/-- `PopFront` panics exactly on the empty queue; otherwise it returns the front element and removes it. -/
theorem popFront_spec (els : List Nat) (r w : Nat) (hi : Inv ⟨els, r, w⟩) :
    (abs ⟨els, r, w⟩ = [] → popFront ⟨els, r, w⟩ = none) ∧
    (∀ x xs, abs ⟨els, r, w⟩ = x :: xs → ∃ s', popFront ⟨els, r, w⟩ = some (x, s') ∧ Inv s' ∧ abs s' = xs ∧
      s'.elements.length = els.length) := by
  have hd := hi.dead
  have h1 : r ≤ w := by have := hi.rw; simp only at this; omega
  have h2 : w - r ≤ els.length := by have := hi.wc; simp only at this; omega
  have h3 : r < els.length ∨ (els.length = 0 ∧ r = 0) := by have := hi.rc; simp only at this; omega
  simp only at hd
  constructor
  · intro he
    have : w - r = 0 := by
      have := abs_length ⟨els, r, w⟩; rw [he] at this; simp only [List.length_nil] at this; omega
    unfold popFront; dsimp only; rw [if_pos (by omega)]
  · intro x xs he
    have hl : w - r = xs.length + 1 := by
      have := abs_length ⟨els, r, w⟩; rw [he] at this; simp only [List.length_cons] at this; omega
    have hrw : r < w := by omega
    have hr : r < els.length := by omega
    have hx : x = els.getD r 0 := by
      have := abs_getElem? ⟨els, r, w⟩ 0 (by simp only; omega)
      rw [he] at this
      simp only [List.getElem?_cons_zero, phys, Int.toNat_natCast, Nat.add_zero, if_pos hr] at this
      exact Option.some.inj this
    have hxs : ∀ j, j < xs.length → xs[j]? = some (els.getD (phys ⟨els, r, w⟩ (j + 1)) 0) := by
      intro j hj
      have := abs_getElem? ⟨els, r, w⟩ (j + 1) (by simp only; omega)
      rw [he, List.getElem?_cons_succ] at this
      exact this
    rw [popFront_eq els r w hrw hr, ← hx]
    -- the new positions, as naturals
    have key : ∀ (r' w' : Nat), w' - r' = xs.length → r' ≤ w' →
        (r' < els.length ∨ (els.length = 0 ∧ r' = 0)) →
        (∀ j, j < xs.length → phys ⟨els.set r 0, r', w'⟩ j = phys ⟨els, r, w⟩ (j + 1)) →
        (∀ i : Nat, i < els.length → ¬ ((r' : Int) ≤ i ∧ (i : Int) < w') → ¬ ((i : Int) + els.length < w') →
          i = r ∨ (¬ ((r : Int) ≤ i ∧ (i : Int) < w) ∧ ¬ ((i : Int) + els.length < w))) →
        Inv ⟨els.set r 0, r', w'⟩ ∧ abs ⟨els.set r 0, r', w'⟩ = xs := by
      intro r' w' hlen hrw' hrc' hph hdead
      refine ⟨⟨by simp, by simp only; omega, by simp only [List.length_set]; omega,
        by simp only [List.length_set]; omega, ?_⟩, ?_⟩
      · intro i hil hn1 hn2
        simp only [List.length_set] at hil hn1 hn2
        rw [List.getElem?_set]
        by_cases hir : r = i
        · rw [if_pos hir, if_pos hr]
        · rw [if_neg hir]
          rcases hdead i hil hn1 hn2 with h | ⟨ha, hb⟩
          · exact absurd h.symm hir
          · exact hd i hil ha hb
      · apply List.ext_getElem?
        intro j
        by_cases hj : j < xs.length
        · rw [abs_getElem? _ j (by simp only; omega), hxs j hj, hph j hj]
          have hne : r ≠ phys ⟨els, r, w⟩ (j + 1) := by
            simp only [phys, Int.toNat_natCast]
            by_cases hc : r + (j + 1) < els.length
            · rw [if_pos hc]; omega
            · rw [if_neg hc]; omega
          rw [getD_set_ne _ _ _ _ hne]
        · rw [List.getElem?_eq_none (by rw [abs_length]; simp only; omega), List.getElem?_eq_none (by omega)]
    by_cases he1 : r + 1 = w
    · rw [if_pos he1]
      obtain ⟨hi', ha'⟩ := key 0 0 (by omega) (by omega) (by omega) (fun j hj => by omega) (by
        intro i hil _ _
        by_cases hir : i = r
        · exact Or.inl hir
        · exact Or.inr ⟨by omega, by omega⟩)
      exact ⟨_, rfl, hi', ha', by simp⟩
    · rw [if_neg he1]
      by_cases hw : els.length ≤ r + 1
      · rw [if_pos hw]
        obtain ⟨hi', ha'⟩ := key (r + 1 - els.length) (w - els.length) (by omega) (by omega) (by omega)
          (fun j hj => by
            simp only [phys, Int.toNat_natCast, List.length_set]
            rw [if_pos (by omega), if_neg (by omega)]; omega)
          (by
            intro i hil hn1 hn2
            by_cases hir : i = r
            · exact Or.inl hir
            · exact Or.inr ⟨by omega, by omega⟩)
        exact ⟨_, rfl, hi', ha', by simp⟩
      · rw [if_neg hw]
        obtain ⟨hi', ha'⟩ := key (r + 1) w (by omega) (by omega) (by omega)
          (fun j hj => by
            simp only [phys, Int.toNat_natCast, List.length_set]
            by_cases hc : r + 1 + j < els.length
            · rw [if_pos hc, if_pos (by omega)]; omega
            · rw [if_neg hc, if_neg (by omega)]; omega)
          (by
            intro i hil hn1 hn2
            by_cases hir : i = r
            · exact Or.inl hir
            · exact Or.inr ⟨by omega, by omega⟩)
        exact ⟨_, rfl, hi', ha', by simp⟩


theorem zeroRange_length (l : List Nat) (lo n : Nat) (h : lo ≤ l.length) : (zeroRange l lo n).length = l.length := by
  simp only [zeroRange, List.length_append, List.length_take, List.length_replicate, List.length_drop]
  omega

theorem zeroRange_getElem? (l : List Nat) (lo n i : Nat) (h : lo ≤ l.length) :
    (zeroRange l lo n)[i]? = if lo ≤ i ∧ i < lo + n ∧ i < l.length then some 0 else l[i]? := by
  unfold zeroRange
  have hl1 : (l.take lo).length = lo := by simp; omega
  by_cases h1 : i < lo
  · rw [if_neg (by omega), List.append_assoc, List.getElem?_append_left (by omega), List.getElem?_take, if_pos h1]
  · rw [List.append_assoc, List.getElem?_append_right (by omega), hl1]
    by_cases h2 : i - lo < min n (l.length - lo)
    · rw [List.getElem?_append_left (by simp; omega), List.getElem?_replicate, if_pos h2, if_pos (by omega)]
    · rw [List.getElem?_append_right (by simp; omega), List.length_replicate, List.getElem?_drop]
      by_cases h3 : i < l.length
      · rw [if_neg (by omega)]
        congr 1; omega
      · rw [if_neg (by omega), List.getElem?_eq_none (by omega), List.getElem?_eq_none (by omega)]

/-- `Clear` never panics, empties the queue, keeps the capacity (and zeroes every cell). -/
theorem clear_spec (els : List Nat) (r w : Nat) (hi : Inv ⟨els, r, w⟩) :
    ∃ s', clear ⟨els, r, w⟩ = some s' ∧ Inv s' ∧ abs s' = [] ∧ s'.elements.length = els.length := by
  have hd := hi.dead
  have h1 : r ≤ w := by have := hi.rw; simp only at this; omega
  have h2 : w - r ≤ els.length := by have := hi.wc; simp only at this; omega
  have h3 : r < els.length ∨ (els.length = 0 ∧ r = 0) := by have := hi.rc; simp only at this; omega
  simp only at hd
  obtain ⟨s1, s2, es, _, e1, e2⟩ := slices_spec els r w hi
  have hl1 : s1.length = min w els.length - r := by rw [e1]; simp; omega
  have hl2 : s2.length = w - els.length := by rw [e2]; simp; omega
  unfold clear
  rw [es]
  dsimp only
  rw [Int.toNat_natCast, hl1, hl2]
  have hlen1 : (zeroRange els r (min w els.length - r)).length = els.length := zeroRange_length _ _ _ (by omega)
  have hlen2 : (zeroRange (zeroRange els r (min w els.length - r)) 0 (w - els.length)).length = els.length := by
    rw [zeroRange_length _ _ _ (by omega), hlen1]
  refine ⟨_, rfl, ⟨by simp, by simp, by simp, ?_, ?_⟩, ?_, hlen2⟩
  · simp only [hlen2]
    by_cases hz : els.length = 0
    · exact Or.inr ⟨hz, trivial⟩
    · exact Or.inl (by omega)
  · intro i hil _ _
    simp only [hlen2] at hil
    rw [zeroRange_getElem? _ _ _ _ (by omega), hlen1]
    by_cases hc1 : i < w - els.length
    · rw [if_pos (by omega)]
    · rw [if_neg (by omega), zeroRange_getElem? _ _ _ _ (by omega)]
      by_cases hc2 : r ≤ i ∧ i < min w els.length
      · rw [if_pos (by omega)]
      · rw [if_neg (by omega)]
        exact hd i hil (by omega) (by omega)
  · apply List.eq_nil_of_length_eq_zero
    rw [abs_length]; rfl


/-- A store through `IndexRef(pos)` for a position inside the queue replaces exactly that element. -/
theorem indexSet_spec (els : List Nat) (r w : Nat) (hi : Inv ⟨els, r, w⟩) (p : Nat) (v : Nat) (hp : p < w - r) :
    ∃ s', indexSet ⟨els, r, w⟩ p v = some s' ∧ Inv s' ∧ abs s' = (abs ⟨els, r, w⟩).set p v ∧
      s'.elements.length = els.length := by
  have hd := hi.dead
  have h1 : r ≤ w := by have := hi.rw; simp only at this; omega
  have h2 : w - r ≤ els.length := by have := hi.wc; simp only at this; omega
  have h3 : r < els.length := by have := hi.rc; simp only at this; omega
  simp only at hd
  -- the physical cell
  have hq : ∃ q : Nat, q < els.length ∧ q = phys ⟨els, r, w⟩ p ∧
      indexSet ⟨els, r, w⟩ p v = some ⟨els.set q v, r, w⟩ := by
    unfold indexSet
    dsimp only
    rw [if_neg (by omega)]
    by_cases hc : r + p < els.length
    · refine ⟨r + p, hc, ?_, ?_⟩
      · simp only [phys, Int.toNat_natCast]; rw [if_pos hc]
      · rw [if_pos (by omega), goSet_nat els _ (r + p) v (by omega) hc]
    · refine ⟨r + p - els.length, by omega, ?_, ?_⟩
      · simp only [phys, Int.toNat_natCast]; rw [if_neg hc]
      · rw [if_neg (by omega), if_neg (by omega), goSet_nat els _ (r + p - els.length) v (by omega) (by omega)]
  obtain ⟨q, hql, hqp, e⟩ := hq
  have hqv : q = if r + p < els.length then r + p else r + p - els.length := by
    rw [hqp]; simp only [phys, Int.toNat_natCast]
  refine ⟨_, e, ⟨by simp, by simp only; omega, by simp only [List.length_set]; omega,
    Or.inl (by simp only [List.length_set]; omega), ?_⟩, ?_, by simp⟩
  · intro i hil hn1 hn2
    simp only [List.length_set] at hil hn1 hn2
    have hne : q ≠ i := by
      rw [hqv]; by_cases hc : r + p < els.length
      · rw [if_pos hc]; omega
      · rw [if_neg hc]; omega
    rw [List.getElem?_set, if_neg hne]
    exact hd i hil hn1 hn2
  · apply List.ext_getElem?
    intro j
    by_cases hj : j < w - r
    · rw [abs_getElem? _ j (by simp only; omega), List.getElem?_set]
      have hph : phys ⟨els.set q v, r, w⟩ j = phys ⟨els, r, w⟩ j := by simp [phys]
      rw [hph]
      by_cases hjp : p = j
      · subst hjp
        rw [if_pos rfl, if_pos (by rw [abs_length]; simp only; omega), ← hqp, getD_set_eq _ _ _ hql]
      · rw [if_neg hjp, abs_getElem? _ j (by simp only; omega)]
        have hne : q ≠ phys ⟨els, r, w⟩ j := by
          rw [hqv]; simp only [phys, Int.toNat_natCast]
          by_cases hc : r + p < els.length
          · rw [if_pos hc]
            by_cases hc2 : r + j < els.length
            · rw [if_pos hc2]; omega
            · rw [if_neg hc2]; omega
          · rw [if_neg hc]
            by_cases hc2 : r + j < els.length
            · rw [if_pos hc2]; omega
            · rw [if_neg hc2]; omega
        rw [getD_set_ne _ _ _ _ hne]
    · rw [List.getElem?_eq_none (by rw [abs_length]; simp only; omega),
        List.getElem?_eq_none (by rw [List.length_set, abs_length]; simp only; omega)]

theorem indexSet_neg (s : CS) (pos : Int) (v : Nat) (h : pos < 0) : indexSet s pos v = none := by
  simp [indexSet, h]


theorem goSet_length {l l' : List Nat} {i : Int} {x : Nat} (h : goSet l i x = some l') : l'.length = l.length := by
  unfold goSet at h
  split at h
  · cases h
  · split at h
    · cases h; simp
    · cases h

theorem indexSet_length {s s' : CS} {pos : Int} {v : Nat} (h : indexSet s pos v = some s') :
    s'.elements.length = s.elements.length := by
  unfold indexSet at h
  dsimp only at h
  split at h
  · cases h
  · split at h
    · split at h
      · cases h
      · rename_i els he; cases h; exact goSet_length he
    · split at h
      · cases h
      · split at h
        · cases h
        · rename_i els he; cases h; exact goSet_length he

end CS

/-! ## Refinement of the step function to a pair of FIFO lists -/


/-- The reference container: a pair of FIFO lists (front first). -/
def specQ (st : List Nat × List Nat) : QOp → List Nat × List Nat
  | .push x => (st.1 ++ [x], st.2)
  | .pop => (st.1.tail, st.2)
  | .clear => ([], st.2)
  | .swap => (st.2, st.1)
  | .deepAssign => (st.2, st.2)
  | .indexSet pos v => if 0 ≤ pos ∧ pos < st.1.length then (st.1.set pos.toNat v, st.2) else st
  | _ => st

/-- Documented use: a store through `IndexRef` only at a position inside the queue (a negative position panics
and is harmless; a position beyond the end may silently write a cell outside the live window). -/
def QOp.ok (a : List Nat) : QOp → Prop
  | .indexSet pos _ => pos < a.length
  | _ => True

instance (a : List Nat) (op : QOp) : Decidable (QOp.ok a op) := by
  cases op <;> unfold QOp.ok <;> infer_instance

/-- What the reference allows as observation of `op` on a queue with content `a`. -/
def QObsOk (a : List Nat) : QOp → QObs → Prop
  | .push _, o => o = .done
  | .reserve _, o => o = .done
  | .clear, o => o = .done
  | .swap, o => o = .done
  | .deepAssign, o => o = .done
  | .pop, o => o = (match a.head? with | none => .panic | some x => .val x)
  | .front, o => o = (match a.head? with | none => .panic | some x => .val x)
  | .index pos, o =>
    (pos < 0 → o = .panic) ∧
    (0 ≤ pos → pos < a.length → ∃ x, a[pos.toNat]? = some x ∧ o = .val x) ∧
    (a.length ≤ pos → o = .panic ∨ o = .val 0)
  | .indexSet pos _, o => (pos < 0 → o = .panic) ∧ (0 ≤ pos → pos < a.length → o = .done)
  | .len, o => o = .int a.length
  | .cap, o => ∃ c : Int, o = .int c ∧ a.length ≤ c
  | .slices, o => ∃ s1 s2, o = .two s1 s2 ∧ s1 ++ s2 = a

namespace CS

theorem apply_refines (s o : CS) (hs : Inv s) (ho : Inv o) (op : QOp) (hok : QOp.ok (abs s) op) :
    Inv (apply (s, o) op).1.1 ∧ Inv (apply (s, o) op).1.2 ∧
    (abs (apply (s, o) op).1.1, abs (apply (s, o) op).1.2) = specQ (abs s, abs o) op ∧
    QObsOk (abs s) op (apply (s, o) op).2 := by
  obtain ⟨els, rp, wp⟩ := s
  obtain ⟨r, w, rfl, rfl, h1, h2, h3⟩ := hs.nat
  cases op with
  | push x =>
    obtain ⟨s', e, hi', ha', _⟩ := pushBack_spec els r w hs x
    simp only [apply, e, specQ, QObsOk]
    exact ⟨hi', ho, by rw [ha'], trivial⟩
  | pop =>
    obtain ⟨hp1, hp2⟩ := popFront_spec els r w hs
    cases hab : abs ⟨els, r, w⟩ with
    | nil =>
      simp only [apply, hp1 hab, specQ, QObsOk, hab]
      exact ⟨hs, ho, by simp, by simp⟩
    | cons x xs =>
      obtain ⟨s', e, hi', ha', _⟩ := hp2 x xs hab
      simp only [apply, e, specQ, QObsOk]
      exact ⟨hi', ho, by simp [ha'], by simp⟩
  | front =>
    simp only [apply, specQ, QObsOk, front_spec _ hs]
    refine ⟨hs, ho, trivial, ?_⟩
    cases (abs ⟨els, r, w⟩).head? <;> rfl
  | index pos =>
    obtain ⟨i1, i2, i3⟩ := index_spec _ hs pos
    simp only [apply, specQ, QObsOk]
    refine ⟨hs, ho, trivial, fun h => by rw [i1 h], fun h0 hl => ?_, fun hl => ?_⟩
    · have hlt : pos.toNat < (abs ⟨els, r, w⟩).length := by omega
      refine ⟨(abs ⟨els, r, w⟩)[pos.toNat], List.getElem?_eq_getElem hlt, ?_⟩
      rw [i2 h0 hl, List.getElem?_eq_getElem hlt]
    · rcases i3 hl with h | h
      · left; rw [h]
      · right; rw [h]
  | indexSet pos v =>
    simp only [QOp.ok, abs_length] at hok
    by_cases h0 : pos < 0
    · simp only [apply, indexSet_neg _ pos v h0, specQ, QObsOk]
      rw [if_neg (by omega)]
      exact ⟨hs, ho, rfl, fun _ => trivial, fun h => by omega⟩
    · obtain ⟨p, rfl⟩ := Int.eq_ofNat_of_zero_le (by omega : 0 ≤ pos)
      obtain ⟨s', e, hi', ha', _⟩ := indexSet_spec els r w hs p v (by omega)
      simp only [apply, e, specQ, QObsOk]
      rw [if_pos (by rw [abs_length]; simp only; omega)]
      exact ⟨hi', ho, by rw [ha']; simp, fun h => by omega, fun _ _ => trivial⟩
  | reserve n =>
    obtain ⟨s', e, hi', ha', _⟩ := reserve_spec els r w hs n
    simp only [apply, e, specQ, QObsOk]
    exact ⟨hi', ho, by rw [ha'], trivial⟩
  | clear =>
    obtain ⟨s', e, hi', ha', _⟩ := clear_spec els r w hs
    simp only [apply, e, specQ, QObsOk]
    exact ⟨hi', ho, by rw [ha'], trivial⟩
  | swap => exact ⟨ho, hs, rfl, rfl⟩
  | deepAssign =>
    obtain ⟨els2, rp2, wp2⟩ := o
    exact ⟨ho, ho, rfl, rfl⟩
  | len =>
    refine ⟨hs, ho, rfl, ?_⟩
    simp only [apply, QObsOk, len, abs_length]
    congr 1; omega
  | cap =>
    refine ⟨hs, ho, rfl, ?_⟩
    simp only [apply, QObsOk, cap, abs_length]
    exact ⟨_, rfl, by omega⟩
  | slices =>
    obtain ⟨s1, s2, e, hcat, _, _⟩ := slices_spec els r w hs
    simp only [apply, e, QObsOk]
    exact ⟨hs, ho, rfl, s1, s2, rfl, hcat⟩

end CS

/-- Observations of a whole history are allowed by the reference, step by step. -/
def ObsListOk : List Nat × List Nat → List QOp → List QObs → Prop
  | _, [], [] => True
  | st, op :: ops, o :: os => QObsOk st.1 op o ∧ ObsListOk (specQ st op) ops os
  | _, _, _ => False

/-- Every `IndexRef` store of the history is at a position inside the queue at that time (decidable guard). -/
def OpsOk : List Nat × List Nat → List QOp → Prop
  | _, [] => True
  | st, op :: ops => QOp.ok st.1 op ∧ OpsOk (specQ st op) ops

instance OpsOk.dec : ∀ (st : List Nat × List Nat) (ops : List QOp), Decidable (OpsOk st ops)
  | _, [] => isTrue trivial
  | st, op :: ops =>
    have := OpsOk.dec (specQ st op) ops
    (inferInstance : Decidable (QOp.ok st.1 op ∧ OpsOk (specQ st op) ops))

namespace CS

theorem run_refines : ∀ (ops : List QOp) (s o : CS), Inv s → Inv o → OpsOk (abs s, abs o) ops →
    Inv (run (s, o) ops).1.1 ∧ Inv (run (s, o) ops).1.2 ∧
    (abs (run (s, o) ops).1.1, abs (run (s, o) ops).1.2) = ops.foldl specQ (abs s, abs o) ∧
    ObsListOk (abs s, abs o) ops (run (s, o) ops).2 := by
  intro ops
  induction ops with
  | nil => intro s o hs ho _; exact ⟨hs, ho, rfl, trivial⟩
  | cons op ops ih =>
    intro s o hs ho hok
    obtain ⟨h1, h2, h3, h4⟩ := apply_refines s o hs ho op hok.1
    obtain ⟨g1, g2, g3, g4⟩ := ih _ _ h1 h2 (by rw [h3]; exact hok.2)
    simp only [run, List.foldl_cons]
    rw [← h3]
    exact ⟨g1, g2, g3, h4, by rw [← h3]; exact g4⟩

/-- Capacity: `Reserve n` makes it at least `n`; no method of one slice ever shrinks its capacity or touches the
other slice (only `Swap`/`DeepAssign` exchange/copy whole slices). -/
theorem apply_cap (s o : CS) (hs : Inv s) (op : QOp) (h1 : op ≠ .swap) (h2 : op ≠ .deepAssign) :
    s.cap ≤ (apply (s, o) op).1.1.cap ∧ (apply (s, o) op).1.2 = o ∧
    (∀ n, op = .reserve n → n ≤ (apply (s, o) op).1.1.cap) := by
  obtain ⟨els, rp, wp⟩ := s
  obtain ⟨r, w, rfl, rfl, _, _, _⟩ := hs.nat
  cases op with
  | push x =>
    obtain ⟨s', e, _, _, hl⟩ := pushBack_spec els r w hs x
    simp only [apply, e, cap]
    exact ⟨by omega, trivial, fun n hn => by cases hn⟩
  | pop =>
    obtain ⟨hp1, hp2⟩ := popFront_spec els r w hs
    cases hab : abs ⟨els, r, w⟩ with
    | nil =>
      simp only [apply, hp1 hab]
      exact ⟨Int.le_refl _, trivial, fun n hn => by cases hn⟩
    | cons x xs =>
      obtain ⟨s', e, _, _, hl⟩ := hp2 x xs hab
      simp only [apply, e, cap]
      exact ⟨by omega, trivial, fun n hn => by cases hn⟩
  | reserve n =>
    obtain ⟨s', e, _, _, ha, hb⟩ := reserve_spec els r w hs n
    simp only [apply, e, cap]
    by_cases hn : n ≤ els.length
    · rw [ha hn]
      exact ⟨Int.le_refl _, trivial, fun m hm => by cases hm; exact hn⟩
    · obtain ⟨hl, _, _⟩ := hb (by omega)
      exact ⟨by omega, trivial, fun m hm => by cases hm; omega⟩
  | clear =>
    obtain ⟨s', e, _, _, hl⟩ := clear_spec els r w hs
    simp only [apply, e, cap]
    exact ⟨by omega, trivial, fun n hn => by cases hn⟩
  | swap => exact absurd rfl h1
  | deepAssign => exact absurd rfl h2
  | indexSet pos v =>
    cases e : indexSet ⟨els, r, w⟩ pos v with
    | none => simp only [apply, e]; exact ⟨Int.le_refl _, trivial, fun n hn => by cases hn⟩
    | some s' =>
      have := indexSet_length e
      simp only [apply, e, cap]
      exact ⟨by simp only at this; omega, trivial, fun n hn => by cases hn⟩
  | front => exact ⟨Int.le_refl _, rfl, fun n hn => by cases hn⟩
  | index pos => exact ⟨Int.le_refl _, rfl, fun n hn => by cases hn⟩
  | len => exact ⟨Int.le_refl _, rfl, fun n hn => by cases hn⟩
  | cap => exact ⟨Int.le_refl _, rfl, fun n hn => by cases hn⟩
  | slices => exact ⟨Int.le_refl _, rfl, fun n hn => by cases hn⟩

end CS
end TLVerif.Algo
