/-! Executable model of `internal/vkgo/pkg/algo/tree_map.go`, written the way the Go code is written.

* `Tree` is `*TreeNode[Entry[K,V]]`: `nil` or a node with entry `(k, v)`, `left`, `right` and the **stored**
  `height` field. Keys are `Int` with the comparator `Cmp(a, b) = a < b`; values are `Nat`.
* Every function that dereferences a pointer returns `Option`; `none` is the Go panic (nil dereference or an
  explicit `panic(...)`), so "never panics" is a theorem and not an artefact of totalisation.
* `leafH` is the constant that `insert` stores into the `height` field of a freshly allocated leaf
  (`n.height = 0` in the source). It is not copied here: the driver and the property theorems instantiate it
  with `TLVerif.Facts.Algo.newLeafHeight`, regenerated from the source on every run.
* The allocator (`SliceCacheAllocator`) hands out zeroed nodes (`deallocate` assigns the empty value), so
  allocation is modelled as construction of a fresh node.  -/
namespace TLVerif.Algo

inductive Tree where
  | nil : Tree
  | node (k : Int) (v : Nat) (l r : Tree) (h : Nat) : Tree
deriving Repr, Inhabited

namespace Tree

/-- `getHeight`: 0 for nil, else the stored field. -/
def getHeight : Tree → Nat
  | nil => 0
  | node _ _ _ _ h => h

/-- `calcBalance`: 0 for nil, else `right.getHeight() - left.getHeight()` (signed). -/
def calcBalance : Tree → Int
  | nil => 0
  | node _ _ l r _ => (r.getHeight : Int) - (l.getHeight : Int)

/-- A node whose height field has just been recomputed by `updateHeight`. -/
def mk (k : Int) (v : Nat) (l r : Tree) : Tree :=
  node k v l r (1 + max l.getHeight r.getHeight)

/-- `updateHeight` (nil receiver: nil dereference). -/
def updateHeight : Tree → Option Tree
  | nil => none
  | node k v l r _ => some (mk k v l r)

/-- `rotateRight`: `l := n.left; n.left = l.right; l.right = n; n.updateHeight(); l.updateHeight()`. -/
def rotateRight : Tree → Option Tree
  | node k v (node lk lv ll lr _) r _ => some (mk lk lv ll (mk k v lr r))
  | _ => none

/-- `rotateLeft`. -/
def rotateLeft : Tree → Option Tree
  | node k v l (node rk rv rl rr _) _ => some (mk rk rv (mk k v l rl) rr)
  | _ => none

/-- `bigRotateRight`: `n.left = n.left.rotateLeft(); return n.rotateRight()`. -/
def bigRotateRight : Tree → Option Tree
  | nil => none
  | node k v l r h =>
    match rotateLeft l with
    | none => none
    | some l' => rotateRight (node k v l' r h)

/-- `bigRotateLeft`. -/
def bigRotateLeft : Tree → Option Tree
  | nil => none
  | node k v l r h =>
    match rotateRight r with
    | none => none
    | some r' => rotateLeft (node k v l r' h)

/-- `repairBalance`. -/
def repairBalance : Tree → Option Tree
  | nil => none
  | node k v l r _ =>
    let n := mk k v l r
    if n.calcBalance = 2 then
      if r.calcBalance = -1 then bigRotateLeft n else rotateLeft n
    else if n.calcBalance = -2 then
      if l.calcBalance = 1 then bigRotateRight n else rotateRight n
    else some n

/-- `insert` (recursive, as in the source). A fresh leaf gets `height = leafH`. -/
def insert (leafH : Nat) : Tree → Int → Nat → Option Tree
  | nil, k, v => some (node k v nil nil leafH)
  | node nk nv l r h, k, v =>
    if nk < k then
      match insert leafH r k v with
      | none => none
      | some r' => repairBalance (node nk nv l r' h)
    else if k < nk then
      match insert leafH l k v with
      | none => none
      | some l' => repairBalance (node nk nv l' r h)
    else repairBalance (node k v l r h)

/-- `extractMin`: `(minimum entry, new subtree root)`; explicit panic on nil. -/
def extractMin : Tree → Option ((Int × Nat) × Tree)
  | nil => none
  | node k v nil r _ => some ((k, v), r)
  | node k v (node lk lv ll lr lh) r h =>
    match extractMin (node lk lv ll lr lh) with
    | none => none
    | some (e, l') =>
      match repairBalance (node k v l' r h) with
      | none => none
      | some t => some (e, t)

/-- `remove`. -/
def remove : Tree → Int → Option Tree
  | nil, _ => some nil
  | node nk nv l r h, k =>
    if nk < k then
      match remove r k with
      | none => none
      | some r' => repairBalance (node nk nv l r' h)
    else if k < nk then
      match remove l k with
      | none => none
      | some l' => repairBalance (node nk nv l' r h)
    else
      match l, r with
      | nil, _ => some r
      | _, nil => some l
      | _, _ =>
        match extractMin r with
        | none => none
        | some ((mk', mv), r') => repairBalance (node mk' mv l r' h)

/-- `findMin` (explicit panic on nil). Returns the entry of the node found. -/
def findMin : Tree → Option (Int × Nat)
  | nil => none
  | node k v nil _ _ => some (k, v)
  | node _ _ (node lk lv ll lr lh) _ _ => findMin (node lk lv ll lr lh)

/-- `findMax`. -/
def findMax : Tree → Option (Int × Nat)
  | nil => none
  | node k v _ nil _ => some (k, v)
  | node _ _ _ (node rk rv rl rr rh) _ => findMax (node rk rv rl rr rh)

/-- `find`: the entry of the node with this key, `none` when the loop reaches nil (this `none` is *not* a panic). -/
def find : Tree → Int → Option (Int × Nat)
  | nil, _ => none
  | node nk nv l r _, k =>
    if nk < k then find r k
    else if k < nk then find l k
    else some (nk, nv)

/-- A store through the pointer returned by `GetPtr` (`&n.value.V` of the node `find` stops at): the value of
that node is replaced in place; nothing else changes. -/
def setValue : Tree → Int → Nat → Tree
  | nil, _, _ => nil
  | node nk nv l r h, k, v =>
    if nk < k then node nk nv l (setValue r k v) h
    else if k < nk then node nk nv (setValue l k v) r h
    else node nk v l r h

/-- `validate`: `true` = returns normally, `false` = `log.Panicf`. -/
def validate : Tree → Option Int → Option Int → Bool
  | nil, _, _ => true
  | node k _ l r _, lo, hi =>
    (match lo with | some b => decide (b < k) | none => true) &&
    (match hi with | some b => decide (k < b) | none => true) &&
    validate l lo (some k) && validate r (some k) hi

/-! Observation helpers (not part of the Go code): in-order contents, real height, real balance. -/

def inorder : Tree → List (Int × Nat)
  | nil => []
  | node k v l r _ => inorder l ++ (k, v) :: inorder r

def size : Tree → Nat
  | nil => 0
  | node _ _ l r _ => size l + 1 + size r

/-- The real height (number of nodes on the longest root-to-leaf path). -/
def realHeight : Tree → Nat
  | nil => 0
  | node _ _ l r _ => 1 + max (realHeight l) (realHeight r)

/-- Largest `|realHeight right - realHeight left|` over all nodes. -/
def maxRealBalance : Tree → Nat
  | nil => 0
  | node _ _ l r _ =>
    max (max (realHeight l - realHeight r) (realHeight r - realHeight l)) (max (maxRealBalance l) (maxRealBalance r))

end Tree

/-! The exported `TreeMap` methods. `Outcome.panic` is a recovered Go panic (state unchanged: every panic
in these methods happens before any mutation or leaves `t.root` unassigned). -/

structure TreeMap where
  root : Tree
deriving Inhabited

namespace TreeMap

def empty : TreeMap := ⟨.nil⟩

/-- `Get`: `(value, exists)`. -/
def get (t : TreeMap) (k : Int) : Option Nat := (t.root.find k).map (·.2)

/-- `Set`; `none` = panic (then `t.root` keeps its old value: the assignment is never reached). -/
def set (leafH : Nat) (t : TreeMap) (k : Int) (v : Nat) : Option TreeMap :=
  (t.root.insert leafH k v).map (⟨·⟩)

/-- `Delete`. -/
def delete (t : TreeMap) (k : Int) : Option TreeMap := (t.root.remove k).map (⟨·⟩)

/-- `if p := t.GetPtr(k); p != nil { *p = v }`: new state and whether the pointer was non-nil. -/
def update (t : TreeMap) (k : Int) (v : Nat) : TreeMap × Bool :=
  match t.root.find k with
  | none => (t, false)
  | some _ => (⟨t.root.setValue k v⟩, true)

def isEmpty (t : TreeMap) : Bool := match t.root with | .nil => true | _ => false

/-- `Front`: panics on the empty map. -/
def front (t : TreeMap) : Option (Int × Nat) := t.root.findMin

/-- `Back`. -/
def back (t : TreeMap) : Option (Int × Nat) := t.root.findMax

/-- `LenMoreThan1`. -/
def lenMoreThan1 (t : TreeMap) : Bool :=
  match t.root with
  | .nil => false
  | .node _ _ .nil .nil _ => false
  | _ => true

end TreeMap
end TLVerif.Algo
