import TLVerif.Algo.Avl
/-! Lemmas about the tree-map model: rotations keep the in-order contents; refinement of insert/remove/find/
findMin/findMax to operations on sorted association lists; the stored-height invariant. -/
namespace TLVerif.Algo

abbrev Entries := List (Int × Nat)

/-! ## The reference container: a key-sorted association list -/

/-- Strictly increasing keys. -/
def SortedKeys (l : Entries) : Prop := l.Pairwise (fun a b => a.1 < b.1)

def specInsert (k : Int) (v : Nat) : Entries → Entries
  | [] => [(k, v)]
  | (a, b) :: t =>
    if a < k then (a, b) :: specInsert k v t
    else if k < a then (k, v) :: (a, b) :: t
    else (k, v) :: t

def specErase (k : Int) : Entries → Entries
  | [] => []
  | (a, b) :: t =>
    if a < k then (a, b) :: specErase k t
    else if k < a then (a, b) :: t
    else t

def specLookup (k : Int) : Entries → Option (Int × Nat)
  | [] => none
  | (a, b) :: t =>
    if a < k then specLookup k t
    else if k < a then none
    else some (a, b)

theorem specInsert_append_lt (k : Int) (v : Nat) (xs : Entries) (a : Int) (b : Nat) (ys : Entries) (h : k < a) :
    specInsert k v (xs ++ (a, b) :: ys) = specInsert k v xs ++ (a, b) :: ys := by
  induction xs with
  | nil =>
    have h' : ¬ a < k := by omega
    simp [specInsert, h', h]
  | cons x xs ih =>
    obtain ⟨xa, xb⟩ := x
    simp only [List.cons_append, specInsert]
    split
    · rw [ih]; rfl
    · split <;> rfl

theorem specInsert_append_gt (k : Int) (v : Nat) (xs : Entries) (a : Int) (b : Nat) (ys : Entries)
    (hx : ∀ x ∈ xs, x.1 < k) (h : a < k) :
    specInsert k v (xs ++ (a, b) :: ys) = xs ++ (a, b) :: specInsert k v ys := by
  induction xs with
  | nil => simp [specInsert, h]
  | cons x xs ih =>
    obtain ⟨xa, xb⟩ := x
    have h1 : xa < k := hx (xa, xb) (by simp)
    simp only [List.cons_append, specInsert, if_pos h1]
    rw [ih (fun y hy => hx y (by simp [hy]))]

theorem specInsert_append_eq (k : Int) (v : Nat) (xs : Entries) (b : Nat) (ys : Entries)
    (hx : ∀ x ∈ xs, x.1 < k) :
    specInsert k v (xs ++ (k, b) :: ys) = xs ++ (k, v) :: ys := by
  induction xs with
  | nil => simp [specInsert]
  | cons x xs ih =>
    obtain ⟨xa, xb⟩ := x
    have h1 : xa < k := hx (xa, xb) (by simp)
    simp only [List.cons_append, specInsert, if_pos h1]
    rw [ih (fun y hy => hx y (by simp [hy]))]

theorem specErase_append_lt (k : Int) (xs : Entries) (a : Int) (b : Nat) (ys : Entries)
    (hs : SortedKeys (xs ++ (a, b) :: ys)) (h : k < a) :
    specErase k (xs ++ (a, b) :: ys) = specErase k xs ++ (a, b) :: ys := by
  induction xs with
  | nil =>
    have h' : ¬ a < k := by omega
    simp [specErase, h', h]
  | cons x xs ih =>
    obtain ⟨xa, xb⟩ := x
    simp only [List.cons_append, specErase]
    have hs' : SortedKeys (xs ++ (a, b) :: ys) := (List.pairwise_cons.mp hs).2
    split
    · rw [ih hs']; rfl
    · split <;> rfl

theorem specErase_append_gt (k : Int) (xs : Entries) (a : Int) (b : Nat) (ys : Entries)
    (hx : ∀ x ∈ xs, x.1 < k) (h : a < k) :
    specErase k (xs ++ (a, b) :: ys) = xs ++ (a, b) :: specErase k ys := by
  induction xs with
  | nil => simp [specErase, h]
  | cons x xs ih =>
    obtain ⟨xa, xb⟩ := x
    have h1 : xa < k := hx (xa, xb) (by simp)
    simp only [List.cons_append, specErase, if_pos h1]
    rw [ih (fun y hy => hx y (by simp [hy]))]

theorem specErase_append_eq (k : Int) (xs : Entries) (b : Nat) (ys : Entries)
    (hx : ∀ x ∈ xs, x.1 < k) :
    specErase k (xs ++ (k, b) :: ys) = xs ++ ys := by
  induction xs with
  | nil => simp [specErase]
  | cons x xs ih =>
    obtain ⟨xa, xb⟩ := x
    have h1 : xa < k := hx (xa, xb) (by simp)
    simp only [List.cons_append, specErase, if_pos h1]
    rw [ih (fun y hy => hx y (by simp [hy]))]

theorem specLookup_append_lt (k : Int) (xs : Entries) (a : Int) (b : Nat) (ys : Entries) (h : k < a) :
    specLookup k (xs ++ (a, b) :: ys) = specLookup k xs := by
  induction xs with
  | nil =>
    have h' : ¬ a < k := by omega
    simp [specLookup, h', h]
  | cons x xs ih =>
    obtain ⟨xa, xb⟩ := x
    simp only [List.cons_append, specLookup]
    rw [ih]

theorem specLookup_append_gt (k : Int) (xs : Entries) (a : Int) (b : Nat) (ys : Entries)
    (hx : ∀ x ∈ xs, x.1 < k) (h : a < k) :
    specLookup k (xs ++ (a, b) :: ys) = specLookup k ys := by
  induction xs with
  | nil => simp [specLookup, h]
  | cons x xs ih =>
    obtain ⟨xa, xb⟩ := x
    have h1 : xa < k := hx (xa, xb) (by simp)
    simp only [List.cons_append, specLookup, if_pos h1]
    rw [ih (fun y hy => hx y (by simp [hy]))]

theorem specLookup_append_eq (k : Int) (xs : Entries) (b : Nat) (ys : Entries)
    (hx : ∀ x ∈ xs, x.1 < k) :
    specLookup k (xs ++ (k, b) :: ys) = some (k, b) := by
  induction xs with
  | nil => simp [specLookup]
  | cons x xs ih =>
    obtain ⟨xa, xb⟩ := x
    have h1 : xa < k := hx (xa, xb) (by simp)
    simp only [List.cons_append, specLookup, if_pos h1]
    rw [ih (fun y hy => hx y (by simp [hy]))]

/-! ### The sorted-list operations are the map operations (so the reference container is an ordered map) -/

theorem mem_specInsert_imp {k : Int} {v : Nat} {l : Entries} {x : Int × Nat} (h : x ∈ specInsert k v l) :
    x = (k, v) ∨ x ∈ l := by
  induction l with
  | nil => simp [specInsert] at h; exact Or.inl h
  | cons y t ih =>
    obtain ⟨a, b⟩ := y
    simp only [specInsert] at h
    split at h
    · rcases List.mem_cons.mp h with h | h
      · right; simp [h]
      · rcases ih h with h | h
        · left; exact h
        · right; simp [h]
    · split at h
      · rcases List.mem_cons.mp h with h | h
        · left; exact h
        · right; exact h
      · rcases List.mem_cons.mp h with h | h
        · left; exact h
        · right; simp [h]

theorem mem_specErase_imp {k : Int} {l : Entries} {x : Int × Nat} (h : x ∈ specErase k l) : x ∈ l := by
  induction l with
  | nil => simp [specErase] at h
  | cons y t ih =>
    obtain ⟨a, b⟩ := y
    simp only [specErase] at h
    split at h
    · rcases List.mem_cons.mp h with h | h
      · simp [h]
      · simp [ih h]
    · split at h
      · exact h
      · simp [h]

theorem sorted_specInsert (k : Int) (v : Nat) (l : Entries) (hs : SortedKeys l) : SortedKeys (specInsert k v l) := by
  induction l with
  | nil => simp [specInsert, SortedKeys]
  | cons y t ih =>
    obtain ⟨a, b⟩ := y
    have ht : SortedKeys t := (List.pairwise_cons.mp hs).2
    have hy : ∀ x ∈ t, a < x.1 := (List.pairwise_cons.mp hs).1
    simp only [specInsert]
    split
    · rename_i hak
      refine List.pairwise_cons.mpr ⟨?_, ih ht⟩
      intro x hx
      rcases mem_specInsert_imp hx with h | h
      · subst h; exact hak
      · exact hy x h
    · split
      · rename_i h1 h2
        refine List.pairwise_cons.mpr ⟨?_, hs⟩
        intro x hx
        rcases List.mem_cons.mp hx with h | h
        · subst h; exact h2
        · have := hy x h; show k < x.1; omega
      · rename_i h1 h2
        have : a = k := by omega
        subst this
        exact List.pairwise_cons.mpr ⟨hy, ht⟩

theorem sorted_specErase (k : Int) (l : Entries) (hs : SortedKeys l) : SortedKeys (specErase k l) := by
  induction l with
  | nil => simp [specErase, SortedKeys]
  | cons y t ih =>
    obtain ⟨a, b⟩ := y
    have ht : SortedKeys t := (List.pairwise_cons.mp hs).2
    have hy : ∀ x ∈ t, a < x.1 := (List.pairwise_cons.mp hs).1
    simp only [specErase]
    split
    · exact List.pairwise_cons.mpr ⟨fun x hx => hy x (mem_specErase_imp hx), ih ht⟩
    · split
      · exact hs
      · exact ht

/-- `specLookup` finds exactly the entries of a sorted list. -/
theorem specLookup_eq_some_iff (k : Int) (l : Entries) (hs : SortedKeys l) (e : Int × Nat) :
    specLookup k l = some e ↔ e ∈ l ∧ e.1 = k := by
  induction l with
  | nil => simp [specLookup]
  | cons y t ih =>
    obtain ⟨a, b⟩ := y
    have ht : SortedKeys t := (List.pairwise_cons.mp hs).2
    have hy : ∀ x ∈ t, a < x.1 := (List.pairwise_cons.mp hs).1
    simp only [specLookup]
    split
    · rename_i hak
      rw [ih ht]
      constructor
      · rintro ⟨h1, h2⟩; exact ⟨by simp [h1], h2⟩
      · rintro ⟨h1, h2⟩
        rcases List.mem_cons.mp h1 with h | h
        · subst h; simp at h2; omega
        · exact ⟨h, h2⟩
    · split
      · rename_i h1 h2
        constructor
        · intro h; cases h
        · rintro ⟨h3, h4⟩
          rcases List.mem_cons.mp h3 with h | h
          · subst h; simp at h4; omega
          · have := hy e h; omega
      · rename_i h1 h2
        have hak : a = k := by omega
        subst hak
        constructor
        · intro h; cases h; simp
        · rintro ⟨h3, h4⟩
          rcases List.mem_cons.mp h3 with h | h
          · rw [h]
          · have := hy e h; omega

/-- Entries of `specInsert k v l`: the new entry, and the old entries with a different key. -/
theorem mem_specInsert_iff (k : Int) (v : Nat) (l : Entries) (hs : SortedKeys l) (x : Int × Nat) :
    x ∈ specInsert k v l ↔ x = (k, v) ∨ (x ∈ l ∧ x.1 ≠ k) := by
  induction l with
  | nil => simp [specInsert]
  | cons y t ih =>
    obtain ⟨a, b⟩ := y
    have ht : SortedKeys t := (List.pairwise_cons.mp hs).2
    have hy : ∀ x ∈ t, a < x.1 := (List.pairwise_cons.mp hs).1
    simp only [specInsert]
    split
    · rename_i hak
      rw [List.mem_cons, ih ht, List.mem_cons]
      constructor
      · rintro (h | h | ⟨h1, h2⟩)
        · right; subst h; exact ⟨Or.inl rfl, by show a ≠ k; omega⟩
        · left; exact h
        · right; exact ⟨Or.inr h1, h2⟩
      · rintro (h | ⟨h1 | h1, h2⟩)
        · right; left; exact h
        · left; exact h1
        · right; right; exact ⟨h1, h2⟩
    · split
      · rename_i h1 h2
        rw [List.mem_cons]
        constructor
        · rintro (h | h)
          · left; exact h
          · right; refine ⟨h, ?_⟩
            rcases List.mem_cons.mp h with h | h
            · subst h; show a ≠ k; omega
            · have := hy x h; omega
        · rintro (h | ⟨h, _⟩)
          · left; exact h
          · right; exact h
      · rename_i h1 h2
        have hak : a = k := by omega
        subst hak
        rw [List.mem_cons, List.mem_cons]
        constructor
        · rintro (h | h)
          · left; exact h
          · right; exact ⟨Or.inr h, by have := hy x h; omega⟩
        · rintro (h | ⟨h | h, h3⟩)
          · left; exact h
          · subst h; exact absurd rfl h3
          · right; exact h

/-- Entries of `specErase k l`: the old entries with a different key. -/
theorem mem_specErase_iff (k : Int) (l : Entries) (hs : SortedKeys l) (x : Int × Nat) :
    x ∈ specErase k l ↔ x ∈ l ∧ x.1 ≠ k := by
  induction l with
  | nil => simp [specErase]
  | cons y t ih =>
    obtain ⟨a, b⟩ := y
    have ht : SortedKeys t := (List.pairwise_cons.mp hs).2
    have hy : ∀ x ∈ t, a < x.1 := (List.pairwise_cons.mp hs).1
    simp only [specErase]
    split
    · rename_i hak
      rw [List.mem_cons, ih ht, List.mem_cons]
      constructor
      · rintro (h | ⟨h1, h2⟩)
        · subst h; exact ⟨Or.inl rfl, by show a ≠ k; omega⟩
        · exact ⟨Or.inr h1, h2⟩
      · rintro ⟨h1 | h1, h2⟩
        · left; exact h1
        · right; exact ⟨h1, h2⟩
    · split
      · rename_i h1 h2
        constructor
        · intro h; refine ⟨h, ?_⟩
          rcases List.mem_cons.mp h with h | h
          · subst h; show a ≠ k; omega
          · have := hy x h; omega
        · rintro ⟨h, _⟩; exact h
      · rename_i h1 h2
        have hak : a = k := by omega
        subst hak
        rw [List.mem_cons]
        constructor
        · intro h; exact ⟨Or.inr h, by have := hy x h; omega⟩
        · rintro ⟨h | h, h3⟩
          · subst h; exact absurd rfl h3
          · exact h

/-! ## Rotations keep the in-order contents (unconditionally) -/

namespace Tree

@[simp] theorem inorder_mk (k : Int) (v : Nat) (l r : Tree) : inorder (mk k v l r) = inorder l ++ (k, v) :: inorder r := rfl
@[simp] theorem getHeight_mk (k : Int) (v : Nat) (l r : Tree) : (mk k v l r).getHeight = 1 + max l.getHeight r.getHeight := rfl

theorem rotateRight_inorder {t t' : Tree} (h : rotateRight t = some t') : inorder t' = inorder t := by
  unfold rotateRight at h
  split at h
  · cases h; simp [inorder]
  · cases h

theorem rotateLeft_inorder {t t' : Tree} (h : rotateLeft t = some t') : inorder t' = inorder t := by
  unfold rotateLeft at h
  split at h
  · cases h; simp [inorder]
  · cases h

theorem bigRotateRight_inorder {t t' : Tree} (h : bigRotateRight t = some t') : inorder t' = inorder t := by
  unfold bigRotateRight at h
  split at h
  · cases h
  · split at h
    · cases h
    · rename_i hl
      rw [rotateRight_inorder h]; simp [inorder, rotateLeft_inorder hl]

theorem bigRotateLeft_inorder {t t' : Tree} (h : bigRotateLeft t = some t') : inorder t' = inorder t := by
  unfold bigRotateLeft at h
  split at h
  · cases h
  · split at h
    · cases h
    · rename_i hl
      rw [rotateLeft_inorder h]; simp [inorder, rotateRight_inorder hl]

theorem repairBalance_inorder {t t' : Tree} (h : repairBalance t = some t') : inorder t' = inorder t := by
  unfold repairBalance at h
  split at h
  · cases h
  · simp only at h
    split at h
    · split at h
      · rw [bigRotateLeft_inorder h]; simp [inorder]
      · rw [rotateLeft_inorder h]; simp [inorder]
    · split at h
      · split at h
        · rw [bigRotateRight_inorder h]; simp [inorder]
        · rw [rotateRight_inorder h]; simp [inorder]
      · cases h; simp [inorder]

end Tree
/-! ## Refinement of the tree operations to the sorted association list -/

namespace Tree

theorem sortedKeys_node {l r : Tree} {k : Int} {v : Nat} (h : SortedKeys (inorder l ++ (k, v) :: inorder r)) :
    SortedKeys (inorder l) ∧ SortedKeys (inorder r) ∧ (∀ x ∈ inorder l, x.1 < k) ∧ (∀ y ∈ inorder r, k < y.1) := by
  unfold SortedKeys at *
  rw [List.pairwise_append] at h
  obtain ⟨h1, h2, h3⟩ := h
  rw [List.pairwise_cons] at h2
  exact ⟨h1, h2.2, fun x hx => h3 x hx (k, v) (by simp), h2.1⟩

theorem sortedKeys_node_mk {l r : Tree} {k : Int} {v : Nat} (h1 : SortedKeys (inorder l)) (h2 : SortedKeys (inorder r))
    (h3 : ∀ x ∈ inorder l, x.1 < k) (h4 : ∀ y ∈ inorder r, k < y.1) :
    SortedKeys (inorder l ++ (k, v) :: inorder r) := by
  unfold SortedKeys at *
  rw [List.pairwise_append]
  refine ⟨h1, List.pairwise_cons.mpr ⟨h4, h2⟩, ?_⟩
  intro x hx y hy
  rcases List.mem_cons.mp hy with h | h
  · subst h; exact h3 x hx
  · have := h3 x hx; have := h4 y h; omega

/-- `insert` refines `specInsert` (whenever it returns; that it always returns is `insert_hinv`). -/
theorem insert_inorder (c : Nat) (k : Int) (v : Nat) : ∀ (t t' : Tree), SortedKeys (inorder t) →
    insert c t k v = some t' → inorder t' = specInsert k v (inorder t) := by
  intro t
  induction t with
  | nil => intro t' _ h; simp [insert] at h; subst h; simp [inorder, specInsert]
  | node nk nv l r h ihl ihr =>
    intro t' hs h
    obtain ⟨hsl, hsr, hl, hr⟩ := sortedKeys_node hs
    simp only [insert] at h
    simp only [inorder]
    split at h
    · rename_i hlt
      split at h
      · cases h
      · rename_i r' hr'
        rw [repairBalance_inorder h]
        simp only [inorder]
        rw [ihr r' hsr hr', specInsert_append_gt k v _ nk nv _ (fun x hx => by have := hl x hx; omega) hlt]
    · split at h
      · rename_i hlt
        split at h
        · cases h
        · rename_i l' hl'
          rw [repairBalance_inorder h]
          simp only [inorder]
          rw [ihl l' hsl hl', specInsert_append_lt k v _ nk nv _ hlt]
      · rename_i h1 h2
        have : nk = k := by omega
        subst this
        rw [repairBalance_inorder h]
        simp only [inorder]
        rw [specInsert_append_eq nk v _ nv _ hl]

end Tree
namespace Tree

/-- `extractMin` splits off the first in-order entry. -/
theorem extractMin_inorder : ∀ (t t' : Tree) (e : Int × Nat), extractMin t = some (e, t') →
    inorder t = e :: inorder t' := by
  intro t
  induction t with
  | nil => intro t' e h; simp [extractMin] at h
  | node k v l r h ihl _ =>
    intro t' e hx
    cases l with
    | nil => simp [extractMin] at hx; obtain ⟨h1, h2⟩ := hx; subst h1; subst h2; simp [inorder]
    | node lk lv ll lr lh =>
      simp only [extractMin] at hx
      split at hx
      · cases hx
      · rename_i e' l' hl'
        split at hx
        · cases hx
        · rename_i t'' ht''
          cases hx
          have := repairBalance_inorder ht''
          rw [this]
          simp only [inorder] at *
          rw [ihl l' e hl']; simp

theorem remove_inorder (k : Int) : ∀ (t t' : Tree), SortedKeys (inorder t) →
    remove t k = some t' → inorder t' = specErase k (inorder t) := by
  intro t
  induction t with
  | nil => intro t' _ h; simp [remove] at h; subst h; simp [inorder, specErase]
  | node nk nv l r h ihl ihr =>
    intro t' hs h
    obtain ⟨hsl, hsr, hl, hr⟩ := sortedKeys_node hs
    simp only [remove] at h
    split at h
    · rename_i hlt
      split at h
      · cases h
      · rename_i r' hr'
        rw [repairBalance_inorder h]
        simp only [inorder]
        rw [ihr r' hsr hr', specErase_append_gt k _ nk nv _ (fun x hx => by have := hl x hx; omega) hlt]
    · split at h
      · rename_i hlt
        split at h
        · cases h
        · rename_i l' hl'
          rw [repairBalance_inorder h]
          simp only [inorder]
          rw [ihl l' hsl hl', specErase_append_lt k _ nk nv _ hs hlt]
      · rename_i h1 h2
        have : nk = k := by omega
        subst this
        simp only [inorder]
        rw [specErase_append_eq nk _ nv _ hl]
        split at h
        · cases h; simp [inorder]
        · cases h; simp [inorder]
        · split at h
          · cases h
          · rename_i mk' mv r' hr'
            rw [repairBalance_inorder h]
            simp only [inorder]
            rw [extractMin_inorder _ _ _ hr']

end Tree
namespace Tree

theorem inorder_ne_nil (k : Int) (v : Nat) (l r : Tree) (h : Nat) : inorder (node k v l r h) ≠ [] := by
  simp [inorder]

theorem find_eq (k : Int) : ∀ (t : Tree), SortedKeys (inorder t) → find t k = specLookup k (inorder t) := by
  intro t
  induction t with
  | nil => intro _; simp [find, inorder, specLookup]
  | node nk nv l r h ihl ihr =>
    intro hs
    obtain ⟨hsl, hsr, hl, hr⟩ := sortedKeys_node hs
    simp only [find, inorder]
    split
    · rename_i hlt
      rw [ihr hsr, specLookup_append_gt k _ nk nv _ (fun x hx => by have := hl x hx; omega) hlt]
    · split
      · rename_i hlt
        rw [ihl hsl, specLookup_append_lt k _ nk nv _ hlt]
      · rename_i h1 h2
        have : nk = k := by omega
        subst this
        rw [specLookup_append_eq nk _ nv _ hl]

theorem findMin_eq : ∀ (t : Tree), findMin t = (inorder t).head? := by
  intro t
  induction t with
  | nil => simp [findMin, inorder]
  | node k v l r h ihl _ =>
    cases l with
    | nil => simp [findMin, inorder]
    | node lk lv ll lr lh =>
      simp only [findMin]
      rw [ihl]
      simp [inorder]

theorem getLast?_append_cons (l1 : Entries) (a : Int × Nat) (l2 : Entries) :
    (l1 ++ a :: l2).getLast? = (a :: l2).getLast? := by
  rw [List.getLast?_append, List.getLast?_cons]; simp

theorem findMax_eq : ∀ (t : Tree), findMax t = (inorder t).getLast? := by
  intro t
  induction t with
  | nil => simp [findMax, inorder]
  | node k v l r h _ ihr =>
    cases r with
    | nil => simp [findMax, inorder]
    | node rk rv rl rr rh =>
      simp only [findMax]
      rw [ihr]
      simp only [inorder]
      have e : l.inorder ++ (k, v) :: (rl.inorder ++ (rk, rv) :: rr.inorder) =
          (l.inorder ++ (k, v) :: rl.inorder) ++ (rk, rv) :: rr.inorder := by simp
      rw [e, getLast?_append_cons, getLast?_append_cons]

theorem validate_iff : ∀ (t : Tree) (lo hi : Option Int), validate t lo hi = true ↔
    (SortedKeys (inorder t) ∧ (∀ b, lo = some b → ∀ x ∈ inorder t, b < x.1) ∧
      (∀ b, hi = some b → ∀ x ∈ inorder t, x.1 < b)) := by
  intro t
  induction t with
  | nil => intro lo hi; simp [validate, inorder, SortedKeys]
  | node k v l r h ihl ihr =>
    intro lo hi
    simp only [validate, Bool.and_eq_true, ihl, ihr, inorder]
    constructor
    · rintro ⟨⟨⟨h1, h2⟩, hsl, hll, hlh⟩, hsr, hrl, hrh⟩
      have hlk := hlh k rfl
      have hrk := hrl k rfl
      refine ⟨sortedKeys_node_mk hsl hsr hlk hrk, ?_, ?_⟩
      · intro b hb x hx
        subst hb
        simp at h1
        rcases List.mem_append.mp hx with hx | hx
        · exact hll b rfl x hx
        · rcases List.mem_cons.mp hx with hx | hx
          · subst hx; exact h1
          · have := hrk x hx; omega
      · intro b hb x hx
        subst hb
        simp at h2
        rcases List.mem_append.mp hx with hx | hx
        · have := hlk x hx; omega
        · rcases List.mem_cons.mp hx with hx | hx
          · subst hx; exact h2
          · exact hrh b rfl x hx
    · rintro ⟨hs, hlo, hhi⟩
      obtain ⟨hsl, hsr, hl, hr⟩ := sortedKeys_node hs
      refine ⟨⟨⟨?_, ?_⟩, hsl, ?_, ?_⟩, hsr, ?_, ?_⟩
      · cases lo with
        | none => rfl
        | some b => simpa using hlo b rfl (k, v) (by simp)
      · cases hi with
        | none => rfl
        | some b => simpa using hhi b rfl (k, v) (by simp)
      · intro b hb x hx; exact hlo b hb x (by simp [hx])
      · intro b hb x hx; cases hb; exact hl x hx
      · intro b hb x hx; cases hb; exact hr x hx
      · intro b hb x hx; exact hhi b hb x (by simp [hx])

end Tree

namespace TreeMap

theorem isEmpty_eq (t : TreeMap) : t.isEmpty = (t.root.inorder).isEmpty := by
  unfold isEmpty
  cases t.root <;> simp [Tree.inorder]

theorem lenMoreThan1_eq (t : TreeMap) : t.lenMoreThan1 = decide (1 < (t.root.inorder).length) := by
  unfold lenMoreThan1
  cases t.root with
  | nil => simp [Tree.inorder]
  | node k v l r h =>
    cases l <;> cases r <;> simp [Tree.inorder] <;> omega

end TreeMap
/-! ## Fibonacci numbers (for the height bound) -/

def fib : Nat → Nat
  | 0 => 0
  | 1 => 1
  | n + 2 => fib n + fib (n + 1)

theorem fib_add_two (n : Nat) : fib (n + 2) = fib n + fib (n + 1) := rfl

theorem fib_le_succ : ∀ n, fib n ≤ fib (n + 1)
  | 0 => by decide
  | 1 => by decide
  | n + 2 => by
    have := fib_le_succ (n + 1)
    rw [fib_add_two (n + 1), fib_add_two n]; omega

theorem fib_mono {m n : Nat} (h : m ≤ n) : fib m ≤ fib n := by
  induction n with
  | zero => have : m = 0 := by omega
            subst this; exact Nat.le_refl _
  | succ n ih =>
    by_cases hm : m = n + 1
    · subst hm; exact Nat.le_refl _
    · exact Nat.le_trans (ih (by omega)) (fib_le_succ n)

theorem two_pow_le_fib : ∀ n, 2 ^ n ≤ fib (2 * n + 1)
  | 0 => by decide
  | n + 1 => by
    have ih := two_pow_le_fib n
    have e : 2 * (n + 1) + 1 = (2 * n + 1) + 2 := by omega
    have := fib_le_succ (2 * n + 1)
    rw [e, fib_add_two, Nat.pow_succ]; omega

/-! ## The stored-height invariant -/

namespace Tree

@[simp] theorem getHeight_node (k : Int) (v : Nat) (l r : Tree) (h : Nat) : (node k v l r h).getHeight = h := rfl
@[simp] theorem getHeight_nil : nil.getHeight = 0 := rfl

/-- normalise stored heights of explicit nodes, then linear arithmetic -/
local macro "hts" : tactic =>
  `(tactic| ((try simp only [getHeight_mk, getHeight_node, getHeight_nil] at *) <;> omega))

/-- The invariant on the **stored** heights that the code really maintains, for a new-leaf constant `c`:
every node is either a never-revisited leaf (height field still `c`) or carries `1 + max` of its children's
stored heights; and the stored heights of siblings differ by at most 1. -/
def HInv (c : Nat) : Tree → Prop
  | nil => True
  | node _ _ l r h => HInv c l ∧ HInv c r ∧
      ((l = nil ∧ r = nil ∧ h = c) ∨ h = 1 + max l.getHeight r.getHeight) ∧
      l.getHeight ≤ r.getHeight + 1 ∧ r.getHeight ≤ l.getHeight + 1

theorem hinv_mk {c : Nat} {k : Int} {v : Nat} {l r : Tree} (hl : HInv c l) (hr : HInv c r)
    (h1 : l.getHeight ≤ r.getHeight + 1) (h2 : r.getHeight ≤ l.getHeight + 1) : HInv c (mk k v l r) :=
  ⟨hl, hr, Or.inr rfl, h1, h2⟩

/-- A node whose stored height is at least 1 obeys the recurrence (for `c ≤ 1`). -/
theorem hinv_height {c : Nat} (hc : c ≤ 1) {k : Int} {v : Nat} {l r : Tree} {h : Nat}
    (hi : HInv c (node k v l r h)) (hp : 1 ≤ h) : h = 1 + max l.getHeight r.getHeight := by
  obtain ⟨_, _, h3, _, _⟩ := hi
  rcases h3 with ⟨h4, h5, h6⟩ | h3
  · subst h4; subst h5; simp only [getHeight_nil]; omega
  · exact h3

theorem repairBalance_hinv (c : Nat) (hc : c ≤ 1) (k : Int) (v : Nat) (l r : Tree) (h : Nat)
    (hl : HInv c l) (hr : HInv c r)
    (hd1 : l.getHeight ≤ r.getHeight + 2) (hd2 : r.getHeight ≤ l.getHeight + 2) :
    ∃ t, repairBalance (node k v l r h) = some t ∧ HInv c t ∧
      t.getHeight ≤ 1 + max l.getHeight r.getHeight ∧ 1 + max l.getHeight r.getHeight ≤ t.getHeight + 1 ∧
      (l.getHeight ≤ r.getHeight + 1 → r.getHeight ≤ l.getHeight + 1 →
        t.getHeight = 1 + max l.getHeight r.getHeight) := by
  unfold repairBalance
  dsimp only
  have hcb : (mk k v l r).calcBalance = (r.getHeight : Int) - (l.getHeight : Int) := rfl
  by_cases hb2 : (mk k v l r).calcBalance = 2
  · rw [if_pos hb2]
    rw [hcb] at hb2
    cases r with
    | nil => exfalso; hts
    | node rk rv rl rr rh =>
      have hrh := hinv_height hc hr (by hts)
      obtain ⟨hrl, hrr, _, hr1, hr2⟩ := hr
      have hcr : (node rk rv rl rr rh).calcBalance = (rr.getHeight : Int) - (rl.getHeight : Int) := rfl
      by_cases hb1 : (node rk rv rl rr rh).calcBalance = -1
      · rw [if_pos hb1]
        rw [hcr] at hb1
        cases rl with
        | nil => exfalso; hts
        | node ak av al ar ah =>
          have hah := hinv_height hc hrl (by hts)
          obtain ⟨hal, har, _, ha1, ha2⟩ := hrl
          refine ⟨_, rfl, ?_, ?_, ?_, ?_⟩
          · refine hinv_mk (hinv_mk hl hal ?_ ?_) (hinv_mk har hrr ?_ ?_) ?_ ?_ <;> hts
          · hts
          · hts
          · intros; hts
      · rw [if_neg hb1]
        rw [hcr] at hb1
        refine ⟨_, rfl, ?_, ?_, ?_, ?_⟩
        · refine hinv_mk (hinv_mk hl hrl ?_ ?_) hrr ?_ ?_ <;> hts
        · hts
        · hts
        · intros; hts
  · rw [if_neg hb2]
    rw [hcb] at hb2
    by_cases hbm : (mk k v l r).calcBalance = -2
    · rw [if_pos hbm]
      rw [hcb] at hbm
      cases l with
      | nil => exfalso; hts
      | node lk lv ll lr lh =>
        have hlh := hinv_height hc hl (by hts)
        obtain ⟨hll, hlr, _, hl1, hl2⟩ := hl
        have hcl : (node lk lv ll lr lh).calcBalance = (lr.getHeight : Int) - (ll.getHeight : Int) := rfl
        by_cases hb1 : (node lk lv ll lr lh).calcBalance = 1
        · rw [if_pos hb1]
          rw [hcl] at hb1
          cases lr with
          | nil => exfalso; hts
          | node ak av al ar ah =>
            have hah := hinv_height hc hlr (by hts)
            obtain ⟨hal, har, _, ha1, ha2⟩ := hlr
            refine ⟨_, rfl, ?_, ?_, ?_, ?_⟩
            · refine hinv_mk (hinv_mk hll hal ?_ ?_) (hinv_mk har hr ?_ ?_) ?_ ?_ <;> hts
            · hts
            · hts
            · intros; hts
        · rw [if_neg hb1]
          rw [hcl] at hb1
          refine ⟨_, rfl, ?_, ?_, ?_, ?_⟩
          · refine hinv_mk hll (hinv_mk hlr hr ?_ ?_) ?_ ?_ <;> hts
          · hts
          · hts
          · intros; hts
    · rw [if_neg hbm]
      rw [hcb] at hbm
      refine ⟨_, rfl, ?_, ?_, ?_, ?_⟩
      · exact hinv_mk hl hr (by hts) (by hts)
      · hts
      · hts
      · intros; hts

/-- `insert` never panics on a tree satisfying the stored-height invariant, re-establishes the invariant, and
changes the stored height of the subtree by 0 or +1. -/
theorem insert_hinv (c : Nat) (hc : c ≤ 1) (k : Int) (v : Nat) : ∀ (t : Tree), HInv c t →
    ∃ t', insert c t k v = some t' ∧ HInv c t' ∧ t.getHeight ≤ t'.getHeight ∧ t'.getHeight ≤ t.getHeight + 1 ∧
      (t = nil → t'.getHeight = c) := by
  intro t
  induction t with
  | nil =>
    intro _
    refine ⟨node k v nil nil c, rfl, ⟨trivial, trivial, Or.inl ⟨rfl, rfl, rfl⟩, ?_, ?_⟩, ?_, ?_, fun _ => rfl⟩ <;> hts
  | node nk nv l r h ihl ihr =>
    intro hi
    obtain ⟨hl, hr, hh, hb1, hb2⟩ := hi
    simp only [insert]
    split
    · obtain ⟨r', e, hr', g1, g2, g3⟩ := ihr hr
      rw [e]; dsimp only
      obtain ⟨t, et, ht, b1, b2, b3⟩ := repairBalance_hinv c hc nk nv l r' h hl hr' (by omega) (by omega)
      refine ⟨t, et, ht, ?_, ?_, ?_⟩
      · rcases hh with ⟨h1, h2, h3⟩ | hh
        · have := g3 h2; subst h1; subst h2; hts
        · hts
      · rcases hh with ⟨h1, h2, h3⟩ | hh
        · have := g3 h2; subst h1; subst h2; hts
        · hts
      · intro hn; cases hn
    · split
      · obtain ⟨l', e, hl', g1, g2, g3⟩ := ihl hl
        rw [e]; dsimp only
        obtain ⟨t, et, ht, b1, b2, b3⟩ := repairBalance_hinv c hc nk nv l' r h hl' hr (by omega) (by omega)
        refine ⟨t, et, ht, ?_, ?_, ?_⟩
        · rcases hh with ⟨h1, h2, h3⟩ | hh
          · have := g3 h1; subst h1; subst h2; hts
          · hts
        · rcases hh with ⟨h1, h2, h3⟩ | hh
          · have := g3 h1; subst h1; subst h2; hts
          · hts
        · intro hn; cases hn
      · obtain ⟨t, et, ht, b1, b2, b3⟩ := repairBalance_hinv c hc k v l r h hl hr (by omega) (by omega)
        refine ⟨t, et, ht, ?_, ?_, ?_⟩
        · rcases hh with ⟨h1, h2, h3⟩ | hh
          · subst h1; subst h2; hts
          · hts
        · rcases hh with ⟨h1, h2, h3⟩ | hh
          · subst h1; subst h2; hts
          · hts
        · intro hn; cases hn

/-- `extractMin` never panics on a non-empty tree satisfying the invariant; the stored height changes by 0 or −1. -/
theorem extractMin_hinv (c : Nat) (hc : c ≤ 1) : ∀ (t : Tree), t ≠ nil → HInv c t →
    ∃ e t', extractMin t = some (e, t') ∧ HInv c t' ∧ t'.getHeight ≤ t.getHeight ∧ t.getHeight ≤ t'.getHeight + 1 := by
  intro t
  induction t with
  | nil => intro h; exact absurd rfl h
  | node k v l r h ihl _ =>
    intro _ hi
    obtain ⟨hl, hr, hh, hb1, hb2⟩ := hi
    cases l with
    | nil =>
      refine ⟨(k, v), r, rfl, hr, ?_, ?_⟩
      · rcases hh with ⟨_, h2, h3⟩ | hh
        · subst h2; hts
        · hts
      · rcases hh with ⟨_, h2, h3⟩ | hh
        · subst h2; hts
        · hts
    | node lk lv ll lr lh =>
      obtain ⟨e, l', el, hl', g1, g2⟩ := ihl (by intro h; cases h) hl
      simp only [extractMin]
      rw [el]; dsimp only
      obtain ⟨t, et, ht, b1, b2, b3⟩ := repairBalance_hinv c hc k v l' r h hl' hr (by hts) (by hts)
      rw [et]; dsimp only
      have hh' : h = 1 + max lh r.getHeight := by
        rcases hh with ⟨h1, _, _⟩ | hh
        · cases h1
        · exact hh
      refine ⟨e, t, rfl, ht, ?_, ?_⟩ <;> hts

/-- `remove` never panics on a tree satisfying the invariant, re-establishes it, and changes the stored height
of the subtree by at most 1 (it can *grow* by one when a never-revisited leaf is passed through). -/
theorem remove_hinv (c : Nat) (hc : c ≤ 1) (k : Int) : ∀ (t : Tree), HInv c t →
    ∃ t', remove t k = some t' ∧ HInv c t' ∧ t'.getHeight ≤ t.getHeight + 1 ∧ t.getHeight ≤ t'.getHeight + 1 ∧
      (t = nil → t'.getHeight = 0) := by
  intro t
  induction t with
  | nil => intro _; exact ⟨nil, rfl, trivial, by hts, by hts, fun _ => rfl⟩
  | node nk nv l r h ihl ihr =>
    intro hi
    obtain ⟨hl, hr, hh, hb1, hb2⟩ := hi
    simp only [remove]
    split
    · obtain ⟨r', e, hr', g1, g2, g3⟩ := ihr hr
      rw [e]; dsimp only
      obtain ⟨t, et, ht, b1, b2, b3⟩ := repairBalance_hinv c hc nk nv l r' h hl hr' (by omega) (by omega)
      refine ⟨t, et, ht, ?_, ?_, ?_⟩
      · rcases hh with ⟨h1, h2, h3⟩ | hh
        · have := g3 h2; subst h1; subst h2; hts
        · hts
      · rcases hh with ⟨h1, h2, h3⟩ | hh
        · have := g3 h2; subst h1; subst h2; hts
        · hts
      · intro hn; cases hn
    · split
      · obtain ⟨l', e, hl', g1, g2, g3⟩ := ihl hl
        rw [e]; dsimp only
        obtain ⟨t, et, ht, b1, b2, b3⟩ := repairBalance_hinv c hc nk nv l' r h hl' hr (by omega) (by omega)
        refine ⟨t, et, ht, ?_, ?_, ?_⟩
        · rcases hh with ⟨h1, h2, h3⟩ | hh
          · have := g3 h1; subst h1; subst h2; hts
          · hts
        · rcases hh with ⟨h1, h2, h3⟩ | hh
          · have := g3 h1; subst h1; subst h2; hts
          · hts
        · intro hn; cases hn
      · cases l with
        | nil =>
          refine ⟨r, rfl, hr, ?_, ?_, ?_⟩
          · rcases hh with ⟨_, h2, h3⟩ | hh
            · subst h2; hts
            · hts
          · rcases hh with ⟨_, h2, h3⟩ | hh
            · subst h2; hts
            · hts
          · intro hn; cases hn
        | node lk lv ll lr lh =>
          have hh' : h = 1 + max lh r.getHeight := by
            rcases hh with ⟨h1, _, _⟩ | hh
            · cases h1
            · exact hh
          cases r with
          | nil =>
            refine ⟨node lk lv ll lr lh, rfl, hl, ?_, ?_, ?_⟩
            · hts
            · hts
            · intro hn; cases hn
          | node rk rv rl rr rh =>
            obtain ⟨e, r', er, hr', g1, g2⟩ := extractMin_hinv c hc (node rk rv rl rr rh) (by intro h; cases h) hr
            dsimp only
            rw [er]; dsimp only
            obtain ⟨t, et, ht, b1, b2, b3⟩ :=
              repairBalance_hinv c hc e.1 e.2 (node lk lv ll lr lh) r' h hl hr' (by hts) (by hts)
            refine ⟨t, et, ht, ?_, ?_, ?_⟩
            · hts
            · hts
            · intro hn; cases hn

/-- Stored vs real height: the stored height never exceeds the real one and lags by at most `1 - c`. -/
theorem real_vs_stored (c : Nat) (hc : c ≤ 1) : ∀ (t : Tree), HInv c t →
    t.getHeight ≤ t.realHeight ∧ t.realHeight + c ≤ t.getHeight + 1 := by
  intro t
  induction t with
  | nil => intro _; simp [realHeight]; omega
  | node k v l r h ihl ihr =>
    intro hi
    obtain ⟨hl, hr, hh, hb1, hb2⟩ := hi
    have := ihl hl; have := ihr hr
    simp only [realHeight, getHeight_node]
    rcases hh with ⟨h1, h2, h3⟩ | hh
    · subst h1; subst h2; simp only [realHeight]; omega
    · omega

/-- Real balance: at every node the real subtree heights differ by at most `2 - c`. -/
theorem maxRealBalance_le (c : Nat) (hc : c ≤ 1) : ∀ (t : Tree), HInv c t → t.maxRealBalance + c ≤ 2 := by
  intro t
  induction t with
  | nil => intro _; simp [maxRealBalance]; omega
  | node k v l r h ihl ihr =>
    intro hi
    obtain ⟨hl, hr, hh, hb1, hb2⟩ := hi
    have := ihl hl; have := ihr hr
    have := real_vs_stored c hc l hl; have := real_vs_stored c hc r hr
    simp only [maxRealBalance]
    omega

/-- A tree with stored height `h` has at least `fib (h+2) - 1` nodes. -/
theorem fib_le_size (c : Nat) (hc : c ≤ 1) : ∀ (t : Tree), HInv c t → fib (t.getHeight + 2) ≤ t.size + 1 := by
  intro t
  induction t with
  | nil => intro _; decide
  | node k v l r h ihl ihr =>
    intro hi
    obtain ⟨hl, hr, hh, hb1, hb2⟩ := hi
    have il := ihl hl; have ir := ihr hr
    simp only [size, getHeight_node]
    rcases hh with ⟨h1, h2, h3⟩ | hh
    · subst h1; subst h2
      have : fib (h + 2) ≤ fib 3 := fib_mono (by omega)
      have e : fib 3 = 2 := by decide
      simp only [size]; omega
    · rw [fib_add_two]
      by_cases hab : l.getHeight ≤ r.getHeight
      · have e1 : h + 1 = r.getHeight + 2 := by omega
        have : fib h ≤ fib (l.getHeight + 2) := fib_mono (by omega)
        rw [e1]; omega
      · have e1 : h + 1 = l.getHeight + 2 := by omega
        have : fib h ≤ fib (r.getHeight + 2) := fib_mono (by omega)
        rw [e1]; omega

/-- The real height is logarithmic in the number of entries. -/
theorem realHeight_log (c : Nat) (hc : c ≤ 1) (t : Tree) (hi : HInv c t) :
    fib (t.realHeight + 1 + c) ≤ t.size + 1 ∧ 2 ^ (t.realHeight / 2) ≤ t.size + 1 := by
  have h1 := real_vs_stored c hc t hi
  have h2 := fib_le_size c hc t hi
  have h3 : fib (t.realHeight + 1 + c) ≤ fib (t.getHeight + 2) := fib_mono (by omega)
  refine ⟨by omega, ?_⟩
  have h4 := two_pow_le_fib (t.realHeight / 2)
  have h5 : fib (2 * (t.realHeight / 2) + 1) ≤ fib (t.realHeight + 1 + c) := fib_mono (by omega)
  omega

theorem size_eq_length : ∀ (t : Tree), t.size = (inorder t).length := by
  intro t
  induction t with
  | nil => rfl
  | node k v l r h ihl ihr => simp [size, inorder, ihl, ihr]; omega

end Tree

/-! ## Stores through the pointer returned by `GetPtr` -/

/-- Reference for a store through `GetPtr`: replace the value if the key is present. -/
def specUpdate (k : Int) (v : Nat) (l : Entries) : Entries :=
  match specLookup k l with
  | none => l
  | some _ => specInsert k v l

namespace Tree

theorem getHeight_setValue (k : Int) (v : Nat) (t : Tree) : (setValue t k v).getHeight = t.getHeight := by
  cases t with
  | nil => rfl
  | node nk nv l r h =>
    simp only [setValue]
    split
    · rfl
    · split <;> rfl

theorem setValue_eq_nil (k : Int) (v : Nat) (t : Tree) : setValue t k v = nil ↔ t = nil := by
  cases t with
  | nil => simp [setValue]
  | node nk nv l r h =>
    simp only [setValue]
    split
    · simp
    · split <;> simp

theorem setValue_hinv (c : Nat) (k : Int) (v : Nat) : ∀ (t : Tree), HInv c t → HInv c (setValue t k v) := by
  intro t
  induction t with
  | nil => intro h; exact h
  | node nk nv l r h ihl ihr =>
    intro hi
    obtain ⟨hl, hr, hh, hb1, hb2⟩ := hi
    simp only [setValue]
    split
    · refine ⟨hl, ihr hr, ?_, ?_, ?_⟩
      · rw [getHeight_setValue, setValue_eq_nil]; exact hh
      · rw [getHeight_setValue]; exact hb1
      · rw [getHeight_setValue]; exact hb2
    · split
      · refine ⟨ihl hl, hr, ?_, ?_, ?_⟩
        · rw [getHeight_setValue, setValue_eq_nil]; exact hh
        · rw [getHeight_setValue]; exact hb1
        · rw [getHeight_setValue]; exact hb2
      · exact ⟨hl, hr, hh, hb1, hb2⟩

theorem setValue_inorder (k : Int) (v : Nat) : ∀ (t : Tree), SortedKeys (inorder t) →
    inorder (setValue t k v) = specUpdate k v (inorder t) := by
  intro t
  induction t with
  | nil => intro _; rfl
  | node nk nv l r h ihl ihr =>
    intro hs
    obtain ⟨hsl, hsr, hl, hr⟩ := sortedKeys_node hs
    simp only [setValue]
    unfold specUpdate
    simp only [inorder]
    split
    · rename_i hlt
      have hx : ∀ x ∈ inorder l, x.1 < k := fun x hx => by have := hl x hx; omega
      rw [specLookup_append_gt k _ nk nv _ hx hlt, specInsert_append_gt k v _ nk nv _ hx hlt]
      simp only [inorder]
      rw [ihr hsr]; unfold specUpdate
      cases specLookup k (inorder r) <;> rfl
    · split
      · rename_i hlt
        rw [specLookup_append_lt k _ nk nv _ hlt, specInsert_append_lt k v _ nk nv _ hlt]
        simp only [inorder]
        rw [ihl hsl]; unfold specUpdate
        cases specLookup k (inorder l) <;> rfl
      · rename_i h1 h2
        have : nk = k := by omega
        subst this
        rw [specLookup_append_eq nk _ nv _ hl, specInsert_append_eq nk v _ nv _ hl]
        simp only [inorder]

end Tree

theorem sorted_specUpdate (k : Int) (v : Nat) (l : Entries) (hs : SortedKeys l) : SortedKeys (specUpdate k v l) := by
  unfold specUpdate
  cases specLookup k l with
  | none => exact hs
  | some _ => exact sorted_specInsert k v l hs


/-! ## Whole histories of the exported mutators -/

/-- A state-changing `TreeMap` call. -/
inductive MapOp where
  | set (k : Int) (v : Nat)
  | delete (k : Int)
  /-- `if p := GetPtr(k); p != nil { *p = v }` -/
  | update (k : Int) (v : Nat)
deriving Repr, DecidableEq

namespace TreeMap

/-- In-order contents: the abstraction function. -/
def abs (t : TreeMap) : Entries := t.root.inorder

/-- The representation invariant: strictly sorted keys and the stored-height invariant. -/
def Inv (c : Nat) (t : TreeMap) : Prop := SortedKeys t.abs ∧ Tree.HInv c t.root

def apply (c : Nat) (t : TreeMap) : MapOp → Option TreeMap
  | .set k v => t.set c k v
  | .delete k => t.delete k
  | .update k v => some (t.update k v).1

/-- Run a history; `none` as soon as a call panics. -/
def run (c : Nat) : TreeMap → List MapOp → Option TreeMap
  | t, [] => some t
  | t, op :: ops =>
    match apply c t op with
    | none => none
    | some t' => run c t' ops

end TreeMap

def specApply (l : Entries) : MapOp → Entries
  | .set k v => specInsert k v l
  | .delete k => specErase k l
  | .update k v => specUpdate k v l

def specRun (l : Entries) (ops : List MapOp) : Entries := ops.foldl specApply l

namespace TreeMap

theorem empty_inv (c : Nat) : Inv c empty ∧ empty.abs = [] :=
  ⟨⟨List.Pairwise.nil, trivial⟩, rfl⟩

theorem set_refines (c : Nat) (hc : c ≤ 1) (t : TreeMap) (k : Int) (v : Nat) (hi : Inv c t) :
    ∃ t', t.set c k v = some t' ∧ t'.abs = specInsert k v t.abs ∧ Inv c t' := by
  obtain ⟨hs, hh⟩ := hi
  obtain ⟨r', e, hr', _⟩ := Tree.insert_hinv c hc k v t.root hh
  have ha : r'.inorder = specInsert k v t.root.inorder := Tree.insert_inorder c k v t.root r' hs e
  refine ⟨⟨r'⟩, by simp [set, e], ha, ?_, hr'⟩
  show SortedKeys r'.inorder
  rw [ha]; exact sorted_specInsert k v _ hs

theorem delete_refines (c : Nat) (hc : c ≤ 1) (t : TreeMap) (k : Int) (hi : Inv c t) :
    ∃ t', t.delete k = some t' ∧ t'.abs = specErase k t.abs ∧ Inv c t' := by
  obtain ⟨hs, hh⟩ := hi
  obtain ⟨r', e, hr', _⟩ := Tree.remove_hinv c hc k t.root hh
  have ha : r'.inorder = specErase k t.root.inorder := Tree.remove_inorder k t.root r' hs e
  refine ⟨⟨r'⟩, by simp [delete, e], ha, ?_, hr'⟩
  show SortedKeys r'.inorder
  rw [ha]; exact sorted_specErase k _ hs


/-- A store through `GetPtr` refines `specUpdate`, reports whether the key was present, keeps the invariant. -/
theorem update_refines (c : Nat) (t : TreeMap) (k : Int) (v : Nat) (hi : Inv c t) :
    (t.update k v).1.abs = specUpdate k v t.abs ∧ (t.update k v).2 = (specLookup k t.abs).isSome ∧
    Inv c (t.update k v).1 := by
  obtain ⟨hs, hh⟩ := hi
  unfold update
  have hf := Tree.find_eq k t.root hs
  cases hfk : t.root.find k with
  | none =>
    rw [hfk] at hf
    have : specUpdate k v t.abs = t.abs := by unfold specUpdate abs; rw [← hf]
    simp only
    exact ⟨this.symm, by unfold abs; rw [← hf]; rfl, hs, hh⟩
  | some e =>
    rw [hfk] at hf
    simp only
    have ha : (Tree.setValue t.root k v).inorder = specUpdate k v t.root.inorder := Tree.setValue_inorder k v t.root hs
    refine ⟨ha, by unfold abs; rw [← hf]; rfl, ?_, Tree.setValue_hinv c k v t.root hh⟩
    show SortedKeys (Tree.setValue t.root k v).inorder
    rw [ha]; exact sorted_specUpdate k v _ hs


theorem run_refines (c : Nat) (hc : c ≤ 1) : ∀ (ops : List MapOp) (t : TreeMap), Inv c t →
    ∃ t', run c t ops = some t' ∧ t'.abs = specRun t.abs ops ∧ Inv c t' := by
  intro ops
  induction ops with
  | nil => intro t hi; exact ⟨t, rfl, rfl, hi⟩
  | cons op ops ih =>
    intro t hi
    have h1 : ∃ t1, apply c t op = some t1 ∧ t1.abs = specApply t.abs op ∧ Inv c t1 := by
      cases op with
      | set k v => exact set_refines c hc t k v hi
      | delete k => exact delete_refines c hc t k hi
      | update k v =>
        obtain ⟨h1, _, h3⟩ := update_refines c t k v hi
        exact ⟨_, rfl, h1, h3⟩
    obtain ⟨t1, e1, a1, i1⟩ := h1
    obtain ⟨t', e', a', i'⟩ := ih t1 i1
    refine ⟨t', ?_, ?_, i'⟩
    · simp only [run, e1]; exact e'
    · rw [a', a1]; rfl

end TreeMap
end TLVerif.Algo
