import TLVerif.Util.Hex
import TLVerif.Generated.AlgoFacts
import TLVerif.Algo.Avl
import TLVerif.Algo.Circular
/-! Line-protocol handler for the `algo` family. One line = one whole operation history:

`algo.tree  op,op,…`   ops: `s:K:V` Set, `d:K` Delete, `g:K` Get, `u:K:V` store V through GetPtr(K) if non-nil, `e` Empty, `f` Front, `b` Back, `m` LenMoreThan1,
                       `V` validate, `D` dump (structure with stored heights; real height; max real balance)
`algo.circ  op,op,…`   ops on a pair (s, other): `p:X` s.PushBack, `q` s.PopFront, `f` s.Front, `i:POS` s.Index, `x:POS:V` *s.IndexRef(POS)=V,
                       `r:N` s.Reserve, `c` s.Clear, `w` s.Swap(&other), `a` s.DeepAssign(other), `l` Len, `k` Cap,
                       `S` Slices, `D` raw dump of both (elements, read_pos, write_pos)

The result line is `ok ` followed by the comma separated observation sequence (`panic` for a recovered Go panic). -/
namespace TLVerif.Algo
open TLVerif.Util

def leafH : Nat := TLVerif.Facts.Algo.newLeafHeight

def Tree.dump : Tree → String
  | .nil => "_"
  | .node k v l r h => "(" ++ toString k ++ ":" ++ toString v ++ ":" ++ toString h ++ l.dump ++ r.dump ++ ")"

def entryStr (e : Int × Nat) : String := toString e.1 ++ ":" ++ toString e.2

def bstr (b : Bool) : String := if b then "1" else "0"

/-- One tree-map operation: new state and observation; `none` = unparseable. -/
def treeStep (t : TreeMap) (op : String) : Option (TreeMap × String) :=
  match op.splitOn ":" with
  | ["s", k, v] =>
    match k.toInt?, v.toNat? with
    | some k, some v =>
      match t.set leafH k v with
      | none => some (t, "panic")
      | some t' => some (t', ".")
    | _, _ => none
  | ["d", k] =>
    match k.toInt? with
    | some k =>
      match t.delete k with
      | none => some (t, "panic")
      | some t' => some (t', ".")
    | none => none
  | ["u", k, v] =>
    match k.toInt?, v.toNat? with
    | some k, some v => let (t', b) := t.update k v; some (t', bstr b)
    | _, _ => none
  | ["g", k] =>
    match k.toInt? with
    | some k => some (t, match t.get k with | none => "-" | some v => toString v)
    | none => none
  | ["e"] => some (t, bstr t.isEmpty)
  | ["f"] => some (t, match t.front with | none => "panic" | some e => entryStr e)
  | ["b"] => some (t, match t.back with | none => "panic" | some e => entryStr e)
  | ["m"] => some (t, bstr t.lenMoreThan1)
  | ["V"] => some (t, if t.root.validate none none then "ok" else "panic")
  | ["D"] => some (t, t.root.dump ++ ";rh=" ++ toString t.root.realHeight ++ ";mb=" ++ toString t.root.maxRealBalance)
  | _ => none

def runTree : TreeMap → List String → List String → Option (List String)
  | _, [], acc => some acc.reverse
  | t, op :: ops, acc =>
    match treeStep t op with
    | none => none
    | some (t', o) => runTree t' ops (o :: acc)

def natsStr (l : List Nat) : String :=
  if l.isEmpty then "-" else ".".intercalate (l.map toString)

def CS.dump (s : CS) : String :=
  natsStr s.elements ++ "/" ++ toString s.readPos ++ "/" ++ toString s.writePos

def optNat (o : Option Nat) : String := match o with | none => "panic" | some v => toString v

def parseQOp (op : String) : Option (Option QOp) :=
  match op.splitOn ":" with
  | ["p", x] => (x.toNat?).map (fun x => some (.push x))
  | ["q"] => some (some .pop)
  | ["f"] => some (some .front)
  | ["i", p] => (p.toInt?).map (fun p => some (.index p))
  | ["x", p, v] =>
    match p.toInt?, v.toNat? with
    | some p, some v => some (some (.indexSet p v))
    | _, _ => none
  | ["r", n] => (n.toInt?).map (fun n => some (.reserve n))
  | ["c"] => some (some .clear)
  | ["w"] => some (some .swap)
  | ["a"] => some (some .deepAssign)
  | ["l"] => some (some .len)
  | ["k"] => some (some .cap)
  | ["S"] => some (some .slices)
  | ["D"] => some none
  | _ => none

def qobsStr : QObs → String
  | .panic => "panic"
  | .done => "."
  | .val v => toString v
  | .int v => toString v
  | .two a b => natsStr a ++ "|" ++ natsStr b

/-- One circular-slice operation on the pair `(s, other)` (`CS.apply`), or the raw dump `D`. -/
def circStep (st : CS × CS) (op : String) : Option ((CS × CS) × String) :=
  match parseQOp op with
  | none => none
  | some none => some (st, st.1.dump ++ "|" ++ st.2.dump)
  | some (some q) =>
    let (st', o) := CS.apply st q
    some (st', qobsStr o)

def runCirc : CS × CS → List String → List String → Option (List String)
  | _, [], acc => some acc.reverse
  | st, op :: ops, acc =>
    match circStep st op with
    | none => none
    | some (st', o) => runCirc st' ops (o :: acc)

def handle (op : String) (args : List String) : String :=
  match op, args with
  | "tree", [ops] =>
    match runTree TreeMap.empty (ops.splitOn ",") [] with
    | none => "bad-op"
    | some obs => "ok " ++ ",".intercalate obs
  | "circ", [ops] =>
    match runCirc (CS.empty, CS.empty) (ops.splitOn ",") [] with
    | none => "bad-op"
    | some obs => "ok " ++ ",".intercalate obs
  | _, _ => "bad-op"

end TLVerif.Algo
