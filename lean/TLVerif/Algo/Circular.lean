/-! Executable model of `internal/vkgo/pkg/algo/circular_slice.go`, written the way the Go code is written.

`elements` is a Go slice whose length always equals its capacity (`make([]T, n)`), modelled as a `List Nat`
(`T = int`, empty value `0`); `read_pos`/`write_pos` are Go `int`s, modelled as `Int`. Every slice index,
slice expression and explicit `panic(...)` is an explicit `none` outcome.  -/
namespace TLVerif.Algo

structure CS where
  elements : List Nat
  readPos : Int
  writePos : Int
deriving Repr, Inhabited, DecidableEq

namespace CS

/-- The zero value `CircularSlice[T]{}`. -/
def empty : CS := ⟨[], 0, 0⟩

/-- Go `l[i]` (read): panics unless `0 ≤ i < len(l)`. -/
def goGet (l : List Nat) (i : Int) : Option Nat :=
  if i < 0 then none else l[i.toNat]?

/-- Go `l[i] = x`: panics unless `0 ≤ i < len(l)`. -/
def goSet (l : List Nat) (i : Int) (x : Nat) : Option (List Nat) :=
  if i < 0 then none else if i.toNat < l.length then some (l.set i.toNat x) else none

/-- Go `l[lo:hi]` (value of the view): panics unless `0 ≤ lo ≤ hi ≤ len(l)` (here `cap = len`). -/
def goSlice (l : List Nat) (lo hi : Int) : Option (List Nat) :=
  if 0 ≤ lo ∧ lo ≤ hi ∧ hi ≤ l.length then some ((l.drop lo.toNat).take (hi.toNat - lo.toNat)) else none

/-- Go `copy(dst[off:], src)`: returns the number of elements copied and the new `dst`. -/
def copyAt (dst : List Nat) (off : Nat) (src : List Nat) : Nat × List Nat :=
  let n := min (dst.length - off) src.length
  (n, dst.take off ++ src.take n ++ dst.drop (off + n))

/-- `for i := range view { view[i] = empty }` for the view `l[lo : lo+n]`. -/
def zeroRange (l : List Nat) (lo n : Nat) : List Nat :=
  l.take lo ++ List.replicate (min n (l.length - lo)) 0 ++ l.drop (lo + n)

def len (s : CS) : Int := s.writePos - s.readPos

def cap (s : CS) : Int := s.elements.length

/-- `Slices`: the two parts (values of the two views). -/
def slices (s : CS) : Option (List Nat × List Nat) :=
  let capacity : Int := s.elements.length
  if s.writePos ≤ capacity then
    match goSlice s.elements s.readPos s.writePos with
    | none => none
    | some s1 => some (s1, [])
  else
    match goSlice s.elements s.readPos capacity, goSlice s.elements 0 (s.writePos - capacity) with
    | some s1, some s2 => some (s1, s2)
    | _, _ => none

/-- `Reserve`. -/
def reserve (s : CS) (newCapacity : Int) : Option CS :=
  if newCapacity ≤ s.elements.length then some s
  else
    match slices s with
    | none => none
    | some (s1, s2) =>
      let elements := List.replicate newCapacity.toNat 0
      let (off, elements) := copyAt elements 0 s1
      let (n2, elements) := copyAt elements off s2
      let off := off + n2
      if off ≠ s1.length + s2.length then none
      else some ⟨elements, 0, off⟩

/-- The tail of `PushBack` (after the optional growth): store at `write_pos` (wrapped) and advance it. -/
def pushStore (s : CS) (x : Nat) : Option CS :=
  let capacity : Int := s.elements.length
  let els := if s.writePos < capacity then goSet s.elements s.writePos x
             else goSet s.elements (s.writePos - capacity) x
  match els with
  | none => none
  | some els => some ⟨els, s.readPos, s.writePos + 1⟩

/-- `PushBack`. -/
def pushBack (s : CS) (x : Nat) : Option CS :=
  let capacity : Int := s.elements.length
  if s.writePos - s.readPos > capacity then none
  else
    let s' : Option CS :=
      if s.writePos - s.readPos = capacity then
        reserve s ((if capacity < 4 then 4 else capacity) * 2)
      else some s
    match s' with
    | none => none
    | some s => pushStore s x

/-- `Front`. -/
def front (s : CS) : Option Nat :=
  if s.writePos = s.readPos then none else goGet s.elements s.readPos

/-- `IndexRef`/`Index` (value read through the returned pointer). -/
def index (s : CS) (pos : Int) : Option Nat :=
  if pos < 0 then none
  else
    let size : Int := s.elements.length
    let offset := s.readPos + pos
    if offset < size then goGet s.elements offset
    else if offset ≥ s.writePos then none
    else goGet s.elements (offset - size)

/-- `*s.IndexRef(pos) = v`: a store through the returned pointer (same path as `index`). -/
def indexSet (s : CS) (pos : Int) (v : Nat) : Option CS :=
  if pos < 0 then none
  else
    let size : Int := s.elements.length
    let offset := s.readPos + pos
    if offset < size then
      match goSet s.elements offset v with
      | none => none
      | some els => some ⟨els, s.readPos, s.writePos⟩
    else if offset ≥ s.writePos then none
    else
      match goSet s.elements (offset - size) v with
      | none => none
      | some els => some ⟨els, s.readPos, s.writePos⟩

/-- `PopFront`: `(element, new state)`. -/
def popFront (s : CS) : Option (Nat × CS) :=
  if s.writePos = s.readPos then none
  else
    match goGet s.elements s.readPos with
    | none => none
    | some element =>
      match goSet s.elements s.readPos 0 with
      | none => none
      | some els =>
        let r := s.readPos + 1
        let w := s.writePos
        let capacity : Int := els.length
        let (r, w) := if r ≥ capacity then (r - capacity, w - capacity) else (r, w)
        let (r, w) := if r = w then ((0 : Int), (0 : Int)) else (r, w)
        some (element, ⟨els, r, w⟩)

/-- `Clear`. -/
def clear (s : CS) : Option CS :=
  match slices s with
  | none => none
  | some (s1, s2) =>
    let els := zeroRange s.elements s.readPos.toNat s1.length
    let els := zeroRange els 0 s2.length
    some ⟨els, 0, 0⟩

/-- `DeepAssign(other)`: a copy of the elements, same positions. -/
def deepAssign (_s other : CS) : CS := ⟨other.elements, other.readPos, other.writePos⟩

/-- `Swap`. -/
def swap (s other : CS) : CS × CS := (other, s)

end CS

/-! The exported methods as one step function on a pair `(s, other)` of slices (so that `Swap` and `DeepAssign`
have a partner). A panic leaves the pair unchanged (every panic in these methods happens before any store). -/

inductive QOp where
  | push (x : Nat)
  | pop
  | front
  | index (pos : Int)
  /-- `*s.IndexRef(pos) = v` -/
  | indexSet (pos : Int) (v : Nat)
  | reserve (n : Int)
  | clear
  | swap
  | deepAssign
  | len
  | cap
  | slices
deriving Repr, DecidableEq

inductive QObs where
  | panic
  | done
  | val (v : Nat)
  | int (v : Int)
  | two (a b : List Nat)
deriving Repr, DecidableEq

namespace CS

def apply (st : CS × CS) : QOp → (CS × CS) × QObs
  | .push x => match st.1.pushBack x with
    | none => (st, .panic)
    | some s' => ((s', st.2), .done)
  | .pop => match st.1.popFront with
    | none => (st, .panic)
    | some (x, s') => ((s', st.2), .val x)
  | .front => (st, match st.1.front with | none => .panic | some x => .val x)
  | .index pos => (st, match st.1.index pos with | none => .panic | some x => .val x)
  | .indexSet pos v => match st.1.indexSet pos v with
    | none => (st, .panic)
    | some s' => ((s', st.2), .done)
  | .reserve n => match st.1.reserve n with
    | none => (st, .panic)
    | some s' => ((s', st.2), .done)
  | .clear => match st.1.clear with
    | none => (st, .panic)
    | some s' => ((s', st.2), .done)
  | .swap => (swap st.1 st.2, .done)
  | .deepAssign => ((deepAssign st.1 st.2, st.2), .done)
  | .len => (st, .int st.1.len)
  | .cap => (st, .int st.1.cap)
  | .slices => (st, match st.1.slices with | none => .panic | some (a, b) => .two a b)

/-- Run a history from a pair of states, collecting the observations. -/
def run : CS × CS → List QOp → (CS × CS) × List QObs
  | st, [] => (st, [])
  | st, op :: ops =>
    let (st1, o) := apply st op
    let (st2, os) := run st1 ops
    (st2, o :: os)

end CS
end TLVerif.Algo
