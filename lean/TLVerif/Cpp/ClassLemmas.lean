import TLVerif.Cpp.MaskedLemmas
namespace TLVerif.Cpp
open TLVerif.Prim TLVerif.Facts.Prim

/-- Every medium-form (0xfe) header that announces a length of at most 253 is rejected by the
reference string reader, whatever the content: the whole input class on which the C++ runtime is
lenient (known finding `noncanon`) is outside the reference accept set. -/
theorem medium_form_short_rejected (x1 x2 x3 : UInt8) (r : Bytes)
    (h : (x3.toNat <<< 16) + (x2.toNat <<< 8) + x1.toNat ≤ 253) :
    stringRead (254 :: x1 :: x2 :: x3 :: r) = .error .noncanon := by
  have ht : tinyStringLen = 253 := rfl
  have hm : mediumStringMarker = 254 := rfl
  unfold stringRead stringReadHeader
  have h0 : ¬ (mediumStringMarker ≤ tinyStringLen) := by decide
  have h1 : (254 : UInt8).toNat = mediumStringMarker := by rw [hm]; decide
  have h2 : (x3.toNat <<< 16) + (x2.toNat <<< 8) + x1.toNat ≤ tinyStringLen := by rw [ht]; exact h
  simp only [h1, h0, if_false, if_true, h2]

/-- A `Bool`-like field whose 4 bytes are neither of the two tags is rejected (known finding `booltag`). -/
theorem bad_bool_rejected (a b : Bytes) (bs : Bytes) (hl : 4 ≤ bs.length)
    (h : bs.take 4 ≠ a ∧ bs.take 4 ≠ b) : readP (.alt a b) bs = .error .tag := by
  unfold readP
  have h1 : ¬ bs.length < 4 := by omega
  simp [h1, h.1, h.2]

/-- A vector whose count exceeds what the remaining input can hold (4-byte elements) is rejected
(known finding `sanity`: the reference rejects by running out of input; Go rejects up front). -/
theorem overlong_vector_rejected : ∀ (n : Nat) (bs : Bytes), bs.length < 4 * n →
    ∃ e, readN (.raw 4) n bs = .error e
  | 0, bs, h => by omega
  | n + 1, bs, h => by
    simp only [readN, readP]
    by_cases hl : bs.length < 4
    · exact ⟨.eof, by simp [hl]⟩
    · simp only [hl, if_false]
      have : (bs.drop 4).length < 4 * n := by simp [List.length_drop]; omega
      obtain ⟨e, he⟩ := overlong_vector_rejected n (bs.drop 4) this
      exact ⟨e, by simp [he]⟩

end TLVerif.Cpp
