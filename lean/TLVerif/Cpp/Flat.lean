import TLVerif.Prim.TL1String
/-!
Third voice for C31: the TL1 codec of *flat* types — sequences of fields, each a primitive
(fixed-width 4/8-byte scalar, TL1 string, or a `Bool`-like choice of two exact tags), an exact 4-byte tag (boxed primitive), a vector of a
primitive (`#` count then elements) or a fixed-length tuple of a primitive.

It is written the way both generated readers are written (Go `internal/*.go` from tl2gen and C++
`details.cpp` from tlgen): read field by field from the front, fail at the first field that fails;
strings go through the proved model of `basictl.StringRead/StringWrite` (`TLVerif.Prim`).
Fixed-width scalars are kept as their wire bytes (both languages `memcpy`/`binary.LittleEndian` them,
no value is ever interpreted), the vector count is the little-endian number of the 4 count bytes.

Go's `CheckLengthSanity` (count * minimal element size ≤ remaining bytes) is not modelled: when it
fires, the element loop would fail with EOF anyway (every element of these kinds takes ≥ 4 bytes),
so the accept set and every accepted result are the same; only the error kind differs, and error
kinds are not observed by this property.
-/
namespace TLVerif.Cpp
open TLVerif.Prim

/-- primitive kinds: `raw k` is a k-byte scalar (int/nat/float: 4, long/double: 8) -/
inductive PKind where
  | raw (k : Nat)
  | str
  | alt (a b : Bytes)          -- one of two exact 4-byte tags (`Bool`: boolFalse / boolTrue), kept as its wire bytes
  deriving DecidableEq, Repr, Inhabited

inductive FKind where
  | one (p : PKind)
  | tag (t : Bytes)            -- 4 wire bytes of a constructor tag that must match exactly
  | vec (p : PKind)
  | tup (k : Nat) (p : PKind)
  deriving DecidableEq, Repr, Inhabited

abbrev Desc := List FKind

inductive PVal where
  | raw (bs : Bytes)
  | str (s : Bytes)
  deriving DecidableEq, Repr, Inhabited

inductive FVal where
  | one (v : PVal)
  | tag
  | vec (vs : List PVal)
  | tup (vs : List PVal)
  deriving DecidableEq, Repr, Inhabited

/-- little-endian 32-bit count -/
def le32 (n : Nat) : Bytes := [byteOf n, byteOf (n / 256), byteOf (n / 65536), byteOf (n / 16777216)]

def readP (p : PKind) (bs : Bytes) : Except RErr (PVal × Bytes) :=
  match p with
  | .raw k => if bs.length < k then .error .eof else .ok (.raw (bs.take k), bs.drop k)
  | .str => match stringRead bs with
    | .error e => .error e
    | .ok (s, rest) => .ok (.str s, rest)
  | .alt a b =>
    if bs.length < 4 then .error .eof
    else if bs.take 4 = a ∨ bs.take 4 = b then .ok (.raw (bs.take 4), bs.drop 4) else .error .tag

/-- typed write: `none` is the Go write error / panic (shape mismatch or string ≥ 2^56) -/
def writeP (p : PKind) (v : PVal) : Option Bytes :=
  match p, v with
  | .raw k, .raw bs => if bs.length = k then some bs else none
  | .str, .str s => stringWrite s
  | .alt a b, .raw bs => if bs.length = 4 ∧ (bs = a ∨ bs = b) then some bs else none
  | _, _ => none

def readN (p : PKind) : Nat → Bytes → Except RErr (List PVal × Bytes)
  | 0, bs => .ok ([], bs)
  | n + 1, bs =>
    match readP p bs with
    | .error e => .error e
    | .ok (v, rest) =>
      match readN p n rest with
      | .error e => .error e
      | .ok (vs, rest') => .ok (v :: vs, rest')

def writeN (p : PKind) : List PVal → Option Bytes
  | [] => some []
  | v :: vs =>
    match writeP p v, writeN p vs with
    | some a, some b => some (a ++ b)
    | _, _ => none

def readF (k : FKind) (bs : Bytes) : Except RErr (FVal × Bytes) :=
  match k with
  | .one p => match readP p bs with
    | .error e => .error e
    | .ok (v, rest) => .ok (.one v, rest)
  | .tag t =>
    if bs.length < 4 then .error .eof
    else if bs.take 4 = t then .ok (.tag, bs.drop 4) else .error .tag
  | .vec p =>
    match bs with
    | a :: b :: c :: d :: rest =>
      match readN p (a.toNat + 256 * b.toNat + 65536 * c.toNat + 16777216 * d.toNat) rest with
      | .error e => .error e
      | .ok (vs, rest') => .ok (.vec vs, rest')
    | _ => .error .eof
  | .tup n p =>
    match readN p n bs with
    | .error e => .error e
    | .ok (vs, rest) => .ok (.tup vs, rest)

def writeF (k : FKind) (v : FVal) : Option Bytes :=
  match k, v with
  | .one p, .one v => writeP p v
  | .tag t, .tag => if t.length = 4 then some t else none
  | .vec p, .vec vs =>
    if vs.length < 4294967296 then
      match writeN p vs with
      | some b => some (le32 vs.length ++ b)
      | none => none
    else none
  | .tup n p, .tup vs => if vs.length = n then writeN p vs else none
  | _, _ => none

def readS : Desc → Bytes → Except RErr (List FVal × Bytes)
  | [], bs => .ok ([], bs)
  | k :: ks, bs =>
    match readF k bs with
    | .error e => .error e
    | .ok (v, rest) =>
      match readS ks rest with
      | .error e => .error e
      | .ok (vs, rest') => .ok (v :: vs, rest')

def writeS : Desc → List FVal → Option Bytes
  | [], [] => some []
  | k :: ks, v :: vs =>
    match writeF k v, writeS ks vs with
    | some a, some b => some (a ++ b)
    | _, _ => none
  | _, _ => none

/-- the observation both drivers print for `cpp.r1`: read, write back, count unread bytes -/
inductive Obs where
  | ok (out : Bytes) (rest : Nat)
  | err
  | werr
  deriving DecidableEq, Repr, Inhabited

def r1 (d : Desc) (bs : Bytes) : Obs :=
  match readS d bs with
  | .error _ => .err
  | .ok (v, rest) =>
    match writeS d v with
    | none => .werr
    | some out => .ok out rest.length

end TLVerif.Cpp
