import TLVerif.Cpp.Masked
import TLVerif.Cpp.FlatLemmas
/-! Read-back = consumed prefix and acceptance of written bytes, for masked flat structs. -/
namespace TLVerif.Cpp
open TLVerif.Prim

theorem readM_canonical : ∀ (d : MDesc) (prev : List MVal) (bs : Bytes) (vs : List MVal) (rest : Bytes),
    readM prev d bs = .ok (vs, rest) → ∃ out, writeM prev d vs = some out ∧ bs = out ++ rest
  | [], prev, bs, vs, rest, h => by
    simp only [readM] at h
    injection h with h
    injection h with hv hr
    subst hv; subst hr
    exact ⟨[], by simp [writeM], by simp⟩
  | m :: ms, prev, bs, vs, rest, h => by
    simp only [readM] at h
    by_cases hp : present prev m = true
    · simp only [hp, if_true] at h
      cases h1 : readF (resolve prev m) bs with
      | error e => simp [h1] at h
      | ok t =>
        obtain ⟨v, r1⟩ := t
        simp only [h1] at h
        cases h2 : readM (prev ++ [some v]) ms r1 with
        | error e => simp [h2] at h
        | ok t2 =>
          obtain ⟨vs', r2⟩ := t2
          simp only [h2] at h
          injection h with h
          injection h with hv hr
          subst hv; subst hr
          obtain ⟨o1, hw1, hb1⟩ := readF_canonical _ bs v r1 h1
          obtain ⟨o2, hw2, hb2⟩ := readM_canonical ms _ r1 vs' r2 h2
          refine ⟨o1 ++ o2, by simp [writeM, hp, hw1, hw2], ?_⟩
          rw [hb1, hb2, List.append_assoc]
    · simp only [hp] at h
      cases h2 : readM (prev ++ [none]) ms bs with
      | error e => simp [h2] at h
      | ok t2 =>
        obtain ⟨vs', r2⟩ := t2
        simp [h2] at h
        obtain ⟨hv, hr⟩ := h
        subst hv; subst hr
        obtain ⟨o2, hw2, hb2⟩ := readM_canonical ms _ bs vs' r2 h2
        exact ⟨o2, by simp [writeM, hp, hw2], hb2⟩

theorem readM_written : ∀ (d : MDesc) (prev : List MVal) (vs : List MVal) (out rest : Bytes),
    writeM prev d vs = some out → readM prev d (out ++ rest) = .ok (vs, rest)
  | [], prev, [], out, rest, h => by
    simp only [writeM] at h
    injection h with h
    subst h
    simp [readM]
  | [], prev, _ :: _, out, rest, h => by simp [writeM] at h
  | _ :: _, prev, [], out, rest, h => by simp [writeM] at h
  | m :: ms, prev, v :: vs, out, rest, h => by
    simp only [writeM] at h
    by_cases hp : present prev m = true
    · simp only [hp, if_true] at h
      cases v with
      | none => simp at h
      | some fv =>
        simp only at h
        cases h1 : writeF (resolve prev m) fv with
        | none => simp [h1] at h
        | some a =>
          cases h2 : writeM (prev ++ [some fv]) ms vs with
          | none => simp [h1, h2] at h
          | some b =>
            simp only [h1, h2] at h
            injection h with h
            subst h
            simp only [readM, hp, if_true, List.append_assoc]
            rw [readF_written _ fv a (b ++ rest) h1]
            simp only []
            rw [readM_written ms _ vs b rest h2]
    · simp only [hp] at h
      cases v with
      | some fv => simp at h
      | none =>
        simp only [Bool.false_eq_true, if_false] at h
        simp only [readM, hp, Bool.false_eq_true, if_false]
        rw [readM_written ms _ vs out rest h]

end TLVerif.Cpp
