import TLVerif.Cpp.Flat
/-!
Flat structs with **field masks** and **nat-sized tuples** on top of `TLVerif.Cpp.Flat`:

* a field may be conditional on bit `bit` of an earlier `#` field `src` (`a:m.0?int`): it is on the
  wire iff that bit is set in the value read for `src` (an absent or non-`#` source counts as 0,
  which is what both generated readers do: an absent `#` field keeps its zero value);
* a tuple's length may be the value of an earlier `#` field (`b:k*[int]`).

Both generated readers (Go `ReadTL1`, C++ `…Read`) walk the fields in order, test
`mask & (1<<bit)` on the already-read value and call the same element code; writers test the same bit
of the value being written. The model threads the list of values read / written so far (`prev`).
-/
namespace TLVerif.Cpp
open TLVerif.Prim

inductive Body where
  | fixed (k : FKind)
  | dyn (src : Nat) (p : PKind)      -- tuple of `p` whose length is the value of `#` field number `src`
  deriving DecidableEq, Repr, Inhabited

structure MKind where
  cond : Option (Nat × Nat)          -- `(src, bit)`: present iff bit `bit` of `#` field number `src` is set
  body : Body
  deriving DecidableEq, Repr, Inhabited

abbrev MDesc := List MKind

/-- value of a field: `none` = not on the wire (mask bit clear) -/
abbrev MVal := Option FVal

/-- the number a previously read field denotes when used as `#` (little-endian 4-byte scalar), else 0 -/
def natOf : MVal → Nat
  | some (.one (.raw [a, b, c, d])) => a.toNat + 256 * b.toNat + 65536 * c.toNat + 16777216 * d.toNat
  | _ => 0

def natAt (prev : List MVal) (src : Nat) : Nat := natOf (prev.getD src none)

def present (prev : List MVal) (m : MKind) : Bool :=
  match m.cond with
  | none => true
  | some (src, bit) => (natAt prev src).testBit bit

def resolve (prev : List MVal) (m : MKind) : FKind :=
  match m.body with
  | .fixed k => k
  | .dyn src p => .tup (natAt prev src) p

def readM (prev : List MVal) : MDesc → Bytes → Except RErr (List MVal × Bytes)
  | [], bs => .ok ([], bs)
  | m :: ms, bs =>
    if present prev m then
      match readF (resolve prev m) bs with
      | .error e => .error e
      | .ok (v, rest) =>
        match readM (prev ++ [some v]) ms rest with
        | .error e => .error e
        | .ok (vs, rest') => .ok (some v :: vs, rest')
    else
      match readM (prev ++ [none]) ms bs with
      | .error e => .error e
      | .ok (vs, rest') => .ok (none :: vs, rest')

/-- typed write: `none` when the value list does not have the shape the masks and sizes dictate -/
def writeM (prev : List MVal) : MDesc → List MVal → Option Bytes
  | [], [] => some []
  | m :: ms, v :: vs =>
    if present prev m then
      match v with
      | some fv =>
        match writeF (resolve prev m) fv, writeM (prev ++ [some fv]) ms vs with
        | some a, some b => some (a ++ b)
        | _, _ => none
      | none => none
    else
      match v with
      | none => writeM (prev ++ [none]) ms vs
      | some _ => none
  | _, _ => none

/-- the observation the drivers print for `cpp.r1` on a masked flat type -/
def r1m (d : MDesc) (bs : Bytes) : Obs :=
  match readM [] d bs with
  | .error _ => .err
  | .ok (v, rest) =>
    match writeM [] d v with
    | none => .werr
    | some out => .ok out rest.length

end TLVerif.Cpp
