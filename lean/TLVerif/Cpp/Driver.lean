import TLVerif.Util.Hex
import TLVerif.Cpp.Masked
/-!
Line-protocol handler of the `cpp` family. The Lean voice answers only lines that carry a flat
descriptor as last word:

  cpp.r1 TYPE HEX DESC   ->  ok OUTHEX REST | err | werr

`TYPE` is ignored here (the Go and C++ drivers use it and ignore `DESC`). `DESC` is a comma separated
list of fields (numbered from 0). A field is `[?SRC.BIT:]BODY`; with the prefix it is on the wire iff bit
`BIT` of the `#` field number `SRC` is set. `BODY`: `i n f` 4-byte scalar, `l d` 8-byte scalar, `s` string,
`A<8 hex><8 hex>` one of two exact tags (Bool, wire order), `B<8 hex>` exact tag (wire order), `V<p>` vector
of primitive `p`, `T<k><p>` tuple of `k` primitives `p`, `D<src><p>` tuple of primitives `p` whose length is
the value of `#` field number `src`.
-/
namespace TLVerif.Cpp
open TLVerif.Util TLVerif.Prim

def parsePrim (s : String) : Option PKind :=
  match s with
  | "i" => some (.raw 4) | "n" => some (.raw 4) | "f" => some (.raw 4)
  | "l" => some (.raw 8) | "d" => some (.raw 8)
  | "s" => some .str
  | _ =>
    match s.toList with
    | 'A' :: t =>
      match bytesOfHex (String.ofList (t.take 8)), bytesOfHex (String.ofList (t.drop 8)) with
      | some a, some b => if a.length = 4 ∧ b.length = 4 then some (.alt a b) else none
      | _, _ => none
    | _ => none

def parseBody (w : String) : Option Body :=
  match w.toList with
  | 'B' :: t =>
    match bytesOfHex (String.ofList t) with
    | some bs => if bs.length = 4 then some (.fixed (.tag bs)) else none
    | none => none
  | 'V' :: t => (parsePrim (String.ofList t)).map fun p => .fixed (.vec p)
  | 'T' :: t =>
    match (String.ofList (t.takeWhile Char.isDigit)).toNat?, parsePrim (String.ofList (t.dropWhile Char.isDigit)) with
    | some k, some p => some (.fixed (.tup k p))
    | _, _ => none
  | 'D' :: t =>
    match (String.ofList (t.takeWhile Char.isDigit)).toNat?, parsePrim (String.ofList (t.dropWhile Char.isDigit)) with
    | some src, some p => some (.dyn src p)
    | _, _ => none
  | _ => (parsePrim w).map fun p => .fixed (.one p)

def parseField (w : String) : Option MKind :=
  match w.toList with
  | '?' :: t =>
    match (String.ofList t).splitOn ":" with
    | [c, b] =>
      match c.splitOn ".", parseBody b with
      | [s, bit], some body =>
        match s.toNat?, bit.toNat? with
        | some s, some bit => some ⟨some (s, bit), body⟩
        | _, _ => none
      | _, _ => none
    | _ => none
  | _ => (parseBody w).map fun b => ⟨none, b⟩

def parseDesc (s : String) : Option MDesc :=
  (s.splitOn ",").mapM parseField

def handle (op : String) (args : List String) : String :=
  match op, args with
  | "r1", [_, h, d] =>
    match bytesOfHex h, parseDesc d with
    | some bs, some desc =>
      match r1m desc bs with
      | .err => "err"
      | .werr => "werr"
      | .ok out rest => s!"ok {hexOfBytes out} {rest}"
    | _, _ => "bad-op"
  | _, _ => "bad-op"

end TLVerif.Cpp
