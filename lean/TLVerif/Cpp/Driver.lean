import TLVerif.Util.Hex
import TLVerif.Cpp.Flat
/-!
Line-protocol handler of the `cpp` family. The Lean voice answers only lines that carry a flat
descriptor as last word:

  cpp.r1 TYPE HEX DESC   ->  ok OUTHEX REST | err | werr

`TYPE` is ignored here (the Go and C++ drivers use it and ignore `DESC`). `DESC` is a comma separated
list of fields: `i n f` 4-byte scalar, `l d` 8-byte scalar, `s` string, `A<8 hex><8 hex>` one of two exact tags (Bool), `B<8 hex>` exact tag (wire
order), `V<p>` vector of primitive `p`, `T<k><p>` tuple of `k` primitives `p`.
-/
namespace TLVerif.Cpp
open TLVerif.Util TLVerif.Prim

def parsePrim (s : String) : Option PKind :=
  match s with
  | "i" => some (.raw 4) | "n" => some (.raw 4) | "f" => some (.raw 4)
  | "l" => some (.raw 8) | "d" => some (.raw 8)
  | "s" => some .str
  | _ =>
    match s.toList with
    | 'A' :: t =>
      match bytesOfHex (String.ofList (t.take 8)), bytesOfHex (String.ofList (t.drop 8)) with
      | some a, some b => if a.length = 4 ∧ b.length = 4 then some (.alt a b) else none
      | _, _ => none
    | _ => none

def parseField (w : String) : Option FKind :=
  match w.toList with
  | 'B' :: t =>
    match bytesOfHex (String.ofList t) with
    | some bs => if bs.length = 4 then some (.tag bs) else none
    | none => none
  | 'V' :: t => (parsePrim (String.ofList t)).map .vec
  | 'T' :: t =>
    let digits := t.takeWhile Char.isDigit
    let rest := t.dropWhile Char.isDigit
    match (String.ofList digits).toNat?, parsePrim (String.ofList rest) with
    | some k, some p => some (.tup k p)
    | _, _ => none
  | _ => (parsePrim w).map .one

def parseDesc (s : String) : Option Desc :=
  (s.splitOn ",").mapM parseField

def handle (op : String) (args : List String) : String :=
  match op, args with
  | "r1", [_, h, d] =>
    match bytesOfHex h, parseDesc d with
    | some bs, some desc =>
      match r1 desc bs with
      | .err => "err"
      | .werr => "werr"
      | .ok out rest => s!"ok {hexOfBytes out} {rest}"
    | _, _ => "bad-op"
  | _, _ => "bad-op"

end TLVerif.Cpp
