import TLVerif.Cpp.Flat
import TLVerif.Prim.TL1StringLemmas
/-! Helper lemmas for `Props/C31.lean`: read-back = consumed prefix, written bytes are accepted. -/
namespace TLVerif.Cpp
open TLVerif.Prim

theorem byteOf_toNat (n : Nat) : (byteOf n).toNat = n % 256 := by
  simp [byteOf]

/-- the count bytes written for `n < 2^32` decode to `n` -/
theorem le32_decode (n : Nat) (h : n < 4294967296) :
    (byteOf n).toNat + 256 * (byteOf (n / 256)).toNat + 65536 * (byteOf (n / 65536)).toNat
      + 16777216 * (byteOf (n / 16777216)).toNat = n := by
  simp only [byteOf_toNat]
  omega

/-- four count bytes are what `le32` writes for the number they decode to -/
theorem le32_encode (a b c d : UInt8) :
    le32 (a.toNat + 256 * b.toNat + 65536 * c.toNat + 16777216 * d.toNat) = [a, b, c, d] := by
  have ha := a.toNat_lt
  have hb := b.toNat_lt
  have hc := c.toNat_lt
  have hd := d.toNat_lt
  unfold le32
  have e0 : byteOf (a.toNat + 256 * b.toNat + 65536 * c.toNat + 16777216 * d.toNat) = a :=
    byteOf_eq_of_mod (by omega)
  have e1 : byteOf ((a.toNat + 256 * b.toNat + 65536 * c.toNat + 16777216 * d.toNat) / 256) = b :=
    byteOf_eq_of_mod (by omega)
  have e2 : byteOf ((a.toNat + 256 * b.toNat + 65536 * c.toNat + 16777216 * d.toNat) / 65536) = c :=
    byteOf_eq_of_mod (by omega)
  have e3 : byteOf ((a.toNat + 256 * b.toNat + 65536 * c.toNat + 16777216 * d.toNat) / 16777216) = d :=
    byteOf_eq_of_mod (by omega)
  rw [e0, e1, e2, e3]

theorem count_lt (a b c d : UInt8) :
    a.toNat + 256 * b.toNat + 65536 * c.toNat + 16777216 * d.toNat < 4294967296 := by
  have ha := a.toNat_lt
  have hb := b.toNat_lt
  have hc := c.toNat_lt
  have hd := d.toNat_lt
  omega

/-! ### primitives -/

theorem readP_canonical (p : PKind) (bs : Bytes) (v : PVal) (rest : Bytes)
    (h : readP p bs = .ok (v, rest)) : ∃ out, writeP p v = some out ∧ bs = out ++ rest := by
  cases p with
  | raw k =>
    unfold readP at h
    by_cases hl : bs.length < k
    · simp [hl] at h
    · simp only [hl, if_false] at h
      injection h with h
      injection h with hv hr
      subst hv; subst hr
      refine ⟨bs.take k, ?_, (List.take_append_drop k bs).symm⟩
      have : (bs.take k).length = k := by simp [List.length_take]; omega
      simp [writeP, this]
  | str =>
    unfold readP at h
    cases hs : stringRead bs with
    | error e => simp [hs] at h
    | ok t =>
      obtain ⟨s, r⟩ := t
      simp only [hs] at h
      injection h with h
      injection h with hv hr
      subst hv; subst hr
      obtain ⟨out, hw, hb⟩ := string_read_canonical bs s r hs
      exact ⟨out, by simpa [writeP] using hw, hb⟩
  | alt a b =>
    unfold readP at h
    by_cases hl : bs.length < 4
    · simp [hl] at h
    · simp only [hl, if_false] at h
      by_cases ht : bs.take 4 = a ∨ bs.take 4 = b
      · simp only [ht, if_true] at h
        injection h with h
        injection h with hv hr
        subst hv; subst hr
        have h4 : (bs.take 4).length = 4 := by simp [List.length_take]; omega
        refine ⟨bs.take 4, ?_, (List.take_append_drop 4 bs).symm⟩
        simp [writeP, h4, ht]
      · simp [ht] at h

theorem readP_written (p : PKind) (v : PVal) (out rest : Bytes) (h : writeP p v = some out) :
    readP p (out ++ rest) = .ok (v, rest) := by
  cases p with
  | raw k =>
    cases v with
    | str s => simp [writeP] at h
    | raw bs =>
      unfold writeP at h
      by_cases hl : bs.length = k
      · simp only [hl, if_true] at h
        injection h with h
        subst h
        unfold readP
        have h1 : ¬ (bs ++ rest).length < k := by simp [List.length_append]; omega
        simp only [h1, if_false]
        have h2 : (bs ++ rest).take k = bs := by
          rw [← hl]; simp
        have h3 : (bs ++ rest).drop k = rest := by
          rw [← hl]; simp
        rw [h2, h3]
      · simp [hl] at h
  | str =>
    cases v with
    | raw bs => simp [writeP] at h
    | str s =>
      have hw : stringWrite s = some out := by simpa [writeP] using h
      unfold readP
      rw [string_roundtrip s rest out hw]
  | alt a b =>
    cases v with
    | str s => simp [writeP] at h
    | raw bs =>
      unfold writeP at h
      by_cases hc : bs.length = 4 ∧ (bs = a ∨ bs = b)
      · simp only [hc, if_true] at h
        injection h with h
        subst h
        obtain ⟨h4, hab⟩ := hc
        unfold readP
        have h1 : ¬ (bs ++ rest).length < 4 := by simp [List.length_append]; omega
        have h2 : (bs ++ rest).take 4 = bs := by rw [← h4]; simp
        have h3 : (bs ++ rest).drop 4 = rest := by rw [← h4]; simp
        simp only [h1, if_false, h2, hab, if_true, h3]
      · simp [hc] at h

/-! ### element sequences -/

theorem readN_canonical (p : PKind) : ∀ (n : Nat) (bs : Bytes) (vs : List PVal) (rest : Bytes),
    readN p n bs = .ok (vs, rest) →
      ∃ out, writeN p vs = some out ∧ bs = out ++ rest ∧ vs.length = n
  | 0, bs, vs, rest, h => by
    simp only [readN] at h
    injection h with h
    injection h with hv hr
    subst hv; subst hr
    exact ⟨[], by simp [writeN], by simp, rfl⟩
  | n + 1, bs, vs, rest, h => by
    simp only [readN] at h
    cases h1 : readP p bs with
    | error e => simp [h1] at h
    | ok t =>
      obtain ⟨v, r1⟩ := t
      simp only [h1] at h
      cases h2 : readN p n r1 with
      | error e => simp [h2] at h
      | ok t2 =>
        obtain ⟨vs', r2⟩ := t2
        simp only [h2] at h
        injection h with h
        injection h with hv hr
        subst hv; subst hr
        obtain ⟨o1, hw1, hb1⟩ := readP_canonical p bs v r1 h1
        obtain ⟨o2, hw2, hb2, hl⟩ := readN_canonical p n r1 vs' r2 h2
        refine ⟨o1 ++ o2, ?_, ?_, by simp [hl]⟩
        · simp [writeN, hw1, hw2]
        · rw [hb1, hb2, List.append_assoc]

theorem readN_written (p : PKind) : ∀ (vs : List PVal) (out rest : Bytes),
    writeN p vs = some out → readN p vs.length (out ++ rest) = .ok (vs, rest)
  | [], out, rest, h => by
    simp only [writeN] at h
    injection h with h
    subst h
    simp [readN]
  | v :: vs, out, rest, h => by
    simp only [writeN] at h
    cases h1 : writeP p v with
    | none => simp [h1] at h
    | some a =>
      cases h2 : writeN p vs with
      | none => simp [h1, h2] at h
      | some b =>
        simp only [h1, h2] at h
        injection h with h
        subst h
        simp only [List.length_cons, readN, List.append_assoc]
        rw [readP_written p v a (b ++ rest) h1]
        simp only []
        rw [readN_written p vs b rest h2]

/-! ### fields -/

theorem readF_canonical (k : FKind) (bs : Bytes) (v : FVal) (rest : Bytes)
    (h : readF k bs = .ok (v, rest)) : ∃ out, writeF k v = some out ∧ bs = out ++ rest := by
  cases k with
  | one p =>
    unfold readF at h
    cases h1 : readP p bs with
    | error e => simp [h1] at h
    | ok t =>
      obtain ⟨pv, r⟩ := t
      simp only [h1] at h
      injection h with h
      injection h with hv hr
      subst hv; subst hr
      obtain ⟨out, hw, hb⟩ := readP_canonical p bs pv r h1
      exact ⟨out, by simpa [writeF] using hw, hb⟩
  | tag t =>
    unfold readF at h
    by_cases hl : bs.length < 4
    · simp [hl] at h
    · simp only [hl, if_false] at h
      by_cases ht : bs.take 4 = t
      · simp only [ht, if_true] at h
        injection h with h
        injection h with hv hr
        subst hv; subst hr
        have h4 : t.length = 4 := by rw [← ht]; simp [List.length_take]; omega
        refine ⟨t, by simp [writeF, h4], ?_⟩
        rw [← ht]; exact (List.take_append_drop 4 bs).symm
      · simp [ht] at h
  | vec p =>
    unfold readF at h
    match bs, h with
    | a :: b :: c :: d :: r0, h =>
      simp only at h
      cases h1 : readN p (a.toNat + 256 * b.toNat + 65536 * c.toNat + 16777216 * d.toNat) r0 with
      | error e => simp [h1] at h
      | ok t =>
        obtain ⟨vs, r⟩ := t
        simp only [h1] at h
        injection h with h
        injection h with hv hr
        subst hv; subst hr
        obtain ⟨o, hw, hb, hl⟩ := readN_canonical p _ r0 vs r h1
        have hc := count_lt a b c d
        refine ⟨[a, b, c, d] ++ o, ?_, by simp [hb]⟩
        simp only [writeF, hl, hc, if_true, hw, le32_encode]
    | [], h => simp at h
    | [_], h => simp at h
    | [_, _], h => simp at h
    | [_, _, _], h => simp at h
  | tup n p =>
    unfold readF at h
    cases h1 : readN p n bs with
    | error e => simp [h1] at h
    | ok t =>
      obtain ⟨vs, r⟩ := t
      simp only [h1] at h
      injection h with h
      injection h with hv hr
      subst hv; subst hr
      obtain ⟨o, hw, hb, hl⟩ := readN_canonical p n bs vs r h1
      exact ⟨o, by simp [writeF, hl, hw], hb⟩

theorem readF_written (k : FKind) (v : FVal) (out rest : Bytes) (h : writeF k v = some out) :
    readF k (out ++ rest) = .ok (v, rest) := by
  cases k with
  | one p =>
    cases v with
    | one pv =>
      have hw : writeP p pv = some out := by simpa [writeF] using h
      simp only [readF]
      rw [readP_written p pv out rest hw]
    | tag => simp [writeF] at h
    | vec vs => simp [writeF] at h
    | tup vs => simp [writeF] at h
  | tag t =>
    cases v with
    | tag =>
      unfold writeF at h
      by_cases h4 : t.length = 4
      · simp only [h4, if_true] at h
        injection h with h
        subst h
        unfold readF
        have h1 : ¬ (t ++ rest).length < 4 := by simp [List.length_append]; omega
        have h2 : (t ++ rest).take 4 = t := by rw [← h4]; simp
        have h3 : (t ++ rest).drop 4 = rest := by rw [← h4]; simp
        simp only [h1, if_false, h2, if_true, h3]
      · simp [h4] at h
    | one pv => simp [writeF] at h
    | vec vs => simp [writeF] at h
    | tup vs => simp [writeF] at h
  | vec p =>
    cases v with
    | vec vs =>
      unfold writeF at h
      by_cases hl : vs.length < 4294967296
      · simp only [hl, if_true] at h
        cases hw : writeN p vs with
        | none => simp [hw] at h
        | some b =>
          simp only [hw] at h
          injection h with h
          subst h
          unfold readF
          simp only [le32, List.cons_append, List.nil_append]
          rw [le32_decode vs.length hl, readN_written p vs b rest hw]
      · simp [hl] at h
    | one pv => simp [writeF] at h
    | tag => simp [writeF] at h
    | tup vs => simp [writeF] at h
  | tup n p =>
    cases v with
    | tup vs =>
      unfold writeF at h
      by_cases hl : vs.length = n
      · simp only [hl, if_true] at h
        subst hl
        simp only [readF]
        rw [readN_written p vs out rest h]
      · simp [hl] at h
    | one pv => simp [writeF] at h
    | tag => simp [writeF] at h
    | vec vs => simp [writeF] at h

/-! ### structs -/

theorem readS_canonical : ∀ (d : Desc) (bs : Bytes) (vs : List FVal) (rest : Bytes),
    readS d bs = .ok (vs, rest) → ∃ out, writeS d vs = some out ∧ bs = out ++ rest
  | [], bs, vs, rest, h => by
    simp only [readS] at h
    injection h with h
    injection h with hv hr
    subst hv; subst hr
    exact ⟨[], by simp [writeS], by simp⟩
  | k :: ks, bs, vs, rest, h => by
    simp only [readS] at h
    cases h1 : readF k bs with
    | error e => simp [h1] at h
    | ok t =>
      obtain ⟨v, r1⟩ := t
      simp only [h1] at h
      cases h2 : readS ks r1 with
      | error e => simp [h2] at h
      | ok t2 =>
        obtain ⟨vs', r2⟩ := t2
        simp only [h2] at h
        injection h with h
        injection h with hv hr
        subst hv; subst hr
        obtain ⟨o1, hw1, hb1⟩ := readF_canonical k bs v r1 h1
        obtain ⟨o2, hw2, hb2⟩ := readS_canonical ks r1 vs' r2 h2
        refine ⟨o1 ++ o2, by simp [writeS, hw1, hw2], ?_⟩
        rw [hb1, hb2, List.append_assoc]

theorem readS_written : ∀ (d : Desc) (vs : List FVal) (out rest : Bytes),
    writeS d vs = some out → readS d (out ++ rest) = .ok (vs, rest)
  | [], [], out, rest, h => by
    simp only [writeS] at h
    injection h with h
    subst h
    simp [readS]
  | [], _ :: _, out, rest, h => by simp [writeS] at h
  | _ :: _, [], out, rest, h => by simp [writeS] at h
  | k :: ks, v :: vs, out, rest, h => by
    simp only [writeS] at h
    cases h1 : writeF k v with
    | none => simp [h1] at h
    | some a =>
      cases h2 : writeS ks vs with
      | none => simp [h1, h2] at h
      | some b =>
        simp only [h1, h2] at h
        injection h with h
        subst h
        simp only [readS, List.append_assoc]
        rw [readF_written k v a (b ++ rest) h1]
        simp only []
        rw [readS_written ks vs b rest h2]

end TLVerif.Cpp
