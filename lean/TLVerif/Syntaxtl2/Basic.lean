import TLVerif.Generated.Syntaxtl2Facts
/-! Basic types of the TL2 syntax model: byte strings, positions, tokens, the result monad with an explicit
`panic` (Go run-time panic / log.Panicf) and `nofuel` (recursion bound of the model exhausted) outcome.
Core Lean only. Mirrors internal/tlast/tllexer.go (Position, token) and tlparser_error.go (ParseError). -/
namespace TLVerif.Syntaxtl2
open TLVerif.Facts

abbrev Bytes := List UInt8

/-- ASCII string literal as bytes. -/
def bs (s : String) : Bytes := s.toList.map (fun c => UInt8.ofNat c.toNat)

/-- tllexer.go `Position` (fileContent/file are global to one parse and kept outside). -/
structure Pos where
  line : Nat
  col : Nat
  slo : Nat   -- startLineOffset
  off : Nat
deriving DecidableEq, Repr, Inhabited

structure Token where
  ty : Int
  val : Bytes
  pos : Pos
deriving DecidableEq, Repr, Inhabited

/-- tlparser_error.go `ParseError` without the message: the position range. -/
structure PErr where
  outer : Pos
  b : Pos
  e : Pos
deriving DecidableEq, Repr, Inhabited

/-- `parseErrToken(err, tok, outer)`. -/
def errTok (tok : Token) (outer : Pos) : PErr :=
  { outer := outer, b := tok.pos,
    e := { tok.pos with off := tok.pos.off + tok.val.length, col := tok.pos.col + tok.val.length } }

inductive Res (α : Type) where
  | ok (a : α)
  | panic
  | nofuel
deriving Repr

namespace Res
@[inline] def bind {α β : Type} (m : Res α) (f : α → Res β) : Res β :=
  match m with
  | .ok a => f a
  | .panic => .panic
  | .nofuel => .nofuel
instance : Monad Res where
  pure := .ok
  bind := Res.bind
@[simp] theorem pure_eq {α : Type} (a : α) : (pure a : Res α) = .ok a := rfl
@[simp] theorem ok_bind {α β : Type} (a : α) (f : α → Res β) : (Res.ok a >>= f) = f a := rfl
@[simp] theorem panic_bind {α β : Type} (f : α → Res β) : ((Res.panic : Res α) >>= f) = .panic := rfl
@[simp] theorem nofuel_bind {α β : Type} (f : α → Res β) : ((Res.nofuel : Res α) >>= f) = .nofuel := rfl
end Res

/-! Token type constants (regenerated from tllexer.go; see Generated/Syntaxtl2Facts.lean). -/
namespace T
def crc32hash : Int := Syntaxtl2.crc32hash
def annotation : Int := Syntaxtl2.annotation
def numberSign : Int := Syntaxtl2.numberSign
def number : Int := Syntaxtl2.number
def comment : Int := Syntaxtl2.comment
def undefined : Int := Syntaxtl2.undefined
def lcIdent : Int := Syntaxtl2.lcIdent
def ucIdent : Int := Syntaxtl2.ucIdent
def lcIdentNS : Int := Syntaxtl2.lcIdentNS
def ucIdentNS : Int := Syntaxtl2.ucIdentNS
def eof : Int := Syntaxtl2.eof
def functionSign : Int := Syntaxtl2.functionSign
def newLine : Int := Syntaxtl2.newLine
def tl2alias : Int := Syntaxtl2.tl2alias
def tl2depName : Int := Syntaxtl2.tl2depName
def tl2typeSign : Int := Syntaxtl2.tl2typeSign
def typesSection : Int := Syntaxtl2.typesSection
def functionsSection : Int := Syntaxtl2.functionsSection
def lRound : Int := (Syntaxtl2.lRoundBracket : Nat)
def rRound : Int := (Syntaxtl2.rRoundBracket : Nat)
def lSquare : Int := (Syntaxtl2.lSquareBracket : Nat)
def rSquare : Int := (Syntaxtl2.rSquareBracket : Nat)
def lCurly : Int := (Syntaxtl2.lCurlyBracket : Nat)
def rCurly : Int := (Syntaxtl2.rCurlyBracket : Nat)
def lAngle : Int := (Syntaxtl2.lAngleBracket : Nat)
def rAngle : Int := (Syntaxtl2.rAngleBracket : Nat)
def colon : Int := (Syntaxtl2.colon : Nat)
def semiColon : Int := (Syntaxtl2.semiColon : Nat)
def dotSign : Int := (Syntaxtl2.dotSign : Nat)
def commaSign : Int := (Syntaxtl2.commaSign : Nat)
def percentSign : Int := (Syntaxtl2.percentSign : Nat)
def whiteSpace : Int := (Syntaxtl2.whiteSpace : Nat)
def tab : Int := (Syntaxtl2.tab : Nat)
def equalSign : Int := (Syntaxtl2.equalSign : Nat)
def questionMark : Int := (Syntaxtl2.questionMark : Nat)
def asterisk : Int := (Syntaxtl2.asterisk : Nat)
def plus : Int := (Syntaxtl2.plus : Nat)
def exclamation : Int := (Syntaxtl2.exclamation : Nat)
def verticalBar : Int := (Syntaxtl2.verticalBar : Nat)
def underscore : Int := (Syntaxtl2.underscore : Nat)
end T

end TLVerif.Syntaxtl2
