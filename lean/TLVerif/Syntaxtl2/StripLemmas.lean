import TLVerif.Syntaxtl2.RoundTripLemmas
/-! The parser is insensitive to white space: iterator operations in terms of `strip` (tokens without white space). -/
set_option linter.unusedSimpArgs false
namespace TLVerif.Syntaxtl2

/-- the token sequence the parser sees: white space and comments removed, positions forgotten. -/
def strip (its : Iter) : List TK := (its.filter (fun t => !isWS t)).map Token.tk

theorem strip_cons_ws {t : Token} {r : Iter} (h : isWS t = true) : strip (t :: r) = strip r := by
  simp [strip, List.filter, h]

theorem strip_cons_nw {t : Token} {r : Iter} (h : NW t) : strip (t :: r) = t.tk :: strip r := by
  have h' : isWS t = false := h
  simp [strip, List.filter, h']

/-- `skipWS` stops at the first token of `strip`. -/
theorem skipWS_strip : ∀ {its : Iter} {k : TK} {ks : List TK}, strip its = k :: ks →
    ∃ h r, skipWS its = .ok (h :: r) ∧ NW h ∧ h.tk = k ∧ strip r = ks ∧ (h :: r) <:+ its := by
  intro its
  induction its with
  | nil => intro k ks h; simp [strip] at h
  | cons t r ih =>
    intro k ks h
    by_cases hw : isWS t = true
    · rw [strip_cons_ws hw] at h
      obtain ⟨h', r', e, a, b, c, d⟩ := ih h
      exact ⟨h', r', by simp only [skipWS, hw, ↓reduceIte]; exact e, a, b, c, d.trans (List.suffix_cons t r)⟩
    · have hnw : NW t := by unfold NW; simpa using hw
      rw [strip_cons_nw hnw] at h
      injection h with h1 h2
      exact ⟨t, r, skipWS_nw hnw, hnw, h1, h2, List.suffix_refl _⟩

theorem checkAny_strip {its : Iter} {k : TK} {ks : List TK} (h : strip its = k :: ks) (tys : List Int) :
    ∃ hd r, checkAny its tys = .ok (tys.contains k.1, hd :: r) ∧ NW hd ∧ hd.tk = k ∧ strip r = ks ∧ (hd :: r) <:+ its := by
  obtain ⟨hd, r, e, a, b, c, d⟩ := skipWS_strip h
  refine ⟨hd, r, ?_, a, b, c, d⟩
  simp only [checkAny, e, Res.ok_bind, front_cons, Res.pure_eq]
  rw [← b]; rfl

theorem expect_strip {its : Iter} {k : TK} {ks : List TK} (h : strip its = k :: ks) (ty : Int) :
    (k.1 = ty → ∃ r, expect its ty = .ok (true, r) ∧ strip r = ks ∧ r <:+ its) ∧
    (k.1 ≠ ty → ∃ r, expect its ty = .ok (false, r) ∧ strip r = k :: ks ∧ r <:+ its ∧ skipWS r = .ok r) := by
  obtain ⟨hd, r, e, a, b, c, d⟩ := skipWS_strip h
  have hty : hd.ty = k.1 := by rw [← b]; rfl
  constructor
  · intro hk
    refine ⟨r, ?_, c, (List.suffix_cons hd r).trans d⟩
    simp only [expect, checkToken, checkAny, e, Res.ok_bind, front_cons, Res.pure_eq, List.contains_cons,
      List.contains_nil, Bool.or_false, hty, hk, BEq.rfl, ↓reduceIte, popFront_cons]
  · intro hk
    have : (k.1 == ty) = false := by simpa using hk
    refine ⟨hd :: r, ?_, by rw [strip_cons_nw a, b, c], d, skipWS_nw a⟩
    simp only [expect, checkToken, checkAny, e, Res.ok_bind, front_cons, Res.pure_eq, List.contains_cons,
      List.contains_nil, Bool.or_false, hty, this, Bool.false_eq_true, ↓reduceIte]

theorem expectLazy_strip {its : Iter} {k : TK} {ks : List TK} (h : strip its = k :: ks) (ty : Int) :
    (k.1 = ty → ∃ r, expectLazy its ty = .ok (true, r) ∧ strip r = ks ∧ r <:+ its) ∧
    (k.1 ≠ ty → expectLazy its ty = .ok (false, its)) := by
  obtain ⟨h1, h2⟩ := expect_strip h ty
  constructor
  · intro hk
    obtain ⟨r, e, a, b⟩ := h1 hk
    exact ⟨r, by simp only [expectLazy, e, Res.ok_bind, ↓reduceIte, Res.pure_eq], a, b⟩
  · intro hk
    obtain ⟨r, e, _⟩ := h2 hk
    simp only [expectLazy, e, Res.ok_bind, Bool.false_eq_true, ↓reduceIte, Res.pure_eq]

theorem front_strip {its : Iter} {k : TK} {ks : List TK} (h : strip its = k :: ks) : ∃ t, front its = .ok t := by
  cases its with
  | nil => simp [strip] at h
  | cons t r => exact ⟨t, rfl⟩

/-- what may follow a type in `strip` terms: some token that is not `<`. -/
def FollowK (ks : List TK) : Prop := ∃ k ks', ks = k :: ks' ∧ k.1 ≠ T.lAngle

theorem follow_of_strip {rest : Iter} {ks : List TK} (h : strip rest = ks) (hf : FollowK ks) : Follow rest := by
  obtain ⟨k, ks', rfl, hk⟩ := hf
  obtain ⟨hd, r, e, _, b, _, _⟩ := skipWS_strip h
  exact ⟨hd, r, e, by rw [show hd.ty = k.1 from by rw [← b]; rfl]; exact hk⟩

/-- `parseTypeName` in `strip` terms. -/
theorem nameS (n : TName) (hwf : n.wf = true) (its : Iter) (ks : List TK) (pos : Pos)
    (hm : strip its = tnameToks n ++ ks) :
    ∃ rest, parseTypeName its pos = .ok ({ start := true }, rest, n) ∧ strip rest = ks ∧ rest <:+ its ∧
      rest.length < its.length := by
  obtain ⟨k, hk⟩ := tnameToks_single n
  rw [hk] at hm
  obtain ⟨hd, r, e, hnw, htk, hr, hsuf⟩ := skipWS_strip hm
  have h1 : [hd].map Token.tk = tnameToks n := by rw [hk]; simp [htk]
  have := parseTypeName_rt n hwf [hd] r pos h1
  refine ⟨r, ?_, hr, (List.suffix_cons hd r).trans hsuf, ?_⟩
  · -- parseTypeName only looks at its input through checkAny (= skipWS first)
    simp only [parseTypeName, checkAny, e, Res.ok_bind] at this ⊢
    simp only [List.singleton_append, skipWS_nw hnw, Res.ok_bind] at this
    exact this
  · have := hsuf.length_le; simp only [List.length_cons] at this; omega

theorem followK_ne {ks : List TK} (h : FollowK ks) : ∃ k ks', ks = k :: ks' := by
  obtain ⟨k, ks', e, _⟩ := h; exact ⟨k, ks', e⟩

theorem front_of_strip {rest : Iter} {ks : List TK} (h : strip rest = ks) (hf : FollowK ks) : ∃ t, front rest = .ok t := by
  obtain ⟨k, ks', rfl, _⟩ := hf; exact front_strip h

/-- `parseTL2Type` on a token that starts no type: omitted, only white space consumed. -/
theorem typeS_omitted {its : Iter} {k : TK} {ks : List TK} (h : strip its = k :: ks) (pos : Pos) (fuel : Nat) (hf : 3 ≤ fuel)
    (h1 : [T.lcIdent, T.ucIdent].contains k.1 = false) (h2 : [T.lcIdentNS, T.ucIdentNS].contains k.1 = false)
    (h3 : (k.1 == T.lSquare) = false) :
    ∃ rest, parseType fuel its pos = .ok ({ start := false }, rest, default) ∧ strip rest = k :: ks ∧ rest <:+ its := by
  obtain ⟨hd, r, e, hnw, htk, hr, hsuf⟩ := skipWS_strip h
  have hty : hd.ty = k.1 := by rw [← htk]; rfl
  have := parseType_omitted (r := r) hnw pos fuel hf (by rw [hty]; exact h1) (by rw [hty]; exact h2) (by rw [hty]; exact h3)
  refine ⟨hd :: r, ?_, by rw [strip_cons_nw hnw, htk, hr], hsuf⟩
  obtain ⟨f, rfl⟩ : ∃ f, fuel = f + 1 := ⟨fuel - 1, by omega⟩
  rw [parseType] at this ⊢
  simp only [e, skipWS_nw hnw, Res.ok_bind] at this ⊢
  exact this

mutual
theorem typeS : (t : TypeRef) → t.wf = true → ∀ (its : Iter) (ks : List TK) (pos : Pos) (fuel : Nat),
    strip its = typeToks t ++ ks → FollowK ks → needT t ≤ fuel →
    ∃ rest, parseType fuel its pos = .ok ({ start := true }, rest, t) ∧ strip rest = ks ∧ rest <:+ its
  | .app name [], hwf, its, ks, pos, fuel, hm, hfol, hf => by
    simp only [TypeRef.wf, argsWf, Bool.and_true] at hwf
    simp only [typeToks] at hm
    simp only [needT, needArgs] at hf
    obtain ⟨f, rfl⟩ : ∃ f, fuel = f + 2 := ⟨fuel - 2, by omega⟩
    obtain ⟨k, hk⟩ := tnameToks_single name
    obtain ⟨hd, r, e, hnw, htk, hr, hsuf⟩ := skipWS_strip (hk ▸ hm)
    have hm2 : strip (hd :: r) = tnameToks name ++ ks := by rw [strip_cons_nw hnw, htk, hr, hk]; rfl
    obtain ⟨rest, en, hrs, hsuf2, _⟩ := nameS name hwf (hd :: r) ks pos hm2
    obtain ⟨t0, ht0⟩ := front_of_strip hrs hfol
    have hel := expectLazy_follow (follow_of_strip hrs hfol)
    refine ⟨rest, ?_, hrs, hsuf2.trans hsuf⟩
    rw [show f + 2 = (f + 1) + 1 from rfl, parseType]
    simp only [e, Res.ok_bind]
    rw [parseApp]
    simp only [skipWS_nw hnw, Res.ok_bind, en, OState.hasProgress, Option.isNone, Bool.and_self, Bool.not_true,
      Bool.false_eq_true, ↓reduceIte, ht0, hel, Res.pure_eq]
  | .app name (a :: as), hwf, its, ks, pos, fuel, hm, hfol, hf => by
    simp only [TypeRef.wf, argsWf, Bool.and_eq_true] at hwf
    simp only [needT, needArgs] at hf
    obtain ⟨f, rfl⟩ : ∃ f, fuel = f + 3 := ⟨fuel - 3, by omega⟩
    obtain ⟨k, hk⟩ := tnameToks_single name
    simp only [typeToks, List.append_assoc] at hm
    obtain ⟨hd, r, e, hnw, htk, hr, hsuf⟩ := skipWS_strip (hk ▸ hm)
    have hm2 : strip (hd :: r) = tnameToks name ++ ([(T.lAngle, bs "<")] ++ (argToks a ++ (argsTailToks as ++ ([(T.rAngle, bs ">")] ++ ks)))) := by
      rw [strip_cons_nw hnw, htk, hr, hk]; rfl
    obtain ⟨r1, en, hr1, hsuf1, _⟩ := nameS name hwf.1 (hd :: r) _ pos hm2
    obtain ⟨t1, ht1⟩ := front_strip hr1
    obtain ⟨r2, el, hr2, hsuf2⟩ := (expectLazy_strip hr1 T.lAngle).1 rfl
    -- first argument
    have hfa : FollowK (argsTailToks as ++ ([(T.rAngle, bs ">")] ++ ks)) := by
      cases as with
      | nil => exact ⟨_, _, rfl, by decide⟩
      | cons a2 as2 => exact ⟨_, _, by simp only [argsTailToks, List.append_assoc, List.singleton_append, List.cons_append]; rfl, by decide⟩
    obtain ⟨r3, ea, hr3, hsuf3⟩ := argS a hwf.2.1 r2 _ pos (f + 1) hr2 hfa (by omega)
    obtain ⟨t3, ht3⟩ := front_of_strip hr3 hfa
    obtain ⟨kf, ksf, hksf⟩ := followK_ne hfol
    obtain ⟨r4, eloop, hr4, hsuf4⟩ := argsTailS as hwf.2.2 r3 ks pos (f + 1) { start := true } [a]
      hr3 ⟨kf, ksf, hksf⟩ (by omega)
    refine ⟨r4, ?_, hr4, hsuf4.trans (hsuf3.trans (hsuf2.trans (hsuf1.trans hsuf)))⟩
    obtain ⟨t4, ht4⟩ := front_of_strip hr4 hfol
    rw [show f + 3 = (f + 2) + 1 from rfl, parseType]
    simp only [e, Res.ok_bind]
    rw [show f + 2 = (f + 1) + 1 from rfl, parseApp]
    simp only [skipWS_nw hnw, Res.ok_bind, en, OState.hasProgress, Option.isNone, Bool.and_self, Bool.not_true,
      Bool.false_eq_true, ↓reduceIte, ht1, el, ea, ht3, expectProgress_ok, eloop, ht4, Res.pure_eq, List.singleton_append]
  | .bracket none elem, hwf, its, ks, pos, fuel, hm, hfol, hf => by
    simp only [TypeRef.wf] at hwf
    simp only [needT] at hf
    have hpos := needT_pos elem
    obtain ⟨f, rfl⟩ : ∃ f, fuel = f + 6 := ⟨fuel - 6, by omega⟩
    simp only [typeToks, List.append_assoc, List.singleton_append, List.cons_append, List.nil_append] at hm
    obtain ⟨hd, r, e, hnw, htk, hr, hsuf⟩ := skipWS_strip hm
    have hty : hd.ty = T.lSquare := by rw [show hd.ty = hd.tk.1 from rfl, htk]
    have hs1 : strip (hd :: r) = (T.lSquare, bs "[") :: ((T.rSquare, bs "]") :: (typeToks elem ++ ks)) := by
      rw [strip_cons_nw hnw, htk, hr]
    obtain ⟨r2, el, hr2, hsuf2⟩ := (expectLazy_strip hs1 T.lSquare).1 rfl
    -- index omitted: parseArg on `]`
    obtain ⟨hd2, r2', e2, hnw2, htk2, hr2', hsuf2'⟩ := skipWS_strip hr2
    have hty2 : hd2.ty = T.rSquare := by rw [show hd2.ty = hd2.tk.1 from rfl, htk2]
    have hs2 : strip (hd2 :: r2') = (T.rSquare, bs "]") :: (typeToks elem ++ ks) := by
      rw [strip_cons_nw hnw2, htk2, hr2']
    have hom := parseType_omitted (r := r2') hnw2 pos (f + 3) (by omega) (by rw [hty2]; decide) (by rw [hty2]; decide)
      (by rw [hty2]; decide)
    obtain ⟨r3, ex, hr3, hsuf3⟩ := (expect_strip hs2 T.rSquare).1 rfl
    obtain ⟨r4, et, hr4, hsuf4⟩ := typeS elem hwf r3 ks pos (f + 4) hr3 hfol (by omega)
    obtain ⟨t4, ht4⟩ := front_of_strip hr4 hfol
    refine ⟨r4, ?_, hr4, hsuf4.trans (hsuf3.trans (hsuf2'.trans (hsuf2.trans hsuf)))⟩
    rw [show f + 6 = (f + 5) + 1 from rfl, parseType]
    simp only [e, Res.ok_bind]
    rw [show f + 5 = (f + 4) + 1 from rfl, parseApp]
    simp only [skipWS_nw hnw, Res.ok_bind,
      parseTypeName_omitted hnw pos (by rw [hty]; decide) (by rw [hty]; decide), OState.hasProgress,
      Bool.false_and, Bool.not_false, ↓reduceIte, Res.pure_eq]
    rw [parseBracket]
    simp only [skipWS_nw hnw, Res.ok_bind, el, ↓reduceIte]
    rw [show f + 4 = (f + 3) + 1 from rfl, parseArg]
    simp only [e2, Res.ok_bind, checkToken_nw hnw2, hty2, show (T.rSquare == T.number) = false by decide,
      Bool.false_eq_true, ↓reduceIte, hom, front_cons, Res.pure_eq, OState.isOmitted, Bool.not_false, OState.inherit,
      Bool.or_false, OState.hasProgress, Option.isNone, Bool.and_self, Bool.not_true, ex, et, ht4, expectProgress_ok]
  | .bracket (some a) elem, hwf, its, ks, pos, fuel, hm, hfol, hf => by
    simp only [TypeRef.wf, Bool.and_eq_true] at hwf
    simp only [needT] at hf
    have hpos := needT_pos elem
    obtain ⟨f, rfl⟩ : ∃ f, fuel = f + 6 := ⟨fuel - 6, by omega⟩
    simp only [typeToks, List.append_assoc, List.singleton_append, List.cons_append, List.nil_append] at hm
    obtain ⟨hd, r, e, hnw, htk, hr, hsuf⟩ := skipWS_strip hm
    have hty : hd.ty = T.lSquare := by rw [show hd.ty = hd.tk.1 from rfl, htk]
    have hs1 : strip (hd :: r) = (T.lSquare, bs "[") :: (argToks a ++ ((T.rSquare, bs "]") :: (typeToks elem ++ ks))) := by
      rw [strip_cons_nw hnw, htk, hr]
    obtain ⟨r2, el, hr2, hsuf2⟩ := (expectLazy_strip hs1 T.lSquare).1 rfl
    obtain ⟨r3, ea, hr3, hsuf3⟩ := argS a hwf.1 r2 _ pos (f + 4) hr2 ⟨_, _, rfl, by decide⟩ (by omega)
    obtain ⟨r4, ex, hr4, hsuf4⟩ := (expect_strip hr3 T.rSquare).1 rfl
    obtain ⟨r5, et, hr5, hsuf5⟩ := typeS elem hwf.2 r4 ks pos (f + 4) hr4 hfol (by omega)
    obtain ⟨t5, ht5⟩ := front_of_strip hr5 hfol
    refine ⟨r5, ?_, hr5, hsuf5.trans (hsuf4.trans (hsuf3.trans (hsuf2.trans hsuf)))⟩
    rw [show f + 6 = (f + 5) + 1 from rfl, parseType]
    simp only [e, Res.ok_bind]
    rw [show f + 5 = (f + 4) + 1 from rfl, parseApp]
    simp only [skipWS_nw hnw, Res.ok_bind,
      parseTypeName_omitted hnw pos (by rw [hty]; decide) (by rw [hty]; decide), OState.hasProgress,
      Bool.false_and, Bool.not_false, ↓reduceIte, Res.pure_eq]
    rw [parseBracket]
    simp only [skipWS_nw hnw, Res.ok_bind, el, ↓reduceIte, ea, OState.isOmitted, Bool.not_true, Bool.false_eq_true,
      OState.inherit, Bool.or_self, OState.hasProgress, Option.isNone, Bool.and_self, ex, et, ht5, expectProgress_ok,
      Res.pure_eq]

theorem argsTailS : (as : List TypeArg) → argsWf as = true → ∀ (its : Iter) (ks : List TK) (pos : Pos) (fuel : Nat)
    (st : OState) (acc : List TypeArg),
    strip its = argsTailToks as ++ ([(T.rAngle, bs ">")] ++ ks) → (∃ k ks', ks = k :: ks') → needArgs as + 1 ≤ fuel →
    ∃ rest, parseArgsLoop fuel pos st its acc = .ok (st, rest, acc ++ as) ∧ strip rest = ks ∧ rest <:+ its
  | [], _, its, ks, pos, fuel, st, acc, hm, hne, hf => by
    simp only [argsTailToks, List.nil_append, List.singleton_append] at hm
    obtain ⟨f, rfl⟩ : ∃ f, fuel = f + 1 := ⟨fuel - 1, by omega⟩
    obtain ⟨r1, e1, hr1, hs1, _⟩ := (expect_strip hm T.commaSign).2 (by decide)
    obtain ⟨r2, e2, hr2, hs2⟩ := (expect_strip hr1 T.rAngle).1 rfl
    obtain ⟨k, ks', rfl⟩ := hne
    obtain ⟨t2, ht2⟩ := front_strip hr2
    refine ⟨r2, ?_, hr2, hs2.trans hs1⟩
    rw [parseArgsLoop]
    simp only [e1, Res.ok_bind, Bool.false_eq_true, ↓reduceIte, e2, Bool.not_true, ht2, Res.pure_eq, List.append_nil]
  | a :: as, hwf, its, ks, pos, fuel, st, acc, hm, hne, hf => by
    simp only [argsWf, Bool.and_eq_true] at hwf
    simp only [argsTailToks, List.append_assoc, List.singleton_append, List.cons_append, List.nil_append] at hm
    simp only [needArgs] at hf
    obtain ⟨f, rfl⟩ : ∃ f, fuel = f + 1 := ⟨fuel - 1, by omega⟩
    obtain ⟨r1, e1, hr1, hs1⟩ := (expect_strip hm T.commaSign).1 rfl
    have hfa : FollowK (argsTailToks as ++ ((T.rAngle, bs ">") :: ks)) := by
      cases as with
      | nil => exact ⟨_, _, rfl, by decide⟩
      | cons a2 as2 => exact ⟨_, _, by simp only [argsTailToks, List.append_assoc, List.singleton_append, List.cons_append]; rfl, by decide⟩
    obtain ⟨r2, ea, hr2, hs2⟩ := argS a hwf.1 r1 _ pos f hr1 hfa (by omega)
    obtain ⟨t2, ht2⟩ := front_of_strip hr2 hfa
    obtain ⟨r3, el, hr3, hs3⟩ := argsTailS as hwf.2 r2 ks pos f st (acc ++ [a]) (by rw [hr2]; rfl) hne (by omega)
    refine ⟨r3, ?_, hr3, hs3.trans (hs2.trans hs1)⟩
    rw [parseArgsLoop]
    simp only [e1, Res.ok_bind, ↓reduceIte, ea, ht2, expectProgress_ok, Bool.not_true, Bool.false_eq_true, el]
    simp

theorem argS : (a : TypeArg) → a.wf = true → ∀ (its : Iter) (ks : List TK) (pos : Pos) (fuel : Nat),
    strip its = argToks a ++ ks → FollowK ks → needA a ≤ fuel →
    ∃ rest, parseArg fuel its pos = .ok ({ start := true }, rest, a) ∧ strip rest = ks ∧ rest <:+ its
  | .num n, hwf, its, ks, pos, fuel, hm, hfol, hf => by
    simp only [TypeArg.wf, decide_eq_true_eq] at hwf
    simp only [argToks, List.singleton_append] at hm
    simp only [needA] at hf
    obtain ⟨f, rfl⟩ : ∃ f, fuel = f + 1 := ⟨fuel - 1, by omega⟩
    obtain ⟨hd, r, e, hnw, htk, hr, hsuf⟩ := skipWS_strip hm
    have hty : hd.ty = T.number := by rw [show hd.ty = hd.tk.1 from rfl, htk]
    have hval : hd.val = decimal n := by rw [show hd.val = hd.tk.2 from rfl, htk]
    obtain ⟨t0, ht0⟩ := front_of_strip hr hfol
    refine ⟨r, ?_, hr, (List.suffix_cons hd r).trans hsuf⟩
    rw [parseArg]
    simp only [e, Res.ok_bind, checkToken_nw hnw, hty, BEq.rfl, ↓reduceIte, popFront_cons, ht0, hval,
      parseUint32_decimal n hwf, Res.pure_eq]
  | .ty t, hwf, its, ks, pos, fuel, hm, hfol, hf => by
    simp only [TypeArg.wf] at hwf
    simp only [argToks] at hm
    simp only [needA] at hf
    obtain ⟨f, rfl⟩ : ∃ f, fuel = f + 1 := ⟨fuel - 1, by omega⟩
    obtain ⟨k, ks0, hk, hmem⟩ := typeToks_head t
    obtain ⟨hd, r, e, hnw, htk, hr, hsuf⟩ := skipWS_strip (show strip its = k :: (ks0 ++ ks) by rw [hm, hk]; rfl)
    have hty : hd.ty = k.1 := by rw [← htk]; rfl
    have hnn : (hd.ty == T.number) = false := by
      rw [hty]; simp only [List.mem_cons, List.not_mem_nil, or_false] at hmem
      rcases hmem with e | e | e | e | e <;> rw [e] <;> decide
    have hs1 : strip (hd :: r) = typeToks t ++ ks := by rw [strip_cons_nw hnw, htk, hr, hk]; rfl
    obtain ⟨r2, et, hr2, hs2⟩ := typeS t hwf (hd :: r) ks pos f hs1 hfol (by omega)
    obtain ⟨t0, ht0⟩ := front_of_strip hr2 hfol
    refine ⟨r2, ?_, hr2, hs2.trans hsuf⟩
    rw [parseArg]
    simp only [e, Res.ok_bind, checkToken_nw hnw, hnn, Bool.false_eq_true, ↓reduceIte, et, ht0, Res.pure_eq]
end

end TLVerif.Syntaxtl2
