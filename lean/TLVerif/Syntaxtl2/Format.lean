import TLVerif.Syntaxtl2.Ast
import TLVerif.Syntaxtl2.Text
/-! Model of internal/tlast/tlast_tl2_view.go (`TL2File.Print` and the printers below it), written the way the Go
code is written. A `strings.Builder` is a byte string; every `sb.Len() - start` the Go code computes is relative to a
point inside the same combinator, so each printer returns the text it appends (and the flags it returns). -/
namespace TLVerif.Syntaxtl2

structure FormatOptions where
  ignoreComments : Bool
  oneLineConstructorSize : Nat
  unionConstructorSize : Nat
deriving Repr, DecidableEq

/-- `NewDefaultFormatOptions()`. -/
def defaultOptions : FormatOptions :=
  { ignoreComments := false, oneLineConstructorSize := Facts.Syntaxtl2.OneLineConstructorSize,
    unionConstructorSize := Facts.Syntaxtl2.UnionConstructorSize }

/-- `NewCanonicalFormatOptions()` (`math.MaxInt32 - 10000`). -/
def canonicalOptions : FormatOptions :=
  { ignoreComments := true, oneLineConstructorSize := 2147483647 - 10000, unionConstructorSize := 2147483647 - 10000 }

def printTName (n : TName) : Bytes :=
  (if n.ns != [] then n.ns ++ bs "." else []) ++ n.name

mutual
/-- `TL2TypeRef.Print`. -/
def printType : TypeRef → Bytes
  | .app name args =>
    printTName name ++ (match args with
      | [] => []
      | a :: as => bs "<" ++ printArg a ++ printArgsTail as ++ bs ">")
  | .bracket index elem =>
    bs "[" ++ (match index with | none => [] | some a => printArg a) ++ bs "]" ++ printType elem
def printArgsTail : List TypeArg → Bytes
  | [] => []
  | a :: as => bs "," ++ printArg a ++ printArgsTail as
/-- `TL2TypeArgument.Print`. -/
def printArg : TypeArg → Bytes
  | .num n => decimal n
  | .ty t => printType t
end

/-- `TL2Field.Print`. -/
def printField (f : Field) : Bytes :=
  (if f.name != [] then
    (if f.ignored then bs "_" else f.name) ++ (if f.optional then bs "?" else []) ++ bs ":"
   else []) ++ printType f.ty

/-- `for _, line := range strings.Split(c, "\n") { sb.WriteString(strings.TrimSpace(line)); sb.WriteString(sep) }`. -/
def commentLines (c : Bytes) (sep : Bytes) : Bytes :=
  ((splitNL c).map (fun l => trimSpace l ++ sep)).flatten

def intercalate (sep : Bytes) : List Bytes → Bytes
  | [] => []
  | [x] => x
  | x :: xs => x ++ sep ++ intercalate sep xs

/-- `printVariantFields`. -/
def printVariantFields (o : FormatOptions) (fs : List Field) (sep : Bytes) : Bytes :=
  (fs.map (fun f => sep ++ (if !o.ignoreComments && f.cb != [] then commentLines f.cb sep else []) ++ printField f)).flatten

/-- `HasBeforeCommentIn`. -/
def Variant.hasBeforeCommentIn (v : Variant) : Bool :=
  v.cb != [] || (match v.body with
    | .alias _ => false
    | .fields fs => fs.any (fun f => f.cb != []))

/-- `TL2UnionConstructor.print`: text and `hasNewLine`. -/
def printVariant (o : FormatOptions) (v : Variant) (prefixSize : Nat) : Bytes × Bool :=
  match v.body with
  | .alias t => (v.name ++ bs " " ++ printType t, false)
  | .fields fs =>
    let forceNewLine := !o.ignoreComments && v.hasBeforeCommentIn
    if !forceNewLine then
      let tmp := printVariantFields o fs (bs " ")
      if prefixSize + v.name.length + tmp.length > o.unionConstructorSize then
        (v.name ++ printVariantFields o fs (bs "\n\t\t"), false)
      else (v.name ++ tmp, false)
    else (v.name ++ printVariantFields o fs (bs "\n\t\t"), true)

/-- the loop over union variants of `printWithNewLineOption` (`force` is the mutable `forceNewline`; `single`:
`len(Variants) == 1`, the union keeps its leading separator — fix 11a4a9c8). -/
def printVariants (o : FormatOptions) (sep : Bytes) (single : Bool) : List Variant → Nat → Bool → Bytes × Bool
  | [], _, force => ([], force)
  | v :: vs, i, force =>
    let (c, force) := if !o.ignoreComments && v.cb != [] then
        (bs "\n\t" ++ intercalate (bs "\n\t") ((splitNL v.cb).map trimSpace), true)
      else ([], force)
    let s := if i != 0 || force || single then sep else []
    let (vt, vForce) := printVariant o v sep.length
    let (rest, force') := printVariants o sep single vs (i + 1) (force || vForce)
    (c ++ s ++ vt ++ rest, force')

def printStructFields (o : FormatOptions) (sep : Bytes) (force : Bool) : List Field → Nat → Bytes
  | [], _ => []
  | f :: fs, i =>
    (if i != 0 || force then sep else []) ++
    (if !o.ignoreComments && f.cb != [] then commentLines f.cb sep else []) ++
    printField f ++ printStructFields o sep force fs (i + 1)

/-- `TL2TypeDefinition.printWithNewLineOption`. -/
def printWithNewLineOption (o : FormatOptions) (t : TypeDef) (forceNewline : Bool) (isReturnType : Bool) : Bytes × Bool :=
  match t with
  | .alias ty =>
    ((if !isReturnType then bs " <=> " else bs "<=>") ++ printType ty, forceNewline)
  | .struct (.union vs) =>
    let pre := if !isReturnType then bs " = " else []
    let hasComments := !o.ignoreComments && vs.any (·.hasBeforeCommentIn)
    let force := forceNewline || hasComments
    let sep := if force then bs "\n\t| " else bs " | "
    let (body, force) := printVariants o sep (vs.length == 1) vs 0 force
    (pre ++ body, force)
  | .struct (.fields fs) =>
    let pre := if !isReturnType then bs " = " else []
    let hasComments := !o.ignoreComments && fs.any (fun f => f.cb != [])
    let force := forceNewline || hasComments
    let sep := if force then bs "\n\t" else bs " "
    (pre ++ printStructFields o sep force fs 0, force)

/-- `TL2TypeDefinition.print`. -/
def printTypeDef (o : FormatOptions) (t : TypeDef) (definitionPrefix : Nat) (isReturnType : Bool) : Bytes × Bool :=
  let (tmp, h) := printWithNewLineOption o t false isReturnType
  let h := h || tmp.length + definitionPrefix > o.oneLineConstructorSize
  ((printWithNewLineOption o t h isReturnType).1, h)

def printMagic (m : Nat) : Bytes := if m != 0 then bs "#" ++ hex8 m else []

/-- `TL2FuncDeclaration.printFunction`. -/
def printFunction (o : FormatOptions) (t : FuncDecl) (sep : Bytes) (prefixSize : Nat) : Bytes × Bool :=
  let head := printTName t.name ++ printMagic t.magic ++ (t.args.map (fun a => sep ++ printField a)).flatten ++ sep ++ bs "=> "
  let (rt, h) := printTypeDef o t.ret (head.length + prefixSize) true
  let all := head ++ rt
  (all, h || all.length + prefixSize > o.oneLineConstructorSize)

/-- `TL2FuncDeclaration.print`. -/
def printFuncDecl (o : FormatOptions) (t : FuncDecl) (prefixSize : Nat) : Bytes :=
  let (_, hasNewLines) := printFunction o t (bs " ") prefixSize
  (printFunction o t (if hasNewLines then bs "\n\t" else bs " ") prefixSize).1

def printTempls : List Templ → Nat → Bytes
  | [], _ => []
  | a :: as, i => (if i != 0 then bs "," else []) ++ a.name ++ bs ":" ++ (if a.isNat then bs "#" else bs "Type") ++ printTempls as (i + 1)

/-- `TL2TypeDeclaration.print`. -/
def printTypeDecl (o : FormatOptions) (t : TypeDecl) (prefixSize : Nat) : Bytes :=
  let head := printTName t.name ++ printMagic t.magic ++
    (if t.templs.length > 0 then bs "<" ++ printTempls t.templs 0 ++ bs ">" else [])
  head ++ (printTypeDef o t.ty (prefixSize + head.length) false).1

/-- `TL2Combinator.Print`. -/
def printComb (o : FormatOptions) (c : Comb) : Bytes :=
  let cm := if !o.ignoreComments && c.cb.length != 0 then commentLines c.cb (bs "\n") else []
  let anns := (c.anns.map (fun a => bs "@" ++ a ++ bs " ")).flatten
  let body := match c.decl with
    | .func fd => printFuncDecl o fd anns.length
    | .type td => printTypeDecl o td anns.length
  cm ++ anns ++ body ++ bs ";"

/-- `TL2File.Print`. -/
def printFile (o : FormatOptions) (f : File) : Bytes :=
  (f.map (fun c => printComb o c ++ bs "\n")).flatten

end TLVerif.Syntaxtl2
