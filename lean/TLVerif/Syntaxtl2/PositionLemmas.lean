import TLVerif.Syntaxtl2.ParserLemmas
/-! Line/column bookkeeping: every token position produced by the lexer has `column = offset - startLineOffset + 1`
and `line ≥ 1`; every error of `ParseTL2File` is `parseErrToken(tok, outer)` for tokens of the lexer, hence its
three positions have consistent columns. -/
namespace TLVerif.Syntaxtl2

/-- a position whose column is consistent with its offsets -/
def PosWF (p : Pos) : Prop := p.slo ≤ p.off ∧ p.col = p.off - p.slo + 1 ∧ 1 ≤ p.line

theorem PosWF.adv {p : Pos} (h : PosWF p) (n : Nat) : PosWF (advPos p n) := by
  obtain ⟨h1, h2, h3⟩ := h
  simp only [PosWF, advPos]
  exact ⟨by omega, by omega, h3⟩

theorem PosWF.nl {p : Pos} (h : PosWF p) : PosWF (nlPos p) := by
  obtain ⟨h1, h2, h3⟩ := h
  simp only [PosWF, nlPos]
  exact ⟨Nat.le_refl _, by omega, by omega⟩

theorem lexLoop_pos (f : Nat) : ∀ (s : Bytes) (pos : Pos) (o : LexOut), lexLoop f s pos = .ok o → PosWF pos →
    (∀ t ∈ o.toks, PosWF t.pos) ∧ (∀ e, o.err = some e → ∃ tok, tok ∈ o.toks ∧ e = errTok tok tok.pos) := by
  induction f with
  | zero => intro s pos o h; simp [lexLoop] at h
  | succ f ih =>
    intro s pos o h hp
    cases s with
    | nil =>
      simp only [lexLoop] at h
      injection h with h; subst h
      exact ⟨fun t ht => by simp only [List.mem_singleton] at ht; subst ht; exact hp, fun e he => by cases he⟩
    | cons c t =>
      rw [lexLoop] at h
      unfold lexCons at h
      cases hstep : nextStep c t with
      | tok ty extra nl =>
        rw [hstep] at h
        simp only at h
        split at h
        · cases hrec : lexLoop f (t.drop extra) (if nl = true then nlPos (advPos pos (extra + 1)) else advPos pos (extra + 1)) with
          | ok o' =>
            rw [hrec] at h
            simp only at h
            injection h with h; subst h
            have hp2 : PosWF (if nl = true then nlPos (advPos pos (extra + 1)) else advPos pos (extra + 1)) := by
              split
              · exact (hp.adv _).nl
              · exact hp.adv _
            obtain ⟨i1, i2⟩ := ih _ _ o' hrec hp2
            refine ⟨?_, ?_⟩
            · intro tk htk
              simp only [List.mem_cons] at htk
              rcases htk with htk | htk
              · subst htk; exact hp
              · exact i1 tk htk
            · intro e he
              obtain ⟨tok, hm, he2⟩ := i2 e he
              exact ⟨tok, List.mem_cons_of_mem _ hm, he2⟩
          | panic => rw [hrec] at h; cases h
          | nofuel => rw [hrec] at h; cases h
        · cases h
      | err pre extra =>
        rw [hstep] at h
        cases pre with
        | none =>
          simp only at h
          split at h
          · injection h with h; subst h
            refine ⟨fun t ht => by simp only [List.mem_singleton] at ht; subst ht; exact hp, ?_⟩
            intro e he
            simp only [Option.some.injEq] at he
            exact ⟨_, List.mem_singleton.mpr rfl, he.symm⟩
          · cases h
        | some pre =>
          simp only at h
          split at h
          · injection h with h; subst h
            refine ⟨?_, ?_⟩
            · intro t ht
              simp only [List.mem_cons, List.not_mem_nil, or_false] at ht
              rcases ht with ht | ht
              · subst ht; exact hp
              · subst ht; exact hp.adv _
            · intro e he
              simp only [Option.some.injEq] at he
              exact ⟨_, by simp, he.symm⟩
          · cases h

theorem startPos_wf : PosWF startPos := by simp [PosWF, startPos]

theorem validate_subset (toks : List Token) : ∀ t ∈ (validate toks).1, t ∈ toks := by
  induction toks with
  | nil => intro t ht; simp [validate] at ht
  | cons a l ih =>
    intro t ht
    simp only [validate] at ht
    split at ht
    · simp only [List.mem_singleton] at ht; subst ht; exact List.mem_cons_self
    · simp only [List.mem_cons] at ht
      rcases ht with ht | ht
      · subst ht; exact List.mem_cons_self
      · exact List.mem_cons_of_mem _ (ih t ht)

/-- all tokens returned by the lexer have well-formed positions; a lexer error is `parseErrToken(tok, tok.pos)` of
a token with a well-formed position. -/
theorem lexTL2_pos (tx : Bytes) (lx : Lexed) (h : lexTL2 tx = .ok lx) :
    (∀ t ∈ lx.toks, PosWF t.pos) ∧ (∀ e, lx.err = some e → ∃ tok, PosWF tok.pos ∧ e = errTok tok tok.pos) := by
  unfold lexTL2 at h
  cases hl : lexLoop (tx.length + 1) tx startPos with
  | ok o =>
    rw [hl] at h
    simp only at h
    obtain ⟨i1, i2⟩ := lexLoop_pos _ _ _ o hl startPos_wf
    cases hoe : o.err with
    | some e =>
      rw [hoe] at h; simp only at h; injection h with h; subst h
      refine ⟨i1, ?_⟩
      intro e' he'
      simp only [Option.some.injEq] at he'
      subst he'
      obtain ⟨tok, hm, he⟩ := i2 e hoe
      exact ⟨tok, i1 tok hm, he⟩
    | none =>
      rw [hoe] at h
      simp only at h
      cases hv : validate o.toks with
      | mk r e =>
        rw [hv] at h
        simp only at h
        injection h with h; subst h
        have hsub := validate_subset o.toks
        rw [hv] at hsub
        refine ⟨fun t ht => i1 t (hsub t ht), ?_⟩
        intro e' he'
        have := (validate_spec o.toks).2 e' (by rw [hv]; exact he')
        obtain ⟨tok, hm, he⟩ := this
        exact ⟨tok, i1 tok hm, he⟩
  | panic => rw [hl] at h; cases h
  | nofuel => rw [hl] at h; cases h

section
variable {N : Nat} {tx : Bytes} {it : Iter}

theorem parseCombinator_errTok (hc : Ctx N tx it) (fuel : Nat) (hf : 3 * it.length + 3 ≤ fuel) :
    (parseCombinator tx fuel it).Sat (fun q =>
      (∀ e, q.2.2 = some e → ∃ t0 tok, t0 ∈ it ∧ tok ∈ it ∧ e = errTok tok t0.pos) ∧
      (q.2.2 = none → q.2.1 <:+ it ∧ q.2.1 ≠ [] ∧ q.2.1.length < it.length)) := by
  have hg := hc.good
  unfold parseCombinator
  refine (skipWS_step hg (List.suffix_refl _) hc.ne).bind ?_
  intro r1 ⟨hsk, a1, a2, a3, _⟩
  refine Res.Sat.bind (front_step (it := it) a1 a2) ?_
  intro t0 ⟨ht0, ts, hr1⟩
  refine (parseCommentBefore_step hg hc.tx (List.suffix_refl _) hsk).bind ?_
  intro cb _
  have hc1 := hc.suffix a1 a2
  refine (parseCombinatorBody_spec hc1 t0.pos cb fuel (by have := a1.length_le; omega)).mono ?_
  rintro q ⟨h1, h2⟩
  refine ⟨?_, ?_⟩
  · intro e he
    obtain ⟨tok, hm, rfl⟩ := h1 e he
    exact ⟨t0, tok, ht0, a1.subset hm, rfl⟩
  · intro hn
    obtain ⟨k1, k2, k3⟩ := h2 hn
    exact ⟨k1.trans a1, k2, by have := a1.length_le; omega⟩

theorem parseFileLoop_errTok (it0 : Iter) (fuel : Nat) : ∀ (k : Nat) (it : Iter) (acc : List Comb), Ctx N tx it →
    it <:+ it0 → it.length < k → 3 * it.length + 3 ≤ fuel →
    (parseFileLoop tx fuel k it acc).Sat (fun r => ∀ e, r = .error e →
      ∃ t0 tok, t0 ∈ it0 ∧ tok ∈ it0 ∧ e = errTok tok t0.pos) := by
  intro k
  induction k with
  | zero => intro _ _ _ _ h; omega
  | succ k ih =>
    intro it acc hc hs hk hf
    unfold parseFileLoop
    refine (expectLazy_total hc T.eof).bind ?_
    rintro ⟨e, _⟩ _
    dsimp only
    cases e with
    | true => simp only [↓reduceIte]; exact Res.Sat.pure (fun e h => by cases h)
    | false =>
      simp only [Bool.false_eq_true, ↓reduceIte]
      refine (parseCombinator_errTok hc fuel hf).bind ?_
      rintro ⟨c, r, err⟩ ⟨h1, h2⟩
      dsimp only at *
      cases err with
      | some e =>
        dsimp only
        refine Res.Sat.pure (fun e' h => ?_)
        injection h with h; subst h
        obtain ⟨t0, tok, m1, m2, he⟩ := h1 e rfl
        exact ⟨t0, tok, hs.subset m1, hs.subset m2, he⟩
      | none =>
        dsimp only
        obtain ⟨k1, k2, k3⟩ := h2 rfl
        exact ih r _ (hc.suffix k1 k2) (k1.trans hs) (by omega) (by have := k1.length_le; omega)
end

/-- every error of `ParseTL2File` is `parseErrToken(tok, outer)` with `tok` and `outer` taken from tokens whose
positions have consistent columns; so have the three positions of the error. -/
theorem parseTL2File_error_columns (tx : Bytes) (e : PErr) (h : parseTL2File tx = .ok (.error e)) :
    PosWF e.outer ∧ PosWF e.b ∧ PosWF e.e ∧ e.e.line = e.b.line := by
  obtain ⟨lx, hlx, hrec, hok, _⟩ := lexTL2_spec tx
  obtain ⟨p1, p2⟩ := lexTL2_pos tx lx hlx
  have key : ∀ t0 tok : Token, PosWF t0.pos → PosWF tok.pos → e = errTok tok t0.pos →
      PosWF e.outer ∧ PosWF e.b ∧ PosWF e.e ∧ e.e.line = e.b.line := by
    intro t0 tok h0 h1 he
    subst he
    obtain ⟨a1, a2, a3⟩ := h1
    refine ⟨h0, ⟨a1, a2, a3⟩, ?_, rfl⟩
    simp only [PosWF, errTok]
    exact ⟨by omega, by omega, a3⟩
  unfold parseTL2File at h
  rw [hlx] at h
  dsimp only at h
  cases hle : lx.err with
  | some e0 =>
    rw [hle] at h
    dsimp only at h
    injection h with h
    injection h with h
    subst h
    obtain ⟨tok, hp, he⟩ := p2 e0 hle
    exact key tok tok hp hp he
  | none =>
    rw [hle] at h
    dsimp only at h
    obtain ⟨h1, h2, h3⟩ := hok hle
    have hwf := lexTL2_wf tx lx hlx hle
    have hr : (recombine lx.all lx.rest != tx) = false := by simp [hrec]
    simp only [hr, Bool.false_eq_true, ↓reduceIte] at h
    obtain ⟨r, hr1, hr2⟩ := parseFileLoop_errTok (N := tx.length) (tx := tx) lx.toks (fuelFor lx.toks) (fuelFor lx.toks)
      lx.toks [] ⟨h3, hwf, h2, rfl⟩ (List.suffix_refl _) (by simp only [fuelFor]; omega) (by simp only [fuelFor]; omega)
    rw [h] at hr1
    injection hr1 with hr1
    obtain ⟨t0, tok, m1, m2, he⟩ := hr2 e hr1.symm
    exact key t0 tok (p1 t0 m1) (p1 tok m2) he

end TLVerif.Syntaxtl2
