import TLVerif.Syntaxtl2.StripLemmas
import TLVerif.Syntaxtl2.FormatLemmas
/-! Token-level round trip of fields and field lists (white space and comments anywhere between tokens). -/
set_option linter.unusedSimpArgs false
namespace TLVerif.Syntaxtl2
variable {N : Nat} {tx : Bytes} {it : Iter}

theorem skipToNewline_strip : ∀ (r : Iter), strip (skipToNewline r).2 = strip r ∧ (skipToNewline r).2 <:+ r := by
  intro r
  induction r with
  | nil => exact ⟨rfl, List.suffix_refl _⟩
  | cons t ts ih =>
    unfold skipToNewline
    split
    · rename_i hw
      have hws : isWS t = true := by
        simp only [Bool.or_eq_true] at hw
        simp only [isWS, Bool.or_eq_true]
        rcases hw with (h | h) | h
        · exact Or.inl (Or.inl (Or.inl h))
        · exact Or.inl (Or.inl (Or.inr h))
        · exact Or.inl (Or.inr h)
      exact ⟨by rw [strip_cons_ws hws]; exact ih.1, ih.2.trans (List.suffix_cons t ts)⟩
    · split <;> exact ⟨rfl, List.suffix_refl _⟩

/-- type of the name token of a named field -/
def fieldNameTy (f : Field) : Int :=
  if f.ignored then (if f.name == [95] then T.underscore else T.tl2depName) else identTy f.name

def fieldToks (f : Field) : List TK :=
  (if f.name != [] then
    [(fieldNameTy f, if f.ignored then bs "_" else f.name)] ++ (if f.optional then [(T.questionMark, bs "?")] else []) ++
      [(T.colon, bs ":")]
   else []) ++ typeToks f.ty

/-- a named field as the parser produces it, without a deprecated name (guard of C22). -/
def Field.wf (f : Field) : Bool :=
  f.name != [] && (if f.ignored then f.name == [95] && !f.optional else isIdent f.name) && f.ty.wf

def fieldStart : List Int := [T.lcIdent, T.underscore, T.ucIdent, T.tl2depName]

theorem fieldNameTy_mem (f : Field) : fieldNameTy f ∈ fieldStart := by
  unfold fieldNameTy fieldStart
  split
  · split <;> simp
  · rcases identTy_mem f.name with h | h <;> simp [h]

/-- `parseTL2Field` recovers a well-formed named field from its tokens (white space and comments anywhere). -/
theorem fieldS (hc : Ctx N tx it) (f : Field) (hwf : f.wf = true) (its : Iter) (hsuf0 : its <:+ it) (ks : List TK) (pos : Pos)
    (fuel : Nat) (hm : strip its = fieldToks f ++ ks) (hfol : FollowK ks) (hf : needT f.ty ≤ fuel) :
    ∃ rest f', parseField tx fuel its pos = .ok ({ start := true }, rest, f') ∧ f'.core = f.core ∧ strip rest = ks ∧
      rest <:+ its ∧ rest.length < its.length := by
  have hg := hc.good
  simp only [Field.wf, Bool.and_eq_true, bne_iff_ne, ne_eq] at hwf
  obtain ⟨⟨hname, hkind⟩, htywf⟩ := hwf
  have hnb : (f.name != []) = true := by simpa using hname
  simp only [fieldToks, hnb, ↓reduceIte, List.append_assoc, List.singleton_append, List.cons_append, List.nil_append] at hm
  obtain ⟨hd, r, e, hnw, htk, hr, hsuf⟩ := skipWS_strip hm
  have hty : hd.ty = fieldNameTy f := by rw [show hd.ty = hd.tk.1 from rfl, htk]
  have hval : hd.val = (if f.ignored then bs "_" else f.name) := by rw [show hd.val = hd.tk.2 from rfl, htk]
  obtain ⟨cb, hcb, _⟩ := parseCommentBefore_step hg hc.tx hsuf0 e
  have hchk : fieldStart.contains hd.ty = true := by rw [hty]; simpa using fieldNameTy_mem f
  have hign : (hd.ty == T.underscore || hd.ty == T.tl2depName) = f.ignored := by
    rw [hty]; unfold fieldNameTy
    cases f.ignored with
    | true => simp only [↓reduceIte]; split <;> decide
    | false =>
      simp only [Bool.false_eq_true, ↓reduceIte]
      rcases identTy_mem f.name with h | h <;> rw [h] <;> decide
  obtain ⟨t1, ht1⟩ : ∃ t, front r = .ok t := by
    cases hopt : f.optional <;> rw [hopt] at hr <;> exact front_strip hr
  have hq : ∃ r1, expect r T.questionMark = .ok (f.optional, r1) ∧
      strip r1 = (T.colon, bs ":") :: (typeToks f.ty ++ ks) ∧ r1 <:+ r := by
    cases hopt : f.optional with
    | true =>
      rw [hopt] at hr
      simp only [↓reduceIte, List.cons_append, List.nil_append] at hr
      obtain ⟨r1, e1, h1, s1⟩ := (expect_strip hr T.questionMark).1 rfl
      exact ⟨r1, e1, h1, s1⟩
    | false =>
      rw [hopt] at hr
      simp only [Bool.false_eq_true, ↓reduceIte, List.nil_append] at hr
      obtain ⟨r1, e1, h1, s1, _⟩ := (expect_strip hr T.questionMark).2 (by decide)
      exact ⟨r1, e1, h1, s1⟩
  obtain ⟨r1, e1, hr1, hs1⟩ := hq
  have hqi : (f.optional && f.ignored) = false := by
    cases hi : f.ignored with
    | false => simp
    | true =>
      rw [hi] at hkind
      simp only [↓reduceIte, Bool.and_eq_true, Bool.not_eq_true'] at hkind
      simp [hkind.2]
  obtain ⟨r2, e2, hr2, hs2⟩ := (expect_strip hr1 T.colon).1 rfl
  obtain ⟨r3, e3, hr3, hs3⟩ := typeS f.ty htywf r2 ks pos fuel hr2 hfol hf
  obtain ⟨t3, ht3⟩ := front_of_strip hr3 hfol
  have hnl := skipToNewline_strip r3
  cases hsn : skipToNewline r3 with
  | mk nl r4 =>
    rw [hsn] at hnl
    dsimp only at hnl
    have hr4 : strip r4 = ks := by rw [hnl.1, hr3]
    obtain ⟨t4, ht4⟩ := front_of_strip hr4 hfol
    have hr3it : r3 <:+ it := hs3.trans (hs2.trans (hs1.trans ((List.suffix_cons hd r).trans (hsuf.trans hsuf0))))
    have hr4ne : r4 ≠ [] := by intro h; rw [h] at ht4; cases ht4
    obtain ⟨cr, hcr⟩ : ∃ cr, (if nl = true then parseCommentRight tx r3 r4 else Res.ok []) = Res.ok cr := by
      cases nl with
      | true =>
        obtain ⟨cr, h, _⟩ := parseCommentRight_step hg hc.tx hr3it hnl.2 hr4ne
        exact ⟨cr, by simp only [↓reduceIte]; exact h⟩
      | false => exact ⟨[], rfl⟩
    have hsufr4 : r4 <:+ its :=
      hnl.2.trans (hs3.trans (hs2.trans (hs1.trans ((List.suffix_cons hd r).trans hsuf))))
    refine ⟨r4, { name := hd.val, optional := f.optional, ignored := f.ignored, ty := f.ty, cb := cb, cr := cr },
      ?_, ?_, hr4, hsufr4, ?_⟩
    · unfold parseField
      simp only [e, Res.ok_bind, hcb, checkAny_nw hnw, show [T.lcIdent, T.underscore, T.ucIdent, T.tl2depName] = fieldStart from rfl,
        hchk, Bool.not_true, Bool.false_eq_true, ↓reduceIte, skipWS_nw hnw, popFront_cons, ht1, e1, hign, hqi, e2, e3, ht3,
        expectProgress_ok, hsn, ht4, Res.pure_eq]
      simp only [hcr, Res.ok_bind]
    · simp only [Field.core, hval]
      cases hi : f.ignored with
      | false => simp
      | true =>
        rw [hi] at hkind
        simp only [↓reduceIte, Bool.and_eq_true, beq_iff_eq] at hkind
        simp [hkind.1, bs]
    · have h1 := hsuf.length_le
      have h2 := ((hnl.2.trans (hs3.trans (hs2.trans hs1)))).length_le
      simp only [List.length_cons] at h1
      omega

/-- `parseTL2Field` on a token that starts no field: omitted, the iterator is reset. -/
theorem fieldStopS (hc : Ctx N tx it) (its : Iter) (hsuf0 : its <:+ it) (k : TK) (ks : List TK) (pos : Pos) (fuel : Nat)
    (hm : strip its = k :: ks) (hk : fieldStart.contains k.1 = false) :
    ∃ f0, parseField tx fuel its pos = .ok ({ start := false }, its, f0) := by
  obtain ⟨hd, r, e, hnw, htk, hr, hsuf⟩ := skipWS_strip hm
  have hty : hd.ty = k.1 := by rw [← htk]; rfl
  obtain ⟨cb, hcb, _⟩ := parseCommentBefore_step hc.good hc.tx hsuf0 e
  refine ⟨{ (default : Field) with cb := cb }, ?_⟩
  unfold parseField
  simp only [e, Res.ok_bind, hcb, checkAny_nw hnw, show [T.lcIdent, T.underscore, T.ucIdent, T.tl2depName] = fieldStart from rfl,
    hty, hk, Bool.not_false, ↓reduceIte, front_cons, Res.pure_eq, Bool.false_eq_true]

def fieldsToks (fs : List Field) : List TK := (fs.map fieldToks).flatten

def needFields : List Field → Nat
  | [] => 1
  | f :: fs => needT f.ty + 1 + needFields fs

theorem needFields_ge (fs : List Field) : fs.length + 1 ≤ needFields fs ∧ ∀ f ∈ fs, needT f.ty ≤ needFields fs := by
  induction fs with
  | nil => simp [needFields]
  | cons f fs ih =>
    simp only [needFields, List.length_cons, List.mem_cons, forall_eq_or_imp]
    refine ⟨by omega, by omega, fun g hg => ?_⟩
    have := ih.2 g hg; omega

theorem fieldToks_head (f : Field) (hwf : f.wf = true) : ∃ k ks, fieldToks f = k :: ks ∧ k.1 ∈ fieldStart := by
  simp only [Field.wf, Bool.and_eq_true] at hwf
  have hnb : (f.name != []) = true := hwf.1.1
  exact ⟨_, _, by simp only [fieldToks, hnb, ↓reduceIte, List.append_assoc, List.singleton_append, List.cons_append]; rfl,
    fieldNameTy_mem f⟩

/-- `zeroOrMore(parseTL2Field)` recovers a list of well-formed named fields (up to comments). -/
theorem fieldsS (hc : Ctx N tx it) (pos : Pos) (fuel : Nat) : ∀ (fs : List Field), (∀ f ∈ fs, f.wf = true) →
    (∀ f ∈ fs, needT f.ty ≤ fuel) →
    ∀ (its : Iter), its <:+ it → ∀ (k : TK) (ks : List TK) (fz : Nat) (acc : List Field) (start : Bool),
    strip its = fieldsToks fs ++ k :: ks → fieldStart.contains k.1 = false → k.1 ≠ T.lAngle → fs.length < fz →
    ∃ rest fs', zeroOrMore (parseField tx fuel) fz its pos acc start =
        .ok ({ start := start || !fs.isEmpty }, rest, acc ++ fs') ∧
      fs'.map Field.core = fs.map Field.core ∧ strip rest = k :: ks ∧ rest <:+ its := by
  intro fs
  induction fs with
  | nil =>
    intro _ _ its hsuf0 k ks fz acc start hm hk _ hfz
    simp only [fieldsToks, List.map_nil, List.flatten_nil, List.nil_append] at hm
    obtain ⟨f, rfl⟩ : ∃ f, fz = f + 1 := ⟨fz - 1, by simp at hfz; omega⟩
    obtain ⟨f0, h0⟩ := fieldStopS hc its hsuf0 k ks pos fuel hm hk
    refine ⟨its, [], ?_, rfl, hm, List.suffix_refl _⟩
    unfold zeroOrMore
    simp only [h0, Res.ok_bind, OState.hasProgress, Bool.false_and, Bool.not_false, ↓reduceIte, Res.pure_eq,
      Bool.or_false, List.isEmpty_nil, Bool.not_true, List.append_nil]
  | cons f fs ih =>
    intro hwf hfuel its hsuf0 k ks fz acc start hm hk hla hfz
    simp only [List.length_cons] at hfz
    obtain ⟨fz', rfl⟩ : ∃ f, fz = f + 1 := ⟨fz - 1, by omega⟩
    have hwf1 := hwf f List.mem_cons_self
    have hm' : strip its = fieldToks f ++ (fieldsToks fs ++ k :: ks) := by
      rw [hm]; simp [fieldsToks]
    have hfol : FollowK (fieldsToks fs ++ k :: ks) := by
      cases fs with
      | nil => exact ⟨k, ks, by simp [fieldsToks], hla⟩
      | cons g gs =>
        obtain ⟨kg, ksg, hkg, hmem⟩ := fieldToks_head g (hwf g (by simp))
        refine ⟨kg, ksg ++ (fieldsToks gs ++ k :: ks), by simp [fieldsToks, hkg], ?_⟩
        intro h; rw [h] at hmem; revert hmem; decide
    obtain ⟨r1, f', e1, hcore, hr1, hs1, hlt⟩ :=
      fieldS hc f hwf1 its hsuf0 _ pos fuel hm' hfol (hfuel f List.mem_cons_self)
    obtain ⟨rest, fs', e2, hcores, hrest, hs2⟩ := ih (fun g hg => hwf g (List.mem_cons_of_mem _ hg))
      (fun g hg => hfuel g (List.mem_cons_of_mem _ hg)) r1 (hs1.trans hsuf0) k ks fz' (acc ++ [f']) (start || true) hr1 hk hla
      (by omega)
    refine ⟨rest, f' :: fs', ?_, by simp [hcore, hcores], hrest, hs2.trans hs1⟩
    unfold zeroOrMore
    simp only [e1, Res.ok_bind, OState.hasProgress, Option.isNone, Bool.and_self, Bool.not_true, Bool.false_eq_true,
      ↓reduceIte, e2]
    simp

end TLVerif.Syntaxtl2
