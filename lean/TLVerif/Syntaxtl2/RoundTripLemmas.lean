import TLVerif.Syntaxtl2.ParserLemmas
import TLVerif.Syntaxtl2.Format
/-! Token-level round trip of type expressions: the parser recovers every well-formed `TypeRef` (any depth) from the
tokens its printed text consists of. Also: decimal formatting parses back. -/
set_option linter.unusedSimpArgs false
namespace TLVerif.Syntaxtl2

/-- a token as the parser sees it: type and text. -/
abbrev TK := Int × Bytes
def Token.tk (t : Token) : TK := (t.ty, t.val)

/-- an identifier as the lexer produces it: a letter followed by identifier characters, and not the keyword `Type`. -/
def isIdent (s : Bytes) : Bool :=
  match s with
  | [] => false
  | c :: t => letter c && t.all identChar && s != typeWord

def identTy (s : Bytes) : Int := match s with
  | c :: _ => if lowerCase c then T.lcIdent else T.ucIdent
  | [] => T.lcIdent
def identNSTy (s : Bytes) : Int := match s with
  | c :: _ => if lowerCase c then T.lcIdentNS else T.ucIdentNS
  | [] => T.lcIdentNS

def TName.wf (n : TName) : Bool := isIdent n.name && (n.ns == [] || isIdent n.ns)

/-- tokens the formatter's text for a type name lexes to -/
def tnameToks (n : TName) : List TK :=
  if n.ns == [] then [(identTy n.name, n.name)] else [(identNSTy n.name, n.ns ++ [46] ++ n.name)]

mutual
def TypeRef.wf : TypeRef → Bool
  | .app name args => name.wf && argsWf args
  | .bracket none elem => elem.wf
  | .bracket (some a) elem => a.wf && elem.wf
def argsWf : List TypeArg → Bool
  | [] => true
  | a :: as => a.wf && argsWf as
def TypeArg.wf : TypeArg → Bool
  | .num n => decide (n < 4294967296)
  | .ty t => t.wf
end

mutual
def typeToks : TypeRef → List TK
  | .app name [] => tnameToks name
  | .app name (a :: as) =>
    tnameToks name ++ ([(T.lAngle, bs "<")] ++ argToks a ++ argsTailToks as ++ [(T.rAngle, bs ">")])
  | .bracket none elem => [(T.lSquare, bs "[")] ++ [(T.rSquare, bs "]")] ++ typeToks elem
  | .bracket (some a) elem => [(T.lSquare, bs "[")] ++ argToks a ++ [(T.rSquare, bs "]")] ++ typeToks elem
def argsTailToks : List TypeArg → List TK
  | [] => []
  | a :: as => [(T.commaSign, bs ",")] ++ argToks a ++ argsTailToks as
def argToks : TypeArg → List TK
  | .num n => [(T.number, decimal n)]
  | .ty t => typeToks t
end


/-! ### decimal formatting parses back -/
theorem digitVal_digitChar (d : Nat) (h : d < 10) : digitVal 10 (digitChar d) = some d := by
  have : ∀ d : Fin 10, digitVal 10 (digitChar d.val) = some d.val := by decide
  exact this ⟨d, h⟩

theorem parseDigits_append (l r : Bytes) (a : Nat) :
    parseDigits 10 (l ++ r) a = (parseDigits 10 l a).bind (fun v => parseDigits 10 r v) := by
  induction l generalizing a with
  | nil => rfl
  | cons c l ih =>
    simp only [List.cons_append, parseDigits]
    cases digitVal 10 c with
    | none => rfl
    | some v => exact ih _

theorem natDigits_acc (f n : Nat) (acc : Bytes) : natDigits 10 f n acc = natDigits 10 f n [] ++ acc := by
  induction f generalizing n acc with
  | zero => rfl
  | succ f ih =>
    simp only [natDigits]
    split
    · rfl
    · rw [ih, ih (n / 10) [digitChar (n % 10)]]; simp

theorem parseDigits_natDigits (f n : Nat) (h : n < f) : parseDigits 10 (natDigits 10 f n []) 0 = some n ∧
    natDigits 10 f n [] ≠ [] := by
  induction f generalizing n with
  | zero => omega
  | succ f ih =>
    simp only [natDigits]
    split
    · rename_i hn
      simp only [parseDigits, digitVal_digitChar n hn]
      exact ⟨by simp, by simp⟩
    · rename_i hn
      rw [natDigits_acc]
      have := ih (n / 10) (by omega)
      refine ⟨?_, by simp⟩
      rw [parseDigits_append, this.1]
      simp only [Option.bind, parseDigits, digitVal_digitChar (n % 10) (Nat.mod_lt _ (by omega))]
      congr 1
      omega

theorem parseUint32_decimal (n : Nat) (h : n < 4294967296) : parseUint32 10 (decimal n) = some n := by
  have := parseDigits_natDigits (n + 1) n (by omega)
  simp only [parseUint32, decimal]
  have hne : (natDigits 10 (n + 1) n []).isEmpty = false := by
    cases hh : natDigits 10 (n + 1) n [] with
    | nil => exact absurd hh this.2
    | cons _ _ => rfl
  simp [hne, this.1, h]


/-! ### iterator operations on a list whose head is not white space -/
def NW (t : Token) : Prop := isWS t = false

theorem skipWS_nw {t : Token} {r : Iter} (h : NW t) : skipWS (t :: r) = .ok (t :: r) := by
  have h' : isWS t = false := h
  simp only [skipWS, h', Bool.false_eq_true, ↓reduceIte]

theorem checkAny_nw {t : Token} {r : Iter} (h : NW t) (tys : List Int) :
    checkAny (t :: r) tys = .ok (tys.contains t.ty, t :: r) := by
  simp only [checkAny, skipWS_nw h, front, Res.ok_bind, Res.pure_eq]

theorem checkToken_nw {t : Token} {r : Iter} (h : NW t) (ty : Int) :
    checkToken (t :: r) ty = .ok (t.ty == ty, t :: r) := by
  simp only [checkToken, checkAny_nw h, List.contains_cons, List.contains_nil, Bool.or_false]

theorem expect_nw {t : Token} {r : Iter} (h : NW t) (ty : Int) :
    expect (t :: r) ty = if t.ty == ty then .ok (true, r) else .ok (false, t :: r) := by
  simp only [expect, checkToken_nw h, Res.ok_bind]
  split <;> rfl

theorem expectLazy_nw {t : Token} {r : Iter} (h : NW t) (ty : Int) :
    expectLazy (t :: r) ty = if t.ty == ty then .ok (true, r) else .ok (false, t :: r) := by
  simp only [expectLazy, expect_nw h]
  split <;> rfl

/-- token types that are not white space -/
theorem nw_of_ty {t : Token} (h : t.ty ∈ [T.lcIdent, T.ucIdent, T.lcIdentNS, T.ucIdentNS, T.lAngle, T.rAngle, T.lSquare,
    T.rSquare, T.commaSign, T.number, T.colon, T.semiColon, T.questionMark, T.verticalBar, T.equalSign, T.tl2alias,
    T.functionSign, T.crc32hash, T.annotation, T.underscore, T.tl2depName, T.tl2typeSign, T.numberSign, T.eof]) : NW t := by
  have : ∀ ty ∈ [T.lcIdent, T.ucIdent, T.lcIdentNS, T.ucIdentNS, T.lAngle, T.rAngle, T.lSquare,
    T.rSquare, T.commaSign, T.number, T.colon, T.semiColon, T.questionMark, T.verticalBar, T.equalSign, T.tl2alias,
    T.functionSign, T.crc32hash, T.annotation, T.underscore, T.tl2depName, T.tl2typeSign, T.numberSign, T.eof],
      (ty == T.comment || ty == T.whiteSpace || ty == T.tab || ty == T.newLine) = false := by decide
  exact this _ h


mutual
def needT : TypeRef → Nat
  | .app _ args => 3 + needArgs args
  | .bracket none elem => 3 + needT elem
  | .bracket (some a) elem => 3 + needA a + needT elem
def needArgs : List TypeArg → Nat
  | [] => 0
  | a :: as => 2 + needA a + needArgs as
def needA : TypeArg → Nat
  | .num _ => 1
  | .ty t => 1 + needT t
end

/-- what follows a type: after optional white space a token that is not `<` (which would continue a type application). -/
def Follow (rest : Iter) : Prop := ∃ h r, skipWS rest = .ok (h :: r) ∧ h.ty ≠ T.lAngle

theorem identChar_not_dot (c : UInt8) (h : identChar c = true) : (c.toNat != 46) = true := by
  simp only [identChar, letter, lowerCase, upperCase, digit, Bool.or_eq_true, Bool.and_eq_true, decide_eq_true_eq,
    beq_iff_eq] at h
  simp only [bne_iff_ne, ne_eq]
  omega
theorem letter_identChar (c : UInt8) (h : letter c = true) : identChar c = true := by
  simp only [identChar, h, Bool.true_or]

theorem isIdent_no_dot {s : Bytes} (h : isIdent s = true) : s.all (fun c => c.toNat != 46) = true := by
  cases s with
  | nil => simp [isIdent] at h
  | cons c t =>
    simp only [isIdent, Bool.and_eq_true] at h
    simp only [List.all_cons, Bool.and_eq_true]
    refine ⟨identChar_not_dot c (letter_identChar c h.1.1), ?_⟩
    rw [List.all_eq_true] at h ⊢
    intro x hx
    exact identChar_not_dot x (h.1.2 x hx)

theorem spanLen_append_eq (p : UInt8 → Bool) (a : Bytes) (d : UInt8) (b : Bytes) (ha : a.all p = true) (hd : p d = false) :
    spanLen p (a ++ d :: b) = a.length := by
  induction a with
  | nil => simp [spanLen, hd]
  | cons x a ih =>
    simp only [List.all_cons, Bool.and_eq_true] at ha
    simp only [List.cons_append, spanLen, ha.1, ↓reduceIte, ih ha.2, List.length_cons]

theorem isIdent_ne_nil {s : Bytes} (h : isIdent s = true) : ∃ c t, s = c :: t ∧ letter c = true := by
  cases s with
  | nil => simp [isIdent] at h
  | cons c t => simp only [isIdent, Bool.and_eq_true] at h; exact ⟨c, t, rfl, h.1.1⟩

theorem identTy_mem (s : Bytes) : identTy s = T.lcIdent ∨ identTy s = T.ucIdent := by
  unfold identTy; split
  · split <;> simp
  · simp
theorem identNSTy_mem (s : Bytes) : identNSTy s = T.lcIdentNS ∨ identNSTy s = T.ucIdentNS := by
  unfold identNSTy; split
  · split <;> simp
  · simp

/-- `parseTypeName` on the token(s) of a well-formed name. -/
theorem parseTypeName_rt (n : TName) (hwf : n.wf = true) (toks rest : Iter) (pos : Pos)
    (hm : toks.map Token.tk = tnameToks n) :
    parseTypeName (toks ++ rest) pos = .ok ({ start := true }, rest, n) := by
  simp only [TName.wf, Bool.and_eq_true, Bool.or_eq_true, beq_iff_eq] at hwf
  unfold tnameToks at hm
  cases n with
  | mk ns name =>
  dsimp only at *
  by_cases hns : ns = []
  · subst hns
    simp only [BEq.rfl, ↓reduceIte] at hm
    obtain ⟨t, rfl, ht⟩ : ∃ t, toks = [t] ∧ t.tk = (identTy name, name) := by
      cases toks with
      | nil => simp at hm
      | cons t ts =>
        cases ts with
        | nil => exact ⟨t, rfl, by simpa using hm⟩
        | cons _ _ => simp at hm
    have hty : t.ty = identTy name := congrArg Prod.fst ht
    have hval : t.val = name := congrArg Prod.snd ht
    have hnw : NW t := nw_of_ty (by rcases identTy_mem name with h | h <;> simp [hty, h])
    have hc : [T.lcIdent, T.ucIdent].contains t.ty = true := by
      rcases identTy_mem name with h | h <;> simp [hty, h]
    simp only [parseTypeName, List.singleton_append, checkAny_nw hnw, Res.ok_bind, hc, ↓reduceIte, popFront,
      Res.pure_eq, hval]
  · have hb : (ns == []) = false := by simpa using hns
    simp only [hb, Bool.false_eq_true, ↓reduceIte] at hm
    obtain ⟨t, rfl, ht⟩ : ∃ t, toks = [t] ∧ t.tk = (identNSTy name, ns ++ [46] ++ name) := by
      cases toks with
      | nil => simp at hm
      | cons t ts =>
        cases ts with
        | nil => exact ⟨t, rfl, by simpa using hm⟩
        | cons _ _ => simp at hm
    have hty : t.ty = identNSTy name := congrArg Prod.fst ht
    have hval : t.val = ns ++ [46] ++ name := congrArg Prod.snd ht
    have hnw : NW t := nw_of_ty (by rcases identNSTy_mem name with h | h <;> simp [hty, h])
    have hc1 : [T.lcIdent, T.ucIdent].contains t.ty = false := by
      rcases identNSTy_mem name with h | h <;> rw [hty, h] <;> decide
    have hc2 : [T.lcIdentNS, T.ucIdentNS].contains t.ty = true := by
      rcases identNSTy_mem name with h | h <;> simp [hty, h]
    have hnsid : isIdent ns = true := by
      rcases hwf.2 with h | h
      · exact absurd h hns
      · exact h
    have hsp : spanLen (fun c => c.toNat != 46) (ns ++ [46] ++ name) = ns.length := by
      rw [List.append_assoc]
      exact spanLen_append_eq _ ns 46 name (isIdent_no_dot hnsid) (by decide)
    simp only [parseTypeName, List.singleton_append, checkAny_nw hnw, Res.ok_bind, hc1, hc2, Bool.false_eq_true,
      ↓reduceIte, popFront, Res.pure_eq, hval, hsp]
    have hlt : ns.length < (ns ++ [46] ++ name).length := by simp
    simp only [hlt, ↓reduceIte]
    simp


theorem parseTypeName_omitted {h : Token} {r : Iter} (hnw : NW h) (pos : Pos)
    (h1 : [T.lcIdent, T.ucIdent].contains h.ty = false) (h2 : [T.lcIdentNS, T.ucIdentNS].contains h.ty = false) :
    parseTypeName (h :: r) pos = .ok ({ start := false }, h :: r, { ns := [], name := [] }) := by
  simp only [parseTypeName, checkAny_nw hnw, Res.ok_bind, h1, h2, Bool.false_eq_true, ↓reduceIte, Res.pure_eq]

/-- on a token that starts neither a type name nor a bracket type, `parseTL2Type` is omitted and consumes nothing. -/
theorem parseType_omitted {h : Token} {r : Iter} (hnw : NW h) (pos : Pos) (fuel : Nat) (hf : 3 ≤ fuel)
    (h1 : [T.lcIdent, T.ucIdent].contains h.ty = false) (h2 : [T.lcIdentNS, T.ucIdentNS].contains h.ty = false)
    (h3 : (h.ty == T.lSquare) = false) :
    parseType fuel (h :: r) pos = .ok ({ start := false }, h :: r, default) := by
  obtain ⟨f, rfl⟩ : ∃ f, fuel = f + 3 := ⟨fuel - 3, by omega⟩
  rw [show f + 3 = (f + 2) + 1 from rfl, parseType]
  simp only [skipWS_nw hnw, Res.ok_bind]
  rw [show f + 2 = (f + 1) + 1 from rfl, parseApp]
  simp only [skipWS_nw hnw, Res.ok_bind, parseTypeName_omitted hnw pos h1 h2, OState.hasProgress, Bool.false_and,
    Bool.not_false, ↓reduceIte, Res.pure_eq]
  rw [parseBracket]
  simp only [skipWS_nw hnw, Res.ok_bind, expectLazy_nw hnw, h3, Bool.false_eq_true, ↓reduceIte, front, Res.pure_eq]


theorem tnameToks_single (n : TName) : ∃ k, tnameToks n = [k] := by
  unfold tnameToks; split <;> exact ⟨_, rfl⟩

theorem map_tk_cons {toks : Iter} {k : TK} {ks : List TK} (h : toks.map Token.tk = k :: ks) :
    ∃ t ts, toks = t :: ts ∧ t.tk = k ∧ ts.map Token.tk = ks := by
  cases toks with
  | nil => simp at h
  | cons t ts => simp only [List.map_cons, List.cons.injEq] at h; exact ⟨t, ts, rfl, h.1, h.2⟩

theorem map_tk_append {toks : Iter} {a b : List TK} (h : toks.map Token.tk = a ++ b) :
    ∃ ta tb, toks = ta ++ tb ∧ ta.map Token.tk = a ∧ tb.map Token.tk = b := by
  obtain ⟨ta, tb, h1, h2, h3⟩ := List.map_eq_append_iff.mp h
  exact ⟨ta, tb, h1, h2, h3⟩

theorem follow_of {h : Token} {r : Iter} (ty : Int) (hty : h.ty = ty)
    (hm : ty ∈ [T.rAngle, T.commaSign, T.rSquare]) : Follow (h :: r) := by
  refine ⟨h, r, skipWS_nw (nw_of_ty ?_), ?_⟩
  · rw [hty]; simp only [List.mem_cons, List.not_mem_nil, or_false] at hm ⊢
    rcases hm with h | h | h <;> simp [h]
  · rw [hty]; simp only [List.mem_cons, List.not_mem_nil, or_false] at hm
    rcases hm with h | h | h <;> rw [h] <;> decide

theorem needT_pos (t : TypeRef) : 3 ≤ needT t := by
  cases t with
  | app n a => rw [needT]; exact Nat.le_add_right _ _
  | bracket i e => cases i <;> rw [needT] <;> omega


theorem front_cons (t : Token) (r : Iter) : front (t :: r) = .ok t := rfl
theorem popFront_cons (t : Token) (r : Iter) : popFront (t :: r) = .ok (t, r) := rfl

theorem follow_ne {rest : Iter} (h : Follow rest) : rest ≠ [] := by
  obtain ⟨h, r, hs, _⟩ := h
  intro e; subst e; simp [skipWS] at hs

theorem front_follow {rest : Iter} (h : Follow rest) : ∃ t, front rest = .ok t := by
  have := follow_ne h
  cases rest with
  | nil => exact absurd rfl this
  | cons t r => exact ⟨t, rfl⟩

theorem expectLazy_follow {rest : Iter} (h : Follow rest) : expectLazy rest T.lAngle = .ok (false, rest) := by
  obtain ⟨h, r, hs, hne⟩ := h
  have : (h.ty == T.lAngle) = false := by simpa using hne
  simp only [expectLazy, expect, checkToken, checkAny, hs, Res.ok_bind, front_cons, Res.pure_eq, List.contains_cons,
    List.contains_nil, Bool.or_false, this, Bool.false_eq_true, ↓reduceIte]

theorem nameTok_facts {t : Token} {n : TName} (h : [t].map Token.tk = tnameToks n) :
    NW t ∧ (t.ty == T.lAngle) = false := by
  unfold tnameToks at h
  split at h
  · simp only [List.map_cons, List.map_nil, List.cons.injEq, and_true] at h
    have hty : t.ty = identTy n.name := congrArg Prod.fst h
    rcases identTy_mem n.name with e | e
    · exact ⟨nw_of_ty (by simp [hty, e]), by rw [hty, e]; decide⟩
    · exact ⟨nw_of_ty (by simp [hty, e]), by rw [hty, e]; decide⟩
  · simp only [List.map_cons, List.map_nil, List.cons.injEq, and_true] at h
    have hty : t.ty = identNSTy n.name := congrArg Prod.fst h
    rcases identNSTy_mem n.name with e | e
    · exact ⟨nw_of_ty (by simp [hty, e]), by rw [hty, e]; decide⟩
    · exact ⟨nw_of_ty (by simp [hty, e]), by rw [hty, e]; decide⟩

theorem expectProgress_ok (e : PErr) : (({ start := true } : OState).expectProgress e) = (true, { start := true }) := rfl

theorem tnameToks_head (n : TName) : ∃ k, tnameToks n = [k] ∧
    k.1 ∈ [T.lcIdent, T.ucIdent, T.lcIdentNS, T.ucIdentNS, T.lSquare] := by
  unfold tnameToks; split
  · refine ⟨_, rfl, ?_⟩; rcases identTy_mem n.name with h | h <;> simp [h]
  · refine ⟨_, rfl, ?_⟩; rcases identNSTy_mem n.name with h | h <;> simp [h]

theorem typeToks_head (t : TypeRef) : ∃ k ks, typeToks t = k :: ks ∧
    k.1 ∈ [T.lcIdent, T.ucIdent, T.lcIdentNS, T.ucIdentNS, T.lSquare] := by
  cases t with
  | app name args =>
    obtain ⟨k, hk, hm⟩ := tnameToks_head name
    cases args with
    | nil => exact ⟨k, [], by simp [typeToks, hk], hm⟩
    | cons a as => exact ⟨k, _, by simp only [typeToks, hk, List.singleton_append]; rfl, hm⟩
  | bracket index elem =>
    cases index with
    | none => exact ⟨_, _, by simp only [typeToks, List.singleton_append, List.cons_append, List.nil_append]; rfl, by simp⟩
    | some a => exact ⟨_, _, by simp only [typeToks, List.singleton_append, List.cons_append, List.nil_append, List.append_assoc]; rfl, by simp⟩

mutual
/-- **token-level round trip of type expressions**: `parseTL2Type` on the tokens of `TL2TypeRef.Print` of a
well-formed type, followed by anything that does not continue a type, returns that type and the rest. -/
theorem type_rt : (t : TypeRef) → t.wf = true → ∀ (toks rest : Iter) (pos : Pos) (fuel : Nat),
    toks.map Token.tk = typeToks t → needT t ≤ fuel → Follow rest →
    parseType fuel (toks ++ rest) pos = .ok ({ start := true }, rest, t)
  | .app name [], hwf, toks, rest, pos, fuel, hm, hf, hfol => by
    simp only [TypeRef.wf, argsWf, Bool.and_true] at hwf
    simp only [typeToks] at hm
    obtain ⟨k, hk⟩ := tnameToks_single name
    obtain ⟨nt, ts, rfl, _, hts⟩ := map_tk_cons (hk ▸ hm)
    have : ts = [] := by simpa using hts
    subst this
    obtain ⟨hnw, _⟩ := nameTok_facts hm
    obtain ⟨t0, ht0⟩ := front_follow hfol
    simp only [needT, needArgs] at hf
    obtain ⟨f, rfl⟩ : ∃ f, fuel = f + 2 := ⟨fuel - 2, by omega⟩
    rw [show f + 2 = (f + 1) + 1 from rfl, parseType]
    simp only [List.singleton_append, skipWS_nw hnw, Res.ok_bind]
    rw [parseApp]
    simp only [skipWS_nw hnw, Res.ok_bind]
    rw [show nt :: rest = [nt] ++ rest from rfl, parseTypeName_rt name hwf [nt] rest pos hm]
    simp only [Res.ok_bind, OState.hasProgress, Option.isNone, Bool.and_self, Bool.not_true, Bool.false_eq_true,
      ↓reduceIte, ht0, expectLazy_follow hfol, Res.pure_eq]
  | .app name (a :: as), hwf, toks, rest, pos, fuel, hm, hf, hfol => by
    simp only [TypeRef.wf, argsWf, Bool.and_eq_true] at hwf
    obtain ⟨k, hk⟩ := tnameToks_single name
    simp only [typeToks, hk, List.append_assoc, List.singleton_append, List.cons_append, List.nil_append] at hm
    obtain ⟨nt, ts, rfl, hnt, hts⟩ := map_tk_cons hm
    have hntm : [nt].map Token.tk = tnameToks name := by rw [hk]; simp [hnt]
    obtain ⟨hnw, _⟩ := nameTok_facts hntm
    obtain ⟨la, ts2, rfl, hla, hts2⟩ := map_tk_cons hts
    obtain ⟨ta, tb, rfl, hta, htb⟩ := map_tk_append hts2
    have hlaty : la.ty = T.lAngle := congrArg Prod.fst hla
    have hnwla : NW la := nw_of_ty (by simp [hlaty])
    -- the token after the first argument is `,` or `>`
    have hfol2 : Follow (tb ++ rest) := by
      cases as with
      | nil =>
        simp only [argsTailToks, List.nil_append] at htb
        obtain ⟨ra, ts3, rfl, hra, _⟩ := map_tk_cons htb
        exact follow_of T.rAngle (congrArg Prod.fst hra) (by simp)
      | cons a2 as2 =>
        simp only [argsTailToks, List.append_assoc, List.singleton_append] at htb
        obtain ⟨cm, ts3, rfl, hcm, _⟩ := map_tk_cons htb
        exact follow_of T.commaSign (congrArg Prod.fst hcm) (by simp)
    simp only [needT, needArgs] at hf
    obtain ⟨f, rfl⟩ : ∃ f, fuel = f + 3 := ⟨fuel - 3, by omega⟩
    have hrest := follow_ne hfol
    obtain ⟨h2, r2, hr2, hh3⟩ := hfol2
    obtain ⟨t2, ht2⟩ := front_follow ⟨h2, r2, hr2, hh3⟩
    rw [show f + 3 = (f + 2) + 1 from rfl, parseType]
    simp only [List.cons_append, skipWS_nw hnw, Res.ok_bind]
    rw [show f + 2 = (f + 1) + 1 from rfl, parseApp]
    simp only [skipWS_nw hnw, Res.ok_bind]
    rw [show nt :: la :: (ta ++ tb ++ rest) = [nt] ++ la :: (ta ++ tb ++ rest) from rfl,
      parseTypeName_rt name hwf.1 [nt] _ pos hntm]
    simp only [Res.ok_bind, OState.hasProgress, Option.isNone, Bool.and_self, Bool.not_true, Bool.false_eq_true,
      ↓reduceIte, front_cons, expectLazy_nw hnwla, hlaty, BEq.rfl, Res.pure_eq]
    rw [List.append_assoc, arg_rt a hwf.2.1 ta (tb ++ rest) pos (f + 1) hta (by omega) ⟨h2, r2, hr2, hh3⟩]
    simp only [Res.ok_bind, ht2, expectProgress_ok, Bool.not_true, Bool.false_eq_true, ↓reduceIte]
    rw [argsTail_rt as hwf.2.2 tb rest pos (f + 1) _ [a] htb (by omega) hrest]
    simp only [Res.ok_bind, Res.pure_eq, List.singleton_append]
    obtain ⟨t0, ht0⟩ := front_follow hfol
    simp only [ht0, Res.ok_bind, Res.pure_eq, Bool.not_true, Bool.false_eq_true, ↓reduceIte]
  | .bracket none elem, hwf, toks, rest, pos, fuel, hm, hf, hfol => by
    simp only [TypeRef.wf] at hwf
    simp only [typeToks, List.append_assoc, List.singleton_append, List.cons_append, List.nil_append] at hm
    obtain ⟨lb, ts, rfl, hlb, hts⟩ := map_tk_cons hm
    obtain ⟨rb, te, rfl, hrb, hte⟩ := map_tk_cons hts
    have hlbty : lb.ty = T.lSquare := congrArg Prod.fst hlb
    have hrbty : rb.ty = T.rSquare := congrArg Prod.fst hrb
    have hnwlb : NW lb := nw_of_ty (by simp [hlbty])
    have hnwrb : NW rb := nw_of_ty (by simp [hrbty])
    simp only [needT] at hf
    have hpos := needT_pos elem
    obtain ⟨f, rfl⟩ : ∃ f, fuel = f + 6 := ⟨fuel - 6, by omega⟩
    obtain ⟨t0, ht0⟩ := front_follow hfol
    rw [show f + 6 = (f + 5) + 1 from rfl, parseType]
    simp only [List.cons_append, skipWS_nw hnwlb, Res.ok_bind]
    rw [show f + 5 = (f + 4) + 1 from rfl, parseApp]
    simp only [skipWS_nw hnwlb, Res.ok_bind,
      parseTypeName_omitted hnwlb pos (by rw [hlbty]; decide) (by rw [hlbty]; decide), OState.hasProgress,
      Bool.false_and, Bool.not_false, ↓reduceIte, Res.pure_eq]
    rw [parseBracket]
    simp only [skipWS_nw hnwlb, Res.ok_bind, expectLazy_nw hnwlb, hlbty, BEq.rfl, ↓reduceIte]
    rw [show f + 4 = (f + 3) + 1 from rfl, parseArg]
    simp only [skipWS_nw hnwrb, Res.ok_bind, checkToken_nw hnwrb, hrbty, show (T.rSquare == T.number) = false by decide,
      Bool.false_eq_true, ↓reduceIte]
    rw [parseType_omitted hnwrb pos (f + 3) (by omega) (by rw [hrbty]; decide) (by rw [hrbty]; decide)
      (by rw [hrbty]; decide)]
    simp only [Res.ok_bind, front_cons, Res.pure_eq, OState.isOmitted, Bool.not_false, ↓reduceIte, OState.inherit,
      Bool.or_false, OState.hasProgress, Option.isNone, Bool.and_self, Bool.not_true, Bool.false_eq_true,
      expect_nw hnwrb, hrbty, BEq.rfl]
    rw [type_rt elem hwf te rest pos (f + 4) hte (by omega) hfol]
    simp only [Res.ok_bind, front_cons, ht0, expectProgress_ok, Bool.not_true, Bool.false_eq_true, ↓reduceIte, Res.pure_eq]
  | .bracket (some a) elem, hwf, toks, rest, pos, fuel, hm, hf, hfol => by
    simp only [TypeRef.wf, Bool.and_eq_true] at hwf
    simp only [typeToks, List.append_assoc, List.singleton_append, List.cons_append, List.nil_append] at hm
    obtain ⟨lb, ts, rfl, hlb, hts⟩ := map_tk_cons hm
    obtain ⟨ta, tb, rfl, hta, htb⟩ := map_tk_append hts
    obtain ⟨rb, te, rfl, hrb, hte⟩ := map_tk_cons htb
    have hlbty : lb.ty = T.lSquare := congrArg Prod.fst hlb
    have hrbty : rb.ty = T.rSquare := congrArg Prod.fst hrb
    have hnwlb : NW lb := nw_of_ty (by simp [hlbty])
    have hnwrb : NW rb := nw_of_ty (by simp [hrbty])
    simp only [needT] at hf
    have hpos := needT_pos elem
    obtain ⟨f, rfl⟩ : ∃ f, fuel = f + 6 := ⟨fuel - 6, by omega⟩
    obtain ⟨t0, ht0⟩ := front_follow hfol
    rw [show f + 6 = (f + 5) + 1 from rfl, parseType]
    simp only [List.cons_append, skipWS_nw hnwlb, Res.ok_bind]
    rw [show f + 5 = (f + 4) + 1 from rfl, parseApp]
    simp only [skipWS_nw hnwlb, Res.ok_bind,
      parseTypeName_omitted hnwlb pos (by rw [hlbty]; decide) (by rw [hlbty]; decide), OState.hasProgress,
      Bool.false_and, Bool.not_false, ↓reduceIte, Res.pure_eq]
    rw [parseBracket]
    simp only [skipWS_nw hnwlb, Res.ok_bind, expectLazy_nw hnwlb, hlbty, BEq.rfl, ↓reduceIte]
    rw [List.append_assoc, arg_rt a hwf.1 ta (rb :: te ++ rest) pos (f + 4) hta (by omega)
      (follow_of T.rSquare hrbty (by simp))]
    simp only [Res.ok_bind, OState.isOmitted, Bool.not_true, Bool.false_eq_true, ↓reduceIte, OState.inherit,
      Bool.or_self, OState.hasProgress, Option.isNone, Bool.and_self, List.cons_append,
      expect_nw hnwrb, hrbty, BEq.rfl]
    rw [type_rt elem hwf.2 te rest pos (f + 4) hte (by omega) hfol]
    simp only [Res.ok_bind, front_cons, ht0, expectProgress_ok, Bool.not_true, Bool.false_eq_true, ↓reduceIte, Res.pure_eq]

/-- the `, arg` repetitions and the closing `>` -/
theorem argsTail_rt : (as : List TypeArg) → argsWf as = true → ∀ (toks rest : Iter) (pos : Pos) (fuel : Nat)
    (st : OState) (acc : List TypeArg),
    toks.map Token.tk = argsTailToks as ++ [(T.rAngle, bs ">")] → needArgs as + 1 ≤ fuel → rest ≠ [] →
    parseArgsLoop fuel pos st (toks ++ rest) acc = .ok (st, rest, acc ++ as)
  | [], _, toks, rest, pos, fuel, st, acc, hm, hf, hrest => by
    simp only [argsTailToks, List.nil_append] at hm
    obtain ⟨ra, ts, rfl, hra, hts⟩ := map_tk_cons hm
    have : ts = [] := by simpa using hts
    subst this
    have hraty : ra.ty = T.rAngle := congrArg Prod.fst hra
    have hnw : NW ra := nw_of_ty (by simp [hraty])
    obtain ⟨f, rfl⟩ : ∃ f, fuel = f + 1 := ⟨fuel - 1, by omega⟩
    obtain ⟨h, r, rfl⟩ : ∃ h r, rest = h :: r := by
      cases rest with
      | nil => exact absurd rfl hrest
      | cons h r => exact ⟨h, r, rfl⟩
    rw [parseArgsLoop]
    simp only [List.singleton_append, expect_nw hnw, hraty, show (T.rAngle == T.commaSign) = false by decide,
      Bool.false_eq_true, ↓reduceIte, Res.ok_bind, BEq.rfl, Bool.not_true, front_cons, Res.pure_eq, List.append_nil]
  | a :: as, hwf, toks, rest, pos, fuel, st, acc, hm, hf, hrest => by
    simp only [argsWf, Bool.and_eq_true] at hwf
    simp only [argsTailToks, List.append_assoc, List.singleton_append] at hm
    obtain ⟨cm, ts, rfl, hcm, hts⟩ := map_tk_cons hm
    obtain ⟨ta, tb, rfl, hta, htb⟩ := map_tk_append hts
    have hcmty : cm.ty = T.commaSign := congrArg Prod.fst hcm
    have hnw : NW cm := nw_of_ty (by simp [hcmty])
    have hfol2 : Follow (tb ++ rest) := by
      cases as with
      | nil =>
        simp only [argsTailToks, List.nil_append] at htb
        obtain ⟨ra, ts3, rfl, hra, _⟩ := map_tk_cons htb
        exact follow_of T.rAngle (congrArg Prod.fst hra) (by simp)
      | cons a2 as2 =>
        simp only [argsTailToks, List.append_assoc, List.singleton_append] at htb
        obtain ⟨cm2, ts3, rfl, hcm2, _⟩ := map_tk_cons htb
        exact follow_of T.commaSign (congrArg Prod.fst hcm2) (by simp)
    simp only [needArgs] at hf
    obtain ⟨f, rfl⟩ : ∃ f, fuel = f + 1 := ⟨fuel - 1, by omega⟩
    obtain ⟨h2, r2, hr2, hh3⟩ := hfol2
    obtain ⟨t2, ht2⟩ := front_follow ⟨h2, r2, hr2, hh3⟩
    rw [parseArgsLoop]
    simp only [List.cons_append, expect_nw hnw, hcmty, BEq.rfl, ↓reduceIte, Res.ok_bind]
    rw [List.append_assoc, arg_rt a hwf.1 ta (tb ++ rest) pos f hta (by omega) ⟨h2, r2, hr2, hh3⟩]
    simp only [Res.ok_bind, ht2, expectProgress_ok, Bool.not_true, Bool.false_eq_true, ↓reduceIte]
    rw [argsTail_rt as hwf.2 tb rest pos f st (acc ++ [a]) htb (by omega) hrest]
    simp

/-- `parseTL2TypeArgument` -/
theorem arg_rt : (a : TypeArg) → a.wf = true → ∀ (toks rest : Iter) (pos : Pos) (fuel : Nat),
    toks.map Token.tk = argToks a → needA a ≤ fuel → Follow rest →
    parseArg fuel (toks ++ rest) pos = .ok ({ start := true }, rest, a)
  | .num n, hwf, toks, rest, pos, fuel, hm, hf, hfol => by
    simp only [TypeArg.wf, decide_eq_true_eq] at hwf
    simp only [argToks] at hm
    obtain ⟨nt, ts, rfl, hnt, hts⟩ := map_tk_cons hm
    have : ts = [] := by simpa using hts
    subst this
    have hty : nt.ty = T.number := congrArg Prod.fst hnt
    have hval : nt.val = decimal n := congrArg Prod.snd hnt
    have hnw : NW nt := nw_of_ty (by simp [hty])
    simp only [needA] at hf
    obtain ⟨f, rfl⟩ : ∃ f, fuel = f + 1 := ⟨fuel - 1, by omega⟩
    obtain ⟨t0, ht0⟩ := front_follow hfol
    rw [parseArg]
    simp only [List.singleton_append, skipWS_nw hnw, Res.ok_bind, checkToken_nw hnw, hty, BEq.rfl, ↓reduceIte,
      popFront_cons, ht0, hval, parseUint32_decimal n hwf, Res.pure_eq]
  | .ty t, hwf, toks, rest, pos, fuel, hm, hf, hfol => by
    simp only [TypeArg.wf] at hwf
    simp only [argToks] at hm
    simp only [needA] at hf
    obtain ⟨f, rfl⟩ : ∃ f, fuel = f + 1 := ⟨fuel - 1, by omega⟩
    obtain ⟨t0, ht0⟩ := front_follow hfol
    -- the first token of a type is a name or `[`: not white space, not a number
    have hhead : ∃ h r, toks = h :: r ∧ NW h ∧ (h.ty == T.number) = false := by
      obtain ⟨k, ks, hk, hmem⟩ := typeToks_head t
      rw [hk] at hm
      obtain ⟨h, r, rfl, hh, _⟩ := map_tk_cons hm
      have hty : h.ty = k.1 := congrArg Prod.fst hh
      rw [← hty] at hmem
      refine ⟨h, r, rfl, nw_of_ty ?_, ?_⟩
      · simp only [List.mem_cons, List.not_mem_nil, or_false] at hmem ⊢
        rcases hmem with e | e | e | e | e <;> simp [e]
      · simp only [List.mem_cons, List.not_mem_nil, or_false] at hmem
        rcases hmem with e | e | e | e | e <;> rw [e] <;> decide
    obtain ⟨h, r, rfl, hnw, hnn⟩ := hhead
    rw [parseArg]
    simp only [List.cons_append, skipWS_nw hnw, Res.ok_bind, checkToken_nw hnw, hnn, Bool.false_eq_true, ↓reduceIte]
    rw [← List.cons_append, type_rt t hwf (h :: r) rest pos f hm (by omega) hfol]
    simp only [Res.ok_bind, ht0, Res.pure_eq]
end

end TLVerif.Syntaxtl2
