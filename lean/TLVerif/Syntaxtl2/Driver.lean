import TLVerif.Util.Hex
import TLVerif.Syntaxtl2.Parser
import TLVerif.Syntaxtl2.Format
import TLVerif.Syntaxtl2.ErrorPrint
import TLVerif.Syntaxtl2.FileLemmas
/-! Line-protocol handler for the `syntaxtl2` family: every line is a self-contained case.
Mirrors go/hsyntaxtl2/main.go and the dump of go/hsyntaxtl2/overlay/verif_hooks_tl2.go. -/
namespace TLVerif.Syntaxtl2
open TLVerif.Util

def str (b : Bytes) : String := String.ofList (b.map (fun c => Char.ofNat c.toNat))

def hexC (b : Bytes) : String := "#" ++ hexOfBytes b ++ ";"

def dumpTName (n : TName) : String := str n.ns ++ "." ++ str n.name

mutual
def dumpType : TypeRef → String
  | .app name args =>
    "a(" ++ dumpTName name ++ (match args with
      | [] => ""
      | a :: as => "<" ++ dumpArg a ++ dumpArgsTail as ++ ">") ++ ")"
  | .bracket index elem =>
    "b(" ++ (match index with | none => "n" | some a => dumpArg a) ++ "," ++ dumpType elem ++ ")"
def dumpArgsTail : List TypeArg → String
  | [] => ""
  | a :: as => "," ++ dumpArg a ++ dumpArgsTail as
def dumpArg : TypeArg → String
  | .num n => "N" ++ toString n
  | .ty t => "t" ++ dumpType t
end

def dumpField (full : Bool) (f : Field) : String :=
  "f(" ++ (if full then hexC f.cb ++ hexC f.cr else "") ++ str f.name ++ "," ++
  (if f.optional then "o" else "") ++ (if f.ignored then "i" else "") ++ "," ++ dumpType f.ty ++ ")"

def dumpFields (full : Bool) (fs : List Field) : String :=
  "R(" ++ String.join (fs.map (dumpField full)) ++ ")"

def dumpVariant (full : Bool) (v : Variant) : String :=
  "V(" ++ (if full then hexC v.cb else "") ++ str v.name ++ "," ++
  (match v.body with
   | .alias t => "A(" ++ dumpType t ++ ")"
   | .fields fs => dumpFields full fs) ++ ")"

def dumpTypeDef (full : Bool) : TypeDef → String
  | .alias t => "A(" ++ dumpType t ++ ")"
  | .struct (.union vs) => "S(U(" ++ String.join (vs.map (dumpVariant full)) ++ "))"
  | .struct (.fields fs) => "S(" ++ dumpFields full fs ++ ")"

def dumpComb (full : Bool) (c : Comb) : String :=
  "C(" ++ (if full then hexC c.cb else "") ++ String.join (c.anns.map (fun a => "@" ++ str a)) ++ "," ++
  (match c.decl with
   | .func d => "F(" ++ dumpTName d.name ++ "," ++ toString d.magic ++ "," ++ dumpFields full d.args ++ "," ++
       dumpTypeDef full d.ret ++ ")"
   | .type d => "T(" ++ dumpTName d.name ++ "," ++ toString d.magic ++ "," ++
       String.join (d.templs.map (fun t => "<" ++ str t.name ++ ":" ++ (if t.isNat then "#" else "T") ++ ">")) ++ "," ++
       dumpTypeDef full d.ty ++ ")") ++ ")"

def dumpFile (full : Bool) (f : File) : String :=
  if f.isEmpty then "-" else String.join (f.map (dumpComb full))

def posStr (p : Pos) : String := s!"{p.line}:{p.col}:{p.slo}:{p.off}"

def errLine (tx : Bytes) (e : PErr) : String :=
  match consolePrintError tx e, printWarning tx e with
  | .ok a, .ok b => s!"err {posStr e.outer} {posStr e.b} {posStr e.e} {hexOfBytes a} {hexOfBytes b}"
  | _, _ => "panic"

def tokStr (t : Token) : String := s!"{t.ty}:{t.val.length}:{t.pos.off}:{t.pos.line}:{t.pos.col}"

/-- hypotheses of the token-level round-trip theorems (C22), evaluated on a parsed file: every type, field list,
union and struct body is well-formed in the sense of `TypeRef.wf`, `Field.wf`, `StructDef.wf`; a function result given
as a bare type reference is the one anonymous field. -/
def typeDefWF (isRet : Bool) : TypeDef → Bool
  | .alias t => t.wf
  | .struct (.fields [f]) => if isRet && f.name == [] then f.ty.wf else f.wf
  | .struct sd => sd.wf

def combWF (c : Comb) : Bool :=
  match c.decl with
  | .type d => d.name.wf && typeDefWF false d.ty
  | .func d => d.name.wf && d.args.all Field.wf && typeDefWF true d.ret

def handle (op : String) (args : List String) : String :=
  match op, args with
  | "lex", [h] =>
    match bytesOfHex h with
    | none => "bad-op"
    | some s =>
      match lexTL2 s with
      | .ok lx =>
        (if lx.err.isSome then "err" else "ok") ++ (if recombine lx.all lx.rest != s then "-norecombine" else "") ++
        " " ++ ",".intercalate (lx.toks.map tokStr)
      | _ => "panic"
  | "parse", [h] =>
    match bytesOfHex h with
    | none => "bad-op"
    | some s =>
      match parseTL2File s with
      | .ok (.ok f) => "ok " ++ dumpFile true f
      | .ok (.error e) => errLine s e
      | .panic => "panic"
      | .nofuel => "nofuel"
  | "fmt", [o, h] =>
    if o != "d" && o != "c" then "bad-op" else
    match bytesOfHex h with
    | none => "bad-op"
    | some s =>
      let opts := if o == "c" then canonicalOptions else defaultOptions
      match parseTL2File s with
      | .ok (.ok f) =>
        let t1 := printFile opts f
        let g := s!" dep={f.any Comb.hasDep} one={f.any Comb.hasSingletonUnion}"
        match parseTL2File t1 with
        | .ok (.ok f2) =>
          let rt := if dumpFile false f == dumpFile false f2 then "same" else "diff"
          let cm := if dumpFile true f == dumpFile true f2 then "same" else "diff"
          let idem := if printFile opts f2 == t1 then "yes" else "no"
          s!"ok {hexOfBytes t1} rt={rt} cm={cm} idem={idem}" ++ g
        | .ok (.error _) => s!"ok {hexOfBytes t1} rt=err cm=na idem=na" ++ g
        | .panic => "panic"
        | .nofuel => "nofuel"
      | .ok (.error _) => "rej"
      | .panic => "panic"
      | .nofuel => "nofuel"
  | "wf", [h] =>
    match bytesOfHex h with
    | none => "bad-op"
    | some s =>
      match parseTL2File s with
      | .ok (.ok f) =>
        s!"ok guard={!(f.any Comb.hasDep)} wf={f.all combWF}"
      | .ok (.error _) => "rej"
      | .panic => "panic"
      | .nofuel => "nofuel"
  | "cert", [o, h] =>
    if o != "d" && o != "c" then "bad-op" else
    match bytesOfHex h with
    | none => "bad-op"
    | some s =>
      let opts := if o == "c" then canonicalOptions else defaultOptions
      match parseTL2File s with
      | .ok (.ok f) =>
        if File.wf f then s!"ok wf=true lexcert={lexCert (printFile opts f) f}" else "ok wf=false"
      | .ok (.error _) => "rej"
      | .panic => "panic"
      | .nofuel => "nofuel"
  | _, _ => "bad-op"

end TLVerif.Syntaxtl2
