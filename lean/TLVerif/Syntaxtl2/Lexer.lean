import TLVerif.Syntaxtl2.Basic
/-! Model of internal/tlast/tllexer.go in TL2 mode (`LexerOptions{LexerLanguage: TL2}`), written the way the Go
code is written: `nextStep` is `lexer.nextToken` (which token type and how many bytes `advance` takes),
`lexLoop` is `generateTokens`, `validate` is `validateTokens`, `recombine` is `recombineTokens`.
`advance(len, …)` slices `l.str[:len]`; the bound `len ≤ len(l.str)` is explicit (`.panic` otherwise). -/
namespace TLVerif.Syntaxtl2

def lowerCase (c : UInt8) : Bool := 97 ≤ c.toNat && c.toNat ≤ 122
def upperCase (c : UInt8) : Bool := 65 ≤ c.toNat && c.toNat ≤ 90
def digit (c : UInt8) : Bool := 48 ≤ c.toNat && c.toNat ≤ 57
def letter (c : UInt8) : Bool := lowerCase c || upperCase c
def identChar (c : UInt8) : Bool := letter c || digit c || c.toNat == 95
def hexc (c : UInt8) : Bool := digit c || (97 ≤ c.toNat && c.toNat ≤ 102)

/-- length of the longest prefix satisfying `p`. -/
def spanLen (p : UInt8 → Bool) : Bytes → Nat
  | [] => 0
  | c :: t => if p c then spanLen p t + 1 else 0

/-- `len(nameIdent(s))`. -/
def nameIdentLen : Bytes → Nat
  | [] => 0
  | c :: t => if letter c then spanLen identChar t + 1 else 0

/-- Go `utf8.DecodeRuneInString(s)`: `some size` for a valid encoding at the start of `c :: t`,
`none` for `(RuneError, 1)`. -/
def utf8Size (c : UInt8) (t : Bytes) : Option Nat :=
  let cont (x : UInt8) : Bool := 0x80 ≤ x.toNat && x.toNat ≤ 0xBF
  let n := c.toNat
  if n < 0x80 then some 1
  else if n < 0xC2 then none
  else if n ≤ 0xDF then
    match t with
    | c1 :: _ => if cont c1 then some 2 else none
    | _ => none
  else if n ≤ 0xEF then
    let lo := if n == 0xE0 then 0xA0 else 0x80
    let hi := if n == 0xED then 0x9F else 0xBF
    match t with
    | c1 :: c2 :: _ => if lo ≤ c1.toNat && c1.toNat ≤ hi && cont c2 then some 3 else none
    | _ => none
  else if n ≤ 0xF4 then
    let lo := if n == 0xF0 then 0x90 else 0x80
    let hi := if n == 0xF4 then 0x8F else 0xBF
    match t with
    | c1 :: c2 :: c3 :: _ => if lo ≤ c1.toNat && c1.toNat ≤ hi && cont c2 && cont c3 then some 4 else none
    | _ => none
  else none

theorem utf8Size_pos (c : UInt8) (t : Bytes) (sz : Nat) (h : utf8Size c t = some sz) : 1 ≤ sz := by
  unfold utf8Size at h
  simp only at h
  repeat' split at h
  all_goals first | (injection h with h; omega) | (exact absurd h (by simp))

/-- offset of the first byte at which `DecodeRuneInString` reports `(RuneError, 1)`, scanning like the loop in
`nextToken` for `//` comments (`fuel`: any bound ≥ the length; structural recursion so that the kernel can evaluate it). -/
def utf8BadAux : Nat → Bytes → Nat → Option Nat
  | 0, _, _ => none
  | _ + 1, [], _ => none
  | f + 1, c :: t, i =>
    match utf8Size c t with
    | none => some i
    | some sz => utf8BadAux f (t.drop (sz - 1)) (i + sz)

def utf8Bad (s : Bytes) (i : Nat) : Option Nat := utf8BadAux s.length s i

inductive LexStep where
  /-- `advance(extra+1, ty)`; `nl`: line/column bookkeeping of a newline follows. -/
  | tok (ty : Int) (extra : Nat) (nl : Bool)
  /-- optional `advance(pre, comment)`, then `tok := advance(extra+1, undefined)` and an error at `tok`. -/
  | err (pre : Option Nat) (extra : Nat)
deriving Repr, DecidableEq

def isPrimitive (c : UInt8) : Bool :=
  let n : Int := c.toNat
  n == T.lRound || n == T.rRound || n == T.lSquare || n == T.rSquare || n == T.lCurly || n == T.rCurly ||
  n == T.rAngle || n == T.dotSign || n == T.plus || n == T.asterisk || n == T.exclamation || n == T.colon ||
  n == T.semiColon || n == T.whiteSpace || n == T.tab || n == T.questionMark || n == T.percentSign ||
  n == T.commaSign || n == T.verticalBar

def typeWord : Bytes := bs "Type"

/-- the `'\r'` case of nextToken (`t` = rest after the `\r`). -/
def lexCR (t : Bytes) : LexStep :=
  match t with
  | c1 :: _ => if c1.toNat == 10 then .tok T.newLine 1 true else .err none 0
  | [] => .err none 0

/-- `lexFunctionModifier` (`t` = rest after the `@`). -/
def lexAt (t : Bytes) : LexStep :=
  let w := nameIdentLen t
  match t with
  | c1 :: _ => if w == 0 || !lowerCase c1 then .err none w else .tok T.annotation w false
  | [] => .err none w

/-- the `'/'` case of nextToken (`s` = rest including the `/`). -/
def lexSlash (s : Bytes) : LexStep :=
  if (bs "//").isPrefixOf s then
    let index := spanLen (fun x => x.toNat != 13 && x.toNat != 10) s
    match utf8Bad (s.take index) 0 with
    | some i => .err (some i) 0
    | none => .tok T.comment (index - 1) false
  else if (bs "/*").isPrefixOf s then .err none 1
  else .err none 0

/-- `lexSection` (`s` = rest including the `-`). -/
def lexSection (s : Bytes) : LexStep :=
  if (bs Facts.Syntaxtl2.typesSectionString).isPrefixOf s then
    .tok T.typesSection ((bs Facts.Syntaxtl2.typesSectionString).length - 1) false
  else if (bs Facts.Syntaxtl2.functionsSectionString).isPrefixOf s then
    .tok T.functionsSection ((bs Facts.Syntaxtl2.functionsSectionString).length - 1) false
  else .tok 45 0 false

/-- `lexNumberSign` (`t` = rest after the `#`). -/
def lexNumberSign (t : Bytes) : LexStep :=
  let k := spanLen identChar t
  if k == 0 then .tok T.numberSign 0 false
  else if !(t.take k).all hexc || k != 8 then .err none k
  else .tok T.crc32hash k false

/-- the `'_'` case of nextToken in TL2 mode (`t` = rest after the `_`). -/
def lexUnderscore (t : Bytes) : LexStep :=
  let w := nameIdentLen t
  if w == 0 then .tok T.underscore 0 false else .tok T.tl2depName w false

/-- `lexNumber` (`s` = rest including the first digit). -/
def lexNumber (s : Bytes) : LexStep :=
  let k := spanLen identChar s
  if (s.take k).all digit then .tok T.number (k - 1) false else .err none (k - 1)

/-- the `letter` case of nextToken in TL2 mode with `lexLexeme` (`s = c :: _`). -/
def lexLetter (c : UInt8) (s : Bytes) : LexStep :=
  let w := nameIdentLen s
  if s.take w == typeWord then .tok T.tl2typeSign 3 false
  else -- lexLexeme
    match s.drop w with
    | d :: r =>
      let w2 := nameIdentLen r
      if d.toNat == 46 && w2 != 0 then
        if !lowerCase c then .err none (w + w2)
        else match r with
          | c2 :: _ => if lowerCase c2 then .tok T.lcIdentNS (w + w2) false else .tok T.ucIdentNS (w + w2) false
          | [] => .err none 0
      else if lowerCase c then .tok T.lcIdent (w - 1) false else .tok T.ucIdent (w - 1) false
    | [] => if lowerCase c then .tok T.lcIdent (w - 1) false else .tok T.ucIdent (w - 1) false

/-- `lexer.nextToken` on the non-empty rest `c :: t` (TL2 mode). -/
def nextStep (c : UInt8) (t : Bytes) : LexStep :=
  let s := c :: t
  let n := c.toNat
  if isPrimitive c then .tok (n : Int) 0 false
  else if n == 13 then lexCR t
  else if n == 10 then .tok T.newLine 0 true
  else if n == 61 then -- '='
    if (bs "=>").isPrefixOf s then .tok T.functionSign 1 false else .tok T.equalSign 0 false
  else if n == 60 then -- '<'
    if (bs "<=>").isPrefixOf s then .tok T.tl2alias 2 false else .tok T.lAngle 0 false
  else if n == 64 then lexAt t
  else if n == 47 then lexSlash s
  else if n == 45 then lexSection s
  else if n == 35 then lexNumberSign t
  else if n == 95 then lexUnderscore t
  else if digit c then lexNumber s
  else if letter c then lexLetter c s
  else .err none 0

structure LexOut where
  toks : List Token
  err : Option PErr
  rest : Bytes      -- `l.str` when generateTokens returns
deriving Repr

def advPos (pos : Pos) (len : Nat) : Pos := { pos with col := pos.col + len, off := pos.off + len }
def nlPos (pos : Pos) : Pos := { line := pos.line + 1, col := 1, slo := pos.off, off := pos.off }

/-- one iteration of the `generateTokens` loop on the non-empty rest `c :: t`; `loop` is the rest of the loop. -/
def lexCons (loop : Bytes → Pos → Res LexOut) (c : UInt8) (t : Bytes) (pos : Pos) : Res LexOut :=
  match nextStep c t with
  | .tok ty extra nl =>
    if extra ≤ t.length then
      let tok : Token := { ty := ty, val := (c :: t).take (extra + 1), pos := pos }
      let pos1 := advPos pos (extra + 1)
      match loop (t.drop extra) (if nl then nlPos pos1 else pos1) with
      | .ok o => .ok { o with toks := tok :: o.toks }
      | r => r
    else .panic
  | .err none extra =>
    if extra ≤ t.length then
      let tok : Token := { ty := T.undefined, val := (c :: t).take (extra + 1), pos := pos }
      .ok { toks := [tok], err := some (errTok tok tok.pos), rest := t.drop extra }
    else .panic
  | .err (some pre) extra =>
    if pre + extra + 1 ≤ (c :: t).length then
      let tok0 : Token := { ty := T.comment, val := (c :: t).take pre, pos := pos }
      let s1 := (c :: t).drop pre
      let pos1 := advPos pos pre
      let tok : Token := { ty := T.undefined, val := s1.take (extra + 1), pos := pos1 }
      .ok { toks := [tok0, tok], err := some (errTok tok tok.pos), rest := s1.drop (extra + 1) }
    else .panic

/-- `generateTokens` loop (before `validateTokens`); `fuel` bounds the number of iterations (`.nofuel` is proved
unreachable for `fuel > len(s)`: every `nextToken` call consumes at least one byte). -/
def lexLoop : Nat → Bytes → Pos → Res LexOut
  | 0, _, _ => .nofuel
  | _ + 1, [], pos => .ok { toks := [{ ty := T.eof, val := [], pos := pos }], err := none, rest := [] }
  | f + 1, c :: t, pos => lexCons (lexLoop f) c t pos

def illegalTL2 (ty : Int) : Bool :=
  ty == T.lCurly || ty == T.rCurly || ty == T.exclamation || ty == T.lRound || ty == T.rRound ||
  ty == T.plus || ty == T.asterisk || ty == T.percentSign || ty == T.typesSection || ty == T.functionsSection

/-- `validateTokens`: the tokens up to and including the first illegal one, and the error. -/
def validate : List Token → List Token × Option PErr
  | [] => ([], none)
  | t :: ts =>
    if illegalTL2 t.ty then ([t], some (errTok t t.pos))
    else let (r, e) := validate ts; (t :: r, e)

def startPos : Pos := { line := 1, col := 1, slo := 0, off := 0 }

/-- `recombineTokens` over `l.tokens` and `l.str`. -/
def recombine (toks : List Token) (rest : Bytes) : Bytes :=
  (toks.map (·.val)).flatten ++ rest

structure Lexed where
  toks : List Token         -- what generateTokens returns
  all : List Token          -- `l.tokens`
  err : Option PErr
  rest : Bytes
deriving Repr

/-- `newLexer(s, …)` + `generateTokens()`. -/
def lexTL2 (s : Bytes) : Res Lexed :=
  match lexLoop (s.length + 1) s startPos with
  | .ok o =>
    match o.err with
    | some e => .ok { toks := o.toks, all := o.toks, err := some e, rest := o.rest }
    | none => let (r, e) := validate o.toks; .ok { toks := r, all := o.toks, err := e, rest := o.rest }
  | .panic => .panic
  | .nofuel => .nofuel

end TLVerif.Syntaxtl2
