import TLVerif.Syntaxtl2.DeclLemmas
/-! Token-level round trip of whole declarations (`parseTL2Combinator`). -/
set_option linter.unusedSimpArgs false
namespace TLVerif.Syntaxtl2
variable {N : Nat} {tx : Bytes} {it : Iter}

def annTK (a : Bytes) : TK := (T.annotation, [64] ++ a)

/-- `parseTL2Annotation` on a token that is no annotation -/
theorem annotationStopS (its : Iter) (k : TK) (ks : List TK) (pos : Pos) (hm : strip its = k :: ks)
    (hk : k.1 ≠ T.annotation) :
    ∃ rest, parseAnnotation its pos = .ok ({ start := false }, rest, []) ∧ strip rest = k :: ks ∧ rest <:+ its ∧
      skipWS rest = .ok rest := by
  obtain ⟨hd, r, e, hnw, htk, hr, hsuf⟩ := skipWS_strip hm
  have hty : (hd.ty == T.annotation) = false := by rw [show hd.ty = hd.tk.1 from rfl, htk]; simpa using hk
  refine ⟨hd :: r, ?_, by rw [strip_cons_nw hnw, htk, hr], hsuf, skipWS_nw hnw⟩
  unfold parseAnnotation
  simp only [e, Res.ok_bind, checkToken_nw hnw, hty, Bool.not_false, ↓reduceIte, front_cons, Res.pure_eq]

theorem annotationsS (pos : Pos) : ∀ (anns : List Bytes) (its : Iter) (k : TK) (ks : List TK) (fz : Nat) (acc : List Bytes)
    (start : Bool), strip its = anns.map annTK ++ k :: ks → k.1 ≠ T.annotation → anns.length < fz →
    ∃ rest, zeroOrMore parseAnnotation fz its pos acc start = .ok ({ start := start || !anns.isEmpty }, rest, acc ++ anns) ∧
      strip rest = k :: ks ∧ rest <:+ its ∧ skipWS rest = .ok rest := by
  intro anns
  induction anns with
  | nil =>
    intro its k ks fz acc start hm hk hfz
    simp only [List.map_nil, List.nil_append] at hm
    obtain ⟨f, rfl⟩ : ∃ f, fz = f + 1 := ⟨fz - 1, by simp at hfz; omega⟩
    obtain ⟨rest, e, hr, hs, hid⟩ := annotationStopS its k ks pos hm hk
    refine ⟨rest, ?_, hr, hs, hid⟩
    unfold zeroOrMore
    simp only [e, Res.ok_bind, OState.hasProgress, Bool.false_and, Bool.not_false, ↓reduceIte, Res.pure_eq, Bool.or_false,
      List.isEmpty_nil, Bool.not_true, List.append_nil]
  | cons a anns ih =>
    intro its k ks fz acc start hm hk hfz
    simp only [List.length_cons] at hfz
    obtain ⟨fz', rfl⟩ : ∃ f, fz = f + 1 := ⟨fz - 1, by omega⟩
    simp only [List.map_cons, List.cons_append] at hm
    obtain ⟨hd, r, e, hnw, htk, hr, hsuf⟩ := skipWS_strip hm
    have hty : (hd.ty == T.annotation) = true := by rw [show hd.ty = hd.tk.1 from rfl, htk]; rfl
    have hval : hd.val = [64] ++ a := by rw [show hd.val = hd.tk.2 from rfl, htk]; rfl
    obtain ⟨t1, ht1⟩ : ∃ t, front r = .ok t := by
      cases hh : List.map annTK anns ++ k :: ks with
      | nil => simp at hh
      | cons x y => rw [hh] at hr; exact front_strip hr
    obtain ⟨rest, el, hrest, hs, hid⟩ := ih r k ks fz' (acc ++ [a]) (start || true) hr hk (by omega)
    refine ⟨rest, ?_, hrest, hs.trans ((List.suffix_cons hd r).trans hsuf), hid⟩
    have hlen : ¬ ([64] ++ a).length < 1 := by simp
    have ea : parseAnnotation its pos = .ok ({ start := true }, r, a) := by
      unfold parseAnnotation
      simp only [e, Res.ok_bind, checkToken_nw hnw, hty, Bool.not_true, Bool.false_eq_true, ↓reduceIte, popFront_cons, hval,
        hlen, ht1, Res.pure_eq]
      simp
    unfold zeroOrMore
    simp only [ea, Res.ok_bind, OState.hasProgress, Option.isNone, Bool.and_self, Bool.not_true, Bool.false_eq_true, ↓reduceIte,
      el]
    simp

/-- on the tokens of a function declaration (magic, then a field or `=>`) the type-declaration parser does not start. -/
theorem typeDeclNotStartedOnFunc (its : Iter) (m : Nat) (hm0 : m ≠ 0) (hm32 : m < 4294967296) (k : TK) (ks : List TK)
    (pos : Pos) (name : TName) (fuel : Nat) (hm : strip its = (T.crc32hash, bs "#" ++ hex8 m) :: k :: ks)
    (hk : k.1 ∈ T.functionSign :: fieldStart) :
    ∃ d0, parseTypeDecl tx fuel its pos name = .ok ({ start := false }, its, d0) := by
  obtain ⟨hd, r, e, hnw, htk, hr, hsuf⟩ := skipWS_strip hm
  have hty : (hd.ty == T.crc32hash) = true := by rw [show hd.ty = hd.tk.1 from rfl, htk]; rfl
  have em := parseMagicS (hd :: r) m hm0 hm32 k ks pos hd r rfl hnw htk hr
  have hkn : k.1 ≠ T.lAngle ∧ [T.lCurly, T.lRound, T.lSquare].contains k.1 = false ∧ k.1 ≠ T.equalSign ∧ k.1 ≠ T.tl2alias := by
    simp only [fieldStart, List.mem_cons, List.not_mem_nil, or_false] at hk
    rcases hk with h | h | h | h | h <;> rw [h] <;> decide
  obtain ⟨r1, e1, hr1, hs1, _⟩ := (expect_strip hr T.lAngle).2 hkn.1
  obtain ⟨hd2, r2, e2, hnw2, htk2, hr2, hsuf2⟩ := checkAny_strip hr1 [T.lCurly, T.lRound, T.lSquare]
  have hs2 : strip (hd2 :: r2) = k :: ks := by rw [strip_cons_nw hnw2, htk2, hr2]
  obtain ⟨r3, e3, hr3, hs3, _⟩ := (expect_strip hs2 T.equalSign).2 hkn.2.2.1
  obtain ⟨r4, e4, hr4, hs4, _⟩ := (expect_strip hr3 T.tl2alias).2 hkn.2.2.2
  refine ⟨{ name := name, magic := m, templs := [], ty := .struct (.fields []) }, ?_⟩
  unfold parseTypeDecl
  simp only [e, Res.ok_bind, checkToken_nw hnw, hty, ↓reduceIte, em, e1, Bool.false_eq_true, e2, hkn.2.1, Res.pure_eq, e3, e4,
    Bool.not_false, Bool.and_self]


def Decl.toks : Decl → List TK
  | .type d => tnameToks d.name ++ typeDeclToks d
  | .func d => tnameToks d.name ++ funcDeclToks d
def combToks (c : Comb) : List TK := c.anns.map annTK ++ (c.decl.toks ++ [semiTK])

def Decl.wf : Decl → Bool
  | .type d => d.name.wf && d.wf
  | .func d => d.name.wf && d.wf
def Decl.need : Decl → Nat
  | .type d => d.ty.need + d.templs.length + 1
  | .func d => d.ret.need + 3 + needFields d.args
def Comb.need (c : Comb) : Nat := c.anns.length + 1 + c.decl.need

theorem annTK_ne (a : Bytes) : (annTK a).1 = T.annotation := rfl

theorem tnameToks_not_ann (n : TName) : ∃ k, tnameToks n = [k] ∧ k.1 ≠ T.annotation := by
  obtain ⟨k, hk, hm⟩ := tnameToks_head n
  refine ⟨k, hk, ?_⟩
  simp only [List.mem_cons, List.not_mem_nil, or_false] at hm
  rcases hm with h | h | h | h | h <;> rw [h] <;> decide

/-- `parseTL2Combinator` recovers a well-formed declaration (up to comments) from its tokens. -/
theorem combS (hc : Ctx N tx it) (hadj : NoWSAfterColon it) (c : Comb) (hwf : c.decl.wf = true) (its : Iter) (hsuf0 : its <:+ it)
    (k : TK) (ks : List TK) (fuel : Nat) (hm : strip its = combToks c ++ k :: ks) (hf : c.need ≤ fuel) :
    ∃ rest c', parseCombinator tx fuel its = .ok (c', rest, none) ∧ c'.core = c.core ∧ strip rest = k :: ks ∧ rest <:+ its ∧
      rest.length < its.length := by
  obtain ⟨name, hname⟩ : ∃ name, name = (match c.decl with | .type d => d.name | .func d => d.name) := ⟨_, rfl⟩
  obtain ⟨kn, hkn, hknann⟩ := tnameToks_not_ann name
  -- tokens: annotations, name, the rest of the declaration, `;`
  obtain ⟨body, hbody⟩ : ∃ body, c.decl.toks = tnameToks name ++ body ∧
      (match c.decl with | .type d => body = typeDeclToks d | .func d => body = funcDeclToks d) := by
    cases hd : c.decl with
    | type d => rw [hd] at hname; exact ⟨typeDeclToks d, by rw [hname]; rfl, rfl⟩
    | func d => rw [hd] at hname; exact ⟨funcDeclToks d, by rw [hname]; rfl, rfl⟩
  have hm1 : strip its = c.anns.map annTK ++ kn :: (body ++ semiTK :: (k :: ks)) := by
    rw [hm, combToks, hbody.1, hkn]; simp
  -- first token
  obtain ⟨k0, ks0, hk0⟩ : ∃ k0 ks0, c.anns.map annTK ++ kn :: (body ++ semiTK :: (k :: ks)) = k0 :: ks0 := by
    cases hh : c.anns.map annTK with
    | nil => exact ⟨_, _, rfl⟩
    | cons a b => exact ⟨a, _, rfl⟩
  obtain ⟨hd, r, e, hnw, htk, hr, hsuf⟩ := skipWS_strip (hk0 ▸ hm1)
  obtain ⟨cb, hcb, _⟩ := parseCommentBefore_step hc.good hc.tx hsuf0 e
  have hs0 : strip (hd :: r) = c.anns.map annTK ++ kn :: (body ++ semiTK :: (k :: ks)) := by
    rw [strip_cons_nw hnw, htk, hr, hk0]
  simp only [Comb.need] at hf
  obtain ⟨r1, ea, hr1, hs1, hid1⟩ := annotationsS hd.pos c.anns (hd :: r) kn _ fuel [] false hs0 hknann (by omega)
  have hr1' : strip r1 = tnameToks name ++ (body ++ semiTK :: (k :: ks)) := by rw [hr1, hkn]; rfl
  have hnwf : name.wf = true := by
    cases hdd : c.decl with
    | type d => rw [hdd] at hwf hname; simp only [Decl.wf, Bool.and_eq_true] at hwf; rw [hname]; exact hwf.1
    | func d => rw [hdd] at hwf hname; simp only [Decl.wf, Bool.and_eq_true] at hwf; rw [hname]; exact hwf.1
  obtain ⟨r2, en, hr2, hs2, hlt2⟩ := nameS name hnwf r1 _ hd.pos hr1'
  have hr2it : r2 <:+ it := hs2.trans (hs1.trans (hsuf.trans hsuf0))
  obtain ⟨t2, ht2⟩ : ∃ t, front r2 = .ok t := by
    cases hh : body ++ semiTK :: (k :: ks) with
    | nil => simp at hh
    | cons x y => rw [hh] at hr2; exact front_strip hr2
  have hlen : r2.length < its.length := by
    have h1 := hs1.length_le; have h2 := hsuf.length_le; omega
  cases hdd : c.decl with
  | type d =>
    rw [hdd] at hwf hbody hname hf
    simp only [Decl.wf, Bool.and_eq_true, Decl.need] at hwf hbody hf hname
    obtain ⟨hb1, hb2⟩ := hbody
    subst hb2
    subst hname
    obtain ⟨r3, d', et, hn', hm', ht', hcore, hr3, hs3⟩ := typeDeclS hc hadj d hwf.2 r2 hr2it (k :: ks) hd.pos fuel hr2 (by omega)
      (by omega)
    obtain ⟨r4, e4, hr4, hs4⟩ := (expect_strip hr3 T.semiColon).1 rfl
    obtain ⟨t4, ht4⟩ := front_strip hr4
    refine ⟨r4, { anns := [] ++ c.anns, decl := .type d', cb := cb }, ?_, ?_, hr4,
      hs4.trans (hs3.trans (hs2.trans (hs1.trans hsuf))), by have := hs4.length_le; have := hs3.length_le; omega⟩
    · unfold parseCombinator parseCombinatorBody
      simp only [e, Res.ok_bind, front_cons, hcb, ea, hid1, en, ht2, expectProgress_ok, Bool.not_true, Bool.false_eq_true,
        ↓reduceIte, et, OState.inherit, Bool.or_self, e4, ht4, Res.pure_eq]
    · cases d'; simp only at hn' hm' ht' hcore
      subst hn'; subst hm'; subst ht'
      simp [Comb.core, Decl.core, hdd, hcore]
  | func d =>
    rw [hdd] at hwf hbody hname hf
    simp only [Decl.wf, Bool.and_eq_true, Decl.need] at hwf hbody hf hname
    obtain ⟨hb1, hb2⟩ := hbody
    subst hb2
    subst hname
    have hfw := hwf.2
    simp only [FuncDecl.wf, Bool.and_eq_true, decide_eq_true_eq] at hfw
    obtain ⟨kf, ksf, hkf, hkfm⟩ : ∃ kf ksf, fieldsToks d.args ++ ((T.functionSign, bs "=>") :: retToks d.ret) ++ semiTK :: (k :: ks) = kf :: ksf ∧
        kf.1 ∈ T.functionSign :: fieldStart := by
      cases ha : d.args with
      | nil => exact ⟨(T.functionSign, bs "=>"), retToks d.ret ++ semiTK :: (k :: ks), by simp [fieldsToks], by simp⟩
      | cons f fs =>
        obtain ⟨kf, ksf, hkf, hmem⟩ := fieldToks_head f ((List.all_eq_true.mp hfw.1.2) f (by rw [ha]; exact List.mem_cons_self))
        exact ⟨kf, ksf ++ (fieldsToks fs ++ (T.functionSign, bs "=>") :: (retToks d.ret ++ semiTK :: (k :: ks))),
          by simp [fieldsToks, hkf], List.mem_cons_of_mem _ hmem⟩
    have hr2' : strip r2 = (T.crc32hash, bs "#" ++ hex8 d.magic) :: kf :: ksf := by
      rw [hr2, funcDeclToks, ← hkf]; simp
    obtain ⟨d0, e0⟩ := typeDeclNotStartedOnFunc (tx := tx) r2 d.magic hfw.1.1.1 hfw.1.1.2 kf ksf hd.pos d.name fuel hr2' hkfm
    obtain ⟨r3, d', ef, hn', hm', ha', hcore, hr3, hs3⟩ := funcDeclS hc d hwf.2 r2 hr2it (k :: ks) hd.pos fuel hr2 (by omega)
      (by omega)
    obtain ⟨r4, e4, hr4, hs4⟩ := (expect_strip hr3 T.semiColon).1 rfl
    obtain ⟨t4, ht4⟩ := front_strip hr4
    refine ⟨r4, { anns := [] ++ c.anns, decl := .func d', cb := cb }, ?_, ?_, hr4,
      hs4.trans (hs3.trans (hs2.trans (hs1.trans hsuf))), by have := hs4.length_le; have := hs3.length_le; omega⟩
    · unfold parseCombinator parseCombinatorBody
      simp only [e, Res.ok_bind, front_cons, hcb, ea, hid1, en, ht2, expectProgress_ok, Bool.not_true, Bool.false_eq_true,
        ↓reduceIte, e0, Bool.not_false, ef, OState.inherit, Bool.or_self, Bool.or_true, e4, ht4, Res.pure_eq]
    · cases d'; simp only at hn' hm' ha' hcore
      subst hn'; subst hm'
      simp [Comb.core, Decl.core, hdd, hcore, ha']

end TLVerif.Syntaxtl2
