import TLVerif.Syntaxtl2.FileLemmas
/-! Groundwork for the function result given as a bare type reference (`=> T`), not yet wired into `funcDeclS`/`File.wf`:
on the tokens of a type followed by `;` the struct-definition parser makes no progress (in all three ways it can go). -/
set_option linter.unusedSimpArgs false
namespace TLVerif.Syntaxtl2
variable {N : Nat} {tx : Bytes} {it : Iter}

/-- after a union constructor that made progress on `k0` and is followed by a token that is not `|`, a union without
leading `|` fails with one variant ("union with one constructor can't be without vertical bar"). -/
theorem unionFailsOneVariant (hc : Ctx N tx it) (its : Iter) (hsuf0 : its <:+ it) (pos : Pos) (fuel : Nat) (hf : 1 ≤ fuel)
    (hd : Token) (r : Iter) (e : skipWS its = .ok (hd :: r)) (hnw : NW hd) (hnvb : (hd.ty == T.verticalBar) = false)
    (r2 : Iter) (v : Variant) (ec : parseUnionConstructor tx fuel (hd :: r) pos = .ok ({ start := true }, r2, v))
    (k : TK) (ks : List TK) (hr2 : strip r2 = k :: ks) (hk : k.1 ≠ T.verticalBar) :
    ∃ st rest vs, parseUnionType tx fuel its pos = .ok (st, rest, vs) ∧ st.hasProgress = false ∧ st.isFailed = true ∧
      vs.length = 1 := by
  obtain ⟨cb, hcb, _⟩ := parseCommentBefore_step hc.good hc.tx hsuf0 e
  obtain ⟨hd3, r3, e3, _, _, _, _⟩ := skipWS_strip hr2
  obtain ⟨r4, e4, hr4, _, _⟩ := (expect_strip hr2 T.verticalBar).2 hk
  obtain ⟨t4, ht4⟩ := front_strip hr4
  obtain ⟨fz, hfz⟩ : ∃ fz, fuel = fz + 1 := ⟨fuel - 1, by omega⟩
  have eloop : parseVariantsLoop tx fuel pos fuel { start := true } r2 [{ v with cb := cb }] =
      .ok ({ start := true }, r4, [{ v with cb := cb }], false) := by
    rw [hfz]
    conv => lhs; rw [parseVariantsLoop]
    rw [← hfz]
    simp only [e3, Res.ok_bind, e4, Bool.not_false, ↓reduceIte, Res.pure_eq]
  refine ⟨{ start := true, err := some (errTok t4 pos) }, r4, [{ v with cb := cb }], ?_, rfl, rfl, rfl⟩
  unfold parseUnionType
  simp only [e, Res.ok_bind, hcb, expect_nw hnw, hnvb, Bool.false_eq_true, ↓reduceIte, ec, OState.isFailed, Option.isSome,
    Bool.and_false, Bool.false_and, OState.inherit, Bool.or_true, Bool.not_true, eloop, List.length_cons, List.length_nil,
    Nat.lt_irrefl, Nat.reduceAdd, BEq.rfl, Bool.not_false, Bool.and_self, ht4, OState.failWith, Res.pure_eq]

/-- `parseTL2StructTypeDefinition` makes no progress on the tokens of a bare type reference followed by `;`
(so `parseTL2FuncDeclarationWithoutName` falls back to `parseTL2Type`). -/
theorem structDefNoProgressOnType (hc : Ctx N tx it) (t : TypeRef) (hwf : t.wf = true) (its : Iter) (hsuf0 : its <:+ it)
    (ks : List TK) (pos : Pos) (fuel : Nat) (hf : 3 ≤ fuel) (hm : strip its = typeToks t ++ semiTK :: ks) :
    ∃ st sd, parseStructDef tx fuel its pos = .ok (st, its, sd) ∧ st.hasProgress = false ∧
      (st.isFailed = false ∨ st.isFailed = true) := by
  obtain ⟨k0, ks0, hk0, hmem⟩ := typeToks_head t
  have hm0 : strip its = k0 :: (ks0 ++ semiTK :: ks) := by rw [hm, hk0]; rfl
  obtain ⟨t0, ht0⟩ := front_strip hm0
  obtain ⟨hd, r, e, hnw, htk, hr, hsuf⟩ := skipWS_strip hm0
  have hty : hd.ty = k0.1 := by rw [← htk]; rfl
  have hnvb : (hd.ty == T.verticalBar) = false := by
    rw [hty]; simp only [List.mem_cons, List.not_mem_nil, or_false] at hmem
    rcases hmem with h | h | h | h | h <;> rw [h] <;> decide
  have hrit : r <:+ it := (List.suffix_cons hd r).trans (hsuf.trans hsuf0)
  by_cases hvs : variantStart.contains k0.1 = true
  · -- the type starts with a plain identifier: it is taken as a union constructor
    have hchk : variantStart.contains hd.ty = true := by rw [hty]; exact hvs
    -- what follows the identifier: `<` or `;`
    have hnext : (ks0 = [] ∧ True) ∨ (∃ ks1, ks0 = (T.lAngle, bs "<") :: ks1) := by
      cases t with
      | app name args =>
        obtain ⟨kn, hkn⟩ := tnameToks_single name
        cases args with
        | nil => left; simp only [typeToks, hkn] at hk0; injection hk0 with _ h2; exact ⟨h2.symm, trivial⟩
        | cons a as =>
          right
          simp only [typeToks, hkn, List.singleton_append, List.cons_append, List.nil_append, List.append_assoc] at hk0
          injection hk0 with _ h2
          exact ⟨_, h2.symm⟩
      | bracket index elem =>
        exfalso
        cases index <;>
          (simp only [typeToks, List.singleton_append, List.cons_append, List.nil_append, List.append_assoc] at hk0
           injection hk0 with h1 _
           rw [← h1] at hvs
           exact absurd hvs (by decide))
    obtain ⟨t1, ht1⟩ : ∃ t, front r = .ok t := by
      cases hh : ks0 ++ semiTK :: ks with
      | nil => simp at hh
      | cons a b => rw [hh] at hr; exact front_strip hr
    -- the constructor makes progress and stops before `;` or at `<`
    have hcons : ∃ r2 v k ks', parseUnionConstructor tx fuel (hd :: r) pos = .ok ({ start := true }, r2, v) ∧
        strip r2 = k :: ks' ∧ k.1 ≠ T.verticalBar := by
      rcases hnext with ⟨h0, _⟩ | ⟨ks1, h1⟩
      · rw [h0, List.nil_append] at hr
        obtain ⟨hd2, r2, e2, hnw2, htk2, hr2, hsuf2⟩ := skipWS_strip hr
        have hty2 : hd2.ty = T.semiColon := by rw [show hd2.ty = hd2.tk.1 from rfl, htk2]; rfl
        refine ⟨r, Variant.mk hd.val (.fields []) [], semiTK, ks, ?_, hr, by decide⟩
        unfold parseUnionConstructor
        simp only [skipWS_nw hnw, Res.ok_bind, checkAny_nw hnw, show [T.ucIdent, T.lcIdent, T.tl2typeSign] = variantStart from rfl,
          hchk, Bool.not_true, Bool.false_eq_true, ↓reduceIte, popFront_cons, ht1, checkAny, e2, front_cons, Res.pure_eq,
          hty2, show [T.semiColon, T.verticalBar].contains T.semiColon = true by decide]
      · rw [h1] at hr
        simp only [List.cons_append] at hr
        obtain ⟨hd2, r2, e2, hnw2, htk2, hr2, hsuf2⟩ := skipWS_strip hr
        have hty2 : hd2.ty = T.lAngle := by rw [show hd2.ty = hd2.tk.1 from rfl, htk2]
        obtain ⟨f0, ef0⟩ := fieldStopS hc r hrit _ _ pos fuel hr (by decide)
        obtain ⟨r3, ety, hr3, hs3⟩ := typeS_omitted hr pos fuel hf (by decide) (by decide) (by decide)
        obtain ⟨hd4, r4, e4, hnw4, htk4, hr4, hsuf4⟩ := skipWS_strip hr3
        have hty4 : hd4.ty = T.lAngle := by rw [show hd4.ty = hd4.tk.1 from rfl, htk4]
        obtain ⟨fz, hfz⟩ : ∃ fz, fuel = fz + 1 := ⟨fuel - 1, by omega⟩
        refine ⟨r, Variant.mk hd.val (.fields []) [], (T.lAngle, bs "<"), _, ?_, hr, by decide⟩
        unfold parseUnionConstructor parseFields
        simp only [skipWS_nw hnw, Res.ok_bind, checkAny_nw hnw, show [T.ucIdent, T.lcIdent, T.tl2typeSign] = variantStart from rfl,
          hchk, Bool.not_true, Bool.false_eq_true, ↓reduceIte, popFront_cons, ht1, checkAny, e2, front_cons, Res.pure_eq,
          hty2, show [T.semiColon, T.verticalBar].contains T.lAngle = false by decide]
        rw [hfz, zeroOrMore]
        rw [← hfz]
        simp only [ef0, Res.ok_bind, OState.hasProgress, Bool.false_and, Bool.not_false, ↓reduceIte, Res.pure_eq, Bool.or_self,
          OState.inherit, Bool.or_false, ety, OState.isOmitted, e4, front_cons, hty4,
          show [T.colon, T.questionMark].contains T.lAngle = false by decide, Bool.false_eq_true, ht1]
    obtain ⟨r2, v, k, ks', ec, hr2, hk⟩ := hcons
    obtain ⟨st, rest, vs, eu, hnp, hfl, hlen⟩ := unionFailsOneVariant hc its hsuf0 pos fuel (by omega) hd r e hnw hnvb r2 v ec k ks'
      hr2 hk
    refine ⟨st, .fields [], ?_, hnp, Or.inr hfl⟩
    unfold parseStructDef
    simp only [ht0, Res.ok_bind, eu, hnp, Bool.false_eq_true, ↓reduceIte, hfl, hlen, Nat.reduceBneDiff, Bool.and_self,
      Res.pure_eq]
  · -- a namespaced name or `[`: neither a union constructor nor a field starts
    have hvs' : variantStart.contains hd.ty = false := by rw [hty]; simpa using hvs
    obtain ⟨cb, hcb, _⟩ := parseCommentBefore_step hc.good hc.tx hsuf0 e
    have hfs : fieldStart.contains k0.1 = false := by
      simp only [List.mem_cons, List.not_mem_nil, or_false] at hmem
      rcases hmem with h | h | h | h | h
      · rw [h] at hvs; exact absurd (by decide) hvs
      · rw [h] at hvs; exact absurd (by decide) hvs
      · rw [h]; decide
      · rw [h]; decide
      · rw [h]; decide
    obtain ⟨f0, ef0⟩ := fieldStopS hc its hsuf0 k0 _ pos fuel hm0 hfs
    obtain ⟨fz, hfz⟩ : ∃ fz, fuel = fz + 1 := ⟨fuel - 1, by omega⟩
    have eu : parseUnionType tx fuel its pos = .ok ({ start := false }, its, [Variant.mk [] (.fields []) cb]) := by
      unfold parseUnionType parseUnionConstructor
      simp only [e, Res.ok_bind, hcb, expect_nw hnw, hnvb, Bool.false_eq_true, ↓reduceIte, skipWS_nw hnw, checkAny_nw hnw,
        show [T.ucIdent, T.lcIdent, T.tl2typeSign] = variantStart from rfl, hvs', Bool.not_false, front_cons, Res.pure_eq,
        OState.isFailed, Bool.false_and, OState.isOmitted, OState.inherit, Bool.or_self, Bool.not_true]
    refine ⟨{ start := false }, .fields [], ?_, rfl, Or.inl rfl⟩
    unfold parseStructDef parseFields
    simp only [ht0, Res.ok_bind, eu, OState.hasProgress, Bool.false_and, Bool.false_eq_true, ↓reduceIte, OState.isFailed]
    rw [hfz, zeroOrMore]
    rw [← hfz]
    simp only [ef0, Res.ok_bind, OState.hasProgress, Bool.false_and, Bool.not_false, ↓reduceIte, Res.pure_eq, Bool.or_self,
      OState.isFailed, Bool.false_eq_true, ht0, List.nil_append]

end TLVerif.Syntaxtl2
