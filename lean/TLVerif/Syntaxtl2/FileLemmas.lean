import TLVerif.Syntaxtl2.CombLemmas
/-! Token-level round trip of whole files; the fuel of `ParseTL2File` suffices; parser completeness on printed token
sequences; the decidable lexing certificate. -/
set_option linter.unusedSimpArgs false
namespace TLVerif.Syntaxtl2
variable {N : Nat} {tx : Bytes} {it : Iter}

def eofTK : TK := (T.eof, [])
def fileToks (f : File) : List TK := (f.map combToks).flatten
def File.wf (f : File) : Bool := f.all (fun c => c.decl.wf)

theorem combToks_head (c : Comb) : ∃ k ks, combToks c = k :: ks ∧ k.1 ≠ T.eof := by
  unfold combToks
  cases ha : c.anns with
  | cons a as => exact ⟨annTK a, _, rfl, by show T.annotation ≠ T.eof; decide⟩
  | nil =>
    have : ∃ n, c.decl.toks = tnameToks n ++ (match c.decl with | .type d => typeDeclToks d | .func d => funcDeclToks d) := by
      cases c.decl with
      | type d => exact ⟨d.name, rfl⟩
      | func d => exact ⟨d.name, rfl⟩
    obtain ⟨n, hn⟩ := this
    obtain ⟨k, hk, hm⟩ := tnameToks_head n
    refine ⟨k, _, by rw [hn, hk]; rfl, ?_⟩
    simp only [List.mem_cons, List.not_mem_nil, or_false] at hm
    rcases hm with h | h | h | h | h <;> rw [h] <;> decide

/-- the `for !it.expectLazy(eof)` loop recovers every well-formed file (up to comments) from its tokens. -/
theorem fileS (hc : Ctx N tx it) (hadj : NoWSAfterColon it) (fuel : Nat) : ∀ (f : File), File.wf f = true →
    (∀ c ∈ f, c.need ≤ fuel) → ∀ (its : Iter), its <:+ it → ∀ (fz : Nat) (acc : List Comb),
    strip its = fileToks f ++ [eofTK] → f.length < fz →
    ∃ f', parseFileLoop tx fuel fz its acc = .ok (.ok (acc ++ f')) ∧ f'.map Comb.core = f.map Comb.core := by
  intro f
  induction f with
  | nil =>
    intro _ _ its _ fz acc hm hfz
    simp only [fileToks, List.map_nil, List.flatten_nil, List.nil_append] at hm
    obtain ⟨fz', rfl⟩ : ∃ f, fz = f + 1 := ⟨fz - 1, by simp at hfz; omega⟩
    obtain ⟨r, e, _, _⟩ := (expectLazy_strip hm T.eof).1 rfl
    refine ⟨[], ?_, rfl⟩
    unfold parseFileLoop
    simp only [e, Res.ok_bind, ↓reduceIte, Res.pure_eq, List.append_nil]
  | cons c f ih =>
    intro hwf hneed its hsuf0 fz acc hm hfz
    simp only [List.length_cons] at hfz
    obtain ⟨fz', rfl⟩ : ∃ f, fz = f + 1 := ⟨fz - 1, by omega⟩
    simp only [File.wf, List.all_cons, Bool.and_eq_true] at hwf
    obtain ⟨k0, ks0, hk0, hk0e⟩ := combToks_head c
    have hm0 : strip its = k0 :: (ks0 ++ (fileToks f ++ [eofTK])) := by rw [hm]; simp [fileToks, hk0]
    have e0 := (expectLazy_strip hm0 T.eof).2 hk0e
    obtain ⟨k, ks, hk⟩ : ∃ k ks, fileToks f ++ [eofTK] = k :: ks := by
      cases hh : fileToks f ++ [eofTK] with
      | nil => simp at hh
      | cons a b => exact ⟨a, b, rfl⟩
    have hm1 : strip its = combToks c ++ k :: ks := by rw [hm, ← hk]; simp [fileToks]
    obtain ⟨rest, c', ec, hcore, hrest, hs, _⟩ := combS hc hadj c hwf.1 its hsuf0 k ks fuel hm1 (hneed c List.mem_cons_self)
    rw [← hk] at hrest
    obtain ⟨f', el, hcores⟩ := ih hwf.2 (fun g hg => hneed g (List.mem_cons_of_mem _ hg)) rest (hs.trans hsuf0) fz'
      (acc ++ [c']) hrest (by omega)
    refine ⟨c' :: f', ?_, by simp [hcore, hcores]⟩
    unfold parseFileLoop
    simp only [e0, Res.ok_bind, Bool.false_eq_true, ↓reduceIte, ec, el]
    simp


/-! ### the fuel `ParseTL2File` starts with covers every construct: `need ≤ 3 · tokens + c` -/

theorem tnameToks_len (n : TName) : (tnameToks n).length = 1 := by
  obtain ⟨k, hk⟩ := tnameToks_single n; rw [hk]; rfl

mutual
theorem needT_le : (t : TypeRef) → needT t ≤ 3 * (typeToks t).length
  | .app name [] => by simp only [needT, needArgs, typeToks, tnameToks_len]; omega
  | .app name (a :: as) => by
    have h1 := needA_le a
    have h2 := needArgs_le as
    simp only [needT, needArgs, typeToks, List.length_append, tnameToks_len, List.length_cons, List.length_nil]
    omega
  | .bracket none e => by
    have := needT_le e
    simp only [needT, typeToks, List.length_append, List.length_cons, List.length_nil]; omega
  | .bracket (some a) e => by
    have h1 := needA_le a
    have h2 := needT_le e
    simp only [needT, typeToks, List.length_append, List.length_cons, List.length_nil]; omega
theorem needArgs_le : (as : List TypeArg) → needArgs as ≤ 3 * (argsTailToks as).length
  | [] => by simp [needArgs, argsTailToks]
  | a :: as => by
    have h1 := needA_le a
    have h2 := needArgs_le as
    simp only [needArgs, argsTailToks, List.length_append, List.length_cons, List.length_nil]; omega
theorem needA_le : (a : TypeArg) → needA a ≤ 3 * (argToks a).length + 1
  | .num n => by simp [needA, argToks]
  | .ty t => by have := needT_le t; simp only [needA, argToks]; omega
end

theorem fieldToks_len (f : Field) (hwf : f.wf = true) : (typeToks f.ty).length + 2 ≤ (fieldToks f).length := by
  simp only [Field.wf, Bool.and_eq_true] at hwf
  have hnb : (f.name != []) = true := hwf.1.1
  simp only [fieldToks, hnb, ↓reduceIte, List.length_append, List.length_cons, List.length_nil]
  omega

theorem needFields_le (fs : List Field) (hwf : ∀ f ∈ fs, f.wf = true) : needFields fs ≤ 3 * (fieldsToks fs).length + 1 := by
  induction fs with
  | nil => simp [needFields, fieldsToks]
  | cons f fs ih =>
    have h1 := needT_le f.ty
    have h2 := fieldToks_len f (hwf f List.mem_cons_self)
    have h3 := ih (fun g hg => hwf g (List.mem_cons_of_mem _ hg))
    simp only [needFields, fieldsToks, List.map_cons, List.flatten_cons, List.length_append] at *
    omega

theorem vbodyNeed_le (b : VBody) (hwf : b.wf = true) : b.need ≤ 3 * b.toks.length + 1 := by
  cases b with
  | alias t => have := needT_le t; simp only [VBody.need, VBody.toks]; omega
  | fields fs =>
    simp only [VBody.wf] at hwf
    exact needFields_le fs (fun f hf => (List.all_eq_true.mp hwf) f hf)

theorem needVariants_le (vs : List Variant) (hwf : ∀ v ∈ vs, v.wf = true) :
    needVariants vs ≤ 3 * ((vs.map variantToks).flatten).length + 1 := by
  induction vs with
  | nil => simp [needVariants]
  | cons v vs ih =>
    have hv := hwf v List.mem_cons_self
    simp only [Variant.wf, Bool.and_eq_true] at hv
    have h1 := vbodyNeed_le v.body hv.2
    have h3 := ih (fun g hg => hwf g (List.mem_cons_of_mem _ hg))
    simp only [needVariants, List.map_cons, List.flatten_cons, List.length_append, variantToks, List.length_cons] at *
    omega

theorem moreVariantsToks_len (vs : List Variant) :
    ((vs.map variantToks).flatten).length ≤ (moreVariantsToks vs).length := by
  induction vs with
  | nil => simp [moreVariantsToks]
  | cons v vs ih =>
    simp only [moreVariantsToks, List.map_cons, List.flatten_cons, List.length_append, List.length_cons] at *
    omega

theorem structNeed_le (sd : StructDef) (hwf : sd.wf = true) : sd.need ≤ 3 * sd.toks.length + 4 := by
  cases sd with
  | fields fs =>
    simp only [StructDef.wf] at hwf
    have := needFields_le fs (fun f hf => (List.all_eq_true.mp hwf) f hf)
    simp only [StructDef.need, StructDef.toks]; omega
  | union vs =>
    simp only [StructDef.wf, Bool.and_eq_true] at hwf
    have h1 := needVariants_le vs (fun v hv => (List.all_eq_true.mp hwf.2) v hv)
    cases vs with
    | nil => simp [StructDef.need, needVariants, StructDef.toks]
    | cons v vs =>
      have h2 := moreVariantsToks_len vs
      simp only [StructDef.need, StructDef.toks, List.map_cons, List.flatten_cons, List.length_append] at *
      omega

theorem typeDefNeed_le (t : TypeDef) (hwf : t.wf = true) : t.need ≤ 3 * t.toks.length + 4 := by
  cases t with
  | alias ty => have := needT_le ty; simp only [TypeDef.need, TypeDef.toks, List.length_cons]; omega
  | struct sd => have := structNeed_le sd hwf; simp only [TypeDef.need, TypeDef.toks, List.length_cons]; omega

theorem templToks_len (ts : List Templ) : ts.length ≤ (templToks ts).length := by
  cases ts with
  | nil => simp
  | cons t ts =>
    have : ts.length ≤ (moreTemplToks ts).length := by
      induction ts with
      | nil => simp
      | cons a as ih => simp only [moreTemplToks, List.map_cons, List.flatten_cons, List.length_append, List.length_cons] at *; omega
    simp only [templToks, List.length_cons, List.length_append, templ1Toks, List.length_nil]; omega

theorem combNeed_le (c : Comb) (hwf : c.decl.wf = true) : c.need ≤ 3 * (combToks c).length + 12 := by
  have ha : c.anns.length ≤ (c.anns.map annTK).length := by simp
  cases hd : c.decl with
  | type d =>
    rw [hd] at hwf
    simp only [Decl.wf, TypeDecl.wf, Bool.and_eq_true] at hwf
    have h1 := typeDefNeed_le d.ty hwf.2.2
    have h2 := templToks_len d.templs
    simp only [Comb.need, combToks, hd, Decl.need, Decl.toks, typeDeclToks, List.length_append, tnameToks_len, List.length_cons,
      List.length_nil, List.length_map] at *
    omega
  | func d =>
    rw [hd] at hwf
    simp only [Decl.wf, FuncDecl.wf, Bool.and_eq_true] at hwf
    have h1 : d.ret.need ≤ 3 * (retToks d.ret).length + 4 := by
      cases hr : d.ret with
      | alias ty => have := needT_le ty; simp only [TypeDef.need, retToks, List.length_cons]; omega
      | struct sd =>
        have hh := hwf.2.2; rw [hr] at hh
        have := structNeed_le sd hh; simp only [TypeDef.need, retToks]; omega
    have h2 := needFields_le d.args (fun f hf => (List.all_eq_true.mp hwf.2.1.2) f hf)
    simp only [Comb.need, combToks, hd, Decl.need, Decl.toks, funcDeclToks, List.length_append, tnameToks_len, List.length_cons,
      List.length_nil, List.length_map] at *
    omega

theorem strip_len (its : Iter) : (strip its).length ≤ its.length := by
  simp only [strip, List.length_map]
  exact List.length_filter_le _ _

theorem combToks_len_le_file (f : File) (c : Comb) (hc : c ∈ f) : (combToks c).length ≤ (fileToks f).length := by
  induction f with
  | nil => cases hc
  | cons a l ih =>
    simp only [fileToks, List.map_cons, List.flatten_cons, List.length_append]
    cases hc with
    | head => omega
    | tail _ h => have := ih h; simp only [fileToks] at this; omega


theorem file_len_le (f : File) : f.length ≤ (fileToks f).length := by
  induction f with
  | nil => simp
  | cons c f ih =>
    have : 1 ≤ (combToks c).length := by simp [combToks]; omega
    simp only [fileToks, List.map_cons, List.flatten_cons, List.length_append, List.length_cons] at *
    omega

/-- **Parser completeness on printed token sequences**: if the lexer turns a text into tokens that (white space and
comments removed) are the token sequence of a well-formed file `f`, with no white space right after a `:`, then
`ParseTL2File` returns `f` up to comments. -/
theorem parse_of_printed_tokens (tx : Bytes) (f : File) (lx : Lexed) (hlx : lexTL2 tx = .ok lx) (herr : lx.err = none)
    (hadj : NoWSAfterColon lx.toks) (hwf : File.wf f = true) (hm : strip lx.toks = fileToks f ++ [eofTK]) :
    ∃ f', parseTL2File tx = .ok (.ok f') ∧ f'.map Comb.core = f.map Comb.core := by
  obtain ⟨lx', hlx', hrec, hok, _⟩ := lexTL2_spec tx
  rw [hlx] at hlx'
  injection hlx' with hlx'
  subst hlx'
  obtain ⟨h1, h2, h3⟩ := hok herr
  have hwft := lexTL2_wf tx lx hlx herr
  have hctx : Ctx tx.length tx lx.toks := ⟨h3, hwft, h2, rfl⟩
  have hlen : (fileToks f).length + 1 ≤ lx.toks.length := by
    have := strip_len lx.toks
    rw [hm] at this
    simpa using this
  have hneed : ∀ c ∈ f, c.need ≤ fuelFor lx.toks := by
    intro c hc
    have hcw : c.decl.wf = true := (List.all_eq_true.mp hwf) c hc
    have := combNeed_le c hcw
    have := combToks_len_le_file f c hc
    simp only [fuelFor]
    omega
  obtain ⟨f', e, hcore⟩ := fileS hctx hadj (fuelFor lx.toks) f hwf hneed lx.toks (List.suffix_refl _) (fuelFor lx.toks) [] hm
    (by have := file_len_le f; simp only [fuelFor]; omega)
  refine ⟨f', ?_, hcore⟩
  unfold parseTL2File
  rw [hlx]
  have hr : (recombine lx.all lx.rest != tx) = false := by simp [hrec]
  simp only [herr, hr, Bool.false_eq_true, ↓reduceIte]
  simpa using e

/-- decidable form of `NoWSAfterColon` -/
def noWSAfterColonB : Iter → Bool
  | a :: b :: l => (a.ty != T.colon || !isWS b) && noWSAfterColonB (b :: l)
  | _ => true

theorem noWSAfterColonB_sound : ∀ (its : Iter), noWSAfterColonB its = true → NoWSAfterColon its := by
  intro its
  induction its with
  | nil => intro _ a b l hs; have := List.suffix_nil.mp hs; cases this
  | cons x xs ih =>
    intro h a b l hs hty
    rcases List.suffix_cons_iff.mp hs with h1 | h1
    · cases xs with
      | nil => injection h1 with _ h2; cases h2
      | cons y ys =>
        injection h1 with h2 h3
        injection h3 with h4 h5
        subst h2; subst h4
        simp only [noWSAfterColonB, Bool.and_eq_true, Bool.or_eq_true, bne_iff_ne, ne_eq, Bool.not_eq_true'] at h
        rcases h.1 with h6 | h6
        · exact absurd hty h6
        · exact h6
    · cases xs with
      | nil => have := List.suffix_nil.mp h1; cases this
      | cons y ys =>
        simp only [noWSAfterColonB, Bool.and_eq_true] at h
        exact ih h.2 a b l h1 hty

/-- The per-instance **lexing certificate** of C22: the text printed for `f` with options `o` lexes without error to
exactly the token sequence of `f` (white space and comments aside), and no white space follows a `:`. Decidable;
checks/C22.py evaluates it (in the model) for every file and both option sets it explores. -/
def lexCert (tx : Bytes) (f : File) : Bool :=
  match lexTL2 tx with
  | .ok lx => lx.err.isNone && strip lx.toks == fileToks f ++ [eofTK] && noWSAfterColonB lx.toks
  | _ => false

theorem parse_of_lexCert (tx : Bytes) (f : File) (hwf : File.wf f = true) (hc : lexCert tx f = true) :
    ∃ f', parseTL2File tx = .ok (.ok f') ∧ f'.map Comb.core = f.map Comb.core := by
  unfold lexCert at hc
  cases hl : lexTL2 tx with
  | ok lx =>
    rw [hl] at hc
    simp only [Bool.and_eq_true, beq_iff_eq] at hc
    have herr : lx.err = none := by
      cases h : lx.err with
      | none => rfl
      | some e => rw [h] at hc; simp at hc
    exact parse_of_printed_tokens tx f lx hl herr (noWSAfterColonB_sound _ hc.2) hwf hc.1.2
  | panic => rw [hl] at hc; cases hc
  | nofuel => rw [hl] at hc; cases hc

end TLVerif.Syntaxtl2
