import TLVerif.Syntaxtl2.UnionLemmas
/-! Token-level round trip of struct bodies (`TL2StructTypeDefinition`): field lists and unions, followed by `;`. -/
set_option linter.unusedSimpArgs false
namespace TLVerif.Syntaxtl2
variable {N : Nat} {tx : Bytes} {it : Iter}

/-- `parseTL2UnionType` on the tokens of a (possibly empty) list of named fields followed by `;`: no progress, and not
"failed with variants" — so `parseTL2StructTypeDefinition` falls through to the field list. -/
theorem unionOnFields (hc : Ctx N tx it) (fs : List Field) (hwf : ∀ f ∈ fs, f.wf = true) (its : Iter) (hsuf0 : its <:+ it)
    (ks : List TK) (pos : Pos) (fuel : Nat) (hf : 3 ≤ fuel) (hm : strip its = fieldsToks fs ++ semiTK :: ks) :
    ∃ st rest vs, parseUnionType tx fuel its pos = .ok (st, rest, vs) ∧ st.hasProgress = false ∧
      (st.isFailed && vs.length != 0) = false := by
  -- first token
  obtain ⟨k0, ks0, hk0⟩ : ∃ k0 ks0, fieldsToks fs ++ semiTK :: ks = k0 :: ks0 := by
    cases fs with
    | nil => exact ⟨semiTK, ks, by simp [fieldsToks]⟩
    | cons f fs =>
      obtain ⟨kf, ksf, hkf, _⟩ := fieldToks_head f (hwf f List.mem_cons_self)
      exact ⟨kf, ksf ++ (fieldsToks fs ++ semiTK :: ks), by simp [fieldsToks, hkf]⟩
  rw [hk0] at hm
  obtain ⟨hd, r, e, hnw, htk, hr, hsuf⟩ := skipWS_strip hm
  obtain ⟨cb, hcb, _⟩ := parseCommentBefore_step hc.good hc.tx hsuf0 e
  have hty : hd.ty = k0.1 := by rw [← htk]; rfl
  have hs1 : strip (hd :: r) = k0 :: ks0 := by rw [strip_cons_nw hnw, htk, hr]
  by_cases hvs : variantStart.contains k0.1 = true
  · -- a named, not ignored field: the constructor starts and fails
    have hshape : (k0.1 = T.lcIdent ∨ k0.1 = T.ucIdent) ∧ ∃ k1 ks1, ks0 = k1 :: ks1 ∧ (k1.1 = T.questionMark ∨ k1.1 = T.colon) := by
      cases fs with
      | nil =>
        simp only [fieldsToks, List.map_nil, List.flatten_nil, List.nil_append, List.cons.injEq] at hk0
        rw [← hk0.1] at hvs; exact absurd hvs (by decide)
      | cons f fs =>
        have hwf1 := hwf f List.mem_cons_self
        simp only [Field.wf, Bool.and_eq_true] at hwf1
        have hnb : (f.name != []) = true := hwf1.1.1
        simp only [fieldsToks, List.map_cons, List.flatten_cons, fieldToks, hnb, ↓reduceIte, List.append_assoc,
          List.singleton_append, List.cons_append, List.nil_append, List.cons.injEq] at hk0
        obtain ⟨h1, h2⟩ := hk0
        have hk01 : k0.1 = fieldNameTy f := by rw [← h1]
        constructor
        · rw [hk01] at hvs ⊢
          unfold fieldNameTy at hvs ⊢
          cases hi : f.ignored with
          | true => rw [hi] at hvs; simp only [↓reduceIte] at hvs; split at hvs <;> exact absurd hvs (by decide)
          | false => simp only [Bool.false_eq_true, ↓reduceIte]; exact identTy_mem f.name
        · cases ho : f.optional with
          | true => rw [ho] at h2; exact ⟨_, _, h2.symm, Or.inl rfl⟩
          | false => rw [ho] at h2; exact ⟨_, _, h2.symm, Or.inr rfl⟩
    obtain ⟨hk0ty, k1, ks1, hks0, hk1⟩ := hshape
    rw [hks0] at hs1
    have hnvb : (hd.ty == T.verticalBar) = false := by rw [hty]; rcases hk0ty with h | h <;> rw [h] <;> decide
    obtain ⟨er, rest, v, ec, t2, ht2⟩ := constructorFailsOnField hc (hd :: r) (hsuf.trans hsuf0) k0 k1 ks1 pos fuel hf hs1 hk0ty hk1
    refine ⟨{ start := true, err := some (errTok t2 pos) }, rest, [], ?_, ?_, ?_⟩
    · unfold parseUnionType
      simp only [e, Res.ok_bind, hcb, expect_nw hnw, hnvb, Bool.false_eq_true, ↓reduceIte, ec, OState.isFailed, Option.isSome,
        Bool.and_self, ht2, Res.pure_eq, OState.failWith]
    · rfl
    · rfl
  · -- `;` or an ignored field: the constructor is omitted
    have hvs' : variantStart.contains hd.ty = false := by rw [hty]; simpa using hvs
    have hnvb : (hd.ty == T.verticalBar) = false := by
      rw [hty]
      cases fs with
      | nil =>
        simp only [fieldsToks, List.map_nil, List.flatten_nil, List.nil_append, List.cons.injEq] at hk0
        rw [← hk0.1]; decide
      | cons f fs =>
        obtain ⟨kf, ksf, hkf, hmem⟩ := fieldToks_head f (hwf f List.mem_cons_self)
        simp only [fieldsToks, List.map_cons, List.flatten_cons, hkf, List.cons_append, List.cons.injEq] at hk0
        rw [← hk0.1]
        simp only [fieldStart, List.mem_cons, List.not_mem_nil, or_false] at hmem
        rcases hmem with h | h | h | h <;> rw [h] <;> decide
    refine ⟨{ start := false }, its, [Variant.mk [] (.fields []) cb], ?_, ?_, ?_⟩
    · unfold parseUnionType parseUnionConstructor
      simp only [e, Res.ok_bind, hcb, expect_nw hnw, hnvb, Bool.false_eq_true, ↓reduceIte, skipWS_nw hnw, checkAny_nw hnw,
        show [T.ucIdent, T.lcIdent, T.tl2typeSign] = variantStart from rfl, hvs', Bool.not_false, front_cons, Res.pure_eq,
        OState.isFailed, Bool.false_and, OState.isOmitted, OState.inherit, Bool.or_self, Bool.not_true]
    · rfl
    · rfl

def StructDef.toks : StructDef → List TK
  | .fields fs => fieldsToks fs
  | .union [] => []
  | .union (v :: vs) => variantToks v ++ moreVariantsToks vs

def StructDef.wf : StructDef → Bool
  | .fields fs => fs.all Field.wf
  | .union vs => decide (2 ≤ vs.length) && vs.all Variant.wf

def StructDef.need : StructDef → Nat
  | .fields fs => needFields fs + 3
  | .union vs => needVariants vs + 3

/-- `parseTL2StructTypeDefinition` recovers a well-formed struct body followed by `;`. -/
theorem structS (hc : Ctx N tx it) (sd : StructDef) (hwf : sd.wf = true) (its : Iter) (hsuf0 : its <:+ it) (ks : List TK)
    (pos : Pos) (fuel : Nat) (hm : strip its = sd.toks ++ semiTK :: ks) (hf : sd.need ≤ fuel) :
    ∃ st rest sd', parseStructDef tx fuel its pos = .ok (st, rest, sd') ∧ st.err = none ∧ sd'.core = sd.core ∧
      strip rest = semiTK :: ks ∧ rest <:+ its := by
  have hne : ∃ t, front its = .ok t := by
    cases hh : sd.toks ++ semiTK :: ks with
    | nil => simp at hh
    | cons k0 ks0 => rw [hh] at hm; exact front_strip hm
  obtain ⟨t0, ht0⟩ := hne
  cases sd with
  | fields fs =>
    simp only [StructDef.wf, StructDef.toks, StructDef.need] at hwf hm hf
    have hwfs : ∀ f ∈ fs, f.wf = true := fun f hf => (List.all_eq_true.mp hwf) f hf
    have hneed := needFields_ge fs
    obtain ⟨st, r1, vs, eu, hnp, hnf⟩ := unionOnFields hc fs hwfs its hsuf0 ks pos fuel (by omega) hm
    obtain ⟨rest, fs', efs, hcore, hrest, hsr⟩ := fieldsS hc pos fuel fs hwfs (fun g hg => by have := hneed.2 g hg; omega)
      its hsuf0 semiTK ks fuel [] false hm (by decide) (by decide) (by omega)
    obtain ⟨t1, ht1⟩ := front_strip hrest
    cases fs with
    | nil =>
      refine ⟨{ start := false }, its, .fields fs', ?_, rfl, by simp [StructDef.core, hcore], by simpa [fieldsToks] using hm,
        List.suffix_refl _⟩
      unfold parseStructDef parseFields
      simp only [ht0, Res.ok_bind, eu, hnp, Bool.false_eq_true, ↓reduceIte, hnf, efs]
      simp only [OState.isFailed, Option.isSome,
        Bool.and_false, List.nil_append, ht1, Res.pure_eq, List.isEmpty_nil, Bool.not_true, Bool.or_self, OState.hasProgress,
        Bool.false_and, Bool.false_eq_true, ↓reduceIte, Res.ok_bind]
    | cons f fs =>
      refine ⟨{ start := true }, rest, .fields fs', ?_, rfl, by simp [StructDef.core, hcore], hrest, hsr⟩
      unfold parseStructDef parseFields
      simp only [ht0, Res.ok_bind, eu, hnp, Bool.false_eq_true, ↓reduceIte, hnf, efs]
      simp only [OState.isFailed, Option.isSome,
        Bool.and_false, List.nil_append, ht1, Res.pure_eq, List.isEmpty_cons, Bool.not_false, Bool.or_true, OState.hasProgress,
        Option.isNone, Bool.and_self, Bool.false_eq_true, ↓reduceIte, Res.ok_bind]
  | union vs =>
    simp only [StructDef.wf, Bool.and_eq_true, decide_eq_true_eq] at hwf
    simp only [StructDef.need] at hf
    have hwfs : ∀ v ∈ vs, v.wf = true := fun v hv => (List.all_eq_true.mp hwf.2) v hv
    have hneed := needVariants_ge vs
    match vs, hwf, hm, hwfs, hneed, hf with
    | v1 :: v2 :: vs', _, hm, hwfs, hneed, hf =>
      simp only [StructDef.toks, List.append_assoc] at hm
      obtain ⟨rest, vs'', eu, hcore, hrest, hsr⟩ := unionS hc v1 v2 vs' hwfs its hsuf0 ks pos fuel hm
        (fun g hg => by have := hneed.2 g hg; omega) (by simp only [List.length_cons] at hneed ⊢; omega)
      obtain ⟨t1, ht1⟩ := front_strip hrest
      refine ⟨{ start := true }, rest, .union vs'', ?_, rfl, by simp only [StructDef.core, hcore], hrest, hsr⟩
      unfold parseStructDef
      simp only [ht0, Res.ok_bind, eu, OState.hasProgress, Option.isNone, Bool.and_self, ↓reduceIte, ht1, Res.pure_eq]
    | [_], hwf, _, _, _, _ => simp at hwf
    | [], hwf, _, _, _, _ => simp at hwf

end TLVerif.Syntaxtl2
