import TLVerif.Syntaxtl2.Lexer
import TLVerif.Syntaxtl2.Ast
import TLVerif.Syntaxtl2.Text
/-! Model of internal/tlast/tlparser_tl2_code.go (OptionalState parser combinators), the `tokenIterator` of
tlparser_code.go and tlparser_comments.go, written the way the Go code is written.

* The iterator `tokenIterator{tokens, offset}` is the list of remaining tokens; `front()` / `popFront()` on an
  exhausted iterator (`tokens[offset]` out of range) is `.panic`; every `front()` the Go code evaluates (also the
  ones only used for position ranges) is kept as a bounds check.
* Slicing `fileContent[a:b]`, `val[1:]`, `value[:dotIndex]` with bad bounds is `.panic`, `log.Panicf`/`panic` too.
* Recursion of the Go code is bounded by an explicit `fuel` (structural recursion); `.nofuel` is proved unreachable
  for the fuel `ParseTL2File` starts with (ParserLemmas: this is the termination proof).
* Position ranges of AST nodes are not modelled (only the ones in errors). -/
namespace TLVerif.Syntaxtl2

structure OState where
  start : Bool := false
  err : Option PErr := none
deriving Repr, Inhabited, DecidableEq

namespace OState
def inherit (s o : OState) : OState :=
  { start := s.start || o.start, err := match s.err with | none => o.err | some e => some e }
def failWith (s : OState) (e : PErr) : OState :=
  { start := true, err := match s.err with | none => some e | some e0 => some e0 }
/-- `FailWithError(e)` with a possibly nil `e` (used with `localState.Error`). -/
def failWithOpt (s : OState) (e : Option PErr) : OState :=
  { start := true, err := match s.err with | none => e | some e0 => some e0 }
def hasProgress (s : OState) : Bool := s.start && s.err.isNone
def isFailed (s : OState) : Bool := s.start && s.err.isSome
def isOmitted (s : OState) : Bool := !s.start
/-- `ExpectProgress(orError)`: result and the mutated receiver. -/
def expectProgress (s : OState) (e : PErr) : Bool × OState :=
  if s.hasProgress then (true, s) else if s.isOmitted then (false, s.failWith e) else (false, s)
end OState

abbrev Iter := List Token

def front : Iter → Res Token
  | [] => .panic
  | t :: _ => .ok t

def popFront : Iter → Res (Token × Iter)
  | [] => .panic
  | t :: ts => .ok (t, ts)

def isWS (t : Token) : Bool :=
  t.ty == T.comment || t.ty == T.whiteSpace || t.ty == T.tab || t.ty == T.newLine

/-- `skipWS`: the iterator after it (the returned range begins at `front` of it). Exhausting the tokens is
`log.Panicf("tokenizer invariant failed, no eof token")`. -/
def skipWS : Iter → Res Iter
  | [] => .panic
  | t :: ts => if isWS t then skipWS ts else .ok (t :: ts)

/-- `skipToNewline`. -/
def skipToNewline : Iter → Bool × Iter
  | [] => (false, [])
  | t :: ts =>
    if t.ty == T.comment || t.ty == T.whiteSpace || t.ty == T.tab then skipToNewline ts
    else if t.ty == T.newLine || t.ty == T.eof then (true, t :: ts)
    else (false, t :: ts)

/-- `checkToken(i₁) || checkToken(i₂) || …` (each call skips white space first; the later calls find it skipped). -/
def checkAny (it : Iter) (tys : List Int) : Res (Bool × Iter) := do
  let it ← skipWS it
  let t ← front it
  pure (tys.contains t.ty, it)

def checkToken (it : Iter) (ty : Int) : Res (Bool × Iter) := checkAny it [ty]

def expect (it : Iter) (ty : Int) : Res (Bool × Iter) := do
  let (b, it) ← checkToken it ty
  if b then
    let (_, it) ← popFront it
    pure (true, it)
  else pure (false, it)

def expectLazy (it : Iter) (ty : Int) : Res (Bool × Iter) := do
  let (b, it2) ← expect it ty
  if b then pure (true, it2) else pure (false, it)

/-- loop of `parseCommentBefore`: returns the final `begin`. `it.offset < end.offset` is `it.length > endLen`. -/
def commentBeforeLoop (endLen : Nat) : Iter → Iter → Bool → Res Iter
  | [], begin, _ => if 0 > endLen then .panic else .ok begin
  | t :: ts, begin, nonWS =>
    if (t :: ts).length > endLen then
      if t.ty == T.comment then commentBeforeLoop endLen ts begin true
      else if t.ty == T.newLine then commentBeforeLoop endLen ts (if !nonWS then ts else begin) false
      else if t.ty == T.whiteSpace || t.ty == T.tab then commentBeforeLoop endLen ts begin nonWS
      else .panic
    else .ok begin

def parseCommentBefore (tx : Bytes) (begin end_ : Iter) : Res Bytes := do
  let b ← commentBeforeLoop end_.length begin begin false
  let tb ← front b
  let te ← front end_
  let s ← slice tx tb.pos.off te.pos.off
  pure (trimSpace s)

def parseCommentRight (tx : Bytes) (begin end_ : Iter) : Res Bytes := do
  let tb ← front begin
  let te ← front end_
  let s ← slice tx tb.pos.off te.pos.off
  pure (trimSpace s)


/-- `zeroOrMore(parser)`; `acc`/`start` are the loop state. -/
def zeroOrMore {α : Type} (p : Iter → Pos → Res (OState × Iter × α)) : Nat → Iter → Pos → List α → Bool → Res (OState × Iter × List α)
  | 0, _, _, _, _ => .nofuel
  | f + 1, rest, pos, acc, start => do
    let (ls, rest, el) ← p rest pos
    let start := start || ls.start
    if !ls.hasProgress then pure ({ start := start, err := ls.err }, rest, acc)
    else zeroOrMore p f rest pos (acc ++ [el]) start

/-- `parseTL2Annotation`. -/
def parseAnnotation (tokens : Iter) (_pos : Pos) : Res (OState × Iter × Bytes) := do
  let rest ← skipWS tokens
  let (b, rest) ← checkToken rest T.annotation
  if !b then
    let _ ← front rest
    pure ({ start := false }, rest, [])
  else
    let (cur, rest) ← popFront rest
    if cur.val.length < 1 then .panic else
    let _ ← front rest
    let _ ← front rest
    pure ({ start := true }, rest, cur.val.drop 1)

/-- `parseTL2TypeName`. -/
def parseTypeName (tokens : Iter) (_pos : Pos) : Res (OState × Iter × TName) := do
  let (b1, rest) ← checkAny tokens [T.lcIdent, T.ucIdent]
  if b1 then
    let (t, rest) ← popFront rest
    pure ({ start := true }, rest, { ns := [], name := t.val })
  else
    let (b2, rest) ← checkAny rest [T.lcIdentNS, T.ucIdentNS]
    if b2 then
      let (t, rest) ← popFront rest
      let i := spanLen (fun c => c.toNat != 46) t.val
      if i < t.val.length then
        pure ({ start := true }, rest, { ns := t.val.take i, name := t.val.drop (i + 1) })
      else .panic -- strings.Index == -1, value[:-1]
    else pure ({ start := false }, rest, { ns := [], name := [] })

def maxU32 : Nat := 4294967295

mutual
/-- `parseTL2Type`. -/
def parseType : Nat → Iter → Pos → Res (OState × Iter × TypeRef)
  | 0, _, _ => .nofuel
  | f + 1, tokens, pos => do
    let rest ← skipWS tokens
    let (st, rest, app) ← parseApp f rest pos
    if !st.start then
      let (st, rest, br) ← parseBracket f rest pos
      let _ ← front rest
      pure (st, rest, if st.start then br else default)
    else
      let _ ← front rest
      pure (st, rest, app)

/-- `parseTL2TypeApplication`. -/
def parseApp : Nat → Iter → Pos → Res (OState × Iter × TypeRef)
  | 0, _, _ => .nofuel
  | f + 1, tokens, pos => do
    let rest ← skipWS tokens
    let _ ← skipWS rest
    let (st, rest, name) ← parseTypeName tokens pos
    if !st.hasProgress then pure (st, rest, .app name [])
    else
      let _ ← front rest
      let (b, rest) ← expectLazy rest T.lAngle
      if b then
        let (argSt, rest, a0) ← parseArg f rest pos
        let tok ← front rest
        let (ok, argSt) := argSt.expectProgress (errTok tok pos)
        if !ok then pure (st.inherit argSt, rest, .app name [a0])
        else
          let (st, rest, args) ← parseArgsLoop f pos st rest [a0]
          pure (st, rest, .app name args)
      else
        let _ ← front rest
        pure (st, rest, .app name [])

/-- the `for { if expect(commaSign) … }` loop of parseTL2TypeApplication, the closing bracket and the final `front()`. -/
def parseArgsLoop : Nat → Pos → OState → Iter → List TypeArg → Res (OState × Iter × List TypeArg)
  | 0, _, _, _, _ => .nofuel
  | f + 1, pos, st, rest, acc => do
    let (cm, rest) ← expect rest T.commaSign
    if cm then
      let (argSt, rest, a) ← parseArg f rest pos
      let tok ← front rest
      let (ok, argSt) := argSt.expectProgress (errTok tok pos)
      if !ok then pure (st.inherit argSt, rest, acc ++ [a])
      else parseArgsLoop f pos st rest (acc ++ [a])
    else
      let (ra, rest) ← expect rest T.rAngle
      if !ra then
        let tok ← front rest
        pure (st.failWith (errTok tok pos), rest, acc)
      else
        let _ ← front rest
        pure (st, rest, acc)

/-- `parseTL2BracketType`. -/
def parseBracket : Nat → Iter → Pos → Res (OState × Iter × TypeRef)
  | 0, _, _ => .nofuel
  | f + 1, tokens, pos => do
    let rest ← skipWS tokens
    let (b, rest) ← expectLazy rest T.lSquare
    if b then
      let st : OState := { start := true }
      let (ist, rest, idx) ← parseArg f rest pos
      let index := if ist.isOmitted then none else some idx
      let st := st.inherit ist
      if !st.hasProgress then pure (st, rest, .bracket index default)
      else
        let (rb, rest) ← expect rest T.rSquare
        if !rb then
          let tok ← front rest
          pure (st.failWith (errTok tok pos), rest, .bracket index default)
        else
          let (ast, rest, elem) ← parseType f rest pos
          let tok ← front rest
          let (ok, ast) := ast.expectProgress (errTok tok pos)
          if !ok then pure (st.inherit ast, rest, .bracket index elem)
          else
            let _ ← front rest
            pure (st, rest, .bracket index elem)
    else
      let _ ← front rest
      pure ({ start := false }, rest, .bracket none default)

/-- `parseTL2TypeArgument`. -/
def parseArg : Nat → Iter → Pos → Res (OState × Iter × TypeArg)
  | 0, _, _ => .nofuel
  | f + 1, tokens, pos => do
    let rest ← skipWS tokens
    let (b, rest) ← checkToken rest T.number
    if b then
      let (t, rest) ← popFront rest
      let _ ← front rest
      match parseUint32 10 t.val with
      | some v => pure ({ start := true }, rest, .num v)
      | none => pure ({ start := true, err := some (errTok t pos) }, rest, .num maxU32)
    else
      let (st, rest, ty) ← parseType f rest pos
      let _ ← front rest
      pure (st, rest, .ty ty)
end

/-- `parseTL2Field` (the `defer` resets the iterator when processing did not start). -/
def parseField (tx : Bytes) (fuel : Nat) (tokens : Iter) (pos : Pos) : Res (OState × Iter × Field) := do
  let rest ← skipWS tokens
  let cb ← parseCommentBefore tx tokens rest
  let fin (st : OState) (rest : Iter) (r : Field) : Res (OState × Iter × Field) :=
    pure (st, if st.start then rest else tokens, r)
  let (b, rest) ← checkAny rest [T.lcIdent, T.underscore, T.ucIdent, T.tl2depName]
  if !b then
    let _ ← front rest
    fin {} rest { (default : Field) with cb := cb }
  else
    let rest ← skipWS rest
    let (nameTok, rest) ← popFront rest
    let ignored := nameTok.ty == T.underscore || nameTok.ty == T.tl2depName
    let _ ← front rest
    let (q, rest) ← expect rest T.questionMark
    let r0 : Field := { name := nameTok.val, optional := false, ignored := ignored, ty := default, cb := cb, cr := [] }
    if q && ignored then
      let tok ← front rest
      let _ ← front rest
      fin (({} : OState).failWith (errTok tok pos)) rest r0
    else
      let st : OState := { start := q }
      let r1 := { r0 with optional := q }
      let (c, rest) ← expect rest T.colon
      if !c then
        if st.start then
          let tok ← front rest
          let _ ← front rest
          fin (st.failWith (errTok tok pos)) rest r1
        else
          let _ ← front rest
          fin { st with start := false } rest r1
      else
        let st := { st with start := true }
        let (ls, rest, ty) ← parseType fuel rest pos
        let tok ← front rest
        let (ok, ls) := ls.expectProgress (errTok tok pos)
        let r2 := { r1 with ty := ty }
        if !ok then fin (st.inherit ls) rest r2
        else
          let commentStart := rest
          let (nl, rest) := skipToNewline rest
          let cr ← (if nl then parseCommentRight tx commentStart rest else pure [])
          let _ ← front rest
          fin st rest { r2 with cr := cr }

def parseFields (tx : Bytes) (fuel : Nat) (tokens : Iter) (pos : Pos) : Res (OState × Iter × List Field) :=
  zeroOrMore (parseField tx fuel) fuel tokens pos [] false

/-- `parseTL2UnionConstructor`. -/
def parseUnionConstructor (tx : Bytes) (fuel : Nat) (tokens : Iter) (pos : Pos) : Res (OState × Iter × Variant) := do
  let rest ← skipWS tokens
  let (b, rest) ← checkAny rest [T.ucIdent, T.lcIdent, T.tl2typeSign]
  if !b then
    let _ ← front rest
    pure ({}, rest, { name := [], body := .fields [], cb := [] })
  else
    let st : OState := { start := true }
    let rest ← skipWS rest
    let (t, rest) ← popFront rest
    let _ ← front rest
    let (sc, _) ← checkAny rest [T.semiColon, T.verticalBar]
    if sc then
      let _ ← front rest
      pure (st, rest, { name := t.val, body := .fields [], cb := [] })
    else
      let saved := rest
      let (fs, rest, fields) ← parseFields tx fuel rest pos
      let st := st.inherit fs
      if fs.start then
        let _ ← front rest
        pure (st, rest, { name := t.val, body := .fields fields, cb := [] })
      else
        let (as_, rest, alias) ← parseType fuel rest pos
        let st := st.inherit as_
        if as_.isOmitted then
          let (cq, rest) ← checkAny rest [T.colon, T.questionMark]
          if cq then
            let tok ← front rest
            pure (st.failWith (errTok tok pos), rest, { name := t.val, body := .alias alias, cb := [] })
          else
            let _ ← front saved
            pure (st, saved, { name := t.val, body := .fields fields, cb := [] })
        else
          let _ ← front rest
          pure (st, rest, { name := t.val, body := .alias alias, cb := [] })

/-- the `for { … expect(verticalBar) … }` loop of parseTL2UnionType. Returns `(state, rest, variants, returned)`,
`returned` = the Go code executed `return` inside the loop. -/
def parseVariantsLoop (tx : Bytes) (fuel : Nat) (pos : Pos) :
    Nat → OState → Iter → List Variant → Res (OState × Iter × List Variant × Bool)
  | 0, _, _, _ => .nofuel
  | f + 1, st, rest, acc => do
    let beforeVB := rest
    let rightBeforeVB ← skipWS rest
    let (vb, rest) ← expect rest T.verticalBar
    if !vb then pure (st, rest, acc, false)
    else
      let cb ← parseCommentBefore tx beforeVB rightBeforeVB
      let st := { st with start := true }
      let (ls, rest, v) ← parseUnionConstructor tx fuel rest pos
      let acc := acc ++ [{ v with cb := cb }]
      let st := st.inherit ls
      let tok ← front rest
      let (ok, ls) := ls.expectProgress (errTok tok pos)
      if !ok then pure (st.failWithOpt ls.err, rest, acc, true)
      else parseVariantsLoop tx fuel pos f st rest acc

/-- `parseTL2UnionType` (the `defer` resets the iterator when processing did not start). -/
def parseUnionType (tx : Bytes) (fuel : Nat) (tokens : Iter) (pos : Pos) : Res (OState × Iter × List Variant) := do
  let rest ← skipWS tokens
  let cb ← parseCommentBefore tx tokens rest
  let fin (st : OState) (rest : Iter) (r : List Variant) : Res (OState × Iter × List Variant) :=
    pure (st, if st.start then rest else tokens, r)
  let (mono, rest) ← expect rest T.verticalBar
  let st : OState := { start := mono }
  let (ls, rest, constr) ← parseUnionConstructor tx fuel rest pos
  if ls.isFailed then
    let tok ← front rest
    fin (st.failWith (errTok tok pos)) rest []
  else if st.start && ls.isOmitted then
    let tok ← front rest
    fin (st.failWith (errTok tok pos)) rest []
  else
    let variants := [{ constr with cb := cb }]
    let st := st.inherit ls
    if !st.start then fin st rest variants
    else
      let (st, rest, variants, returned) ← parseVariantsLoop tx fuel pos fuel st rest variants
      if returned then fin st rest variants
      else if st.isFailed then fin st rest variants
      else if variants.length < 1 then
        let tok ← front rest
        let _ ← front rest
        fin (st.failWith (errTok tok pos)) rest variants
      else if variants.length == 1 && !mono then
        let tok ← front rest
        let _ ← front rest
        fin (st.failWith (errTok tok pos)) rest variants
      else
        let _ ← front rest
        fin st rest variants

/-- `parseTL2StructTypeDefinition` (the `defer` resets the iterator when there is no progress). -/
def parseStructDef (tx : Bytes) (fuel : Nat) (tokens : Iter) (pos : Pos) : Res (OState × Iter × StructDef) := do
  let _ ← front tokens
  let fin (st : OState) (rest : Iter) (r : StructDef) : Res (OState × Iter × StructDef) :=
    pure (st, if st.hasProgress then rest else tokens, r)
  let (st, rest, variants) ← parseUnionType tx fuel tokens pos
  if st.hasProgress then
    let _ ← front rest
    fin st rest (.union variants)
  else if st.isFailed && variants.length != 0 then fin st rest (.fields [])
  else
    let (fs, rest, fields) ← parseFields tx fuel tokens pos
    if fs.isFailed then
      let _ ← front tokens
      fin { st with err := fs.err } tokens (.fields fields)
    else
      let _ ← front rest
      fin fs rest (.fields fields)

/-- the `crc32hash` prefix shared by the type and function declarations: `(failed state or none, rest, magic)`. -/
def parseMagic (rest : Iter) (pos : Pos) : Res (Option OState × Iter × Nat) := do
  let rest ← skipWS rest
  let (crcTok, rest) ← popFront rest
  if crcTok.val.length < 1 then .panic else
  match parseUint32 16 (crcTok.val.drop 1) with
  | none => pure (some (({} : OState).failWith (errTok crcTok pos)), rest, 0)
  | some v =>
    if v == 0 then pure (some (({} : OState).failWith (errTok crcTok pos)), rest, 0)
    else
      let _ ← front rest
      pure (none, rest, v)

/-- `parseTL2TypeArgumentDeclaration`. -/
def parseTemplArg (tokens : Iter) (pos : Pos) : Res (OState × Iter × Templ) := do
  let st : OState := { start := true }
  let rest ← skipWS tokens
  let (b, rest) ← checkAny rest [T.lcIdent, T.ucIdent]
  if !b then
    let _ ← front rest
    pure ({ st with start := false }, rest, default)
  else
    let nameTok ← front rest
    let rest ← skipWS rest
    let (_, rest) ← popFront rest
    let _ ← front rest
    let (c, rest) ← expect rest T.colon
    if !c then
      let tok ← front rest
      let _ ← front rest
      pure (st.failWith (errTok tok pos), rest, { name := nameTok.val, isNat := false })
    else
      let fr ← front rest
      if !(fr.ty == T.numberSign || fr.val == typeWord) then
        let tok ← front rest
        pure (st.failWith (errTok tok pos), rest, { name := nameTok.val, isNat := false })
      else
        let rest ← skipWS rest
        let _ ← front rest
        let (_, rest) ← popFront rest
        let _ ← front rest
        pure (st, rest, { name := nameTok.val, isNat := fr.ty == T.numberSign })

/-- the `for { if expect(commaSign) … }` loop over template arguments: `(state, rest, templs, returned)`. -/
def parseTemplLoop (pos : Pos) : Nat → OState → Iter → List Templ → Res (OState × Iter × List Templ × Bool)
  | 0, _, _, _ => .nofuel
  | f + 1, st, rest, acc => do
    let (cm, rest) ← expect rest T.commaSign
    if !cm then pure (st, rest, acc, false)
    else
      let (ls, rest, t) ← parseTemplArg rest pos
      let tok ← front rest
      let (ok, ls) := ls.expectProgress (errTok tok pos)
      if !ok then pure (st.inherit ls, rest, acc, true)
      else parseTemplLoop pos f st rest (acc ++ [t])

/-- `parseTL2TypeDeclarationWithoutName`. -/
def parseTypeDecl (tx : Bytes) (fuel : Nat) (tokens : Iter) (pos : Pos) (name : TName) : Res (OState × Iter × TypeDecl) := do
  let rest ← skipWS tokens
  let (c, rest) ← checkToken rest T.crc32hash
  let (failed, rest, magic) ← (if c then parseMagic rest pos else pure (none, rest, 0))
  let r0 : TypeDecl := { name := name, magic := magic, templs := [], ty := .struct (.fields []) }
  match failed with
  | some st => pure (st, rest, r0)
  | none =>
  -- switch
  let (la, rest) ← expect rest T.lAngle
  let (st, rest, templs, returned) ←
    (if la then do
      let st : OState := { start := true }
      let (ls, rest, t0) ← parseTemplArg rest pos
      let st := st.inherit ls
      let tok ← front rest
      let (ok, ls) := ls.expectProgress (errTok tok pos)
      if !ok then pure (st.inherit ls, rest, [t0], true)
      else
        let (st, rest, templs, returned) ← parseTemplLoop pos fuel st rest [t0]
        if returned then pure (st, rest, templs, true)
        else
          let (ra, rest) ← expect rest T.rAngle
          if !ra then
            let tok ← front rest
            pure (st.failWith (errTok tok pos), rest, templs, true)
          else pure (st, rest, templs, false)
    else do
      let (b, rest) ← checkAny rest [T.lCurly, T.lRound, T.lSquare]
      if b then
        let tok ← front rest
        pure ((({} : OState).failWith (errTok tok pos)), rest, [], true)
      else pure (({} : OState), rest, [], false) : Res (OState × Iter × List Templ × Bool))
  let r1 := { r0 with templs := templs }
  if returned then pure (st, rest, r1)
  else
    let (eq, rest) ← expect rest T.equalSign
    let (al, rest) ← (if eq then pure (false, rest) else expect rest T.tl2alias : Res (Bool × Iter))
    if !eq && !al then pure (st, tokens, r1)
    else
      let st := { st with start := true }
      if al then
        let (ls, rest, ty) ← parseType fuel rest pos
        let tok ← front rest
        let (ok, ls) := ls.expectProgress (errTok tok pos)
        if !ok then pure (st.inherit ls, rest, { r1 with ty := .alias ty })
        else
          let _ ← front rest
          pure (st, rest, { r1 with ty := .alias ty })
      else
        let (ls, rest, sd) ← parseStructDef tx fuel rest pos
        let st := st.inherit ls
        let _ ← front rest
        pure (st, rest, { r1 with ty := .struct sd })

/-- `parseTL2FuncDeclarationWithoutName`. -/
def parseFuncDecl (tx : Bytes) (fuel : Nat) (tokens : Iter) (pos : Pos) (name : TName) : Res (OState × Iter × FuncDecl) := do
  let rest ← skipWS tokens
  let (c, rest) ← checkToken rest T.crc32hash
  let r0 : FuncDecl := { name := name, magic := 0, args := [], ret := .struct (.fields []) }
  if !c then
    let tok ← front tokens
    pure ((({} : OState).failWith (errTok tok pos)), rest, r0)
  else
  let (failed, rest, magic) ← parseMagic rest pos
  match failed with
  | some st => pure (st, rest, r0)
  | none =>
  let r0 := { r0 with magic := magic }
  let (st, rest, args) ← parseFields tx fuel rest pos
  let r1 := { r0 with args := args }
  if st.isFailed then pure (st, rest, r1)
  else
    let (fs, rest) ← expect rest T.functionSign
    if !fs then
      let _ ← front rest
      pure (st, rest, r1)
    else
      let st := { st with start := true }
      let (al, rest) ← checkToken rest T.tl2alias
      if al then
        let (_, rest) ← popFront rest
        let (ls, rest, ty) ← parseType fuel rest pos
        let st := st.inherit ls
        let r2 := { r1 with ret := .alias ty }
        if !ls.hasProgress then pure (st, rest, r2)
        else
          let _ ← front rest
          pure (st, rest, r2)
      else
        let (ls, rest, sd) ← parseStructDef tx fuel rest pos
        if !ls.hasProgress then
          let (ts, rest, ref) ← parseType fuel rest pos
          if ts.isFailed then pure (st.inherit ts, rest, { r1 with ret := .struct sd })
          else if ts.isOmitted && ls.isFailed then
            let tok ← front rest
            pure ((st.inherit ls).failWith (errTok tok pos), rest, { r1 with ret := .struct sd })
          else
            let sd := if ts.start then
              StructDef.fields [{ name := [], optional := false, ignored := false, ty := ref, cb := [], cr := [] }]
              else sd
            let st := { st with start := true }
            let _ ← front rest
            pure (st, rest, { r1 with ret := .struct sd })
        else
          let _ ← front rest
          pure (st, rest, { r1 with ret := .struct sd })

/-- `parseTL2Combinator` after the leading white space was skipped (`rest`), `outer` and the comment were computed. -/
def parseCombinatorBody (tx : Bytes) (fuel : Nat) (rest : Iter) (outer : Pos) (cb : Bytes) :
    Res (Comb × Iter × Option PErr) := do
  let (st, rest, anns) ← zeroOrMore parseAnnotation fuel rest outer [] false
  let dummy : Comb := { anns := [], decl := .type default, cb := [] }
  match st.err with
  | some e => pure (dummy, [], some e)
  | none =>
    let rest ← skipWS rest
    let (st, rest, name) ← parseTypeName rest outer
    let _ ← front rest
    let tok ← front rest
    let (ok, st) := st.expectProgress (errTok tok outer)
    if !ok then pure (dummy, [], st.err)
    else
      let (ts, rest, td) ← parseTypeDecl tx fuel rest outer name
      let st := st.inherit ts
      let (st, rest, decl) ← (if !ts.start then do
          let (fs, rest, fd) ← parseFuncDecl tx fuel rest outer name
          let st := st.inherit fs
          if fs.start then pure (st, rest, Decl.func fd)
          else
            let tok ← front rest
            pure (st.failWith (errTok tok outer), rest, Decl.type td)
        else pure (st, rest, Decl.type td) : Res (OState × Iter × Decl))
      let (sc, rest) ← expect rest T.semiColon
      let st ← (if !sc then do
          let tok ← front rest
          pure (st.failWith (errTok tok outer))
        else pure st : Res OState)
      let _ ← front rest
      pure ({ anns := anns, decl := decl, cb := cb }, rest, st.err)

/-- `parseTL2Combinator`: `(combinator, rest, error)`. -/
def parseCombinator (tx : Bytes) (fuel : Nat) (it : Iter) : Res (Comb × Iter × Option PErr) := do
  let rest ← skipWS it
  let t0 ← front rest
  let cb ← parseCommentBefore tx it rest
  parseCombinatorBody tx fuel rest t0.pos cb

/-- the `for !it.expectLazy(eof)` loop of ParseTL2File. -/
def parseFileLoop (tx : Bytes) (fuel : Nat) : Nat → Iter → List Comb → Res (Except PErr File)
  | 0, _, _ => .nofuel
  | f + 1, it, acc => do
    let (e, _) ← expectLazy it T.eof
    if e then pure (.ok acc)
    else
      let (c, it, err) ← parseCombinator tx fuel it
      match err with
      | some e => pure (.error e)
      | none => parseFileLoop tx fuel f it (acc ++ [c])

/-- fuel `ParseTL2File` starts every recursive descent with (proved sufficient in ParserLemmas). -/
def fuelFor (toks : List Token) : Nat := 3 * toks.length + 20

/-- `ParseTL2File(str, …, LexerOptions{LexerLanguage: TL2})`. -/
def parseTL2File (tx : Bytes) : Res (Except PErr File) :=
  match lexTL2 tx with
  | .panic => .panic
  | .nofuel => .nofuel
  | .ok lx =>
    match lx.err with
    | some e => .ok (.error e)
    | none =>
      if recombine lx.all lx.rest != tx then .panic -- log.Panicf("invariant violation in tokenizer")
      else parseFileLoop tx (fuelFor lx.toks) (fuelFor lx.toks) lx.toks []

end TLVerif.Syntaxtl2
