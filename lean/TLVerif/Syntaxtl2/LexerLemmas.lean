import TLVerif.Syntaxtl2.Lexer
/-! Lemmas about the lexer model: `advance` never slices out of range, the loop terminates within `len(s)+1`
iterations, tokens recombine to the input, token positions are contiguous, ordered and inside the text, the `eof`
token is last and unique. -/
namespace TLVerif.Syntaxtl2

theorem spanLen_le (p : UInt8 → Bool) (s : Bytes) : spanLen p s ≤ s.length := by
  induction s with
  | nil => simp [spanLen]
  | cons c t ih => simp only [spanLen]; split <;> simp <;> omega

theorem nameIdentLen_le (s : Bytes) : nameIdentLen s ≤ s.length := by
  cases s with
  | nil => simp [nameIdentLen]
  | cons c t =>
    simp only [nameIdentLen]
    have := spanLen_le identChar t
    split <;> simp <;> omega

theorem isPrefixOf_length {a b : Bytes} (h : a.isPrefixOf b = true) : a.length ≤ b.length := by
  have := List.isPrefixOf_iff_prefix.mp h
  exact this.length_le

theorem utf8BadAux_bound (f : Nat) (s : Bytes) (i r : Nat) (h : utf8BadAux f s i = some r) :
    i ≤ r ∧ r < i + s.length := by
  induction f generalizing s i with
  | zero => simp [utf8BadAux] at h
  | succ f ih =>
    cases s with
    | nil => simp [utf8BadAux] at h
    | cons c t =>
      simp only [utf8BadAux] at h
      split at h
      · injection h with h; subst h; simp
      · rename_i sz hsz
        have hpos := utf8Size_pos c t sz hsz
        have := ih _ _ h
        simp only [List.length_drop, List.length_cons] at *
        omega

theorem utf8Bad_bound (s : Bytes) (r : Nat) (h : utf8Bad s 0 = some r) : r < s.length := by
  have := utf8BadAux_bound _ _ _ _ h
  omega

/-- the lengths `advance` is called with fit into the rest of length `n`. -/
def StepOK (n : Nat) : LexStep → Prop
  | .tok _ extra _ => extra + 1 ≤ n
  | .err none extra => extra + 1 ≤ n
  | .err (some pre) extra => pre + extra + 1 ≤ n

theorem lexCR_ok (t : Bytes) : StepOK (t.length + 1) (lexCR t) := by
  simp only [lexCR]; repeat' split
  all_goals simp [StepOK]

theorem lexAt_ok (t : Bytes) : StepOK (t.length + 1) (lexAt t) := by
  have := nameIdentLen_le t
  cases t with
  | nil => simp [lexAt, StepOK, nameIdentLen]
  | cons c1 tl =>
    simp only [lexAt]; repeat' split
    all_goals simp only [StepOK]
    all_goals omega

theorem lexSlash_ok (s : Bytes) (h : 1 ≤ s.length) : StepOK s.length (lexSlash s) := by
  have h5 := spanLen_le (fun x => x.toNat != 13 && x.toNat != 10) s
  simp only [lexSlash]; repeat' split
  all_goals simp only [StepOK]
  · rename_i i hi
    have := utf8Bad_bound _ _ hi
    simp only [List.length_take] at this
    omega
  · omega
  · rename_i h2; have := isPrefixOf_length h2; simp [bs] at this; omega
  · omega

theorem lexSection_ok (s : Bytes) (h : 1 ≤ s.length) : StepOK s.length (lexSection s) := by
  simp only [lexSection]; repeat' split
  all_goals simp only [StepOK]
  · rename_i h2; have := isPrefixOf_length h2; omega
  · rename_i h2; have := isPrefixOf_length h2; omega
  · omega

theorem lexNumberSign_ok (t : Bytes) : StepOK (t.length + 1) (lexNumberSign t) := by
  have := spanLen_le identChar t
  simp only [lexNumberSign]; repeat' split
  all_goals simp only [StepOK]
  all_goals (first | omega | (simp only [List.length_cons] at *; omega))

theorem lexUnderscore_ok (t : Bytes) : StepOK (t.length + 1) (lexUnderscore t) := by
  have := nameIdentLen_le t
  simp only [lexUnderscore]; repeat' split
  all_goals simp only [StepOK]
  all_goals (first | omega | (simp only [List.length_cons] at *; omega))

theorem lexNumber_ok (s : Bytes) (h : 1 ≤ s.length) : StepOK s.length (lexNumber s) := by
  have := spanLen_le identChar s
  simp only [lexNumber]; repeat' split
  all_goals simp only [StepOK]
  all_goals (first | omega | (simp only [List.length_cons] at *; omega))

theorem lexLetter_ok (c : UInt8) (s : Bytes) (h : 1 ≤ s.length) : StepOK s.length (lexLetter c s) := by
  have h1 := nameIdentLen_le s
  simp only [lexLetter]; repeat' split
  all_goals simp only [StepOK]
  all_goals try omega
  · rename_i h2
    have := congrArg List.length (eq_of_beq h2)
    simp [typeWord, bs] at this
    omega
  all_goals
    rename_i heq _ _
    have h3 := congrArg List.length heq
    simp only [List.length_drop, List.length_cons] at h3
    first
      | omega
      | (have := nameIdentLen_le ‹List UInt8›; omega)
      | (rename_i c2 tl _ _; have := nameIdentLen_le (c2 :: tl); simp only [List.length_cons] at this; omega)

theorem StepOK_ite (n : Nat) (p : Prop) [Decidable p] (a b : LexStep) (ha : StepOK n a) (hb : StepOK n b) :
    StepOK n (if p then a else b) := by
  split <;> assumption

theorem nextStep_ok (c : UInt8) (t : Bytes) : StepOK (t.length + 1) (nextStep c t) := by
  have hs : 1 ≤ (c :: t).length := by simp
  have e : (c :: t).length = t.length + 1 := by simp
  have triv : ∀ ty nl, StepOK (t.length + 1) (.tok ty 0 nl) := by intros; simp only [StepOK]; omega
  simp only [nextStep]
  refine StepOK_ite _ _ _ _ (triv _ _) ?_
  refine StepOK_ite _ _ _ _ (lexCR_ok t) ?_
  refine StepOK_ite _ _ _ _ (triv _ _) ?_
  refine StepOK_ite _ _ _ _ ?_ ?_
  · by_cases h : (bs "=>").isPrefixOf (c :: t) = true
    · rw [if_pos h]; have := isPrefixOf_length h; simp [bs] at this; simp only [StepOK]; omega
    · rw [if_neg h]; exact triv _ _
  refine StepOK_ite _ _ _ _ ?_ ?_
  · by_cases h : (bs "<=>").isPrefixOf (c :: t) = true
    · rw [if_pos h]; have := isPrefixOf_length h; simp [bs] at this; simp only [StepOK]; omega
    · rw [if_neg h]; exact triv _ _
  refine StepOK_ite _ _ _ _ (lexAt_ok t) ?_
  refine StepOK_ite _ _ _ _ (e ▸ lexSlash_ok (c :: t) hs) ?_
  refine StepOK_ite _ _ _ _ (e ▸ lexSection_ok (c :: t) hs) ?_
  refine StepOK_ite _ _ _ _ (lexNumberSign_ok t) ?_
  refine StepOK_ite _ _ _ _ (lexUnderscore_ok t) ?_
  refine StepOK_ite _ _ _ _ (e ▸ lexNumber_ok (c :: t) hs) ?_
  refine StepOK_ite _ _ _ _ (e ▸ lexLetter_ok c (c :: t) hs) ?_
  simp only [StepOK]; omega

/-- no lexer branch produces the `eof` token type. -/
def NotEof : LexStep → Prop
  | .tok ty _ _ => ty ≠ T.eof
  | _ => True

theorem NotEof_ite (p : Prop) [Decidable p] (a b : LexStep) (ha : NotEof a) (hb : NotEof b) :
    NotEof (if p then a else b) := by
  split <;> assumption

theorem nextStep_notEof (c : UInt8) (t : Bytes) : NotEof (nextStep c t) := by
  have k : ∀ (ty : Int) e nl, ty ≠ T.eof → NotEof (.tok ty e nl) := by intro ty e nl h; exact h
  have ke : ∀ p e, NotEof (.err p e) := by intros; trivial
  simp only [nextStep]
  refine NotEof_ite _ _ _ ?_ ?_
  · apply k; simp only [T.eof, Facts.Syntaxtl2.eof]; omega
  refine NotEof_ite _ _ _ ?_ ?_
  · simp only [lexCR]; repeat' split
    all_goals first | exact ke _ _ | (apply k; decide)
  refine NotEof_ite _ _ _ (k _ _ _ (by decide)) ?_
  refine NotEof_ite _ _ _ (NotEof_ite _ _ _ (k _ _ _ (by decide)) (k _ _ _ (by decide))) ?_
  refine NotEof_ite _ _ _ (NotEof_ite _ _ _ (k _ _ _ (by decide)) (k _ _ _ (by decide))) ?_
  refine NotEof_ite _ _ _ ?_ ?_
  · simp only [lexAt]; repeat' split
    all_goals first | exact ke _ _ | (apply k; decide)
  refine NotEof_ite _ _ _ ?_ ?_
  · simp only [lexSlash]; repeat' split
    all_goals first | exact ke _ _ | (apply k; decide)
  refine NotEof_ite _ _ _ ?_ ?_
  · simp only [lexSection]; repeat' split
    all_goals first | exact ke _ _ | (apply k; decide)
  refine NotEof_ite _ _ _ ?_ ?_
  · simp only [lexNumberSign]; repeat' split
    all_goals first | exact ke _ _ | (apply k; decide)
  refine NotEof_ite _ _ _ ?_ ?_
  · simp only [lexUnderscore]; repeat' split
    all_goals first | exact ke _ _ | (apply k; decide)
  refine NotEof_ite _ _ _ ?_ ?_
  · simp only [lexNumber]; repeat' split
    all_goals first | exact ke _ _ | (apply k; decide)
  refine NotEof_ite _ _ _ ?_ ?_
  · simp only [lexLetter]; repeat' split
    all_goals first | exact ke _ _ | (apply k; decide)
  exact ke _ _

/-- a token lies inside a text of length `N` and its line start is not after it. -/
def TokIn (N : Nat) (t : Token) : Prop := t.pos.slo ≤ t.pos.off ∧ t.pos.off + t.val.length ≤ N

/-- Invariant of the token list / of every iterator over it: tokens are ordered by offset without overlap, line
starts are monotone, the list ends with the (only) `eof` token, everything lies inside the text of length `N`.
(`[]` is vacuously good so that the predicate is closed under taking suffixes; non-emptiness is tracked separately.) -/
def Good (N : Nat) : List Token → Prop
  | [] => True
  | [t] => t.ty = T.eof ∧ TokIn N t
  | t :: t' :: ts =>
    t.ty ≠ T.eof ∧ t.pos.slo ≤ t.pos.off ∧ t.pos.off + t.val.length ≤ t'.pos.off ∧ t.pos.slo ≤ t'.pos.slo ∧
    Good N (t' :: ts)

attribute [local irreducible] nextStep in
theorem lexLoop_spec (f : Nat) : ∀ (s : Bytes) (pos : Pos) (N : Nat), s.length < f → pos.off + s.length = N →
    pos.slo ≤ pos.off →
    ∃ o, lexLoop f s pos = .ok o ∧ recombine o.toks o.rest = s ∧
      (∃ t ts, o.toks = t :: ts ∧ t.pos = pos) ∧
      (o.err = none → Good N o.toks ∧ o.rest = []) ∧
      (∀ e, o.err = some e → ∃ tok, e = errTok tok tok.pos ∧ TokIn N tok) := by
  induction f with
  | zero => intro s pos N h; omega
  | succ f ih =>
    intro s pos N hf hN hslo
    cases s with
    | nil =>
      refine ⟨_, rfl, ?_, ⟨_, _, rfl, rfl⟩, ?_, ?_⟩
      · simp [recombine]
      · intro _
        refine ⟨?_, rfl⟩
        show _ = T.eof ∧ TokIn N _
        refine ⟨rfl, hslo, ?_⟩
        simp only [List.length_nil] at hN ⊢; omega
      · intro e h; simp at h
    | cons c t =>
      have hok := nextStep_ok c t
      have hne := nextStep_notEof c t
      rw [lexLoop]; unfold lexCons
      cases hstep : nextStep c t with
      | tok ty extra nl =>
        rw [hstep] at hok hne
        simp only [StepOK] at hok
        simp only [NotEof] at hne
        have hle : extra ≤ t.length := by omega
        simp only [hle, ↓reduceIte]
        simp only [List.length_cons] at hf hN
        have hpos2 : (if nl = true then nlPos (advPos pos (extra + 1)) else advPos pos (extra + 1)).off = pos.off + (extra + 1) := by
          split <;> simp [nlPos, advPos]
        have hslo2 : (if nl = true then nlPos (advPos pos (extra + 1)) else advPos pos (extra + 1)).slo ≤
            (if nl = true then nlPos (advPos pos (extra + 1)) else advPos pos (extra + 1)).off := by
          split <;> simp [nlPos, advPos] <;> omega
        have hslo3 : pos.slo ≤ (if nl = true then nlPos (advPos pos (extra + 1)) else advPos pos (extra + 1)).slo := by
          split <;> simp [nlPos, advPos] <;> omega
        obtain ⟨o, ho, hrec, ⟨t', ts, hts, htpos⟩, hgood, herr⟩ :=
          ih (t.drop extra) (if nl = true then nlPos (advPos pos (extra + 1)) else advPos pos (extra + 1)) N
            (by simp only [List.length_drop]; omega) (by rw [hpos2]; simp only [List.length_drop]; omega) hslo2
        rw [ho]
        refine ⟨_, rfl, ?_, ⟨_, _, rfl, rfl⟩, ?_, herr⟩
        · simp only [recombine, List.map_cons, List.flatten_cons, List.append_assoc] at *
          rw [hrec]
          simp
        · intro he
          obtain ⟨hg, hr⟩ := hgood he
          refine ⟨?_, hr⟩
          simp only [hts] at hg ⊢
          simp only [Good]
          refine ⟨hne, hslo, ?_, ?_, hg⟩
          · rw [htpos, hpos2]; simp only [List.length_take, List.length_cons]; omega
          · rw [htpos]; exact hslo3
      | err pre extra =>
        rw [hstep] at hok
        simp only [List.length_cons] at hf hN
        cases pre with
        | none =>
          simp only [StepOK] at hok
          have hle : extra ≤ t.length := by omega
          simp only [hle, ↓reduceIte]
          refine ⟨_, rfl, ?_, ⟨_, _, rfl, rfl⟩, ?_, ?_⟩
          · simp [recombine]
          · intro h; simp at h
          · intro e h
            simp only [Option.some.injEq] at h
            refine ⟨_, h.symm, ?_⟩
            simp only [TokIn, List.length_take, List.length_cons]
            exact ⟨hslo, by omega⟩
        | some pre =>
          simp only [StepOK] at hok
          have hle : pre + extra + 1 ≤ (c :: t).length := by simp only [List.length_cons]; omega
          simp only [hle, ↓reduceIte]
          refine ⟨_, rfl, ?_, ⟨_, _, rfl, rfl⟩, ?_, ?_⟩
          · simp only [recombine, List.map_cons, List.map_nil, List.flatten_cons, List.flatten_nil, List.append_nil,
              List.append_assoc]
            rw [List.take_append_drop, List.take_append_drop]
          · intro h; simp at h
          · intro e h
            simp only [Option.some.injEq] at h
            refine ⟨_, h.symm, ?_⟩
            simp only [TokIn, advPos, List.length_take, List.length_drop, List.length_cons]
            exact ⟨by omega, by omega⟩

theorem Good.tail {N : Nat} {t : Token} {ts : List Token} (h : Good N (t :: ts)) : Good N ts := by
  cases ts with
  | nil => trivial
  | cons t' ts => exact h.2.2.2.2

theorem Good.head_in {N : Nat} {t : Token} {ts : List Token} (h : Good N (t :: ts)) : TokIn N t := by
  induction ts generalizing t with
  | nil => exact h.2
  | cons t' ts ih =>
    have h' := ih h.2.2.2.2
    obtain ⟨_, h1, h2, _, _⟩ := h
    exact ⟨h1, by have := h'.2; omega⟩

theorem Good.mem_in {N : Nat} {l : List Token} (h : Good N l) {t : Token} (ht : t ∈ l) : TokIn N t := by
  induction l with
  | nil => cases ht
  | cons a l ih =>
    cases ht with
    | head => exact h.head_in
    | tail _ ht => exact ih h.tail ht

theorem Good.suffix {N : Nat} {l r : List Token} (h : Good N l) (hs : r <:+ l) : Good N r := by
  induction l with
  | nil => have := List.suffix_nil.mp hs; subst this; trivial
  | cons a l ih =>
    rcases List.suffix_cons_iff.mp hs with h1 | h1
    · subst h1; exact h
    · exact ih h.tail h1

/-- offsets and line starts are monotone along a good list. -/
theorem Good.head_le {N : Nat} {t : Token} {ts : List Token} (h : Good N (t :: ts)) {u : Token} (hu : u ∈ t :: ts) :
    t.pos.off ≤ u.pos.off ∧ t.pos.slo ≤ u.pos.slo := by
  induction ts generalizing t with
  | nil => simp at hu; subst hu; exact ⟨Nat.le_refl _, Nat.le_refl _⟩
  | cons t' ts ih =>
    cases hu with
    | head => exact ⟨Nat.le_refl _, Nat.le_refl _⟩
    | tail _ hu =>
      have := ih h.2.2.2.2 hu
      obtain ⟨_, _, h2, h3, _⟩ := h
      exact ⟨by omega, by omega⟩

theorem validate_spec (toks : List Token) :
    ((validate toks).2 = none → (validate toks).1 = toks) ∧
    (∀ err, (validate toks).2 = some err → ∃ tok ∈ toks, err = errTok tok tok.pos) := by
  induction toks with
  | nil => simp [validate]
  | cons t ts ih =>
    simp only [validate]
    split
    · simp
    · refine ⟨?_, ?_⟩
      · intro h; simp only at h ⊢; rw [ih.1 h]
      · intro err h
        obtain ⟨tok, hm, he⟩ := ih.2 err h
        exact ⟨tok, List.mem_cons_of_mem _ hm, he⟩

theorem lexTL2_spec (tx : Bytes) : ∃ lx, lexTL2 tx = .ok lx ∧ recombine lx.all lx.rest = tx ∧
    (lx.err = none → lx.toks = lx.all ∧ lx.toks ≠ [] ∧ Good tx.length lx.toks) ∧
    (∀ e, lx.err = some e → ∃ tok, e = errTok tok tok.pos ∧ TokIn tx.length tok) := by
  obtain ⟨o, ho, hrec, ⟨t, ts, hts, _⟩, hgood, herr⟩ :=
    lexLoop_spec (tx.length + 1) tx startPos tx.length (by omega) (by simp [startPos]) (by simp [startPos])
  unfold lexTL2
  rw [ho]
  cases he : o.err with
  | some e =>
    simp only [he]
    refine ⟨_, rfl, hrec, ?_, ?_⟩
    · intro h; simp at h
    · intro e' h; simp only [Option.some.injEq] at h; subst h; exact herr e he
  | none =>
    simp only [he]
    obtain ⟨hg, hr⟩ := hgood he
    have hv := validate_spec o.toks
    cases hvv : validate o.toks with
    | mk r e =>
      rw [hvv] at hv
      simp only at hv ⊢
      refine ⟨_, rfl, hrec, ?_, ?_⟩
      · intro h
        simp only at h ⊢
        rw [hv.1 h]
        exact ⟨rfl, by rw [hts]; simp, hg⟩
      · intro e h
        simp only at h
        obtain ⟨tok, hm, he⟩ := hv.2 e h
        exact ⟨tok, he, hg.mem_in hm⟩

def notDot (c : UInt8) : Bool := c.toNat != 46

def letterTys : List Int := [T.tl2typeSign, T.lcIdentNS, T.ucIdentNS, T.lcIdent, T.ucIdent]
def StepLetter : LexStep → Prop
  | .tok ty _ _ => ty ∈ letterTys
  | _ => True

theorem lexLetter_tys (c : UInt8) (s : Bytes) : StepLetter (lexLetter c s) := by
  simp only [lexLetter]
  repeat' split
  all_goals first
    | trivial
    | (simp only [StepLetter, letterTys]; decide)

theorem nextStep_T (c : UInt8) (t : Bytes) (h : c.toNat = 84) : nextStep c t = lexLetter c (c :: t) := by
  have : c = 84 := UInt8.toNat_inj.mp (by rw [h]; rfl)
  subst this
  rfl

/-- what the parser relies on about token texts: non-`eof` tokens are non-empty, namespaced identifiers contain a dot,
a token starting with `T` (such as `Type`) is an identifier-like token. -/
def TokWF (t : Token) : Prop :=
  (t.ty ≠ T.eof → 1 ≤ t.val.length) ∧
  ((t.ty = T.lcIdentNS ∨ t.ty = T.ucIdentNS) → spanLen notDot t.val < t.val.length) ∧
  (∀ c r, t.val = c :: r → c.toNat = 84 → t.ty ∈ letterTys)

theorem spanLen_append_le (p : UInt8 → Bool) (a : Bytes) (d : UInt8) (b : Bytes) (hd : p d = false) :
    spanLen p (a ++ d :: b) ≤ a.length := by
  induction a with
  | nil => simp [spanLen, hd]
  | cons x a ih => simp only [List.cons_append, spanLen]; split <;> simp <;> omega

theorem take_drop_split (s : Bytes) (w j : Nat) (d : UInt8) (r : Bytes) (h : s.drop w = d :: r) :
    s.take (w + j + 1) = s.take w ++ d :: r.take j := by
  have hw : w < s.length := by
    have := congrArg List.length h
    simp only [List.length_drop, List.length_cons] at this
    omega
  have hs : s = s.take w ++ (d :: r) := by rw [← h, List.take_append_drop]
  have hl : (s.take w).length = w := by simp only [List.length_take]; omega
  conv => lhs; rw [hs]
  rw [List.take_append, hl]
  have : w + j + 1 - w = j + 1 := by omega
  rw [this, List.take_succ_cons, List.take_of_length_le (by omega)]

def StepWF (s : Bytes) : LexStep → Prop
  | .tok ty extra _ => (ty = T.lcIdentNS ∨ ty = T.ucIdentNS) → spanLen notDot (s.take (extra + 1)) < extra + 1
  | _ => True

theorem StepWF_ite (s : Bytes) (p : Prop) [Decidable p] (a b : LexStep) (ha : StepWF s a) (hb : StepWF s b) :
    StepWF s (if p then a else b) := by
  split <;> assumption

theorem lexLetter_wf (c : UInt8) (s : Bytes) : StepWF s (lexLetter c s) := by
  have k : ∀ (ty : Int) e nl, (ty ≠ T.lcIdentNS ∧ ty ≠ T.ucIdentNS) → StepWF s (.tok ty e nl) := by
    intro ty e nl h h2; rcases h2 with h2 | h2 <;> simp [h2] at h
  have ke : ∀ p e, StepWF s (.err p e) := by intros; trivial
  have hw := nameIdentLen_le s
  simp only [lexLetter]
  repeat' split
  all_goals first
    | exact ke _ _
    | (apply k; decide)
    | skip
  all_goals
    rename_i d _ _ c2 tl heq hd _
    intro _
    simp only [Bool.and_eq_true, beq_iff_eq] at hd
    rw [take_drop_split _ _ _ _ _ heq]
    have := spanLen_append_le notDot (s.take (nameIdentLen s)) d (List.take (nameIdentLen (c2 :: tl)) (c2 :: tl)) (by simp [notDot, hd.1])
    simp only [List.length_take] at this
    omega

theorem nextStep_wf (c : UInt8) (t : Bytes) : StepWF (c :: t) (nextStep c t) := by
  have k : ∀ (ty : Int) e nl, (ty ≠ T.lcIdentNS ∧ ty ≠ T.ucIdentNS) → StepWF (c :: t) (.tok ty e nl) := by
    intro ty e nl h h2; rcases h2 with h2 | h2 <;> simp [h2] at h
  have ke : ∀ p e, StepWF (c :: t) (.err p e) := by intros; trivial
  simp only [nextStep]
  refine StepWF_ite _ _ _ _ ?_ ?_
  · apply k; simp only [T.lcIdentNS, T.ucIdentNS, Facts.Syntaxtl2.lcIdentNS, Facts.Syntaxtl2.ucIdentNS]; omega
  refine StepWF_ite _ _ _ _ ?_ ?_
  · simp only [lexCR]; repeat' split
    all_goals first | exact ke _ _ | (apply k; decide)
  refine StepWF_ite _ _ _ _ (k _ _ _ (by decide)) ?_
  refine StepWF_ite _ _ _ _ (StepWF_ite _ _ _ _ (k _ _ _ (by decide)) (k _ _ _ (by decide))) ?_
  refine StepWF_ite _ _ _ _ (StepWF_ite _ _ _ _ (k _ _ _ (by decide)) (k _ _ _ (by decide))) ?_
  refine StepWF_ite _ _ _ _ ?_ ?_
  · simp only [lexAt]; repeat' split
    all_goals first | exact ke _ _ | (apply k; decide)
  refine StepWF_ite _ _ _ _ ?_ ?_
  · simp only [lexSlash]; repeat' split
    all_goals first | exact ke _ _ | (apply k; decide)
  refine StepWF_ite _ _ _ _ ?_ ?_
  · simp only [lexSection]; repeat' split
    all_goals first | exact ke _ _ | (apply k; decide)
  refine StepWF_ite _ _ _ _ ?_ ?_
  · simp only [lexNumberSign]; repeat' split
    all_goals first | exact ke _ _ | (apply k; decide)
  refine StepWF_ite _ _ _ _ ?_ ?_
  · simp only [lexUnderscore]; repeat' split
    all_goals first | exact ke _ _ | (apply k; decide)
  refine StepWF_ite _ _ _ _ ?_ ?_
  · simp only [lexNumber]; repeat' split
    all_goals first | exact ke _ _ | (apply k; decide)
  refine StepWF_ite _ _ _ _ (lexLetter_wf c (c :: t)) ?_
  exact ke _ _

theorem lexLoop_wf (f : Nat) : ∀ (s : Bytes) (pos : Pos) (o : LexOut), lexLoop f s pos = .ok o → o.err = none →
    ∀ t ∈ o.toks, TokWF t := by
  induction f with
  | zero => intro s pos o h; simp [lexLoop] at h
  | succ f ih =>
    intro s pos o h herr
    cases s with
    | nil =>
      simp only [lexLoop] at h
      injection h with h; subst h
      intro t ht
      simp only [List.mem_singleton] at ht
      subst ht
      refine ⟨fun h => absurd rfl h, fun h => ?_, fun c r h => by cases h⟩
      have : (T.eof = T.lcIdentNS ∨ T.eof = T.ucIdentNS) → False := by decide
      exact absurd h this
    | cons c t =>
      have hok := nextStep_ok c t
      have hwf := nextStep_wf c t
      rw [lexLoop] at h
      unfold lexCons at h
      cases hstep : nextStep c t with
      | tok ty extra nl =>
        rw [hstep] at hok hwf h
        simp only [StepOK] at hok
        simp only [StepWF] at hwf
        have hle : extra ≤ t.length := by omega
        simp only [hle, ↓reduceIte] at h
        cases hrec : lexLoop f (t.drop extra) (if nl = true then nlPos (advPos pos (extra + 1)) else advPos pos (extra + 1)) with
        | ok o' =>
          rw [hrec] at h
          simp only at h
          injection h with h; subst h
          intro tk htk
          simp only [List.mem_cons] at htk
          rcases htk with htk | htk
          · subst htk
            refine ⟨fun _ => ?_, fun h => ?_, fun c' r' hv hc' => ?_⟩
            · simp only [List.length_take, List.length_cons]; omega
            · have := hwf h
              simp only [List.length_take, List.length_cons]
              omega
            · simp only [List.take_succ_cons, List.cons.injEq] at hv
              have hcc : c.toNat = 84 := by rw [hv.1]; exact hc'
              have h1 := nextStep_T c t hcc
              have h2 := lexLetter_tys c (c :: t)
              rw [← h1, hstep] at h2
              exact h2
          · exact ih _ _ o' hrec herr tk htk
        | panic => rw [hrec] at h; cases h
        | nofuel => rw [hrec] at h; cases h
      | err pre extra =>
        rw [hstep] at h
        cases pre with
        | none =>
          simp only at h
          split at h
          · injection h with h; subst h; simp at herr
          · cases h
        | some pre =>
          simp only at h
          split at h
          · injection h with h; subst h; simp at herr
          · cases h

theorem lexTL2_wf (tx : Bytes) (lx : Lexed) (h : lexTL2 tx = .ok lx) (he : lx.err = none) : ∀ t ∈ lx.toks, TokWF t := by
  unfold lexTL2 at h
  cases hl : lexLoop (tx.length + 1) tx startPos with
  | ok o =>
    rw [hl] at h
    simp only at h
    cases hoe : o.err with
    | some e => rw [hoe] at h; simp only at h; injection h with h; subst h; simp at he
    | none =>
      rw [hoe] at h
      simp only at h
      cases hv : validate o.toks with
      | mk r e =>
        rw [hv] at h
        simp only at h
        injection h with h; subst h
        simp only at he ⊢
        have := (validate_spec o.toks).1 (by rw [hv]; exact he)
        rw [hv] at this
        simp only at this
        rw [this]
        exact lexLoop_wf _ _ _ o hl hoe
  | panic => rw [hl] at h; cases h
  | nofuel => rw [hl] at h; cases h

end TLVerif.Syntaxtl2
