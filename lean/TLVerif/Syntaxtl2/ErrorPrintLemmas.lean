import TLVerif.Syntaxtl2.ParserLemmas
import TLVerif.Syntaxtl2.ErrorPrint
/-! `consolePrint` never slices out of range; for an error range inside the text the context is not corrupted. -/
namespace TLVerif.Syntaxtl2

theorem safeRange_sat (s : Bytes) (b e : Nat) :
    (safeRange s b e).Sat (fun r => (b ≤ e → e ≤ s.length → r.2 = false)) := by
  unfold safeRange
  split
  · rename_i h
    refine Res.Sat.pure ?_
    intro h1 h2
    simp only [Bool.or_eq_true, decide_eq_true_eq] at h
    omega
  · rename_i h
    simp only [Bool.or_eq_true, decide_eq_true_eq, not_or, Nat.not_lt] at h
    have : slice s b e = .ok ((s.take e).drop b) := by
      unfold slice
      have : b ≤ e ∧ e ≤ s.length := ⟨h.1.2, h.2⟩
      simp only [this, and_self, ↓reduceIte]
    rw [this]
    exact Res.Sat.pure (fun _ _ => rfl)

/-- the slices of `consolePrint` never panic, whatever the positions are; for a range inside the text (`ErrInText`)
the error context is not reported as corrupted. -/
theorem consoleParts_spec (fc : Bytes) (e : PErr) :
    (consoleParts fc e).Sat (fun p => ErrInText fc.length e → p.anyCorrupted = false) := by
  unfold consoleParts
  refine (safeRange_sat _ _ _).bind ?_; rintro ⟨x1, c1⟩ h1
  refine (safeRange_sat _ _ _).bind ?_; rintro ⟨x2, c2⟩ h2
  refine (safeRange_sat _ _ _).bind ?_; rintro ⟨x3, c3⟩ h3
  dsimp only at *
  have h4 : (if (e.b.slo == e.e.slo) = true then (do
        let (bb, c5) ← safeRange fc e.b.slo e.b.off
        let (rr, c6) ← safeRange fc e.b.off e.e.off
        pure (replaceTabs bb, replaceTabs rr, c5 || c6))
      else pure ([], replaceTabs x3, false) : Res (Bytes × Bytes × Bool)).Sat
      (fun r => ErrInText fc.length e → r.2.2 = false) := by
    split
    · refine (safeRange_sat _ _ _).bind ?_; rintro ⟨_, c5⟩ h5
      refine (safeRange_sat _ _ _).bind ?_; rintro ⟨_, c6⟩ h6
      refine Res.Sat.pure ?_
      intro ⟨_, _, _, k4, k5, k6, _⟩
      dsimp only at *
      rw [h5 k4 (by omega), h6 k5 k6]; rfl
    · exact Res.Sat.pure (fun _ => rfl)
  refine h4.bind ?_; rintro ⟨y1, y2, c4⟩ h4'
  dsimp only at *
  have h7 : (if e.e.off > fc.length then pure ([], true) else (do
        let t ← slice fc e.e.off fc.length
        pure (t, false)) : Res (Bytes × Bool)).Sat (fun r => e.e.off ≤ fc.length → r.2 = false) := by
    split
    · exact Res.Sat.pure (fun h => by omega)
    · rename_i h
      have : slice fc e.e.off fc.length = .ok ((fc.take fc.length).drop e.e.off) := by
        unfold slice
        have : e.e.off ≤ fc.length ∧ fc.length ≤ fc.length := ⟨by omega, Nat.le_refl _⟩
        simp only [this, and_self, ↓reduceIte]
      rw [this]
      exact Res.Sat.pure (fun _ => rfl)
  refine h7.bind ?_; rintro ⟨z, c7⟩ h7'
  dsimp only at *
  refine Res.Sat.pure ?_
  intro hin
  obtain ⟨k1, k2, k3, k4, k5, k6, k7⟩ := hin
  dsimp only
  rw [h1 k3 (by omega), h2 (by omega) (by omega), h3 (by omega) k6, h4' ⟨k1, k2, k3, k4, k5, k6, k7⟩, h7' k6]
  rfl

theorem consolePrint_total (fc : Bytes) (e : PErr) (c : Bytes) (w : Bool) :
    ∃ out, consolePrint fc e c w = .ok out := by
  unfold consolePrint
  obtain ⟨p, hp, _⟩ := consoleParts_spec fc e
  rw [hp]
  exact ⟨_, rfl⟩

end TLVerif.Syntaxtl2
