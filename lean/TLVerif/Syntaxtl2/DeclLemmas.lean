import TLVerif.Syntaxtl2.StructLemmas
/-! Token-level round trip of template arguments, magic and (in progress) declarations. -/
set_option linter.unusedSimpArgs false
namespace TLVerif.Syntaxtl2

theorem digitVal16_digitChar (d : Nat) (h : d < 16) : digitVal 16 (digitChar d) = some d := by
  have : ∀ d : Fin 16, digitVal 16 (digitChar d.val) = some d.val := by decide
  exact this ⟨d, h⟩

theorem parseDigits16_append (l r : Bytes) (a : Nat) :
    parseDigits 16 (l ++ r) a = (parseDigits 16 l a).bind (fun v => parseDigits 16 r v) := by
  induction l generalizing a with
  | nil => rfl
  | cons c l ih =>
    simp only [List.cons_append, parseDigits]
    cases digitVal 16 c with
    | none => rfl
    | some v => exact ih _

theorem natDigits16_acc (f n : Nat) (acc : Bytes) : natDigits 16 f n acc = natDigits 16 f n [] ++ acc := by
  induction f generalizing n acc with
  | zero => rfl
  | succ f ih =>
    simp only [natDigits]
    split
    · rfl
    · rw [ih, ih (n / 16) [digitChar (n % 16)]]; simp

theorem parseDigits_natDigits16 (f n : Nat) (h : n < f) : parseDigits 16 (natDigits 16 f n []) 0 = some n := by
  induction f generalizing n with
  | zero => omega
  | succ f ih =>
    simp only [natDigits]
    split
    · rename_i hn
      simp only [parseDigits, digitVal16_digitChar n hn]
      simp
    · rename_i hn
      rw [natDigits16_acc]
      have := ih (n / 16) (by omega)
      rw [parseDigits16_append, this]
      simp only [Option.bind, parseDigits, digitVal16_digitChar (n % 16) (Nat.mod_lt _ (by omega))]
      congr 1
      omega

theorem parseDigits16_zeros (k : Nat) (d : Bytes) : parseDigits 16 (List.replicate k 48 ++ d) 0 = parseDigits 16 d 0 := by
  induction k with
  | zero => rfl
  | succ k ih =>
    simp only [List.replicate_succ, List.cons_append, parseDigits]
    have : digitVal 16 48 = some 0 := by decide
    rw [this]
    exact ih

theorem parseUint32_hex8 (m : Nat) (h : m < 4294967296) : parseUint32 16 (hex8 m) = some m := by
  simp only [parseUint32, hex8]
  have h1 := parseDigits_natDigits16 (m + 1) m (by omega)
  rw [parseDigits16_zeros, h1]
  have hne : (List.replicate (8 - (natDigits 16 (m + 1) m []).length) 48 ++ natDigits 16 (m + 1) m []).isEmpty = false := by
    cases hh : natDigits 16 (m + 1) m [] with
    | nil => rw [hh] at h1; simp [parseDigits] at h1; subst h1; simp [natDigits] at hh
    | cons _ _ => simp
  simp [hne, h]


/-- no white space directly after a `:` token (true for formatter output; needed because
`parseTL2TypeArgumentDeclaration` looks at the token after the colon without skipping white space). -/
def NoWSAfterColon (it : Iter) : Prop :=
  ∀ a b l, (a :: b :: l) <:+ it → a.ty = T.colon → isWS b = false

theorem expect_strip_adj {its : Iter} {k : TK} {ks : List TK} (h : strip its = k :: ks) (ty : Int) (hk : k.1 = ty) :
    ∃ hd r, expect its ty = .ok (true, r) ∧ strip r = ks ∧ (hd :: r) <:+ its ∧ hd.ty = ty := by
  obtain ⟨hd, r, e, a, b, c, d⟩ := skipWS_strip h
  have hty : hd.ty = k.1 := by rw [← b]; rfl
  refine ⟨hd, r, ?_, c, d, by rw [hty, hk]⟩
  simp only [expect, checkToken, checkAny, e, Res.ok_bind, front_cons, Res.pure_eq, List.contains_cons,
    List.contains_nil, Bool.or_false, hty, hk, BEq.rfl, ↓reduceIte, popFront_cons]

def catTK (isNat : Bool) : TK := if isNat then (T.numberSign, bs "#") else (T.tl2typeSign, typeWord)
def templ1Toks (t : Templ) : List TK := [(identTy t.name, t.name), (T.colon, bs ":"), catTK t.isNat]
def Templ.wf (t : Templ) : Bool := isIdent t.name

/-- `parseTL2TypeArgumentDeclaration` on `name:#` / `name:Type` -/
theorem templS (hadj : NoWSAfterColon it) (t : Templ) (its : Iter) (hsuf0 : its <:+ it) (k : TK) (ks : List TK) (pos : Pos)
    (hm : strip its = templ1Toks t ++ k :: ks) :
    ∃ rest, parseTemplArg its pos = .ok ({ start := true }, rest, t) ∧ strip rest = k :: ks ∧ rest <:+ its := by
  simp only [templ1Toks, List.cons_append, List.nil_append] at hm
  obtain ⟨hd, r, e, hnw, htk, hr, hsuf⟩ := skipWS_strip hm
  have hty : hd.ty = identTy t.name := by rw [show hd.ty = hd.tk.1 from rfl, htk]
  have hval : hd.val = t.name := by rw [show hd.val = hd.tk.2 from rfl, htk]
  have hchk : [T.lcIdent, T.ucIdent].contains hd.ty = true := by
    rw [hty]; rcases identTy_mem t.name with h | h <;> rw [h] <;> decide
  obtain ⟨t1, ht1⟩ := front_strip hr
  obtain ⟨cl, r2, e2, hr2, hs2, hclty⟩ := expect_strip_adj hr T.colon rfl
  -- the category token follows the colon directly
  obtain ⟨ct, r3, rfl⟩ : ∃ ct r3, r2 = ct :: r3 := by
    cases r2 with
    | nil => simp [strip] at hr2
    | cons ct r3 => exact ⟨ct, r3, rfl⟩
  have hnwct : NW ct := hadj cl ct r3 (hs2.trans ((List.suffix_cons hd r).trans (hsuf.trans hsuf0))) hclty
  rw [strip_cons_nw hnwct] at hr2
  injection hr2 with hct hr3
  have hcat : (ct.ty == T.numberSign || ct.val == typeWord) = true ∧ (ct.ty == T.numberSign) = t.isNat ∧ ct.ty ≠ T.eof := by
    have h1 : ct.ty = (catTK t.isNat).1 := by rw [← hct]; rfl
    have h2 : ct.val = (catTK t.isNat).2 := by rw [← hct]; rfl
    cases hn : t.isNat with
    | true => rw [hn] at h1 h2; simp only [catTK, ↓reduceIte] at h1 h2; rw [h1]; exact ⟨by simp, by decide, by decide⟩
    | false =>
      rw [hn] at h1 h2; simp only [catTK, Bool.false_eq_true, ↓reduceIte] at h1 h2
      rw [h1, h2]; exact ⟨by simp, by decide, by decide⟩
  obtain ⟨t3, ht3⟩ : ∃ t, front r3 = .ok t := front_strip hr3
  have hcat' : (t.isNat || ct.val == typeWord) = true := by rw [← hcat.2.1]; exact hcat.1
  refine ⟨r3, ?_, hr3, (List.suffix_cons ct r3).trans ((List.suffix_cons cl _).trans (hs2.trans ((List.suffix_cons hd r).trans hsuf)))⟩
  · unfold parseTemplArg
    simp only [e, Res.ok_bind, checkAny_nw hnw, hchk, Bool.not_true, Bool.false_eq_true, ↓reduceIte, front_cons,
      skipWS_nw hnw, popFront_cons, ht1, e2, hcat.2.1, hcat', skipWS_nw hnwct, ht3, Res.pure_eq, hval]


def commaTK : TK := (T.commaSign, bs ",")
def moreTemplToks (ts : List Templ) : List TK := (ts.map (fun t => commaTK :: templ1Toks t)).flatten

theorem templLoopS (hadj : NoWSAfterColon it) (pos : Pos) (st : OState) : ∀ (ts : List Templ) (its : Iter), its <:+ it →
    ∀ (ks : List TK) (fz : Nat) (acc : List Templ),
    strip its = moreTemplToks ts ++ (T.rAngle, bs ">") :: ks → ts.length < fz →
    ∃ rest, parseTemplLoop pos fz st its acc = .ok (st, rest, acc ++ ts, false) ∧
      strip rest = (T.rAngle, bs ">") :: ks ∧ rest <:+ its := by
  intro ts
  induction ts with
  | nil =>
    intro its _ ks fz acc hm hfz
    simp only [moreTemplToks, List.map_nil, List.flatten_nil, List.nil_append] at hm
    obtain ⟨f, rfl⟩ : ∃ f, fz = f + 1 := ⟨fz - 1, by simp at hfz; omega⟩
    obtain ⟨r1, e1, hr1, hs1, _⟩ := (expect_strip hm T.commaSign).2 (by decide)
    refine ⟨r1, ?_, hr1, hs1⟩
    unfold parseTemplLoop
    simp only [e1, Res.ok_bind, Bool.not_false, ↓reduceIte, Res.pure_eq, List.append_nil]
  | cons t ts ih =>
    intro its hsuf0 ks fz acc hm hfz
    simp only [List.length_cons] at hfz
    obtain ⟨fz', rfl⟩ : ∃ f, fz = f + 1 := ⟨fz - 1, by omega⟩
    have hm' : strip its = commaTK :: (templ1Toks t ++ (moreTemplToks ts ++ (T.rAngle, bs ">") :: ks)) := by
      rw [hm]; simp [moreTemplToks]
    obtain ⟨r1, e1, hr1, hs1⟩ := (expect_strip hm' T.commaSign).1 rfl
    obtain ⟨k, ks2, hk2⟩ : ∃ k ks2, moreTemplToks ts ++ (T.rAngle, bs ">") :: ks = k :: ks2 := by
      cases ts with
      | nil => exact ⟨(T.rAngle, bs ">"), ks, by simp [moreTemplToks]⟩
      | cons w ws => exact ⟨commaTK, templ1Toks w ++ (moreTemplToks ws ++ (T.rAngle, bs ">") :: ks), by simp [moreTemplToks]⟩
    rw [hk2] at hr1
    obtain ⟨r2, et, hr2, hs2⟩ := templS hadj t r1 (hs1.trans hsuf0) k ks2 pos hr1
    obtain ⟨t2, ht2⟩ := front_strip hr2
    rw [← hk2] at hr2
    obtain ⟨rest, el, hrest, hs3⟩ := ih r2 (hs2.trans (hs1.trans hsuf0)) ks fz' (acc ++ [t]) hr2 (by omega)
    refine ⟨rest, ?_, hrest, hs3.trans (hs2.trans hs1)⟩
    unfold parseTemplLoop
    simp only [e1, Res.ok_bind, Bool.not_true, Bool.false_eq_true, ↓reduceIte, et, ht2, expectProgress_ok, el]
    simp

def magicToks (m : Nat) : List TK := if m = 0 then [] else [(T.crc32hash, bs "#" ++ hex8 m)]
def templToks : List Templ → List TK
  | [] => []
  | t :: ts => (T.lAngle, bs "<") :: (templ1Toks t ++ (moreTemplToks ts ++ [(T.rAngle, bs ">")]))
def TypeDef.toks : TypeDef → List TK
  | .alias t => (T.tl2alias, bs "<=>") :: typeToks t
  | .struct sd => (T.equalSign, bs "=") :: sd.toks
def TypeDef.wf : TypeDef → Bool
  | .alias t => t.wf
  | .struct sd => sd.wf
def TypeDef.need : TypeDef → Nat
  | .alias t => needT t
  | .struct sd => sd.need

/-- tokens of a type declaration after its name -/
def typeDeclToks (d : TypeDecl) : List TK := magicToks d.magic ++ (templToks d.templs ++ d.ty.toks)
def TypeDecl.wf (d : TypeDecl) : Bool := decide (d.magic < 4294967296) && d.templs.all Templ.wf && d.ty.wf

theorem parseMagicS (its : Iter) (m : Nat) (hm0 : m ≠ 0) (hm32 : m < 4294967296) (k : TK) (ks : List TK) (pos : Pos)
    (hd : Token) (r : Iter) (hits : its = hd :: r) (hnw : NW hd) (htk : hd.tk = (T.crc32hash, bs "#" ++ hex8 m))
    (hr : strip r = k :: ks) : parseMagic its pos = .ok (none, r, m) := by
  subst hits
  have hval : hd.val = bs "#" ++ hex8 m := by rw [show hd.val = hd.tk.2 from rfl, htk]
  obtain ⟨t1, ht1⟩ := front_strip hr
  have hlen : ¬ (bs "#" ++ hex8 m).length < 1 := by simp [bs]
  have hdrop : (bs "#" ++ hex8 m).drop 1 = hex8 m := by simp [bs]
  have hz : (m == 0) = false := by simpa using hm0
  unfold parseMagic
  simp only [skipWS_nw hnw, Res.ok_bind, popFront_cons, hval, hlen, ↓reduceIte, hdrop, parseUint32_hex8 m hm32, hz,
    Bool.false_eq_true, ht1, Res.pure_eq]

theorem typeDefToks_head (t : TypeDef) : ∃ k ks, t.toks = k :: ks ∧ (k.1 = T.tl2alias ∨ k.1 = T.equalSign) := by
  cases t with
  | alias ty => exact ⟨_, _, rfl, Or.inl rfl⟩
  | struct sd => exact ⟨_, _, rfl, Or.inr rfl⟩

/-- `parseTL2TypeDeclarationWithoutName` recovers a well-formed type declaration (up to comments) from the tokens
after its name, up to the closing `;`. -/
theorem typeDeclS (hc : Ctx N tx it) (hadj : NoWSAfterColon it) (d : TypeDecl) (hwf : d.wf = true) (its : Iter)
    (hsuf0 : its <:+ it) (ks : List TK) (pos : Pos) (fuel : Nat)
    (hm : strip its = typeDeclToks d ++ semiTK :: ks) (hf : d.ty.need ≤ fuel) (hf2 : d.templs.length < fuel) :
    ∃ rest d', parseTypeDecl tx fuel its pos d.name = .ok ({ start := true }, rest, d') ∧
      d'.name = d.name ∧ d'.magic = d.magic ∧ d'.templs = d.templs ∧ d'.ty.core = d.ty.core ∧
      strip rest = semiTK :: ks ∧ rest <:+ its := by
  simp only [TypeDecl.wf, Bool.and_eq_true, decide_eq_true_eq] at hwf
  obtain ⟨⟨hm32, htwf⟩, hdwf⟩ := hwf
  obtain ⟨kd, ksd, hkd, hkdty⟩ := typeDefToks_head d.ty
  -- stage 1: the magic
  obtain ⟨k0, ks0, hk0⟩ : ∃ k0 ks0, typeDeclToks d ++ semiTK :: ks = k0 :: ks0 := by
    simp only [typeDeclToks, hkd]
    cases hh : magicToks d.magic ++ (templToks d.templs ++ kd :: ksd) ++ semiTK :: ks with
    | nil => cases hmm : magicToks d.magic <;> cases htt : templToks d.templs <;> simp [hmm, htt] at hh
    | cons a b => exact ⟨a, b, rfl⟩
  rw [hk0] at hm
  obtain ⟨hd, r, e, hnw, htk, hr, hsuf⟩ := skipWS_strip hm
  have hstage1 : ∃ R1, (if (hd.ty == T.crc32hash) = true then parseMagic (hd :: r) pos else Res.ok (none, hd :: r, 0)) =
      Res.ok (none, R1, d.magic) ∧ strip R1 = templToks d.templs ++ (d.ty.toks ++ semiTK :: ks) ∧ R1 <:+ its := by
    by_cases hm0 : d.magic = 0
    · have : magicToks d.magic = [] := by simp [magicToks, hm0]
      simp only [typeDeclToks, this, List.nil_append, List.append_assoc] at hk0
      have hty : (hd.ty == T.crc32hash) = false := by
        rw [show hd.ty = hd.tk.1 from rfl, htk]
        cases htt : templToks d.templs with
        | nil =>
          rw [htt, hkd] at hk0; simp only [List.nil_append, List.cons_append, List.cons.injEq] at hk0
          rw [← hk0.1]; rcases hkdty with h | h <;> rw [h] <;> decide
        | cons a b =>
          rw [htt] at hk0; simp only [List.cons_append, List.cons.injEq] at hk0
          rw [← hk0.1]
          cases hts : d.templs with
          | nil => rw [hts] at htt; simp [templToks] at htt
          | cons t ts => rw [hts] at htt; simp only [templToks, List.cons.injEq] at htt; rw [← htt.1]; decide
      refine ⟨hd :: r, by simp only [hty, Bool.false_eq_true, ↓reduceIte, hm0], ?_, hsuf⟩
      rw [strip_cons_nw hnw, htk, hr, hk0]
    · have hmt : magicToks d.magic = [(T.crc32hash, bs "#" ++ hex8 d.magic)] := by simp [magicToks, hm0]
      simp only [typeDeclToks, hmt, List.singleton_append, List.cons_append, List.append_assoc, List.cons.injEq] at hk0
      have hty : (hd.ty == T.crc32hash) = true := by
        rw [show hd.ty = hd.tk.1 from rfl, htk, ← hk0.1]; rfl
      have hr' : strip r = templToks d.templs ++ (d.ty.toks ++ semiTK :: ks) := by rw [hr, ← hk0.2]; rfl
      obtain ⟨k1, ks1, hk1⟩ : ∃ k1 ks1, templToks d.templs ++ (d.ty.toks ++ semiTK :: ks) = k1 :: ks1 := by
        cases htt : templToks d.templs with
        | nil => rw [hkd]; exact ⟨_, _, rfl⟩
        | cons a b => exact ⟨a, _, rfl⟩
      refine ⟨r, ?_, hr', (List.suffix_cons hd r).trans hsuf⟩
      simp only [hty, ↓reduceIte]
      exact parseMagicS (hd :: r) d.magic hm0 hm32 k1 ks1 pos hd r rfl hnw (by rw [htk, ← hk0.1]) (by rw [hr', hk1])
  obtain ⟨R1, e1, hR1, hsR1⟩ := hstage1
  have hR1it : R1 <:+ it := hsR1.trans hsuf0
  -- stage 3 (prepared for an arbitrary iterator positioned at the definition)
  have hstage3 : ∀ (R2 : Iter), R2 <:+ it → strip R2 = d.ty.toks ++ semiTK :: ks → ∀ (st : OState) (templs : List Templ),
      st.err = none →
      ∃ rest ty', (do
        let (eq, rest) ← expect R2 T.equalSign
        let (al, rest) ← (if eq then pure (false, rest) else expect rest T.tl2alias : Res (Bool × Iter))
        if !eq && !al then pure (st, its, ({ name := d.name, magic := d.magic, templs := templs, ty := .struct (.fields []) } : TypeDecl))
        else
          let st := { st with start := true }
          if al then
            let (ls, rest, ty) ← parseType fuel rest pos
            let tok ← front rest
            let (ok, ls) := ls.expectProgress (errTok tok pos)
            if !ok then pure (st.inherit ls, rest, { name := d.name, magic := d.magic, templs := templs, ty := .alias ty })
            else
              let _ ← front rest
              pure (st, rest, { name := d.name, magic := d.magic, templs := templs, ty := .alias ty })
          else
            let (ls, rest, sd) ← parseStructDef tx fuel rest pos
            let st := st.inherit ls
            let _ ← front rest
            pure (st, rest, { name := d.name, magic := d.magic, templs := templs, ty := .struct sd })) =
        Res.ok ({ start := true }, rest, { name := d.name, magic := d.magic, templs := templs, ty := ty' }) ∧
        ty'.core = d.ty.core ∧ strip rest = semiTK :: ks ∧ rest <:+ R2 := by
    intro R2 hR2it hR2 st templs hste
    cases hty : d.ty with
    | alias t =>
      rw [hty] at hR2 hdwf hf
      simp only [TypeDef.toks, TypeDef.wf, TypeDef.need, List.cons_append] at hR2 hdwf hf
      obtain ⟨Ra, ea, hRa, hsa, _⟩ := (expect_strip hR2 T.equalSign).2 (by decide)
      obtain ⟨Rb, eb, hRb, hsb⟩ := (expect_strip hRa T.tl2alias).1 rfl
      obtain ⟨Rc, ec, hRc, hsc⟩ := typeS t hdwf Rb (semiTK :: ks) pos fuel hRb ⟨semiTK, ks, rfl, by decide⟩ hf
      obtain ⟨t3, ht3⟩ := front_strip hRc
      refine ⟨Rc, .alias t, ?_, rfl, hRc, hsc.trans (hsb.trans hsa)⟩
      simp only [ea, Res.ok_bind, Bool.false_eq_true, ↓reduceIte, eb, Bool.not_false, Bool.not_true, Bool.and_false, ec, ht3,
        expectProgress_ok, Res.pure_eq]
      cases st; simp only at hste; subst hste; rfl
    | struct sd =>
      rw [hty] at hR2 hdwf hf
      simp only [TypeDef.toks, TypeDef.wf, TypeDef.need, List.cons_append] at hR2 hdwf hf
      obtain ⟨Ra, ea, hRa, hsa⟩ := (expect_strip hR2 T.equalSign).1 rfl
      obtain ⟨st', Rb, sd', eb, hste', hcore, hRb, hsb⟩ := structS hc sd hdwf Ra (hsa.trans hR2it) ks pos fuel hRa hf
      obtain ⟨t3, ht3⟩ := front_strip hRb
      refine ⟨Rb, .struct sd', ?_, by simp only [TypeDef.core, hcore], hRb, hsb.trans hsa⟩
      simp only [ea, Res.ok_bind, ↓reduceIte, Res.pure_eq, Bool.not_true, Bool.false_and, Bool.false_eq_true, eb, ht3]
      cases st; cases st'; simp only at hste hste'; subst hste; subst hste'
      simp [OState.inherit]
  -- stage 2: template arguments
  cases hts : d.templs with
  | nil =>
    rw [hts] at hR1
    simp only [templToks, List.nil_append] at hR1
    rw [hkd] at hR1
    have hkdla : kd.1 ≠ T.lAngle := by rcases hkdty with h | h <;> rw [h] <;> decide
    obtain ⟨Ra, ea, hRa, hsa, _⟩ := (expect_strip hR1 T.lAngle).2 hkdla
    obtain ⟨hd2, r2, e2, hnw2, htk2, hr2, hsuf2⟩ := checkAny_strip hRa [T.lCurly, T.lRound, T.lSquare]
    have hcf : [T.lCurly, T.lRound, T.lSquare].contains kd.1 = false := by rcases hkdty with h | h <;> rw [h] <;> decide
    have hR2 : strip (hd2 :: r2) = d.ty.toks ++ semiTK :: ks := by rw [strip_cons_nw hnw2, htk2, hr2, hkd]; rfl
    obtain ⟨rest, ty', e3, hcore, hrest, hs3⟩ := hstage3 (hd2 :: r2) (hsuf2.trans (hsa.trans hR1it)) hR2 {} [] rfl
    refine ⟨rest, { name := d.name, magic := d.magic, templs := [], ty := ty' }, ?_, rfl, rfl, rfl, hcore, hrest,
      hs3.trans (hsuf2.trans (hsa.trans hsR1))⟩
    unfold parseTypeDecl
    simp only [e, Res.ok_bind, checkToken_nw hnw, e1, ea, Bool.false_eq_true, ↓reduceIte, e2, hcf, Res.pure_eq]
    exact e3
  | cons t ts =>
    rw [hts] at hR1 htwf hf2
    simp only [templToks, List.cons_append, List.append_assoc, List.singleton_append, List.all_cons, Bool.and_eq_true,
      List.nil_append] at hR1 htwf
    obtain ⟨Ra, ea, hRa, hsa⟩ := (expect_strip hR1 T.lAngle).1 rfl
    obtain ⟨k, ks2, hk2⟩ : ∃ k ks2, moreTemplToks ts ++ ((T.rAngle, bs ">") :: (d.ty.toks ++ semiTK :: ks)) = k :: ks2 := by
      cases ts with
      | nil => exact ⟨(T.rAngle, bs ">"), d.ty.toks ++ semiTK :: ks, by simp [moreTemplToks]⟩
      | cons w ws =>
        exact ⟨commaTK, templ1Toks w ++ (moreTemplToks ws ++ (T.rAngle, bs ">") :: (d.ty.toks ++ semiTK :: ks)),
          by simp [moreTemplToks]⟩
    rw [hk2] at hRa
    obtain ⟨Rb, eb, hRb, hsb⟩ := templS hadj t Ra (hsa.trans hR1it) k ks2 pos hRa
    obtain ⟨tb, htb⟩ := front_strip hRb
    rw [← hk2] at hRb
    obtain ⟨Rc, ec, hRc, hsc⟩ := templLoopS hadj pos { start := true } ts Rb (hsb.trans (hsa.trans hR1it))
      (d.ty.toks ++ semiTK :: ks) fuel [t] hRb (by simp only [List.length_cons] at hf2; omega)
    obtain ⟨Rd, ed, hRd, hsd⟩ := (expect_strip hRc T.rAngle).1 rfl
    obtain ⟨rest, ty', e3, hcore, hrest, hs3⟩ := hstage3 Rd (hsd.trans (hsc.trans (hsb.trans (hsa.trans hR1it)))) hRd
      { start := true } ([t] ++ ts) rfl
    refine ⟨rest, { name := d.name, magic := d.magic, templs := [t] ++ ts, ty := ty' }, ?_, rfl, rfl, rfl, hcore, hrest,
      hs3.trans (hsd.trans (hsc.trans (hsb.trans (hsa.trans hsR1))))⟩
    unfold parseTypeDecl
    simp only [e, Res.ok_bind, checkToken_nw hnw, e1, ea, ↓reduceIte, eb, htb, expectProgress_ok, Bool.not_true,
      Bool.false_eq_true, OState.inherit, Bool.or_self, ec, ed, Res.pure_eq]
    exact e3

/-- tokens of a function result after `=>` (alias, or a struct body; the bare-type-reference form is not covered here) -/
def retToks : TypeDef → List TK
  | .alias t => (T.tl2alias, bs "<=>") :: typeToks t
  | .struct sd => sd.toks

/-- tokens of a function declaration after its name -/
def funcDeclToks (d : FuncDecl) : List TK :=
  (T.crc32hash, bs "#" ++ hex8 d.magic) :: (fieldsToks d.args ++ ((T.functionSign, bs "=>") :: retToks d.ret))

def FuncDecl.wf (d : FuncDecl) : Bool :=
  decide (d.magic ≠ 0) && decide (d.magic < 4294967296) && d.args.all Field.wf && d.ret.wf

/-- `parseTL2FuncDeclarationWithoutName` recovers a well-formed function declaration whose result is an alias or a
struct body (up to comments) from the tokens after its name, up to the closing `;`. -/
theorem funcDeclS (hc : Ctx N tx it) (d : FuncDecl) (hwf : d.wf = true) (its : Iter) (hsuf0 : its <:+ it) (ks : List TK)
    (pos : Pos) (fuel : Nat) (hm : strip its = funcDeclToks d ++ semiTK :: ks) (hf : d.ret.need + 3 ≤ fuel)
    (hf2 : needFields d.args ≤ fuel) :
    ∃ rest d', parseFuncDecl tx fuel its pos d.name = .ok ({ start := true }, rest, d') ∧
      d'.name = d.name ∧ d'.magic = d.magic ∧ d'.args.map Field.core = d.args.map Field.core ∧ d'.ret.core = d.ret.core ∧
      strip rest = semiTK :: ks ∧ rest <:+ its := by
  simp only [FuncDecl.wf, Bool.and_eq_true, decide_eq_true_eq] at hwf
  obtain ⟨⟨⟨hm0, hm32⟩, hawf⟩, hrwf⟩ := hwf
  have hawf' : ∀ f ∈ d.args, f.wf = true := fun f hf => (List.all_eq_true.mp hawf) f hf
  simp only [funcDeclToks, List.cons_append, List.append_assoc] at hm
  obtain ⟨hd, r, e, hnw, htk, hr, hsuf⟩ := skipWS_strip hm
  have hty : (hd.ty == T.crc32hash) = true := by rw [show hd.ty = hd.tk.1 from rfl, htk]; rfl
  obtain ⟨kf, ksf, hkf⟩ : ∃ kf ksf, fieldsToks d.args ++ ((T.functionSign, bs "=>") :: (retToks d.ret ++ semiTK :: ks)) = kf :: ksf := by
    cases hh : fieldsToks d.args with
    | nil => exact ⟨_, _, rfl⟩
    | cons a b => exact ⟨a, _, rfl⟩
  have em := parseMagicS (hd :: r) d.magic hm0 hm32 kf ksf pos hd r rfl hnw htk (by rw [hr, hkf])
  have hneed := needFields_ge d.args
  obtain ⟨r2, args', ea, hacore, hr2, hs2⟩ := fieldsS hc pos fuel d.args hawf' (fun g hg => by have := hneed.2 g hg; omega)
    r ((List.suffix_cons hd r).trans (hsuf.trans hsuf0)) (T.functionSign, bs "=>") (retToks d.ret ++ semiTK :: ks) fuel [] false
    hr (by decide) (by decide) (by omega)
  obtain ⟨r3, e3, hr3, hs3⟩ := (expect_strip hr2 T.functionSign).1 rfl
  have hr3it : r3 <:+ it := hs3.trans (hs2.trans ((List.suffix_cons hd r).trans (hsuf.trans hsuf0)))
  have hsr3 : r3 <:+ its := hs3.trans (hs2.trans ((List.suffix_cons hd r).trans hsuf))
  cases hret : d.ret with
  | alias t =>
    rw [hret] at hr3 hrwf hf
    simp only [retToks, TypeDef.wf, TypeDef.need, List.cons_append] at hr3 hrwf hf
    obtain ⟨hd4, r4, e4, hnw4, htk4, hr4, hsuf4⟩ := skipWS_strip hr3
    have hty4 : (hd4.ty == T.tl2alias) = true := by rw [show hd4.ty = hd4.tk.1 from rfl, htk4]; rfl
    have ect : checkToken r3 T.tl2alias = .ok (true, hd4 :: r4) := by
      simp only [checkToken, checkAny, e4, Res.ok_bind, front_cons, Res.pure_eq, List.contains_cons, List.contains_nil,
        Bool.or_false, hty4]
    obtain ⟨r5, e5, hr5, hs5⟩ := typeS t hrwf r4 (semiTK :: ks) pos fuel hr4 ⟨semiTK, ks, rfl, by decide⟩ (by omega)
    obtain ⟨t5, ht5⟩ := front_strip hr5
    refine ⟨r5, { name := d.name, magic := d.magic, args := [] ++ args', ret := .alias t }, ?_, rfl, rfl, by simpa using hacore,
      rfl, hr5, hs5.trans ((List.suffix_cons hd4 r4).trans (hsuf4.trans hsr3))⟩
    unfold parseFuncDecl parseFields
    simp only [e, Res.ok_bind, checkToken_nw hnw, hty, Bool.not_true, Bool.false_eq_true, ↓reduceIte, em, ea, OState.isFailed,
      Option.isSome, Bool.and_false, e3, ect, popFront_cons, e5, OState.inherit, Bool.or_self, Bool.or_true, OState.hasProgress, Option.isNone,
      Bool.and_self, ht5, Res.pure_eq]
  | struct sd =>
    rw [hret] at hr3 hrwf hf
    simp only [retToks, TypeDef.wf, TypeDef.need] at hr3 hrwf hf
    -- the token after `=>` is not `<=>`
    obtain ⟨k4, ks4, hk4, hk4ty⟩ : ∃ k4 ks4, sd.toks ++ semiTK :: ks = k4 :: ks4 ∧ k4.1 ≠ T.tl2alias := by
      cases sd with
      | fields fs =>
        cases fs with
        | nil => exact ⟨semiTK, ks, by simp [StructDef.toks, fieldsToks], by decide⟩
        | cons f fs =>
          simp only [StructDef.wf] at hrwf
          obtain ⟨kf, ksf, hkf, hmem⟩ := fieldToks_head f ((List.all_eq_true.mp hrwf) f List.mem_cons_self)
          refine ⟨kf, ksf ++ (fieldsToks fs ++ semiTK :: ks), by simp [StructDef.toks, fieldsToks, hkf], ?_⟩
          simp only [fieldStart, List.mem_cons, List.not_mem_nil, or_false] at hmem
          rcases hmem with h | h | h | h <;> rw [h] <;> decide
      | union vs =>
        cases vs with
        | nil => exact ⟨semiTK, ks, by simp [StructDef.toks], by decide⟩
        | cons v vs =>
          refine ⟨(variantNameTy v.name, v.name), v.body.toks ++ (moreVariantsToks vs ++ semiTK :: ks),
            by simp [StructDef.toks, variantToks], ?_⟩
          have := variantNameTy_mem v.name
          simp only [variantStart, List.mem_cons, List.not_mem_nil, or_false] at this
          rcases this with h | h | h <;> (show variantNameTy v.name ≠ _) <;> rw [h] <;> decide
    rw [hk4] at hr3
    obtain ⟨hd4, r4, e4, hnw4, htk4, hr4, hsuf4⟩ := skipWS_strip hr3
    have hty4 : (hd4.ty == T.tl2alias) = false := by
      rw [show hd4.ty = hd4.tk.1 from rfl, htk4]; simpa using hk4ty
    have ect : checkToken r3 T.tl2alias = .ok (false, hd4 :: r4) := by
      simp only [checkToken, checkAny, e4, Res.ok_bind, front_cons, Res.pure_eq, List.contains_cons, List.contains_nil,
        Bool.or_false, hty4]
    have hs4 : strip (hd4 :: r4) = sd.toks ++ semiTK :: ks := by rw [strip_cons_nw hnw4, htk4, hr4, hk4]
    obtain ⟨st', r5, sd', e5, hste', hcore, hr5, hs5⟩ := structS hc sd hrwf (hd4 :: r4) (hsuf4.trans hr3it) ks pos fuel hs4
      (by omega)
    obtain ⟨t5, ht5⟩ := front_strip hr5
    cases st' with
    | mk start' err' =>
    simp only at hste'
    subst hste'
    cases start' with
    | true =>
      refine ⟨r5, { name := d.name, magic := d.magic, args := [] ++ args', ret := .struct sd' }, ?_, rfl, rfl,
        by simpa using hacore, by simp only [TypeDef.core, hcore], hr5, hs5.trans (hsuf4.trans hsr3)⟩
      unfold parseFuncDecl parseFields
      simp only [e, Res.ok_bind, checkToken_nw hnw, hty, Bool.not_true, Bool.false_eq_true, ↓reduceIte, em, ea, OState.isFailed,
        Option.isSome, Bool.and_false, e3, ect, e5, OState.hasProgress, Option.isNone, Bool.and_self, ht5, Res.pure_eq]
    | false =>
      obtain ⟨r6, e6, hr6, hs6⟩ := typeS_omitted hr5 pos fuel (by omega) (by decide) (by decide) (by decide)
      obtain ⟨t6, ht6⟩ := front_strip hr6
      refine ⟨r6, { name := d.name, magic := d.magic, args := [] ++ args', ret := .struct sd' }, ?_, rfl, rfl,
        by simpa using hacore, by simp only [TypeDef.core, hcore], hr6, hs6.trans (hs5.trans (hsuf4.trans hsr3))⟩
      unfold parseFuncDecl parseFields
      simp only [e, Res.ok_bind, checkToken_nw hnw, hty, Bool.not_true, Bool.false_eq_true, ↓reduceIte, em, ea, OState.isFailed,
        Option.isSome, Bool.and_false, e3, ect, e5, OState.hasProgress, Bool.false_and, Bool.not_false, e6, OState.isOmitted, Bool.and_self,
        ht6, Res.pure_eq]

end TLVerif.Syntaxtl2
