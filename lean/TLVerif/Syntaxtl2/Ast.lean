import TLVerif.Syntaxtl2.Basic
/-! TL2 AST of internal/tlast/tlparser_tl2.go, by the selected branches (IsFunction, IsTypeAlias, IsUnionType,
BracketType != nil, IsNumber, HasIndex), without position ranges. Comments are kept (the default formatter prints them). -/
namespace TLVerif.Syntaxtl2

structure TName where
  ns : Bytes
  name : Bytes
deriving DecidableEq, Repr, Inhabited

mutual
inductive TypeRef where
  | app (name : TName) (args : List TypeArg)
  | bracket (index : Option TypeArg) (elem : TypeRef)
inductive TypeArg where
  | num (n : Nat)
  | ty (t : TypeRef)
end

instance : Inhabited TypeRef := ⟨.app ⟨[], []⟩ []⟩
instance : Inhabited TypeArg := ⟨.ty default⟩

structure Field where
  name : Bytes
  optional : Bool
  ignored : Bool
  ty : TypeRef
  cb : Bytes      -- CommentBefore
  cr : Bytes      -- CommentRight
deriving Inhabited

inductive VBody where
  | alias (t : TypeRef)
  | fields (fs : List Field)
deriving Inhabited

structure Variant where
  name : Bytes
  body : VBody
  cb : Bytes
deriving Inhabited

inductive StructDef where
  | union (vs : List Variant)
  | fields (fs : List Field)
deriving Inhabited

inductive TypeDef where
  | alias (t : TypeRef)
  | struct (s : StructDef)
deriving Inhabited

structure Templ where
  name : Bytes
  isNat : Bool
deriving DecidableEq, Repr, Inhabited

structure TypeDecl where
  name : TName
  magic : Nat
  templs : List Templ
  ty : TypeDef
deriving Inhabited

structure FuncDecl where
  name : TName
  magic : Nat
  args : List Field
  ret : TypeDef
deriving Inhabited

inductive Decl where
  | type (d : TypeDecl)
  | func (d : FuncDecl)
deriving Inhabited

structure Comb where
  anns : List Bytes
  decl : Decl
  cb : Bytes
deriving Inhabited

abbrev File := List Comb

/-! The two shapes on which `TL2File.Print` is known not to round-trip (known_findings.d/C22.json). -/

/-- a deprecated-name field `_name:T` (`IsIgnored` with `Name != "_"`). -/
def Field.isDep (f : Field) : Bool := f.ignored && f.name != [95]

def fieldsHaveDep (fs : List Field) : Bool := fs.any Field.isDep

def TypeDef.hasDep : TypeDef → Bool
  | .alias _ => false
  | .struct (.fields fs) => fieldsHaveDep fs
  | .struct (.union vs) => vs.any (fun v => match v.body with | .alias _ => false | .fields fs => fieldsHaveDep fs)

def TypeDef.hasSingletonUnion : TypeDef → Bool
  | .struct (.union vs) => vs.length == 1
  | _ => false

def Comb.hasDep (c : Comb) : Bool :=
  match c.decl with
  | .type d => d.ty.hasDep
  | .func d => fieldsHaveDep d.args || d.ret.hasDep

def Comb.hasSingletonUnion (c : Comb) : Bool :=
  match c.decl with
  | .type d => d.ty.hasSingletonUnion
  | .func d => d.ret.hasSingletonUnion

end TLVerif.Syntaxtl2
