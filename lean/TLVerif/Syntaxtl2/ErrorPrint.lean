import TLVerif.Syntaxtl2.Basic
import TLVerif.Syntaxtl2.Text
/-! Model of `ParseError.ConsolePrint` / `PrintWarning` / `consolePrint` / `safeRange` of tlparser_error.go for an error
whose three positions refer to the same file content `fc` (what ParseTL2File produces), message "E", empty file name.
Every slice is guarded the way the Go code guards it; the unguarded ones are explicit `.panic`. -/
namespace TLVerif.Syntaxtl2

/-- `safeRange(s, b, e, &anyCorrupted)`: the slice and whether it flagged corruption (ints are non-negative here). -/
def safeRange (s : Bytes) (b e : Nat) : Bytes × Bool :=
  if b > s.length || e < b || e > s.length then ([], true) else ((s.take e).drop b, false)

def colorRed : Bytes := [27] ++ bs "[31m"
def colorYellow : Bytes := [27] ++ bs "[33m"
def colorWhite : Bytes := [27] ++ bs "[97m"
def colorReset : Bytes := [27] ++ bs "[0m"
def colorize (c s : Bytes) : Bytes := c ++ s ++ colorReset

/-- `consolePrint(out, errors.New("E"), c, isWarning)`; `.panic` where Go would panic (no such place: the only
unguarded slices are `fc[End.offset:]`, guarded by the `if` before it, and `tail[:i]` with `i` from IndexAny). -/
def consolePrint (fc : Bytes) (e : PErr) (c : Bytes) (isWarning : Bool) : Res Bytes :=
  let (beforeBegin, c1) := safeRange fc e.outer.slo e.b.slo
  let (beforeEndLine, c2) := safeRange fc e.b.slo e.e.slo
  let (red0, c3) := safeRange fc e.e.slo e.e.off
  let (ourLineBeforeBegin, ourLineRed, c4) :=
    if e.b.slo == e.e.slo then
      let (bb, c5) := safeRange fc e.b.slo e.b.off
      let (rr, c6) := safeRange fc e.b.off e.e.off
      (replaceTabs bb, replaceTabs rr, c5 || c6)
    else ([], replaceTabs red0, false)
  let errLineBeforeBegin := List.replicate ourLineBeforeBegin.length (32 : UInt8)
  let arrow0 := List.replicate ourLineRed.length (94 : UInt8)
  let arrowText := (if arrow0.length == 0 then bs "^" else arrow0) ++ bs "--"
  let (tail, c7) := if e.e.off > fc.length then ([], true) else (fc.drop e.e.off, false)
  let anyCorrupted := c1 || c2 || c3 || c4 || c7
  let after1 := replaceTabs (untilNL tail)
  let after2 := bs "E" ++ bs " " ++ bs " (line " ++ decimal e.b.line ++ bs " col " ++ decimal e.b.col ++ bs ")"
  let head := if beforeEndLine != [] then beforeBegin ++ c ++ beforeEndLine else beforeBegin
  let warnText := if isWarning then colorize colorYellow (bs "warning: ") else []
  if anyCorrupted then
    .ok (head ++ bs "E\n" ++ bs "beautiful error context corrupted, " ++ colorize colorRed (bs "internal error") ++
      bs ", please report with TL file\n")
  else
    .ok (head ++ ourLineBeforeBegin ++ colorize c ourLineRed ++ after1 ++ bs "\n" ++
      errLineBeforeBegin ++ colorize colorWhite arrowText ++ bs " " ++ warnText ++ after2 ++ bs "\n")

/-- `e.ConsolePrint(out, errors.New("E"), false)`. -/
def consolePrintError (fc : Bytes) (e : PErr) : Res Bytes := consolePrint fc e colorRed false

/-- `e.PrintWarning(out, errors.New("E"))`. -/
def printWarning (fc : Bytes) (e : PErr) : Res Bytes :=
  match consolePrint fc e colorYellow true with
  | .ok s => .ok (s ++ bs "\n")
  | r => r

end TLVerif.Syntaxtl2
