import TLVerif.Syntaxtl2.Basic
import TLVerif.Syntaxtl2.Text
/-! Model of `ParseError.ConsolePrint` / `PrintWarning` / `consolePrint` / `safeRange` of tlparser_error.go for an error
whose three positions refer to the same file content `fc` (what ParseTL2File produces), message "E", empty file name.
Every slice is guarded the way the Go code guards it; the unguarded ones are explicit `.panic`. -/
namespace TLVerif.Syntaxtl2

/-- `safeRange(s, b, e, &anyCorrupted)`: the slice and whether it flagged corruption (ints are non-negative here);
the slice `s[b:e]` after the guard is an explicit bounds check. -/
def safeRange (s : Bytes) (b e : Nat) : Res (Bytes × Bool) :=
  if b > s.length || e < b || e > s.length then pure ([], true)
  else do
    let r ← slice s b e
    pure (r, false)

def colorRed : Bytes := [27] ++ bs "[31m"
def colorYellow : Bytes := [27] ++ bs "[33m"
def colorWhite : Bytes := [27] ++ bs "[97m"
def colorReset : Bytes := [27] ++ bs "[0m"
def colorize (c s : Bytes) : Bytes := c ++ s ++ colorReset

structure PrintParts where
  beforeBegin : Bytes
  beforeEndLine : Bytes
  ourLineBeforeBegin : Bytes
  ourLineRed : Bytes
  tail : Bytes
  anyCorrupted : Bool

/-- first half of `consolePrint`: all slices of the file content and the `anyCorrupted` flag. Every Go slice
expression is an explicit bounds check (`safeRange`, `fc[e.Pos.End.offset:]` behind its `if`). -/
def consoleParts (fc : Bytes) (e : PErr) : Res PrintParts := do
  let (beforeBegin, c1) ← safeRange fc e.outer.slo e.b.slo
  let (beforeEndLine, c2) ← safeRange fc e.b.slo e.e.slo
  let (red0, c3) ← safeRange fc e.e.slo e.e.off
  let (ourLineBeforeBegin, ourLineRed, c4) ←
    (if e.b.slo == e.e.slo then do
      let (bb, c5) ← safeRange fc e.b.slo e.b.off
      let (rr, c6) ← safeRange fc e.b.off e.e.off
      pure (replaceTabs bb, replaceTabs rr, c5 || c6)
    else pure ([], replaceTabs red0, false) : Res (Bytes × Bytes × Bool))
  let (tail, c7) ← (if e.e.off > fc.length then pure ([], true) else do
      let t ← slice fc e.e.off fc.length
      pure (t, false) : Res (Bytes × Bool))
  pure { beforeBegin := beforeBegin, beforeEndLine := beforeEndLine, ourLineBeforeBegin := ourLineBeforeBegin,
         ourLineRed := ourLineRed, tail := tail, anyCorrupted := c1 || c2 || c3 || c4 || c7 }

/-- second half of `consolePrint(out, errors.New("E"), c, isWarning)`: the text written (`tail[:i]` takes `i` from
`strings.IndexAny`). -/
def renderParts (p : PrintParts) (e : PErr) (c : Bytes) (isWarning : Bool) : Bytes :=
  let errLineBeforeBegin := List.replicate p.ourLineBeforeBegin.length (32 : UInt8)
  let arrow0 := List.replicate p.ourLineRed.length (94 : UInt8)
  let arrowText := (if arrow0.length == 0 then bs "^" else arrow0) ++ bs "--"
  let after1 := replaceTabs (untilNL p.tail)
  let after2 := bs "E" ++ bs " " ++ bs " (line " ++ decimal e.b.line ++ bs " col " ++ decimal e.b.col ++ bs ")"
  let head := if p.beforeEndLine != [] then p.beforeBegin ++ c ++ p.beforeEndLine else p.beforeBegin
  let warnText := if isWarning then colorize colorYellow (bs "warning: ") else []
  if p.anyCorrupted then
    head ++ bs "E\n" ++ bs "beautiful error context corrupted, " ++ colorize colorRed (bs "internal error") ++
      bs ", please report with TL file\n"
  else
    head ++ p.ourLineBeforeBegin ++ colorize c p.ourLineRed ++ after1 ++ bs "\n" ++
      errLineBeforeBegin ++ colorize colorWhite arrowText ++ bs " " ++ warnText ++ after2 ++ bs "\n"

def consolePrint (fc : Bytes) (e : PErr) (c : Bytes) (isWarning : Bool) : Res Bytes := do
  let p ← consoleParts fc e
  pure (renderParts p e c isWarning)

/-- `e.ConsolePrint(out, errors.New("E"), false)`. -/
def consolePrintError (fc : Bytes) (e : PErr) : Res Bytes := consolePrint fc e colorRed false

/-- `e.PrintWarning(out, errors.New("E"))`. -/
def printWarning (fc : Bytes) (e : PErr) : Res Bytes :=
  match consolePrint fc e colorYellow true with
  | .ok s => .ok (s ++ bs "\n")
  | r => r

end TLVerif.Syntaxtl2
