import TLVerif.Syntaxtl2.FieldLemmas
/-! Token-level round trip of union variants. -/
set_option linter.unusedSimpArgs false
namespace TLVerif.Syntaxtl2
variable {N : Nat} {tx : Bytes} {it : Iter}

def variantNameTy (n : Bytes) : Int := if n == typeWord then T.tl2typeSign else identTy n
def variantStart : List Int := [T.ucIdent, T.lcIdent, T.tl2typeSign]

def VBody.toks : VBody → List TK
  | .alias t => typeToks t
  | .fields fs => fieldsToks fs
def variantToks (v : Variant) : List TK := (variantNameTy v.name, v.name) :: v.body.toks

def VBody.wf : VBody → Bool
  | .alias t => t.wf
  | .fields fs => fs.all Field.wf
def Variant.wf (v : Variant) : Bool := (v.name == typeWord || isIdent v.name) && v.body.wf

def VBody.need : VBody → Nat
  | .alias t => needT t
  | .fields fs => needFields fs

/-- the tokens that may follow a union variant -/
def variantEnd : List Int := [T.semiColon, T.verticalBar]

theorem variantNameTy_mem (n : Bytes) : variantNameTy n ∈ variantStart := by
  unfold variantNameTy variantStart
  split
  · simp
  · rcases identTy_mem n with h | h <;> simp [h]

/-- a field is not started on the tokens of a type followed by `;` or `|` (the alias form of a union variant). -/
theorem fieldNotStartedOnType (hc : Ctx N tx it) (t : TypeRef) (hwf : t.wf = true) (its : Iter) (hsuf0 : its <:+ it)
    (k : TK) (ks : List TK) (pos : Pos) (fuel : Nat) (hm : strip its = typeToks t ++ k :: ks) (hk : k.1 ∈ variantEnd) :
    ∃ f0, parseField tx fuel its pos = .ok ({ start := false }, its, f0) := by
  obtain ⟨k0, ks0, hk0, hmem⟩ := typeToks_head t
  have hm0 : strip its = k0 :: (ks0 ++ k :: ks) := by rw [hm, hk0]; rfl
  by_cases hfs : fieldStart.contains k0.1 = true
  · -- the type starts with a plain identifier: the parser pops it as a field name and then sees neither `?` nor `:`
    obtain ⟨hd, r, e, hnw, htk, hr, hsuf⟩ := skipWS_strip hm0
    have hty : hd.ty = k0.1 := by rw [← htk]; rfl
    obtain ⟨cb, hcb, _⟩ := parseCommentBefore_step hc.good hc.tx hsuf0 e
    -- what follows the identifier: `<`, or the end token
    have hnext : ∃ k1 ks1, ks0 ++ k :: ks = k1 :: ks1 ∧ k1.1 ≠ T.questionMark ∧ k1.1 ≠ T.colon := by
      cases t with
      | app name args =>
        obtain ⟨kn, hkn⟩ := tnameToks_single name
        cases args with
        | nil =>
          simp only [typeToks, hkn] at hk0
          injection hk0 with _ h2
          subst h2
          refine ⟨k, ks, rfl, ?_, ?_⟩ <;>
            (intro h; rw [h] at hk; revert hk; decide)
        | cons a as =>
          simp only [typeToks, hkn, List.singleton_append, List.cons_append, List.nil_append, List.append_assoc] at hk0
          injection hk0 with _ h2
          subst h2
          exact ⟨_, _, rfl, by decide, by decide⟩
      | bracket index elem =>
        exfalso
        cases index <;>
          (simp only [typeToks, List.singleton_append, List.cons_append, List.nil_append, List.append_assoc] at hk0
           injection hk0 with h1 _
           rw [← h1] at hfs
           revert hfs; decide)
    obtain ⟨k1, ks1, hks1, hq, hcl⟩ := hnext
    rw [hks1] at hr
    obtain ⟨t1, ht1⟩ := front_strip hr
    obtain ⟨r1, e1, hr1, hs1, _⟩ := (expect_strip hr T.questionMark).2 hq
    obtain ⟨r2, e2, hr2, hs2, _⟩ := (expect_strip hr1 T.colon).2 hcl
    obtain ⟨t2, ht2⟩ := front_strip hr2
    refine ⟨Field.mk hd.val false (hd.ty == T.underscore || hd.ty == T.tl2depName) default cb [], ?_⟩
    unfold parseField
    simp only [e, Res.ok_bind, hcb, checkAny_nw hnw, show [T.lcIdent, T.underscore, T.ucIdent, T.tl2depName] = fieldStart from rfl,
      hty, hfs, Bool.not_true, Bool.false_eq_true, ↓reduceIte, skipWS_nw hnw, popFront_cons, ht1, e1, Bool.false_and, e2,
      Bool.not_false, ht2, Res.pure_eq]
  · exact fieldStopS hc its hsuf0 k0 _ pos fuel hm0 (by simpa using hfs)

/-- `parseTL2UnionConstructor` recovers a well-formed variant followed by `;` or `|`. -/
theorem variantS (hc : Ctx N tx it) (v : Variant) (hwf : v.wf = true) (its : Iter) (hsuf0 : its <:+ it) (k : TK)
    (ks : List TK) (pos : Pos) (fuel : Nat) (hm : strip its = variantToks v ++ k :: ks) (hk : k.1 ∈ variantEnd)
    (hf : v.body.need ≤ fuel) :
    ∃ rest v', parseUnionConstructor tx fuel its pos = .ok ({ start := true }, rest, v') ∧ v'.core = v.core ∧
      strip rest = k :: ks ∧ rest <:+ its := by
  have hg := hc.good
  simp only [Variant.wf, Bool.and_eq_true] at hwf
  simp only [variantToks, List.cons_append] at hm
  obtain ⟨hd, r, e, hnw, htk, hr, hsuf⟩ := skipWS_strip hm
  have hty : hd.ty = variantNameTy v.name := by rw [show hd.ty = hd.tk.1 from rfl, htk]
  have hval : hd.val = v.name := by rw [show hd.val = hd.tk.2 from rfl, htk]
  have hchk : variantStart.contains hd.ty = true := by rw [hty]; simpa using variantNameTy_mem v.name
  have hkne : fieldStart.contains k.1 = false ∧ k.1 ≠ T.lAngle ∧ variantEnd.contains k.1 = true := by
    simp only [variantEnd, List.mem_cons, List.not_mem_nil, or_false] at hk
    rcases hk with h | h <;> rw [h] <;> decide
  have hrit : r <:+ it := (List.suffix_cons hd r).trans (hsuf.trans hsuf0)
  cases hb : v.body with
  | fields fs =>
    rw [hb] at hwf hf hr
    simp only [VBody.wf, VBody.need, VBody.toks] at hwf hf hr
    cases fs with
    | nil =>
      simp only [fieldsToks, List.map_nil, List.flatten_nil, List.nil_append] at hr
      obtain ⟨t1, ht1⟩ := front_strip hr
      obtain ⟨hd2, r2, e2, hnw2, htk2, hr2, hsuf2⟩ := skipWS_strip hr
      have hty2 : hd2.ty = k.1 := by rw [← htk2]; rfl
      refine ⟨r, { name := hd.val, body := .fields [], cb := [] }, ?_, by simp [Variant.core, VBody.core, hval, hb], hr,
        (List.suffix_cons hd r).trans hsuf⟩
      unfold parseUnionConstructor
      simp only [e, Res.ok_bind, checkAny_nw hnw, show [T.ucIdent, T.lcIdent, T.tl2typeSign] = variantStart from rfl, hchk,
        Bool.not_true, Bool.false_eq_true, ↓reduceIte, skipWS_nw hnw, popFront_cons, ht1, checkAny, e2, front_cons,
        Res.pure_eq, show [T.semiColon, T.verticalBar] = variantEnd from rfl, hty2, hkne.2.2]
    | cons f fs =>
      have hwfs : ∀ g ∈ f :: fs, g.wf = true := by
        intro g hg; exact (List.all_eq_true.mp hwf.2) g hg
      obtain ⟨kf, ksf, hkf, hmemf⟩ := fieldToks_head f (hwfs f List.mem_cons_self)
      have hr' : strip r = kf :: (ksf ++ (fieldsToks fs ++ k :: ks)) := by
        rw [hr]; simp [fieldsToks, hkf]
      obtain ⟨t1, ht1⟩ := front_strip hr'
      obtain ⟨hd2, r2, e2, hnw2, htk2, hr2, hsuf2⟩ := skipWS_strip hr'
      have hty2 : hd2.ty = kf.1 := by rw [← htk2]; rfl
      have hnotend : variantEnd.contains kf.1 = false := by
        simp only [fieldStart, List.mem_cons, List.not_mem_nil, or_false] at hmemf
        rcases hmemf with h | h | h | h <;> rw [h] <;> decide
      have hneed := needFields_ge (f :: fs)
      obtain ⟨rest, fs', efs, hcore, hrest, hsr⟩ := fieldsS hc pos fuel (f :: fs) hwfs
        (fun g hg => Nat.le_trans (hneed.2 g hg) hf) r hrit k ks fuel [] false hr hkne.1 hkne.2.1 (by omega)
      obtain ⟨t3, ht3⟩ := front_strip hrest
      refine ⟨rest, { name := hd.val, body := .fields fs', cb := [] }, ?_,
        by simp only [Variant.core, VBody.core, hval, hb, hcore], hrest, hsr.trans ((List.suffix_cons hd r).trans hsuf)⟩
      unfold parseUnionConstructor parseFields
      simp only [e, Res.ok_bind, checkAny_nw hnw, show [T.ucIdent, T.lcIdent, T.tl2typeSign] = variantStart from rfl, hchk,
        Bool.not_true, Bool.false_eq_true, ↓reduceIte, skipWS_nw hnw, popFront_cons, ht1, checkAny, e2, front_cons,
        Res.pure_eq, show [T.semiColon, T.verticalBar] = variantEnd from rfl, hty2, hnotend, efs, List.nil_append,
        List.isEmpty_cons, Bool.not_false, Bool.or_true, ht3, OState.inherit, Bool.or_self]
  | alias t =>
    rw [hb] at hwf hf hr
    simp only [VBody.wf, VBody.need, VBody.toks] at hwf hf hr
    obtain ⟨kt, kst, hkt, hmemt⟩ := typeToks_head t
    have hr' : strip r = kt :: (kst ++ k :: ks) := by rw [hr, hkt]; rfl
    obtain ⟨t1, ht1⟩ := front_strip hr'
    obtain ⟨hd2, r2, e2, hnw2, htk2, hr2, hsuf2⟩ := skipWS_strip hr'
    have hty2 : hd2.ty = kt.1 := by rw [← htk2]; rfl
    have hnotend : variantEnd.contains kt.1 = false := by
      simp only [List.mem_cons, List.not_mem_nil, or_false] at hmemt
      rcases hmemt with h | h | h | h | h <;> rw [h] <;> decide
    have hpos := needT_pos t
    obtain ⟨f0, ef0⟩ := fieldNotStartedOnType hc t hwf.2 r hrit k ks pos fuel hr hk
    obtain ⟨rest, ety, hrest, hsr⟩ := typeS t hwf.2 r (k :: ks) pos fuel hr ⟨k, ks, rfl, hkne.2.1⟩ hf
    obtain ⟨t3, ht3⟩ := front_strip hrest
    obtain ⟨fz, hfz⟩ : ∃ fz, fuel = fz + 1 := ⟨fuel - 1, by omega⟩
    refine ⟨rest, { name := hd.val, body := .alias t, cb := [] }, ?_, by simp [Variant.core, VBody.core, hval, hb], hrest,
      hsr.trans ((List.suffix_cons hd r).trans hsuf)⟩
    unfold parseUnionConstructor parseFields
    simp only [e, Res.ok_bind, checkAny_nw hnw, show [T.ucIdent, T.lcIdent, T.tl2typeSign] = variantStart from rfl, hchk,
      Bool.not_true, Bool.false_eq_true, ↓reduceIte, skipWS_nw hnw, popFront_cons, ht1, checkAny, e2, front_cons,
      Res.pure_eq, show [T.semiColon, T.verticalBar] = variantEnd from rfl, hty2, hnotend]
    rw [hfz, zeroOrMore]
    rw [← hfz]
    simp only [ef0, Res.ok_bind, OState.hasProgress, Bool.false_and, Bool.not_false, ↓reduceIte, Res.pure_eq, Bool.or_self,
      OState.inherit, Bool.or_false, ety, OState.isOmitted, Bool.not_true, Bool.false_eq_true, ht3]

end TLVerif.Syntaxtl2
