import TLVerif.Syntaxtl2.VariantLemmas
/-! Token-level round trip of union types (two or more variants, no leading `|`). -/
set_option linter.unusedSimpArgs false
namespace TLVerif.Syntaxtl2
variable {N : Nat} {tx : Bytes} {it : Iter}

def vbTK : TK := (T.verticalBar, bs "|")
/-- `| v` repetitions -/
def moreVariantsToks (vs : List Variant) : List TK := (vs.map (fun v => vbTK :: variantToks v)).flatten

def needVariants : List Variant → Nat
  | [] => 1
  | v :: vs => v.body.need + 1 + needVariants vs

theorem needVariants_ge (vs : List Variant) : vs.length + 1 ≤ needVariants vs ∧ ∀ v ∈ vs, v.body.need ≤ needVariants vs := by
  induction vs with
  | nil => simp [needVariants]
  | cons v vs ih =>
    simp only [needVariants, List.length_cons, List.mem_cons, forall_eq_or_imp]
    refine ⟨by omega, by omega, fun g hg => ?_⟩
    have := ih.2 g hg; omega

/-- the `| variant` loop of `parseTL2UnionType`, ended by `;`. -/
theorem variantsLoopS (hc : Ctx N tx it) (pos : Pos) (fuel : Nat) : ∀ (vs : List Variant), (∀ v ∈ vs, v.wf = true) →
    (∀ v ∈ vs, v.body.need ≤ fuel) →
    ∀ (its : Iter), its <:+ it → ∀ (ks : List TK) (fz : Nat) (acc : List Variant),
    strip its = moreVariantsToks vs ++ (T.semiColon, bs ";") :: ks → vs.length < fz →
    ∃ rest vs', parseVariantsLoop tx fuel pos fz { start := true } its acc = .ok ({ start := true }, rest, acc ++ vs', false) ∧
      vs'.map Variant.core = vs.map Variant.core ∧ strip rest = (T.semiColon, bs ";") :: ks ∧ rest <:+ its := by
  intro vs
  induction vs with
  | nil =>
    intro _ _ its hsuf0 ks fz acc hm hfz
    simp only [moreVariantsToks, List.map_nil, List.flatten_nil, List.nil_append] at hm
    obtain ⟨f, rfl⟩ : ∃ f, fz = f + 1 := ⟨fz - 1, by simp at hfz; omega⟩
    obtain ⟨hd, r, e, _, _, _, _⟩ := skipWS_strip hm
    obtain ⟨r1, e1, hr1, hs1, _⟩ := (expect_strip hm T.verticalBar).2 (by decide)
    refine ⟨r1, [], ?_, rfl, hr1, hs1⟩
    unfold parseVariantsLoop
    simp only [e, Res.ok_bind, e1, Bool.not_false, ↓reduceIte, Res.pure_eq, List.append_nil]
  | cons v vs ih =>
    intro hwf hfuel its hsuf0 ks fz acc hm hfz
    simp only [List.length_cons] at hfz
    obtain ⟨fz', rfl⟩ : ∃ f, fz = f + 1 := ⟨fz - 1, by omega⟩
    have hm' : strip its = vbTK :: (variantToks v ++ (moreVariantsToks vs ++ (T.semiColon, bs ";") :: ks)) := by
      rw [hm]; simp [moreVariantsToks]
    obtain ⟨hd, r, e, _, _, _, _⟩ := skipWS_strip hm'
    obtain ⟨r1, e1, hr1, hs1⟩ := (expect_strip hm' T.verticalBar).1 rfl
    obtain ⟨cb, hcb, _⟩ := parseCommentBefore_step hc.good hc.tx hsuf0 e
    -- what follows this variant: `|` or `;`
    obtain ⟨k, ks2, hk2, hkend⟩ : ∃ k ks2, moreVariantsToks vs ++ (T.semiColon, bs ";") :: ks = k :: ks2 ∧ k.1 ∈ variantEnd := by
      cases vs with
      | nil => exact ⟨(T.semiColon, bs ";"), ks, by simp [moreVariantsToks], by decide⟩
      | cons w ws =>
        exact ⟨vbTK, variantToks w ++ (moreVariantsToks ws ++ (T.semiColon, bs ";") :: ks), by simp [moreVariantsToks],
          by decide⟩
    rw [hk2] at hr1
    obtain ⟨r2, v', ev, hcore, hr2, hs2⟩ := variantS hc v (hwf v List.mem_cons_self) r1 (hs1.trans hsuf0) k ks2 pos fuel hr1
      hkend (hfuel v List.mem_cons_self)
    obtain ⟨t2, ht2⟩ := front_strip hr2
    rw [← hk2] at hr2
    obtain ⟨rest, vs', el, hcores, hrest, hs3⟩ := ih (fun g hg => hwf g (List.mem_cons_of_mem _ hg))
      (fun g hg => hfuel g (List.mem_cons_of_mem _ hg)) r2 (hs2.trans (hs1.trans hsuf0)) ks fz' (acc ++ [{ v' with cb := cb }])
      hr2 (by omega)
    refine ⟨rest, { v' with cb := cb } :: vs', ?_, by (have h := hcore; simp only [Variant.core, Variant.mk.injEq] at h; simp [hcores, Variant.core, h.1, h.2.1]), hrest, hs3.trans (hs2.trans hs1)⟩
    unfold parseVariantsLoop
    simp only [e, Res.ok_bind, e1, Bool.not_true, Bool.false_eq_true, ↓reduceIte, hcb, ev, ht2, expectProgress_ok,
      OState.inherit, Bool.or_self, el]
    simp


def semiTK : TK := (T.semiColon, bs ";")

/-- on a named non-ignored field (`name:` or `name?:`) `parseTL2UnionConstructor` starts and fails
("unexpected colon after one field union constructor declaration"). -/
theorem constructorFailsOnField (hc : Ctx N tx it) (its : Iter) (hsuf0 : its <:+ it) (k0 k1 : TK) (ks : List TK) (pos : Pos)
    (fuel : Nat) (hf : 3 ≤ fuel) (hm : strip its = k0 :: k1 :: ks) (hk0 : k0.1 = T.lcIdent ∨ k0.1 = T.ucIdent)
    (hk1 : k1.1 = T.questionMark ∨ k1.1 = T.colon) :
    ∃ e rest v, parseUnionConstructor tx fuel its pos = .ok ({ start := true, err := some e }, rest, v) ∧
      ∃ t, front rest = .ok t := by
  obtain ⟨hd, r, e, hnw, htk, hr, hsuf⟩ := skipWS_strip hm
  have hty : hd.ty = k0.1 := by rw [← htk]; rfl
  have hchk : variantStart.contains hd.ty = true := by rw [hty]; rcases hk0 with h | h <;> rw [h] <;> decide
  obtain ⟨t1, ht1⟩ := front_strip hr
  obtain ⟨hd2, r2, e2, hnw2, htk2, hr2, hsuf2⟩ := skipWS_strip hr
  have hty2 : hd2.ty = k1.1 := by rw [← htk2]; rfl
  have hnotend : variantEnd.contains hd2.ty = false := by rw [hty2]; rcases hk1 with h | h <;> rw [h] <;> decide
  have hrit : r <:+ it := (List.suffix_cons hd r).trans (hsuf.trans hsuf0)
  obtain ⟨f0, ef0⟩ := fieldStopS hc r hrit k1 ks pos fuel hr (by rcases hk1 with h | h <;> rw [h] <;> decide)
  obtain ⟨r3, ety, hr3, hs3⟩ := typeS_omitted hr pos fuel hf (by rcases hk1 with h | h <;> rw [h] <;> decide)
    (by rcases hk1 with h | h <;> rw [h] <;> decide) (by rcases hk1 with h | h <;> rw [h] <;> decide)
  obtain ⟨hd4, r4, e4, hnw4, htk4, hr4, hsuf4⟩ := skipWS_strip hr3
  have hty4 : hd4.ty = k1.1 := by rw [← htk4]; rfl
  have hcq : [T.colon, T.questionMark].contains hd4.ty = true := by rw [hty4]; rcases hk1 with h | h <;> rw [h] <;> decide
  obtain ⟨fz, hfz⟩ : ∃ fz, fuel = fz + 1 := ⟨fuel - 1, by omega⟩
  refine ⟨errTok hd4 pos, hd4 :: r4, Variant.mk hd.val (.alias default) [], ?_, hd4, rfl⟩
  unfold parseUnionConstructor parseFields
  simp only [e, Res.ok_bind, checkAny_nw hnw, show [T.ucIdent, T.lcIdent, T.tl2typeSign] = variantStart from rfl, hchk,
    Bool.not_true, Bool.false_eq_true, ↓reduceIte, skipWS_nw hnw, popFront_cons, ht1, checkAny, e2, front_cons,
    Res.pure_eq, show [T.semiColon, T.verticalBar] = variantEnd from rfl, hnotend]
  rw [hfz, zeroOrMore]
  rw [← hfz]
  simp only [ef0, Res.ok_bind, OState.hasProgress, Bool.false_and, Bool.not_false, ↓reduceIte, Res.pure_eq, Bool.or_self,
    OState.inherit, Bool.or_false, ety, OState.isOmitted, e4, front_cons, hcq, OState.failWith]
  rfl


theorem variantToks_head (v : Variant) : ∃ ks, variantToks v = (variantNameTy v.name, v.name) :: ks := ⟨_, rfl⟩

/-- `parseTL2UnionType` recovers a union of at least two variants printed without the leading `|`. -/
theorem unionS (hc : Ctx N tx it) (v1 v2 : Variant) (vs : List Variant) (hwf : ∀ v ∈ v1 :: v2 :: vs, v.wf = true)
    (its : Iter) (hsuf0 : its <:+ it) (ks : List TK) (pos : Pos) (fuel : Nat)
    (hm : strip its = variantToks v1 ++ (moreVariantsToks (v2 :: vs) ++ semiTK :: ks))
    (hfuel : ∀ v ∈ v1 :: v2 :: vs, v.body.need ≤ fuel) (hlen : (v2 :: vs).length < fuel) :
    ∃ rest vs', parseUnionType tx fuel its pos = .ok ({ start := true }, rest, vs') ∧
      vs'.map Variant.core = (v1 :: v2 :: vs).map Variant.core ∧ strip rest = semiTK :: ks ∧ rest <:+ its := by
  obtain ⟨ks1, hks1⟩ := variantToks_head v1
  have hm0 : strip its = (variantNameTy v1.name, v1.name) :: (ks1 ++ (moreVariantsToks (v2 :: vs) ++ semiTK :: ks)) := by
    rw [hm, hks1]; rfl
  obtain ⟨hd, r, e, hnw, htk, hr, hsuf⟩ := skipWS_strip hm0
  obtain ⟨cb, hcb, _⟩ := parseCommentBefore_step hc.good hc.tx hsuf0 e
  have hty : hd.ty = variantNameTy v1.name := by rw [show hd.ty = hd.tk.1 from rfl, htk]
  have hnvb : (hd.ty == T.verticalBar) = false := by
    rw [hty]; have := variantNameTy_mem v1.name
    simp only [variantStart, List.mem_cons, List.not_mem_nil, or_false] at this
    rcases this with h | h | h <;> rw [h] <;> decide
  have hs1 : strip (hd :: r) = variantToks v1 ++ vbTK :: (variantToks v2 ++ (moreVariantsToks vs ++ semiTK :: ks)) := by
    rw [strip_cons_nw hnw, htk, hr, hks1]; simp [moreVariantsToks]
  obtain ⟨r2, v1', ev, hcore1, hr2, hs2⟩ := variantS hc v1 (hwf v1 List.mem_cons_self) (hd :: r) (hsuf.trans hsuf0) vbTK _ pos fuel
    hs1 (by decide) (hfuel v1 List.mem_cons_self)
  have hr2' : strip r2 = moreVariantsToks (v2 :: vs) ++ (T.semiColon, bs ";") :: ks := by
    rw [hr2]; simp [moreVariantsToks, semiTK]
  obtain ⟨rest, vs', el, hcores, hrest, hs3⟩ := variantsLoopS hc pos fuel (v2 :: vs)
    (fun g hg => hwf g (List.mem_cons_of_mem _ hg)) (fun g hg => hfuel g (List.mem_cons_of_mem _ hg)) r2
    (hs2.trans (hsuf.trans hsuf0)) ks fuel [{ v1' with cb := cb }] hr2' hlen
  obtain ⟨t3, ht3⟩ := front_strip hrest
  have hlen' : vs'.length = (v2 :: vs).length := by
    have := congrArg List.length hcores; simpa using this
  refine ⟨rest, { v1' with cb := cb } :: vs', ?_, ?_, hrest, hs3.trans (hs2.trans hsuf)⟩
  · unfold parseUnionType
    simp only [e, Res.ok_bind, hcb, expect_nw hnw, hnvb, Bool.false_eq_true, ↓reduceIte, ev, OState.isFailed, Option.isSome,
      Bool.and_false, Bool.false_and, OState.inherit, Bool.or_true, Bool.not_true, el, List.singleton_append, OState.failWith,
      List.length_cons, hlen', ht3, Res.pure_eq]
    simp
  · have h := hcore1; simp only [Variant.core, Variant.mk.injEq] at h
    simp [hcores, Variant.core, h.1, h.2.1]

end TLVerif.Syntaxtl2
