import TLVerif.Syntaxtl2.Basic
/-! Go string helpers used by the TL2 parser/formatter, on byte strings: `strings.TrimSpace`, `strings.Split(s, "\n")`,
`strings.ReplaceAll(s, "\t", tabSpaces)`, `strings.IndexAny(s, "\r\n")`, decimal / `%08x` formatting, `strconv.ParseUint`. -/
namespace TLVerif.Syntaxtl2

/-- Go slice expression `s[lo:hi]` (run-time panic when out of range). -/
def slice (tx : Bytes) (lo hi : Nat) : Res Bytes :=
  if lo ≤ hi ∧ hi ≤ tx.length then .ok ((tx.take hi).drop lo) else .panic

def asciiSpace (c : UInt8) : Bool :=
  c.toNat == 9 || c.toNat == 10 || c.toNat == 11 || c.toNat == 12 || c.toNat == 13 || c.toNat == 32

/-- Size of the `unicode.IsSpace` rune encoded at the start of the string (0 if there is none): the ASCII spaces,
U+0085, U+00A0, U+1680, U+2000..U+200A, U+2028, U+2029, U+202F, U+205F, U+3000. `DecodeRuneInString` accepts
only the shortest encoding, so a prefix match is exact. -/
def spacePrefix : Bytes → Nat
  | [] => 0
  | c :: t =>
    if asciiSpace c then 1
    else if c.toNat == 0xC2 then
      match t with
      | c1 :: _ => if c1.toNat == 0x85 || c1.toNat == 0xA0 then 2 else 0
      | _ => 0
    else if c.toNat == 0xE1 then
      match t with
      | c1 :: c2 :: _ => if c1.toNat == 0x9A && c2.toNat == 0x80 then 3 else 0
      | _ => 0
    else if c.toNat == 0xE2 then
      match t with
      | c1 :: c2 :: _ =>
        if c1.toNat == 0x80 && ((0x80 ≤ c2.toNat && c2.toNat ≤ 0x8A) || c2.toNat == 0xA8 || c2.toNat == 0xA9 || c2.toNat == 0xAF) then 3
        else if c1.toNat == 0x81 && c2.toNat == 0x9F then 3 else 0
      | _ => 0
    else if c.toNat == 0xE3 then
      match t with
      | c1 :: c2 :: _ => if c1.toNat == 0x80 && c2.toNat == 0x80 then 3 else 0
      | _ => 0
    else 0

/-- The same on the reversed string (`DecodeLastRuneInString`: the nearest rune-start byte is the first byte of the
encoding, so a suffix match is exact). -/
def spaceSuffixRev : Bytes → Nat
  | [] => 0
  | c :: t =>
    if asciiSpace c then 1
    else match t with
      | c1 :: t2 =>
        if c1.toNat == 0xC2 then (if c.toNat == 0x85 || c.toNat == 0xA0 then 2 else 0)
        else match t2 with
          | c0 :: _ =>
            if c0.toNat == 0xE1 then (if c1.toNat == 0x9A && c.toNat == 0x80 then 3 else 0)
            else if c0.toNat == 0xE2 then
              (if c1.toNat == 0x80 && ((0x80 ≤ c.toNat && c.toNat ≤ 0x8A) || c.toNat == 0xA8 || c.toNat == 0xA9 || c.toNat == 0xAF) then 3
               else if c1.toNat == 0x81 && c.toNat == 0x9F then 3 else 0)
            else if c0.toNat == 0xE3 then (if c1.toNat == 0x80 && c.toNat == 0x80 then 3 else 0)
            else 0
          | [] => 0
      | [] => 0

def trimWithAux (f : Bytes → Nat) : Nat → Bytes → Bytes
  | 0, s => s
  | _ + 1, [] => []
  | k + 1, c :: t =>
    let n := f (c :: t)
    if n == 0 then c :: t else trimWithAux f k (t.drop (n - 1))

/-- drop leading "space runes" (as measured by `f`) while there are any. -/
def trimWith (f : Bytes → Nat) (s : Bytes) : Bytes := trimWithAux f s.length s

/-- `strings.TrimSpace`. -/
def trimSpace (s : Bytes) : Bytes :=
  (trimWith spaceSuffixRev (trimWith spacePrefix s).reverse).reverse

/-- `strings.Split(s, "\n")`. -/
def splitNL : Bytes → List Bytes
  | [] => [[]]
  | c :: t =>
    match splitNL t with
    | [] => [[]]
    | l :: ls => if c.toNat == 10 then [] :: l :: ls else (c :: l) :: ls

/-- `strings.ReplaceAll(s, "\t", tabSpaces)`. -/
def replaceTabs (s : Bytes) : Bytes :=
  (s.map (fun c => if c.toNat == 9 then bs Facts.Syntaxtl2.tabSpaces else [c])).flatten

/-- prefix before the first `\r` or `\n` (`strings.IndexAny(tail, "\r\n")`; whole string when absent). -/
def untilNL : Bytes → Bytes
  | [] => []
  | c :: t => if c.toNat == 13 || c.toNat == 10 then [] else c :: untilNL t

def digitChar (n : Nat) : UInt8 := UInt8.ofNat (if n < 10 then 48 + n else 87 + n)

def natDigits (base : Nat) (fuel : Nat) (n : Nat) (acc : Bytes) : Bytes :=
  match fuel with
  | 0 => acc
  | f + 1 => if n < base then digitChar n :: acc else natDigits base f (n / base) (digitChar (n % base) :: acc)

/-- `strconv.FormatUint(n, 10)` / `%d`. -/
def decimal (n : Nat) : Bytes := if 2 ≤ 10 then natDigits 10 (n + 1) n [] else []

/-- `fmt.Sprintf("%08x", n)` (for `n < 2^32`; wider values print all their digits like Go). -/
def hex8 (n : Nat) : Bytes :=
  let d := natDigits 16 (n + 1) n []
  List.replicate (8 - d.length) 48 ++ d

def digitVal (base : Nat) (c : UInt8) : Option Nat :=
  let n := c.toNat
  let v := if 48 ≤ n && n ≤ 57 then n - 48 else if 97 ≤ n && n ≤ 122 then n - 87 else if 65 ≤ n && n ≤ 90 then n - 55 else 99
  if v < base then some v else none

def parseDigits (base : Nat) : Bytes → Nat → Option Nat
  | [], acc => some acc
  | c :: t, acc => match digitVal base c with
    | some v => parseDigits base t (acc * base + v)
    | none => none

/-- `strconv.ParseUint(s, base, 32)` for `base ∈ {10, 16}` on strings without underscores/prefix: `none` = error
(empty, bad digit, or out of the 32-bit range). -/
def parseUint32 (base : Nat) (s : Bytes) : Option Nat :=
  if s.isEmpty then none else
  match parseDigits base s 0 with
  | some v => if v < 4294967296 then some v else none
  | none => none

end TLVerif.Syntaxtl2
