import TLVerif.Syntaxtl2.LexerLemmas
import TLVerif.Syntaxtl2.Parser
/-! Lemmas about the TL2 parser model: a small weakest-precondition calculus over `Res`, specifications of the
iterator operations relative to a good token list, and the specification of every parser function
(no panic, fuel suffices, the rest is a non-empty suffix of the input, errors are built from tokens of the input). -/
namespace TLVerif.Syntaxtl2

/-- the computation returns normally (no panic, fuel not exhausted) with a value satisfying `Q`. -/
def Res.Sat {α : Type} (r : Res α) (Q : α → Prop) : Prop := ∃ a, r = .ok a ∧ Q a

theorem Res.Sat.bind {α β : Type} {r : Res α} {f : α → Res β} {P : α → Prop} {Q : β → Prop}
    (h : r.Sat P) (hf : ∀ a, P a → (f a).Sat Q) : (r >>= f).Sat Q := by
  obtain ⟨a, rfl, ha⟩ := h
  exact hf a ha

theorem Res.Sat.pure {α : Type} {a : α} {Q : α → Prop} (h : Q a) : (Pure.pure a : Res α).Sat Q := ⟨a, rfl, h⟩

theorem Res.Sat.ok {α : Type} {a : α} {Q : α → Prop} (h : Q a) : (Res.ok a : Res α).Sat Q := ⟨a, rfl, h⟩

theorem Res.Sat.mono {α : Type} {r : Res α} {P Q : α → Prop} (h : r.Sat P) (hpq : ∀ a, P a → Q a) : r.Sat Q := by
  obtain ⟨a, e, ha⟩ := h
  exact ⟨a, e, hpq a ha⟩

/-! ### iterator steps, all relative to a fixed good list `it` -/

section
variable {N : Nat} {it : Iter}

theorem front_step {rest : Iter} (hs : rest <:+ it) (hne : rest ≠ []) :
    (front rest).Sat (fun tok => tok ∈ it ∧ ∃ ts, rest = tok :: ts) := by
  cases rest with
  | nil => exact absurd rfl hne
  | cons t ts => exact ⟨t, rfl, hs.subset (List.mem_cons_self), ts, rfl⟩

/-- popping a non-`eof` token keeps the iterator non-empty. -/
theorem popFront_step (hg : Good N it) {rest : Iter} (hs : rest <:+ it) {t : Token} {ts : List Token}
    (he : rest = t :: ts) (hty : t.ty ≠ T.eof) :
    (popFront rest).Sat (fun p => p.1 = t ∧ p.1 ∈ it ∧ p.2 <:+ it ∧ p.2 ≠ [] ∧ p.2.length < rest.length ∧
      p.2 <:+ rest) := by
  subst he
  have hgr := hg.suffix hs
  refine ⟨(t, ts), rfl, rfl, hs.subset (List.mem_cons_self), (List.suffix_cons t ts).trans hs, ?_, by simp,
    List.suffix_cons t ts⟩
  cases ts with
  | nil => exact absurd hgr.1 hty
  | cons a l => simp

theorem skipWS_step (hg : Good N it) {rest : Iter} (hs : rest <:+ it) (hne : rest ≠ []) :
    (skipWS rest).Sat (fun r => skipWS rest = .ok r ∧ r <:+ it ∧ r ≠ [] ∧ r.length ≤ rest.length ∧ skipWS r = .ok r) := by
  have hgr := hg.suffix hs
  induction rest with
  | nil => exact absurd rfl hne
  | cons t ts ih =>
    simp only [skipWS]
    by_cases hw : isWS t = true
    · simp only [hw, ↓reduceIte]
      have hts : ts ≠ [] := by
        intro h; subst h
        have : t.ty = T.eof := hgr.1
        simp [isWS, this] at hw
        revert hw; decide
      obtain ⟨r, hr, h1, h2, h3, h4, h5⟩ := ih ((List.suffix_cons t ts).trans hs) hts hgr.tail
      exact ⟨r, hr, hr, h2, h3, by simp only [List.length_cons]; omega, h5⟩
    · simp only [hw]
      refine ⟨_, rfl, rfl, hs, hne, Nat.le_refl _, ?_⟩
      simp only [skipWS, hw]
      rfl

theorem checkAny_step (hg : Good N it) {rest : Iter} (hs : rest <:+ it) (hne : rest ≠ []) (tys : List Int) :
    (checkAny rest tys).Sat (fun p => skipWS rest = .ok p.2 ∧ p.2 <:+ it ∧ p.2 ≠ [] ∧ p.2.length ≤ rest.length ∧
      skipWS p.2 = .ok p.2 ∧ (p.1 = true → ∃ t ts, p.2 = t :: ts ∧ t.ty ∈ tys)) := by
  unfold checkAny
  refine (skipWS_step hg hs hne).bind ?_
  intro r ⟨h0, h1, h2, h3, h4⟩
  refine (front_step h1 h2).bind ?_
  intro t ⟨_, ts, hts⟩
  refine Res.Sat.pure ⟨h0, h1, h2, h3, h4, ?_⟩
  intro hc
  exact ⟨t, ts, hts, by simpa using hc⟩

theorem checkToken_step (hg : Good N it) {rest : Iter} (hs : rest <:+ it) (hne : rest ≠ []) (ty : Int) :
    (checkToken rest ty).Sat (fun p => skipWS rest = .ok p.2 ∧ p.2 <:+ it ∧ p.2 ≠ [] ∧ p.2.length ≤ rest.length ∧
      skipWS p.2 = .ok p.2 ∧ (p.1 = true → ∃ t ts, p.2 = t :: ts ∧ t.ty = ty)) := by
  unfold checkToken
  refine (checkAny_step hg hs hne [ty]).mono ?_
  intro p ⟨h0, h1, h2, h3, h4, h5⟩
  refine ⟨h0, h1, h2, h3, h4, ?_⟩
  intro hb
  obtain ⟨t, ts, e, hm⟩ := h5 hb
  exact ⟨t, ts, e, by simpa using hm⟩

theorem expect_step (hg : Good N it) {rest : Iter} (hs : rest <:+ it) (hne : rest ≠ []) {ty : Int} (hty : ty ≠ T.eof) :
    (expect rest ty).Sat (fun p => p.2 <:+ it ∧ p.2 ≠ [] ∧ p.2.length ≤ rest.length ∧
      (p.1 = true → p.2.length < rest.length) ∧ (p.1 = false → skipWS rest = .ok p.2 ∧ skipWS p.2 = .ok p.2)) := by
  unfold expect
  refine (checkToken_step hg hs hne ty).bind ?_
  rintro ⟨b, r⟩ ⟨h0, h1, h2, h3, h4, h5⟩
  dsimp only at *
  cases b with
  | false => exact Res.Sat.pure ⟨h1, h2, h3, by simp, fun _ => ⟨h0, h4⟩⟩
  | true =>
    obtain ⟨t, ts, e, hm⟩ := h5 rfl
    simp only [↓reduceIte]
    refine (popFront_step hg h1 e (hm ▸ hty)).bind ?_
    rintro ⟨t', r'⟩ ⟨_, _, h6, h7, h8, _⟩
    dsimp only at *
    exact Res.Sat.pure ⟨h6, h7, by dsimp only; omega, fun _ => by dsimp only; omega, by simp⟩

theorem expectLazy_step (hg : Good N it) {rest : Iter} (hs : rest <:+ it) (hne : rest ≠ []) {ty : Int} (hty : ty ≠ T.eof) :
    (expectLazy rest ty).Sat (fun p => p.2 <:+ it ∧ p.2 ≠ [] ∧ p.2.length ≤ rest.length ∧
      (p.1 = true → p.2.length < rest.length) ∧ (p.1 = false → p.2 = rest)) := by
  unfold expectLazy
  refine (expect_step hg hs hne hty).bind ?_
  rintro ⟨b, r⟩ ⟨h1, h2, h3, h4, _⟩
  dsimp only at *
  cases b with
  | false => exact Res.Sat.pure ⟨hs, hne, Nat.le_refl _, by simp, fun _ => rfl⟩
  | true => exact Res.Sat.pure ⟨h1, h2, h3, h4, by simp⟩

/-! ### errors carried by an `OptionalState` are built by `parseErrToken` from a token of `it` and `outer` -/

def ErrOK (it : Iter) (outer : Pos) (st : OState) : Prop :=
  ∀ e, st.err = some e → ∃ tok, tok ∈ it ∧ e = errTok tok outer

variable {outer : Pos}

theorem ErrOK.of_none {st : OState} (h : st.err = none) : ErrOK it outer st := by
  intro e he; rw [h] at he; cases he

theorem ErrOK.start (b : Bool) : ErrOK it outer { start := b } := ErrOK.of_none rfl

theorem ErrOK.inherit {s o : OState} (hs : ErrOK it outer s) (ho : ErrOK it outer o) : ErrOK it outer (s.inherit o) := by
  intro e he
  simp only [OState.inherit] at he
  cases h : s.err with
  | none => rw [h] at he; exact ho e he
  | some e0 => rw [h] at he; exact hs e (by rw [h]; exact he)

theorem ErrOK.failWith {s : OState} (hs : ErrOK it outer s) {tok : Token} (ht : tok ∈ it) :
    ErrOK it outer (s.failWith (errTok tok outer)) := by
  intro e he
  simp only [OState.failWith] at he
  cases h : s.err with
  | none => rw [h] at he; exact ⟨tok, ht, by simpa using he.symm⟩
  | some e0 => rw [h] at he; exact hs e (by rw [h]; exact he)

theorem ErrOK.failWithOpt {s o : OState} (hs : ErrOK it outer s) (ho : ErrOK it outer o) :
    ErrOK it outer (s.failWithOpt o.err) := by
  intro e he
  simp only [OState.failWithOpt] at he
  cases h : s.err with
  | none => rw [h] at he; exact ho e he
  | some e0 => rw [h] at he; exact hs e (by rw [h]; exact he)

theorem ErrOK.expectProgress {s : OState} (hs : ErrOK it outer s) {tok : Token} (ht : tok ∈ it) :
    ErrOK it outer (s.expectProgress (errTok tok outer)).2 := by
  unfold OState.expectProgress
  split
  · exact hs
  · split
    · exact hs.failWith ht
    · exact hs

theorem ErrOK.withStart {s : OState} (hs : ErrOK it outer s) (b : Bool) : ErrOK it outer { s with start := b } := hs

theorem ErrOK.setErr {s o : OState} (ho : ErrOK it outer o) : ErrOK it outer { s with err := o.err } := ho

theorem ErrOK.mono {it' : Iter} {s : OState} (hs : ErrOK it' outer s) (h : it' <:+ it) : ErrOK it outer s := by
  intro e he
  obtain ⟨tok, hm, h2⟩ := hs e he
  exact ⟨tok, h.subset hm, h2⟩

theorem expectProgress_true {s : OState} {e : PErr} (h : (s.expectProgress e).1 = true) :
    s.hasProgress = true ∧ (s.expectProgress e).2 = s := by
  unfold OState.expectProgress at *
  split at h
  · rename_i hp; simp only [hp, ↓reduceIte]; exact ⟨trivial, trivial⟩
  · split at h <;> cases h

end

section
variable {N : Nat} {it : Iter}

theorem skipWS_suffix {b e : Iter} (h : skipWS b = .ok e) : e <:+ b ∧ e ≠ [] := by
  induction b with
  | nil => simp [skipWS] at h
  | cons t ts ih =>
    simp only [skipWS] at h
    split at h
    · have := ih h; exact ⟨this.1.trans (List.suffix_cons t ts), this.2⟩
    · injection h with h; subst h; exact ⟨List.suffix_refl _, by simp⟩

theorem commentBeforeLoop_spec {e : Iter} : ∀ (cur begin : Iter) (nonWS : Bool), skipWS cur = .ok e →
    e <:+ begin → begin <:+ it → cur <:+ it →
    (commentBeforeLoop e.length cur begin nonWS).Sat (fun b' => e <:+ b' ∧ b' <:+ it) := by
  intro cur
  induction cur with
  | nil => intro _ _ h; simp [skipWS] at h
  | cons t ts ih =>
    intro begin nonWS h hb1 hb2 hc
    simp only [skipWS] at h
    have hts : ts <:+ it := (List.suffix_cons t ts).trans hc
    by_cases hw : isWS t = true
    · simp only [hw, ↓reduceIte] at h
      have hsuf := skipWS_suffix h
      have hlen : (t :: ts).length > e.length := by
        have := hsuf.1.length_le; simp only [List.length_cons]; omega
      unfold commentBeforeLoop
      simp only [hlen, ↓reduceIte]
      simp only [isWS, Bool.or_eq_true] at hw
      by_cases h1 : (t.ty == T.comment) = true
      · simp only [h1, ↓reduceIte]; exact ih _ _ h hb1 hb2 hts
      · simp only [h1]
        by_cases h2 : (t.ty == T.newLine) = true
        · simp only [h2, ↓reduceIte]
          cases nonWS with
          | false => exact ih _ _ h hsuf.1 hts hts
          | true => exact ih _ _ h hb1 hb2 hts
        · simp only [h2]
          have h3 : (t.ty == T.whiteSpace || t.ty == T.tab) = true := by
            simp only [Bool.or_eq_true]
            rcases hw with ((hw | hw) | hw) | hw
            · exact absurd hw h1
            · exact Or.inl hw
            · exact Or.inr hw
            · exact absurd hw h2
          simp only [h3, ↓reduceIte, Bool.false_eq_true]
          exact ih _ _ h hb1 hb2 hts
    · simp only [hw] at h
      injection h with h
      subst h
      unfold commentBeforeLoop
      simp only [gt_iff_lt, Nat.lt_irrefl, ↓reduceIte]
      exact Res.Sat.ok ⟨hb1, hb2⟩

theorem slice_step (hg : Good N it) {tx : Bytes} (htx : tx.length = N) {b e : Iter} (hb : b <:+ it) (he : e <:+ b)
    (hne : e ≠ []) : (do
      let tb ← front b
      let te ← front e
      let s ← slice tx tb.pos.off te.pos.off
      pure (trimSpace s) : Res Bytes).Sat (fun _ => True) := by
  have hbne : b ≠ [] := by intro h; subst h; exact hne (List.suffix_nil.mp he)
  refine (front_step hb hbne).bind ?_
  intro tb ⟨_, tbs, hbeq⟩
  refine (front_step (he.trans hb) hne).bind ?_
  intro te ⟨hte, tes, heeq⟩
  have hgb := hg.suffix hb
  subst hbeq
  have hmem : te ∈ tb :: tbs := he.subset (heeq ▸ List.mem_cons_self)
  have h1 := hgb.head_le hmem
  have h2 := hg.mem_in hte
  have : (slice tx tb.pos.off te.pos.off) = .ok ((tx.take te.pos.off).drop tb.pos.off) := by
    unfold slice
    have : tb.pos.off ≤ te.pos.off ∧ te.pos.off ≤ tx.length := ⟨h1.1, by have := h2.2; omega⟩
    simp only [this, and_self, ↓reduceIte]
  rw [this]
  exact Res.Sat.pure trivial

theorem parseCommentBefore_step (hg : Good N it) {tx : Bytes} (htx : tx.length = N) {b e : Iter} (hb : b <:+ it)
    (hsk : skipWS b = .ok e) : (parseCommentBefore tx b e).Sat (fun _ => True) := by
  unfold parseCommentBefore
  have hsuf := skipWS_suffix hsk
  refine (commentBeforeLoop_spec b b false hsk hsuf.1 hb hb).bind ?_
  intro b' ⟨h1, h2⟩
  exact slice_step hg htx h2 h1 hsuf.2

theorem parseCommentRight_step (hg : Good N it) {tx : Bytes} (htx : tx.length = N) {b e : Iter} (hb : b <:+ it)
    (he : e <:+ b) (hne : e ≠ []) : (parseCommentRight tx b e).Sat (fun _ => True) := by
  unfold parseCommentRight
  exact slice_step hg htx hb he hne

theorem skipToNewline_spec (hg : Good N it) : ∀ {rest : Iter}, rest <:+ it → rest ≠ [] →
    (skipToNewline rest).2 <:+ rest ∧ (skipToNewline rest).2 ≠ [] := by
  intro rest
  induction rest with
  | nil => intro _ h; exact absurd rfl h
  | cons t ts ih =>
    intro hs _
    unfold skipToNewline
    split
    · rename_i hw
      have hgr := hg.suffix hs
      have hts : ts ≠ [] := by
        intro h; subst h
        have : t.ty = T.eof := hgr.1
        rw [this] at hw
        revert hw; decide
      have := ih ((List.suffix_cons t ts).trans hs) hts
      exact ⟨this.1.trans (List.suffix_cons t ts), this.2⟩
    · split <;> exact ⟨List.suffix_refl _, by simp⟩

end

section
variable {N : Nat} {tx : Bytes} {it : Iter}

/-- what every parser function assumes about its input iterator. -/
structure Ctx (N : Nat) (tx : Bytes) (it : Iter) : Prop where
  good : Good N it
  wf : ∀ t ∈ it, TokWF t
  ne : it ≠ []
  tx : tx.length = N

theorem Ctx.suffix (h : Ctx N tx it) {r : Iter} (hs : r <:+ it) (hne : r ≠ []) : Ctx N tx r :=
  ⟨h.good.suffix hs, fun t ht => h.wf t (hs.subset ht), hne, h.tx⟩

/-- postcondition of a parser function called on the good list `it`: the returned iterator is a non-empty suffix of
the input, a result with progress consumed a token (when `strict`), and the error (if any) was built by
`parseErrToken` from a token of `it` and the `outer` position. -/
def Post {α : Type} (it : Iter) (outer : Pos) (strict : Bool) (p : OState × Iter × α) : Prop :=
  p.2.1 <:+ it ∧ p.2.1 ≠ [] ∧ (strict = true → p.1.hasProgress = true → p.2.1.length < it.length) ∧ ErrOK it outer p.1

/-- what a caller working on `it` learns from calling a function (with specification `Post`) on the suffix `rest`. -/
def Post' {α : Type} (it rest : Iter) (outer : Pos) (strict : Bool) (p : OState × Iter × α) : Prop :=
  p.2.1 <:+ it ∧ p.2.1 ≠ [] ∧ p.2.1.length ≤ rest.length ∧ p.2.1 <:+ rest ∧
  (strict = true → p.1.hasProgress = true → p.2.1.length < rest.length) ∧ ErrOK it outer p.1

theorem call {α : Type} {r : Res (OState × Iter × α)} {rest : Iter} {outer : Pos} {strict : Bool}
    (h : r.Sat (Post rest outer strict)) (hs : rest <:+ it) : r.Sat (Post' it rest outer strict) := by
  refine h.mono ?_
  intro p ⟨h1, h2, h3, h4⟩
  exact ⟨h1.trans hs, h2, h1.length_le, h1, h3, h4.mono hs⟩

theorem T_ne_eof : T.annotation ≠ T.eof ∧ T.lcIdent ≠ T.eof ∧ T.ucIdent ≠ T.eof ∧ T.lcIdentNS ≠ T.eof ∧
    T.ucIdentNS ≠ T.eof ∧ T.number ≠ T.eof ∧ T.crc32hash ≠ T.eof ∧ T.underscore ≠ T.eof ∧ T.tl2depName ≠ T.eof ∧
    T.tl2typeSign ≠ T.eof ∧ T.lAngle ≠ T.eof ∧ T.rAngle ≠ T.eof ∧ T.lSquare ≠ T.eof ∧ T.rSquare ≠ T.eof ∧
    T.commaSign ≠ T.eof ∧ T.colon ≠ T.eof ∧ T.semiColon ≠ T.eof ∧ T.questionMark ≠ T.eof ∧ T.verticalBar ≠ T.eof ∧
    T.equalSign ≠ T.eof ∧ T.tl2alias ≠ T.eof ∧ T.functionSign ≠ T.eof ∧ T.numberSign ≠ T.eof := by decide

set_option hygiene false in
macro "fr" : tactic =>
  `(tactic| (refine Res.Sat.bind (front_step (it := it) ?_ ?_) ?_; assumption; assumption; intro _ _))

theorem mem_ne_eof {tys : List Int} {ty : Int} (h : ty ∈ tys) (hn : T.eof ∉ tys) : ty ≠ T.eof := by
  intro e; subst e; exact hn h

theorem parseAnnotation_spec (hc : Ctx N tx it) (pos : Pos) :
    (parseAnnotation it pos).Sat (Post it pos true) := by
  have hg := hc.good
  unfold parseAnnotation
  refine (skipWS_step hg (List.suffix_refl _) hc.ne).bind ?_
  intro r1 ⟨_, a1, a2, a3, _⟩
  refine (checkToken_step hg a1 a2 T.annotation).bind ?_
  rintro ⟨b, r2⟩ ⟨_, b1, b2, b3, _, b5⟩
  dsimp only at *
  cases b with
  | false =>
    simp only [Bool.not_false, ↓reduceIte]
    fr
    exact Res.Sat.pure ⟨b1, b2, by simp [OState.hasProgress], ErrOK.start _⟩
  | true =>
    simp only [Bool.not_true, Bool.false_eq_true, ↓reduceIte]
    obtain ⟨t, ts, e, hm⟩ := b5 rfl
    refine (popFront_step hg b1 e (hm ▸ T_ne_eof.1)).bind ?_
    rintro ⟨cur, r3⟩ ⟨ec, c0, c1, c2, c3, _⟩
    dsimp only at *
    have : ¬ cur.val.length < 1 := by
      have := (hc.wf cur c0).1 (by rw [ec, hm]; exact T_ne_eof.1)
      omega
    simp only [this, ↓reduceIte]
    fr; fr
    refine Res.Sat.pure ⟨c1, c2, ?_, ErrOK.start _⟩
    intro _ _
    dsimp only
    omega

theorem parseTypeName_spec (hc : Ctx N tx it) (pos : Pos) :
    (parseTypeName it pos).Sat (Post it pos true) := by
  have hg := hc.good
  unfold parseTypeName
  refine (checkAny_step hg (List.suffix_refl _) hc.ne _).bind ?_
  rintro ⟨b1, r1⟩ ⟨_, a1, a2, a3, _, a5⟩
  dsimp only at *
  cases b1 with
  | true =>
    simp only [↓reduceIte]
    obtain ⟨t, ts, e, hm⟩ := a5 rfl
    refine (popFront_step hg a1 e (mem_ne_eof hm (by decide))).bind ?_
    rintro ⟨cur, r3⟩ ⟨ec, c0, c1, c2, c3, _⟩
    dsimp only at *
    refine Res.Sat.pure ⟨c1, c2, ?_, ErrOK.start _⟩
    intro _ _; dsimp only; omega
  | false =>
    simp only [Bool.false_eq_true, ↓reduceIte]
    refine (checkAny_step hg a1 a2 _).bind ?_
    rintro ⟨b2, r2⟩ ⟨_, d1, d2, d3, _, d5⟩
    dsimp only at *
    cases b2 with
    | false =>
      simp only [Bool.false_eq_true, ↓reduceIte]
      exact Res.Sat.pure ⟨d1, d2, by simp [OState.hasProgress], ErrOK.start _⟩
    | true =>
      simp only [↓reduceIte]
      obtain ⟨t, ts, e, hm⟩ := d5 rfl
      refine (popFront_step hg d1 e (mem_ne_eof hm (by decide))).bind ?_
      rintro ⟨cur, r3⟩ ⟨ec, c0, c1, c2, c3, _⟩
      dsimp only at *
      have : spanLen (fun c => c.toNat != 46) cur.val < cur.val.length := by
        have := (hc.wf cur c0).2.1 (by rw [ec]; simpa using hm)
        exact this
      simp only [this, ↓reduceIte]
      refine Res.Sat.pure ⟨c1, c2, ?_, ErrOK.start _⟩
      intro _ _; dsimp only; omega

/-- `zeroOrMore`: the loop runs at most `len(it)+1` times when every iteration with progress consumes a token. -/
theorem zeroOrMore_spec {α : Type} (p : Iter → Pos → Res (OState × Iter × α)) (pos : Pos)
    (hp : ∀ inp, Ctx N tx inp → inp <:+ it → (p inp pos).Sat (Post inp pos true)) :
    ∀ (f : Nat) (rest : Iter) (acc : List α) (start : Bool), Ctx N tx it → rest <:+ it → rest ≠ [] → rest.length < f →
      (zeroOrMore p f rest pos acc start).Sat (fun q => q.2.1 <:+ it ∧ q.2.1 ≠ [] ∧ q.2.1.length ≤ rest.length ∧
        q.2.1 <:+ rest ∧ ErrOK it pos q.1) := by
  intro f
  induction f with
  | zero => intro rest acc start _ _ _ h; omega
  | succ f ih =>
    intro rest acc start hc hs hne hf
    unfold zeroOrMore
    refine (call (hp rest (hc.suffix hs hne) hs) hs).bind ?_
    rintro ⟨ls, r1, el⟩ ⟨a1, a2, a3, a4, a5, a6⟩
    dsimp only at *
    by_cases hpr : ls.hasProgress = true
    · simp only [hpr, Bool.not_true, Bool.false_eq_true, ↓reduceIte]
      have := a5 rfl hpr
      refine (ih r1 _ _ hc a1 a2 (by omega)).mono ?_
      rintro q ⟨b1, b2, b3, b4, b5⟩
      exact ⟨b1, b2, by omega, b4.trans a4, b5⟩
    · simp only [hpr, Bool.not_false, ↓reduceIte]
      exact Res.Sat.pure ⟨a1, a2, a3, a4, a6⟩

end

section
variable {N : Nat} {tx : Bytes}

def TypeSpecs (N : Nat) (tx : Bytes) (f : Nat) : Prop :=
  (∀ it pos, Ctx N tx it → 3 * it.length + 3 ≤ f → (parseType f it pos).Sat (Post it pos false)) ∧
  (∀ it pos, Ctx N tx it → 3 * it.length + 2 ≤ f → (parseApp f it pos).Sat (Post it pos false)) ∧
  (∀ it rest pos st acc, Ctx N tx it → rest <:+ it → rest ≠ [] → 3 * rest.length + 2 ≤ f → ErrOK it pos st →
    (parseArgsLoop f pos st rest acc).Sat (fun q => q.2.1 <:+ it ∧ q.2.1 ≠ [] ∧ ErrOK it pos q.1)) ∧
  (∀ it pos, Ctx N tx it → 3 * it.length + 2 ≤ f → (parseBracket f it pos).Sat (Post it pos false)) ∧
  (∀ it pos, Ctx N tx it → 3 * it.length + 4 ≤ f → (parseArg f it pos).Sat (Post it pos false))

theorem post_false {α : Type} {it : Iter} {pos : Pos} {st : OState} {rest : Iter} {a : α}
    (h1 : rest <:+ it) (h2 : rest ≠ []) (h3 : ErrOK it pos st) : Post it pos false (st, rest, a) :=
  ⟨h1, h2, fun h => Bool.noConfusion h, h3⟩

theorem typeSpecs (f : Nat) : TypeSpecs N tx f := by
  induction f with
  | zero =>
    refine ⟨?_, ?_, ?_, ?_, ?_⟩ <;> intros <;> omega
  | succ f ih =>
    obtain ⟨ihType, ihApp, ihLoop, ihBr, ihArg⟩ := ih
    refine ⟨?_, ?_, ?_, ?_, ?_⟩
    · -- parseType
      intro it pos hc hf
      have hg := hc.good
      rw [parseType]
      refine (skipWS_step hg (List.suffix_refl _) hc.ne).bind ?_
      intro r1 ⟨_, a1, a2, a3, _⟩
      refine (call (ihApp r1 pos (hc.suffix a1 a2) (by omega)) a1).bind ?_
      rintro ⟨st, r2, app⟩ ⟨b1, b2, b3, _, _, b6⟩
      dsimp only at *
      cases hst : st.start with
      | false =>
        simp only [Bool.not_false, ↓reduceIte]
        refine (call (ihBr r2 pos (hc.suffix b1 b2) (by omega)) b1).bind ?_
        rintro ⟨st2, r3, br⟩ ⟨c1, c2, c3, _, _, c6⟩
        dsimp only at *
        fr
        exact Res.Sat.pure (post_false c1 c2 c6)
      | true =>
        simp only [Bool.not_true, Bool.false_eq_true, ↓reduceIte]
        fr
        exact Res.Sat.pure (post_false b1 b2 b6)
    · -- parseApp
      intro it pos hc hf
      have hg := hc.good
      rw [parseApp]
      refine (skipWS_step hg (List.suffix_refl _) hc.ne).bind ?_
      intro r1 ⟨_, a1, a2, a3, _⟩
      refine (skipWS_step hg a1 a2).bind ?_
      intro _ _
      refine (parseTypeName_spec hc pos).bind ?_
      rintro ⟨st, r2, name⟩ ⟨b1, b2, b3, b4⟩
      dsimp only at *
      by_cases hpr : st.hasProgress = true
      · simp only [hpr, Bool.not_true, Bool.false_eq_true, ↓reduceIte]
        have hlt := b3 rfl hpr
        fr
        refine (expectLazy_step hg b1 b2 T_ne_eof.2.2.2.2.2.2.2.2.2.2.1).bind ?_
        rintro ⟨b, r3⟩ ⟨c1, c2, c3, c4, c5⟩
        dsimp only at *
        cases b with
        | false =>
          simp only [Bool.false_eq_true, ↓reduceIte]
          fr
          exact Res.Sat.pure (post_false c1 c2 b4)
        | true =>
          simp only [↓reduceIte]
          have := c4 rfl
          refine (call (ihArg r3 pos (hc.suffix c1 c2) (by omega)) c1).bind ?_
          rintro ⟨argSt, r4, a0⟩ ⟨d1, d2, d3, _, _, d6⟩
          dsimp only at *
          refine Res.Sat.bind (front_step (it := it) d1 d2) ?_
          intro tok ⟨htok, _⟩
          have hep := ErrOK.expectProgress (outer := pos) d6 htok
          cases hok : (argSt.expectProgress (errTok tok pos)).1 with
          | false =>
            simp only [Bool.not_false, ↓reduceIte]
            exact Res.Sat.pure (post_false d1 d2 (b4.inherit hep))
          | true =>
            simp only [Bool.not_true, Bool.false_eq_true, ↓reduceIte]
            refine (ihLoop it r4 pos st [a0] hc d1 d2 (by omega) b4).bind ?_
            rintro ⟨st', r5, args⟩ ⟨e1, e2, e3⟩
            exact Res.Sat.pure (post_false e1 e2 e3)
      · simp only [hpr, Bool.not_false, ↓reduceIte]
        exact Res.Sat.pure (post_false b1 b2 b4)
    · -- parseArgsLoop
      intro it rest pos st acc hc hs hne hf hst
      have hg := hc.good
      rw [parseArgsLoop]
      refine (expect_step hg hs hne T_ne_eof.2.2.2.2.2.2.2.2.2.2.2.2.2.2.1).bind ?_
      rintro ⟨cm, r1⟩ ⟨a1, a2, a3, a4, _⟩
      dsimp only at *
      cases cm with
      | true =>
        simp only [↓reduceIte]
        have := a4 rfl
        refine (call (ihArg r1 pos (hc.suffix a1 a2) (by omega)) a1).bind ?_
        rintro ⟨argSt, r2, a⟩ ⟨d1, d2, d3, _, _, d6⟩
        dsimp only at *
        refine Res.Sat.bind (front_step (it := it) d1 d2) ?_
        intro tok ⟨htok, _⟩
        have hep := ErrOK.expectProgress (outer := pos) d6 htok
        cases hok : (argSt.expectProgress (errTok tok pos)).1 with
        | false =>
          simp only [Bool.not_false, ↓reduceIte]
          exact Res.Sat.pure ⟨d1, d2, hst.inherit hep⟩
        | true =>
          simp only [Bool.not_true, Bool.false_eq_true, ↓reduceIte]
          exact ihLoop it r2 pos st _ hc d1 d2 (by omega) hst
      | false =>
        simp only [Bool.false_eq_true, ↓reduceIte]
        refine (expect_step hg a1 a2 T_ne_eof.2.2.2.2.2.2.2.2.2.2.2.1).bind ?_
        rintro ⟨ra, r2⟩ ⟨c1, c2, c3, c4, _⟩
        dsimp only at *
        cases ra with
        | false =>
          simp only [Bool.not_false, ↓reduceIte]
          refine Res.Sat.bind (front_step (it := it) c1 c2) ?_
          intro tok ⟨htok, _⟩
          exact Res.Sat.pure ⟨c1, c2, hst.failWith htok⟩
        | true =>
          simp only [Bool.not_true, Bool.false_eq_true, ↓reduceIte]
          fr
          exact Res.Sat.pure ⟨c1, c2, hst⟩
    · -- parseBracket
      intro it pos hc hf
      have hg := hc.good
      rw [parseBracket]
      refine (skipWS_step hg (List.suffix_refl _) hc.ne).bind ?_
      intro r1 ⟨_, a1, a2, a3, _⟩
      refine (expectLazy_step hg a1 a2 T_ne_eof.2.2.2.2.2.2.2.2.2.2.2.2.1).bind ?_
      rintro ⟨b, r2⟩ ⟨c1, c2, c3, c4, c5⟩
      dsimp only at *
      cases b with
      | false =>
        simp only [Bool.false_eq_true, ↓reduceIte]
        fr
        exact Res.Sat.pure (post_false c1 c2 (ErrOK.start _))
      | true =>
        simp only [↓reduceIte]
        have := c4 rfl
        refine (call (ihArg r2 pos (hc.suffix c1 c2) (by omega)) c1).bind ?_
        rintro ⟨ist, r3, idx⟩ ⟨d1, d2, d3, _, _, d6⟩
        dsimp only at *
        have hst : ErrOK it pos (({ start := true } : OState).inherit ist) := (ErrOK.start true).inherit d6
        by_cases hpr : (({ start := true } : OState).inherit ist).hasProgress = true
        · simp only [hpr, Bool.not_true, Bool.false_eq_true, ↓reduceIte]
          refine (expect_step hg d1 d2 T_ne_eof.2.2.2.2.2.2.2.2.2.2.2.2.2.1).bind ?_
          rintro ⟨rb, r4⟩ ⟨e1, e2, e3, e4, _⟩
          dsimp only at *
          cases rb with
          | false =>
            simp only [Bool.not_false, ↓reduceIte]
            refine Res.Sat.bind (front_step (it := it) e1 e2) ?_
            intro tok ⟨htok, _⟩
            exact Res.Sat.pure (post_false e1 e2 (hst.failWith htok))
          | true =>
            simp only [Bool.not_true, Bool.false_eq_true, ↓reduceIte]
            have := e4 rfl
            refine (call (ihType r4 pos (hc.suffix e1 e2) (by omega)) e1).bind ?_
            rintro ⟨ast, r5, elem⟩ ⟨g1, g2, g3, _, _, g6⟩
            dsimp only at *
            refine Res.Sat.bind (front_step (it := it) g1 g2) ?_
            intro tok ⟨htok, _⟩
            have hep := ErrOK.expectProgress (outer := pos) g6 htok
            cases hok : (ast.expectProgress (errTok tok pos)).1 with
            | false =>
              simp only [Bool.not_false, ↓reduceIte]
              exact Res.Sat.pure (post_false g1 g2 (hst.inherit hep))
            | true =>
              simp only [Bool.not_true, Bool.false_eq_true, ↓reduceIte]
              fr
              exact Res.Sat.pure (post_false g1 g2 hst)
        · simp only [hpr, Bool.not_false, ↓reduceIte]
          exact Res.Sat.pure (post_false d1 d2 hst)
    · -- parseArg
      intro it pos hc hf
      have hg := hc.good
      rw [parseArg]
      refine (skipWS_step hg (List.suffix_refl _) hc.ne).bind ?_
      intro r1 ⟨_, a1, a2, a3, _⟩
      refine (checkToken_step hg a1 a2 T.number).bind ?_
      rintro ⟨b, r2⟩ ⟨_, b1, b2, b3, _, b5⟩
      dsimp only at *
      cases b with
      | true =>
        simp only [↓reduceIte]
        obtain ⟨t, ts, e, hm⟩ := b5 rfl
        refine (popFront_step hg b1 e (hm ▸ T_ne_eof.2.2.2.2.2.1)).bind ?_
        rintro ⟨cur, r3⟩ ⟨ec, c0, c1, c2, c3, _⟩
        dsimp only at *
        fr
        split
        · exact Res.Sat.pure (post_false c1 c2 (ErrOK.start _))
        · refine Res.Sat.pure (post_false c1 c2 ?_)
          intro e he
          simp only [Option.some.injEq] at he
          exact ⟨cur, c0, he.symm⟩
      | false =>
        simp only [Bool.false_eq_true, ↓reduceIte]
        refine (call (ihType r2 pos (hc.suffix b1 b2) (by omega)) b1).bind ?_
        rintro ⟨st, r3, ty⟩ ⟨c1, c2, c3, _, _, c6⟩
        dsimp only at *
        fr
        exact Res.Sat.pure (post_false c1 c2 c6)

end

section
variable {N : Nat} {tx : Bytes} {it : Iter}

theorem fin_sat {α : Type} {rest : Iter} {st : OState} {r : α} {pos : Pos} (hne : it ≠ [])
    (h1 : rest <:+ it) (h2 : rest ≠ []) (h3 : ErrOK it pos st) (h4 : st.start = true → rest.length < it.length) :
    (pure (st, if st.start = true then rest else it, r) : Res (OState × Iter × α)).Sat (Post it pos true) := by
  refine Res.Sat.pure ?_
  cases hs : st.start with
  | true =>
    simp only [↓reduceIte]
    exact ⟨h1, h2, fun _ _ => h4 hs, h3⟩
  | false =>
    simp only [Bool.false_eq_true, ↓reduceIte]
    exact ⟨List.suffix_refl _, hne, fun _ hp => by simp [OState.hasProgress, hs] at hp, h3⟩

theorem parseType_call (hc : Ctx N tx it) {rest : Iter} (hs : rest <:+ it) (hne : rest ≠ []) (pos : Pos) {fuel : Nat}
    (hf : 3 * rest.length + 3 ≤ fuel) : (parseType fuel rest pos).Sat (Post' it rest pos false) :=
  call ((typeSpecs fuel).1 rest pos (hc.suffix hs hne) hf) hs

theorem parseField_spec (hc : Ctx N tx it) (pos : Pos) (fuel : Nat) (hf : 3 * it.length + 3 ≤ fuel) :
    (parseField tx fuel it pos).Sat (Post it pos true) := by
  have hg := hc.good
  unfold parseField
  refine (skipWS_step hg (List.suffix_refl _) hc.ne).bind ?_
  intro r1 ⟨hsk, a1, a2, a3, _⟩
  refine (parseCommentBefore_step hg hc.tx (List.suffix_refl _) hsk).bind ?_
  intro cb _
  dsimp only
  refine (checkAny_step hg a1 a2 _).bind ?_
  rintro ⟨b, r2⟩ ⟨_, b1, b2, b3, _, b5⟩
  dsimp only at *
  cases b with
  | false =>
    simp only [Bool.not_false, ↓reduceIte]
    fr
    exact fin_sat hc.ne b1 b2 (ErrOK.start _) (by simp)
  | true =>
    simp only [Bool.not_true, Bool.false_eq_true, ↓reduceIte]
    obtain ⟨t, ts, e, hm⟩ := b5 rfl
    refine (skipWS_step hg b1 b2).bind ?_
    intro r3 ⟨hsk3, c1, c2, c3, _⟩
    have e3 : r3 = r2 := by
      rename_i hh _; rw [hh] at hsk3; injection hsk3 with h; exact h.symm
    subst e3
    refine (popFront_step hg b1 e (mem_ne_eof hm (by decide))).bind ?_
    rintro ⟨nameTok, r4⟩ ⟨_, _, d1, d2, d3, _⟩
    dsimp only at *
    fr
    refine (expect_step hg d1 d2 T_ne_eof.2.2.2.2.2.2.2.2.2.2.2.2.2.2.2.2.2.1).bind ?_
    rintro ⟨q, r5⟩ ⟨e1, e2, e3, _, _⟩
    dsimp only at *
    have hlt5 : r5.length < it.length := by omega
    by_cases hqi : (q && (nameTok.ty == T.underscore || nameTok.ty == T.tl2depName)) = true
    · simp only [hqi, ↓reduceIte]
      refine Res.Sat.bind (front_step (it := it) e1 e2) ?_
      intro tok ⟨htok, _⟩
      fr
      exact fin_sat hc.ne e1 e2 ((ErrOK.start _).failWith htok) (fun _ => hlt5)
    · simp only [hqi, Bool.false_eq_true, ↓reduceIte]
      refine (expect_step hg e1 e2 T_ne_eof.2.2.2.2.2.2.2.2.2.2.2.2.2.2.2.1).bind ?_
      rintro ⟨c, r6⟩ ⟨f1, f2, f3, _, _⟩
      dsimp only at *
      have hlt6 : r6.length < it.length := by omega
      cases c with
      | false =>
        simp only [Bool.not_false, ↓reduceIte]
        cases q with
        | true =>
          simp only [↓reduceIte]
          refine Res.Sat.bind (front_step (it := it) f1 f2) ?_
          intro tok ⟨htok, _⟩
          fr
          exact fin_sat hc.ne f1 f2 ((ErrOK.start _).failWith htok) (fun _ => hlt6)
        | false =>
          simp only [Bool.false_eq_true, ↓reduceIte]
          fr
          exact fin_sat hc.ne f1 f2 (ErrOK.start _) (fun _ => hlt6)
      | true =>
        simp only [Bool.not_true, Bool.false_eq_true, ↓reduceIte]
        refine (parseType_call hc f1 f2 pos (by omega)).bind ?_
        rintro ⟨ls, r7, ty⟩ ⟨g1, g2, g3, _, _, g6⟩
        dsimp only at *
        have hlt7 : r7.length < it.length := by omega
        refine Res.Sat.bind (front_step (it := it) g1 g2) ?_
        intro tok ⟨htok, _⟩
        have hep := ErrOK.expectProgress (outer := pos) g6 htok
        cases hok : (ls.expectProgress (errTok tok pos)).1 with
        | false =>
          simp only [Bool.not_false, ↓reduceIte]
          exact fin_sat hc.ne g1 g2 ((ErrOK.start true).inherit hep) (fun _ => hlt7)
        | true =>
          simp only [Bool.not_true, Bool.false_eq_true, ↓reduceIte]
          have hnl := skipToNewline_spec hg g1 g2
          cases hsn : skipToNewline r7 with
          | mk nl r8 =>
            rw [hsn] at hnl
            dsimp only at hnl ⊢
            have h8 : r8 <:+ it := hnl.1.trans g1
            have hlt8 : r8.length < it.length := by have := hnl.1.length_le; omega
            have hcr : (if nl = true then parseCommentRight tx r7 r8 else pure []).Sat (fun _ => True) := by
              cases nl with
              | true => simp only [↓reduceIte]; exact parseCommentRight_step hg hc.tx g1 hnl.1 hnl.2
              | false => simp only [Bool.false_eq_true, ↓reduceIte]; exact Res.Sat.pure trivial
            refine hcr.bind ?_
            intro cr _
            refine Res.Sat.bind (front_step (it := it) h8 hnl.2) ?_
            intro _ _
            exact fin_sat hc.ne h8 hnl.2 (ErrOK.start true) (fun _ => hlt8)

end

section
variable {N : Nat} {tx : Bytes} {it : Iter}

/-- result of a call made by a function working on `it`. -/
def Post2 {α : Type} (it rest : Iter) (outer : Pos) (q : OState × Iter × α) : Prop :=
  q.2.1 <:+ it ∧ q.2.1 ≠ [] ∧ q.2.1.length ≤ rest.length ∧ q.2.1 <:+ rest ∧ ErrOK it outer q.1

theorem parseFields_call (hc : Ctx N tx it) {rest : Iter} (hs : rest <:+ it) (hne : rest ≠ []) (pos : Pos) {fuel : Nat}
    (hf : 3 * it.length + 3 ≤ fuel) : (parseFields tx fuel rest pos).Sat (Post2 it rest pos) := by
  unfold parseFields
  have hl := hs.length_le
  exact zeroOrMore_spec (parseField tx fuel) pos
    (fun inp hi his => parseField_spec hi pos fuel (by have := his.length_le; omega)) fuel rest [] false hc hs hne
    (by omega)

theorem skipWS_idem {r r' : Iter} (h1 : skipWS r = .ok r) (h2 : skipWS r = .ok r') : r' = r := by
  rw [h1] at h2; injection h2 with h; exact h.symm

theorem parseUnionConstructor_spec (hc : Ctx N tx it) (pos : Pos) (fuel : Nat) (hf : 3 * it.length + 3 ≤ fuel) :
    (parseUnionConstructor tx fuel it pos).Sat (Post it pos false) := by
  have hg := hc.good
  unfold parseUnionConstructor
  refine (skipWS_step hg (List.suffix_refl _) hc.ne).bind ?_
  intro r1 ⟨_, a1, a2, a3, _⟩
  refine (checkAny_step hg a1 a2 _).bind ?_
  rintro ⟨b, r2⟩ ⟨_, b1, b2, b3, hidem, b5⟩
  dsimp only at *
  cases b with
  | false =>
    simp only [Bool.not_false, ↓reduceIte]
    fr
    exact Res.Sat.pure (post_false b1 b2 (ErrOK.start _))
  | true =>
    simp only [Bool.not_true, Bool.false_eq_true, ↓reduceIte]
    obtain ⟨t, ts, e, hm⟩ := b5 rfl
    refine (skipWS_step hg b1 b2).bind ?_
    intro r3 ⟨hsk3, _, _, _, _⟩
    have e3 := skipWS_idem hidem hsk3
    subst e3
    refine (popFront_step hg b1 e (mem_ne_eof hm (by decide))).bind ?_
    rintro ⟨nameTok, r4⟩ ⟨_, _, d1, d2, d3, _⟩
    dsimp only at *
    fr
    refine (checkAny_step hg d1 d2 _).bind ?_
    rintro ⟨sc, r4'⟩ _
    dsimp only at *
    cases sc with
    | true =>
      simp only [↓reduceIte]
      fr
      exact Res.Sat.pure (post_false d1 d2 (ErrOK.start _))
    | false =>
      simp only [Bool.false_eq_true, ↓reduceIte]
      have hl4 := d1.length_le
      refine (parseFields_call hc d1 d2 pos hf).bind ?_
      rintro ⟨fs, r5, fields⟩ ⟨g1, g2, g3, _, g5⟩
      dsimp only at *
      have hst1 : ErrOK it pos (({ start := true } : OState).inherit fs) := (ErrOK.start true).inherit g5
      cases hfs : fs.start with
      | true =>
        simp only [↓reduceIte]
        fr
        exact Res.Sat.pure (post_false g1 g2 hst1)
      | false =>
        simp only [Bool.false_eq_true, ↓reduceIte]
        have hl5 := g1.length_le
        refine (parseType_call hc g1 g2 pos (by omega)).bind ?_
        rintro ⟨as_, r6, alias⟩ ⟨h1, h2, h3, _, _, h6⟩
        dsimp only at *
        have hst2 := hst1.inherit h6
        cases hom : as_.isOmitted with
        | false =>
          simp only [Bool.false_eq_true, ↓reduceIte]
          fr
          exact Res.Sat.pure (post_false h1 h2 hst2)
        | true =>
          simp only [↓reduceIte]
          refine (checkAny_step hg h1 h2 _).bind ?_
          rintro ⟨cq, r7⟩ ⟨_, k1, k2, _, _, _⟩
          dsimp only at *
          cases cq with
          | true =>
            simp only [↓reduceIte]
            refine Res.Sat.bind (front_step (it := it) k1 k2) ?_
            intro tok ⟨htok, _⟩
            exact Res.Sat.pure (post_false k1 k2 (hst2.failWith htok))
          | false =>
            simp only [Bool.false_eq_true, ↓reduceIte]
            fr
            exact Res.Sat.pure (post_false d1 d2 hst2)

theorem parseUnionConstructor_call (hc : Ctx N tx it) {rest : Iter} (hs : rest <:+ it) (hne : rest ≠ []) (pos : Pos)
    {fuel : Nat} (hf : 3 * it.length + 3 ≤ fuel) :
    (parseUnionConstructor tx fuel rest pos).Sat (Post' it rest pos false) :=
  call (parseUnionConstructor_spec (hc.suffix hs hne) pos fuel (by have := hs.length_le; omega)) hs

theorem parseVariantsLoop_spec (hc : Ctx N tx it) (pos : Pos) (fuel : Nat) (hf : 3 * it.length + 3 ≤ fuel) :
    ∀ (k : Nat) (st : OState) (rest : Iter) (acc : List Variant), rest <:+ it → rest ≠ [] → rest.length < k →
      ErrOK it pos st →
      (parseVariantsLoop tx fuel pos k st rest acc).Sat (fun q => q.2.1 <:+ it ∧ q.2.1 ≠ [] ∧ ErrOK it pos q.1) := by
  have hg := hc.good
  intro k
  induction k with
  | zero => intro _ _ _ _ _ h; omega
  | succ k ih =>
    intro st rest acc hs hne hk hst
    unfold parseVariantsLoop
    dsimp only
    refine (skipWS_step hg hs hne).bind ?_
    intro r1 ⟨hsk, _, _, _, _⟩
    refine (expect_step hg hs hne T_ne_eof.2.2.2.2.2.2.2.2.2.2.2.2.2.2.2.2.2.2.1).bind ?_
    rintro ⟨vb, r2⟩ ⟨a1, a2, a3, a4, _⟩
    dsimp only at *
    cases vb with
    | false =>
      simp only [Bool.not_false, ↓reduceIte]
      exact Res.Sat.pure ⟨a1, a2, hst⟩
    | true =>
      simp only [Bool.not_true, Bool.false_eq_true, ↓reduceIte]
      have := a4 rfl
      refine (parseCommentBefore_step hg hc.tx hs hsk).bind ?_
      intro cb _
      refine (parseUnionConstructor_call hc a1 a2 pos hf).bind ?_
      rintro ⟨ls, r3, v⟩ ⟨b1, b2, b3, _, _, b6⟩
      dsimp only at *
      refine Res.Sat.bind (front_step (it := it) b1 b2) ?_
      intro tok ⟨htok, _⟩
      have hep := ErrOK.expectProgress (outer := pos) b6 htok
      have hst2 : ErrOK it pos (({ st with start := true } : OState).inherit ls) := (hst.withStart true).inherit b6
      cases hok : (ls.expectProgress (errTok tok pos)).1 with
      | false =>
        simp only [Bool.not_false, ↓reduceIte]
        exact Res.Sat.pure ⟨b1, b2, hst2.failWithOpt hep⟩
      | true =>
        simp only [Bool.not_true, Bool.false_eq_true, ↓reduceIte]
        exact ih _ r3 _ b1 b2 (by omega) hst2

theorem fin2_sat {α : Type} {rest : Iter} {st : OState} {r : α} {pos : Pos} {c : Bool} (hne : it ≠ [])
    (h1 : rest <:+ it) (h2 : rest ≠ []) (h3 : ErrOK it pos st) :
    (pure (st, if c = true then rest else it, r) : Res (OState × Iter × α)).Sat (Post it pos false) := by
  refine Res.Sat.pure ?_
  cases c with
  | true => simp only [↓reduceIte]; exact post_false h1 h2 h3
  | false => simp only [Bool.false_eq_true, ↓reduceIte]; exact post_false (List.suffix_refl _) hne h3

theorem parseUnionType_spec (hc : Ctx N tx it) (pos : Pos) (fuel : Nat) (hf : 3 * it.length + 3 ≤ fuel) :
    (parseUnionType tx fuel it pos).Sat (Post it pos false) := by
  have hg := hc.good
  unfold parseUnionType
  refine (skipWS_step hg (List.suffix_refl _) hc.ne).bind ?_
  intro r1 ⟨hsk, a1, a2, a3, _⟩
  refine (parseCommentBefore_step hg hc.tx (List.suffix_refl _) hsk).bind ?_
  intro cb _
  dsimp only
  refine (expect_step hg a1 a2 T_ne_eof.2.2.2.2.2.2.2.2.2.2.2.2.2.2.2.2.2.2.1).bind ?_
  rintro ⟨mono, r2⟩ ⟨b1, b2, b3, _, _⟩
  dsimp only at *
  refine (parseUnionConstructor_call hc b1 b2 pos hf).bind ?_
  rintro ⟨ls, r3, constr⟩ ⟨c1, c2, c3, _, _, c6⟩
  dsimp only at *
  by_cases hfl : ls.isFailed = true
  · simp only [hfl, ↓reduceIte]
    refine Res.Sat.bind (front_step (it := it) c1 c2) ?_
    intro tok ⟨htok, _⟩
    exact fin2_sat hc.ne c1 c2 ((ErrOK.start mono).failWith htok)
  · simp only [hfl, Bool.false_eq_true, ↓reduceIte]
    by_cases hom : (mono && ls.isOmitted) = true
    · simp only [hom, ↓reduceIte]
      refine Res.Sat.bind (front_step (it := it) c1 c2) ?_
      intro tok ⟨htok, _⟩
      exact fin2_sat hc.ne c1 c2 ((ErrOK.start mono).failWith htok)
    · simp only [hom, Bool.false_eq_true, ↓reduceIte]
      have hst : ErrOK it pos (({ start := mono } : OState).inherit ls) := (ErrOK.start mono).inherit c6
      by_cases hstart : (({ start := mono } : OState).inherit ls).start = true
      · simp only [hstart, Bool.not_true, Bool.false_eq_true, ↓reduceIte]
        have hl3 := c1.length_le
        refine (parseVariantsLoop_spec hc pos fuel hf fuel _ r3 _ c1 c2 (by omega) hst).bind ?_
        rintro ⟨st', r4, variants, returned⟩ ⟨d1, d2, d3⟩
        dsimp only at *
        cases returned with
        | true => simp only [↓reduceIte]; exact fin2_sat hc.ne d1 d2 d3
        | false =>
          simp only [Bool.false_eq_true, ↓reduceIte]
          by_cases hf2 : st'.isFailed = true
          · simp only [hf2, ↓reduceIte]; exact fin2_sat hc.ne d1 d2 d3
          · simp only [hf2, Bool.false_eq_true, ↓reduceIte]
            by_cases hl : variants.length < 1
            · simp only [hl, ↓reduceIte]
              refine Res.Sat.bind (front_step (it := it) d1 d2) ?_
              intro tok ⟨htok, _⟩
              fr
              exact fin2_sat hc.ne d1 d2 (d3.failWith htok)
            · simp only [hl, ↓reduceIte]
              by_cases hl1 : (variants.length == 1 && !mono) = true
              · simp only [hl1, ↓reduceIte]
                refine Res.Sat.bind (front_step (it := it) d1 d2) ?_
                intro tok ⟨htok, _⟩
                fr
                exact fin2_sat hc.ne d1 d2 (d3.failWith htok)
              · simp only [hl1, Bool.false_eq_true, ↓reduceIte]
                fr
                exact fin2_sat hc.ne d1 d2 d3
      · simp only [hstart, Bool.not_false, ↓reduceIte]
        exact fin2_sat hc.ne c1 c2 hst

theorem parseUnionType_call (hc : Ctx N tx it) {rest : Iter} (hs : rest <:+ it) (hne : rest ≠ []) (pos : Pos)
    {fuel : Nat} (hf : 3 * it.length + 3 ≤ fuel) :
    (parseUnionType tx fuel rest pos).Sat (Post' it rest pos false) :=
  call (parseUnionType_spec (hc.suffix hs hne) pos fuel (by have := hs.length_le; omega)) hs

theorem parseStructDef_spec (hc : Ctx N tx it) (pos : Pos) (fuel : Nat) (hf : 3 * it.length + 3 ≤ fuel) :
    (parseStructDef tx fuel it pos).Sat (Post it pos false) := by
  have hg := hc.good
  have hrefl : it <:+ it := List.suffix_refl _
  have hne := hc.ne
  unfold parseStructDef
  fr
  dsimp only
  refine (parseUnionType_spec hc pos fuel hf).bind ?_
  rintro ⟨st, r1, variants⟩ ⟨a1, a2, _, a4⟩
  dsimp only at *
  by_cases hpr : st.hasProgress = true
  · simp only [hpr, ↓reduceIte]
    fr
    exact Res.Sat.pure (post_false a1 a2 a4)
  · simp only [hpr, Bool.false_eq_true, ↓reduceIte]
    by_cases hfv : (st.isFailed && variants.length != 0) = true
    · simp only [hfv, ↓reduceIte]
      exact Res.Sat.pure (post_false hrefl hne a4)
    · simp only [hfv, Bool.false_eq_true, ↓reduceIte]
      refine (parseFields_call hc hrefl hne pos hf).bind ?_
      rintro ⟨fs, r2, fields⟩ ⟨b1, b2, _, _, b5⟩
      dsimp only at *
      by_cases hff : fs.isFailed = true
      · simp only [hff, ↓reduceIte]
        fr
        exact fin2_sat (c := ({ st with err := fs.err } : OState).hasProgress) hc.ne hrefl hne (ErrOK.setErr b5)
      · simp only [hff, Bool.false_eq_true, ↓reduceIte]
        fr
        exact fin2_sat hc.ne b1 b2 b5

end

section
variable {N : Nat} {tx : Bytes} {it : Iter}

theorem parseStructDef_call (hc : Ctx N tx it) {rest : Iter} (hs : rest <:+ it) (hne : rest ≠ []) (pos : Pos)
    {fuel : Nat} (hf : 3 * it.length + 3 ≤ fuel) :
    (parseStructDef tx fuel rest pos).Sat (Post' it rest pos false) :=
  call (parseStructDef_spec (hc.suffix hs hne) pos fuel (by have := hs.length_le; omega)) hs

/-- `parseMagic` is called when the front token (after white space) is a `crc32hash`. -/
theorem parseMagic_step (hc : Ctx N tx it) {rest : Iter} (hs : rest <:+ it) (hne : rest ≠ []) (pos : Pos)
    (hidem : skipWS rest = .ok rest) {t : Token} {ts : List Token} (he : rest = t :: ts) (hty : t.ty = T.crc32hash) :
    (parseMagic rest pos).Sat (fun q => q.2.1 <:+ it ∧ q.2.1 ≠ [] ∧ q.2.1.length < rest.length ∧
      (∀ st, q.1 = some st → ErrOK it pos st)) := by
  have hg := hc.good
  unfold parseMagic
  refine (skipWS_step hg hs hne).bind ?_
  intro r1 ⟨hsk, _, _, _, _⟩
  have e1 := skipWS_idem hidem hsk
  subst e1
  refine (popFront_step hg hs he (hty ▸ T_ne_eof.2.2.2.2.2.2.1)).bind ?_
  rintro ⟨crcTok, r2⟩ ⟨ec, c0, c1, c2, c3, _⟩
  dsimp only at *
  have : ¬ crcTok.val.length < 1 := by
    have := (hc.wf crcTok c0).1 (by rw [ec, hty]; exact T_ne_eof.2.2.2.2.2.2.1)
    omega
  simp only [this, ↓reduceIte]
  have hfail : ErrOK it pos (({} : OState).failWith (errTok crcTok pos)) := (ErrOK.start false).failWith c0
  split
  · refine Res.Sat.pure ⟨c1, c2, c3, ?_⟩
    intro st h; simp only [Option.some.injEq] at h; subst h; exact hfail
  · split
    · refine Res.Sat.pure ⟨c1, c2, c3, ?_⟩
      intro st h; simp only [Option.some.injEq] at h; subst h; exact hfail
    · fr
      refine Res.Sat.pure ⟨c1, c2, c3, ?_⟩
      intro st h; cases h

theorem parseTemplArg_spec (hc : Ctx N tx it) (pos : Pos) :
    (parseTemplArg it pos).Sat (Post it pos false) := by
  have hg := hc.good
  unfold parseTemplArg
  dsimp only
  refine (skipWS_step hg (List.suffix_refl _) hc.ne).bind ?_
  intro r1 ⟨_, a1, a2, a3, _⟩
  refine (checkAny_step hg a1 a2 _).bind ?_
  rintro ⟨b, r2⟩ ⟨_, b1, b2, b3, hidem, b5⟩
  dsimp only at *
  cases b with
  | false =>
    simp only [Bool.not_false, ↓reduceIte]
    fr
    exact Res.Sat.pure (post_false b1 b2 (ErrOK.start _))
  | true =>
    simp only [Bool.not_true, Bool.false_eq_true, ↓reduceIte]
    obtain ⟨t, ts, e, hm⟩ := b5 rfl
    fr
    refine (skipWS_step hg b1 b2).bind ?_
    intro r3 ⟨hsk3, _, _, _, _⟩
    have e3 := skipWS_idem hidem hsk3
    subst e3
    refine (popFront_step hg b1 e (mem_ne_eof hm (by decide))).bind ?_
    rintro ⟨nameTok, r4⟩ ⟨_, _, d1, d2, d3, _⟩
    dsimp only at *
    fr
    refine (expect_step hg d1 d2 T_ne_eof.2.2.2.2.2.2.2.2.2.2.2.2.2.2.2.1).bind ?_
    rintro ⟨c, r5⟩ ⟨e1, e2, e3, _, _⟩
    dsimp only at *
    cases c with
    | false =>
      simp only [Bool.not_false, ↓reduceIte]
      refine Res.Sat.bind (front_step (it := it) e1 e2) ?_
      intro tok ⟨htok, _⟩
      fr
      exact Res.Sat.pure (post_false e1 e2 ((ErrOK.start true).failWith htok))
    | true =>
      simp only [Bool.not_true, Bool.false_eq_true, ↓reduceIte]
      refine Res.Sat.bind (front_step (it := it) e1 e2) ?_
      intro fr ⟨hfr, frs, hfre⟩
      by_cases hcat : (fr.ty == T.numberSign || fr.val == typeWord) = true
      · simp only [hcat, Bool.not_true, Bool.false_eq_true, ↓reduceIte]
        have hlt : fr.ty ∈ T.numberSign :: letterTys := by
          simp only [Bool.or_eq_true, beq_iff_eq] at hcat
          rcases hcat with h | h
          · rw [h]; exact List.mem_cons_self
          · exact List.mem_cons_of_mem _ ((hc.wf fr hfr).2.2 84 _ (by rw [h]; rfl) rfl)
        have hnws : isWS fr = false := by
          have : ∀ ty ∈ T.numberSign :: letterTys,
              (ty == T.comment || ty == T.whiteSpace || ty == T.tab || ty == T.newLine) = false := by decide
          exact this _ hlt
        have hsk5 : skipWS r5 = .ok r5 := by
          rw [hfre]; simp only [skipWS, hnws]; rfl
        refine (skipWS_step hg e1 e2).bind ?_
        intro r6 ⟨hsk6, _, _, _, _⟩
        have e6 := skipWS_idem hsk5 hsk6
        subst e6
        fr
        have hne_eof : fr.ty ≠ T.eof := mem_ne_eof hlt (by decide)
        refine (popFront_step hg e1 hfre hne_eof).bind ?_
        rintro ⟨_, r7⟩ ⟨_, _, g1, g2, g3, _⟩
        dsimp only at *
        fr
        exact Res.Sat.pure (post_false g1 g2 (ErrOK.start true))
      · simp only [hcat, Bool.not_false, ↓reduceIte]
        refine Res.Sat.bind (front_step (it := it) e1 e2) ?_
        intro tok ⟨htok, _⟩
        exact Res.Sat.pure (post_false e1 e2 ((ErrOK.start true).failWith htok))

theorem parseTemplArg_call (hc : Ctx N tx it) {rest : Iter} (hs : rest <:+ it) (hne : rest ≠ []) (pos : Pos) :
    (parseTemplArg rest pos).Sat (Post' it rest pos false) :=
  call (parseTemplArg_spec (hc.suffix hs hne) pos) hs

theorem parseTemplLoop_spec (hc : Ctx N tx it) (pos : Pos) :
    ∀ (k : Nat) (st : OState) (rest : Iter) (acc : List Templ), rest <:+ it → rest ≠ [] → rest.length < k →
      ErrOK it pos st →
      (parseTemplLoop pos k st rest acc).Sat (fun q => q.2.1 <:+ it ∧ q.2.1 ≠ [] ∧ ErrOK it pos q.1) := by
  have hg := hc.good
  intro k
  induction k with
  | zero => intro _ _ _ _ _ h; omega
  | succ k ih =>
    intro st rest acc hs hne hk hst
    unfold parseTemplLoop
    refine (expect_step hg hs hne T_ne_eof.2.2.2.2.2.2.2.2.2.2.2.2.2.2.1).bind ?_
    rintro ⟨cm, r1⟩ ⟨a1, a2, a3, a4, _⟩
    dsimp only at *
    cases cm with
    | false =>
      simp only [Bool.not_false, ↓reduceIte]
      exact Res.Sat.pure ⟨a1, a2, hst⟩
    | true =>
      simp only [Bool.not_true, Bool.false_eq_true, ↓reduceIte]
      have := a4 rfl
      refine (parseTemplArg_call hc a1 a2 pos).bind ?_
      rintro ⟨ls, r2, t⟩ ⟨b1, b2, b3, _, _, b6⟩
      dsimp only at *
      refine Res.Sat.bind (front_step (it := it) b1 b2) ?_
      intro tok ⟨htok, _⟩
      have hep := ErrOK.expectProgress (outer := pos) b6 htok
      cases hok : (ls.expectProgress (errTok tok pos)).1 with
      | false =>
        simp only [Bool.not_false, ↓reduceIte]
        exact Res.Sat.pure ⟨b1, b2, hst.inherit hep⟩
      | true =>
        simp only [Bool.not_true, Bool.false_eq_true, ↓reduceIte]
        exact ih _ r2 _ b1 b2 (by omega) hst

/-- shape of the results of the sub-blocks of parseTypeDecl / parseFuncDecl -/
def Mid {α : Type} (it : Iter) (pos : Pos) (q : OState × Iter × α) : Prop :=
  q.2.1 <:+ it ∧ q.2.1 ≠ [] ∧ ErrOK it pos q.1

theorem parseTypeDecl_spec (hc : Ctx N tx it) (pos : Pos) (name : TName) (fuel : Nat) (hf : 3 * it.length + 3 ≤ fuel) :
    (parseTypeDecl tx fuel it pos name).Sat (Post it pos false) := by
  have hg := hc.good
  unfold parseTypeDecl
  refine (skipWS_step hg (List.suffix_refl _) hc.ne).bind ?_
  intro r1 ⟨_, a1, a2, a3, _⟩
  refine (checkToken_step hg a1 a2 T.crc32hash).bind ?_
  rintro ⟨c, r2⟩ ⟨_, b1, b2, b3, hidem, b5⟩
  dsimp only at *
  have hmagic : (if c = true then parseMagic r2 pos else pure (none, r2, 0)).Sat
      (fun q => q.2.1 <:+ it ∧ q.2.1 ≠ [] ∧ (∀ st, q.1 = some st → ErrOK it pos st)) := by
    cases c with
    | true =>
      simp only [↓reduceIte]
      obtain ⟨t, ts, e, hm⟩ := b5 rfl
      exact (parseMagic_step hc b1 b2 pos hidem e hm).mono (fun q ⟨h1, h2, _, h4⟩ => ⟨h1, h2, h4⟩)
    | false =>
      simp only [Bool.false_eq_true, ↓reduceIte]
      exact Res.Sat.pure ⟨b1, b2, fun st h => by cases h⟩
  refine hmagic.bind ?_
  rintro ⟨failed, r3, magic⟩ ⟨c1, c2, c3⟩
  dsimp only at *
  cases failed with
  | some st => exact Res.Sat.pure (post_false c1 c2 (c3 st rfl))
  | none =>
    dsimp only
    refine (expect_step hg c1 c2 T_ne_eof.2.2.2.2.2.2.2.2.2.2.1).bind ?_
    rintro ⟨la, r4⟩ ⟨d1, d2, d3, _, _⟩
    dsimp only at *
    have hl4 := d1.length_le
    -- the `switch`
    have hsw : (if la = true then (do
          let st : OState := { start := true }
          let (ls, rest, t0) ← parseTemplArg r4 pos
          let st := st.inherit ls
          let tok ← front rest
          let (ok, ls) := ls.expectProgress (errTok tok pos)
          if !ok then pure (st.inherit ls, rest, [t0], true)
          else
            let (st, rest, templs, returned) ← parseTemplLoop pos fuel st rest [t0]
            if returned then pure (st, rest, templs, true)
            else
              let (ra, rest) ← expect rest T.rAngle
              if !ra then
                let tok ← front rest
                pure (st.failWith (errTok tok pos), rest, templs, true)
              else pure (st, rest, templs, false))
        else (do
          let (b, rest) ← checkAny r4 [T.lCurly, T.lRound, T.lSquare]
          if b then
            let tok ← front rest
            pure ((({} : OState).failWith (errTok tok pos)), rest, [], true)
          else pure (({} : OState), rest, [], false)) : Res (OState × Iter × List Templ × Bool)).Sat (Mid it pos) := by
      cases la with
      | true =>
        simp only [↓reduceIte]
        refine (parseTemplArg_call hc d1 d2 pos).bind ?_
        rintro ⟨ls, r5, t0⟩ ⟨e1, e2, e3, _, _, e6⟩
        dsimp only at *
        have hst : ErrOK it pos (({ start := true } : OState).inherit ls) := (ErrOK.start true).inherit e6
        refine Res.Sat.bind (front_step (it := it) e1 e2) ?_
        intro tok ⟨htok, _⟩
        have hep := ErrOK.expectProgress (outer := pos) e6 htok
        cases hok : (ls.expectProgress (errTok tok pos)).1 with
        | false =>
          simp only [Bool.not_false, ↓reduceIte]
          exact Res.Sat.pure ⟨e1, e2, hst.inherit hep⟩
        | true =>
          simp only [Bool.not_true, Bool.false_eq_true, ↓reduceIte]
          have hl5 := e1.length_le
          refine (parseTemplLoop_spec hc pos fuel _ r5 _ e1 e2 (by omega) hst).bind ?_
          rintro ⟨st', r6, templs, returned⟩ ⟨g1, g2, g3⟩
          dsimp only at *
          cases returned with
          | true => simp only [↓reduceIte]; exact Res.Sat.pure ⟨g1, g2, g3⟩
          | false =>
            simp only [Bool.false_eq_true, ↓reduceIte]
            refine (expect_step hg g1 g2 T_ne_eof.2.2.2.2.2.2.2.2.2.2.2.1).bind ?_
            rintro ⟨ra, r7⟩ ⟨k1, k2, _, _, _⟩
            dsimp only at *
            cases ra with
            | false =>
              simp only [Bool.not_false, ↓reduceIte]
              refine Res.Sat.bind (front_step (it := it) k1 k2) ?_
              intro tok ⟨htok, _⟩
              exact Res.Sat.pure ⟨k1, k2, g3.failWith htok⟩
            | true =>
              simp only [Bool.not_true, Bool.false_eq_true, ↓reduceIte]
              exact Res.Sat.pure ⟨k1, k2, g3⟩
      | false =>
        simp only [Bool.false_eq_true, ↓reduceIte]
        refine (checkAny_step hg d1 d2 _).bind ?_
        rintro ⟨b, r5⟩ ⟨_, e1, e2, _, _, _⟩
        dsimp only at *
        cases b with
        | true =>
          simp only [↓reduceIte]
          refine Res.Sat.bind (front_step (it := it) e1 e2) ?_
          intro tok ⟨htok, _⟩
          exact Res.Sat.pure ⟨e1, e2, (ErrOK.start false).failWith htok⟩
        | false =>
          simp only [Bool.false_eq_true, ↓reduceIte]
          exact Res.Sat.pure ⟨e1, e2, ErrOK.start false⟩
    refine hsw.bind ?_
    rintro ⟨st, r5, templs, returned⟩ ⟨e1, e2, e3⟩
    dsimp only at *
    cases returned with
    | true => simp only [↓reduceIte]; exact Res.Sat.pure (post_false e1 e2 e3)
    | false =>
      simp only [Bool.false_eq_true, ↓reduceIte]
      refine (expect_step hg e1 e2 T_ne_eof.2.2.2.2.2.2.2.2.2.2.2.2.2.2.2.2.2.2.2.1).bind ?_
      rintro ⟨eq, r6⟩ ⟨g1, g2, _, _, _⟩
      dsimp only at *
      have hal : (if eq = true then pure (false, r6) else expect r6 T.tl2alias : Res (Bool × Iter)).Sat
          (fun q => q.2 <:+ it ∧ q.2 ≠ []) := by
        cases eq with
        | true => simp only [↓reduceIte]; exact Res.Sat.pure ⟨g1, g2⟩
        | false =>
          simp only [Bool.false_eq_true, ↓reduceIte]
          exact (expect_step hg g1 g2 T_ne_eof.2.2.2.2.2.2.2.2.2.2.2.2.2.2.2.2.2.2.2.2.1).mono
            (fun q ⟨h1, h2, _⟩ => ⟨h1, h2⟩)
      refine hal.bind ?_
      rintro ⟨al, r7⟩ ⟨k1, k2⟩
      dsimp only at *
      by_cases hno : (!eq && !al) = true
      · simp only [hno, ↓reduceIte]
        exact Res.Sat.pure (post_false (List.suffix_refl _) hc.ne e3)
      · simp only [hno, Bool.false_eq_true, ↓reduceIte]
        have hl7 := k1.length_le
        have hst := e3.withStart true
        cases al with
        | true =>
          simp only [↓reduceIte]
          refine (parseType_call hc k1 k2 pos (by omega)).bind ?_
          rintro ⟨ls, r8, ty⟩ ⟨m1, m2, _, _, _, m6⟩
          dsimp only at *
          refine Res.Sat.bind (front_step (it := it) m1 m2) ?_
          intro tok ⟨htok, _⟩
          have hep := ErrOK.expectProgress (outer := pos) m6 htok
          cases hok : (ls.expectProgress (errTok tok pos)).1 with
          | false =>
            simp only [Bool.not_false, ↓reduceIte]
            exact Res.Sat.pure (post_false m1 m2 (hst.inherit hep))
          | true =>
            simp only [Bool.not_true, Bool.false_eq_true, ↓reduceIte]
            fr
            exact Res.Sat.pure (post_false m1 m2 hst)
        | false =>
          simp only [Bool.false_eq_true, ↓reduceIte]
          refine (parseStructDef_call hc k1 k2 pos hf).bind ?_
          rintro ⟨ls, r8, sd⟩ ⟨m1, m2, _, _, _, m6⟩
          dsimp only at *
          fr
          exact Res.Sat.pure (post_false m1 m2 (hst.inherit m6))

end

section
variable {N : Nat} {tx : Bytes} {it : Iter}

theorem parseFuncDecl_spec (hc : Ctx N tx it) (pos : Pos) (name : TName) (fuel : Nat) (hf : 3 * it.length + 3 ≤ fuel) :
    (parseFuncDecl tx fuel it pos name).Sat (Post it pos false) := by
  have hg := hc.good
  have hrefl : it <:+ it := List.suffix_refl _
  have hne := hc.ne
  unfold parseFuncDecl
  refine (skipWS_step hg hrefl hne).bind ?_
  intro r1 ⟨_, a1, a2, a3, _⟩
  refine (checkToken_step hg a1 a2 T.crc32hash).bind ?_
  rintro ⟨c, r2⟩ ⟨_, b1, b2, b3, hidem, b5⟩
  dsimp only at *
  cases c with
  | false =>
    simp only [Bool.not_false, ↓reduceIte]
    refine Res.Sat.bind (front_step (it := it) hrefl hne) ?_
    intro tok ⟨htok, _⟩
    exact Res.Sat.pure (post_false b1 b2 ((ErrOK.start false).failWith htok))
  | true =>
    simp only [Bool.not_true, Bool.false_eq_true, ↓reduceIte]
    obtain ⟨t, ts, e, hm⟩ := b5 rfl
    refine (parseMagic_step hc b1 b2 pos hidem e hm).bind ?_
    rintro ⟨failed, r3, magic⟩ ⟨c1, c2, _, c3⟩
    dsimp only at *
    cases failed with
    | some st => exact Res.Sat.pure (post_false c1 c2 (c3 st rfl))
    | none =>
      dsimp only
      refine (parseFields_call hc c1 c2 pos hf).bind ?_
      rintro ⟨st, r4, args⟩ ⟨d1, d2, _, _, d5⟩
      dsimp only at *
      by_cases hfl : st.isFailed = true
      · simp only [hfl, ↓reduceIte]
        exact Res.Sat.pure (post_false d1 d2 d5)
      · simp only [hfl, Bool.false_eq_true, ↓reduceIte]
        refine (expect_step hg d1 d2 T_ne_eof.2.2.2.2.2.2.2.2.2.2.2.2.2.2.2.2.2.2.2.2.2.1).bind ?_
        rintro ⟨fs, r5⟩ ⟨e1, e2, _, _, _⟩
        dsimp only at *
        cases fs with
        | false =>
          simp only [Bool.not_false, ↓reduceIte]
          fr
          exact Res.Sat.pure (post_false e1 e2 d5)
        | true =>
          simp only [Bool.not_true, Bool.false_eq_true, ↓reduceIte]
          have hst := d5.withStart true
          refine (checkToken_step hg e1 e2 T.tl2alias).bind ?_
          rintro ⟨al, r6⟩ ⟨_, g1, g2, _, _, g5⟩
          dsimp only at *
          cases al with
          | true =>
            simp only [↓reduceIte]
            obtain ⟨t', ts', e', hm'⟩ := g5 rfl
            refine (popFront_step hg g1 e' (hm' ▸ T_ne_eof.2.2.2.2.2.2.2.2.2.2.2.2.2.2.2.2.2.2.2.2.1)).bind ?_
            rintro ⟨_, r7⟩ ⟨_, _, k1, k2, _, _⟩
            dsimp only at *
            have := k1.length_le
            refine (parseType_call hc k1 k2 pos (by omega)).bind ?_
            rintro ⟨ls, r8, ty⟩ ⟨m1, m2, _, _, _, m6⟩
            dsimp only at *
            by_cases hp : ls.hasProgress = true
            · simp only [hp, Bool.not_true, Bool.false_eq_true, ↓reduceIte]
              fr
              exact Res.Sat.pure (post_false m1 m2 (hst.inherit m6))
            · simp only [hp, Bool.not_false, ↓reduceIte]
              exact Res.Sat.pure (post_false m1 m2 (hst.inherit m6))
          | false =>
            simp only [Bool.false_eq_true, ↓reduceIte]
            refine (parseStructDef_call hc g1 g2 pos hf).bind ?_
            rintro ⟨ls, r7, sd⟩ ⟨k1, k2, _, _, _, k6⟩
            dsimp only at *
            by_cases hp : ls.hasProgress = true
            · simp only [hp, Bool.not_true, Bool.false_eq_true, ↓reduceIte]
              fr
              exact Res.Sat.pure (post_false k1 k2 hst)
            · simp only [hp, Bool.not_false, ↓reduceIte]
              have := k1.length_le
              refine (parseType_call hc k1 k2 pos (by omega)).bind ?_
              rintro ⟨ts_, r8, ref⟩ ⟨m1, m2, _, _, _, m6⟩
              dsimp only at *
              by_cases h1 : ts_.isFailed = true
              · simp only [h1, ↓reduceIte]
                exact Res.Sat.pure (post_false m1 m2 (hst.inherit m6))
              · simp only [h1, Bool.false_eq_true, ↓reduceIte]
                by_cases h2 : (ts_.isOmitted && ls.isFailed) = true
                · simp only [h2, ↓reduceIte]
                  refine Res.Sat.bind (front_step (it := it) m1 m2) ?_
                  intro tok ⟨htok, _⟩
                  exact Res.Sat.pure (post_false m1 m2 ((hst.inherit k6).failWith htok))
                · simp only [h2, Bool.false_eq_true, ↓reduceIte]
                  fr
                  exact Res.Sat.pure (post_false m1 m2 (hst.withStart true))

end

section
variable {N : Nat} {tx : Bytes} {it : Iter}

theorem expectProgress_false_err {s : OState} {e : PErr} (h : (s.expectProgress e).1 = false) :
    (s.expectProgress e).2.err ≠ none := by
  cases s with
  | mk start err =>
    cases start <;> cases err <;>
      simp [OState.expectProgress, OState.hasProgress, OState.isOmitted, OState.failWith] at h ⊢

def CombPost (it : Iter) (outer : Pos) (q : Comb × Iter × Option PErr) : Prop :=
  (∀ e, q.2.2 = some e → ∃ tok, tok ∈ it ∧ e = errTok tok outer) ∧
  (q.2.2 = none → q.2.1 <:+ it ∧ q.2.1 ≠ [] ∧ q.2.1.length < it.length)

theorem parseCombinatorBody_spec (hc : Ctx N tx it) (outer : Pos) (cb : Bytes) (fuel : Nat)
    (hf : 3 * it.length + 3 ≤ fuel) :
    (parseCombinatorBody tx fuel it outer cb).Sat (CombPost it outer) := by
  have hg := hc.good
  have hrefl : it <:+ it := List.suffix_refl _
  have hne := hc.ne
  unfold parseCombinatorBody
  refine (zeroOrMore_spec parseAnnotation outer (fun inp hi _ => parseAnnotation_spec hi outer) fuel it [] false hc
    hrefl hne (by omega)).bind ?_
  rintro ⟨st, r1, anns⟩ ⟨a1, a2, _, _, a5⟩
  dsimp only at *
  cases hse : st.err with
  | some e =>
    dsimp only
    exact Res.Sat.pure ⟨fun e' h => by simp only [Option.some.injEq] at h; subst h; exact a5 e hse,
      fun h => by cases h⟩
  | none =>
    dsimp only
    refine (skipWS_step hg a1 a2).bind ?_
    intro r2 ⟨_, b1, b2, _, _⟩
    refine (call (parseTypeName_spec (hc.suffix b1 b2) outer) b1).bind ?_
    rintro ⟨st2, r3, name⟩ ⟨c1, c2, c3, _, c5, c6⟩
    dsimp only at *
    fr
    refine Res.Sat.bind (front_step (it := it) c1 c2) ?_
    intro tok ⟨htok, _⟩
    have hep := ErrOK.expectProgress (outer := outer) c6 htok
    cases hok : (st2.expectProgress (errTok tok outer)).1 with
    | false =>
      simp only [Bool.not_false, ↓reduceIte]
      refine Res.Sat.pure ⟨fun e h => hep e h, fun h => ?_⟩
      exact absurd h (expectProgress_false_err hok)
    | true =>
      simp only [Bool.not_true, Bool.false_eq_true, ↓reduceIte]
      obtain ⟨hpr, heq⟩ := expectProgress_true hok
      rw [heq]
      have hlt3 : r3.length < it.length := by
        have := c5 rfl hpr
        have := b1.length_le
        omega
      have hl3 := c1.length_le
      refine (call (parseTypeDecl_spec (hc.suffix c1 c2) outer name fuel (by omega)) c1).bind ?_
      rintro ⟨ts, r4, td⟩ ⟨d1, d2, d3, _, _, d6⟩
      dsimp only at *
      have hst := c6.inherit d6
      have hmid : (if (!ts.start) = true then (do
            let (fs, rest, fd) ← parseFuncDecl tx fuel r4 outer name
            let st := (st2.inherit ts).inherit fs
            if fs.start then pure (st, rest, Decl.func fd)
            else
              let tok ← front rest
              pure (st.failWith (errTok tok outer), rest, Decl.type td))
          else pure (st2.inherit ts, r4, Decl.type td) : Res (OState × Iter × Decl)).Sat
          (fun q => q.2.1 <:+ it ∧ q.2.1 ≠ [] ∧ q.2.1.length < it.length ∧ ErrOK it outer q.1) := by
        cases hts : ts.start with
        | true =>
          simp only [Bool.not_true, Bool.false_eq_true, ↓reduceIte]
          exact Res.Sat.pure ⟨d1, d2, by dsimp only; omega, hst⟩
        | false =>
          simp only [Bool.not_false, ↓reduceIte]
          have hl4 := d1.length_le
          refine (call (parseFuncDecl_spec (hc.suffix d1 d2) outer name fuel (by omega)) d1).bind ?_
          rintro ⟨fs, r5, fd⟩ ⟨e1, e2, e3, _, _, e6⟩
          dsimp only at *
          cases hfs : fs.start with
          | true =>
            simp only [↓reduceIte]
            exact Res.Sat.pure ⟨e1, e2, by dsimp only; omega, hst.inherit e6⟩
          | false =>
            simp only [Bool.false_eq_true, ↓reduceIte]
            refine Res.Sat.bind (front_step (it := it) e1 e2) ?_
            intro tok ⟨htok, _⟩
            exact Res.Sat.pure ⟨e1, e2, by dsimp only; omega, (hst.inherit e6).failWith htok⟩
      refine hmid.bind ?_
      rintro ⟨st3, r5, decl⟩ ⟨g1, g2, g3, g4⟩
      dsimp only at *
      refine (expect_step hg g1 g2 T_ne_eof.2.2.2.2.2.2.2.2.2.2.2.2.2.2.2.2.1).bind ?_
      rintro ⟨sc, r6⟩ ⟨k1, k2, k3, _, _⟩
      dsimp only at *
      have hfin : (if (!sc) = true then (do
            let tok ← front r6
            pure (st3.failWith (errTok tok outer)))
          else pure st3 : Res OState).Sat (ErrOK it outer) := by
        cases sc with
        | true => simp only [Bool.not_true, Bool.false_eq_true, ↓reduceIte]; exact Res.Sat.pure g4
        | false =>
          simp only [Bool.not_false, ↓reduceIte]
          refine Res.Sat.bind (front_step (it := it) k1 k2) ?_
          intro tok ⟨htok, _⟩
          exact Res.Sat.pure (g4.failWith htok)
      refine hfin.bind ?_
      intro st4 hst4
      fr
      exact Res.Sat.pure ⟨fun e h => hst4 e h, fun _ => ⟨k1, k2, by dsimp only; omega⟩⟩

end

section
variable {N : Nat} {tx : Bytes} {it : Iter}

/-- the position range of an error lies inside a text of length `N`, is ordered, stays on one line, and the
combinator start `outer` is not after it (exactly what `consolePrint` needs for an uncorrupted context). -/
def ErrInText (N : Nat) (e : PErr) : Prop :=
  e.outer.slo ≤ e.outer.off ∧ e.outer.off ≤ e.b.off ∧ e.outer.slo ≤ e.b.slo ∧ e.b.slo ≤ e.b.off ∧
  e.b.off ≤ e.e.off ∧ e.e.off ≤ N ∧ e.e.slo = e.b.slo

theorem errTok_inText {t0 tok : Token} {ts : List Token} (hg : Good N (t0 :: ts)) (hm : tok ∈ t0 :: ts) :
    ErrInText N (errTok tok t0.pos) := by
  have h1 := hg.head_le hm
  have h2 := hg.mem_in hm
  have h3 := hg.head_in
  simp only [ErrInText, errTok]
  exact ⟨h3.1, h1.1, h1.2, h2.1, by omega, h2.2, trivial⟩

def FilePost (N : Nat) (it : Iter) (q : Comb × Iter × Option PErr) : Prop :=
  (∀ e, q.2.2 = some e → ErrInText N e) ∧
  (q.2.2 = none → q.2.1 <:+ it ∧ q.2.1 ≠ [] ∧ q.2.1.length < it.length)

theorem parseCombinator_spec (hc : Ctx N tx it) (fuel : Nat) (hf : 3 * it.length + 3 ≤ fuel) :
    (parseCombinator tx fuel it).Sat (FilePost N it) := by
  have hg := hc.good
  unfold parseCombinator
  refine (skipWS_step hg (List.suffix_refl _) hc.ne).bind ?_
  intro r1 ⟨hsk, a1, a2, a3, _⟩
  refine Res.Sat.bind (front_step (it := it) a1 a2) ?_
  intro t0 ⟨_, ts, hr1⟩
  refine (parseCommentBefore_step hg hc.tx (List.suffix_refl _) hsk).bind ?_
  intro cb _
  have hc1 := hc.suffix a1 a2
  refine (parseCombinatorBody_spec hc1 t0.pos cb fuel (by omega)).mono ?_
  rintro q ⟨h1, h2⟩
  refine ⟨?_, ?_⟩
  · intro e he
    obtain ⟨tok, hm, rfl⟩ := h1 e he
    subst hr1
    exact errTok_inText hc1.good hm
  · intro hn
    obtain ⟨k1, k2, k3⟩ := h2 hn
    exact ⟨k1.trans a1, k2, by omega⟩

theorem expectLazy_total (hc : Ctx N tx it) (ty : Int) : (expectLazy it ty).Sat (fun _ => True) := by
  unfold expectLazy expect checkToken checkAny
  obtain ⟨r, hr, _, _, h2, _⟩ := skipWS_step hc.good (List.suffix_refl _) hc.ne
  rw [hr]
  cases r with
  | nil => exact absurd rfl h2
  | cons t ts =>
    simp only [Res.ok_bind, front, popFront, Res.pure_eq]
    split <;> simp only [Res.ok_bind] <;> split <;> exact Res.Sat.ok trivial

theorem parseFileLoop_spec (fuel : Nat) : ∀ (k : Nat) (it : Iter) (acc : List Comb), Ctx N tx it → it.length < k →
    3 * it.length + 3 ≤ fuel →
    (parseFileLoop tx fuel k it acc).Sat (fun r => ∀ e, r = .error e → ErrInText N e) := by
  intro k
  induction k with
  | zero => intro _ _ _ h; omega
  | succ k ih =>
    intro it acc hc hk hf
    unfold parseFileLoop
    refine (expectLazy_total hc T.eof).bind ?_
    rintro ⟨e, _⟩ _
    dsimp only
    cases e with
    | true => simp only [↓reduceIte]; exact Res.Sat.pure (fun e h => by cases h)
    | false =>
      simp only [Bool.false_eq_true, ↓reduceIte]
      refine (parseCombinator_spec hc fuel hf).bind ?_
      rintro ⟨c, r, err⟩ ⟨h1, h2⟩
      dsimp only at *
      cases err with
      | some e =>
        dsimp only
        exact Res.Sat.pure (fun e' h => by injection h with h; subst h; exact h1 e rfl)
      | none =>
        dsimp only
        obtain ⟨k1, k2, k3⟩ := h2 rfl
        exact ih r _ (hc.suffix k1 k2) (by omega) (by omega)

/-- C20, model level: `ParseTL2File` returns (no panic, recursion bounded by the fuel it starts with) and every
error it returns has a position range inside the text. -/
theorem parseTL2File_total (tx : Bytes) :
    (parseTL2File tx).Sat (fun r => ∀ e, r = .error e → ErrInText tx.length e) := by
  obtain ⟨lx, hlx, hrec, hok, herr⟩ := lexTL2_spec tx
  unfold parseTL2File
  rw [hlx]
  dsimp only
  cases hle : lx.err with
  | some e =>
    dsimp only
    refine Res.Sat.ok ?_
    intro e' h
    injection h with h; subst h
    obtain ⟨tok, rfl, htok⟩ := herr e hle
    simp only [ErrInText, errTok]
    exact ⟨htok.1, Nat.le_refl _, Nat.le_refl _, htok.1, by omega, htok.2, trivial⟩
  | none =>
    dsimp only
    obtain ⟨h1, h2, h3⟩ := hok hle
    have hwf := lexTL2_wf tx lx hlx hle
    have : (recombine lx.all lx.rest != tx) = false := by simp [hrec]
    simp only [this, Bool.false_eq_true, ↓reduceIte]
    exact parseFileLoop_spec _ _ _ _ ⟨h3, hwf, h2, rfl⟩ (by simp only [fuelFor]; omega) (by simp only [fuelFor]; omega)

end

end TLVerif.Syntaxtl2
