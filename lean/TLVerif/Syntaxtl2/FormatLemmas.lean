import TLVerif.Syntaxtl2.Format
/-! What the TL2 formatter reads: with `ignoreComments` (canonical options) only the declarations (`core`), with any
options never the right-hand comments and never the comments of function arguments (`vis`). Hence
idempotence of formatting follows from the round trip of the declarations. -/
namespace TLVerif.Syntaxtl2

/-! ### `core`: the declarations without comments -/
def Field.core (f : Field) : Field := { f with cb := [], cr := [] }
def VBody.core : VBody → VBody
  | .alias t => .alias t
  | .fields fs => .fields (fs.map Field.core)
def Variant.core (v : Variant) : Variant := { v with body := v.body.core, cb := [] }
def StructDef.core : StructDef → StructDef
  | .union vs => .union (vs.map Variant.core)
  | .fields fs => .fields (fs.map Field.core)
def TypeDef.core : TypeDef → TypeDef
  | .alias t => .alias t
  | .struct s => .struct s.core
def Decl.core : Decl → Decl
  | .type d => .type { d with ty := d.ty.core }
  | .func d => .func { d with args := d.args.map Field.core, ret := d.ret.core }
def Comb.core (c : Comb) : Comb := { c with decl := c.decl.core, cb := [] }
def File.core (f : File) : File := f.map Comb.core

/-! ### `vis`: everything the default formatter can print (right comments and function-argument comments dropped) -/
def Field.vis (f : Field) : Field := { f with cr := [] }
def VBody.vis : VBody → VBody
  | .alias t => .alias t
  | .fields fs => .fields (fs.map Field.vis)
def Variant.vis (v : Variant) : Variant := { v with body := v.body.vis }
def StructDef.vis : StructDef → StructDef
  | .union vs => .union (vs.map Variant.vis)
  | .fields fs => .fields (fs.map Field.vis)
def TypeDef.vis : TypeDef → TypeDef
  | .alias t => .alias t
  | .struct s => .struct s.vis
def Decl.vis : Decl → Decl
  | .type d => .type { d with ty := d.ty.vis }
  | .func d => .func { d with args := d.args.map Field.core, ret := d.ret.vis }
def Comb.vis (c : Comb) : Comb := { c with decl := c.decl.vis }
def File.vis (f : File) : File := f.map Comb.vis

theorem printField_core (f : Field) : printField f.core = printField f := rfl
theorem printField_vis (f : Field) : printField f.vis = printField f := rfl

section
variable (o : FormatOptions)

theorem printVariantFields_vis (fs : List Field) (sep : Bytes) :
    printVariantFields o (fs.map Field.vis) sep = printVariantFields o fs sep := by
  simp only [printVariantFields, List.map_map]
  congr 1

theorem printVariantFields_core (h : o.ignoreComments = true) (fs : List Field) (sep : Bytes) :
    printVariantFields o (fs.map Field.core) sep = printVariantFields o fs sep := by
  simp only [printVariantFields, List.map_map, h, Bool.not_true, Bool.false_and]
  congr 1

theorem any_cb_vis (fs : List Field) : (fs.map Field.vis).any (fun f => f.cb != []) = fs.any (fun f => f.cb != []) := by
  simp only [List.any_map]; congr 1

theorem hasBefore_vis (v : Variant) : v.vis.hasBeforeCommentIn = v.hasBeforeCommentIn := by
  cases v with
  | mk name body cb =>
    cases body with
    | alias t => rfl
    | fields fs => simp only [Variant.vis, VBody.vis, Variant.hasBeforeCommentIn, any_cb_vis]

theorem printVariant_vis (v : Variant) (n : Nat) : printVariant o v.vis n = printVariant o v n := by
  cases v with
  | mk name body cb =>
    cases body with
    | alias t => rfl
    | fields fs =>
      have hb := hasBefore_vis ⟨name, .fields fs, cb⟩
      simp only [Variant.vis, VBody.vis] at hb
      simp only [printVariant, Variant.vis, VBody.vis, printVariantFields_vis, hb]

theorem printVariant_core (h : o.ignoreComments = true) (v : Variant) (n : Nat) :
    printVariant o v.core n = printVariant o v n := by
  cases v with
  | mk name body cb =>
    cases body with
    | alias t => rfl
    | fields fs =>
      simp only [printVariant, Variant.core, VBody.core, printVariantFields_core o h, h, Bool.not_true, Bool.false_and]

theorem printVariants_vis (sep : Bytes) (single : Bool) (vs : List Variant) (i : Nat) (force : Bool) :
    printVariants o sep single (vs.map Variant.vis) i force = printVariants o sep single vs i force := by
  induction vs generalizing i force with
  | nil => rfl
  | cons v vs ih =>
    simp only [List.map_cons, printVariants, printVariant_vis, ih]
    rfl

theorem printVariants_core (h : o.ignoreComments = true) (sep : Bytes) (single : Bool) (vs : List Variant) (i : Nat)
    (force : Bool) :
    printVariants o sep single (vs.map Variant.core) i force = printVariants o sep single vs i force := by
  induction vs generalizing i force with
  | nil => rfl
  | cons v vs ih =>
    simp only [List.map_cons, printVariants, printVariant_core o h, ih, h, Bool.not_true, Bool.false_and]
    rfl

theorem printStructFields_vis (sep : Bytes) (force : Bool) (fs : List Field) (i : Nat) :
    printStructFields o sep force (fs.map Field.vis) i = printStructFields o sep force fs i := by
  induction fs generalizing i with
  | nil => rfl
  | cons f fs ih => simp only [List.map_cons, printStructFields, ih]; rfl

theorem printStructFields_core (h : o.ignoreComments = true) (sep : Bytes) (force : Bool) (fs : List Field) (i : Nat) :
    printStructFields o sep force (fs.map Field.core) i = printStructFields o sep force fs i := by
  induction fs generalizing i with
  | nil => rfl
  | cons f fs ih => simp only [List.map_cons, printStructFields, ih, h, Bool.not_true, Bool.false_and]; rfl

theorem printWithNewLineOption_vis (t : TypeDef) (force isRet : Bool) :
    printWithNewLineOption o t.vis force isRet = printWithNewLineOption o t force isRet := by
  cases t with
  | alias ty => rfl
  | struct s =>
    cases s with
    | union vs =>
      simp only [TypeDef.vis, StructDef.vis, printWithNewLineOption, printVariants_vis, List.any_map, List.length_map]
      have : (Variant.hasBeforeCommentIn ∘ Variant.vis) = Variant.hasBeforeCommentIn := by
        funext v; exact hasBefore_vis v
      simp only [Function.comp_def] at this
      simp only [Function.comp_def, this]
    | fields fs =>
      simp only [TypeDef.vis, StructDef.vis, printWithNewLineOption, printStructFields_vis, any_cb_vis]

theorem printWithNewLineOption_core (h : o.ignoreComments = true) (t : TypeDef) (force isRet : Bool) :
    printWithNewLineOption o t.core force isRet = printWithNewLineOption o t force isRet := by
  cases t with
  | alias ty => rfl
  | struct s =>
    cases s with
    | union vs =>
      simp only [TypeDef.core, StructDef.core, printWithNewLineOption, printVariants_core o h, h, Bool.not_true,
        Bool.false_and, List.length_map]
    | fields fs =>
      simp only [TypeDef.core, StructDef.core, printWithNewLineOption, printStructFields_core o h, h, Bool.not_true,
        Bool.false_and]

theorem printTypeDef_vis (t : TypeDef) (n : Nat) (isRet : Bool) : printTypeDef o t.vis n isRet = printTypeDef o t n isRet := by
  simp only [printTypeDef, printWithNewLineOption_vis]

theorem printTypeDef_core (h : o.ignoreComments = true) (t : TypeDef) (n : Nat) (isRet : Bool) :
    printTypeDef o t.core n isRet = printTypeDef o t n isRet := by
  simp only [printTypeDef, printWithNewLineOption_core o h]

theorem args_core (args : List Field) (sep : Bytes) :
    ((args.map Field.core).map (fun a => sep ++ printField a)) = args.map (fun a => sep ++ printField a) := by
  simp only [List.map_map]; congr 1

theorem printFunction_vis (t : FuncDecl) (sep : Bytes) (n : Nat) :
    printFunction o { t with args := t.args.map Field.core, ret := t.ret.vis } sep n = printFunction o t sep n := by
  simp only [printFunction, args_core, printTypeDef_vis]

theorem printFunction_core (h : o.ignoreComments = true) (t : FuncDecl) (sep : Bytes) (n : Nat) :
    printFunction o { t with args := t.args.map Field.core, ret := t.ret.core } sep n = printFunction o t sep n := by
  simp only [printFunction, args_core, printTypeDef_core o h]

theorem printComb_vis (c : Comb) : printComb o c.vis = printComb o c := by
  cases c with
  | mk anns decl cb =>
    cases decl with
    | type d => simp only [printComb, Comb.vis, Decl.vis, printTypeDecl, printTypeDef_vis]; try rfl
    | func d =>
      have := printFunction_vis o d
      simp only [printComb, Comb.vis, Decl.vis, printFuncDecl, this]; try rfl

theorem printComb_core (h : o.ignoreComments = true) (c : Comb) : printComb o c.core = printComb o c := by
  cases c with
  | mk anns decl cb =>
    cases decl with
    | type d =>
      simp only [printComb, Comb.core, Decl.core, printTypeDecl, printTypeDef_core o h, h, Bool.not_true, Bool.false_and,
        Bool.false_eq_true, ↓reduceIte]; try rfl
    | func d =>
      have := printFunction_core o h d
      simp only [printComb, Comb.core, Decl.core, printFuncDecl, this, h, Bool.not_true,
        Bool.false_and, Bool.false_eq_true, ↓reduceIte]; try rfl

theorem printFile_vis (f : File) : printFile o (File.vis f) = printFile o f := by
  simp only [printFile, File.vis, List.map_map]
  congr 2
  funext c
  simp only [Function.comp, printComb_vis]

theorem printFile_core (h : o.ignoreComments = true) (f : File) : printFile o (File.core f) = printFile o f := by
  simp only [printFile, File.core, List.map_map]
  congr 2
  funext c
  simp only [Function.comp, printComb_core o h]

end
end TLVerif.Syntaxtl2
