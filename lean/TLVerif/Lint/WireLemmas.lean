import TLVerif.Lint.Wire
import TLVerif.Lint.CoreLemmas
/-! Lemmas for the semantic side of C28: `wireCompat old new` implies that every old value is encoded by the new
schema exactly as by the old one. -/
namespace TLVerif.Lint

mutual
  theorem TypeRef.eq_of_beq : ∀ (a b : TypeRef), TypeRef.beq a b = true → a = b
    | .mk n b a, .mk n' b' a' => by
      simp only [TypeRef.beq, Bool.and_eq_true, beq_iff_eq]
      rintro ⟨⟨h1, h2⟩, h3⟩
      rw [h1, h2, Args.eq_of_beq a a' h3]
  theorem Args.eq_of_beq : ∀ (a b : Args), Args.beq a b = true → a = b
    | .nil, .nil => fun _ => rfl
    | .arith n r, .arith n' r' => by
      simp only [Args.beq, Bool.and_eq_true, beq_iff_eq]
      rintro ⟨h1, h2⟩
      rw [h1, Args.eq_of_beq r r' h2]
    | .ty t r, .ty t' r' => by
      simp only [Args.beq, Bool.and_eq_true]
      rintro ⟨h1, h2⟩
      rw [TypeRef.eq_of_beq t t' h1, Args.eq_of_beq r r' h2]
    | .nil, .arith _ _ => by simp [Args.beq]
    | .nil, .ty _ _ => by simp [Args.beq]
    | .arith _ _, .nil => by simp [Args.beq]
    | .arith _ _, .ty _ _ => by simp [Args.beq]
    | .ty _ _, .nil => by simp [Args.beq]
    | .ty _ _, .arith _ _ => by simp [Args.beq]
end

theorem Field.eq_of_beq {a b : Field} (h : Field.beq a b = true) : a = b := by
  cases a with | mk an am ar at_ =>
  cases b with | mk bn bm br bt =>
  simp only [Field.beq, Bool.and_eq_true, beq_iff_eq] at h
  obtain ⟨⟨⟨h1, h2⟩, h3⟩, h4⟩ := h
  have h4' := TypeRef.eq_of_beq _ _ h4
  have h3' : ar = br := by
    cases ar with
    | none => cases br with
      | none => rfl
      | some _ => simp at h3
    | some p => cases br with
      | none => simp at h3
      | some q =>
        obtain ⟨s, t⟩ := p
        obtain ⟨s', t'⟩ := q
        simp only [Bool.and_eq_true, beq_iff_eq] at h3
        rw [h3.1, TypeRef.eq_of_beq _ _ h3.2]
  skip
  rw [h1, h2, h3', h4']

theorem fieldsPrefix_spec : ∀ {os ns ex : List Field}, fieldsPrefix os ns = some ex → ns = os ++ ex
  | [], ns, ex, h => by simp [fieldsPrefix] at h; simp [h]
  | _ :: _, [], _, h => by simp [fieldsPrefix] at h
  | o :: os, n :: ns, ex, h => by
    simp only [fieldsPrefix] at h
    split at h
    · rename_i hb
      rw [Field.eq_of_beq hb, fieldsPrefix_spec h]; rfl
    · simp at h

/-- `c'` is the new version of `c`: same name, tag, template arguments; the old fields followed by safe extras. -/
def Corr (c c' : Comb) (ex : List Field) : Prop :=
  c'.name = c.name ∧ c'.tag = c.tag ∧ c'.targs = c.targs ∧ c'.fields = c.fields ++ ex ∧ ∀ f ∈ ex, safeExtra c f = true

theorem corr_of_combCompat {c c' : Comb} (h : combCompat c c' = true) : ∃ ex, Corr c c' ex := by
  unfold combCompat at h
  simp only [Bool.and_eq_true, beq_iff_eq] at h
  obtain ⟨⟨⟨⟨h1, h2⟩, h3⟩, h4⟩, _⟩ := h
  cases hp : fieldsPrefix c.fields c'.fields with
  | none => simp [hp] at h4
  | some ex =>
    simp only [hp, List.all_eq_true] at h4
    exact ⟨ex, h3, h1, h2, fieldsPrefix_spec hp, h4⟩

theorem firstIdxAux_spec {α : Type} (p : α → Bool) : ∀ (l : List α) (i k : Nat), firstIdxAux p l i = some k →
    i ≤ k ∧ ∃ x, l[k - i]? = some x ∧ p x = true
  | [], _, _, h => by simp [firstIdxAux] at h
  | y :: ys, i, k, h => by
    simp only [firstIdxAux] at h
    split at h
    · rename_i hy
      simp only [Option.some.injEq] at h; subst h
      exact ⟨Nat.le_refl _, y, by simp, hy⟩
    · obtain ⟨h1, x, h2, h3⟩ := firstIdxAux_spec p ys (i + 1) k h
      refine ⟨by omega, x, ?_, h3⟩
      have : k - i = (k - (i + 1)) + 1 := by omega
      rw [this]; simpa using h2

theorem firstIdx_spec {α : Type} {p : α → Bool} {l : List α} {k : Nat} (h : firstIdx p l = some k) :
    ∃ x, l[k]? = some x ∧ p x = true := by
  obtain ⟨_, x, h2, h3⟩ := firstIdxAux_spec p l 0 k h
  exact ⟨x, by simpa using h2, h3⟩

theorem lastIdxAux_ge {α : Type} (p : α → Bool) : ∀ (l : List α) (i k : Nat), lastIdxAux p l i = some k → i ≤ k
  | [], _, _, h => by simp [lastIdxAux] at h
  | y :: ys, i, k, h => by
    simp only [lastIdxAux] at h
    cases hr : lastIdxAux p ys (i + 1) with
    | some k' =>
      rw [hr] at h; simp only [Option.some.injEq] at h; subst h
      have := lastIdxAux_ge p ys (i + 1) k' hr; omega
    | none =>
      rw [hr] at h
      by_cases hp : p y = true
      · simp [hp] at h; omega
      · simp [hp] at h

theorem lastIdxAux_none {α : Type} (p : α → Bool) : ∀ (l : List α) (i : Nat), lastIdxAux p l i = none → ∀ z ∈ l, p z = false
  | [], _, _, z, hz => by cases hz
  | a :: as, i, hn, z, hz => by
    simp only [lastIdxAux] at hn
    cases hr2 : lastIdxAux p as (i + 1) with
    | some _ => rw [hr2] at hn; simp at hn
    | none =>
      rw [hr2] at hn
      rcases List.mem_cons.mp hz with rfl | hz'
      · by_cases hp : p z = true
        · simp [hp] at hn
        · simpa using hp
      · exact lastIdxAux_none p as (i + 1) hr2 z hz'

theorem lastIdxAux_later {α : Type} (p : α → Bool) : ∀ (l : List α) (i k : Nat), lastIdxAux p l i = some k →
    ∀ j x, k < j → l[j - i]? = some x → i ≤ j → p x = false
  | [], _, _, h => by simp [lastIdxAux] at h
  | y :: ys, i, k, h => by
    intro j x hkj hx hij
    simp only [lastIdxAux] at h
    cases hr : lastIdxAux p ys (i + 1) with
    | some k' =>
      rw [hr] at h; simp only [Option.some.injEq] at h; subst h
      have hik := lastIdxAux_ge p ys (i + 1) k' hr
      have hj : j - i = (j - (i + 1)) + 1 := by omega
      rw [hj] at hx
      exact lastIdxAux_later p ys (i + 1) k' hr j x hkj (by simpa using hx) (by omega)
    | none =>
      rw [hr] at h
      by_cases hp : p y = true
      · simp only [hp, if_true, Option.some.injEq] at h; subst h
        have hj : j - i = (j - (i + 1)) + 1 := by omega
        rw [hj] at hx
        have hx' : ys[j - (i + 1)]? = some x := by simpa using hx
        exact lastIdxAux_none p ys (i + 1) hr x (List.mem_of_getElem? hx')
      · simp [hp] at h

theorem lastIdx_later {α : Type} {p : α → Bool} {l : List α} {k : Nat} (h : lastIdx p l = some k)
    {j : Nat} {x : α} (hkj : k < j) (hx : l[j]? = some x) : p x = false :=
  lastIdxAux_later p l 0 k h j x hkj (by simpa using hx) (Nat.zero_le _)

theorem testBit_false_of_bitsWithin {v : Nat} {allowed : List Nat} {b : Nat} (h : bitsWithin v allowed = true)
    (hb : b < 32) (hn : b ∉ allowed) : v.testBit b = false := by
  unfold bitsWithin at h
  have := (List.all_eq_true.mp h) b (List.mem_range.mpr hb)
  simp only [Bool.or_eq_true, Bool.not_eq_true', List.contains_eq_mem, decide_eq_true_eq] at this
  rcases this with h1 | h1
  · exact h1
  · exact absurd h1 hn

theorem drop_cons_inv {α : Type} {l : List α} {i : Nat} {x : α} {xs : List α} (h : l.drop i = x :: xs) :
    l[i]? = some x ∧ l.drop (i + 1) = xs := by
  induction l generalizing i with
  | nil => simp at h
  | cons y ys ih =>
    cases i with
    | zero => simp at h; simp [h]
    | succ j => simp at h; simpa using ih h

/-- every extra field is switched off by the environment. -/
def Off (ex : List Field) (e : Env) : Prop :=
  ∀ f ∈ ex, ∀ m, f.mask = some m → ∃ n, e.nats.lookup m.name = some n ∧ n.testBit m.bit = false

/-- extras whose mask field (index `k` of the old combinator) has been passed are switched off. -/
def Inv (c : Comb) (ex : List Field) (e : Env) (i : Nat) : Prop :=
  ∀ f ∈ ex, ∀ m, f.mask = some m → ∀ k, firstIdx (fun g : Field => g.name == m.name) c.fields = some k → k < i →
    ∃ n, e.nats.lookup m.name = some n ∧ n.testBit m.bit = false

theorem lookup_after_other {e : Env} {f : Field} {v : Option Nat} {name : String} (h : f.name ≠ name ∨ isNatField f = false) :
    (e.after f v).nats.lookup name = e.nats.lookup name := by
  unfold Env.after
  by_cases hn : isNatField f = true
  · simp only [hn, if_true]
    by_cases he : f.name = ""
    · simp [he]
    · have hne : f.name ≠ name := by
        rcases h with h | h
        · exact h
        · simp [hn] at h
      simp only [he, beq_iff_eq, if_false, List.lookup_cons]
      have : (name == f.name) = false := by simpa using fun e => hne e.symm
      simp [this]
  · simp [hn]

theorem lookup_after_self {e : Env} {f : Field} {v : Option Nat} (h1 : isNatField f = true) (h2 : f.name ≠ "") :
    (e.after f v).nats.lookup f.name = some (v.getD 0) := by
  unfold Env.after
  simp [h1, h2, List.lookup_cons]

theorem safeExtra_spec {c : Comb} {f : Field} (h : safeExtra c f = true) :
    ∃ m k, f.mask = some m ∧ firstIdx (fun g : Field => g.name == m.name) c.fields = some k ∧ maskOnly c k = true ∧
      m.bit ∉ maskBits c m.name ∧ m.bit < 32 ∧ lastIdx (fun g : Field => g.name == m.name) c.fields = some k := by
  unfold safeExtra at h
  cases hm : f.mask with
  | none => simp [hm] at h
  | some m =>
    simp only [hm, Bool.and_eq_true] at h
    cases hk : firstIdx (fun g : Field => g.name == m.name) c.fields with
    | none => simp [hk] at h
    | some k =>
      simp only [hk, Bool.and_eq_true, Bool.not_eq_true', decide_eq_true_eq, beq_iff_eq] at h
      obtain ⟨_, ⟨⟨⟨h1, h2⟩, h3⟩, h4⟩⟩ := h
      refine ⟨m, k, rfl, hk, h1, ?_, h3, h4⟩
      simpa using h2

theorem maskOnly_spec {c : Comb} {k : Nat} {f : Field} (hk : c.fields[k]? = some f) (h : maskOnly c k = true) :
    isNatField f = true ∧ f.name ≠ "" := by
  unfold maskOnly at h
  simp only [hk, Bool.and_eq_true, bne_iff_ne, ne_eq] at h
  exact ⟨h.1.1.1.1, h.1.1.1.2⟩

/-- one field processed (present with value `val`, or absent with `val = none`): the invariant moves on. -/
theorem Inv_step {c : Comb} {ex : List Field} (hex : ∀ f ∈ ex, safeExtra c f = true) {e : Env} {i : Nat} {f : Field}
    (hf : c.fields[i]? = some f) (hinv : Inv c ex e i) (val : Option Nat)
    (hside : isNatField f = true → maskOnly c i = true → bitsWithin (val.getD 0) (maskBits c f.name) = true) :
    Inv c ex (e.after f val) (i + 1) := by
  intro g hg m hm k hk hlt
  obtain ⟨m', k', hm', hk', hmo, hbit, hb32, hlast⟩ := safeExtra_spec (hex g hg)
  rw [hm] at hm'; cases hm'
  rw [hk] at hk'; cases hk'
  by_cases hki : k = i
  · subst hki
    obtain ⟨x, hx, hpx⟩ := firstIdx_spec hk
    rw [hf] at hx; cases hx
    have hname : f.name = m.name := by simpa using hpx
    obtain ⟨hnat, hne⟩ := maskOnly_spec hf hmo
    refine ⟨val.getD 0, ?_, ?_⟩
    · rw [← hname]; exact lookup_after_self hnat hne
    · exact testBit_false_of_bitsWithin (hside hnat hmo) hb32 (by rw [hname]; exact hbit)
  · have hlt' : k < i := by omega
    obtain ⟨n, hn1, hn2⟩ := hinv g hg m hm k hk hlt'
    refine ⟨n, ?_, hn2⟩
    rw [lookup_after_other]
    · exact hn1
    · left
      intro heq
      have := lastIdx_later hlast hlt' hf
      simp [heq] at this

theorem Off_of_Inv {c : Comb} {ex : List Field} (hex : ∀ f ∈ ex, safeExtra c f = true) {e : Env} {i : Nat}
    (hi : c.fields.length ≤ i) (hinv : Inv c ex e i) : Off ex e := by
  intro g hg m hm
  obtain ⟨m', k, hm', hk, _⟩ := safeExtra_spec (hex g hg)
  rw [hm] at hm'; cases hm'
  obtain ⟨x, hx, _⟩ := firstIdx_spec hk
  have hklt : k < c.fields.length := by
    cases Nat.lt_or_ge k c.fields.length with
    | inl h => exact h
    | inr h =>
      have : c.fields[k]? = none := List.getElem?_eq_none h
      rw [this] at hx; cases hx
  exact hinv g hg m hm k hk (by omega)

theorem Off_after {ex : List Field} {e : Env} (g : Field) (h : Off ex e) : Off ex (e.after g none) := by
  intro f hf m hm
  obtain ⟨n, h1, h2⟩ := h f hf m hm
  by_cases hc : g.name = m.name ∧ isNatField g = true ∧ g.name ≠ ""
  · refine ⟨0, ?_, by simp⟩
    rw [← hc.1]
    simpa using lookup_after_self (e := e) (v := none) hc.2.1 hc.2.2
  · by_cases hnat : isNatField g = true
    · by_cases hname : g.name = m.name
      · have hempty : g.name = "" := by
          cases Classical.em (g.name = "") with
          | inl h => exact h
          | inr hne => exact absurd ⟨hname, hnat, hne⟩ hc
        refine ⟨n, ?_, h2⟩
        unfold Env.after
        simp [hnat, hempty, h1]
      · exact ⟨n, by rw [lookup_after_other (Or.inl hname)]; exact h1, h2⟩
    · exact ⟨n, by rw [lookup_after_other (Or.inr (by simpa using hnat))]; exact h1, h2⟩

theorem restAbsent_of_Off {ex : List Field} : ∀ (l : List Field) (e : Env), (∀ f ∈ l, f ∈ ex) → (∀ f ∈ l, f.mask.isSome = true) →
    Off ex e → restAbsent e l = true
  | [], _, _, _, _ => by simp [restAbsent]
  | g :: gs, e, hsub, hmask, hoff => by
    simp only [restAbsent, Bool.and_eq_true, beq_iff_eq]
    constructor
    · have hg := hmask g List.mem_cons_self
      cases hm : g.mask with
      | none => simp [hm] at hg
      | some m =>
        obtain ⟨n, h1, h2⟩ := hoff g (hsub g List.mem_cons_self) m hm
        simp [present, hm, h1, h2]
    · exact restAbsent_of_Off gs (e.after g none) (fun f hf => hsub f (List.mem_cons_of_mem _ hf))
        (fun f hf => hmask f (List.mem_cons_of_mem _ hf)) (Off_after g hoff)

theorem extras_masked {c : Comb} {ex : List Field} (hex : ∀ f ∈ ex, safeExtra c f = true) : ∀ f ∈ ex, f.mask.isSome = true := by
  intro f hf
  obtain ⟨m, _, hm, _⟩ := safeExtra_spec (hex f hf)
  simp [hm]

/-- the old remaining fields are all absent: so are they followed by the extras. -/
theorem restAbsent_append {c : Comb} {ex : List Field} (hex : ∀ f ∈ ex, safeExtra c f = true) :
    ∀ (fs : List Field) (e : Env) (i : Nat), c.fields.drop i = fs → Inv c ex e i → restAbsent e fs = true →
      restAbsent e (fs ++ ex) = true
  | [], e, i, hd, hinv, _ => by
    have hi : c.fields.length ≤ i := by
      have : (c.fields.drop i).length = c.fields.length - i := List.length_drop
      rw [hd] at this; simp at this; omega
    simpa using restAbsent_of_Off ex e (fun _ h => h) (extras_masked hex) (Off_of_Inv hex hi hinv)
  | f :: fs, e, i, hd, hinv, h => by
    simp only [restAbsent, Bool.and_eq_true, beq_iff_eq, List.cons_append] at h ⊢
    obtain ⟨hf, hrest⟩ := drop_cons_inv hd
    refine ⟨h.1, restAbsent_append hex fs (e.after f none) (i + 1) hrest ?_ h.2⟩
    exact Inv_step hex hf hinv none (by intro _ _; simp [bitsWithin])

/-- no `Type` binding of the environment mentions `%T` / the constructor `cn`. -/
def envClean (T cn : String) (e : Env) : Prop := ∀ p ∈ e.tys, bareUse T cn p.2 = false

theorem lookup_mem {α : Type} : ∀ {l : List (String × α)} {k : String} {v : α}, l.lookup k = some v → (∃ k', (k', v) ∈ l)
  | [], _, _, h => by simp [List.lookup] at h
  | (k0, v0) :: l, k, v, h => by
    simp only [List.lookup_cons] at h
    split at h
    · simp only [Option.some.injEq] at h; subst h; exact ⟨k0, List.mem_cons_self⟩
    · obtain ⟨k', hk⟩ := lookup_mem h
      exact ⟨k', List.mem_cons_of_mem _ hk⟩

mutual
  theorem bareUse_substRef (T cn : String) (e : Env) (he : envClean T cn e) : ∀ t : TypeRef,
      bareUse T cn t = false → bareUse T cn (substRef e t) = false
    | .mk n b args, h => by
      simp only [substRef]
      cases hl : e.tys.lookup n with
      | some t' =>
        obtain ⟨k', hk⟩ := lookup_mem hl
        exact he (k', t') hk
      | none =>
        simp only [bareUse, Bool.or_eq_false_iff] at h ⊢
        exact ⟨h.1, bareUseArgs_substArgs T cn e he args h.2⟩
  theorem bareUseArgs_substArgs (T cn : String) (e : Env) (he : envClean T cn e) : ∀ a : Args,
      bareUseArgs T cn a = false → bareUseArgs T cn (substArgs e a) = false
    | .nil, _ => by simp [substArgs, bareUseArgs]
    | .arith n r, h => by
      simp only [substArgs, bareUseArgs] at h ⊢
      exact bareUseArgs_substArgs T cn e he r h
    | .ty t r, h => by
      simp only [bareUseArgs, Bool.or_eq_false_iff] at h
      simp only [substArgs]
      cases e.nats.lookup t.name with
      | some v => simp only [bareUseArgs]; exact bareUseArgs_substArgs T cn e he r h.2
      | none =>
        simp only [bareUseArgs, Bool.or_eq_false_iff]
        exact ⟨bareUse_substRef T cn e he t h.1, bareUseArgs_substArgs T cn e he r h.2⟩
end

theorem envClean_bindTargs (T cn : String) : ∀ (targs : List TArg) (args : Args) (e e' : Env),
    bindTargs targs args e = some e' → bareUseArgs T cn args = false → envClean T cn e → envClean T cn e'
  | [], .nil, e, e', h, _, he => by simp [bindTargs] at h; subst h; exact he
  | a :: as, .arith v r, e, e', h, hc, he => by
    simp only [bindTargs] at h
    split at h
    · exact envClean_bindTargs T cn as r _ e' h (by simpa [bareUseArgs] using hc) (by intro p hp; exact he p hp)
    · simp at h
  | a :: as, .ty t r, e, e', h, hc, he => by
    simp only [bindTargs] at h
    simp only [bareUseArgs, Bool.or_eq_false_iff] at hc
    split at h
    · simp at h
    · refine envClean_bindTargs T cn as r _ e' h hc.2 ?_
      intro p hp
      rcases List.mem_cons.mp hp with rfl | hp'
      · exact hc.1
      · exact he p hp'
  | [], .arith _ _, _, _, h, _, _ => by simp [bindTargs] at h
  | [], .ty _ _, _, _, h, _, _ => by simp [bindTargs] at h
  | _ :: _, .nil, _, _, h, _, _ => by simp [bindTargs] at h

theorem envClean_after (T cn : String) (e : Env) (f : Field) (v : Option Nat) (h : envClean T cn e) :
    envClean T cn (e.after f v) := by
  unfold Env.after
  split <;> exact h

theorem envClean_empty (T cn : String) : envClean T cn Env.empty := by
  intro p hp; simp [Env.empty] at hp

structure WC (old new : Schema) : Prop where
  dnew : allDistinct new
  cons : ∀ c ∈ old.filter isTypeComb, ∃ c' ex, findLast (fun d => d.name == c.name) (typeCombs new c.tyName) = some c' ∧ Corr c c' ex
  noShadow : ∀ T ∈ typeOrder old, findCons new T = none
  single : ∀ T c, typeCombs old T = [c] → (typeCombs new T).length ≤ 1 ∨ usedBareSomewhere old c = false
  funcs : ∀ f ∈ funcCombs old, ∃ f' ex, findFunc new f.name = some f' ∧ Corr f f' ex

theorem wc_of_wireCompat {old new : Schema} (h : wireCompat old new = true) : WC old new := by
  unfold wireCompat at h
  simp only [Bool.and_eq_true, List.all_eq_true] at h
  obtain ⟨⟨⟨⟨_, hdn⟩, hc⟩, ht⟩, hf⟩ := h
  refine ⟨by simpa [allDistinctB, allDistinct] using hdn, ?_, ?_, ?_, ?_⟩
  · intro c hcm
    have := hc c hcm
    cases hl : findLast (fun d => d.name == c.name) (typeCombs new c.tyName) with
    | none => simp [hl] at this
    | some c' =>
      simp only [hl] at this
      obtain ⟨ex, hex⟩ := corr_of_combCompat this
      exact ⟨c', ex, rfl, hex⟩
  · intro T hT
    have := (ht T hT).1.1
    simpa using this
  · intro T c heq
    have hT : T ∈ typeOrder old := mem_typeOrder_of_mem_typeCombs (c := c) (by simp [heq])
    have := (ht T hT).2
    simp only [heq, Bool.or_eq_true, decide_eq_true_eq, Bool.not_eq_true'] at this
    exact this
  · intro f hfm
    have := hf f hfm
    cases hl : findFunc new f.name with
    | none => simp [hl] at this
    | some f' =>
      simp only [hl] at this
      obtain ⟨ex, hex⟩ := corr_of_combCompat this
      exact ⟨f', ex, rfl, hex⟩

theorem pickComb_sim {old new : Schema} (hw : WC old new) {n cn : String} {c : Comb} {p : Pick}
    (h : pickComb old n cn = some (c, p)) :
    ∃ c' ex p', pickComb new n cn = some (c', p') ∧ Corr c c' ex ∧ c ∈ old ∧
      ∀ b body r, (b = true → ∀ x, typeCombs old n = [x] → (typeCombs new n).length ≤ 1) →
        wrapBody p b c body = some r → wrapBody p' b c' body = some r := by
  unfold pickComb at h
  cases hfc : findCons old n with
  | some c0 =>
    simp only [hfc] at h
    by_cases hn : (c0.name == cn) = true
    · simp only [hn, if_true, Option.some.injEq, Prod.mk.injEq] at h
      obtain ⟨rfl, rfl⟩ := h
      have hmem := findLast_some hfc
      obtain ⟨c', ex, hl, hcorr⟩ := hw.cons c0 hmem.1
      have hc'mem := (findLast_some hl).1
      have hc'm := mem_typeCombs.mp hc'mem
      have hfn : findCons new n = some c' := by
        unfold findCons
        have hm : c' ∈ new.filter isTypeComb := List.mem_filter.mpr ⟨hc'm.1, hc'm.2.1⟩
        have := findLast_of_nodup (key := fun d : Comb => d.name) hw.dnew.cons hm
        have hnm : c'.name = n := by rw [hcorr.1]; simpa using hmem.2
        simpa [hnm] using this
      refine ⟨c', ex, .byCons, ?_, hcorr, (List.mem_filter.mp hmem.1).1, ?_⟩
      · unfold pickComb
        simp only [hfn, hcorr.1, hn, if_true]
      · intro b body r _ hr; simpa [wrapBody] using hr
    · simp [hn] at h
  | none =>
    simp only [hfc, Option.map_eq_some_iff, Prod.mk.injEq] at h
    obtain ⟨c0, hl, rfl, rfl⟩ := h
    have hmem := findLast_some hl
    have hm := mem_typeCombs.mp hmem.1
    have hT : n ∈ typeOrder old := mem_typeOrder_of_mem_typeCombs hmem.1
    obtain ⟨c', ex, hl', hcorr⟩ := hw.cons c0 (List.mem_filter.mpr ⟨hm.1, hm.2.1⟩)
    rw [hm.2.2] at hl'
    have hcn : c0.name = cn := by simpa using hmem.2
    refine ⟨c', ex, .byType (typeCombs new n).length, ?_, hcorr, hm.1, ?_⟩
    · unfold pickComb
      simp only [hw.noShadow n hT, ← hcn, hl', Option.map_some]
    · intro b body r hsingle hr
      unfold wrapBody at hr ⊢
      simp only at hr ⊢
      by_cases hb : b = true
      · simp only [hb, if_true] at hr ⊢
        by_cases h1 : ((typeCombs old n).length == 1) = true
        · have hlen : (typeCombs old n).length = 1 := by simpa using h1
          obtain ⟨x, hx⟩ := List.length_eq_one_iff.mp hlen
          have hle := hsingle hb x hx
          have hpos : 0 < (typeCombs new n).length := List.length_pos_of_mem (findLast_some hl').1
          have : ((typeCombs new n).length == 1) = true := by simp; omega
          simpa [h1, this] using hr
        · simp [h1] at hr
      · simp only [hb, Bool.false_eq_true, if_false] at hr ⊢
        rw [hcorr.2.1]; exact hr

theorem strictOk_false (c : Comb) (i : Nat) (f : Field) (k : Nat) : strictOk false c i f k = true := by
  simp [strictOk]

theorem side_of_strictOk {c : Comb} {i : Nat} {f : Field} {k : Nat} (h : strictOk true c i f k = true) :
    isNatField f = true → maskOnly c i = true → bitsWithin k (maskBits c f.name) = true := by
  intro h1 h2
  simpa [strictOk, h1, h2] using h

/-- `(T, cn)`: a type with the single old constructor `cn` that has several constructors in the new schema. -/
def Bad (old new : Schema) (T cn : String) : Prop :=
  ∃ c, typeCombs old T = [c] ∧ c.name = cn ∧ (typeCombs new T).length > 1

/-- the reference never uses, bare, a type that became a union (`%T` or its constructor name). -/
def Clean (old new : Schema) (t : TypeRef) : Prop := ∀ T cn, Bad old new T cn → bareUse T cn t = false

def EnvCleanAll (old new : Schema) (e : Env) : Prop := ∀ T cn, Bad old new T cn → envClean T cn e

theorem fields_clean {old new : Schema} (hw : WC old new) {d : Comb} (hd : d ∈ old) {T cn : String} (hb : Bad old new T cn) :
    bareUse T cn d.result = false ∧ ∀ f ∈ d.fields, bareUse T cn f.ty = false ∧
      (∀ sc el, f.rep = some (sc, el) → bareUse T cn el = false) := by
  obtain ⟨c, hone, hname, hlen⟩ := hb
  have hTy : c.tyName = T := (mem_typeCombs.mp (show c ∈ typeCombs old T by simp [hone])).2.2
  have hu : usedBareSomewhere old c = false := by
    rcases hw.single T c hone with h | h
    · omega
    · exact h
  unfold usedBareSomewhere at hu
  have h1 := (List.any_eq_false.mp hu) d hd
  rw [Bool.not_eq_true, Bool.or_eq_false_iff, hTy, hname] at h1
  refine ⟨h1.1, ?_⟩
  intro f hf
  have h2 := (List.any_eq_false.mp h1.2) f hf
  rw [Bool.not_eq_true, Bool.or_eq_false_iff] at h2
  refine ⟨h2.1, ?_⟩
  intro sc el hrep
  simpa [hrep] using h2.2

theorem mem_of_drop {α : Type} {l : List α} {i : Nat} {x : α} {xs : List α} (h : l.drop i = x :: xs) : x ∈ l :=
  List.mem_of_getElem? (drop_cons_inv h).1

mutual
  theorem encTy_sim {old new : Schema} (hw : WC old new) : ∀ (v : Val) (t : TypeRef) (bs : Bytes), Clean old new t →
      encTy old true t v = some bs → encTy new false t v = some bs
    | v, .mk n b args, bs, hcl, h => by
      unfold encTy at h ⊢
      cases hp : primEnc n v with
      | some r => simpa [hp] using h
      | none =>
        simp only [hp] at h ⊢
        match v, h with
        | .ctor cn fs, h =>
          simp only at h ⊢
          cases hpk : pickComb old n cn with
          | none => simp [hpk] at h
          | some cp =>
            obtain ⟨c, p⟩ := cp
            simp only [hpk] at h
            obtain ⟨c', ex, p', hpk', hcorr, hcold, hwrap⟩ := pickComb_sim hw hpk
            simp only [hpk', hcorr.2.2.1]
            cases hbt : bindTargs c.targs args Env.empty with
            | none => simp [hbt] at h
            | some e =>
              simp only [hbt] at h ⊢
              cases hfo : encFields old true c e 0 c.fields fs with
              | none => simp [hfo] at h
              | some body =>
                simp only [hfo, Option.bind_some] at h
                have hinv0 : Inv c ex e 0 := by intro _ _ _ _ _ _ hlt; omega
                have henv : EnvCleanAll old new e := by
                  intro T cn' hb
                  have := hcl T cn' hb
                  simp only [bareUse, Bool.or_eq_false_iff] at this
                  exact envClean_bindTargs T cn' c.targs args Env.empty e hbt this.2 (envClean_empty T cn')
                have := encFields_sim hw fs c c' ex hcorr hcold e 0 c.fields body (by simp) hinv0 henv hfo
                rw [hcorr.2.2.2.1, this, Option.bind_some]
                refine hwrap b body bs ?_ h
                intro hb x hx
                rcases Nat.lt_or_ge 1 (typeCombs new n).length with hgt | hle
                · exfalso
                  have := hcl n x.name ⟨x, hx, rfl, hgt⟩
                  simp [bareUse, hb] at this
                · exact hle
        | .nat _, h => simp at h
        | .prim _, h => simp at h
        | .arr _, h => simp at h
        | .absent, h => simp at h
  theorem encFields_sim {old new : Schema} (hw : WC old new) : ∀ (vs : VList) (c c' : Comb) (ex : List Field), Corr c c' ex →
      c ∈ old → ∀ (e : Env) (i : Nat) (fs : List Field) (bs : Bytes), c.fields.drop i = fs → Inv c ex e i →
      EnvCleanAll old new e →
      encFields old true c e i fs vs = some bs → encFields new false c' e i (fs ++ ex) vs = some bs
    | .nil, c, c', ex, hcorr, hcold, e, i, [], bs, hd, hinv, henv, h => by
      simp only [encFields, Option.some.injEq] at h
      subst h
      cases hx : ex with
      | nil => simp [encFields]
      | cons g gs =>
        have := restAbsent_append hcorr.2.2.2.2 [] e i hd hinv (by simp [restAbsent])
        rw [hx] at this
        simp only [List.nil_append] at this ⊢
        simp [encFields, this]
    | .nil, c, c', ex, hcorr, hcold, e, i, f :: fs, bs, hd, hinv, henv, h => by
      simp only [encFields] at h
      split at h
      · rename_i hr
        simp only [Option.some.injEq] at h; subst h
        have := restAbsent_append hcorr.2.2.2.2 (f :: fs) e i hd hinv hr
        simp only [List.cons_append] at this ⊢
        simp [encFields, this]
      · simp at h
    | .cons v rest, c, c', ex, hcorr, hcold, e, i, [], bs, hd, hinv, henv, h => by
      simp [encFields] at h
    | .cons v rest, c, c', ex, hcorr, hcold, e, i, f :: fs, bs, hd, hinv, henv, h => by
      obtain ⟨hf, hrest⟩ := drop_cons_inv hd
      have hfmem : f ∈ c.fields := mem_of_drop hd
      rw [encFields] at h
      rw [List.cons_append, encFields]
      cases hp : present e f with
      | none => simp [hp] at h
      | some pr =>
        cases pr with
        | false =>
          simp only [hp] at h ⊢
          exact encFields_sim hw rest c c' ex hcorr hcold _ (i + 1) fs bs hrest
            (Inv_step hcorr.2.2.2.2 hf hinv none (by intro _ _; simp [bitsWithin]))
            (fun T cn hb => envClean_after T cn e f none (henv T cn hb)) h
        | true =>
          simp only [hp] at h ⊢
          cases hrep : f.rep with
          | some scel =>
            obtain ⟨sc, el⟩ := scel
            simp only [hrep] at h ⊢
            cases hcnt : repCount e sc with
            | none => simp [hcnt] at h
            | some cnt =>
              match v, h with
              | .arr elems, h =>
                simp only [hcnt] at h ⊢
                cases hel : encElems old true (substRef e el) cnt elems with
                | none => simp [hel] at h
                | some b1 =>
                  simp only [hel, Option.map_eq_some_iff] at h
                  obtain ⟨r, hr, rfl⟩ := h
                  have hclel : Clean old new (substRef e el) := fun T cn hb =>
                    bareUse_substRef T cn e (henv T cn hb) el (((fields_clean hw hcold hb).2 f hfmem).2 sc el hrep)
                  have h1 := encElems_sim hw elems (substRef e el) cnt b1 hclel hel
                  have h2 := encFields_sim hw rest c c' ex hcorr hcold _ (i + 1) fs r hrest
                    (Inv_step hcorr.2.2.2.2 hf hinv none (by intro _ _; simp [bitsWithin]))
                    (fun T cn hb => envClean_after T cn e f none (henv T cn hb)) hr
                  simp [h1, h2]
              | .nat _, h => simp [hcnt] at h
              | .prim _, h => simp [hcnt] at h
              | .ctor _ _, h => simp [hcnt] at h
              | .absent, h => simp [hcnt] at h
          | none =>
            simp only [hrep] at h ⊢
            cases hty : encTy old true (substRef e f.ty) v with
            | none => simp [hty] at h
            | some b1 =>
              simp only [hty] at h
              have hclty : Clean old new (substRef e f.ty) := fun T cn hb =>
                bareUse_substRef T cn e (henv T cn hb) f.ty ((fields_clean hw hcold hb).2 f hfmem).1
              have h1 := encTy_sim hw v (substRef e f.ty) b1 hclty hty
              simp only [h1, strictOk_false, if_true]
              by_cases hs : strictOk true c i f ((natOf v).getD 0) = true
              · simp only [hs, if_true, Option.map_eq_some_iff] at h
                obtain ⟨r, hr, rfl⟩ := h
                have h2 := encFields_sim hw rest c c' ex hcorr hcold _ (i + 1) fs r hrest
                  (Inv_step hcorr.2.2.2.2 hf hinv (natOf v) (side_of_strictOk hs))
                  (fun T cn hb => envClean_after T cn e f (natOf v) (henv T cn hb)) hr
                simp [h2]
              · simp [hs] at h
  theorem encElems_sim {old new : Schema} (hw : WC old new) : ∀ (vs : VList) (t : TypeRef) (cnt : Nat) (bs : Bytes),
      Clean old new t → encElems old true t cnt vs = some bs → encElems new false t cnt vs = some bs
    | .nil, t, 0, bs, _, h => by simpa [encElems] using h
    | .nil, t, _ + 1, bs, _, h => by simp [encElems] at h
    | .cons _ _, t, 0, bs, _, h => by simp [encElems] at h
    | .cons v rest, t, k + 1, bs, hcl, h => by
      simp only [encElems] at h ⊢
      cases hty : encTy old true t v with
      | none => simp [hty] at h
      | some b1 =>
        simp only [hty, Option.map_eq_some_iff] at h
        obtain ⟨r, hr, rfl⟩ := h
        simp [encTy_sim hw v t b1 hcl hty, encElems_sim hw rest t k r hcl hr]
end

end TLVerif.Lint
