import TLVerif.Lint.Wire
import TLVerif.Lint.CoreLemmas
namespace TLVerif.Lint
end TLVerif.Lint
