import TLVerif.Lint.Core
/-! Specification-side definitions that are independent of the linter's own analyses (used to state the
C29/C30 theorems and by `wireCompat`). Core Lean only. -/
namespace TLVerif.Lint

mutual
  /-- independent of the linter: is the type `ty` (single constructor `cn`) referenced bare (`%ty`) or through
  its constructor name at ANY node of the reference tree? -/
  def bareUse (ty cn : String) : TypeRef → Bool
    | .mk n b args => (n == ty && b) || n == cn || bareUseArgs ty cn args
  def bareUseArgs (ty cn : String) : Args → Bool
    | .nil => false
    | .arith _ r => bareUseArgs ty cn r
    | .ty t r => bareUse ty cn t || bareUseArgs ty cn r
end

/-- every reference of the schema: results, field types, and the element types of `[ ]` repeats. -/
def usedBareSomewhere (s : Schema) (c : Comb) : Bool :=
  s.any (fun d => bareUse c.tyName c.name d.result ||
    d.fields.any (fun f => bareUse c.tyName c.name f.ty ||
      (match f.rep with | some (_, el) => bareUse c.tyName c.name el | none => false)))

/-- what sits at a position of a reference tree. -/
inductive Node where
  | ty (name : String) (bare : Bool)
  | arith (n : Nat)
  deriving DecidableEq, Repr

mutual
  /-- the node reached by a path of argument indices (`[]` = the head). -/
  def nodeAt : TypeRef → List Nat → Option Node
    | .mk n b _, [] => some (.ty n b)
    | .mk _ _ args, i :: p => nodeAtArgs args i p
  def nodeAtArgs : Args → Nat → List Nat → Option Node
    | .nil, _, _ => none
    | .arith n _, 0, [] => some (.arith n)
    | .arith _ _, 0, _ :: _ => none
    | .arith _ r, i + 1, p => nodeAtArgs r i p
    | .ty t _, 0, p => nodeAt t p
    | .ty _ r, i + 1, p => nodeAtArgs r i p
end

mutual
  /-- does the path follow, at every level, the first non-arithmetic argument? -/
  def onFirstSpine : TypeRef → List Nat → Bool
    | _, [] => true
    | .mk _ _ args, i :: p => onFirstSpineArgs args i p
  def onFirstSpineArgs : Args → Nat → List Nat → Bool
    | .nil, _, _ => false
    | .arith _ r, i + 1, p => onFirstSpineArgs r i p
    | .arith _ _, 0, _ => false
    | .ty t _, 0, p => onFirstSpine t p
    | .ty _ _, _ + 1, _ => false
end

mutual
  def eraseBare : TypeRef → TypeRef
    | .mk n _ a => .mk n false (eraseBareArgs a)
  def eraseBareArgs : Args → Args
    | .nil => .nil
    | .arith n r => .arith n (eraseBareArgs r)
    | .ty t r => .ty (eraseBare t) (eraseBareArgs r)
end

mutual
  /-- every head name occurring in a reference tree. -/
  def refNames : TypeRef → List String
    | .mk n _ a => n :: refNamesArgs a
  def refNamesArgs : Args → List String
    | .nil => []
    | .arith _ r => refNamesArgs r
    | .ty t r => refNames t ++ refNamesArgs r
end

mutual
  /-- is `name` the head of some ARGUMENT node of the tree (i.e. is it passed to a type)? -/
  def passedAsArg (name : String) : TypeRef → Bool
    | .mk _ _ a => passedAsArgArgs name a
  def passedAsArgArgs (name : String) : Args → Bool
    | .nil => false
    | .arith _ r => passedAsArgArgs name r
    | .ty t r => t.name == name || passedAsArg name t || passedAsArgArgs name r
end

/-- names a combinator refers to: heads of its field types and result, and its mask names. -/
def usedNames (c : Comb) : List String :=
  c.fields.flatMap (fun g => refNames g.ty ++ (match g.mask with | some m => [m.name] | none => [])) ++ refNames c.result

end TLVerif.Lint
