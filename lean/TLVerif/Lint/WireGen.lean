import TLVerif.Lint.Wire
/-! Pseudo-random "old" values for the wire search of C28 (driver-side; no theorem depends on it) and the
reason codes printed for a pair that is not `wireCompat`. Core Lean only. -/
namespace TLVerif.Lint

structure Rng where
  s : Nat

def Rng.next (r : Rng) : Nat × Rng :=
  let s := (r.s * 6364136223846793005 + 1442695040888963407) % 18446744073709551616
  (s >>> 33, ⟨s⟩)

def Rng.below (r : Rng) (n : Nat) : Nat × Rng :=
  let (v, r') := r.next
  (if n == 0 then 0 else v % n, r')

def Rng.bytes : Nat → Rng → List UInt8 × Rng
  | 0, r => ([], r)
  | n + 1, r =>
    let (v, r1) := r.next
    let (bs, r2) := Rng.bytes n r1
    (UInt8.ofNat v :: bs, r2)

/-- random subset of the given bits. -/
def Rng.subset : List Nat → Rng → Nat × Rng
  | [], r => (0, r)
  | b :: bs, r =>
    let (v, r1) := r.below 2
    let (rest, r2) := Rng.subset bs r1
    ((if v == 1 && b < 32 then (1 <<< b) ||| rest else rest), r2)

def genElemsWith (gen : TypeRef → Rng → Option (Val × Rng)) (t : TypeRef) : Nat → Rng → Option (VList × Rng)
  | 0, r => some (.nil, r)
  | k + 1, r =>
    match gen t r with
    | none => none
    | some (v, r1) => match genElemsWith gen t k r1 with
      | none => none
      | some (vs, r2) => some (.cons v vs, r2)

def genFieldsWith (gen : TypeRef → Rng → Option (Val × Rng)) (c : Comb) : Env → Nat → List Field → Rng → Option (VList × Rng)
  | _, _, [], r => some (.nil, r)
  | e, i, f :: fs, r =>
    match present e f with
    | none => none
    | some false =>
      (genFieldsWith gen c (e.after f none) (i + 1) fs r).map (fun p => (.cons .absent p.1, p.2))
    | some true =>
      match f.rep with
      | some (sc, el) =>
        (match repCount e sc with
         | none => none
         | some cnt =>
           if cnt > 5 then none else
           match genElemsWith gen (substRef e el) cnt r with
           | none => none
           | some (vs, r1) => (genFieldsWith gen c (e.after f none) (i + 1) fs r1).map (fun p => (.cons (.arr vs) p.1, p.2)))
      | none =>
        if isNatField f then
          let (k, r1) :=
            if maskOnly c i then Rng.subset (maskBits c f.name) r
            else
              let (w, r0) := r.below 4
              if w == 0 && !usedAsScale c i f.name && f.name != "" then
                let (x, r') := r0.below 1048576
                (x, r')
              else if w == 1 && !usedAsScale c i f.name && f.name != "" then
                -- a field that is passed to a type: the bits its own combinator uses, all set or a random subset
                let (y, r') := r0.below 2
                if y == 0 then ((maskBits c f.name).foldl (fun a b => if b < 32 then a ||| (1 <<< b) else a) 0, r')
                else Rng.subset (maskBits c f.name) r'
              else r0.below 4
          (genFieldsWith gen c (e.after f (some k)) (i + 1) fs r1).map (fun p => (.cons (.nat k) p.1, p.2))
        else
          match gen (substRef e f.ty) r with
          | none => none
          | some (v, r1) => (genFieldsWith gen c (e.after f none) (i + 1) fs r1).map (fun p => (.cons v p.1, p.2))

def genTy : Nat → Schema → TypeRef → Rng → Option (Val × Rng)
  | 0, _, _, _ => none
  | fuel + 1, s, .mk n b args, r =>
    if n == "#" then let (k, r1) := r.below 8; some (.nat k, r1)
    else if n == "int" then let (bs, r1) := Rng.bytes 4 r; some (.prim bs, r1)
    else if n == "long" then let (bs, r1) := Rng.bytes 8 r; some (.prim bs, r1)
    else if n == "string" then
      let (l, r0) := r.below 7
      let (bs, r1) := Rng.bytes l r0
      some (.prim bs, r1)
    else if n == "Dictionary" || n == "dictionary" || n == "Bool" then none  -- kernel heuristics (dictionaries: sorted unique keys; Bool: primitive) are not modelled
    else
      let pick : Option (Comb × Rng) :=
        match findCons s n with
        | some c => some (c, r)
        | none =>
          let cs := typeCombs s n
          if b && cs.length != 1 then none else
          let (k, r1) := r.below cs.length
          (cs[k]?).map (fun c => (c, r1))
      match pick with
      | none => none
      | some (c, r1) =>
        match bindTargs c.targs args Env.empty with
        | none => none
        | some e => (genFieldsWith (genTy fuel s) c e 0 c.fields r1).map (fun p => (.ctor c.name p.1, p.2))

/-! ### reason codes for `¬ wireCompat` -/

def fieldEqModBare (a b : Field) : Bool :=
  a.name == b.name && a.mask == b.mask &&
  (match a.rep, b.rep with
   | none, none => true
   | some (s, t), some (s', t') => s == s' && TypeRef.beq (eraseBare t) (eraseBare t')
   | _, _ => false) && TypeRef.beq (eraseBare a.ty) (eraseBare b.ty)

def fieldEqModRep (a b : Field) : Bool :=
  a.name == b.name && a.mask == b.mask && a.rep.isSome == b.rep.isSome && TypeRef.beq a.ty b.ty

def extraReason (c : Comb) (f : Field) : String :=
  match f.mask with
  | none => "extra-unmasked"
  | some m =>
    if (firstIdx (fun a : TArg => a.name == m.name) c.targs).isSome then "extra-targmask" else
    match firstIdx (fun g : Field => g.name == m.name) c.fields with
    | none => "extra-newmask"
    | some k =>
      if (maskBits c m.name).contains m.bit then "extra-bitused"
      else if usedAsScale c k m.name then "extra-size"
      else if !maskOnly c k then "extra-passed"
      else "extra-other"

def combReasons (c c' : Comb) : List String :=
  (if c'.tag != c.tag then ["tag"] else []) ++
  (if c'.targs != c.targs then ["targs"] else []) ++
  (if !TypeRef.beq c.result c'.result then
     [if TypeRef.beq (eraseBare c.result) (eraseBare c'.result) then "result-bare" else "result"] else []) ++
  (match fieldsPrefix c.fields c'.fields with
   | some ex => (ex.filter (fun f => !safeExtra c f)).map (extraReason c)
   | none =>
     if c'.fields.length < c.fields.length then ["fields-fewer"]
     else
       let pairs := c.fields.zip c'.fields
       if pairs.all (fun p => fieldEqModBare p.1 p.2) then ["fields-bare"]
       else if pairs.all (fun p => fieldEqModRep p.1 p.2) then ["fields-repeat"]
       else ["fields"])

def compatReasons (old new : Schema) : List String :=
  (if !(allDistinctB old && allDistinctB new) then ["names"] else []) ++
  (old.filter isTypeComb).flatMap (fun c => match findLast (fun d => d.name == c.name) (typeCombs new c.tyName) with
    | some c' => if combCompat c c' then [] else combReasons c c'
    | none => ["missing"]) ++
  (typeOrder old).flatMap (fun T =>
    (if (findCons new T).isNone && (findCons old T).isNone then [] else ["shadow"]) ++
    (match typeCombs old T with
     | [c] => if (typeCombs new T).length ≤ 1 || !usedBareSomewhere old c then [] else ["union-bare"]
     | _ => [])) ++
  (funcCombs old).flatMap (fun f => match findFunc new f.name with
    | some f' => if combCompat f f' then [] else (combReasons f f').map (fun r => "fn-" ++ r)
    | none => ["fn-missing"])

end TLVerif.Lint
