import TLVerif.Lint.Spec
/-! Helper lemmas about `lintCore` (verdict algebra, lookups, reflexivity of the comparisons). -/
namespace TLVerif.Lint

theorem R.andThen_eq_ok {a b : R} : a.andThen b = .ok ↔ a = .ok ∧ b = .ok := by
  cases a <;> cases b <;> simp [R.andThen]

theorem R.andThen_ne_ok_left {a b : R} (h : a ≠ .ok) : a.andThen b ≠ .ok := by
  intro h'; exact h (R.andThen_eq_ok.mp h').1

theorem R.andThen_ne_ok_right {a b : R} (h : b ≠ .ok) : a.andThen b ≠ .ok := by
  intro h'; exact h (R.andThen_eq_ok.mp h').2

theorem allR_eq_ok {α : Type} {f : α → R} {l : List α} : allR f l = .ok ↔ ∀ x ∈ l, f x = .ok := by
  induction l with
  | nil => simp [allR]
  | cons x xs ih => simp [allR, R.andThen_eq_ok, ih]

theorem allR_ne_ok {α : Type} {f : α → R} {l : List α} {x : α} (hx : x ∈ l) (h : f x ≠ .ok) : allR f l ≠ .ok := by
  intro h'; exact h (allR_eq_ok.mp h' x hx)

theorem rejIf_eq_ok {b : Bool} : rejIf b = .ok ↔ b = false := by
  cases b <;> simp [rejIf]

theorem rejIf_ne_panic {b : Bool} : rejIf b ≠ .panic := by
  cases b <;> simp [rejIf]

/-! ### findLast -/

theorem findLast_some {α : Type} {p : α → Bool} {l : List α} {y : α} (h : findLast p l = some y) : y ∈ l ∧ p y = true := by
  induction l with
  | nil => simp [findLast] at h
  | cons x xs ih =>
    simp only [findLast] at h
    cases hx : findLast p xs with
    | some z =>
      rw [hx] at h
      simp at h
      subst h
      exact ⟨List.mem_cons_of_mem _ (ih hx).1, (ih hx).2⟩
    | none =>
      rw [hx] at h
      by_cases hp : p x = true
      · simp [hp] at h; subst h; exact ⟨List.mem_cons_self, hp⟩
      · simp [hp] at h

theorem findLast_none {α : Type} {p : α → Bool} {l : List α} : findLast p l = none ↔ ∀ x ∈ l, p x = false := by
  induction l with
  | nil => simp [findLast]
  | cons x xs ih =>
    simp only [findLast]
    cases hx : findLast p xs with
    | some z =>
      simp only [reduceCtorEq, false_iff]
      intro hall
      have := hall z (List.mem_cons_of_mem _ (findLast_some hx).1)
      simp [(findLast_some hx).2] at this
    | none =>
      have := ih.mp hx
      by_cases hp : p x = true
      · simp [hp]
      · simp [hp]; simpa using this

theorem findLast_isSome_of_mem {α : Type} {p : α → Bool} {l : List α} {x : α} (hx : x ∈ l) (hp : p x = true) :
    (findLast p l).isSome = true := by
  cases h : findLast p l with
  | some y => rfl
  | none => have := findLast_none.mp h x hx; simp [hp] at this

/-- with pairwise different keys the lookup of the key of a member returns that member. -/
theorem findLast_of_nodup {α : Type} {key : α → String} {l : List α} (hn : (l.map key).Nodup) {c : α} (hc : c ∈ l) :
    findLast (fun d => key d == key c) l = some c := by
  induction l with
  | nil => cases hc
  | cons x xs ih =>
    simp only [List.map_cons, List.nodup_cons] at hn
    simp only [findLast]
    rcases List.mem_cons.mp hc with rfl | hc'
    · have : findLast (fun d => key d == key c) xs = none := by
        apply findLast_none.mpr
        intro y hy
        have : key y ≠ key c := fun e => hn.1 (e ▸ List.mem_map_of_mem hy)
        simpa using this
      rw [this]; simp
    · rw [ih hn.2 hc']

/-! ### reflexivity -/

mutual
  theorem cmpType_refl (m : String → Option Int) : ∀ t : TypeRef, cmpType m m t t = .ok
    | .mk n b a => by
      have hb : headBad (m n) (m n) n n = false := by
        unfold headBad; cases m n <;> simp
      simp only [cmpType, hb]
      simpa using cmpArgs_refl m a
  theorem cmpArgs_refl (m : String → Option Int) : ∀ a : Args, cmpArgs m m a a = .ok
    | .nil => by simp [cmpArgs]
    | .arith n r => by simp [cmpArgs, cmpArgs_refl m r]
    | .ty t r => by simp [cmpArgs, cmpType_refl m t, cmpArgs_refl m r, R.andThen]
end

theorem maskCheck_refl (m : String → Option Int) (f : Field) : maskCheck m m f f = .ok := by
  unfold maskCheck
  cases f.mask <;> simp

theorem fieldsCheck_refl (m : String → Option Int) : ∀ fs : List Field, fieldsCheck m m fs fs = .ok
  | [] => by simp [fieldsCheck]
  | f :: fs => by
    simp [fieldsCheck, fieldCheck, cmpType_refl, maskCheck_refl, fieldsCheck_refl m fs, R.andThen]

theorem checkComb_refl (x : Ctx) (c : Comb) : checkComb x c c = .ok := by
  unfold checkComb
  simp only [Nat.lt_irrefl, ↓reduceIte]
  simp [fieldsCheck_refl, funcBlock, appendedCheck, allR, cmpType_refl, R.andThen]


/-- constructor names of type combinators are pairwise different. -/
def consDistinct (s : Schema) : Prop := ((s.filter isTypeComb).map (·.name)).Nodup

instance (s : Schema) : Decidable (consDistinct s) := by unfold consDistinct; infer_instance

theorem typeCombs_nodup {s : Schema} (h : consDistinct s) (T : String) : ((typeCombs s T).map (·.name)).Nodup :=
  List.Nodup.sublist (List.Sublist.map _ List.filter_sublist) h

theorem typeCheck_refl (x : Ctx) (h : x.ns = x.os) (hd : consDistinct x.os) (T : String) : typeCheck x T = .ok := by
  unfold typeCheck
  rw [h]
  simp only [R.andThen_eq_ok]
  refine ⟨?_, ?_, ?_⟩
  · apply allR_eq_ok.mpr
    intro c hc
    have := findLast_of_nodup (key := fun d : Comb => d.name) (typeCombs_nodup hd T) hc
    rw [this]
    exact checkComb_refl x c
  · simp [rejIf]
  · split
    · rename_i c heq
      simp [heq]
    · rfl

theorem funcCheck_refl (x : Ctx) (h : x.ns = x.os) (n : String) : funcCheck x n = .ok := by
  unfold funcCheck
  rw [h]
  cases findFunc x.os n with
  | none => rfl
  | some o => exact checkComb_refl x o

theorem newFuncCheck_refl (x : Ctx) (h : x.ns = x.os) {n : String} (hn : n ∈ funcOrder x.ns) : newFuncCheck x n = .ok := by
  unfold newFuncCheck
  rw [h] at hn
  obtain ⟨c, hc, rfl⟩ := List.mem_map.mp hn
  have : (findFunc x.os c.name).isSome = true :=
    findLast_isSome_of_mem (p := fun d : Comb => d.name == c.name) hc (by simp)
  simp [this]

theorem lintCore_refl (s : Schema) (hd : consDistinct s) (hp : (layout s).panicked = false) : lintCore s s = .ok := by
  unfold lintCore
  simp only [mkCtx, hp, Bool.or_self, Bool.false_eq_true, if_false, R.andThen_eq_ok]
  refine ⟨?_, ?_, ?_⟩
  · exact allR_eq_ok.mpr (fun T _ => typeCheck_refl _ rfl hd T)
  · exact allR_eq_ok.mpr (fun n _ => funcCheck_refl _ rfl n)
  · exact allR_eq_ok.mpr (fun n hn => newFuncCheck_refl _ rfl hn)

/-! ### membership, sublists, insertion -/

theorem mem_dedup {l : List String} {x : String} : x ∈ dedup l ↔ x ∈ l := by
  induction l with
  | nil => simp [dedup]
  | cons y ys ih =>
    simp only [dedup, List.mem_cons, List.mem_filter, ih]
    by_cases h : x = y
    · simp [h]
    · simp [h]

theorem mem_typeCombs {s : Schema} {T : String} {c : Comb} :
    c ∈ typeCombs s T ↔ c ∈ s ∧ isTypeComb c = true ∧ c.tyName = T := by
  simp only [typeCombs, List.mem_filter, beq_iff_eq]
  constructor
  · rintro ⟨⟨a, b⟩, c⟩; exact ⟨a, b, c⟩
  · rintro ⟨a, b, c⟩; exact ⟨⟨a, b⟩, c⟩

theorem mem_typeOrder {s : Schema} {T : String} : T ∈ typeOrder s ↔ ∃ c ∈ s, isTypeComb c = true ∧ c.tyName = T := by
  simp [typeOrder, mem_dedup, List.mem_map, List.mem_filter, and_assoc]

theorem mem_typeOrder_of_mem_typeCombs {s : Schema} {T : String} {c : Comb} (h : c ∈ typeCombs s T) : T ∈ typeOrder s := by
  obtain ⟨h1, h2, h3⟩ := mem_typeCombs.mp h
  exact mem_typeOrder.mpr ⟨c, h1, h2, h3⟩

theorem typeCombs_sublist {old new : Schema} (h : old.Sublist new) (T : String) :
    (typeCombs old T).Sublist (typeCombs new T) :=
  List.Sublist.filter _ (List.Sublist.filter _ h)

theorem funcCombs_sublist {old new : Schema} (h : old.Sublist new) : (funcCombs old).Sublist (funcCombs new) :=
  List.Sublist.filter _ h

/-- function names are pairwise different. -/
def funcDistinct (s : Schema) : Prop := ((funcCombs s).map (·.name)).Nodup

instance (s : Schema) : Decidable (funcDistinct s) := by unfold funcDistinct; infer_instance

theorem findFunc_of_mem {s : Schema} (hd : funcDistinct s) {o : Comb} (ho : o ∈ funcCombs s) : findFunc s o.name = some o :=
  findLast_of_nodup (key := fun d : Comb => d.name) hd ho

/-- a function may be added if it has no arguments or its first argument has type `#`. -/
def firstArgOk (f : Comb) : Bool :=
  match f.fields with
  | [] => true
  | f0 :: _ => f0.ty.name == "#"

/-- General acceptance theorem for pure insertions: the new schema contains every old combinator unchanged
(old is a sublist of new: combinators were only inserted, anywhere). -/
theorem lintCore_accepts_insertions {old new : Schema}
    (hsub : old.Sublist new) (hcd : consDistinct new) (hfd : funcDistinct new)
    (hp : (layout old).panicked = false ∧ (layout new).panicked = false)
    (hbox : ∀ T c, typeCombs old T = [c] → (typeCombs new T).length > 1 → boxCheckAll old c = .ok)
    (hnew : ∀ f ∈ funcCombs new, (findFunc old f.name).isSome = false → firstArgOk f = true) :
    lintCore old new = .ok := by
  unfold lintCore
  simp only [mkCtx, hp.1, hp.2, Bool.or_self, Bool.false_eq_true, if_false, R.andThen_eq_ok]
  refine ⟨?_, ?_, ?_⟩
  · apply allR_eq_ok.mpr
    intro T _
    unfold typeCheck
    simp only [R.andThen_eq_ok]
    have hs := typeCombs_sublist hsub T
    refine ⟨?_, ?_, ?_⟩
    · apply allR_eq_ok.mpr
      intro c hc
      have hc' : c ∈ typeCombs new T := hs.subset hc
      rw [findLast_of_nodup (key := fun d : Comb => d.name) (typeCombs_nodup hcd T) hc']
      exact checkComb_refl _ c
    · apply rejIf_eq_ok.mpr
      have := hs.length_le
      simp only [Bool.and_eq_false_imp, decide_eq_true_eq]
      intro h; omega
    · split
      · rename_i c heq
        split
        · rename_i hlen
          exact hbox T c heq hlen
        · rfl
      · rfl
  · apply allR_eq_ok.mpr
    intro n hn
    obtain ⟨o, ho, rfl⟩ := List.mem_map.mp hn
    unfold funcCheck
    have hfo : funcDistinct old := List.Nodup.sublist (List.Sublist.map _ (funcCombs_sublist hsub)) hfd
    simp only [findFunc_of_mem hfo ho, findFunc_of_mem hfd ((funcCombs_sublist hsub).subset ho)]
    exact checkComb_refl _ o
  · apply allR_eq_ok.mpr
    intro n hn
    obtain ⟨f, hf, rfl⟩ := List.mem_map.mp hn
    unfold newFuncCheck
    cases ho : (findFunc old f.name).isSome with
    | true => simp
    | false =>
      simp only [Bool.false_eq_true, if_false, findFunc_of_mem hfd hf]
      have := hnew f hf ho
      unfold firstArgOk at this
      split
      · rfl
      · rename_i f0 _ heq
        rw [heq] at this
        simp only at this
        simp only [beq_iff_eq] at this
        simp [rejIf, this]

/-! ### box usage, single insertion -/

mutual
  theorem boxUsage_imp_bareUse (ty cn : String) : ∀ t, boxUsage ty cn t = true → bareUse ty cn t = true
    | .mk n b args => by
      simp only [boxUsage, bareUse, Bool.or_eq_true]
      rintro (h | h)
      · exact Or.inl h
      · exact Or.inr (boxUsageArgs_imp ty cn args h)
  theorem boxUsageArgs_imp (ty cn : String) : ∀ a, boxUsageArgs ty cn a = true → bareUseArgs ty cn a = true
    | .nil => by simp [boxUsageArgs]
    | .arith _ r => by simpa [boxUsageArgs, bareUseArgs] using boxUsageArgs_imp ty cn r
    | .ty t _ => by
      simp only [boxUsageArgs, bareUseArgs, Bool.or_eq_true]
      intro h; exact Or.inl (boxUsage_imp_bareUse ty cn t h)
end

theorem boxCheckAll_ok_of_onlyBoxed {s : Schema} {c : Comb} (h : usedBareSomewhere s c = false) : boxCheckAll s c = .ok := by
  unfold boxCheckAll
  apply allR_eq_ok.mpr
  intro d hd
  unfold usedBareSomewhere at h
  have hd' := (List.any_eq_false.mp h) d hd
  rw [Bool.not_eq_true, Bool.or_eq_false_iff] at hd'
  simp only [R.andThen_eq_ok]
  constructor
  · apply rejIf_eq_ok.mpr
    cases hb : boxUsage c.tyName c.name d.result with
    | false => rfl
    | true => have := boxUsage_imp_bareUse _ _ _ hb; simp [hd'.1] at this
  · apply allR_eq_ok.mpr
    intro f hf
    apply rejIf_eq_ok.mpr
    have hf' := (List.any_eq_false.mp hd'.2) f hf
    rw [Bool.not_eq_true, Bool.or_eq_false_iff] at hf'
    cases hb : boxUsage c.tyName c.name f.ty with
    | false => rfl
    | true => have := boxUsage_imp_bareUse _ _ _ hb; simp [hf'.1] at this

theorem typeCombs_insert_other {pre post : Schema} {k : Comb} {T : String} (h : isTypeComb k = false ∨ k.tyName ≠ T) :
    typeCombs (pre ++ k :: post) T = typeCombs (pre ++ post) T := by
  simp only [typeCombs, List.filter_append, List.filter_cons]
  rcases h with h | h
  · simp [h]
  · by_cases hk : isTypeComb k = true
    · simp [hk, h]
    · simp [hk]

/-- C29 (append constructor / add type / add function) in explicit edit form: one combinator `k` inserted at
any position. -/
theorem lintCore_accepts_insert_one (pre post : Schema) (k : Comb)
    (hcd : consDistinct (pre ++ k :: post)) (hfd : funcDistinct (pre ++ k :: post))
    (hp : (layout (pre ++ post)).panicked = false ∧ (layout (pre ++ k :: post)).panicked = false)
    (hbox : isTypeComb k = true → ∀ c, typeCombs (pre ++ post) k.tyName = [c] → usedBareSomewhere (pre ++ post) c = false)
    (hfun : k.isFunc = true → firstArgOk k = true) :
    lintCore (pre ++ post) (pre ++ k :: post) = .ok := by
  have hsub : (pre ++ post).Sublist (pre ++ k :: post) :=
    List.Sublist.append (List.Sublist.refl _) (List.Sublist.cons _ (List.Sublist.refl _))
  apply lintCore_accepts_insertions hsub hcd hfd hp
  · intro T c heq hlen
    by_cases hk : isTypeComb k = true ∧ k.tyName = T
    · obtain ⟨hk1, rfl⟩ := hk
      exact boxCheckAll_ok_of_onlyBoxed (hbox hk1 c heq)
    · have : typeCombs (pre ++ k :: post) T = typeCombs (pre ++ post) T := by
        apply typeCombs_insert_other
        by_cases h1 : isTypeComb k = true
        · exact Or.inr (fun e => hk ⟨h1, e⟩)
        · exact Or.inl (by simpa using h1)
      rw [this, heq] at hlen
      simp at hlen
  · intro f hf hnone
    have hf' : f ∈ (pre ++ k :: post) ∧ f.isFunc = true := List.mem_filter.mp hf
    rcases List.mem_append.mp hf'.1 with h | h
    · exfalso
      have hfo : funcDistinct (pre ++ post) := List.Nodup.sublist (List.Sublist.map _ (funcCombs_sublist hsub)) hfd
      have hm : f ∈ funcCombs (pre ++ post) := by simp [funcCombs, List.mem_filter, h, hf'.2]
      simp [findFunc_of_mem hfo hm] at hnone
    · rcases List.mem_cons.mp h with rfl | h
      · exact hfun hf'.2
      · exfalso
        have hfo : funcDistinct (pre ++ post) := List.Nodup.sublist (List.Sublist.map _ (funcCombs_sublist hsub)) hfd
        have hm : f ∈ funcCombs (pre ++ post) := by simp [funcCombs, List.mem_filter, h, hf'.2]
        simp [findFunc_of_mem hfo hm] at hnone

/-! ### rejection: structure of `checkComb` -/

theorem lintCore_ne_ok_of_typeCheck {old new : Schema} {T : String} (hT : T ∈ typeOrder old)
    (h : typeCheck (mkCtx old new) T ≠ .ok) : lintCore old new ≠ .ok := by
  unfold lintCore
  simp only
  split
  · simp
  · exact R.andThen_ne_ok_left (allR_ne_ok hT h)

theorem lintCore_ne_ok_of_funcCheck {old new : Schema} {n : String} (hn : n ∈ funcOrder old)
    (h : funcCheck (mkCtx old new) n ≠ .ok) : lintCore old new ≠ .ok := by
  unfold lintCore
  simp only
  split
  · simp
  · exact R.andThen_ne_ok_right (R.andThen_ne_ok_left (allR_ne_ok hn h))

/-- a type constructor whose counterpart (looked up by name inside the same type) fails `checkComb`, or is missing. -/
theorem lintCore_ne_ok_of_cons {old new : Schema} {T : String} {c : Comb} (hc : c ∈ typeCombs old T)
    (h : match findLast (fun d => d.name == c.name) (typeCombs new T) with
         | none => True
         | some c' => checkComb (mkCtx old new) c' c ≠ .ok) : lintCore old new ≠ .ok := by
  apply lintCore_ne_ok_of_typeCheck (mem_typeOrder_of_mem_typeCombs hc)
  unfold typeCheck
  apply R.andThen_ne_ok_left
  apply allR_ne_ok hc
  simp only [mkCtx]
  split
  · simp
  · rename_i c' heq
    simp only [mkCtx, heq] at h
    exact h

theorem lintCore_ne_ok_of_func {old new : Schema} {o : Comb} (ho : o ∈ funcCombs old) (hfd : funcDistinct old)
    (h : match findFunc new o.name with
         | none => True
         | some f => checkComb (mkCtx old new) f o ≠ .ok) : lintCore old new ≠ .ok := by
  apply lintCore_ne_ok_of_funcCheck (n := o.name) (List.mem_map_of_mem ho)
  unfold funcCheck
  simp only [mkCtx, findFunc_of_mem hfd ho]
  split
  · simp
  · rename_i f heq
    simp only [mkCtx, heq] at h
    exact h

theorem checkComb_eq_ok {x : Ctx} {nc oc : Comb} : checkComb x nc oc = .ok ↔
    ¬ nc.fields.length < oc.fields.length ∧ ¬ nc.targs.length < oc.targs.length ∧
    fieldsCheck (mapping nc) (mapping oc) nc.fields oc.fields = .ok ∧
    (if nc.isFunc && oc.isFunc then funcBlock x nc oc else (.ok, oc.fields.length)).1 = .ok ∧
    appendedCheck x nc (nc.fields.drop (if nc.isFunc && oc.isFunc then funcBlock x nc oc else (.ok, oc.fields.length)).2) = .ok ∧
    (if nc.isFunc && oc.isFunc then cmpType (mapping nc) (mapping oc) nc.result oc.result else .ok) = .ok := by
  unfold checkComb
  by_cases h1 : nc.fields.length < oc.fields.length
  · simp [h1]
  · by_cases h2 : nc.targs.length < oc.targs.length
    · simp [h1, h2]
    · simp only [h1, h2, if_false, R.andThen_eq_ok, not_false_eq_true, true_and]

theorem checkComb_fewer_fields {x : Ctx} {nc oc : Comb} (h : nc.fields.length < oc.fields.length) : checkComb x nc oc = .rej := by
  simp [checkComb, h]

theorem checkComb_fewer_targs {x : Ctx} {nc oc : Comb} (h : nc.targs.length < oc.targs.length) : checkComb x nc oc ≠ .ok := by
  intro h'; exact (checkComb_eq_ok.mp h').2.1 h

theorem fieldsCheck_ok_get {nm om : String → Option Int} : ∀ {ns os : List Field}, fieldsCheck nm om ns os = .ok →
    ∀ i (h : i < os.length), ∃ nf, ns[i]? = some nf ∧ fieldCheck nm om nf os[i] = .ok
  | _, [], _, i, h => by simp at h
  | [], _ :: _, hok, _, _ => by simp [fieldsCheck] at hok
  | nf :: ns, of :: os, hok, i, h => by
    simp only [fieldsCheck, R.andThen_eq_ok] at hok
    cases i with
    | zero => exact ⟨nf, rfl, hok.1⟩
    | succ j =>
      have := fieldsCheck_ok_get hok.2 j (by simpa using h)
      simpa using this

/-- any existing field whose comparison fails makes `checkComb` fail, wherever the field is. -/
theorem checkComb_ne_ok_of_field {x : Ctx} {nc oc : Comb} {i : Nat} (h : i < oc.fields.length)
    (hbad : ∀ nf, nc.fields[i]? = some nf → fieldCheck (mapping nc) (mapping oc) nf oc.fields[i] ≠ .ok) :
    checkComb x nc oc ≠ .ok := by
  intro hok
  obtain ⟨nf, h1, h2⟩ := fieldsCheck_ok_get (checkComb_eq_ok.mp hok).2.2.1 i h
  exact hbad nf h1 h2

theorem fieldCheck_eq_ok {nm om : String → Option Int} {nf of : Field} : fieldCheck nm om nf of = .ok ↔
    cmpType nm om nf.ty of.ty = .ok ∧ maskCheck nm om nf of = .ok := by
  simp [fieldCheck, R.andThen_eq_ok]

/-- `maskCheck` accepts exactly: both unmasked, or both masked by the same bit of names mapped to the same index. -/
theorem maskCheck_eq_ok {nm om : String → Option Int} {nf of : Field} : maskCheck nm om nf of = .ok ↔
    (nf.mask = none ∧ of.mask = none) ∨
    (∃ a b, nf.mask = some a ∧ of.mask = some b ∧ (nm a.name).getD 0 = (om b.name).getD 0 ∧ a.bit = b.bit) := by
  unfold maskCheck
  cases h1 : nf.mask <;> cases h2 : of.mask <;> simp
  rename_i a b
  by_cases h3 : (nm a.name).getD 0 = (om b.name).getD 0
  · by_cases h4 : a.bit = b.bit
    · simp [h3, h4]
    · simp [h3, h4]
  · simp [h3]

/-- appended fields of a type constructor: an unmasked one is rejected. -/
theorem checkComb_ne_ok_of_unmasked_appended {x : Ctx} {nc oc : Comb} (hf : (nc.isFunc && oc.isFunc) = false)
    {f : Field} (hmem : f ∈ nc.fields.drop oc.fields.length) (hm : f.mask = none) : checkComb x nc oc ≠ .ok := by
  intro hok
  have h := (checkComb_eq_ok.mp hok).2.2.2.2.1
  simp only [hf, Bool.false_eq_true, if_false] at h
  have := allR_eq_ok.mp h f hmem
  simp [hm] at this

/-! ### rejection: positions inside reference trees -/

/-- the node property established by an accepted comparison, at one position. -/
def nodeOk (nm om : String → Option Int) (new old : Option Node) : Prop :=
  match old with
  | none => True
  | some (.arith k) => new = some (.arith k)
  | some (.ty n _) => ∃ n' b', new = some (.ty n' b') ∧ headBad (nm n') (om n) n' n = false

mutual
  theorem cmpType_ok_nodeAt (nm om : String → Option Int) : ∀ (t' t : TypeRef), cmpType nm om t' t = .ok →
      ∀ p, nodeOk nm om (nodeAt t' p) (nodeAt t p)
    | .mk n' b' a', .mk n b a, h, p => by
      simp only [cmpType] at h
      by_cases hb : headBad (nm n') (om n) n' n = true
      · simp [hb] at h
      · simp only [hb, Bool.false_eq_true, if_false] at h
        cases p with
        | nil => simp only [nodeAt, nodeOk]; exact ⟨n', b', rfl, by simpa using hb⟩
        | cons i p => simp only [nodeAt]; exact cmpArgs_ok_nodeAt nm om a' a h i p
  theorem cmpArgs_ok_nodeAt (nm om : String → Option Int) : ∀ (a' a : Args), cmpArgs nm om a' a = .ok →
      ∀ i p, nodeOk nm om (nodeAtArgs a' i p) (nodeAtArgs a i p)
    | _, .nil, _, i, p => by simp [nodeAtArgs, nodeOk]
    | .nil, .arith _ _, h, _, _ => by simp [cmpArgs] at h
    | .nil, .ty _ _, h, _, _ => by simp [cmpArgs] at h
    | .arith n r, .arith o r', h, i, p => by
      simp only [cmpArgs] at h
      by_cases hn : n = o
      · subst hn
        simp only [bne_self_eq_false, Bool.false_eq_true, if_false] at h
        cases i with
        | zero => cases p <;> simp [nodeAtArgs, nodeOk]
        | succ j => simp only [nodeAtArgs]; exact cmpArgs_ok_nodeAt nm om r r' h j p
      · simp [hn] at h
    | .arith _ _, .ty _ _, h, _, _ => by simp [cmpArgs] at h
    | .ty _ _, .arith _ _, h, _, _ => by simp [cmpArgs] at h
    | .ty t r, .ty t' r', h, i, p => by
      simp only [cmpArgs, R.andThen_eq_ok] at h
      cases i with
      | zero => simp only [nodeAtArgs]; exact cmpType_ok_nodeAt nm om t t' h.1 p
      | succ j => simp only [nodeAtArgs]; exact cmpArgs_ok_nodeAt nm om r r' h.2 j p
end

theorem headBad_nonlocal {n' n : String} : headBad none none n' n = false ↔ n' = n := by
  simp [headBad]

mutual
  /-- `compareTypes` never looks at `Bare`: the verdict is the same after erasing every `%` on both sides. -/
  theorem cmpType_eraseBare (nm om : String → Option Int) : ∀ (t' t : TypeRef),
      cmpType nm om (eraseBare t') (eraseBare t) = cmpType nm om t' t
    | .mk n' b' a', .mk n b a => by
      simp only [eraseBare, cmpType, cmpArgs_eraseBare nm om a' a]
  theorem cmpArgs_eraseBare (nm om : String → Option Int) : ∀ (a' a : Args),
      cmpArgs nm om (eraseBareArgs a') (eraseBareArgs a) = cmpArgs nm om a' a
    | .nil, .nil => by simp [eraseBareArgs, cmpArgs]
    | .arith _ _, .nil => by simp [eraseBareArgs, cmpArgs]
    | .ty _ _, .nil => by simp [eraseBareArgs, cmpArgs]
    | .nil, .arith _ _ => by simp [eraseBareArgs, cmpArgs]
    | .nil, .ty _ _ => by simp [eraseBareArgs, cmpArgs]
    | .arith n r, .arith o r' => by simp [eraseBareArgs, cmpArgs, cmpArgs_eraseBare nm om r r']
    | .arith _ _, .ty _ _ => by simp [eraseBareArgs, cmpArgs]
    | .ty _ _, .arith _ _ => by simp [eraseBareArgs, cmpArgs]
    | .ty t r, .ty t' r' => by
      simp [eraseBareArgs, cmpArgs, cmpType_eraseBare nm om t t', cmpArgs_eraseBare nm om r r']
end

mutual
  /-- `checkBoxUsage` sees a bare use exactly along the spine of first non-arithmetic arguments. -/
  theorem boxUsage_of_spine (ty cn : String) : ∀ (t : TypeRef) (p : List Nat) (n : String) (b : Bool),
      nodeAt t p = some (.ty n b) → onFirstSpine t p = true → ((n == ty && b) || n == cn) = true →
      boxUsage ty cn t = true
    | .mk n0 b0 a, [], n, b, hn, _, hu => by
      simp only [nodeAt, Option.some.injEq, Node.ty.injEq] at hn
      obtain ⟨rfl, rfl⟩ := hn
      simp only [boxUsage, Bool.or_eq_true]
      rw [Bool.or_eq_true] at hu
      exact Or.inl hu
    | .mk n0 b0 a, i :: p, n, b, hn, hs, hu => by
      simp only [nodeAt] at hn
      simp only [onFirstSpine] at hs
      simp only [boxUsage, Bool.or_eq_true]
      exact Or.inr (boxUsageArgs_of_spine ty cn a i p n b hn hs hu)
  theorem boxUsageArgs_of_spine (ty cn : String) : ∀ (a : Args) (i : Nat) (p : List Nat) (n : String) (b : Bool),
      nodeAtArgs a i p = some (.ty n b) → onFirstSpineArgs a i p = true → ((n == ty && b) || n == cn) = true →
      boxUsageArgs ty cn a = true
    | .nil, _, _, _, _, hn, _, _ => by simp [nodeAtArgs] at hn
    | .arith _ r, 0, _, _, _, _, hs, _ => by simp [onFirstSpineArgs] at hs
    | .arith _ r, i + 1, p, n, b, hn, hs, hu => by
      simp only [nodeAtArgs] at hn
      simp only [onFirstSpineArgs] at hs
      simp only [boxUsageArgs]
      exact boxUsageArgs_of_spine ty cn r i p n b hn hs hu
    | .ty t _, 0, p, n, b, hn, hs, hu => by
      simp only [nodeAtArgs] at hn
      simp only [onFirstSpineArgs] at hs
      simp only [boxUsageArgs]
      exact boxUsage_of_spine ty cn t p n b hn hs hu
    | .ty _ _, _ + 1, _, _, _, _, hs, _ => by simp [onFirstSpineArgs] at hs
end

/-- a single-constructor type that becomes a union while `checkBoxUsage` sees a bare use of it. -/
theorem lintCore_ne_ok_of_union {old new : Schema} {T : String} {c d : Comb}
    (hone : typeCombs old T = [c]) (hmany : (typeCombs new T).length > 1) (hd : d ∈ old)
    (huse : boxUsage c.tyName c.name d.result = true ∨ ∃ f ∈ d.fields, boxUsage c.tyName c.name f.ty = true) :
    lintCore old new ≠ .ok := by
  have hc : c ∈ typeCombs old T := by simp [hone]
  apply lintCore_ne_ok_of_typeCheck (mem_typeOrder_of_mem_typeCombs hc)
  unfold typeCheck
  apply R.andThen_ne_ok_right
  apply R.andThen_ne_ok_right
  simp only [mkCtx, hone, hmany, if_true]
  unfold boxCheckAll
  apply allR_ne_ok hd
  rcases huse with h | ⟨f, hf, h⟩
  · apply R.andThen_ne_ok_left
    simp [rejIf, h]
  · apply R.andThen_ne_ok_right
    apply allR_ne_ok hf
    simp [rejIf, h]

/-! ### rejection: edit forms -/

theorem lintCore_ne_ok_of_cons_edit {old new : Schema} {T : String} {c c' : Comb}
    (hc : c ∈ typeCombs old T) (hc' : c' ∈ typeCombs new T) (hname : c'.name = c.name) (hcd : consDistinct new)
    (hbad : checkComb (mkCtx old new) c' c ≠ .ok) : lintCore old new ≠ .ok := by
  apply lintCore_ne_ok_of_cons hc
  have := findLast_of_nodup (key := fun d : Comb => d.name) (typeCombs_nodup hcd T) hc'
  simp only [hname] at this
  rw [this]
  exact hbad

theorem lintCore_ne_ok_of_func_edit {old new : Schema} {o f : Comb}
    (ho : o ∈ funcCombs old) (hf : f ∈ funcCombs new) (hname : f.name = o.name)
    (hfo : funcDistinct old) (hfn : funcDistinct new)
    (hbad : checkComb (mkCtx old new) f o ≠ .ok) : lintCore old new ≠ .ok := by
  apply lintCore_ne_ok_of_func ho hfo
  have := findFunc_of_mem hfn hf
  rw [hname] at this
  rw [this]
  exact hbad

/-- removing a constructor (at any position of the schema). -/
theorem lintCore_ne_ok_of_removed_cons (pre post : Schema) (c : Comb) (hc : isTypeComb c = true)
    (hcd : consDistinct (pre ++ c :: post)) : lintCore (pre ++ c :: post) (pre ++ post) ≠ .ok := by
  have hmem : c ∈ typeCombs (pre ++ c :: post) c.tyName := mem_typeCombs.mpr ⟨by simp, hc, rfl⟩
  apply lintCore_ne_ok_of_cons hmem
  have hnone : findLast (fun d => d.name == c.name) (typeCombs (pre ++ post) c.tyName) = none := by
    apply findLast_none.mpr
    intro d hd
    have hd' := mem_typeCombs.mp hd
    unfold consDistinct at hcd
    simp only [List.filter_append, List.filter_cons, hc, if_true, List.map_append, List.map_cons] at hcd
    have hnd := List.nodup_append.mp hcd
    have h2 := List.nodup_cons.mp hnd.2.1
    cases hn : d.name == c.name with
    | false => rfl
    | true =>
      exfalso
      have hn' : d.name = c.name := by simpa using hn
      rcases List.mem_append.mp hd'.1 with h | h
      · have : d.name ∈ (pre.filter isTypeComb).map (·.name) :=
          List.mem_map_of_mem (List.mem_filter.mpr ⟨h, hd'.2.1⟩)
        exact hnd.2.2 _ this _ List.mem_cons_self hn'
      · have : d.name ∈ (post.filter isTypeComb).map (·.name) :=
          List.mem_map_of_mem (List.mem_filter.mpr ⟨h, hd'.2.1⟩)
        exact h2.1 (hn' ▸ this)
  rw [hnone]
  trivial

/-- removing a function (at any position of the schema). -/
theorem lintCore_ne_ok_of_removed_func (pre post : Schema) (o : Comb) (ho : o.isFunc = true)
    (hfd : funcDistinct (pre ++ o :: post)) : lintCore (pre ++ o :: post) (pre ++ post) ≠ .ok := by
  have hmem : o ∈ funcCombs (pre ++ o :: post) := List.mem_filter.mpr ⟨by simp, ho⟩
  apply lintCore_ne_ok_of_func hmem hfd
  have hnone : findFunc (pre ++ post) o.name = none := by
    apply findLast_none.mpr
    intro d hd
    have hd' := List.mem_filter.mp hd
    unfold funcDistinct funcCombs at hfd
    simp only [List.filter_append, List.filter_cons, ho, if_true, List.map_append, List.map_cons] at hfd
    have hnd := List.nodup_append.mp hfd
    have h2 := List.nodup_cons.mp hnd.2.1
    cases hn : d.name == o.name with
    | false => rfl
    | true =>
      exfalso
      have hn' : d.name = o.name := by simpa using hn
      rcases List.mem_append.mp hd'.1 with h | h
      · have : d.name ∈ (pre.filter (·.isFunc)).map (·.name) :=
          List.mem_map_of_mem (List.mem_filter.mpr ⟨h, hd'.2⟩)
        exact hnd.2.2 _ this _ List.mem_cons_self hn'
      · have : d.name ∈ (post.filter (·.isFunc)).map (·.name) :=
          List.mem_map_of_mem (List.mem_filter.mpr ⟨h, hd'.2⟩)
        exact h2.1 (hn' ▸ this)
  rw [hnone]
  trivial

/-! ### used bits of local field masks -/

/-- names of all combinators (constructors and functions) are pairwise different. -/
def allDistinct (s : Schema) : Prop := (s.map (·.name)).Nodup

instance (s : Schema) : Decidable (allDistinct s) := by unfold allDistinct; infer_instance

theorem allDistinct.cons {s : Schema} (h : allDistinct s) : consDistinct s :=
  List.Nodup.sublist (List.Sublist.map _ List.filter_sublist) h

theorem allDistinct.func {s : Schema} (h : allDistinct s) : funcDistinct s :=
  List.Nodup.sublist (List.Sublist.map _ List.filter_sublist) h

theorem eq_of_nodup_map {α : Type} {f : α → String} : ∀ {l : List α}, (l.map f).Nodup → ∀ {a b : α}, a ∈ l → b ∈ l → f a = f b → a = b
  | [], _, _, _, ha, _, _ => by cases ha
  | x :: xs, hn, a, b, ha, hb, hab => by
    simp only [List.map_cons, List.nodup_cons] at hn
    rcases List.mem_cons.mp ha with rfl | ha'
    · rcases List.mem_cons.mp hb with rfl | hb'
      · rfl
      · exact absurd (hab ▸ List.mem_map_of_mem hb') hn.1
    · rcases List.mem_cons.mp hb with rfl | hb'
      · exact absurd (hab ▸ List.mem_map_of_mem ha') hn.1
      · exact eq_of_nodup_map hn.2 ha' hb' hab

theorem mem_lastByName {l : List Comb} (hn : (l.map (·.name)).Nodup) {c : Comb} (hc : c ∈ l) : c ∈ lastByName l := by
  induction l with
  | nil => cases hc
  | cons x xs ih =>
    simp only [List.map_cons, List.nodup_cons] at hn
    have hx : (xs.any fun d => d.name == x.name) = false := by
      apply List.any_eq_false.mpr
      intro d hd
      have : d.name ≠ x.name := fun e => hn.1 (e ▸ List.mem_map_of_mem hd)
      simpa using this
    simp only [lastByName, hx, Bool.false_eq_true, if_false]
    rcases List.mem_cons.mp hc with rfl | hc'
    · exact List.mem_cons_self
    · exact List.mem_cons_of_mem _ (ih hn.2 hc')

theorem lastByName_subset {l : List Comb} {c : Comb} (hc : c ∈ lastByName l) : c ∈ l := by
  induction l with
  | nil => simp [lastByName] at hc
  | cons x xs ih =>
    simp only [lastByName] at hc
    split at hc
    · exact List.mem_cons_of_mem _ (ih hc)
    · rcases List.mem_cons.mp hc with rfl | h
      · exact List.mem_cons_self
      · exact List.mem_cons_of_mem _ (ih h)

theorem mem_natCombs_of_type {s : Schema} {T : String} {c : Comb} (h : c ∈ typeCombs s T) : c ∈ natCombs s := by
  unfold natCombs
  apply List.mem_append_left
  exact List.mem_flatMap.mpr ⟨T, mem_typeOrder_of_mem_typeCombs h, h⟩

theorem mem_natCombs_of_func {s : Schema} (hfd : funcDistinct s) {c : Comb} (h : c ∈ funcCombs s) : c ∈ natCombs s := by
  unfold natCombs
  exact List.mem_append_right _ (mem_lastByName hfd h)

theorem natCombs_subset {s : Schema} {d : Comb} (h : d ∈ natCombs s) : d ∈ s := by
  unfold natCombs at h
  rcases List.mem_append.mp h with h | h
  · obtain ⟨T, _, hT⟩ := List.mem_flatMap.mp h
    exact (mem_typeCombs.mp hT).1
  · exact (List.mem_filter.mp (lastByName_subset h)).1

theorem cbByName_eq {s : Schema} (hd : allDistinct s) {c : Comb} (hc : c ∈ natCombs s) (L : St) (i : Nat) :
    cbByName s L c.name i = cbOf s L c i := by
  unfold cbByName
  cases h : findLast (fun d => d.name == c.name) (natCombs s) with
  | none =>
    have := findLast_none.mp h c hc
    simp at this
  | some d =>
    have hd' := findLast_some h
    have : d = c := eq_of_nodup_map hd (natCombs_subset hd'.1) (natCombs_subset hc) (by simpa using hd'.2)
    rw [this]

theorem mem_cbOf_of_direct {s : Schema} {L : St} {c : Comb} {k : Nat} {fm : Field} {b : Nat}
    (hk : c.fields[k]? = some fm) (hty : fm.ty.name = "#") (hb : b ∈ directBits c k fm.name) : b ∈ cbOf s L c k := by
  unfold cbOf
  simp [hk, hty, hb]

/-- appended field of a type constructor guarded by a bit that an existing field of the constructor already uses. -/
theorem checkComb_ne_ok_of_reused_bit {old new : Schema} {nc oc : Comb} (hf : (nc.isFunc && oc.isFunc) = false)
    (hd : allDistinct old) (hoc : oc ∈ natCombs old) (hname : nc.name = oc.name)
    {f : Field} (hmem : f ∈ nc.fields.drop oc.fields.length) {m : Mask} (hm : f.mask = some m)
    (hnt : firstIdx (fun a : TArg => a.name == m.name) nc.targs = none)
    {k : Nat} (hk : firstIdx (fun g : Field => g.name == m.name) nc.fields = some k)
    {fm : Field} (hfm : oc.fields[k]? = some fm) (hty : fm.ty.name = "#")
    (hbit : m.bit ∈ directBits oc k fm.name) : checkComb (mkCtx old new) nc oc ≠ .ok := by
  intro hok
  have h := (checkComb_eq_ok.mp hok).2.2.2.2.1
  simp only [hf, Bool.false_eq_true, if_false] at h
  have := allR_eq_ok.mp h f hmem
  simp only [hm, rejIf_eq_ok, Bool.not_eq_false', bitAvailable, Bool.not_eq_true', usedBits, hnt, hk, mkCtx] at this
  rw [hname, cbByName_eq hd hoc] at this
  have hin := mem_cbOf_of_direct (s := old) (L := layout old) hfm hty hbit
  simp [hin] at this

/-! ### acceptance: appended masked field -/

mutual
  theorem matchesRef_nil_of_not_passed (res : String → Option String) (name : String) :
      ∀ t, passedAsArg name t = false → matchesRef res name t = []
    | .mk n b a => by
      simp only [passedAsArg, matchesRef]
      exact matchesArgs_nil_of_not_passed res name (res n) 0 a
  theorem matchesArgs_nil_of_not_passed (res : String → Option String) (name : String) (tn : Option String) (idx : Nat) :
      ∀ a, passedAsArgArgs name a = false → matchesArgs res name tn idx a = []
    | .nil => by simp [matchesArgs]
    | .arith _ r => by
      simp only [passedAsArgArgs, matchesArgs]
      exact matchesArgs_nil_of_not_passed res name tn (idx + 1) r
    | .ty t r => by
      simp only [passedAsArgArgs, matchesArgs, Bool.or_eq_false_iff, and_imp]
      intro h1 h2 h3
      simp [h1, matchesRef_nil_of_not_passed res name t h2, matchesArgs_nil_of_not_passed res name tn (idx + 1) r h3]
end

mutual
  theorem cmpType_same (nm om : String → Option Int) : ∀ t : TypeRef, (∀ n ∈ refNames t, nm n = om n) → cmpType nm om t t = .ok
    | .mk n b a => by
      intro h
      have h0 : nm n = om n := h n (by simp [refNames])
      have hb : headBad (nm n) (om n) n n = false := by
        rw [h0]; unfold headBad; cases om n <;> simp
      simp only [cmpType, hb, Bool.false_eq_true, if_false]
      exact cmpArgs_same nm om a (fun x hx => h x (by simp [refNames, hx]))
  theorem cmpArgs_same (nm om : String → Option Int) : ∀ a : Args, (∀ n ∈ refNamesArgs a, nm n = om n) → cmpArgs nm om a a = .ok
    | .nil => by simp [cmpArgs]
    | .arith n r => by
      intro h
      simp only [cmpArgs, bne_self_eq_false, Bool.false_eq_true, if_false]
      exact cmpArgs_same nm om r (fun x hx => h x (by simpa [refNamesArgs] using hx))
    | .ty t r => by
      intro h
      simp only [cmpArgs, R.andThen_eq_ok]
      exact ⟨cmpType_same nm om t (fun x hx => h x (by simp [refNamesArgs, hx])),
             cmpArgs_same nm om r (fun x hx => h x (by simp [refNamesArgs, hx]))⟩
end

theorem lastIdxAux_append_ne {α : Type} (p : α → Bool) (x : α) (hx : p x = false) :
    ∀ (l : List α) (i : Nat), lastIdxAux p (l ++ [x]) i = lastIdxAux p l i
  | [], i => by simp [lastIdxAux, hx]
  | y :: ys, i => by simp [lastIdxAux, lastIdxAux_append_ne p x hx ys (i + 1)]

theorem firstIdxAux_append_left {α : Type} (p : α → Bool) (ex : List α) :
    ∀ (l : List α) (i k : Nat), firstIdxAux p l i = some k → firstIdxAux p (l ++ ex) i = some k
  | [], i, k, h => by simp [firstIdxAux] at h
  | y :: ys, i, k, h => by
    simp only [List.cons_append, firstIdxAux] at h ⊢
    split
    · rename_i hy; simpa [hy] using h
    · rename_i hy; simp only [hy, Bool.false_eq_true, if_false] at h
      exact firstIdxAux_append_left p ex ys (i + 1) k h

theorem mapping_append_field (c : Comb) (f : Field) (n : String) (hn : f.name ≠ n) :
    mapping { c with fields := c.fields ++ [f] } n = mapping c n := by
  unfold mapping
  have : lastIdx (fun g : Field => g.name == n) (c.fields ++ [f]) = lastIdx (fun g : Field => g.name == n) c.fields := by
    unfold lastIdx
    exact lastIdxAux_append_ne _ f (by simpa using hn) c.fields 0
  simp only [this]

theorem fieldsCheck_append_same (nm om : String → Option Int) (ex : List Field) :
    ∀ fs : List Field, (∀ g ∈ fs, fieldCheck nm om g g = .ok) → fieldsCheck nm om (fs ++ ex) fs = .ok
  | [], _ => by cases ex <;> simp [fieldsCheck]
  | g :: gs, h => by
    simp only [List.cons_append, fieldsCheck, R.andThen_eq_ok]
    exact ⟨h g List.mem_cons_self, fieldsCheck_append_same nm om ex gs (fun x hx => h x (List.mem_cons_of_mem _ hx))⟩

/-- C29, checkComb level: one field appended, guarded by a bit of a local `#` field that no existing field uses
and that is not passed to any type. -/
theorem checkComb_ok_of_appended_masked {old new : Schema} {oc : Comb} {f : Field} {m : Mask}
    (hd : allDistinct old) (hoc : oc ∈ natCombs old) (hm : f.mask = some m)
    (hfresh : f.name ∉ usedNames oc)
    (hnt : firstIdx (fun a : TArg => a.name == m.name) oc.targs = none)
    {k : Nat} (hk : firstIdx (fun g : Field => g.name == m.name) oc.fields = some k)
    {fm : Field} (hfm : oc.fields[k]? = some fm) (hty : fm.ty.name = "#")
    (hfree : m.bit ∉ directBits oc k fm.name)
    (hnopass : ∀ t ∈ laterRefs oc k, passedAsArg fm.name t = false) :
    checkComb (mkCtx old new) { oc with fields := oc.fields ++ [f] } oc = .ok := by
  have hagree : ∀ n ∈ usedNames oc, mapping { oc with fields := oc.fields ++ [f] } n = mapping oc n := by
    intro n hn
    exact mapping_append_field oc f n (fun e => hfresh (e ▸ hn))
  apply checkComb_eq_ok.mpr
  refine ⟨by simp, by simp, ?_, ?_, ?_, ?_⟩
  · apply fieldsCheck_append_same
    intro g hg
    apply fieldCheck_eq_ok.mpr
    constructor
    · apply cmpType_same
      intro n hn
      apply hagree
      unfold usedNames
      exact List.mem_append_left _ (List.mem_flatMap.mpr ⟨g, hg, List.mem_append_left _ hn⟩)
    · apply maskCheck_eq_ok.mpr
      cases hgm : g.mask with
      | none => exact Or.inl ⟨rfl, rfl⟩
      | some a =>
        refine Or.inr ⟨a, a, rfl, rfl, ?_, rfl⟩
        rw [hagree]
        unfold usedNames
        exact List.mem_append_left _ (List.mem_flatMap.mpr ⟨g, hg, List.mem_append_right _ (by simp [hgm])⟩)
  · -- the function block
    by_cases hfn : oc.isFunc = true
    · have hfm_mem : fm ∈ oc.fields := List.mem_of_getElem? hfm
      have hnat : (oc.fields.any fun g => g.ty.name == "#") = true :=
        List.any_eq_true.mpr ⟨fm, hfm_mem, by simp [hty]⟩
      simp only [hfn, Bool.and_self, if_true, funcBlock, List.length_append, List.length_cons, List.length_nil, hnat]
      by_cases hcm : (oc.fields.any fun g => g.mask.isSome) = true
      · simp [hcm]
      · simp [hcm]
    · simp [hfn]
  · -- the appended field
    have hfb : (if (oc.isFunc && oc.isFunc) = true then funcBlock (mkCtx old new) { oc with fields := oc.fields ++ [f] } oc
        else (R.ok, oc.fields.length)).2 = oc.fields.length := by
      by_cases hfn : oc.isFunc = true
      · have hfm_mem : fm ∈ oc.fields := List.mem_of_getElem? hfm
        have hnat : (oc.fields.any fun g => g.ty.name == "#") = true :=
          List.any_eq_true.mpr ⟨fm, hfm_mem, by simp [hty]⟩
        simp only [hfn, Bool.and_self, if_true, funcBlock, List.length_append, List.length_cons, List.length_nil, hnat]
        by_cases hcm : (oc.fields.any fun g => g.mask.isSome) = true
        · simp [hcm]
        · simp [hcm]
      · simp [hfn]
    show appendedCheck (mkCtx old new) { oc with fields := oc.fields ++ [f] }
      (List.drop (if (oc.isFunc && oc.isFunc) = true then funcBlock (mkCtx old new) { oc with fields := oc.fields ++ [f] } oc
        else (R.ok, oc.fields.length)).2 (oc.fields ++ [f])) = R.ok
    rw [hfb, List.drop_left]
    simp only [appendedCheck, allR, hm, R.andThen_eq_ok, and_true, rejIf_eq_ok,
      Bool.not_eq_false', bitAvailable, Bool.not_eq_true', usedBits, hnt, mkCtx]
    have hk' : firstIdx (fun g : Field => g.name == m.name) (oc.fields ++ [f]) = some k :=
      firstIdxAux_append_left _ [f] oc.fields 0 k hk
    simp only [hk']
    have := cbByName_eq hd hoc (layout old) k
    rw [this]
    unfold cbOf
    simp only [hfm, hty, bne_self_eq_false, Bool.false_eq_true, if_false]
    have hnm : natMatches old oc k = [] := by
      unfold natMatches
      simp only [hfm, hty, bne_self_eq_false, Bool.false_eq_true, if_false]
      apply List.flatMap_eq_nil_iff.mpr
      intro t ht
      exact matchesRef_nil_of_not_passed _ _ t (hnopass t ht)
    simp [hnm, hfree]
  · by_cases hfn : oc.isFunc = true
    · simp only [hfn, Bool.and_self, if_true]
      apply cmpType_same
      intro n hn
      apply hagree
      unfold usedNames
      exact List.mem_append_right _ hn
    · simp [hfn]

/-! ### acceptance: replacement of one combinator -/

/-- same header: the combinator keeps its identity (only template arguments / fields / result may differ). -/
def sameHeader (nc oc : Comb) : Prop :=
  nc.name = oc.name ∧ nc.tyName = oc.tyName ∧ nc.builtin = oc.builtin ∧ nc.isFunc = oc.isFunc

theorem typeCombs_replace_length {pre post : Schema} {oc nc : Comb} (h : sameHeader nc oc) (T : String) :
    (typeCombs (pre ++ nc :: post) T).length = (typeCombs (pre ++ oc :: post) T).length := by
  obtain ⟨_, h2, h3, h4⟩ := h
  have hi : isTypeComb nc = isTypeComb oc := by simp [isTypeComb, h3, h4]
  simp only [typeCombs, List.filter_append, List.filter_cons, hi, List.length_append]
  cases isTypeComb oc with
  | false => simp
  | true => simp [List.filter_cons, h2]; split <;> simp

theorem mem_typeCombs_replace {pre post : Schema} {oc nc : Comb} (h : sameHeader nc oc) {T : String} {c : Comb}
    (hc : c ∈ typeCombs (pre ++ oc :: post) T) :
    (c = oc ∧ nc ∈ typeCombs (pre ++ nc :: post) T) ∨ c ∈ typeCombs (pre ++ nc :: post) T := by
  obtain ⟨_, h2, h3, h4⟩ := h
  have hc' := mem_typeCombs.mp hc
  rcases List.mem_append.mp hc'.1 with hp | hp
  · exact Or.inr (mem_typeCombs.mpr ⟨by simp [hp], hc'.2⟩)
  · rcases List.mem_cons.mp hp with rfl | hp
    · refine Or.inl ⟨rfl, mem_typeCombs.mpr ⟨by simp, ?_, ?_⟩⟩
      · simpa [isTypeComb, h3, h4] using hc'.2.1
      · rw [h2]; exact hc'.2.2
    · exact Or.inr (mem_typeCombs.mpr ⟨by simp [hp], hc'.2⟩)

theorem mem_funcCombs_replace {pre post : Schema} {oc nc : Comb} (h : sameHeader nc oc) {c : Comb}
    (hc : c ∈ funcCombs (pre ++ oc :: post)) :
    (c = oc ∧ nc ∈ funcCombs (pre ++ nc :: post)) ∨ c ∈ funcCombs (pre ++ nc :: post) := by
  obtain ⟨_, _, _, h4⟩ := h
  have hc' := List.mem_filter.mp hc
  rcases List.mem_append.mp hc'.1 with hp | hp
  · exact Or.inr (List.mem_filter.mpr ⟨by simp [hp], hc'.2⟩)
  · rcases List.mem_cons.mp hp with rfl | hp
    · exact Or.inl ⟨rfl, List.mem_filter.mpr ⟨by simp, by rw [h4]; exact hc'.2⟩⟩
    · exact Or.inr (List.mem_filter.mpr ⟨by simp [hp], hc'.2⟩)

/-- General acceptance theorem for the replacement of one combinator (at any position) by a version that passes
`checkComb` against the old one. -/
theorem lintCore_accepts_replace (pre post : Schema) (oc nc : Comb) (hh : sameHeader nc oc)
    (hd : allDistinct (pre ++ nc :: post))
    (hp : (layout (pre ++ oc :: post)).panicked = false ∧ (layout (pre ++ nc :: post)).panicked = false)
    (hcheck : checkComb (mkCtx (pre ++ oc :: post) (pre ++ nc :: post)) nc oc = .ok) :
    lintCore (pre ++ oc :: post) (pre ++ nc :: post) = .ok := by
  have hdo : allDistinct (pre ++ oc :: post) := by
    unfold allDistinct at hd ⊢
    simpa [List.map_append, List.map_cons, hh.1] using hd
  unfold lintCore
  simp only [mkCtx, hp.1, hp.2, Bool.or_self, Bool.false_eq_true, if_false, R.andThen_eq_ok]
  refine ⟨?_, ?_, ?_⟩
  · apply allR_eq_ok.mpr
    intro T _
    unfold typeCheck
    simp only [R.andThen_eq_ok]
    refine ⟨?_, ?_, ?_⟩
    · apply allR_eq_ok.mpr
      intro c hc
      rcases mem_typeCombs_replace hh hc with ⟨rfl, hnc⟩ | hc'
      · have := findLast_of_nodup (key := fun d : Comb => d.name) (typeCombs_nodup hd.cons T) hnc
        simp only [hh.1] at this
        simp only [this]
        exact hcheck
      · rw [findLast_of_nodup (key := fun d : Comb => d.name) (typeCombs_nodup hd.cons T) hc']
        exact checkComb_refl _ c
    · apply rejIf_eq_ok.mpr
      simp [typeCombs_replace_length hh T]
    · split
      · rename_i c heq
        have := typeCombs_replace_length (pre := pre) (post := post) hh T
        simp only [heq, List.length_cons, List.length_nil] at this
        simp [this]
      · rfl
  · apply allR_eq_ok.mpr
    intro n hn
    obtain ⟨o, ho, rfl⟩ := List.mem_map.mp hn
    unfold funcCheck
    simp only [findFunc_of_mem hdo.func ho]
    rcases mem_funcCombs_replace hh ho with ⟨rfl, hnc⟩ | ho'
    · have := findFunc_of_mem hd.func hnc
      rw [hh.1] at this
      simp only [this]
      exact hcheck
    · simp only [findFunc_of_mem hd.func ho']
      exact checkComb_refl _ o
  · apply allR_eq_ok.mpr
    intro n hn
    obtain ⟨f, hf, rfl⟩ := List.mem_map.mp hn
    unfold newFuncCheck
    have hf' := List.mem_filter.mp hf
    have : (findFunc (pre ++ oc :: post) f.name).isSome = true := by
      rcases List.mem_append.mp hf'.1 with h | h
      · exact findLast_isSome_of_mem (p := fun d : Comb => d.name == f.name) (List.mem_filter.mpr ⟨by simp [h], hf'.2⟩) (by simp)
      · rcases List.mem_cons.mp h with rfl | h
        · exact findLast_isSome_of_mem (x := oc) (p := fun d : Comb => d.name == f.name)
            (List.mem_filter.mpr ⟨by simp, by rw [← hh.2.2.2]; exact hf'.2⟩) (by simp [hh.1])
        · exact findLast_isSome_of_mem (p := fun d : Comb => d.name == f.name) (List.mem_filter.mpr ⟨by simp [h], hf'.2⟩) (by simp)
    simp [this]

end TLVerif.Lint
