import TLVerif.Lint.Spec
/-! Concrete schemas used as witnesses / satisfiability examples in the property files. -/
namespace TLVerif.Lint.Ex
open TLVerif.Lint

def ref (n : String) : TypeRef := .mk n false .nil
def bref (n : String) : TypeRef := .mk n true .nil
def fld (n : String) (t : TypeRef) : Field := { name := n, mask := none, rep := none, ty := t }
def mfld (n : String) (m : String) (b : Nat) (t : TypeRef) : Field := { name := n, mask := some ⟨m, b⟩, rep := none, ty := t }
def rfld (n : String) (sc : Scale) (el : TypeRef) : Field := { name := n, mask := none, rep := some (sc, el), ty := .empty }
def cons (n : String) (tag : Nat) (ty : String) (targs : List TArg) (fs : List Field) : Comb :=
  { builtin := false, isFunc := false, name := n, tag := tag, tagExplicit := true, tyName := ty, targs := targs, fields := fs, result := .empty }
def func (n : String) (tag : Nat) (fs : List Field) (res : TypeRef) : Comb :=
  { builtin := false, isFunc := true, name := n, tag := tag, tagExplicit := true, tyName := "", targs := [], fields := fs, result := res }
def bi (n : String) (tag : Nat) (ty : String) : Comb :=
  { builtin := true, isFunc := false, name := n, tag := tag, tagExplicit := true, tyName := ty, targs := [], fields := [], result := .empty }

def prelude : Schema := [bi "int" 0xa8509bda "Int", bi "long" 0x22076cba "Long", bi "string" 0xb5286e24 "String"]

def pair : Comb := cons "pair" 10 "Pair" [⟨"X", false⟩, ⟨"Y", false⟩] [fld "a" (ref "X"), fld "b" (ref "Y")]
def foo : Comb := cons "foo" 1 "Foo" [] [fld "x" (ref "int")]
def foo2 : Comb := cons "foo2" 2 "Foo" [] []

/-- L5: `bar p:(pair int %Foo)`; Foo becomes a union and the field becomes `(pair int Foo)`. -/
def l5Old : Schema := prelude ++ [pair, foo, cons "bar" 3 "Bar" [] [fld "p" (.mk "pair" false (.ty (ref "int") (.ty (bref "Foo") .nil)))]]
def l5New : Schema := prelude ++ [pair, foo, foo2, cons "bar" 3 "Bar" [] [fld "p" (.mk "pair" false (.ty (ref "int") (.ty (ref "Foo") .nil)))]]

/-- L5 inside a repeat: `bar n:# p:n*[%Foo]` becomes `n*[Foo]`. -/
def l5rOld : Schema := prelude ++ [foo, cons "bar" 3 "Bar" [] [fld "n" (ref "#"), rfld "p" (.var "n") (bref "Foo")]]
def l5rNew : Schema := prelude ++ [foo, foo2, cons "bar" 3 "Bar" [] [fld "n" (ref "#"), rfld "p" (.var "n") (ref "Foo")]]

/-- L7: `bar p:%Foo` becomes `bar p:Foo`. -/
def l7Old : Schema := prelude ++ [foo, cons "bar" 3 "Bar" [] [fld "p" (bref "Foo")]]
def l7New : Schema := prelude ++ [foo, cons "bar" 3 "Bar" [] [fld "p" (ref "Foo")]]

/-- repeat element / scale changed. -/
def repOld : Schema := prelude ++ [cons "foo" 1 "Foo" [] [fld "n" (ref "#"), fld "m" (ref "#"), rfld "xs" (.var "n") (ref "int")]]
def repElNew : Schema := prelude ++ [cons "foo" 1 "Foo" [] [fld "n" (ref "#"), fld "m" (ref "#"), rfld "xs" (.var "n") (ref "long")]]
def repScNew : Schema := prelude ++ [cons "foo" 1 "Foo" [] [fld "n" (ref "#"), fld "m" (ref "#"), rfld "xs" (.var "m") (ref "int")]]

/-- a type declared after its user loses a template argument: `p:(pair int int)` becomes `p:(pair int)`. -/
def fewOld : Schema := prelude ++ [cons "bar" 3 "Bar" [] [fld "p" (.mk "pair" false (.ty (ref "int") (.ty (ref "int") .nil)))], pair]
def fewNew : Schema := prelude ++ [cons "bar" 3 "Bar" [] [fld "p" (.mk "pair" false (.ty (ref "int") .nil))],
  cons "pair" 10 "Pair" [⟨"X", false⟩] [fld "a" (ref "X")]]

/-- tag changed. -/
def tagOld : Schema := prelude ++ [foo, cons "bar" 3 "Bar" [] [fld "p" (ref "Foo")]]
def tagNew : Schema := prelude ++ [cons "foo" 2 "Foo" [] [fld "x" (ref "int")], cons "bar" 3 "Bar" [] [fld "p" (ref "Foo")]]

/-- size field gets a mask bit. -/
def sizeOld : Schema := prelude ++ [cons "foo" 1 "Foo" [] [fld "n" (ref "#"), rfld "xs" (.var "n") (ref "int")]]
def sizeNew : Schema := prelude ++ [cons "foo" 1 "Foo" [] [fld "n" (ref "#"), rfld "xs" (.var "n") (ref "int"), mfld "y" "n" 0 (ref "int")]]

/-- constant passed to a `#` template argument. -/
def constOld : Schema := prelude ++ [cons "t" 5 "T" [⟨"n", true⟩] [mfld "a" "n" 1 (ref "int")],
  cons "foo" 1 "Foo" [] [fld "x" (.mk "T" false (.arith 5 .nil))]]
def constNew : Schema := prelude ++ [cons "t" 5 "T" [⟨"n", true⟩] [mfld "a" "n" 1 (ref "int"), mfld "b" "n" 0 (ref "int")],
  cons "foo" 1 "Foo" [] [fld "x" (.mk "T" false (.arith 5 .nil))]]

/-- a well-behaved base: `obj m:# a:m.0?int b:long`, `@any get id:int = Obj`. -/
def obj : Comb := cons "obj" 7 "Obj" [] [fld "m" (ref "#"), mfld "a" "m" 0 (ref "int"), fld "b" (ref "long")]
def getF : Comb := func "get" 9 [fld "id" (ref "int")] (ref "Obj")
def base : Schema := prelude ++ [foo, obj, getF]

end TLVerif.Lint.Ex
