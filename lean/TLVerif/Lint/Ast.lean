/-! Schema AST fragment seen by the backward-compatibility linter (mirrors `internal/tlast` structs:
`TypeRef{Type,Args,Bare}`, `ArithmeticOrType`, `Field{FieldName,Mask,IsRepeated,ScaleRepeat,FieldType}`,
`Combinator{Builtin,IsFunction,Construct,TemplateArguments,Fields,TypeDecl,FuncDecl}`).
Names are the `Name.String()` form (`ns.name`); the parser never produces a dot inside a part, so string
equality coincides with `tlast.Name` equality. Core Lean only. -/
namespace TLVerif.Lint

mutual
  /-- `tlast.TypeRef`: head name, `%`-flag exactly as the parser sets it, arguments. -/
  inductive TypeRef where
    | mk (name : String) (bare : Bool) (args : Args)
  /-- `[]tlast.ArithmeticOrType` as a plain (non-nested) list so that structural recursion works. -/
  inductive Args where
    | nil
    | arith (n : Nat) (rest : Args)
    | ty (t : TypeRef) (rest : Args)
end

instance : Inhabited TypeRef := ⟨.mk "" false .nil⟩

def TypeRef.name : TypeRef → String | .mk n _ _ => n
def TypeRef.bare : TypeRef → Bool | .mk _ b _ => b
def TypeRef.args : TypeRef → Args | .mk _ _ a => a

def Args.length : Args → Nat
  | .nil => 0
  | .arith _ r => r.length + 1
  | .ty _ r => r.length + 1

/-- The empty reference (`FuncDecl` of a type constructor, `FieldType` of a repeated field). -/
def TypeRef.empty : TypeRef := .mk "" false .nil

mutual
  def TypeRef.beq : TypeRef → TypeRef → Bool
    | .mk n b a, .mk n' b' a' => n == n' && b == b' && Args.beq a a'
  def Args.beq : Args → Args → Bool
    | .nil, .nil => true
    | .arith n r, .arith n' r' => n == n' && Args.beq r r'
    | .ty t r, .ty t' r' => TypeRef.beq t t' && Args.beq r r'
    | _, _ => false
end

structure Mask where
  name : String
  bit : Nat
  deriving DecidableEq, Repr

inductive Scale where
  | implicit            -- `[T]` (size is the previous anonymous `#` field or the last template argument)
  | arith (n : Nat)     -- `5*[T]`
  | var (name : String) -- `n*[T]`
  deriving DecidableEq, Repr

structure Field where
  name : String
  mask : Option Mask
  /-- `IsRepeated` + `ScaleRepeat` restricted to the only form tlgen accepts: one anonymous type in brackets. -/
  rep : Option (Scale × TypeRef)
  /-- `FieldType` (the empty reference for repeated fields, exactly as the parser leaves it). -/
  ty : TypeRef

structure TArg where
  name : String
  isNat : Bool
  deriving DecidableEq, Repr

structure Comb where
  builtin : Bool
  isFunc : Bool
  name : String       -- Construct.Name
  tag : Nat           -- Construct.ID (explicit or CRC32 computed by the parser)
  tagExplicit : Bool
  tyName : String     -- TypeDecl.Name ("" for functions)
  targs : List TArg
  fields : List Field
  result : TypeRef    -- FuncDecl (empty for types)

abbrev Schema := List Comb

def Field.beq (a b : Field) : Bool :=
  a.name == b.name && a.mask == b.mask &&
  (match a.rep, b.rep with
   | none, none => true
   | some (s, t), some (s', t') => s == s' && TypeRef.beq t t'
   | _, _ => false) && TypeRef.beq a.ty b.ty

end TLVerif.Lint
