import TLVerif.Util.Hex
import TLVerif.Lint.Core
import TLVerif.Lint.WireGen
/-! Line-protocol handler for the `lint` family. A schema is one comma-separated token string
(see `checks/lintlib.py` for the grammar); every line is a self-contained case. -/
namespace TLVerif.Lint
open TLVerif.Util

abbrev P (α : Type) := List String → Option (α × List String)

def pTok : P String
  | [] => none
  | t :: r => some (t, r)

def pNat : P Nat
  | [] => none
  | t :: r => t.toNat?.map (fun n => (n, r))

def unName (s : String) : String := if s == "~" then "" else s

mutual
  def pRef : Nat → P TypeRef
    | 0, _ => none
    | fuel + 1, toks =>
      match toks with
      | n :: b :: k :: r =>
        match k.toNat? with
        | none => none
        | some na =>
          match pArgs fuel na r with
          | none => none
          | some (args, r') => some (.mk (unName n) (b == "1") args, r')
      | _ => none
  def pArgs : Nat → Nat → P Args
    | 0, _, _ => none
    | _ + 1, 0, toks => some (.nil, toks)
    | fuel + 1, na + 1, toks =>
      match toks with
      | [] => none
      | t :: r =>
        if t.startsWith "=" then
          match (t.drop 1).toString.toNat? with
          | none => none
          | some v => match pArgs fuel na r with
            | none => none
            | some (rest, r') => some (.arith v rest, r')
        else
          match pRef fuel toks with
          | none => none
          | some (ty, r1) => match pArgs fuel na r1 with
            | none => none
            | some (rest, r') => some (.ty ty rest, r')
end

def pField (fuel : Nat) : P Field := fun toks =>
  match toks with
  | n :: m :: r =>
    let mk : Option (Option Mask × List String) :=
      if m == "m" then
        match r with
        | mn :: b :: r' => b.toNat?.map (fun bit => (some { name := mn, bit := bit }, r'))
        | _ => none
      else if m == "-" then some (none, r) else none
    match mk with
    | none => none
    | some (mask, r1) =>
      match r1 with
      | "-" :: r2 =>
        match pRef fuel r2 with
        | none => none
        | some (ty, r3) => some ({ name := unName n, mask := mask, rep := none, ty := ty }, r3)
      | k :: r2 =>
        let sc : Option (Scale × List String) :=
          if k == "ri" then some (.implicit, r2)
          else if k == "ra" then (match r2 with | v :: r' => v.toNat?.map (fun x => (Scale.arith x, r')) | _ => none)
          else if k == "rv" then (match r2 with | v :: r' => some (Scale.var v, r') | _ => none)
          else none
        match sc with
        | none => none
        | some (scale, r3) =>
          match pRef fuel r3 with
          | none => none
          | some (el, r4) =>
            match pRef fuel r4 with
            | none => none
            | some (ty, r5) => some ({ name := unName n, mask := mask, rep := some (scale, el), ty := ty }, r5)
      | _ => none
  | _ => none

def pMany {α : Type} (p : P α) : Nat → P (List α)
  | 0, toks => some ([], toks)
  | n + 1, toks =>
    match p toks with
    | none => none
    | some (x, r) => match pMany p n r with
      | none => none
      | some (xs, r') => some (x :: xs, r')

def pTArg : P TArg
  | n :: k :: r => some ({ name := n, isNat := k == "n" }, r)
  | _ => none

def hexNat (s : String) : Option Nat :=
  s.toList.foldl (fun acc c => match acc, hexVal c with
    | some a, some v => some (a * 16 + v)
    | _, _ => none) (some 0)

def pComb (fuel : Nat) : P Comb := fun toks =>
  match toks with
  | kind :: name :: tag :: tyName :: r =>
    match hexNat (tag.drop 1).toString, pNat r with
    | some tg, some (nt, r1) =>
      match pMany pTArg nt r1 with
      | none => none
      | some (targs, r2) =>
        match pNat r2 with
        | none => none
        | some (nf, r3) =>
          match pMany (pField fuel) nf r3 with
          | none => none
          | some (fields, r4) =>
            match pRef fuel r4 with
            | none => none
            | some (res, r5) =>
              if kind == "t" || kind == "f" || kind == "b" then
                some ({ builtin := kind == "b", isFunc := kind == "f", name := name, tag := tg,
                        tagExplicit := tag.startsWith "x", tyName := unName tyName, targs := targs,
                        fields := fields, result := res }, r5)
              else none
    | _, _ => none
  | _ => none

def parseSchema (enc : String) : Option Schema :=
  let toks := enc.splitOn ","
  let fuel := toks.length + 1
  match pNat toks with
  | none => none
  | some (n, r) => match pMany (pComb fuel) n r with
    | some (s, []) => some s
    | _ => none

def vappend : VList → VList → VList
  | .nil, b => b
  | .cons v r, b => .cons v (vappend r b)

def verdictStr : R → String
  | .ok => "acc"
  | .rej => "rej"
  | .panic => "panic"

def handle (op : String) (args : List String) : String :=
  match op, args with
  | "check", [o, n] =>
    match parseSchema o, parseSchema n with
    | some os, some ns =>
      if (layout os).oof || (layout ns).oof then "fuel"
      else verdictStr (lintCore os ns)
    | _, _ => "bad-op"
  | "compat", [o, n] =>
    match parseSchema o, parseSchema n with
    | some os, some ns =>
      if wireCompat os ns then "wc=1"
      else "wc=0:" ++ "+".intercalate (dedup (compatReasons os ns))
    | _, _ => "bad-op"
  | "wire", [o, n, root, seed, _, _] =>
    match parseSchema o, parseSchema n, seed.toNat? with
    | some os, some ns, some sd =>
      let r : Rng := ⟨sd * 2654435761 + 12345⟩
      let oldNew : Option (Option Bytes × Option Bytes) :=
        match findFunc os root with
        | some f =>
          (genFieldsWith (genTy 6 os) f Env.empty 0 f.fields r).map (fun p =>
            let bo := encFunc os true f p.1
            let bn := (findFunc ns root).bind (fun f' =>
              match encFunc ns false f' p.1 with
              | some b => some b
              | none =>
                -- appended arguments: the appended field mask is read as zero
                match encFunc ns false f' (vappend p.1 (.cons (.nat 0) .nil)), bo with
                | some b, some o => if b == o ++ [0, 0, 0, 0] then some o else none
                | _, _ => none)
            (bo, bn))
        | none =>
          (genTy 7 os (.mk root false .nil) r).map (fun p =>
            (encTy os true (.mk root false .nil) p.1, encTy ns false (.mk root false .nil) p.1))
      match oldNew with
      | none => "novalue"
      | some (none, _) => "novalue"
      | some (some bo, bn) =>
        "ok " ++ hexOfBytes bo ++ " " ++ (match bn with | some b => hexOfBytes b | none => "err")
    | _, _, _ => "bad-op"
  | _, _ => "bad-op"

end TLVerif.Lint
