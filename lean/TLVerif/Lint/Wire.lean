import TLVerif.Lint.Spec
import TLVerif.Prim.TL1String
/-! Semantic side of C28, independent of the linter: a TL1 value encoder for the schema fragment
(`#`, `int`, `long`, `string`, constructors with fields, local and template field masks, bare / boxed references,
type applications with `Type` and `#` arguments, `[ ]` repeats, unions) and the decidable relation
`wireCompat old new`. Core Lean only. -/
namespace TLVerif.Lint

abbrev Bytes := List UInt8

def le32 (n : Nat) : Bytes :=
  [UInt8.ofNat n, UInt8.ofNat (n >>> 8), UInt8.ofNat (n >>> 16), UInt8.ofNat (n >>> 24)]

mutual
  /-- untyped values: a `#`, a primitive payload, a constructor with one entry per field (entries of absent
  optional fields are ignored; missing trailing entries mean "absent"), an array. -/
  inductive Val where
    | nat (n : Nat)
    | prim (bs : Bytes)
    | ctor (cons : String) (fields : VList)
    | arr (elems : VList)
    | absent
  inductive VList where
    | nil
    | cons (v : Val) (rest : VList)
end

/-- evaluation environment inside one combinator. -/
structure Env where
  tys : List (String × TypeRef)   -- `Type` template arguments (closed references)
  nats : List (String × Nat)      -- `#` template arguments and local `#` fields read so far
  prevAnon : Option Nat           -- value of the immediately preceding anonymous `#` field (size of a following `[t]`)
  lastNat : Option Nat            -- value of the last template argument if it is a `#` (size of a leading `[t]`)

def Env.empty : Env := { tys := [], nats := [], prevAnon := none, lastNat := none }

mutual
  /-- closes a reference: `Type` variables are replaced by their (closed) bindings, `#` variables passed as
  arguments by their values (as arithmetic constants). -/
  def substRef (e : Env) : TypeRef → TypeRef
    | .mk n b args => match e.tys.lookup n with
      | some t => t
      | none => .mk n b (substArgs e args)
  def substArgs (e : Env) : Args → Args
    | .nil => .nil
    | .arith n r => .arith n (substArgs e r)
    | .ty t r => match e.nats.lookup t.name with
      | some v => .arith v (substArgs e r)
      | none => .ty (substRef e t) (substArgs e r)
end

/-- binds the template arguments of a combinator to the (closed) arguments of a reference. -/
def bindTargs : List TArg → Args → Env → Option Env
  | [], .nil, e => some e
  | a :: as, .arith v r, e =>
    if a.isNat then bindTargs as r { e with nats := (a.name, v) :: e.nats, lastNat := some v } else none
  | a :: as, .ty t r, e =>
    if a.isNat then none else bindTargs as r { e with tys := (a.name, t) :: e.tys, lastNat := none }
  | _, _, _ => none

/-- is the field present? `none` if its mask name is unbound. -/
def present (e : Env) (f : Field) : Option Bool :=
  match f.mask with
  | none => some true
  | some m => (e.nats.lookup m.name).map (fun v => v.testBit m.bit)

def isNatField (f : Field) : Bool := f.ty.name == "#" && f.rep.isNone

/-- environment after a field (`v` = the value read for a present `#` field, 0 for an absent one). -/
def Env.after (e : Env) (f : Field) (v : Option Nat) : Env :=
  if isNatField f then
    let k := v.getD 0
    { e with nats := if f.name == "" then e.nats else (f.name, k) :: e.nats,
             prevAnon := if f.name == "" then v else none }
  else { e with prevAnon := none }

def repCount (e : Env) : Scale → Option Nat
  | .arith n => some n
  | .var x => e.nats.lookup x
  | .implicit => match e.prevAnon with
    | some v => some v
    | none => e.lastNat

def usedAsScale (c : Comb) (i : Nat) (name : String) : Bool :=
  c.fields.any (fun f => match f.rep with
    | some (.var x, _) => x == name
    | _ => false) ||
  (match c.fields[i + 1]? with
   | some f => (match f.rep with | some (.implicit, _) => true | _ => false)
   | none => false)

/-- a local `#` field that is only ever used as a field mask inside its combinator: not a size, never passed
to a type (in field types, repeat elements or the result). -/
def maskOnly (c : Comb) (i : Nat) : Bool :=
  match c.fields[i]? with
  | none => false
  | some f => isNatField f && f.name != "" && !usedAsScale c i f.name &&
    c.fields.all (fun g => !passedAsArg f.name g.ty &&
      (match g.rep with | some (_, el) => !passedAsArg f.name el && el.name != f.name | none => true)) &&
    !passedAsArg f.name c.result

/-- all fields guarded by bits of field `name` (the bits the schema gives meaning to, for a mask-only field). -/
def maskBits (c : Comb) (name : String) : List Nat :=
  c.fields.filterMap (fun f => match f.mask with
    | some m => if m.name == name then some m.bit else none
    | none => none)

def bitsWithin (v : Nat) (allowed : List Nat) : Bool :=
  (List.range 32).all (fun b => !v.testBit b || allowed.contains b)

def findCons (s : Schema) (n : String) : Option Comb := findLast (fun c => c.name == n) (s.filter isTypeComb)

/-- the fields left when a value has no more entries must all be absent (an absent `#` field counts as 0). -/
def restAbsent : Env → List Field → Bool
  | _, [] => true
  | e, f :: fs => present e f == some false && restAbsent (e.after f none) fs

/-- primitives are fixed by name: `some r` = the name is a primitive and `r` is the encoding attempt. -/
def primEnc (n : String) (v : Val) : Option (Option Bytes) :=
  if n == "#" then some (match v with
    | .nat k => if k < 4294967296 then some (le32 k) else none
    | _ => none)
  else if n == "int" then some (match v with
    | .prim bs => if bs.length == 4 then some bs else none
    | _ => none)
  else if n == "long" then some (match v with
    | .prim bs => if bs.length == 8 then some bs else none
    | _ => none)
  else if n == "string" then some (match v with
    | .prim bs => Prim.stringWrite bs
    | _ => none)
  else none

/-- how a head name was resolved: as a constructor name (bare), or as a type name with that many constructors. -/
inductive Pick where
  | byCons
  | byType (count : Nat)

/-- the combinator a value `cn …` of head `n` is encoded with. -/
def pickComb (s : Schema) (n cn : String) : Option (Comb × Pick) :=
  match findCons s n with
  | some c => if c.name == cn then some (c, .byCons) else none
  | none => (findLast (fun c => c.name == cn) (typeCombs s n)).map (fun c => (c, .byType (typeCombs s n).length))

/-- boxed references prepend the constructor tag; a bare reference to a type needs a single constructor. -/
def wrapBody (p : Pick) (b : Bool) (c : Comb) (body : Bytes) : Option Bytes :=
  match p with
  | .byCons => some body
  | .byType k => if b then (if k == 1 then some body else none) else some (le32 c.tag ++ body)

/-- the strictness test for a `#` field (only "old values" are constrained). -/
def strictOk (strict : Bool) (c : Comb) (i : Nat) (f : Field) (k : Nat) : Bool :=
  !(strict && isNatField f && maskOnly c i && !bitsWithin k (maskBits c f.name))

def natOf : Val → Option Nat
  | .nat k => some k
  | _ => none

mutual
  /-- TL1 encoding of a value of a closed reference. `strict`: fail when a mask-only `#` field sets a bit the
  schema gives no meaning to (this is how "old values" are delimited). -/
  def encTy (s : Schema) (strict : Bool) : TypeRef → Val → Option Bytes
    | .mk n b args, v =>
      match primEnc n v with
      | some r => r
      | none =>
        match v with
        | .ctor cn fs =>
          (match pickComb s n cn with
           | none => none
           | some (c, p) =>
             match bindTargs c.targs args Env.empty with
             | none => none
             | some e => (encFields s strict c e 0 c.fields fs).bind (wrapBody p b c))
        | _ => none
  def encFields (s : Schema) (strict : Bool) (c : Comb) (e : Env) (i : Nat) : List Field → VList → Option Bytes
    | [], .nil => some []
    | [], .cons _ _ => none
    | f :: fs, .nil => if restAbsent e (f :: fs) then some [] else none
    | f :: fs, .cons v rest =>
      match present e f with
      | none => none
      | some false => encFields s strict c (e.after f none) (i + 1) fs rest
      | some true =>
        match f.rep with
        | some (sc, el) =>
          (match repCount e sc, v with
           | some cnt, .arr elems =>
             (match encElems s strict (substRef e el) cnt elems with
              | none => none
              | some bs => (encFields s strict c (e.after f none) (i + 1) fs rest).map (fun r => bs ++ r))
           | _, _ => none)
        | none =>
          match encTy s strict (substRef e f.ty) v with
          | none => none
          | some bs =>
            if strictOk strict c i f ((natOf v).getD 0) then
              (encFields s strict c (e.after f (natOf v)) (i + 1) fs rest).map (fun r => bs ++ r)
            else none
  def encElems (s : Schema) (strict : Bool) (t : TypeRef) : Nat → VList → Option Bytes
    | 0, .nil => some []
    | k + 1, .cons v rest =>
      (match encTy s strict t v with
       | none => none
       | some bs => (encElems s strict t k rest).map (fun r => bs ++ r))
    | _, _ => none
end

/-- a function call: tag, then the arguments. -/
def encFunc (s : Schema) (strict : Bool) (f : Comb) (args : VList) : Option Bytes :=
  (encFields s strict f Env.empty 0 f.fields args).map (fun b => le32 f.tag ++ b)

/-! ### wireCompat -/

/-- `new = old ++ extras` (field by field, including `%` flags, masks and repeats). -/
def fieldsPrefix : List Field → List Field → Option (List Field)
  | [], ns => some ns
  | _ :: _, [] => none
  | o :: os, n :: ns => if Field.beq o n then fieldsPrefix os ns else none

/-- an appended field that no old value can make present: guarded by a bit that no old field uses, of a
mask-only local `#` field of the old combinator. -/
def safeExtra (c : Comb) (f : Field) : Bool :=
  match f.mask with
  | none => false
  | some m =>
    (firstIdx (fun a : TArg => a.name == m.name) c.targs).isNone &&
    (match firstIdx (fun g : Field => g.name == m.name) c.fields with
     | none => false
     | some k => maskOnly c k && !(maskBits c m.name).contains m.bit && m.bit < 32 &&
       (lastIdx (fun g : Field => g.name == m.name) c.fields == some k))

def combCompat (c c' : Comb) : Bool :=
  c'.tag == c.tag && c'.targs == c.targs && c'.name == c.name &&
  (match fieldsPrefix c.fields c'.fields with
   | some ex => ex.all (safeExtra c)
   | none => false) &&
  TypeRef.beq c.result c'.result

def allDistinctB (s : Schema) : Bool := decide ((s.map (·.name)).Nodup)

/-- decidable, linter-independent sufficient condition for TL1 wire compatibility of `new` with `old`. -/
def wireCompat (old new : Schema) : Bool :=
  allDistinctB old && allDistinctB new &&
  (old.filter isTypeComb).all (fun c => match findLast (fun d => d.name == c.name) (typeCombs new c.tyName) with
    | some c' => combCompat c c'
    | none => false) &&
  (typeOrder old).all (fun T => (findCons new T).isNone && (findCons old T).isNone &&
    (match typeCombs old T with
     | [c] => (typeCombs new T).length ≤ 1 || !usedBareSomewhere old c
     | _ => true)) &&
  (funcCombs old).all (fun f => match findFunc new f.name with
    | some f' => combCompat f f'
    | none => false)

end TLVerif.Lint
