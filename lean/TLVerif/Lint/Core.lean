import TLVerif.Lint.Ast
/-! `lintCore`: executable model of `tlcodegen.CheckBackwardCompatibility` (internal/tlcodegen/tlgen.go),
written the way the Go code is written: `extractTypes`, the parts of `checkNatUsages` the linter reads
(`TypeNameAndArgIndexToBitsUsedInLayout` = two-pass DFS `fillUsages`, `CombinatorsNatFieldIndexToBitsUsed`,
`TypeNameAndArgToAffectingCombinatorsNatFields`, `TypeNameAndArgIndexToBitsUsedByNat`),
`checkCombinatorsBackwardCompatibility` (`compareTypes`, field-mask rules, function-argument rules,
`checkIsSelectedBitAvailable`/`getUsedBitsForFieldMask`), `checkBoxUsage`/`checkAllTypeRefs`.
The Go code returns the first error; only the verdict is modelled: `ok` (nil), `rej` (an error), `panic`
(index out of range in `compareTypes` when the new reference has fewer arguments). Sets (Go maps to `bool`)
are lists used through membership / emptiness only. Core Lean only. -/
namespace TLVerif.Lint

inductive R where
  | ok | rej | panic
  deriving DecidableEq, Repr

/-- sequencing: the first non-`ok` outcome wins (Go: early `return err`). -/
def R.andThen : R → R → R
  | .ok, b => b
  | a, _ => a

def allR {α : Type} (f : α → R) : List α → R
  | [] => .ok
  | x :: xs => (f x).andThen (allR f xs)

def rejIf (b : Bool) : R := if b then .rej else .ok

/-- last element satisfying `p` (Go: a map filled in a loop, the last write wins). -/
def findLast {α : Type} (p : α → Bool) : List α → Option α
  | [] => none
  | x :: xs => match findLast p xs with
    | some y => some y
    | none => if p x then some x else none

def lastIdxAux {α : Type} (p : α → Bool) : List α → Nat → Option Nat
  | [], _ => none
  | x :: xs, i => match lastIdxAux p xs (i + 1) with
    | some j => some j
    | none => if p x then some i else none

def lastIdx {α : Type} (p : α → Bool) (l : List α) : Option Nat := lastIdxAux p l 0

def firstIdxAux {α : Type} (p : α → Bool) : List α → Nat → Option Nat
  | [], _ => none
  | x :: xs, i => if p x then some i else firstIdxAux p xs (i + 1)

def firstIdx {α : Type} (p : α → Bool) (l : List α) : Option Nat := firstIdxAux p l 0

/-- keeps the first occurrence of every string (Go: `order = append(order, name)` when first seen). -/
def dedup : List String → List String
  | [] => []
  | x :: xs => x :: (dedup xs).filter (fun y => y != x)

/-! ### extractTypes -/

def isTypeComb (c : Comb) : Bool := !c.builtin && !c.isFunc

def typeCombs (s : Schema) (T : String) : List Comb := (s.filter isTypeComb).filter (fun c => c.tyName == T)

def typeOrder (s : Schema) : List String := dedup ((s.filter isTypeComb).map (·.tyName))

def funcCombs (s : Schema) : List Comb := s.filter (·.isFunc)

def funcOrder (s : Schema) : List String := (funcCombs s).map (·.name)

def findFunc (s : Schema) (n : String) : Option Comb := findLast (fun c => c.name == n) (funcCombs s)

/-- the function map has one entry per name: the last declaration. -/
def lastByName : List Comb → List Comb
  | [] => []
  | c :: cs => if cs.any (fun d => d.name == c.name) then lastByName cs else c :: lastByName cs

/-- every combinator that gets an entry in `combinatorsNatFieldToAffectedBits`, in the order of the writes. -/
def natCombs (s : Schema) : List Comb := (typeOrder s).flatMap (typeCombs s) ++ lastByName (funcCombs s)

/-! ### checkNatUsages -/

/-- `typeRefsToTypeNames`: type names and constructor names to the type name. -/
def resolvePairs (s : Schema) : List (String × String) :=
  (typeOrder s).flatMap (fun T => (T, T) :: (typeCombs s T).map (fun c => (c.name, T)))

def resolve (s : Schema) (n : String) : Option String :=
  (findLast (fun p => p.1 == n) (resolvePairs s)).map (·.2)

abbrev Key := String × Nat

mutual
  /-- positions `(type, argument index)` at which the name `searching` is passed as a type argument inside a
  reference (the common skeleton of `iterateTypeRefArgs` / `searchNat`): arguments equal to the name are
  matched (only if the head resolves to a declared type), other arguments are entered recursively. -/
  def matchesRef (res : String → Option String) (searching : String) : TypeRef → List Key
    | .mk n _ args => matchesArgs res searching (res n) 0 args
  def matchesArgs (res : String → Option String) (searching : String) (tn : Option String) (idx : Nat) : Args → List Key
    | .nil => []
    | .arith _ r => matchesArgs res searching tn (idx + 1) r
    | .ty t r =>
      (if t.name == searching then (match tn with | some T => [(T, idx)] | none => [])
       else matchesRef res searching t) ++ matchesArgs res searching tn (idx + 1) r
end

/-- state of the `fillUsages` DFS. `bits`/`aff` are relations (sets of pairs). -/
structure St where
  visited : List Key
  bits : List (Key × Nat)   -- typeNameToTypeArguments
  aff : List (Key × Key)    -- typeArgumentToAffectedTypeArguments
  oof : Bool                -- recursion budget exhausted (cannot happen: the budget exceeds the number of keys)
  panicked : Bool           -- `TemplateArguments[i]` evaluated with `i` out of range (Go: index panic)

def St.bitsOf (st : St) (k : Key) : List Nat := (st.bits.filter (fun p => p.1 == k)).map (·.2)
def St.affOf (st : St) (k : Key) : List Key := (st.aff.filter (fun p => p.1 == k)).map (·.2)

/-- one field inside `fillUsages(T, i)`: the mask bit, then `iterateTypeRefArgs` over the field type. -/
def fillField (rec : St → String → Nat → St) (res : String → Option String) (key : Key)
    (searching : Option String) (targName : Option String) (st : St) (f : Field) : St :=
  let st := match f.mask, targName with
    | some m, some tn => if m.name == tn then { st with bits := (key, m.bit) :: st.bits } else st
    | some _, none => { st with panicked := true }
    | none, _ => st
  match searching with
  | none => { st with panicked := true }
  | some sname =>
    (matchesRef res sname f.ty).foldl (fun st k =>
      let st := if st.visited.contains k then st else rec st k.1 k.2
      { st with bits := (st.bitsOf k).map (fun b => (key, b)) ++ st.bits,
                aff := (key, k) :: (st.affOf k).map (fun a => (key, a)) ++ st.aff }) st

def fill : Nat → Schema → St → String → Nat → St
  | 0, _, st, _, _ => { st with oof := true }
  | fuel + 1, s, st, T, i =>
    if st.visited.contains (T, i) then st else
    let st := { st with visited := (T, i) :: st.visited }
    let combs := typeCombs s T
    let searching := match combs.head? with
      | some c => (c.targs[i]?).map (·.name)
      | none => none
    combs.foldl (fun st c =>
      c.fields.foldl (fillField (fill fuel s) (resolve s) (T, i) searching ((c.targs[i]?).map (·.name))) st) st

def natRoots (s : Schema) : List Key :=
  (typeOrder s).flatMap (fun T => match (typeCombs s T).head? with
    | none => []
    | some c => (c.targs.zipIdx.filter (fun p => p.1.isNat)).map (fun p => (T, p.2)))

mutual
  def maxArityRef : TypeRef → Nat
    | .mk _ _ args => max args.length (maxArityArgs args)
  def maxArityArgs : Args → Nat
    | .nil => 0
    | .arith _ r => maxArityArgs r
    | .ty t r => max (maxArityRef t) (maxArityArgs r)
end

def maxArity (s : Schema) : Nat :=
  s.foldl (fun m c => c.fields.foldl (fun m f => max m (maxArityRef f.ty)) (max m (max c.targs.length (maxArityRef c.result)))) 0

/-- more than the number of distinct `(type, index)` keys `fillUsages` can be called with. -/
def dfsFuel (s : Schema) : Nat := (s.length + 1) * (maxArity s + 1) + 1

def dfsPass (s : Schema) (st : St) : St := (natRoots s).foldl (fun st k => fill (dfsFuel s) s st k.1 k.2) st

/-- the two passes of `fillUsages` ("repeat to get all values missed in recursion"). -/
def layout (s : Schema) : St :=
  let st1 := dfsPass s { visited := [], bits := [], aff := [], oof := false, panicked := false }
  dfsPass s { st1 with visited := [] }

def natFieldIdxs (c : Comb) : List Nat :=
  (c.fields.zipIdx.filter (fun p => p.1.ty.name == "#")).map (·.2)

/-- the references searched for uses of nat field `i`: types of the later fields, and the result of a function. -/
def laterRefs (c : Comb) (i : Nat) : List TypeRef :=
  (c.fields.drop (i + 1)).map (·.ty) ++ (if c.isFunc then [c.result] else [])

def directBits (c : Comb) (i : Nat) (fname : String) : List Nat :=
  (c.fields.drop (i + 1)).filterMap (fun f => match f.mask with
    | some m => if m.name == fname then some m.bit else none
    | none => none)

def natMatches (s : Schema) (c : Comb) (i : Nat) : List Key :=
  match c.fields[i]? with
  | none => []
  | some fi => if fi.ty.name != "#" then [] else (laterRefs c i).flatMap (matchesRef (resolve s) fi.name)

/-- `combinatorsNatFieldToAffectedBits[c][i]` as written while visiting `c`. -/
def cbOf (s : Schema) (L : St) (c : Comb) (i : Nat) : List Nat :=
  match c.fields[i]? with
  | none => []
  | some fi => if fi.ty.name != "#" then [] else
    directBits c i fi.name ++ (natMatches s c i).flatMap L.bitsOf

/-- `CombinatorsNatFieldIndexToBitsUsed[name][i]` (the last combinator written under that name). -/
def cbByName (s : Schema) (L : St) (name : String) (i : Nat) : List Nat :=
  match findLast (fun c => c.name == name) (natCombs s) with
  | some c => cbOf s L c i
  | none => []

def matchHits (L : St) (k : Key) (ms : List Key) : Bool :=
  ms.any (fun m => m == k || (L.affOf m).contains k)

/-- `TypeNameAndArgToAffectingCombinatorsNatFields[T][a]`. -/
def affectingOf (s : Schema) (L : St) (k : Key) : List (String × Nat) :=
  (natCombs s).flatMap (fun c =>
    ((natFieldIdxs c).filter (fun i => matchHits L k (natMatches s c i))).map (fun i => (c.name, i)))

/-- `TypeNameAndArgIndexToBitsUsedByNat[T][a]`. -/
def visitingOf (s : Schema) (L : St) (k : Key) : List Nat :=
  (natCombs s).flatMap (fun c =>
    ((natFieldIdxs c).filter (fun i => matchHits L k (natMatches s c i))).flatMap (fun i => cbByName s L c.name i))

/-- `getUsedBitsForFieldMask(newCombinator, field with mask m, oldInfo, newInfo)`. -/
def usedBits (os : Schema) (ol : St) (ns : Schema) (nl : St) (c : Comb) (m : Mask) : List Nat :=
  match firstIdx (fun a : TArg => a.name == m.name) c.targs with
  | some ti =>
    let outer := visitingOf os ol (c.tyName, ti)
    if !outer.isEmpty then outer else
    let inner := ol.bitsOf (c.tyName, ti)
    if !inner.isEmpty then inner else
    (affectingOf ns nl (c.tyName, ti)).flatMap (fun p => cbByName os ol p.1 p.2)
  | none =>
    match firstIdx (fun f : Field => f.name == m.name) c.fields with
    | some k => cbByName os ol c.name k
    | none => []

/-! ### checkCombinatorsBackwardCompatibility -/

/-- `fillMapping`: field names to their index, template arguments to `-(i+1)`; later writes win. -/
def mapping (c : Comb) (n : String) : Option Int :=
  match lastIdx (fun a : TArg => a.name == n) c.targs with
  | some i => some (-((i : Int) + 1))
  | none => (lastIdx (fun f : Field => f.name == n) c.fields).map (fun i => (i : Int))

/-- the head test of `compareTypes`: local names (fields / template arguments) must map to the same index,
other names must be equal. -/
def headBad (ni oi : Option Int) (nn on : String) : Bool :=
  match ni, oi with
  | some _, none => true
  | none, some _ => true
  | some a, some b => a != b
  | none, none => nn != on

mutual
  /-- `compareTypes(newType, oldType)`; note that `Bare` is never looked at. -/
  def cmpType (nm om : String → Option Int) : TypeRef → TypeRef → R
    | .mk nn _ na, .mk on _ oa =>
      if headBad (nm nn) (om on) nn on then .rej else cmpArgs nm om na oa
  /-- the loop over `oldType.Args` indexing `newType.Args[i]` (panics when the new list is shorter). -/
  def cmpArgs (nm om : String → Option Int) : Args → Args → R
    | _, .nil => .ok
    | .nil, .arith _ _ => .panic
    | .nil, .ty _ _ => .panic
    | .arith n r, .arith o r' => if n != o then .rej else cmpArgs nm om r r'
    | .arith _ _, .ty _ _ => .rej
    | .ty _ _, .arith _ _ => .rej
    | .ty t r, .ty t' r' => (cmpType nm om t t').andThen (cmpArgs nm om r r')
end

def maskCheck (nm om : String → Option Int) (nf of : Field) : R :=
  match nf.mask, of.mask with
  | none, none => .ok
  | some _, none => .rej
  | none, some _ => .rej
  | some a, some b =>
    if (nm a.name).getD 0 != (om b.name).getD 0 then .rej
    else if a.bit != b.bit then .rej else .ok

def fieldCheck (nm om : String → Option Int) (nf of : Field) : R :=
  (cmpType nm om nf.ty of.ty).andThen (maskCheck nm om nf of)

/-- the loop over the old fields (the new list is at least as long here). -/
def fieldsCheck (nm om : String → Option Int) : List Field → List Field → R
  | _, [] => .ok
  | [], _ :: _ => .panic
  | nf :: ns, of :: os => (fieldCheck nm om nf of).andThen (fieldsCheck nm om ns os)

structure Ctx where
  os : Schema
  ol : St
  ns : Schema
  nl : St

def bitAvailable (x : Ctx) (nc : Comb) (m : Mask) : Bool :=
  !(usedBits x.os x.ol x.ns x.nl nc m).contains m.bit

/-- the final loop over appended fields starting at `firstCombinatorToCheck`. -/
def appendedCheck (x : Ctx) (nc : Comb) (fs : List Field) : R :=
  allR (fun f : Field => match f.mask with
    | none => .rej
    | some m => rejIf (!bitAvailable x nc m)) fs

/-- the `functionCheck` block: returns the verdict of the block and the new `firstCombinatorToCheck`. -/
def funcBlock (x : Ctx) (nc oc : Comb) : R × Nat :=
  let first := oc.fields.length
  let containsFieldMask := oc.fields.any (fun f => f.mask.isSome)
  let containsNats := oc.fields.any (fun f => f.ty.name == "#")
  if nc.fields.length > first && !containsFieldMask then
    if !containsNats then
      match nc.fields[first]? with
      | none => (.ok, first)
      | some fa =>
        if fa.ty.name != "#" then (.rej, first)
        else if nc.fields.length == first + 1 && (cbByName x.ns x.nl nc.name first).isEmpty then (.rej, first + 1)
        else (.ok, first + 1)
    else
      if nc.fields.length > oc.fields.length + 1 then
        match nc.fields[first]? with
        | none => (.ok, first)
        | some fa =>
          if fa.ty.name == "#" && fa.mask.isNone then
            (allR (fun f : Field => match f.mask with
              | none => .rej
              | some m => rejIf (m.name != fa.name)) (nc.fields.drop (first + 1)), first + 1)
          else (.ok, first)
      else (.ok, first)
  else (.ok, first)

def checkComb (x : Ctx) (nc oc : Comb) : R :=
  if nc.fields.length < oc.fields.length then .rej
  else if nc.targs.length < oc.targs.length then .rej
  else
    let nm := mapping nc
    let om := mapping oc
    (fieldsCheck nm om nc.fields oc.fields).andThen <|
    let functionCheck := nc.isFunc && oc.isFunc
    let fb := if functionCheck then funcBlock x nc oc else (.ok, oc.fields.length)
    fb.1.andThen <|
    (appendedCheck x nc (nc.fields.drop fb.2)).andThen <|
    (if functionCheck then cmpType nm om nc.result oc.result else .ok)

/-! ### checkBoxUsage / checkAllTypeRefs -/

mutual
  /-- `checkBoxUsage` (true = error): only the first non-arithmetic argument is followed. -/
  def boxUsage (tyName consName : String) : TypeRef → Bool
    | .mk n b args => (n == tyName && b) || n == consName || boxUsageArgs tyName consName args
  def boxUsageArgs (tyName consName : String) : Args → Bool
    | .nil => false
    | .arith _ r => boxUsageArgs tyName consName r
    | .ty t _ => boxUsage tyName consName t
end

/-- `checkAllTypeRefs(oldTL, checkBoxUsage)`: `FuncDecl` and the field types of every combinator
(the contents of `[ ]` repeats are not visited). -/
def boxCheckAll (s : Schema) (c : Comb) : R :=
  allR (fun d : Comb =>
    (rejIf (boxUsage c.tyName c.name d.result)).andThen
      (allR (fun f : Field => rejIf (boxUsage c.tyName c.name f.ty)) d.fields)) s

/-! ### CheckBackwardCompatibility -/

def typeCheck (x : Ctx) (T : String) : R :=
  let oc := typeCombs x.os T
  let nc := typeCombs x.ns T
  (allR (fun c : Comb => match findLast (fun d => d.name == c.name) nc with
      | none => .rej
      | some c' => checkComb x c' c) oc).andThen <|
  (rejIf (oc.length > nc.length && nc.length != 0)).andThen <|
  (match oc with
   | [c] => if nc.length > 1 then boxCheckAll x.os c else .ok
   | _ => .ok)

def funcCheck (x : Ctx) (n : String) : R :=
  match findFunc x.os n with
  | none => .ok
  | some o => match findFunc x.ns n with
    | none => .rej
    | some f => checkComb x f o

def newFuncCheck (x : Ctx) (n : String) : R :=
  if (findFunc x.os n).isSome then .ok else
  match findFunc x.ns n with
  | none => .ok
  | some f => match f.fields with
    | [] => .ok
    | f0 :: _ => rejIf (f0.ty.name != "#")

def mkCtx (old new : Schema) : Ctx := { os := old, ol := layout old, ns := new, nl := layout new }

/-- `CheckBackwardCompatibility(newTL, oldTL)`. -/
def lintCore (old new : Schema) : R :=
  let x := mkCtx old new
  if x.ol.panicked || x.nl.panicked then .panic else
  (allR (typeCheck x) (typeOrder old)).andThen <|
  (allR (funcCheck x) (funcOrder old)).andThen <|
  allR (newFuncCheck x) (funcOrder new)

def lintAccepts (old new : Schema) : Bool := lintCore old new == .ok

end TLVerif.Lint
