import TLVerif.Rpcextra.WireLemmas
import TLVerif.Rpcextra.Extras
/-! Round trips of the extras codecs: `read (write e ++ rest) = (norm e, rest)`. -/
namespace TLVerif.Rpcextra
open TLVerif.Prim TLVerif.Facts.Prim

theorem TraceContext.rt (t : TraceContext) (rest : Bytes)
    (h : hasBit t.fieldsMask 3 = true → strOK t.sourceId) :
    TraceContext.read (t.write ++ rest) = .ok (t.norm, rest) := by
  simp only [TraceContext.read, TraceContext.write, List.append_assoc]
  rw [u32_rt]; simp only [bind_ok]
  rw [u64_rt]; simp only [bind_ok]
  rw [u64_rt]; simp only [bind_ok]
  rw [optR_rt _ _ _ _ _ _ (fun _ => u64_rt _ _)]; simp only [bind_ok]
  rw [optR_rt _ _ _ _ _ _ (fun hb => str_rt _ _ (h hb))]; simp only [bind_ok]
  rfl

theorem tagPrepare_ne_commit : (tagCommitRequest == tagPrepareRequest) = false := by decide

theorem PersistentRequest.rt (p : PersistentRequest) (rest : Bytes) :
    PersistentRequest.read (p.write ++ rest) = .ok (p, rest) := by
  cases p with
  | prepare qlo qhi =>
    simp only [PersistentRequest.read, PersistentRequest.write, List.append_assoc]
    rw [u32_rt]; simp only [bind_ok, beq_self_eq_true, if_true]
    rw [u64_rt]; simp only [bind_ok]
    rw [u64_rt]; simp only [bind_ok]
    rfl
  | commit qlo qhi slo shi =>
    simp only [PersistentRequest.read, PersistentRequest.write, List.append_assoc]
    rw [u32_rt]; simp only [bind_ok, tagPrepare_ne_commit, beq_self_eq_true, if_true]
    rw [u64_rt]; simp only [bind_ok]
    rw [u64_rt]; simp only [bind_ok]
    rw [u64_rt]; simp only [bind_ok]
    rw [u64_rt]; simp only [bind_ok]
    rfl

theorem NetPid.rt (p : NetPid) (rest : Bytes) : NetPid.read (p.write ++ rest) = .ok (p, rest) := by
  simp only [NetPid.read, NetPid.write, List.append_assoc]
  rw [u32_rt]; simp only [bind_ok]
  rw [u32_rt]; simp only [bind_ok]
  rw [u32_rt]; simp only [bind_ok]
  rfl

/-- a Go map with fewer than 2^32 entries whose keys are writable strings -/
def dictOK {β : Type} (m : List (Bytes × β)) : Prop :=
  dictSorted m = true ∧ m.length < 4294967296 ∧ ∀ kv ∈ m, strOK kv.1

/-- what `WriteTL1` needs of the fields it writes (sizes fit their 32-bit counters, strings are
shorter than 2^56, maps are maps); all of it follows from a successful `preparePacket`, see
`FormatLemmas`, except `dictSorted`, the representation invariant of the model's maps. -/
structure ReqExtra.wf (e : ReqExtra) : Prop where
  wsbp : hasBit e.flags 15 = true → dictOK e.waitShardsBinlogPos
  sfk : hasBit e.flags 18 = true → e.stringForwardKeys.length < 4294967296 ∧ ∀ s ∈ e.stringForwardKeys, strOK s
  ifk : hasBit e.flags 19 = true → e.intForwardKeys.length < 4294967296
  sf : hasBit e.flags 20 = true → strOK e.stringForward
  tc : hasBit e.flags 29 = true → hasBit e.traceContext.fieldsMask 3 = true → strOK e.traceContext.sourceId
  ec : hasBit e.flags 30 = true → strOK e.executionContext

theorem u64W_length (v : UInt64) : (u64W v).length = 8 := rfl
theorem u32W_length (v : UInt32) : (u32W v).length = 4 := rfl

theorem ReqExtra.rt (e : ReqExtra) (rest : Bytes) (h : e.wf) :
    ReqExtra.read (e.write ++ rest) = .ok (e.norm, rest) := by
  simp only [ReqExtra.read, ReqExtra.write, List.append_assoc]
  rw [u32_rt]; simp only [bind_ok]
  rw [optR_rt _ _ _ _ _ _ (fun _ => u64_rt _ _)]; simp only [bind_ok]
  rw [optR_rt _ _ _ _ _ _ (fun hb => dict_rt u64R u64W _ _ (h.wsbp hb).1 (h.wsbp hb).2.1 (h.wsbp hb).2.2
        (fun _ _ r => u64_rt _ r))]; simp only [bind_ok]
  rw [optR_rt _ _ _ _ _ _ (fun _ => u64_rt _ _)]; simp only [bind_ok]
  rw [optR_rt _ _ _ _ _ _ (fun hb => vec_rt strR strW _ _ (h.sfk hb).1 (fun s _ => strW_length_ge s)
        (fun s hs r => str_rt s r ((h.sfk hb).2 s hs)))]; simp only [bind_ok]
  rw [optR_rt _ _ _ _ _ _ (fun hb => vec_rt u64R u64W _ _ (h.ifk hb) (fun s _ => by simp [u64W_length])
        (fun s _ r => u64_rt s r))]; simp only [bind_ok]
  rw [optR_rt _ _ _ _ _ _ (fun hb => str_rt _ _ (h.sf hb))]; simp only [bind_ok]
  rw [optR_rt _ _ _ _ _ _ (fun _ => u64_rt _ _)]; simp only [bind_ok]
  rw [optR_rt _ _ _ _ _ _ (fun _ => u32_rt _ _)]; simp only [bind_ok]
  rw [optR_rt _ _ _ _ _ _ (fun _ => u32_rt _ _)]; simp only [bind_ok]
  rw [optR_rt _ _ _ _ _ _ (fun _ => u64_rt _ _)]; simp only [bind_ok]
  rw [optR_rt _ _ _ _ _ _ (fun _ => PersistentRequest.rt _ _)]; simp only [bind_ok]
  rw [optR_rt _ _ _ _ _ _ (fun hb => TraceContext.rt _ _ (h.tc hb))]; simp only [bind_ok]
  rw [optR_rt _ _ _ _ _ _ (fun hb => str_rt _ _ (h.ec hb))]; simp only [bind_ok]
  rfl

structure ResExtra.wf (e : ResExtra) : Prop where
  stats : hasBit e.flags 6 = true → dictOK e.stats ∧ ∀ kv ∈ e.stats, strOK kv.2
  sbp : hasBit e.flags 14 = true → dictOK e.shardsBinlogPos

theorem ResExtra.rt (e : ResExtra) (rest : Bytes) (h : e.wf) :
    ResExtra.read (e.write ++ rest) = .ok (e.norm, rest) := by
  simp only [ResExtra.read, ResExtra.write, List.append_assoc]
  rw [u32_rt]; simp only [bind_ok]
  rw [optR_rt _ _ _ _ _ _ (fun _ => u64_rt _ _)]; simp only [bind_ok]
  rw [optR_rt _ _ _ _ _ _ (fun _ => u64_rt _ _)]; simp only [bind_ok]
  rw [optR_rt _ _ _ _ _ _ (fun _ => NetPid.rt _ _)]; simp only [bind_ok]
  rw [optR_rt _ _ _ _ _ _ (fun _ => u32_rt _ _)]; simp only [bind_ok]
  rw [optR_rt _ _ _ _ _ _ (fun _ => u32_rt _ _)]; simp only [bind_ok]
  rw [optR_rt _ _ _ _ _ _ (fun _ => u32_rt _ _)]; simp only [bind_ok]
  rw [optR_rt _ _ _ _ _ _ (fun _ => u32_rt _ _)]; simp only [bind_ok]
  rw [optR_rt _ _ _ _ _ _ (fun hb => dict_rt strR strW _ _ (h.stats hb).1.1 (h.stats hb).1.2.1 (h.stats hb).1.2.2
        (fun kv hkv r => str_rt _ r ((h.stats hb).2 kv hkv)))]; simp only [bind_ok]
  rw [optR_rt _ _ _ _ _ _ (fun hb => dict_rt u64R u64W _ _ (h.sbp hb).1 (h.sbp hb).2.1 (h.sbp hb).2.2
        (fun _ _ r => u64_rt _ r))]; simp only [bind_ok]
  rw [optR_rt _ _ _ _ _ _ (fun _ => u64_rt _ _)]; simp only [bind_ok]
  rw [optR_rt _ _ _ _ _ _ (fun _ => u64_rt _ _)]; simp only [bind_ok]
  rfl

end TLVerif.Rpcextra
