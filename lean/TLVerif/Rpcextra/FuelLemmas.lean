import TLVerif.Rpcextra.FormatLemmas
/-! Readers never return more input than they got; hence the fuel-driven loops of `Format.lean` never run out of fuel. -/
namespace TLVerif.Rpcextra
open TLVerif.Prim TLVerif.Facts.Prim

/-- a reader never returns more input than it was given -/
def NonInc {α : Type} (rd : Rd α) : Prop := ∀ r a r', rd r = .ok (a, r') → r'.length ≤ r.length

theorem bind_eq_ok {ε α β : Type} {m : Except ε α} {f : α → Except ε β} {b : β} (h : (m >>= f) = .ok b) :
    ∃ a, m = .ok a ∧ f a = .ok b := by
  cases m with
  | error e => cases h
  | ok a => exact ⟨a, rfl, h⟩

theorem u32R_len (r a : Bytes) (t : UInt32) (h : u32R r = .ok (t, a)) : r.length = a.length + 4 := by
  match r, h with
  | _ :: _ :: _ :: _ :: rest, h => simp only [u32R, Except.ok.injEq, Prod.mk.injEq] at h; rw [← h.2]; simp
  | [], h => cases h
  | [_], h => cases h
  | [_, _], h => cases h
  | [_, _, _], h => cases h

theorem u64R_len (r a : Bytes) (t : UInt64) (h : u64R r = .ok (t, a)) : r.length = a.length + 8 := by
  match r, h with
  | _ :: _ :: _ :: _ :: _ :: _ :: _ :: _ :: rest, h => simp only [u64R, Except.ok.injEq, Prod.mk.injEq] at h; rw [← h.2]; simp
  | [], h => cases h
  | [_], h => cases h
  | [_, _], h => cases h
  | [_, _, _], h => cases h
  | [_, _, _, _], h => cases h
  | [_, _, _, _, _], h => cases h
  | [_, _, _, _, _, _], h => cases h
  | [_, _, _, _, _, _, _], h => cases h

theorem u32R_nonInc : NonInc u32R := fun r a r' h => by have := u32R_len r r' a h; omega
theorem u64R_nonInc : NonInc u64R := fun r a r' h => by have := u64R_len r r' a h; omega

theorem strR_nonInc : NonInc strR := fun r a r' h => by
  obtain ⟨bs, _, hr⟩ := Prim.string_read_canonical r a r' h
  rw [hr]; simp

theorem optR_nonInc {α : Type} (c : Bool) (rd : Rd α) (d : α) (h : NonInc rd) : NonInc (optR c rd d) := by
  intro r a r' hr
  cases c with
  | false => simp only [optR, Bool.false_eq_true, if_false, Except.ok.injEq, Prod.mk.injEq] at hr; rw [← hr.2]; exact Nat.le_refl _
  | true => simp only [optR, if_true] at hr; exact h r a r' hr

theorem readN_nonInc {α : Type} (rd : Rd α) (h : NonInc rd) (n : Nat) : NonInc (readN rd n) := by
  induction n with
  | zero => intro r a r' hr; simp only [readN, Except.ok.injEq, Prod.mk.injEq] at hr; rw [← hr.2]; exact Nat.le_refl _
  | succ n ih =>
    intro r a r' hr
    simp only [readN] at hr
    cases h1 : rd r with
    | error e => simp [h1] at hr
    | ok p =>
      obtain ⟨x, r1⟩ := p
      simp only [h1] at hr
      cases h2 : readN rd n r1 with
      | error e => simp [h2] at hr
      | ok q =>
        obtain ⟨xs, r2⟩ := q
        simp only [h2, Except.ok.injEq, Prod.mk.injEq] at hr
        have a1 := h r x r1 h1
        have a2 := ih r1 xs r2 h2
        rw [← hr.2]; omega

theorem vecR_nonInc {α : Type} (rd : Rd α) (h : NonInc rd) : NonInc (vecR rd) := by
  intro r a r' hr
  simp only [vecR] at hr
  cases h1 : u32R r with
  | error e => simp [h1] at hr
  | ok p =>
    obtain ⟨l, r1⟩ := p
    simp only [h1] at hr
    have a1 := u32R_nonInc r l r1 h1
    split at hr
    · have := readN_nonInc rd h l.toNat r1 a r' hr; omega
    · cases hr

theorem pairR_nonInc {β : Type} (rd : Rd β) (h : NonInc rd) : NonInc (pairR rd) := by
  intro r a r' hr
  simp only [pairR] at hr
  cases h1 : strR r with
  | error e => simp [h1] at hr
  | ok p =>
    obtain ⟨k, r1⟩ := p
    simp only [h1] at hr
    cases h2 : rd r1 with
    | error e => simp [h2] at hr
    | ok q =>
      obtain ⟨v, r2⟩ := q
      simp only [h2, Except.ok.injEq, Prod.mk.injEq] at hr
      have a1 := strR_nonInc r k r1 h1
      have a2 := h r1 v r2 h2
      rw [← hr.2]; omega

theorem dictR_nonInc {β : Type} (rd : Rd β) (h : NonInc rd) : NonInc (dictR rd) := by
  intro r a r' hr
  simp only [dictR] at hr
  cases h1 : u32R r with
  | error e => simp [h1] at hr
  | ok p =>
    obtain ⟨l, r1⟩ := p
    simp only [h1] at hr
    have a1 := u32R_nonInc r l r1 h1
    split at hr
    · cases h2 : readN (pairR rd) l.toNat r1 with
      | error e => simp [h2] at hr
      | ok q =>
        obtain ⟨es, r2⟩ := q
        simp only [h2, Except.ok.injEq, Prod.mk.injEq] at hr
        have := readN_nonInc (pairR rd) (pairR_nonInc rd h) l.toNat r1 es r2 h2
        rw [← hr.2]; omega
    · cases hr

theorem TraceContext.read_nonInc : NonInc TraceContext.read := by
  intro r a r' h
  simp only [TraceContext.read] at h
  obtain ⟨⟨x1, r1⟩, h1, h⟩ := bind_eq_ok h
  obtain ⟨⟨x2, r2⟩, h2, h⟩ := bind_eq_ok h
  obtain ⟨⟨x3, r3⟩, h3, h⟩ := bind_eq_ok h
  obtain ⟨⟨x4, r4⟩, h4, h⟩ := bind_eq_ok h
  obtain ⟨⟨x5, r5⟩, h5, h⟩ := bind_eq_ok h
  simp only [pure, Except.pure, Except.ok.injEq, Prod.mk.injEq] at h
  have a1 := u32R_nonInc _ _ _ h1
  have a2 := u64R_nonInc _ _ _ h2
  have a3 := u64R_nonInc _ _ _ h3
  have a4 := optR_nonInc _ _ _ u64R_nonInc _ _ _ h4
  have a5 := optR_nonInc _ _ _ strR_nonInc _ _ _ h5
  dsimp only at a1 a2 a3 a4 a5
  rw [← h.2]; omega

theorem PersistentRequest.read_nonInc : NonInc PersistentRequest.read := by
  intro r a r' h
  simp only [PersistentRequest.read] at h
  obtain ⟨⟨tag, r0⟩, h0, h⟩ := bind_eq_ok h
  have a0 := u32R_nonInc _ _ _ h0
  dsimp only at h
  split at h
  · obtain ⟨⟨x1, r1⟩, h1, h⟩ := bind_eq_ok h
    obtain ⟨⟨x2, r2⟩, h2, h⟩ := bind_eq_ok h
    simp only [pure, Except.pure, Except.ok.injEq, Prod.mk.injEq] at h
    have a1 := u64R_nonInc _ _ _ h1
    have a2 := u64R_nonInc _ _ _ h2
    dsimp only at a1 a2
    rw [← h.2]; omega
  · split at h
    · obtain ⟨⟨x1, r1⟩, h1, h⟩ := bind_eq_ok h
      obtain ⟨⟨x2, r2⟩, h2, h⟩ := bind_eq_ok h
      obtain ⟨⟨x3, r3⟩, h3, h⟩ := bind_eq_ok h
      obtain ⟨⟨x4, r4⟩, h4, h⟩ := bind_eq_ok h
      simp only [pure, Except.pure, Except.ok.injEq, Prod.mk.injEq] at h
      have a1 := u64R_nonInc _ _ _ h1
      have a2 := u64R_nonInc _ _ _ h2
      have a3 := u64R_nonInc _ _ _ h3
      have a4 := u64R_nonInc _ _ _ h4
      dsimp only at a1 a2 a3 a4
      rw [← h.2]; omega
    · cases h

theorem NetPid.read_nonInc : NonInc NetPid.read := by
  intro r a r' h
  simp only [NetPid.read] at h
  obtain ⟨⟨x1, r1⟩, h1, h⟩ := bind_eq_ok h
  obtain ⟨⟨x2, r2⟩, h2, h⟩ := bind_eq_ok h
  obtain ⟨⟨x3, r3⟩, h3, h⟩ := bind_eq_ok h
  simp only [pure, Except.pure, Except.ok.injEq, Prod.mk.injEq] at h
  have a1 := u32R_nonInc _ _ _ h1
  have a2 := u32R_nonInc _ _ _ h2
  have a3 := u32R_nonInc _ _ _ h3
  dsimp only at a1 a2 a3
  rw [← h.2]; omega

theorem ReqExtra.read_nonInc : NonInc ReqExtra.read := by
  intro r a r' h
  simp only [ReqExtra.read] at h
  obtain ⟨⟨x1, r1⟩, h1, h⟩ := bind_eq_ok h
  obtain ⟨⟨x2, r2⟩, h2, h⟩ := bind_eq_ok h
  obtain ⟨⟨x3, r3⟩, h3, h⟩ := bind_eq_ok h
  obtain ⟨⟨x4, r4⟩, h4, h⟩ := bind_eq_ok h
  obtain ⟨⟨x5, r5⟩, h5, h⟩ := bind_eq_ok h
  obtain ⟨⟨x6, r6⟩, h6, h⟩ := bind_eq_ok h
  obtain ⟨⟨x7, r7⟩, h7, h⟩ := bind_eq_ok h
  obtain ⟨⟨x8, r8⟩, h8, h⟩ := bind_eq_ok h
  obtain ⟨⟨x9, r9⟩, h9, h⟩ := bind_eq_ok h
  obtain ⟨⟨x10, r10⟩, h10, h⟩ := bind_eq_ok h
  obtain ⟨⟨x11, r11⟩, h11, h⟩ := bind_eq_ok h
  obtain ⟨⟨x12, r12⟩, h12, h⟩ := bind_eq_ok h
  obtain ⟨⟨x13, r13⟩, h13, h⟩ := bind_eq_ok h
  obtain ⟨⟨x14, r14⟩, h14, h⟩ := bind_eq_ok h
  simp only [pure, Except.pure, Except.ok.injEq, Prod.mk.injEq] at h
  have a1 := u32R_nonInc _ _ _ h1
  have a2 := optR_nonInc _ _ _ u64R_nonInc _ _ _ h2
  have a3 := optR_nonInc _ _ _ (dictR_nonInc _ u64R_nonInc) _ _ _ h3
  have a4 := optR_nonInc _ _ _ u64R_nonInc _ _ _ h4
  have a5 := optR_nonInc _ _ _ (vecR_nonInc _ strR_nonInc) _ _ _ h5
  have a6 := optR_nonInc _ _ _ (vecR_nonInc _ u64R_nonInc) _ _ _ h6
  have a7 := optR_nonInc _ _ _ strR_nonInc _ _ _ h7
  have a8 := optR_nonInc _ _ _ u64R_nonInc _ _ _ h8
  have a9 := optR_nonInc _ _ _ u32R_nonInc _ _ _ h9
  have a10 := optR_nonInc _ _ _ u32R_nonInc _ _ _ h10
  have a11 := optR_nonInc _ _ _ u64R_nonInc _ _ _ h11
  have a12 := optR_nonInc _ _ _ PersistentRequest.read_nonInc _ _ _ h12
  have a13 := optR_nonInc _ _ _ TraceContext.read_nonInc _ _ _ h13
  have a14 := optR_nonInc _ _ _ strR_nonInc _ _ _ h14
  dsimp only at a1 a2 a3 a4 a5 a6 a7 a8 a9 a10 a11 a12 a13 a14
  rw [← h.2]; omega

theorem ResExtra.read_nonInc : NonInc ResExtra.read := by
  intro r a r' h
  simp only [ResExtra.read] at h
  obtain ⟨⟨x1, r1⟩, h1, h⟩ := bind_eq_ok h
  obtain ⟨⟨x2, r2⟩, h2, h⟩ := bind_eq_ok h
  obtain ⟨⟨x3, r3⟩, h3, h⟩ := bind_eq_ok h
  obtain ⟨⟨x4, r4⟩, h4, h⟩ := bind_eq_ok h
  obtain ⟨⟨x5, r5⟩, h5, h⟩ := bind_eq_ok h
  obtain ⟨⟨x6, r6⟩, h6, h⟩ := bind_eq_ok h
  obtain ⟨⟨x7, r7⟩, h7, h⟩ := bind_eq_ok h
  obtain ⟨⟨x8, r8⟩, h8, h⟩ := bind_eq_ok h
  obtain ⟨⟨x9, r9⟩, h9, h⟩ := bind_eq_ok h
  obtain ⟨⟨x10, r10⟩, h10, h⟩ := bind_eq_ok h
  obtain ⟨⟨x11, r11⟩, h11, h⟩ := bind_eq_ok h
  obtain ⟨⟨x12, r12⟩, h12, h⟩ := bind_eq_ok h
  simp only [pure, Except.pure, Except.ok.injEq, Prod.mk.injEq] at h
  have a1 := u32R_nonInc _ _ _ h1
  have a2 := optR_nonInc _ _ _ u64R_nonInc _ _ _ h2
  have a3 := optR_nonInc _ _ _ u64R_nonInc _ _ _ h3
  have a4 := optR_nonInc _ _ _ NetPid.read_nonInc _ _ _ h4
  have a5 := optR_nonInc _ _ _ u32R_nonInc _ _ _ h5
  have a6 := optR_nonInc _ _ _ u32R_nonInc _ _ _ h6
  have a7 := optR_nonInc _ _ _ u32R_nonInc _ _ _ h7
  have a8 := optR_nonInc _ _ _ u32R_nonInc _ _ _ h8
  have a9 := optR_nonInc _ _ _ (dictR_nonInc _ strR_nonInc) _ _ _ h9
  have a10 := optR_nonInc _ _ _ (dictR_nonInc _ u64R_nonInc) _ _ _ h10
  have a11 := optR_nonInc _ _ _ u64R_nonInc _ _ _ h11
  have a12 := optR_nonInc _ _ _ u64R_nonInc _ _ _ h12
  dsimp only at a1 a2 a3 a4 a5 a6 a7 a8 a9 a10 a11 a12
  rw [← h.2]; omega

/-! ### the fuel of the two loops is never exhausted -/

theorem parseWrappers_fuel (n : Nat) (h : Hctx) (c : WrapCount) (hn : h.request.length / 4 < n) :
    parseWrappers n h c ≠ none := by
  induction n generalizing h c with
  | zero => omega
  | succ n ih =>
    rw [parseWrappers]
    cases h1 : u32R h.request with
    | error e => simp
    | ok p =>
      obtain ⟨tag, after⟩ := p
      have l1 := u32R_len _ _ _ h1
      simp only
      split
      · cases h2 : u64R after with
        | error e => simp
        | ok q =>
          obtain ⟨a, r⟩ := q
          have l2 := u64R_len _ _ _ h2
          exact ih _ _ (by simp only; omega)
      · split
        · cases h2 : ReqExtra.read after with
          | error e => simp
          | ok q =>
            obtain ⟨e, r⟩ := q
            have l2 := ReqExtra.read_nonInc _ _ _ h2
            exact ih _ _ (by simp only; omega)
        · split
          · cases h2 : u64R after with
            | error e => simp
            | ok q =>
              obtain ⟨a, r⟩ := q
              have l2 := u64R_len _ _ _ h2
              simp only
              cases h3 : ReqExtra.read r with
              | error e => simp
              | ok q =>
                obtain ⟨e, r2⟩ := q
                have l3 := ReqExtra.read_nonInc _ _ _ h3
                exact ih _ _ (by simp only; omega)
          · split
            · exact ih _ _ (by simp only; omega)
            · simp

theorem parseResultExtras_fuel (n : Nat) (ex : ResExtra) (body : Bytes) (k : Nat) (hn : body.length / 4 < n) :
    parseResultExtras n ex body k ≠ none := by
  induction n generalizing ex body k with
  | zero => omega
  | succ n ih =>
    rw [parseResultExtras]
    cases h1 : u32R body with
    | error e => simp
    | ok p =>
      obtain ⟨tag, after⟩ := p
      have l1 := u32R_len _ _ _ h1
      simp only
      split
      · simp
      · cases h2 : ResExtra.read after with
        | error e => simp
        | ok q =>
          obtain ⟨e, r⟩ := q
          have l2 := ResExtra.read_nonInc _ _ _ h2
          exact ih _ _ _ (by omega)

/-- `ParseInvokeReq` as modelled never hits the artificial fuel bound: its result is the result of the Go loop -/
theorem parseInvokeReqFrom_fuel_ok (h0 : Hctx) (q : UInt64) (r : Bytes) :
    parseWrappers (r.length / 4 + 1) { h0 with queryId := q, request := r } {} ≠ none :=
  parseWrappers_fuel _ _ _ (by simp only; omega)

theorem parseResponseExtra_fuel_ok (ex0 : ResExtra) (body : Bytes) :
    parseResultExtras (body.length / 4 + 1) ex0 body 0 ≠ none :=
  parseResultExtras_fuel _ _ _ _ (by omega)

end TLVerif.Rpcextra
