import TLVerif.Rpcextra.Wire
import TLVerif.Generated.RpcextraFacts
/-!
Model of the generated TL1 codecs of the RPC extras (`pkg/rpc/internal/gen/internal`):
`RpcInvokeReqExtra` (= `rpc.RequestExtra`), `RpcReqResultExtra` (= `rpc.ResponseExtra`),
`TracingTraceContext`, `ExactlyOncePersistentRequest` (union), `NetPid`.
Each `write` / `read` follows `WriteTL1` / `ReadTL1` field by field: a field whose mask bit is clear is
not written, and is reset by the reader.  `True`-typed fields have no storage (the bit is the value).
Integers/doubles are bit patterns (`UInt32`/`UInt64`); Go `string` is `Bytes`.
-/
namespace TLVerif.Rpcextra
open TLVerif.Prim TLVerif.Facts.Rpcextra

/-- `TracingTraceContext` (`TraceId` is `{Lo, Hi int64}`) -/
structure TraceContext where
  fieldsMask : UInt32 := 0
  traceLo : UInt64 := 0
  traceHi : UInt64 := 0
  parentId : UInt64 := 0    -- fieldsMask.2
  sourceId : Bytes := []    -- fieldsMask.3
  deriving DecidableEq, Repr, Inhabited

def TraceContext.write (t : TraceContext) : Bytes :=
  u32W t.fieldsMask ++ (u64W t.traceLo ++ u64W t.traceHi)
    ++ optW (hasBit t.fieldsMask 2) (u64W t.parentId)
    ++ optW (hasBit t.fieldsMask 3) (strW t.sourceId)

def TraceContext.read : Rd TraceContext := fun r => do
  let (fm, r) ← u32R r
  let (lo, r) ← u64R r
  let (hi, r) ← u64R r
  let (pid, r) ← optR (hasBit fm 2) u64R 0 r
  let (sid, r) ← optR (hasBit fm 3) strR [] r
  pure ({ fieldsMask := fm, traceLo := lo, traceHi := hi, parentId := pid, sourceId := sid }, r)

/-- `ExactlyOncePersistentRequest`: the active variant only (Go keeps both variant structs and an
index; the inactive one is never written nor observable through the accessors). -/
inductive PersistentRequest where
  | prepare (qlo qhi : UInt64)
  | commit (qlo qhi slo shi : UInt64)
  deriving DecidableEq, Repr

instance : Inhabited PersistentRequest := ⟨.prepare 0 0⟩

def tagPrepareRequest : UInt32 := UInt32.ofNat tagExactlyOncePrepareRequest
def tagCommitRequest : UInt32 := UInt32.ofNat tagExactlyOnceCommitRequest

/-- `WriteTL1Boxed` of the union -/
def PersistentRequest.write : PersistentRequest → Bytes
  | .prepare qlo qhi => u32W tagPrepareRequest ++ (u64W qlo ++ u64W qhi)
  | .commit qlo qhi slo shi => u32W tagCommitRequest ++ (u64W qlo ++ u64W qhi ++ (u64W slo ++ u64W shi))

/-- `ReadTL1Boxed` of the union -/
def PersistentRequest.read : Rd PersistentRequest := fun r => do
  let (tag, r) ← u32R r
  if tag == tagPrepareRequest then
    let (qlo, r) ← u64R r
    let (qhi, r) ← u64R r
    pure (.prepare qlo qhi, r)
  else if tag == tagCommitRequest then
    let (qlo, r) ← u64R r
    let (qhi, r) ← u64R r
    let (slo, r) ← u64R r
    let (shi, r) ← u64R r
    pure (.commit qlo qhi slo shi, r)
  else .error .tag

/-- `RpcInvokeReqExtra` -/
structure ReqExtra where
  flags : UInt32 := 0
  requesterId : UInt64 := 0                          -- flags.9
  waitShardsBinlogPos : List (Bytes × UInt64) := []  -- flags.15 (map[string]int64)
  waitBinlogPos : UInt64 := 0                        -- flags.16
  stringForwardKeys : List Bytes := []               -- flags.18
  intForwardKeys : List UInt64 := []                 -- flags.19
  stringForward : Bytes := []                        -- flags.20
  intForward : UInt64 := 0                           -- flags.21
  customTimeoutMs : UInt32 := 0                      -- flags.23 (int32)
  supportedCompressionVersion : UInt32 := 0          -- flags.25 (int32)
  randomDelay : UInt64 := 0                          -- flags.26 (float64 bits)
  persistentQuery : PersistentRequest := .prepare 0 0  -- flags.28
  traceContext : TraceContext := {}                  -- flags.29
  executionContext : Bytes := []                     -- flags.30
  deriving DecidableEq, Repr, Inhabited

/-- `RpcInvokeReqExtra.WriteTL1` -/
def ReqExtra.write (e : ReqExtra) : Bytes :=
  u32W e.flags
    ++ optW (hasBit e.flags 9) (u64W e.requesterId)
    ++ optW (hasBit e.flags 15) (dictW u64W e.waitShardsBinlogPos)
    ++ optW (hasBit e.flags 16) (u64W e.waitBinlogPos)
    ++ optW (hasBit e.flags 18) (vecW strW e.stringForwardKeys)
    ++ optW (hasBit e.flags 19) (vecW u64W e.intForwardKeys)
    ++ optW (hasBit e.flags 20) (strW e.stringForward)
    ++ optW (hasBit e.flags 21) (u64W e.intForward)
    ++ optW (hasBit e.flags 23) (u32W e.customTimeoutMs)
    ++ optW (hasBit e.flags 25) (u32W e.supportedCompressionVersion)
    ++ optW (hasBit e.flags 26) (u64W e.randomDelay)
    ++ optW (hasBit e.flags 28) e.persistentQuery.write
    ++ optW (hasBit e.flags 29) e.traceContext.write
    ++ optW (hasBit e.flags 30) (strW e.executionContext)

/-- `RpcInvokeReqExtra.ReadTL1` (the result does not depend on the previous content of `item`) -/
def ReqExtra.read : Rd ReqExtra := fun r => do
  let (fl, r) ← u32R r
  let (rid, r) ← optR (hasBit fl 9) u64R 0 r
  let (wsbp, r) ← optR (hasBit fl 15) (dictR u64R) [] r
  let (wbp, r) ← optR (hasBit fl 16) u64R 0 r
  let (sfk, r) ← optR (hasBit fl 18) (vecR strR) [] r
  let (ifk, r) ← optR (hasBit fl 19) (vecR u64R) [] r
  let (sf, r) ← optR (hasBit fl 20) strR [] r
  let (ifw, r) ← optR (hasBit fl 21) u64R 0 r
  let (ct, r) ← optR (hasBit fl 23) u32R 0 r
  let (scv, r) ← optR (hasBit fl 25) u32R 0 r
  let (rd, r) ← optR (hasBit fl 26) u64R 0 r
  let (pq, r) ← optR (hasBit fl 28) PersistentRequest.read (.prepare 0 0) r
  let (tc, r) ← optR (hasBit fl 29) TraceContext.read {} r
  let (ec, r) ← optR (hasBit fl 30) strR [] r
  pure ({ flags := fl, requesterId := rid, waitShardsBinlogPos := wsbp, waitBinlogPos := wbp,
          stringForwardKeys := sfk, intForwardKeys := ifk, stringForward := sf, intForward := ifw,
          customTimeoutMs := ct, supportedCompressionVersion := scv, randomDelay := rd,
          persistentQuery := pq, traceContext := tc, executionContext := ec }, r)

/-- `NetPid` -/
structure NetPid where
  ip : UInt32 := 0
  portPid : UInt32 := 0
  utime : UInt32 := 0
  deriving DecidableEq, Repr, Inhabited

def NetPid.write (p : NetPid) : Bytes := u32W p.ip ++ (u32W p.portPid ++ u32W p.utime)

def NetPid.read : Rd NetPid := fun r => do
  let (a, r) ← u32R r
  let (b, r) ← u32R r
  let (c, r) ← u32R r
  pure ({ ip := a, portPid := b, utime := c }, r)

/-- `RpcReqResultExtra` -/
structure ResExtra where
  flags : UInt32 := 0
  binlogPos : UInt64 := 0                          -- flags.0
  binlogTime : UInt64 := 0                         -- flags.1
  enginePid : NetPid := {}                         -- flags.2
  requestSize : UInt32 := 0                        -- flags.3
  responseSize : UInt32 := 0                       -- flags.3
  failedSubqueries : UInt32 := 0                   -- flags.4
  compressionVersion : UInt32 := 0                 -- flags.5
  stats : List (Bytes × Bytes) := []               -- flags.6 (map[string]string)
  shardsBinlogPos : List (Bytes × UInt64) := []    -- flags.14 (map[string]int64)
  epochNumber : UInt64 := 0                        -- flags.27
  viewNumber : UInt64 := 0                         -- flags.27
  deriving DecidableEq, Repr, Inhabited

/-- `RpcReqResultExtra.WriteTL1` -/
def ResExtra.write (e : ResExtra) : Bytes :=
  u32W e.flags
    ++ optW (hasBit e.flags 0) (u64W e.binlogPos)
    ++ optW (hasBit e.flags 1) (u64W e.binlogTime)
    ++ optW (hasBit e.flags 2) e.enginePid.write
    ++ optW (hasBit e.flags 3) (u32W e.requestSize)
    ++ optW (hasBit e.flags 3) (u32W e.responseSize)
    ++ optW (hasBit e.flags 4) (u32W e.failedSubqueries)
    ++ optW (hasBit e.flags 5) (u32W e.compressionVersion)
    ++ optW (hasBit e.flags 6) (dictW strW e.stats)
    ++ optW (hasBit e.flags 14) (dictW u64W e.shardsBinlogPos)
    ++ optW (hasBit e.flags 27) (u64W e.epochNumber)
    ++ optW (hasBit e.flags 27) (u64W e.viewNumber)

/-- `RpcReqResultExtra.ReadTL1` -/
def ResExtra.read : Rd ResExtra := fun r => do
  let (fl, r) ← u32R r
  let (bp, r) ← optR (hasBit fl 0) u64R 0 r
  let (bt, r) ← optR (hasBit fl 1) u64R 0 r
  let (pid, r) ← optR (hasBit fl 2) NetPid.read {} r
  let (rqs, r) ← optR (hasBit fl 3) u32R 0 r
  let (rss, r) ← optR (hasBit fl 3) u32R 0 r
  let (fs, r) ← optR (hasBit fl 4) u32R 0 r
  let (cv, r) ← optR (hasBit fl 5) u32R 0 r
  let (st, r) ← optR (hasBit fl 6) (dictR strR) [] r
  let (sbp, r) ← optR (hasBit fl 14) (dictR u64R) [] r
  let (en, r) ← optR (hasBit fl 27) u64R 0 r
  let (vn, r) ← optR (hasBit fl 27) u64R 0 r
  pure ({ flags := fl, binlogPos := bp, binlogTime := bt, enginePid := pid, requestSize := rqs,
          responseSize := rss, failedSubqueries := fs, compressionVersion := cv, stats := st,
          shardsBinlogPos := sbp, epochNumber := en, viewNumber := vn }, r)

/-! ### what a receiver can see of a value: fields whose bit is clear are reset -/

def TraceContext.norm (t : TraceContext) : TraceContext :=
  { t with parentId := if hasBit t.fieldsMask 2 then t.parentId else 0,
           sourceId := if hasBit t.fieldsMask 3 then t.sourceId else [] }

def ReqExtra.norm (e : ReqExtra) : ReqExtra :=
  { flags := e.flags,
    requesterId := if hasBit e.flags 9 then e.requesterId else 0,
    waitShardsBinlogPos := if hasBit e.flags 15 then e.waitShardsBinlogPos else [],
    waitBinlogPos := if hasBit e.flags 16 then e.waitBinlogPos else 0,
    stringForwardKeys := if hasBit e.flags 18 then e.stringForwardKeys else [],
    intForwardKeys := if hasBit e.flags 19 then e.intForwardKeys else [],
    stringForward := if hasBit e.flags 20 then e.stringForward else [],
    intForward := if hasBit e.flags 21 then e.intForward else 0,
    customTimeoutMs := if hasBit e.flags 23 then e.customTimeoutMs else 0,
    supportedCompressionVersion := if hasBit e.flags 25 then e.supportedCompressionVersion else 0,
    randomDelay := if hasBit e.flags 26 then e.randomDelay else 0,
    persistentQuery := if hasBit e.flags 28 then e.persistentQuery else .prepare 0 0,
    traceContext := if hasBit e.flags 29 then e.traceContext.norm else {},
    executionContext := if hasBit e.flags 30 then e.executionContext else [] }

def ResExtra.norm (e : ResExtra) : ResExtra :=
  { flags := e.flags,
    binlogPos := if hasBit e.flags 0 then e.binlogPos else 0,
    binlogTime := if hasBit e.flags 1 then e.binlogTime else 0,
    enginePid := if hasBit e.flags 2 then e.enginePid else {},
    requestSize := if hasBit e.flags 3 then e.requestSize else 0,
    responseSize := if hasBit e.flags 3 then e.responseSize else 0,
    failedSubqueries := if hasBit e.flags 4 then e.failedSubqueries else 0,
    compressionVersion := if hasBit e.flags 5 then e.compressionVersion else 0,
    stats := if hasBit e.flags 6 then e.stats else [],
    shardsBinlogPos := if hasBit e.flags 14 then e.shardsBinlogPos else [],
    epochNumber := if hasBit e.flags 27 then e.epochNumber else 0,
    viewNumber := if hasBit e.flags 27 then e.viewNumber else 0 }

/-- mask-consistent: a field is non-default only if its bit is set (what the generated `Set…`/`Clear…`
accessors maintain) -/
def ReqExtra.consistent (e : ReqExtra) : Prop := e.norm = e
def ResExtra.consistent (e : ResExtra) : Prop := e.norm = e
instance (e : ReqExtra) : Decidable e.consistent := inferInstanceAs (Decidable (e.norm = e))
instance (e : ResExtra) : Decidable e.consistent := inferInstanceAs (Decidable (e.norm = e))

end TLVerif.Rpcextra
