import TLVerif.Rpcextra.Wire
import TLVerif.Prim.TL1StringLemmas
/-! Round-trip lemmas for the wire primitives of `Wire.lean`. -/
namespace TLVerif.Rpcextra
open TLVerif.Prim TLVerif.Facts.Prim

theorem bind_ok {ε α β : Type} (a : α) (f : α → Except ε β) : ((Except.ok a : Except ε α) >>= f) = f a := rfl

theorem le32_decode (n : Nat) (h : n < 4294967296) :
    (byteOf n).toNat + ((byteOf (n >>> 8)).toNat <<< 8) + ((byteOf (n >>> 16)).toNat <<< 16)
      + ((byteOf (n >>> 24)).toNat <<< 24) = n := by
  simp only [byteOf_toNat, Nat.shiftRight_eq_div_pow, Nat.shiftLeft_eq, Nat.reducePow]; omega

theorem u32_rt (v : UInt32) (rest : Bytes) : u32R (u32W v ++ rest) = .ok (v, rest) := by
  have h := v.toNat_lt
  simp only [u32W, le32, u32R, List.cons_append, List.nil_append]
  rw [le32_decode v.toNat (by simpa using h)]
  simp

theorem le64_decode (n : Nat) (h : n < 18446744073709551616) :
    (byteOf n).toNat + ((byteOf (n >>> 8)).toNat <<< 8) + ((byteOf (n >>> 16)).toNat <<< 16)
      + ((byteOf (n >>> 24)).toNat <<< 24) + ((byteOf (n >>> 32)).toNat <<< 32) + ((byteOf (n >>> 40)).toNat <<< 40)
      + ((byteOf (n >>> 48)).toNat <<< 48) + ((byteOf (n >>> 56)).toNat <<< 56) = n := by
  simp only [byteOf_toNat, Nat.shiftRight_eq_div_pow, Nat.shiftLeft_eq, Nat.reducePow]; omega

theorem u64_rt (v : UInt64) (rest : Bytes) : u64R (u64W v ++ rest) = .ok (v, rest) := by
  have h := v.toNat_lt
  simp only [u64W, le64, u64R, List.cons_append, List.nil_append]
  rw [le64_decode v.toNat (by simpa using h)]
  simp


/-- strings the Go writer accepts -/
def strOK (s : Bytes) : Prop := s.length ≤ maxHugeStringLen

theorem str_rt (s rest : Bytes) (h : strOK s) : strR (strW s ++ rest) = .ok (s, rest) := by
  obtain ⟨bs, hb⟩ := Prim.string_write_total s h
  simp only [strW, hb, strR]
  exact Prim.string_roundtrip s rest bs hb

theorem strW_length_ge (s : Bytes) : 4 ≤ (strW s).length := by
  unfold strW
  cases hb : stringWrite s with
  | none =>
    simp only
    have : ¬ s.length ≤ maxHugeStringLen := fun h => by
      obtain ⟨bs, hb'⟩ := Prim.string_write_total s h; simp [hb] at hb'
    have := maxHuge_eq; omega
  | some bs =>
    simp only
    have h4 := Prim.string_write_aligned s bs hb
    have : bs ≠ [] := by
      intro e; subst e
      unfold stringWrite at hb
      cases hw : stringWriteLen s.length with
      | none => simp [hw] at hb
      | some hp =>
        obtain ⟨hdr, p⟩ := hp
        simp only [hw] at hb
        unfold stringWriteLen at hw
        split at hw
        · simp at hw; simp [← hw.1] at hb
        · split at hw
          · simp at hw; simp [← hw.1] at hb
          · split at hw
            · simp at hw
            · simp at hw; simp [← hw.1] at hb
    have : 0 < bs.length := List.length_pos_iff.mpr this
    omega

theorem optR_rt {α : Type} (c : Bool) (rd : Rd α) (w : Bytes) (d x : α) (rest : Bytes)
    (h : c = true → rd (w ++ rest) = .ok (x, rest)) :
    optR c rd d (optW c w ++ rest) = .ok (if c then x else d, rest) := by
  cases c with
  | false => simp [optR, optW]
  | true => simpa [optR, optW] using h

theorem readN_rt {α : Type} (rd : Rd α) (wr : α → Bytes) (xs : List α) (rest : Bytes)
    (h : ∀ x ∈ xs, ∀ r, rd (wr x ++ r) = .ok (x, r)) :
    readN rd xs.length (writeAll wr xs ++ rest) = .ok (xs, rest) := by
  induction xs with
  | nil => simp [readN, writeAll]
  | cons x t ih =>
    simp only [List.length_cons, readN, writeAll, List.append_assoc]
    rw [h x (by simp)]
    simp only
    rw [ih (fun y hy => h y (by simp [hy]))]

theorem writeAll_length_ge {α : Type} (wr : α → Bytes) (k : Nat) (xs : List α)
    (h : ∀ x ∈ xs, k ≤ (wr x).length) : k * xs.length ≤ (writeAll wr xs).length := by
  induction xs with
  | nil => simp [writeAll]
  | cons x t ih =>
    simp only [writeAll, List.length_cons, List.length_append]
    have := h x (by simp)
    have := ih (fun y hy => h y (by simp [hy]))
    rw [Nat.mul_succ]; omega


theorem vec_rt {α : Type} (rd : Rd α) (wr : α → Bytes) (xs : List α) (rest : Bytes)
    (hlen : xs.length < 4294967296)
    (h4 : ∀ x ∈ xs, 4 ≤ (wr x).length)
    (h : ∀ x ∈ xs, ∀ r, rd (wr x ++ r) = .ok (x, r)) :
    vecR rd (vecW wr xs ++ rest) = .ok (xs, rest) := by
  simp only [vecR, vecW, List.append_assoc]
  rw [u32_rt]
  have e : (UInt32.ofNat xs.length).toNat = xs.length := by
    simp only [UInt32.toNat_ofNat']; omega
  have hs : lengthSane (writeAll wr xs ++ rest) (UInt32.ofNat xs.length) = true := by
    have := writeAll_length_ge wr 4 xs h4
    simp only [lengthSane, e, List.length_append, Bool.not_eq_true', decide_eq_false_iff_not]
    omega
  simp only [hs, if_true, e]
  exact readN_rt rd wr xs rest h

/-! ### dictionaries -/

theorem bytesLt_trans : ∀ (a b c : Bytes), bytesLt a b = true → bytesLt b c = true → bytesLt a c = true
  | [], [], _, h, _ => by simp [bytesLt] at h
  | [], _ :: _, [], _, h => by simp [bytesLt] at h
  | [], _ :: _, _ :: _, _, _ => by simp [bytesLt]
  | _ :: _, [], _, h, _ => by simp [bytesLt] at h
  | _ :: _, _ :: _, [], _, h => by simp [bytesLt] at h
  | x :: xs, y :: ys, z :: zs, h1, h2 => by
    simp only [bytesLt, Bool.or_eq_true, decide_eq_true_eq, Bool.and_eq_true, beq_iff_eq] at h1 h2 ⊢
    rcases h1 with h1 | ⟨e1, h1⟩
    · rcases h2 with h2 | ⟨e2, _⟩
      · exact Or.inl (UInt8.lt_trans h1 h2)
      · subst e2; exact Or.inl h1
    · subst e1
      rcases h2 with h2 | ⟨e2, h2⟩
      · exact Or.inl h2
      · subst e2; exact Or.inr ⟨rfl, bytesLt_trans xs ys zs h1 h2⟩

variable {β : Type}

theorem dictSorted_tail (a : Bytes × β) (t : List (Bytes × β)) (h : dictSorted (a :: t) = true) :
    dictSorted t = true := by
  cases t with
  | nil => rfl
  | cons b t => simp only [dictSorted, Bool.and_eq_true] at h; exact h.2

theorem dictSorted_head_lt (a : Bytes × β) (t : List (Bytes × β)) (h : dictSorted (a :: t) = true) :
    ∀ e ∈ t, bytesLt a.1 e.1 = true := by
  induction t generalizing a with
  | nil => intro e he; simp at he
  | cons b t ih =>
    simp only [dictSorted, Bool.and_eq_true] at h
    intro e he
    rcases List.mem_cons.mp he with rfl | he
    · exact h.1
    · exact bytesLt_trans _ _ _ h.1 (ih b h.2 e he)

theorem dictInsert_append (k : Bytes) (v : β) (m : List (Bytes × β))
    (h : ∀ e ∈ m, bytesLt e.1 k = true) : dictInsert k v m = m ++ [(k, v)] := by
  induction m with
  | nil => rfl
  | cons a t ih =>
    obtain ⟨k', v'⟩ := a
    have h1 : bytesLt k' k = true := h (k', v') (by simp)
    simp only [dictInsert, h1, if_true, List.cons_append]
    rw [ih (fun e he => h e (by simp [he]))]

theorem sorted_append_lt (acc : List (Bytes × β)) (x : Bytes × β) (t : List (Bytes × β))
    (h : dictSorted (acc ++ x :: t) = true) : ∀ e ∈ acc, bytesLt e.1 x.1 = true := by
  induction acc with
  | nil => intro e he; simp at he
  | cons a acc ih =>
    intro e he
    rw [List.cons_append] at h
    rcases List.mem_cons.mp he with rfl | he
    · exact dictSorted_head_lt _ _ h x (by simp)
    · exact ih (dictSorted_tail _ _ h) e he

theorem foldl_insert_sorted (l acc : List (Bytes × β)) (h : dictSorted (acc ++ l) = true) :
    l.foldl (fun m kv => dictInsert kv.1 kv.2 m) acc = acc ++ l := by
  induction l generalizing acc with
  | nil => simp
  | cons x t ih =>
    simp only [List.foldl_cons]
    rw [dictInsert_append x.1 x.2 acc (sorted_append_lt acc x t h)]
    rw [ih (acc ++ [(x.1, x.2)]) (by simpa using h)]
    simp

/-- a sorted association list is the map it denotes -/
theorem dictOfList_sorted (m : List (Bytes × β)) (h : dictSorted m = true) : dictOfList m = m := by
  have := foldl_insert_sorted m [] (by simpa using h)
  simpa [dictOfList] using this

theorem pair_rt (rd : Rd β) (wr : β → Bytes) (kv : Bytes × β) (rest : Bytes)
    (hk : strOK kv.1) (h : ∀ r, rd (wr kv.2 ++ r) = .ok (kv.2, r)) :
    pairR rd (pairW wr kv ++ rest) = .ok (kv, rest) := by
  simp only [pairR, pairW, List.append_assoc]
  rw [str_rt _ _ hk]
  simp only
  rw [h]

theorem dict_rt (rd : Rd β) (wr : β → Bytes) (m : List (Bytes × β)) (rest : Bytes)
    (hs : dictSorted m = true) (hlen : m.length < 4294967296)
    (hk : ∀ kv ∈ m, strOK kv.1)
    (h : ∀ kv ∈ m, ∀ r, rd (wr kv.2 ++ r) = .ok (kv.2, r)) :
    dictR rd (dictW wr m ++ rest) = .ok (m, rest) := by
  simp only [dictR, dictW, List.append_assoc]
  rw [u32_rt]
  have e : (UInt32.ofNat m.length).toNat = m.length := by
    simp only [UInt32.toNat_ofNat']; omega
  have h4 : ∀ kv ∈ m, 4 ≤ (pairW wr kv).length := by
    intro kv _
    have := strW_length_ge kv.1
    simp only [pairW, List.length_append]; omega
  have hsane : lengthSane (writeAll (pairW wr) m ++ rest) (UInt32.ofNat m.length) = true := by
    have := writeAll_length_ge (pairW wr) 4 m h4
    simp only [lengthSane, e, List.length_append, Bool.not_eq_true', decide_eq_false_iff_not]
    omega
  simp only [hsane, if_true, e]
  rw [readN_rt (pairR rd) (pairW wr) m rest (fun kv hkv r => pair_rt rd wr kv r (hk kv hkv) (h kv hkv))]
  simp only
  rw [dictOfList_sorted m hs]

end TLVerif.Rpcextra
