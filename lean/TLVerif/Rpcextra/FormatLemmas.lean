import TLVerif.Rpcextra.ExtrasLemmas
import TLVerif.Rpcextra.Format
/-! Lemmas about `preparePacket` / `ParseInvokeReq` / `prepareResponseBody` / `parseResponseExtra`. -/
namespace TLVerif.Rpcextra
open TLVerif.Prim TLVerif.Facts.Prim TLVerif.Facts.Rpcextra

/-- the user body starts with a tag that is not one of the four request wrappers (it is the tag of
the function being called) -/
def reqBodyOK (b : Bytes) : Bool :=
  match u32R b with
  | .ok (tag, _) => tag != tDestActor && tag != tDestFlags && tag != tDestActorFlags && tag != tTL2Marker
  | .error _ => false

def firstWord (b : Bytes) : UInt32 :=
  match u32R b with
  | .ok (tag, _) => tag
  | .error _ => 0

theorem tags_ne :
    (tDestFlags == tDestActor) = false ∧ (tDestActorFlags == tDestActor) = false ∧ (tDestActorFlags == tDestFlags) = false ∧
    (tTL2Marker == tDestActor) = false ∧ (tTL2Marker == tDestFlags) = false ∧ (tTL2Marker == tDestActorFlags) = false := by decide

theorem step_destActor (n : Nat) (h : Hctx) (c : WrapCount) (a : UInt64) (r : Bytes)
    (hr : h.request = u32W tDestActor ++ (u64W a ++ r)) :
    parseWrappers (n + 1) h c = parseWrappers n { h with actorId := a, request := r }
      { c with actorSet := c.actorSet + 1, tl2NotLast := c.tl2NotLast || c.tl2Set != 0 } := by
  rw [parseWrappers, hr, u32_rt]
  simp only [beq_self_eq_true, if_true]
  rw [u64_rt]

theorem step_destFlags (n : Nat) (h : Hctx) (c : WrapCount) (e : ReqExtra) (r : Bytes) (hw : e.wf)
    (hr : h.request = u32W tDestFlags ++ (e.write ++ r)) :
    parseWrappers (n + 1) h c = parseWrappers n { h with extra := e.norm, request := r }
      { c with extraSet := c.extraSet + 1, tl2NotLast := c.tl2NotLast || c.tl2Set != 0 } := by
  rw [parseWrappers, hr, u32_rt]
  simp only [tags_ne, beq_self_eq_true, if_true, if_false, Bool.false_eq_true]
  rw [ReqExtra.rt e r hw]

theorem step_destActorFlags (n : Nat) (h : Hctx) (c : WrapCount) (a : UInt64) (e : ReqExtra) (r : Bytes) (hw : e.wf)
    (hr : h.request = u32W tDestActorFlags ++ (u64W a ++ (e.write ++ r))) :
    parseWrappers (n + 1) h c = parseWrappers n { h with actorId := a, extra := e.norm, request := r }
      { c with actorSet := c.actorSet + 1, extraSet := c.extraSet + 1, tl2NotLast := c.tl2NotLast || c.tl2Set != 0 } := by
  rw [parseWrappers, hr, u32_rt]
  simp only [tags_ne, beq_self_eq_true, if_true, if_false, Bool.false_eq_true]
  rw [u64_rt]
  simp only
  rw [ReqExtra.rt e r hw]

theorem step_marker (n : Nat) (h : Hctx) (c : WrapCount) (r : Bytes)
    (hr : h.request = u32W tTL2Marker ++ r) :
    parseWrappers (n + 1) h c = parseWrappers n { h with tl2 := true, request := r } { c with tl2Set := c.tl2Set + 1 } := by
  rw [parseWrappers, hr, u32_rt]
  simp only [tags_ne, beq_self_eq_true, if_true, if_false, Bool.false_eq_true]

theorem step_body (n : Nat) (h : Hctx) (c : WrapCount) (hb : reqBodyOK h.request = true) :
    parseWrappers (n + 1) h c = some (.ok ({ h with reqTag := firstWord h.request }, c)) := by
  unfold reqBodyOK at hb
  rw [parseWrappers]
  unfold firstWord
  cases hu : u32R h.request with
  | error e => simp [hu] at hb
  | ok p =>
    obtain ⟨tag, after⟩ := p
    simp only [hu, Bool.and_eq_true, bne_iff_ne, ne_eq] at hb ⊢
    obtain ⟨⟨⟨h1, h2⟩, h3⟩, h4⟩ := hb
    simp [h1, h2, h3, h4]


theorem hasBit_zero (i : Nat) : hasBit 0 i = false := by simp [hasBit]

theorem ReqExtra.norm_flags_zero (e : ReqExtra) (h : e.flags = 0) : e.norm = {} := by
  simp [ReqExtra.norm, h, hasBit_zero]

theorem wireOf_prepare (req : Request) (p : Bytes × Nat) (hp : preparePacket req = some p) :
    wireOf p = requestHeader req ++ req.body := by
  unfold preparePacket at hp
  simp only at hp
  split at hp
  · injection hp with hp; subst hp
    simp [wireOf]
  · simp at hp

/-- what the server must end up with -/
def expectedHctx (req : Request) : Hctx :=
  fillInternals { queryId := req.queryId, actorId := req.actorId, extra := req.extra.norm, tl2 := req.tl2,
                  reqTag := firstWord req.body, request := req.body }

theorem u32R_short (b : Bytes) (h : b.length < 4) : u32R b = .error .eof := by
  match b with
  | [] => rfl
  | [_] => rfl
  | [_, _] => rfl
  | [_, _, _] => rfl
  | _ :: _ :: _ :: _ :: _ => simp at h; omega

theorem reqBodyOK_length (b : Bytes) (h : reqBodyOK b = true) : 4 ≤ b.length := by
  by_cases hl : b.length < 4
  · simp [reqBodyOK, u32R_short b hl] at h
  · omega

theorem parse_header (req : Request) (hb : reqBodyOK req.body = true) (hw : req.extra.wf) :
    parseInvokeReq (requestHeader req ++ req.body) = .ok (expectedHctx req) := by
  have hl := reqBodyOK_length _ hb
  unfold parseInvokeReq parseInvokeReqFrom requestHeader
  simp only [List.append_assoc]
  rw [u64_rt]
  simp only
  cases ha : (req.actorId != 0) <;> cases hf : (req.extra.flags != 0) <;> cases ht : req.tl2
  all_goals simp only [Bool.and_false, Bool.and_true, if_false, if_true,
    Bool.false_eq_true, List.nil_append, List.append_assoc]
  all_goals (try have ha0 : req.actorId = 0 := by simpa using ha)
  all_goals (try have hf0 : req.extra.flags = 0 := by simpa using hf)
  · -- no wrapper, TL1
    obtain ⟨n, hn⟩ : ∃ n, req.body.length / 4 + 1 = n + 1 := ⟨_, rfl⟩
    rw [hn, step_body _ _ _ hb]
    simp [expectedHctx, ha0, ht, ReqExtra.norm_flags_zero _ hf0]
  · obtain ⟨n, hn⟩ : ∃ n, (u32W tTL2Marker ++ req.body).length / 4 + 1 = n + 1 + 1 :=
      ⟨(u32W tTL2Marker ++ req.body).length / 4 - 1, by simp only [List.length_append, u32W_length]; omega⟩
    rw [hn, step_marker _ _ _ _ rfl, step_body _ _ _ hb]
    simp [expectedHctx, ha0, ht, ReqExtra.norm_flags_zero _ hf0]
  · obtain ⟨n, hn⟩ : ∃ n, (u32W tDestFlags ++ (req.extra.write ++ req.body)).length / 4 + 1 = n + 1 + 1 :=
      ⟨(u32W tDestFlags ++ (req.extra.write ++ req.body)).length / 4 - 1, by simp only [List.length_append, u32W_length]; omega⟩
    rw [hn, step_destFlags _ _ _ _ _ hw rfl, step_body _ _ _ hb]
    simp [expectedHctx, ha0, ht]
  · obtain ⟨n, hn⟩ : ∃ n, (u32W tDestFlags ++ (req.extra.write ++ (u32W tTL2Marker ++ req.body))).length / 4 + 1 = n + 1 + 1 + 1 :=
      ⟨(u32W tDestFlags ++ (req.extra.write ++ (u32W tTL2Marker ++ req.body))).length / 4 - 2, by simp only [List.length_append, u32W_length]; omega⟩
    rw [hn, step_destFlags _ _ _ _ _ hw rfl, step_marker _ _ _ _ rfl, step_body _ _ _ hb]
    simp [expectedHctx, ha0, ht]
  · obtain ⟨n, hn⟩ : ∃ n, (u32W tDestActor ++ (u64W req.actorId ++ req.body)).length / 4 + 1 = n + 1 + 1 :=
      ⟨(u32W tDestActor ++ (u64W req.actorId ++ req.body)).length / 4 - 1, by simp only [List.length_append, u32W_length]; omega⟩
    rw [hn, step_destActor _ _ _ _ _ rfl, step_body _ _ _ hb]
    simp [expectedHctx, ht, ReqExtra.norm_flags_zero _ hf0]
  · obtain ⟨n, hn⟩ : ∃ n, (u32W tDestActor ++ (u64W req.actorId ++ (u32W tTL2Marker ++ req.body))).length / 4 + 1 = n + 1 + 1 + 1 :=
      ⟨(u32W tDestActor ++ (u64W req.actorId ++ (u32W tTL2Marker ++ req.body))).length / 4 - 2, by simp only [List.length_append, u32W_length]; omega⟩
    rw [hn, step_destActor _ _ _ _ _ rfl, step_marker _ _ _ _ rfl, step_body _ _ _ hb]
    simp [expectedHctx, ht, ReqExtra.norm_flags_zero _ hf0]
  · obtain ⟨n, hn⟩ : ∃ n, (u32W tDestActorFlags ++ (u64W req.actorId ++ (req.extra.write ++ req.body))).length / 4 + 1 = n + 1 + 1 :=
      ⟨(u32W tDestActorFlags ++ (u64W req.actorId ++ (req.extra.write ++ req.body))).length / 4 - 1, by simp only [List.length_append, u32W_length]; omega⟩
    rw [hn, step_destActorFlags _ _ _ _ _ _ hw rfl, step_body _ _ _ hb]
    simp [expectedHctx, ht]
  · obtain ⟨n, hn⟩ : ∃ n, (u32W tDestActorFlags ++ (u64W req.actorId ++ (req.extra.write ++ (u32W tTL2Marker ++ req.body)))).length / 4 + 1 = n + 1 + 1 + 1 :=
      ⟨(u32W tDestActorFlags ++ (u64W req.actorId ++ (req.extra.write ++ (u32W tTL2Marker ++ req.body)))).length / 4 - 2, by simp only [List.length_append, u32W_length]; omega⟩
    rw [hn, step_destActorFlags _ _ _ _ _ _ hw rfl, step_marker _ _ _ _ rfl, step_body _ _ _ hb]
    simp [expectedHctx, ht]

/-- C40, request direction: what `ParseInvokeReq` yields on the bytes `preparePacket` produced. -/
theorem parse_prepare (req : Request) (p : Bytes × Nat) (hb : reqBodyOK req.body = true) (hw : req.extra.wf)
    (hp : preparePacket req = some p) : parseInvokeReq (wireOf p) = .ok (expectedHctx req) := by
  rw [wireOf_prepare req p hp]; exact parse_header req hb hw


/-! ### responses -/

/-- In TL1 body format the result body must start with a tag that is none of the four magics the
client looks for (`ReqResultHeader`, `ReqError`, `RpcReqResultError`, `RpcReqResultErrorWrapped`);
in TL2 format the server inserts the marker, so any body will do. -/
def respBodyOK (tl2 : Bool) (b : Bytes) : Bool :=
  tl2 || match u32R b with
    | .ok (tag, _) => tag != tReqResultHeader && tag != tReqError && tag != tRpcReqResultError && tag != tRpcReqResultErrorWrapped
    | .error _ => false

theorem resp_tags_ne :
    (tTL2Marker == tReqResultHeader) = false ∧ (tTL2Marker == tReqError) = false ∧ (tTL2Marker == tRpcReqResultError) = false ∧
    (tTL2Marker == tRpcReqResultErrorWrapped) = false ∧ (tRpcReqResultError == tReqResultHeader) = false ∧
    (tRpcReqResultError == tReqError) = false := by decide

theorem rstep_extra (n : Nat) (ex e : ResExtra) (r : Bytes) (k : Nat) (hw : e.wf) :
    parseResultExtras (n + 1) ex (u32W tReqResultHeader ++ (e.write ++ r)) k = parseResultExtras n e.norm r (k + 1) := by
  rw [parseResultExtras, u32_rt]
  simp only [bne_self_eq_false, if_false, Bool.false_eq_true]
  rw [ResExtra.rt e r hw]

theorem rstep_end (n : Nat) (ex : ResExtra) (body after : Bytes) (tag : UInt32) (k : Nat)
    (hu : u32R body = .ok (tag, after)) (ht : (tag != tReqResultHeader) = true) :
    parseResultExtras (n + 1) ex body k = some (.ok (body, ex, tag, after, k)) := by
  rw [parseResultExtras, hu]
  simp only [ht, if_true]

theorem ResExtra.norm_flags_zero (e : ResExtra) (h : e.flags = 0) : e.norm = {} := by
  simp [ResExtra.norm, h, hasBit_zero]

/-- the loop consumes exactly the extras part -/
theorem parse_extras_part (ex : ResExtra) (tail after : Bytes) (tag : UInt32) (hw : ex.wf)
    (hu : u32R tail = .ok (tag, after)) (ht : (tag != tReqResultHeader) = true) :
    ∃ k, k ≤ 1 ∧ parseResultExtras ((extrasOnWire ex ++ tail).length / 4 + 1) {} (extrasOnWire ex ++ tail) 0
      = some (.ok (tail, ex.norm, tag, after, k)) := by
  have hl : 4 ≤ tail.length := by
    by_cases h : tail.length < 4
    · rw [u32R_short tail h] at hu; cases hu
    · omega
  unfold extrasOnWire
  cases hf : (ex.flags != 0)
  · have hf0 : ex.flags = 0 := by simpa using hf
    refine ⟨0, by omega, ?_⟩
    simp only [Bool.false_eq_true, if_false, List.nil_append]
    obtain ⟨n, hn⟩ : ∃ n, tail.length / 4 + 1 = n + 1 := ⟨_, rfl⟩
    rw [hn, rstep_end _ _ _ _ _ _ hu ht, ResExtra.norm_flags_zero _ hf0]
  · refine ⟨1, by omega, ?_⟩
    simp only [if_true, List.append_assoc]
    obtain ⟨n, hn⟩ : ∃ n, (u32W tReqResultHeader ++ (ex.write ++ tail)).length / 4 + 1 = n + 1 + 1 :=
      ⟨(u32W tReqResultHeader ++ (ex.write ++ tail)).length / 4 - 1, by simp only [List.length_append, u32W_length]; omega⟩
    rw [hn, rstep_extra _ _ _ _ _ hw, rstep_end _ _ _ _ _ _ hu ht]


theorem wireOf_response (h : RespIn) (err : HandlerErr) (resp : Bytes) (es : Nat) (fl : UInt32)
    (hp : prepareResponseBody h err = .ok resp es fl) :
    h.noResult = false ∧ fl = h.extra.flags &&& h.reqFlags ∧
    wireOf (resp, es) = u64W h.queryId ++ (extrasOnWire (maskedExtra h)
      ++ ((if err.isNone && h.tl2 then u32W tTL2Marker else []) ++ responseBody h err)) := by
  unfold prepareResponseBody at hp
  simp only at hp
  cases hn : h.noResult
  · simp only [hn, Bool.false_eq_true, if_false] at hp
    generalize (if (err.isNone && h.tl2) = true then u32W tTL2Marker else []) = marker at hp ⊢
    split at hp
    · injection hp with h1 h2 h3
      subst h1; subst h2; subst h3
      refine ⟨rfl, rfl, ?_⟩
      simp [wireOf]
    · cases hp
  · simp [hn] at hp


theorem respBodyOK_tl1 (b : Bytes) (h : respBodyOK false b = true) :
    ∃ tag after, u32R b = .ok (tag, after) ∧ (tag != tReqResultHeader) = true ∧ (tag == tReqError) = false ∧
      (tag == tRpcReqResultError) = false ∧ (tag == tRpcReqResultErrorWrapped) = false := by
  unfold respBodyOK at h
  cases hu : u32R b with
  | error e => simp [hu] at h
  | ok p =>
    obtain ⟨tag, after⟩ := p
    simp only [hu, Bool.false_or, Bool.and_eq_true, bne_iff_ne, ne_eq] at h
    obtain ⟨⟨⟨h1, h2⟩, h3⟩, h4⟩ := h
    exact ⟨tag, after, rfl, by simpa using h1, by simpa using h2, by simpa using h3, by simpa using h4⟩

theorem parseResponseExtra_ok (tl2 : Bool) (ex : ResExtra) (body : Bytes)
    (hb : respBodyOK tl2 body = true) (hw : ex.wf) :
    parseResponseExtra tl2 {} (extrasOnWire ex ++ ((if tl2 then u32W tTL2Marker else []) ++ body))
      = .ok (body, ex.norm, .ok) := by
  unfold parseResponseExtra
  cases tl2
  · -- TL1 body
    obtain ⟨tag, after, hu, h1, h2, h3, h4⟩ := respBodyOK_tl1 _ hb
    simp only [Bool.false_eq_true, if_false, List.nil_append]
    obtain ⟨k, hk, hpe⟩ := parse_extras_part ex body after tag hw hu h1
    rw [hpe]
    have : ¬ k > 1 := by omega
    simp only [this, h2, h3, h4, if_false, Bool.false_eq_true]
  · simp only [if_true]
    have hu : u32R (u32W tTL2Marker ++ body) = .ok (tTL2Marker, body) := u32_rt _ _
    obtain ⟨k, hk, hpe⟩ := parse_extras_part ex (u32W tTL2Marker ++ body) body tTL2Marker hw hu
      (by have := resp_tags_ne.1; simpa [bne] using this)
    rw [hpe]
    have : ¬ k > 1 := by omega
    simp only [this, if_false, resp_tags_ne, Bool.false_eq_true, bne_self_eq_false]

theorem parseResponseExtra_err (tl2 : Bool) (ex : ResExtra) (q : UInt64) (code : UInt32) (desc : Bytes)
    (hd : strOK desc) (hw : ex.wf) :
    parseResponseExtra tl2 {} (extrasOnWire ex ++ (u32W tRpcReqResultError ++ (u64W q ++ (u32W code ++ strW desc))))
      = .ok ([], ex.norm, .rpcError code desc) := by
  unfold parseResponseExtra
  have hu : u32R (u32W tRpcReqResultError ++ (u64W q ++ (u32W code ++ strW desc)))
      = .ok (tRpcReqResultError, u64W q ++ (u32W code ++ strW desc)) := u32_rt _ _
  obtain ⟨k, hk, hpe⟩ := parse_extras_part ex _ _ tRpcReqResultError hw hu
    (by have := resp_tags_ne.2.2.2.2.1; simpa [bne] using this)
  rw [hpe]
  have : ¬ k > 1 := by omega
  simp only [this, if_false, resp_tags_ne, Bool.false_eq_true, beq_self_eq_true, if_true]
  rw [u64_rt]
  simp only [readCodeDesc]
  rw [u32_rt]
  simp only
  have := str_rt desc [] hd
  rw [List.append_nil] at this
  rw [this]

/-- C40, response direction, successful call: the client gets the handler's body and the handler's
extra restricted to the requested bits. -/
theorem parse_response_ok (h : RespIn) (resp : Bytes) (es : Nat) (fl : UInt32)
    (hb : respBodyOK h.tl2 h.response = true) (hw : (maskedExtra h).wf)
    (hp : prepareResponseBody h .none = .ok resp es fl) :
    parseResponse h.tl2 (wireOf (resp, es)) = .ok (h.queryId, h.response, (maskedExtra h).norm, .ok) := by
  obtain ⟨_, _, hwire⟩ := wireOf_response h .none resp es fl hp
  have hbody : responseBody h .none = h.response := rfl
  have hm : (if (HandlerErr.none.isNone && h.tl2) = true then u32W tTL2Marker else [])
      = (if h.tl2 = true then u32W tTL2Marker else []) := rfl
  rw [hwire, hbody, hm]
  unfold parseResponse
  rw [u64_rt]
  simp only
  rw [parseResponseExtra_ok h.tl2 _ _ hb hw]

/-- C40, response direction, failed call: code and description arrive as `errorOnWire` put them
(code 0 of an `*rpc.Error` becomes `Unknown`), extras as above, no body. -/
theorem parse_response_err (h : RespIn) (err : HandlerErr) (code : UInt32) (desc : Bytes) (resp : Bytes) (es : Nat) (fl : UInt32)
    (he : errorOnWire h.reqTag err = some (code, desc)) (hd : strOK desc) (hw : (maskedExtra h).wf)
    (hp : prepareResponseBody h err = .ok resp es fl) :
    parseResponse h.tl2 (wireOf (resp, es)) = .ok (h.queryId, [], (maskedExtra h).norm, .rpcError code desc) := by
  obtain ⟨_, _, hwire⟩ := wireOf_response h err resp es fl hp
  have hne : err.isNone = false := by
    cases err with
    | none => simp [errorOnWire] at he
    | rpc c d => rfl
    | noHandler => rfl
    | other d => rfl
  have hbody : responseBody h err = u32W tRpcReqResultError ++ (u64W h.queryId ++ (u32W code ++ strW desc)) := by
    simp only [responseBody, he]
  have hm : (if (err.isNone && h.tl2) = true then u32W tTL2Marker else []) = [] := by
    rw [hne]; rfl
  rw [hwire, hbody, hm, List.nil_append]
  unfold parseResponse
  rw [u64_rt]
  simp only
  rw [parseResponseExtra_err h.tl2 _ _ _ _ hd hw]


/-! ### everything `WriteTL1` needs follows from the packet length check -/

theorem stringWrite_none (s : Bytes) (h : ¬ strOK s) : stringWrite s = none := by
  have hm := maxHuge_eq; have ht := tiny_eq; have hmm := maxMedium_eq
  unfold strOK at h
  unfold stringWrite stringWriteLen
  rw [if_neg (by omega), if_neg (by omega), if_pos (by omega)]

theorem strOK_of_short (s : Bytes) (h : (strW s).length < 72057594037927936) : strOK s := by
  by_cases hs : strOK s
  · exact hs
  · have := stringWrite_none s hs
    have hm := maxHuge_eq
    simp only [strW, this] at h
    unfold strOK at hs
    omega

theorem writeAll_mem_le {α : Type} (wr : α → Bytes) (xs : List α) (x : α) (h : x ∈ xs) :
    (wr x).length ≤ (writeAll wr xs).length := by
  induction xs with
  | nil => simp at h
  | cons y t ih =>
    simp only [writeAll, List.length_append]
    rcases List.mem_cons.mp h with rfl | h
    · omega
    · have := ih h; omega

theorem dictOK_of_short {β : Type} (wr : β → Bytes) (m : List (Bytes × β)) (hs : dictSorted m = true)
    (hl : (dictW wr m).length < 4294967296) : dictOK m := by
  refine ⟨hs, ?_, ?_⟩
  · have h4 : ∀ kv ∈ m, 4 ≤ (pairW wr kv).length := by
      intro kv _
      have := strW_length_ge kv.1
      simp only [pairW, List.length_append]; omega
    have := writeAll_length_ge (pairW wr) 4 m h4
    simp only [dictW, List.length_append, u32W_length] at hl
    omega
  · intro kv hkv
    have := writeAll_mem_le (pairW wr) m kv hkv
    simp only [dictW, List.length_append, u32W_length] at hl
    simp only [pairW, List.length_append] at this
    exact strOK_of_short _ (by omega)

theorem vec_short {α : Type} (wr : α → Bytes) (xs : List α) (h4 : ∀ x ∈ xs, 4 ≤ (wr x).length)
    (hl : (vecW wr xs).length < 4294967296) : xs.length < 4294967296 := by
  have := writeAll_length_ge wr 4 xs h4
  simp only [vecW, List.length_append, u32W_length] at hl
  omega

theorem optW_true (w : Bytes) : optW true w = w := rfl

theorem TraceContext.source_short (t : TraceContext) (hb : hasBit t.fieldsMask 3 = true) :
    (strW t.sourceId).length ≤ t.write.length := by
  simp only [TraceContext.write, hb, optW_true, List.length_append]
  omega

/-- the maps of the value are maps (always true of a Go `map`) -/
def ReqExtra.mapsOK (e : ReqExtra) : Prop := hasBit e.flags 15 = true → dictSorted e.waitShardsBinlogPos = true
instance (e : ReqExtra) : Decidable e.mapsOK := by unfold ReqExtra.mapsOK; infer_instance

theorem ReqExtra.wf_of_short (e : ReqExtra) (hm : e.mapsOK) (hl : e.write.length < 4294967296) : e.wf := by
  unfold ReqExtra.write at hl
  simp only [List.length_append] at hl
  refine ⟨fun hb => ?_, fun hb => ?_, fun hb => ?_, fun hb => ?_, fun hb hb3 => ?_, fun hb => ?_⟩
  · rw [hb, optW_true] at hl
    exact dictOK_of_short u64W _ (hm hb) (by omega)
  · rw [hb, optW_true] at hl
    refine ⟨vec_short strW _ (fun s _ => strW_length_ge s) (by omega), fun s hs => ?_⟩
    have := writeAll_mem_le strW _ s hs
    simp only [vecW, List.length_append, u32W_length] at hl
    exact strOK_of_short _ (by omega)
  · rw [hb, optW_true] at hl
    exact vec_short u64W _ (fun s _ => by simp [u64W_length]) (by omega)
  · rw [hb, optW_true] at hl
    exact strOK_of_short _ (by omega)
  · rw [hb, optW_true] at hl
    have := TraceContext.source_short _ hb3
    exact strOK_of_short _ (by omega)
  · rw [hb, optW_true] at hl
    exact strOK_of_short _ (by omega)

def ResExtra.mapsOK (e : ResExtra) : Prop :=
  (hasBit e.flags 6 = true → dictSorted e.stats = true) ∧ (hasBit e.flags 14 = true → dictSorted e.shardsBinlogPos = true)
instance (e : ResExtra) : Decidable e.mapsOK := by unfold ResExtra.mapsOK; infer_instance

theorem ResExtra.wf_of_short (e : ResExtra) (hm : e.mapsOK) (hl : e.write.length < 4294967296) : e.wf := by
  unfold ResExtra.write at hl
  simp only [List.length_append] at hl
  refine ⟨fun hb => ?_, fun hb => ?_⟩
  · rw [hb, optW_true] at hl
    refine ⟨dictOK_of_short strW _ (hm.1 hb) (by omega), fun kv hkv => ?_⟩
    have := writeAll_mem_le (pairW strW) _ kv hkv
    simp only [dictW, List.length_append, u32W_length] at hl
    simp only [pairW, List.length_append] at this
    exact strOK_of_short _ (by omega)
  · rw [hb, optW_true] at hl
    exact dictOK_of_short u64W _ (hm.2 hb) (by omega)


theorem limits : maxPacketLen - packetOverhead < 4294967296 := by decide

theorem ReqExtra.wf_of_flags_zero (e : ReqExtra) (h : e.flags = 0) : e.wf := by
  refine ⟨?_, ?_, ?_, ?_, ?_, ?_⟩ <;> (rw [h, hasBit_zero]; intro hb; cases hb)

theorem ResExtra.wf_of_flags_zero (e : ResExtra) (h : e.flags = 0) : e.wf := by
  refine ⟨?_, ?_⟩ <;> (rw [h, hasBit_zero]; intro hb; cases hb)

/-- a successful `preparePacket` implies everything the extra's writer needs -/
theorem prepare_wf (req : Request) (p : Bytes × Nat) (hm : req.extra.mapsOK)
    (hp : preparePacket req = some p) : req.extra.wf := by
  by_cases hf : req.extra.flags = 0
  · exact ReqExtra.wf_of_flags_zero _ hf
  · apply ReqExtra.wf_of_short _ hm
    have hlim := limits
    unfold preparePacket at hp
    simp only at hp
    split at hp
    · next hv =>
      simp only [validBodyLen, Bool.not_eq_true', decide_eq_false_iff_not, List.length_append] at hv
      have hfb : (req.extra.flags != 0) = true := by simpa using hf
      unfold requestHeader at hv
      simp only [hfb, Bool.and_true, if_true, List.length_append] at hv
      split at hv
      · simp only [List.length_append] at hv; omega
      · simp only [List.length_append] at hv; omega
    · cases hp

/-- a successful `prepareResponseBody` implies everything the extra's writer needs -/
theorem response_wf (h : RespIn) (err : HandlerErr) (resp : Bytes) (es : Nat) (fl : UInt32)
    (hm : (maskedExtra h).mapsOK) (hp : prepareResponseBody h err = .ok resp es fl) : (maskedExtra h).wf := by
  by_cases hf : (maskedExtra h).flags = 0
  · exact ResExtra.wf_of_flags_zero _ hf
  · apply ResExtra.wf_of_short _ hm
    have hlim := limits
    unfold prepareResponseBody at hp
    simp only at hp
    cases hn : h.noResult
    · simp only [hn, Bool.false_eq_true, if_false] at hp
      generalize (if (err.isNone && h.tl2) = true then u32W tTL2Marker else []) = marker at hp
      split at hp
      · next hv =>
        simp only [validBodyLen, Bool.not_eq_true', decide_eq_false_iff_not, List.length_append] at hv
        have hfb : ((maskedExtra h).flags != 0) = true := by simpa using hf
        simp only [extrasOnWire, hfb, if_true, List.length_append] at hv
        omega
      · cases hp
    · simp [hn] at hp

/-- … and that the error description is a writable string -/
theorem response_desc_ok (h : RespIn) (err : HandlerErr) (code : UInt32) (desc : Bytes) (resp : Bytes) (es : Nat) (fl : UInt32)
    (he : errorOnWire h.reqTag err = some (code, desc)) (hp : prepareResponseBody h err = .ok resp es fl) : strOK desc := by
  have hlim := limits
  unfold prepareResponseBody at hp
  simp only at hp
  cases hn : h.noResult
  · simp only [hn, Bool.false_eq_true, if_false] at hp
    generalize (if (err.isNone && h.tl2) = true then u32W tTL2Marker else []) = marker at hp
    split at hp
    · next hv =>
      simp only [validBodyLen, Bool.not_eq_true', decide_eq_false_iff_not, List.length_append, responseBody, he] at hv
      exact strOK_of_short _ (by omega)
    · cases hp
  · simp [hn] at hp

/-! ### proxy hop -/

theorem hasBit_norm_tc (t : TraceContext) : t.norm.norm = t.norm := by
  cases t; simp only [TraceContext.norm]
  congr 1 <;> split <;> simp_all

theorem ReqExtra.norm_norm (e : ReqExtra) : e.norm.norm = e.norm := by
  cases e
  simp only [ReqExtra.norm]
  congr 1 <;> split <;> simp_all [hasBit_norm_tc]

theorem ReqExtra.norm_mapsOK (e : ReqExtra) (h : e.mapsOK) : e.norm.mapsOK := by
  intro hb
  have hb' : hasBit e.flags 15 = true := hb
  simp only [ReqExtra.norm, hb', if_true]
  exact h hb'

/-- A request relayed by `ForwardAndFlush` reaches the final server with the client's query id, body and
extras, but **without the actor id and without the TL2 marker**: `Request{Body, Extra, queryID}` in `forward.go`
copies neither `ActorID` nor `BodyFormatTL2`. -/
theorem forward_keeps_extras_drops_actor_and_format (req : Request) (p : Bytes × Nat) (p2 : Bytes × Nat)
    (hb : reqBodyOK req.body = true) (hm : req.extra.mapsOK) (hp : preparePacket req = some p)
    (hf : forwardRequest (expectedHctx req) = some p2) :
    viaProxy (wireOf p) = .ok (some (.ok (expectedHctx { req with actorId := 0, tl2 := false }))) := by
  unfold viaProxy
  rw [parse_prepare req p hb (prepare_wf req p hm hp) hp]
  simp only [hf]
  unfold forwardRequest at hf
  let req2 : Request := { body := (expectedHctx req).request, extra := (expectedHctx req).extra, queryId := (expectedHctx req).queryId }
  have hb2 : reqBodyOK req2.body = true := hb
  have hm2 : req2.extra.mapsOK := ReqExtra.norm_mapsOK _ hm
  have hf2 : preparePacket req2 = some p2 := hf
  rw [parse_prepare req2 p2 hb2 (prepare_wf req2 p2 hm2 hf2) hf2]
  simp only [req2, expectedHctx, fillInternals, ReqExtra.norm_norm]

end TLVerif.Rpcextra
